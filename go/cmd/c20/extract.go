package main

import (
	"fmt"
	"os"
	"path/filepath"
	"regexp"
	"strings"

	"nvharness/lib/gofacts"
)

// wrapFact is the regenerated description of one UnmarshalJSON (Nv.C20.Wrap).
type wrapFact struct {
	kind      string // checkedBare | checkedOnly | unconditional | unknown
	minLen    int
	emptyZero bool
	parser    string // atoi | parseUint64 | parseDuration | fromString | unknown
}

func (w wrapFact) lean() string {
	return fmt.Sprintf("⟨.%s, %d, %s, .%s⟩", w.kind, w.minLen, gofacts.LeanBool(w.emptyZero), w.parser)
}

var (
	reLenVar = regexp.MustCompile(`(?:var )?(\w+) :?= len\(b\)`)
	// a parse call, with at most one level of nested parentheses in its arguments
	reCalls = regexp.MustCompile(`strconv\.\w+\((?:[^()]|\([^()]*\))*\)|time\.ParseDuration\((?:[^()]|\([^()]*\))*\)|\bi\.FromString\((?:[^()]|\([^()]*\))*\)`)
)

// classifyUnmarshal reads the normalised body of an UnmarshalJSON method.
func classifyUnmarshal(body string) wrapFact {
	w := wrapFact{kind: "unknown", parser: "unknown"}
	if body == "" {
		return w
	}
	m := reLenVar.FindStringSubmatch(body)
	if m == nil {
		return w
	}
	L := regexp.QuoteMeta(m[1])
	// length guard: the first `if L …` statement, returning an error
	switch {
	case regexp.MustCompile(`if ` + L + ` == 0 \{ return Err\w+ \}`).MatchString(body):
		w.minLen = 1
	default:
		if g := regexp.MustCompile(`if ` + L + ` (<|<=) (\d+) \{ return Err\w+ \}`).FindStringSubmatch(body); g != nil {
			n := 0
			fmt.Sscanf(g[2], "%d", &n)
			if g[1] == "<=" {
				n++
			}
			w.minLen = n
		}
	}
	slice := "b[1 : " + m[1] + "-1]"
	hasSlice := strings.Contains(body, slice)
	posCheck := "if b[0] == '\"' && b[" + m[1] + "-1] == '\"' {"
	negCheck := regexp.MustCompile(`if b\[0\] != '"' \|\| b\[` + L + `-1\] != '"' \{ return Err\w+ \}`)
	negBare := regexp.MustCompile(`if b\[0\] != '"' \|\| b\[` + L + `-1\] != '"' \{ (?:[^{}]|\{[^{}]*\})*string\(b\)(?:[^{}]|\{[^{}]*\})*return nil \}`)
	mentionsB0 := strings.Contains(body, "b[0]")
	switch {
	case !hasSlice:
		w.kind = "unknown"
	case !mentionsB0:
		w.kind = "unconditional"
	case strings.Contains(body, posCheck) && strings.Index(body, posCheck) < strings.Index(body, slice) &&
		strings.Contains(gofacts.After(body, slice), "string(b)"):
		w.kind = "checkedBare"
	case negCheck.MatchString(body) && negCheck.FindStringIndex(body)[0] < strings.Index(body, slice):
		w.kind = "checkedOnly"
	case negBare.MatchString(body) && negBare.FindStringIndex(body)[0] < strings.Index(body, slice):
		w.kind = "checkedBare" // `if not quoted { parse string(b); …; return nil }` then strip
	}
	w.emptyZero = regexp.MustCompile(`if (\w+ == ""|len\(\w+\) == 0) \{ \*i = 0 return nil \}`).MatchString(body)
	// every parse call must be of one recognised kind, applied to the stripped text or to the whole token
	argOK := map[string]bool{"string(" + slice + ")": true, "string(b)": true}
	for _, a := range regexp.MustCompile(`(?:var )?(\w+) :?= string\(b(?:\[1 : `+L+`-1\])?\)`).FindAllStringSubmatch(body, -1) {
		argOK[a[1]] = true
	}
	kinds := map[string]bool{}
	for _, c := range reCalls.FindAllString(body, -1) {
		open := strings.IndexByte(c, '(')
		fn, args := c[:open], c[open+1:len(c)-1]
		first := args
		rest := ""
		if depth, cut := 0, -1; true {
			for i, ch := range args {
				if ch == '(' {
					depth++
				} else if ch == ')' {
					depth--
				} else if ch == ',' && depth == 0 {
					cut = i
					break
				}
			}
			if cut >= 0 {
				first, rest = args[:cut], strings.TrimSpace(args[cut+1:])
			}
		}
		switch {
		case !argOK[first]:
			kinds["unknown"] = true
		case fn == "strconv.Atoi" && rest == "":
			kinds["atoi"] = true
		case fn == "strconv.ParseInt" && rest == "10, 64":
			kinds["atoi"] = true // same function on a 64-bit platform
		case fn == "strconv.ParseUint" && rest == "10, 64":
			kinds["parseUint64"] = true
		case fn == "time.ParseDuration" && rest == "":
			kinds["parseDuration"] = true
		case fn == "i.FromString" && rest == "":
			kinds["fromString"] = true
		default:
			kinds["unknown"] = true
		}
	}
	if len(kinds) == 1 {
		for k := range kinds {
			w.parser = k
		}
	}
	return w
}

// classifyByteConv reads FromString: how an element value becomes a byte.
func classifyByteConv(body string) string {
	if !strings.Contains(body, "(*i)[j] = byte(t)") {
		return "unknown"
	}
	cmp := regexp.MustCompile(`if [^{}]*\bt\b[^{}]*\{`).FindAllString(body, -1)
	rng := regexp.MustCompile(`if t < 0 \|\| t > (255|0xff|0xFF|math\.MaxUint8) \{ return [^{}]*\}`)
	switch {
	case len(cmp) == 0:
		return "wrap"
	case len(cmp) == 1 && rng.MatchString(body) && rng.FindStringIndex(body)[0] < strings.Index(body, "(*i)[j] = byte(t)"):
		return "rangeChecked"
	}
	return "unknown"
}

func extract(repo, leanDir string) {
	load := func(rel string) *gofacts.File { return gofacts.MustLoad(repo, rel) }
	i64 := load("tex/jsi64.go")
	u64 := load("tex/jsu64.go")
	jb := load("tex/jsbyte.go")
	jt := load("tex/jstime.go")
	ts := load("tex/timestamp.go")
	du := load("tex/duration.go")
	b64 := load("tex/base64.go")
	hx := load("tex/hex.go")

	wI := classifyUnmarshal(i64.Body("JsInt64", "UnmarshalJSON"))
	wU := classifyUnmarshal(u64.Body("JsUInt64", "UnmarshalJSON"))
	wB := classifyUnmarshal(jb.Body("JsByte", "UnmarshalJSON"))
	wT := classifyUnmarshal(jt.Body("JsUnixTime", "UnmarshalJSON"))
	wN := classifyUnmarshal(jt.Body("JsNanoTime", "UnmarshalJSON"))
	wS := classifyUnmarshal(ts.Body("UnixStamp", "UnmarshalJSON"))
	wD := classifyUnmarshal(du.Body("Duration", "UnmarshalJSON"))
	fromString := jb.Body("JsByte", "FromString")
	conv := classifyByteConv(fromString)

	quoteTail := "newBuf = append(newBuf, '\"') newBuf = append(newBuf, buf...) newBuf = append(newBuf, '\"') return newBuf, nil"
	marsh := func(f *gofacts.File, recv, expr string) bool {
		b := f.Body(recv, "MarshalJSON")
		return gofacts.Has(b, "buf := []byte("+expr+")") && gofacts.Has(b, quoteTail)
	}
	marshalQuotedDecimal := marsh(i64, "JsInt64", "strconv.FormatInt(int64(i), 10)") &&
		marsh(u64, "JsUInt64", "strconv.FormatUint(uint64(i), 10)") &&
		marsh(jt, "JsUnixTime", "strconv.FormatInt(time.Time(i).Unix(), 10)") &&
		marsh(jt, "JsNanoTime", "strconv.FormatInt(time.Time(i).UnixNano(), 10)") &&
		marsh(ts, "UnixStamp", "strconv.FormatInt(int64(i), 10)") &&
		gofacts.Has(jt.Body("JsUnixTime", "UnmarshalJSON"), "*i = JsUnixTime(time.Unix(int64(t), 0).Local())") &&
		gofacts.Has(jt.Body("JsNanoTime", "UnmarshalJSON"), "*i = JsNanoTime(time.Unix(0, int64(t)).Local())") &&
		gofacts.Has(ts.Body("UnixStamp", "UnmarshalJSON"), "*i = UnixStamp(t)") &&
		gofacts.Has(i64.Body("JsInt64", "UnmarshalJSON"), "*i = JsInt64(t)") &&
		gofacts.Has(u64.Body("JsUInt64", "UnmarshalJSON"), "*i = JsUInt64(t)")
	dm := du.Body("Duration", "MarshalJSON")
	durMarshal := gofacts.Has(dm, "var ii = (time.Duration)(i) var bytes = []byte(ii.String())") &&
		gofacts.Has(dm, "out = append(out, '\"') out = append(out, bytes...) out = append(out, '\"') return out, nil") &&
		gofacts.Has(du.Body("Duration", "UnmarshalJSON"), "*i = (Duration)(dur)")
	bm := jb.Body("JsByte", "MarshalJSON")
	byteMarshal := gofacts.Has(bm, "buf := i.ToJS()") && gofacts.Has(bm, quoteTail) &&
		gofacts.Has(jb.Body("JsByte", "ToJS"), "var builder = i.splitBuilder() return builder.Bytes()") &&
		gofacts.Has(jb.Body("JsByte", "splitBuilder"), `for j := 0; j < size; j++ { _, _ = builder.WriteString(strconv.Itoa(int(i[j]))) if j != size-1 { _, _ = builder.WriteString("/") } }`)
	byteSplit := gofacts.Has(fromString, `if len(strBuf) == 0 { *i = nil return nil }`) &&
		gofacts.Has(fromString, `var strNums = strings.Split(strBuf, "/")`) &&
		gofacts.Has(fromString, `t, err := strconv.Atoi(strNums[j]) if err != nil { return err }`) &&
		gofacts.Before(fromString, "*i = make(JsByte, size)", "strconv.Atoi(strNums[j])")
	hexOne := func(name, call string) bool { return gofacts.Has(hx.Body("", name), "return "+call) }
	hexBases := hexOne("I64Hex", "strconv.FormatInt(i, 16)") && hexOne("U64Hex", "strconv.FormatUint(u, 16)") &&
		hexOne("I64HexV2", "strconv.FormatInt(i, 32)") && hexOne("U64HexV2", "strconv.FormatUint(u, 32)") &&
		hexOne("HexI64", "strconv.ParseInt(s, 16, 64)") && hexOne("HexU64", "strconv.ParseUint(s, 16, 64)") &&
		hexOne("HexI64V2", "strconv.ParseInt(s, 32, 64)") && hexOne("HexU64V2", "strconv.ParseUint(s, 32, 64)")
	base64Raw := gofacts.Has(b64.Body("Base64Bytes", "Scan"), "base64.RawStdEncoding.DecodeString(ds)") &&
		gofacts.Has(b64.Body("Base64Bytes", "Value"), "return base64.RawStdEncoding.EncodeToString(i), nil") &&
		gofacts.Has(b64.Body("Base64Bytes", "Scan"), "case []byte: ds = string(v) case string: ds = v default: return fmt.Errorf(")
	// how the SQL scanners turn the dynamic value into an integer / a stamp
	legacySwitch := "var ts int64 switch v := value.(type) { case int32: ts = int64(v) case uint32: ts = int64(v) case int64: ts = v case uint64: ts = int64(v) case int: ts = int64(v) case uint: ts = int64(v) }"
	strictCall := "var ts, err = scanInt64(value) if err != nil { return err }"
	strictHelper := gofacts.Norm(`{ switch v := value.(type) { case nil: return 0, nil case int32: return int64(v), nil case uint32: return int64(v), nil case int64: return v, nil
		case uint64: if v > math.MaxInt64 { return 0, fmt.Errorf("scan.value.out.of.range:%d", v) } return int64(v), nil case int: return int64(v), nil
		case uint: if uint64(v) > math.MaxInt64 { return 0, fmt.Errorf("scan.value.out.of.range:%d", v) } return int64(v), nil
		case []byte: return strconv.ParseInt(string(v), 10, 64) case string: return strconv.ParseInt(v, 10, 64) } return 0, fmt.Errorf("unsupported.scan.type:%T", value) }`)
	nanoScan, unixScan := ts.Body("UnixNano2Time", "Scan"), ts.Body("Unix2Time", "Scan")
	nanoTail, unixTail := " *s = UnixNano2Time(time.Unix(0, ts)) return nil }", " *s = Unix2Time(time.Unix(ts, 0)) return nil }"
	scanShape := "unknown"
	switch {
	case nanoScan == "{ "+legacySwitch+nanoTail && unixScan == "{ "+legacySwitch+unixTail:
		scanShape = "legacy"
	case nanoScan == "{ "+strictCall+nanoTail && unixScan == "{ "+strictCall+unixTail && ts.Body("", "scanInt64") == strictHelper:
		scanShape = "strict"
	}
	stampShape := "unknown"
	stampBody := func(recv, shape string) bool {
		b := ts.Body(recv, "Scan")
		switch shape {
		case "legacy":
			return b == gofacts.Norm("{ var t, ok = value.(time.Time) if ok { *i = "+recv+"(t.Unix()) } return nil }")
		default:
			return b == gofacts.Norm("{ switch t := value.(type) { case nil: case time.Time: *i = "+recv+`(t.Unix()) default: return fmt.Errorf("unsupported.scan.type:%T", value) } return nil }`)
		}
	}
	for _, sh := range []string{"legacy", "strict"} {
		if stampBody("UnixStamp", sh) && stampBody("SQLTime2Unix", sh) {
			stampShape = sh
		}
	}
	sqlScanValue := strings.HasSuffix(nanoScan, nanoTail) && strings.HasSuffix(unixScan, unixTail) &&
		gofacts.Has(ts.Body("UnixNano2Time", "Value"), "return time.Time(s).UnixNano(), nil") &&
		gofacts.Has(ts.Body("Unix2Time", "Value"), "return time.Time(s).Unix(), nil") &&
		ts.Body("UnixStamp", "Value") == "{ return time.Unix(int64(i), 0), nil }" &&
		ts.Body("SQLTime2Unix", "Value") == "{ return time.Unix(int64(i), 0), nil }"
	durToml := du.Body("Duration", "UnmarshalTOML") == gofacts.Norm("{ var s, ok = v.(string) if !ok { return ErrInvalidDuration } var dur, err = time.ParseDuration(s) if err != nil { return err } *i = (Duration)(dur) return nil }")
	durGetter := du.Body("Duration", "Duration") == "{ return time.Duration(i) }"
	byteToString := jb.Body("JsByte", "ToString") == gofacts.Norm("{ var builder = i.splitBuilder() return builder.String() }")

	lb := gofacts.LeanBool
	out := fmt.Sprintf(`import Nv.Model.C20
set_option linter.unusedVariables false
/-! GENERATED by `+"`c20 extract`"+` from tex/{jsi64,jsu64,jsbyte,jstime,timestamp,duration,base64,hex}.go — do not edit. -/
namespace Nv.Gen.C20
def cfg : Nv.C20.Cfg :=
  { i64 := %s, u64 := %s, byte := %s, unixTime := %s, nanoTime := %s, stamp := %s, dur := %s,
    byteConv := .%s, scanInt := .%s, scanStamp := .%s }
def facts : Nv.C20.Facts := ⟨%s, %s, %s, %s, %s, %s, %s, %s, %s, %s⟩
end Nv.Gen.C20
`, wI.lean(), wU.lean(), wB.lean(), wT.lean(), wN.lean(), wS.lean(), wD.lean(), conv, scanShape, stampShape,
		lb(marshalQuotedDecimal), lb(durMarshal), lb(byteMarshal), lb(byteSplit), lb(hexBases), lb(base64Raw), lb(sqlScanValue),
		lb(durToml), lb(durGetter), lb(byteToString))
	if err := gofacts.WriteIfChanged(filepath.Join(leanDir, "Nv/Gen/C20.lean"), out); err != nil {
		fmt.Fprintln(os.Stderr, err)
		os.Exit(2)
	}
	fmt.Printf("extract C20: scanInt=%s scanStamp=%s byteConv=%s facts=%v,%v,%v,%v,%v,%v,%v,%v,%v,%v i64=%v u64=%v byte=%v unixTime=%v nanoTime=%v stamp=%v dur=%v\n",
		scanShape, stampShape, conv, marshalQuotedDecimal, durMarshal, byteMarshal, byteSplit, hexBases, base64Raw, sqlScanValue, durToml, durGetter, byteToString,
		wI, wU, wB, wT, wN, wS, wD)
}
