package main

import (
	"encoding/hex"
	"strconv"
	"strings"
	"time"

	"nvharness/lib/corr"
	"nvharness/lib/rng"
)

var intTypes = []string{"i64", "u64", "utime", "ntime", "stamp"}
var allTypes = []string{"i64", "u64", "utime", "ntime", "stamp", "dur", "byte"}

var boundaryDigits = []string{
	"0", "1", "7", "9", "10", "99", "100", "105", "123", "127", "128", "255", "256", "300", "909", "1000",
	"2147483647", "2147483648", "4294967295", "4294967296",
	"9223372036854775806", "9223372036854775807", "9223372036854775808", "9223372036854775809",
	"18446744073709551614", "18446744073709551615", "18446744073709551616", "18446744073709551617",
	"99999999999999999999", "340282366920938463463374607431768211456",
}

func randDigits(r *rng.R, n int) string {
	var sb strings.Builder
	for i := 0; i < n; i++ {
		d := r.Intn(10)
		if i == 0 && n > 1 && d == 0 {
			d = 1 + r.Intn(9)
		}
		sb.WriteByte(byte('0' + d))
	}
	return sb.String()
}

// genCore: optional sign + leading zeros + decimal digits (1…25 digits, biased to the 63/64-bit edges).
func genCore(r *rng.R) string {
	var digits string
	switch r.Intn(4) {
	case 0:
		digits = boundaryDigits[r.Intn(len(boundaryDigits))]
	case 1:
		digits = randDigits(r, r.Range(17, 21))
	default:
		digits = randDigits(r, r.Range(1, 25))
	}
	if r.Chance(1, 5) {
		digits = strings.Repeat("0", r.Range(1, 3)) + digits
	}
	return r.Pick("", "", "", "-", "-", "+") + digits
}

// genIntToken: the grammar of the property's quantifier — quoted / bare, sign, zeros, blanks, junk, empty.
func genIntToken(r *rng.R) []byte {
	core := genCore(r)
	switch r.Intn(22) {
	case 0, 1, 2, 3, 4, 5, 6:
		return []byte(`"` + core + `"`)
	case 7, 8, 9, 10, 11:
		return []byte(core) // bare number (what a JSON library passes for an unquoted number)
	case 12:
		return []byte(`"` + r.Pick(" ", "\t", "  ") + core + `"`)
	case 13:
		return []byte(`"` + core + r.Pick(" ", "\n", "x", ".0", "e2", "_", ",") + `"`)
	case 14:
		return []byte(r.Pick(`""`, `""`, `"`, ``, `"-"`, `"+"`, `-`, `" "`))
	case 15:
		return []byte(r.Pick(`"`+core, core+`"`, `'`+core+`'`, `""`+core+`""`, ` `+core, core+` `, `"`+core+`" `))
	case 16:
		k := r.Intn(len(core) + 1)
		return []byte(`"` + core[:k] + r.Pick("a", "_", " ", "-", "+", ".", "/", "\x00", "\xff", "٣") + core[k:] + `"`)
	case 17:
		return []byte(genJSONScalar(r))
	case 18:
		return []byte(`"` + core + `.` + randDigits(r, r.Range(0, 3)) + `"`)
	case 19:
		return []byte(core + r.Pick(".5", ".0", "e3", "E+2", "e-1", ".25e1"))
	default:
		// classes an edit keyed on length, exotic blanks, radix prefixes or a second sign would need
		q := r.Pick(`"`, `"`, ``)
		switch r.Intn(6) {
		case 0:
			return []byte(q + r.Pick("", "-") + strings.Repeat("0", r.Range(40, 90)) + randDigits(r, r.Range(1, 19)) + q)
		case 1:
			return []byte(q + randDigits(r, r.Range(60, 120)) + q)
		case 2:
			return []byte(q + r.Pick("\v", "\f", "\u00a0", "\ufeff", "\u2003") + core + q)
		case 3:
			return []byte(q + r.Pick("0x", "0X", "0b", "0o", "0_", "-0x") + randDigits(r, r.Range(1, 6)) + q)
		case 4:
			return []byte(q + r.Pick("+-", "--", "-+", "++", "- ", "+ ") + randDigits(r, r.Range(1, 12)) + q)
		default:
			return []byte(q + r.Pick("１２３", "٠١٢", "1２3", "1​2") + q)
		}
	}
}

func genJSONScalar(r *rng.R) string {
	return r.Pick("null", "true", "false", "1.5", "-0.0", "0.0", "1e2", "1E+2", "12.50", "-1e-2", "0", "-0", "10", "100", "101", "909",
		"[7]", "[105]", "[1,2]", `{"a":1}`, `"12"`, `"1\n"`, `"\"12\""`, `"null"`, `"true"`, "1e400", "123456789012345678901234567890")
}

var byteElems = []string{"0", "1", "7", "44", "127", "128", "254", "255", "256", "257", "300", "511", "512", "1000", "65535", "-1", "-0", "-255", "-256",
	"+5", "+255", "+256", "007", "0255", "9223372036854775807", "9223372036854775808", "-9223372036854775808", "-9223372036854775809", "", "a", "1a", " 1", "1 ", "0x10"}

func genByteToken(r *rng.R) []byte {
	n := r.PickInt(0, 1, 1, 2, 2, 3, 4, 6)
	var parts []string
	for i := 0; i < n; i++ {
		if r.Chance(3, 5) {
			parts = append(parts, strconv.Itoa(r.Intn(256)))
		} else {
			parts = append(parts, byteElems[r.Intn(len(byteElems))])
		}
	}
	text := strings.Join(parts, r.Pick("/", "/", "/", "/", "/", ",", "//", " / "))
	if r.Chance(1, 12) {
		text = r.Pick("/", "//", "1/", "/1", text+"/")
	}
	switch r.Intn(10) {
	case 0:
		return []byte(text) // bare
	case 1:
		return []byte(r.Pick(`"`+text, text+`"`, `'`+text+`'`, `[`+text+`]`))
	default:
		return []byte(`"` + text + `"`)
	}
}

func randFrac(r *rng.R, n int) string {
	var sb strings.Builder
	for i := 0; i < n; i++ {
		sb.WriteByte(byte('0' + r.PickInt(0, 0, r.Intn(10), r.Intn(10))))
	}
	return sb.String()
}

type durUnit struct {
	name string
	exp  int // the fraction is exact with at most this many digits
}

var durUnits = []durUnit{{"ns", 0}, {"us", 3}, {"µs", 3}, {"μs", 3}, {"ms", 6}, {"s", 9}, {"m", 10}, {"h", 11}}

func genDurText(r *rng.R) string {
	if r.Chance(1, 3) {
		// what String() prints for some value
		var v int64
		switch r.Intn(4) {
		case 0:
			v = r.PickI64(0, 1, -1, 999, 1000, 1001, 999999, 1000000, 999999999, 1000000000, 59999999999, 60000000000, 3599999999999, 3600000000000,
				1<<63-1, -1<<63, -1<<63+1, 1500, 1500000, 90000000000)
		case 1:
			v = r.I64()
		case 2:
			v = int64(r.Intn(2000000000)) - 1000000000
		default:
			v = int64(r.U64()%(1<<uint(r.Range(1, 62)))) * int64(r.PickInt(1, -1))
		}
		return time.Duration(v).String()
	}
	var sb strings.Builder
	sb.WriteString(r.Pick("", "", "", "-", "+"))
	n := r.PickInt(1, 1, 2, 3)
	for i := 0; i < n; i++ {
		u := durUnits[r.Intn(len(durUnits))]
		if r.Chance(1, 12) {
			u = durUnit{r.Pick("d", "x", "S", "H", "sec", "", "mss", "n"), 0}
		}
		ip := ""
		switch r.Intn(8) {
		case 0:
			ip = ""
		case 1:
			ip = r.Pick("9223372036", "2562047", "2562048", "153722867", "153722868", "9223372036854775807", "9223372036854775808", "9223372036854775809", "92233720368547758070")
		default:
			ip = randDigits(r, r.Range(1, 4))
		}
		sb.WriteString(ip)
		if u.exp > 0 && r.Chance(1, 2) {
			sb.WriteString("." + randFrac(r, r.Range(0, u.exp)))
		} else if r.Chance(1, 10) {
			sb.WriteString(".")
		}
		sb.WriteString(u.name)
	}
	return sb.String()
}

func genDurToken(r *rng.R) []byte {
	text := genDurText(r)
	switch r.Intn(12) {
	case 0:
		return []byte(text) // bare
	case 1:
		return []byte(r.Pick(`"`+text, text+`"`, `"`+text+` "`, `" `+text+`"`, `""`, `"0"`, `"-0"`, `"+0"`, `"00"`))
	case 2:
		return []byte(r.Pick("100", "105", "909", "200", "-0.0", "1e0", "10", "0", "1000", "-100", "[0]", "true", "null"))
	default:
		return []byte(`"` + text + `"`)
	}
}

var i64Extremes = []int64{0, 1, -1, 9, 10, -10, 255, 256, 1<<31 - 1, 1 << 31, -(1 << 31), 1<<32 - 1, 1 << 32, 1<<53 - 1, 1 << 53, 1<<63 - 1, 1<<63 - 2, -1 << 63, -1<<63 + 1,
	999999999, 1000000000, -999999999, 60000000000, 3600000000000, 1500, -1500000}

func genI64(r *rng.R) int64 {
	switch r.Intn(4) {
	case 0:
		return i64Extremes[r.Intn(len(i64Extremes))]
	case 1:
		return r.I64()
	case 2:
		return int64(r.Intn(100000)) - 50000
	default:
		return int64(r.U64()>>uint(r.Range(1, 63))) * int64(r.PickInt(1, -1))
	}
}

func genU64(r *rng.R) uint64 {
	switch r.Intn(4) {
	case 0:
		return []uint64{0, 1, 9, 10, 255, 1<<32 - 1, 1 << 32, 1<<63 - 1, 1 << 63, 1<<63 + 1, 1<<64 - 2, 1<<64 - 1}[r.Intn(12)]
	case 1:
		return r.U64()
	default:
		return r.U64() >> uint(r.Range(1, 63))
	}
}

func genByteList(r *rng.R) string {
	n := r.PickInt(0, 1, 1, 2, 3, 5, 9, 40)
	if n == 0 {
		return "-"
	}
	parts := make([]string, n)
	for i := range parts {
		parts[i] = strconv.Itoa(r.PickInt(0, 1, 9, 10, 99, 100, 127, 128, 254, 255, r.Intn(256), r.Intn(256), r.Intn(256)))
	}
	return strings.Join(parts, ",")
}

func genHexToken(r *rng.R, base int) []byte {
	alphabet := "0123456789abcdefABCDEF"
	if base == 32 {
		alphabet = "0123456789abcdefghijklmnopqrstuvABCDEFGHIJKLMNOPQRSTUV"
	}
	n := r.PickInt(1, 2, 5, 12, 13, 14, 15, 16, 17, 20)
	var sb strings.Builder
	sb.WriteString(r.Pick("", "", "", "-", "+"))
	for i := 0; i < n; i++ {
		sb.WriteByte(alphabet[r.Intn(len(alphabet))])
	}
	s := sb.String()
	switch r.Intn(10) {
	case 0:
		k := r.Intn(len(s) + 1)
		s = s[:k] + r.Pick("g", "w", "z", "_", " ", "x", "-", ".") + s[k:]
	case 1:
		s = r.Pick("", "-", "+", "0x10", "0X1f", "7fffffffffffffff", "8000000000000000", "-8000000000000000", "-8000000000000001", "ffffffffffffffff", "10000000000000000",
			"7vvvvvvvvvvvv", "8000000000000", "-8000000000000", "fvvvvvvvvvvvv", "g000000000000", "1_0")
	}
	return []byte(s)
}

func genB64Token(r *rng.R) []byte {
	const std = "ABCDEFGHIJKLMNOPQRSTUVWXYZabcdefghijklmnopqrstuvwxyz0123456789+/"
	n := r.PickInt(0, 1, 2, 3, 4, 5, 6, 7, 8, 11, 16, 22)
	b := make([]byte, n)
	for i := range b {
		b[i] = std[r.Intn(64)]
	}
	s := string(b)
	switch r.Intn(8) {
	case 0:
		k := r.Intn(len(s) + 1)
		s = s[:k] + r.Pick("=", "-", "_", " ", "\n", "\r", "\r\n", "*", "\x00", "é") + s[k:]
	case 1:
		s += r.Pick("=", "==", "\n", "\n\n")
	}
	return []byte(s)
}

func genSQLScan(r *rng.R) string {
	target := r.Pick("nano", "unix", "stamp", "t2u")
	ty := r.Pick("i32", "u32", "i64", "u64", "int", "uint", "f64", "bool", "bytes", "str", "time", "null", "i64", "bytes", "str", "time")
	var v string
	switch ty {
	case "i32":
		v = strconv.FormatInt(int64(int32(genI64(r))), 10)
	case "u32":
		v = strconv.FormatUint(uint64(uint32(genU64(r))), 10)
	case "u64", "uint":
		v = strconv.FormatUint(genU64(r), 10)
	case "f64":
		v = strconv.FormatInt(int64(r.Intn(2000000000))-1000000000, 10)
	case "bool":
		v = r.Pick("0", "1")
	case "bytes", "str":
		// what a text-protocol driver delivers for a BIGINT column, and junk
		switch r.Intn(5) {
		case 0:
			v = tokArg([]byte(r.Pick("1700000000", "1700000000000000000", "0", "-1", "", "abc", "1.5", " 1", "1e3", "9223372036854775807", "9223372036854775808", "-9223372036854775808", "-9223372036854775809")))
		case 1:
			v = tokArg(unq(genIntToken(r)))
		default:
			v = tokArg([]byte(genCore(r)))
		}
	case "time":
		t := genTime(r)
		v = strconv.FormatInt(t.sec, 10) + ":" + strconv.Itoa(t.nsec)
	case "null":
		v = "-"
	default:
		v = strconv.FormatInt(genI64(r), 10)
	}
	return "sql.scan " + target + " " + ty + " " + v
}

type genT struct {
	sec  int64
	nsec int
	how  string
}

func dateT(y int) genT {
	return genT{time.Date(y, 1, 1, 0, 0, 0, 0, time.UTC).Unix(), 0, "date" + strconv.Itoa(y)}
}

// genTime: genuine time.Time values — the zero value, calendar dates far outside 1678…2262, both edges of the
// int64-nanosecond range ±1 ns, and random instants with and without sub-second parts.
func genTime(r *rng.R) genT {
	switch r.Intn(8) {
	case 0:
		return genT{zeroTimeUnix, 0, "zero"}
	case 1:
		return dateT(r.PickInt(1, 2, 1000, 1600, 1677, 1678, 1679, 1969, 1970, 1971, 2000, 2038, 2261, 2262, 2263, 2300, 9999, 10000, 99999, 292277026))
	case 2:
		// max/min int64 nanoseconds and their neighbours
		return []genT{{9223372036, 854775807, "unix"}, {9223372036, 854775808, "unix"}, {9223372036, 854775806, "unix"}, {9223372037, 0, "unix"},
			{-9223372037, 145224192, "unix"}, {-9223372037, 145224191, "unix"}, {-9223372037, 145224193, "unix"}, {-9223372038, 999999999, "unix"}}[r.Intn(8)]
	case 3:
		return genT{int64(r.Intn(4000000000)) - 2000000000, r.PickInt(0, 0, 1, 5, 999999999, r.Intn(1000000000)), "unix"}
	case 4:
		return genT{r.PickI64(0, 1, -1, 1<<31-1, 1<<31, -(1 << 31), 1<<32, 1<<40, -(1 << 40), 253402300799, 253402300800, 1<<55, -(1 << 55)), r.PickInt(0, 0, 7, 999999999), "unix"}
	default:
		return genT{int64(r.U64()>>uint(r.Range(20, 40))) * int64(r.PickInt(1, -1)), r.PickInt(0, r.Intn(1000000000)), "unix"}
	}
}

func (t genT) args() string {
	return strconv.FormatInt(t.sec, 10) + " " + strconv.Itoa(t.nsec) + " " + t.how
}

func malformedLine(r *rng.R) string {
	return r.Pick("", "nop", "i64.dec", "i64.dec t:1 t:2", "i64.dec 123", "i64.dec t:%zz", "i64.dec t:%4", "i64.enc 5", "x64.dec t:1", "i64.rt abc", "i64.rt 9223372036854775808",
		"u64.rt -1", "u64.rt 18446744073709551616", "byte.rt 256", "byte.rt 1,,2", "byte.rt a", "hex.rt 10 s 5", "hex.rt 16 x 5", "hex.dec 16 s", "hex.rt 16 u -1",
		"b64.rt 41", "b64.rt x:4", "b64.rt x:zz", "b64.dec QQ", "sql.scan nano i64", "sql.scan moon i64 1", "sql.scan nano f32 1", "sql.scan nano time 5", "sql.scan nano null 0", "sql.scan nano bool 2", "ntime.rtt 5 1000000000 unix", "ntime.rtt 5 0 mars", "sql.rtt stamp 5 0 unix", "dur.toml k:moon", "b64.scankind moon", "tostr f64 1", "tostr u64w -1", "tostr i64w 9223372036854775808", "tostr i64w", "sql.rt nano", "sql.rt nano x", "dur.rt 1h", "i64 dec t:1")
}

func decLine(ty string, tok []byte) string { return ty + ".dec " + tokArg(tok) }

// genDictCase: words (mined string literals of the tree under test + a static dictionary) and single characters
// (mined rune literals + letters) as whole tokens and as prefix / suffix / infix of valid tokens, for every wrapper.
func genDictCase(r *rng.R) corr.Case {
	words, chars := lits.words(), lits.chars()
	var lines []string
	for k := 0; k < 2; k++ {
		w := words[r.Intn(len(words))]
		if r.Chance(1, 3) {
			w = chars[r.Intn(len(chars))]
		}
		core := randDigits(r, r.Range(1, 6))
		var text string
		switch r.Intn(6) {
		case 0, 1:
			text = w
		case 2:
			text = core + w
		case 3:
			text = w + core
		case 4:
			j := r.Intn(len(core) + 1)
			text = core[:j] + w + core[j:]
		default:
			text = r.Pick("-", "+", " ") + w
		}
		tok := []byte(`"` + text + `"`)
		if r.Chance(1, 5) {
			tok = []byte(text)
		}
		for _, ty := range allTypes {
			lines = append(lines, decLine(ty, tok))
		}
		// the same word as a duration unit and as a list element, and through the entry points that take plain text
		u := chars[r.Intn(len(chars))]
		dur := r.Pick("", "1h", "1m30s", "-2h") + randDigits(r, r.Range(1, 3)) + r.Pick("", "."+randDigits(r, 1)) + r.Pick(u, w)
		lines = append(lines, decLine("dur", []byte(`"`+dur+`"`)), "dur.toml "+tokArg([]byte(dur)),
			decLine("byte", []byte(`"`+strconv.Itoa(r.Intn(256))+"/"+text+`"`)), "byte.fromstr "+tokArg([]byte(text+"/7")),
			"b64.dec "+tokArg([]byte(text)), "hex.dec "+r.Pick("16", "32")+" "+r.Pick("s", "u")+" "+tokArg([]byte(text)),
			"sql.scan "+r.Pick("nano", "unix")+" "+r.Pick("bytes", "str")+" "+tokArg([]byte(text)))
	}
	return corr.Case{Tag: "dictionary", Lines: lines}
}

// genSizeCase: containers and tokens of the sizes named by integer literals of the tree under test (literal−1, literal,
// literal+1) and of a few fixed large sizes.
func genSizeCase(r *rng.R) corr.Case {
	big := r.Chance(1, 120)
	max := int64(3000)
	if big {
		max = 70000
	}
	sizes := lits.sizes(max)
	n := sizes[r.Intn(len(sizes))]
	if big {
		for tries := 0; n <= 3000 && tries < 8; tries++ {
			n = sizes[r.Intn(len(sizes))]
		}
	}
	return sizeCase(r, n)
}

func sizeCase(r *rng.R, n int) corr.Case {
	var lines []string
	elems := make([]string, n)
	raw := make([]byte, n)
	for j := range elems {
		b := r.Intn(256)
		elems[j], raw[j] = strconv.Itoa(b), byte(b)
	}
	list := strings.Join(elems, ",")
	if n == 0 {
		list = "-"
	}
	lines = append(lines, "byte.rt "+list, decLine("byte", []byte(`"`+strings.Join(elems, "/")+`"`)), "byte.fromstr "+tokArg([]byte(strings.Join(elems, "/"))),
		"b64.rt x:"+hex.EncodeToString(raw))
	const std = "ABCDEFGHIJKLMNOPQRSTUVWXYZabcdefghijklmnopqrstuvwxyz0123456789+/"
	b64 := make([]byte, n)
	for j := range b64 {
		b64[j] = std[r.Intn(64)]
	}
	lines = append(lines, "b64.dec "+tokArg(b64))
	if n >= 1 && n <= 3000 {
		digits := strings.Repeat("0", n-1) + strconv.Itoa(1+r.Intn(9))
		if r.Bool() {
			digits = randDigits(r, n)
		}
		for _, ty := range intTypes {
			lines = append(lines, decLine(ty, []byte(`"`+digits+`"`)))
		}
		lines = append(lines, decLine("dur", []byte(`"`+digits+`ns"`)), "hex.dec 16 u "+tokArg([]byte(digits)), "hex.dec 32 s "+tokArg([]byte("-"+digits)))
	}
	return corr.Case{Tag: "sizes", Lines: lines}
}

// genToStrCase: the generic text form (tex.ToString and the map/list paths over it) of wrapper and plain integer values,
// biased to where a detour through float64 or int would lose information: 2^53±1, Max/MinInt64, above MaxInt64, MaxUint64.
func genToStrCase(r *rng.R) corr.Case {
	var lines []string
	for len(lines) < 10 {
		switch r.Intn(3) {
		case 0:
			var x uint64
			switch r.Intn(4) {
			case 0:
				x = []uint64{0, 1, 1<<53 - 1, 1 << 53, 1<<53 + 1, 1<<63 - 1, 1 << 63, 1<<63 + 1, 1<<64 - 2, 1<<64 - 1, 9007199254740993, 1234567890123456789, 12345678901234567891}[r.Intn(13)]
			case 1:
				x = 1<<53 + r.U64()%(1<<20)
			default:
				x = genU64(r)
			}
			lines = append(lines, "tostr "+r.Pick("u64w", "u64w", "u64", "uint")+" "+strconv.FormatUint(x, 10))
		default:
			var x int64
			switch r.Intn(4) {
			case 0:
				x = r.PickI64(0, -1, 1<<53-1, 1<<53, 1<<53+1, -(1<<53 + 1), 9007199254740993, 1234567890123456789, -1234567890123456789, 1<<63-1, 1<<63-2, -1<<63, -1<<63+1)
			case 1:
				x = (1<<53 + int64(r.U64()%(1<<20))) * int64(r.PickInt(1, -1))
			default:
				x = genI64(r)
			}
			lines = append(lines, "tostr "+r.Pick("i64w", "i64w", "i64", "int", "dur", "tdur")+" "+strconv.FormatInt(x, 10))
		}
	}
	return corr.Case{Tag: "tostring", Lines: lines}
}

func genCase(r *rng.R, tier string, i int) corr.Case {
	if r.Chance(1, 25) {
		return genToStrCase(r)
	}
	if r.Chance(1, 12) {
		return genDictCase(r)
	}
	if r.Chance(1, 80) {
		return genSizeCase(r)
	}
	lines := []string{}
	n := 8
	if tier != "quick" {
		n = 12
	}
	cls := r.Intn(20)
	switch {
	case cls < 6: // integer tokens to every integer wrapper (and, sometimes, to the two others)
		for len(lines) < n {
			tok := genIntToken(r)
			for _, ty := range intTypes {
				lines = append(lines, decLine(ty, tok))
			}
			if r.Chance(1, 3) {
				lines = append(lines, decLine("byte", tok), decLine("dur", tok))
			}
		}
		return corr.Case{Tag: "tokens-int", Lines: lines}
	case cls < 8:
		for len(lines) < n {
			tok := []byte(genJSONScalar(r))
			for _, ty := range allTypes {
				lines = append(lines, decLine(ty, tok))
			}
		}
		return corr.Case{Tag: "tokens-json", Lines: lines}
	case cls < 11:
		for len(lines) < n {
			lines = append(lines, decLine("byte", genByteToken(r)))
		}
		return corr.Case{Tag: "tokens-byte", Lines: lines}
	case cls < 14:
		for len(lines) < n {
			lines = append(lines, decLine("dur", genDurToken(r)))
		}
		return corr.Case{Tag: "tokens-dur", Lines: lines}
	case cls < 17:
		for len(lines) < n {
			switch r.Intn(10) {
			case 7, 8:
				lines = append(lines, r.Pick("ntime.rtt", "ntime.rtt", "utime.rtt")+" "+genTime(r).args())
			case 9:
				switch r.Intn(4) {
				case 0:
					lines = append(lines, "dur.toml "+r.Pick("k:int", "k:bytes", "k:nil", "k:float"), "b64.scankind "+r.Pick("int", "nil", "float", "time"))
				case 1:
					lines = append(lines, "byte.fromstr "+tokArg(unq(genByteToken(r))))
				default:
					lines = append(lines, "dur.toml "+tokArg(unq(genDurToken(r))))
				}
			case 0:
				lines = append(lines, "u64.rt "+strconv.FormatUint(genU64(r), 10))
			case 1:
				lines = append(lines, "byte.rt "+genByteList(r))
			case 2:
				lines = append(lines, "dur.rt "+strconv.FormatInt(genI64(r), 10))
			default:
				lines = append(lines, r.Pick("i64", "utime", "ntime", "stamp")+".rt "+strconv.FormatInt(genI64(r), 10))
			}
		}
		return corr.Case{Tag: "roundtrip-json", Lines: lines}
	case cls < 18:
		for len(lines) < n {
			base := r.Pick("16", "32")
			b := 16
			if base == "32" {
				b = 32
			}
			switch r.Intn(4) {
			case 0:
				lines = append(lines, "hex.rt "+base+" s "+strconv.FormatInt(genI64(r), 10))
			case 1:
				lines = append(lines, "hex.rt "+base+" u "+strconv.FormatUint(genU64(r), 10))
			default:
				lines = append(lines, "hex.dec "+base+" "+r.Pick("s", "u")+" "+tokArg(genHexToken(r, b)))
			}
		}
		return corr.Case{Tag: "hex", Lines: lines}
	case cls < 19:
		for len(lines) < n {
			if r.Bool() {
				k := r.PickInt(0, 1, 2, 3, 4, 5, 6, 7, 16, 33)
				b := make([]byte, k)
				for j := range b {
					b[j] = byte(r.PickInt(0, 255, r.Intn(256), r.Intn(256)))
				}
				lines = append(lines, "b64.rt x:"+hex.EncodeToString(b))
			} else {
				lines = append(lines, "b64.dec "+tokArg(genB64Token(r)))
			}
		}
		return corr.Case{Tag: "base64", Lines: lines}
	default:
		for len(lines) < n {
			switch r.Intn(5) {
			case 0:
				if r.Bool() {
					lines = append(lines, "sql.rtt "+r.Pick("nano", "unix")+" "+genTime(r).args())
				} else {
					lines = append(lines, "sql.rt "+r.Pick("nano", "unix", "stamp", "t2u")+" "+strconv.FormatInt(genI64(r), 10))
				}
			case 1:
				l := malformedLine(r)
				if l == "" {
					l = "?"
				}
				lines = append(lines, l)
			default:
				lines = append(lines, genSQLScan(r))
			}
		}
		return corr.Case{Tag: "sql+malformed", Lines: lines}
	}
}

func fixedCases() []corr.Case {
	c := func(tag string, lines ...string) corr.Case { return corr.Case{Tag: tag, Lines: lines} }
	var out []corr.Case
	// witnesses of the defects recorded in DESIGN section 6 (F19, F20)
	out = append(out,
		c("witness-F19", "u64.dec t:123", "u64.dec t:-123", "utime.dec t:123", "ntime.dec t:-123", "stamp.dec t:123", "dur.dec t:105", "i64.dec t:123", "i64.dec t:-123"),
		c("witness-F20", `byte.dec t:"300/-1"`, "byte.dec t:123", "byte.dec t:12", `byte.dec t:"256"`, `byte.dec t:"255"`),
		c("boundary-empty", `i64.dec t:""`, `u64.dec t:""`, `utime.dec t:""`, `byte.dec t:""`, `dur.dec t:""`, `i64.dec t:`, `u64.dec t:`, `byte.dec t:`, `i64.dec t:"`, `u64.dec t:"`, `byte.dec t:"`, `dur.dec t:"`),
		c("boundary-range", `i64.dec t:"9223372036854775807"`, `i64.dec t:"9223372036854775808"`, `i64.dec t:"-9223372036854775808"`, `i64.dec t:"-9223372036854775809"`,
			`u64.dec t:"18446744073709551615"`, `u64.dec t:"18446744073709551616"`, `u64.dec t:"-0"`, `u64.dec t:"+1"`, `i64.dec t:"+1"`, `i64.dec t:"-0"`,
			`i64.dec t:"99999999999999999999x"`, `i64.dec t:"x99999999999999999999"`, `i64.dec t:9223372036854775808`, `i64.dec t:"0000000000000000000000009"`),
	)
	var rt []string
	for _, v := range []string{"0", "-1", "9223372036854775807", "-9223372036854775808"} {
		for _, ty := range []string{"i64", "utime", "ntime", "stamp", "dur"} {
			rt = append(rt, ty+".rt "+v)
		}
		for _, b := range []string{"16", "32"} {
			rt = append(rt, "hex.rt "+b+" s "+v)
		}
		for _, tg := range []string{"nano", "unix", "stamp", "t2u"} {
			rt = append(rt, "sql.rt "+tg+" "+v)
		}
	}
	for _, v := range []string{"0", "18446744073709551615", "9223372036854775808"} {
		rt = append(rt, "u64.rt "+v, "hex.rt 16 u "+v, "hex.rt 32 u "+v)
	}
	rt = append(rt, "byte.rt -", "byte.rt 0", "byte.rt 255", "byte.rt 0,255,7", "b64.rt x:", "b64.rt x:00", "b64.rt x:ffff", "b64.rt x:000102", "dur.rt 1", "dur.rt 1500", "dur.rt 1000000", "dur.rt 3600000000000", "dur.rt -90000000001")
	out = append(out, c("boundary-roundtrip", rt...))
	out = append(out, c("boundary-duration", `dur.dec t:"9223372036854775808ns9223372036854775808ns"`, `dur.dec t:"9223372036854775808ns1ns"`, `dur.dec t:"9223372036854775808ns"`,
		`dur.dec t:"-9223372036854775808ns"`, `dur.dec t:"2562047h47m16.854775807s"`, `dur.dec t:"2562047h47m16.854775808s"`, `dur.dec t:"-2562047h47m16.854775808s"`,
		`dur.dec t:"0"`, `dur.dec t:"-0"`, `dur.dec t:"00"`, `dur.dec t:".s"`, `dur.dec t:"1.s"`, `dur.dec t:".5s"`, `dur.dec t:"1h1h"`, `dur.dec t:"1%C2%B5s"`, `dur.dec t:"1%CE%BCs"`, `dur.dec t:"1us"`))
	out = append(out,
		c("witness-time-outside-unixnano", "ntime.rtt "+genT{zeroTimeUnix, 0, "zero"}.args(), "ntime.rtt "+dateT(2300).args(), "ntime.rtt "+dateT(1600).args(),
			"ntime.rtt 9223372036 854775807 unix", "ntime.rtt 9223372036 854775808 unix", "ntime.rtt -9223372037 145224192 unix", "ntime.rtt -9223372037 145224191 unix",
			"sql.rtt nano "+genT{zeroTimeUnix, 0, "zero"}.args(), "sql.rtt nano "+dateT(2300).args(), "sql.rtt nano 9223372036 854775808 unix",
			"utime.rtt "+genT{zeroTimeUnix, 0, "zero"}.args(), "utime.rtt "+dateT(10000).args(), "utime.rtt "+dateT(292277026).args(), "utime.rtt 1577836800 5 unix",
			"sql.rtt unix "+genT{zeroTimeUnix, 0, "zero"}.args(), "sql.rtt unix "+dateT(99999).args()),
		c("witness-scan-kinds", "sql.scan nano bytes t:1700000000000000000", "sql.scan unix bytes t:1700000000", "sql.scan unix str t:1700000000", "sql.scan nano f64 5", "sql.scan unix bool 1",
			"sql.scan nano time 1700000000:5", "sql.scan unix null -", "sql.scan nano u64 9223372036854775808", "sql.scan unix uint 18446744073709551615", "sql.scan unix i64 1700000000",
			"sql.scan stamp i64 5", "sql.scan stamp str t:2024", "sql.scan t2u bytes t:5", "sql.scan stamp null -", "sql.scan stamp time 1700000000:999999999", "sql.scan t2u f64 1",
			"sql.scan unix bytes t:abc", "sql.scan unix str t:", "sql.scan nano str t:9223372036854775808"),
		c("other-entry-points", "dur.toml t:1h2m3.5s", "dur.toml t:-5s", "dur.toml t:15m", "dur.toml t:0", "dur.toml t:", "dur.toml t:5", "dur.toml k:int", "dur.toml k:bytes", "dur.toml k:nil",
			"byte.fromstr t:1/2/3", "byte.fromstr t:", "byte.fromstr t:256", "byte.fromstr t:-1", "byte.fromstr t:1//2", "b64.scankind int", "b64.scankind nil"))
	out = append(out,
		c("redteam-words", `i64.dec t:"undefined"`, `i64.dec t:"NaN"`, `u64.dec t:"nil"`, `utime.dec t:"Infinity"`, `stamp.dec t:"false"`, `ntime.dec t:"None"`, `byte.dec t:"[]"`,
			`dur.dec t:"never"`, `dur.dec t:"1h2w"`, `dur.dec t:"2w"`, `dur.dec t:"2d"`, `dur.toml t:2w`, `dur.dec t:"off"`))
	for _, n := range []int{255, 256, 300} {
		out = append(out, sizeCase(rng.New(uint64(n)), n))
	}
	out = append(out, sizeCase(rng.New(7), 49150), sizeCase(rng.New(8), 70000))
	out = append(out, c("tostring", "tostr i64w 9007199254740993", "tostr i64w 9223372036854775807", "tostr i64w -9223372036854775808", "tostr u64w 9007199254740993",
		"tostr u64w 9223372036854775807", "tostr u64w 9223372036854775808", "tostr u64w 18446744073709551615", "tostr u64 18446744073709551615", "tostr uint 9223372036854775809",
		"tostr i64 1234567890123456789", "tostr int -1234567890123456789", "tostr dur 9007199254740993", "tostr tdur -9223372036854775808", "tostr i64w 0", "tostr u64w 0"))
	out = append(out, c("malformed", "nop", "i64.dec", "i64.dec t:%zz", "i64.rt 9223372036854775808", "hex.rt 10 s 5", "b64.rt x:4", "sql.scan moon i64 1"))
	return out
}
