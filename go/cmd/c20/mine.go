package main

import (
	"go/ast"
	"go/parser"
	"go/token"
	"os"
	"path/filepath"
	"sort"
	"strconv"
)

// Literals of the tree under test. An edit that special-cases a text ("undefined", 'w') or a size (255, 49149) brings
// that literal with it; the generator feeds every string / rune / integer literal found in the anchored files back as
// tokens (whole, as prefix, suffix and infix of valid tokens) and as sizes / values at literal−1, literal, literal+1.
type mined struct {
	strs  []string
	runes []string
	ints  []int64
}

var lits mined

// staticWords: non-numeric words a lenient decoder might take for a number, a list or a duration.
var staticWords = []string{"undefined", "NaN", "nan", "nil", "None", "none", "Infinity", "-Infinity", "inf", "+Inf", "false", "true", "null", "NULL",
	"off", "on", "never", "forever", "max", "min", "now", "zero", "empty", "[]", "{}", "()", "-", "+", "0x", "0x0", "1_000", "1,000", "1.0", "1e0", "٠", "０"}

func mineRepo() {
	repo := os.Getenv("NV_REPO")
	if repo == "" {
		repo = "/repo"
	}
	seenS, seenR, seenI := map[string]bool{}, map[string]bool{}, map[int64]bool{}
	for _, n := range anchored {
		fset := token.NewFileSet()
		f, err := parser.ParseFile(fset, filepath.Join(repo, "tex", n+".go"), nil, parser.SkipObjectResolution)
		if err != nil {
			continue
		}
		ast.Inspect(f, func(x ast.Node) bool {
			if _, ok := x.(*ast.ImportSpec); ok {
				return false
			}
			bl, ok := x.(*ast.BasicLit)
			if !ok {
				return true
			}
			switch bl.Kind {
			case token.STRING:
				if s, err := strconv.Unquote(bl.Value); err == nil && len(s) > 0 && len(s) <= 40 && !seenS[s] {
					seenS[s] = true
					lits.strs = append(lits.strs, s)
				}
			case token.CHAR:
				if s, err := strconv.Unquote(bl.Value); err == nil && !seenR[s] {
					seenR[s] = true
					lits.runes = append(lits.runes, s)
				}
			case token.INT:
				if v, err := strconv.ParseInt(bl.Value, 0, 64); err == nil && !seenI[v] {
					seenI[v] = true
					lits.ints = append(lits.ints, v)
				}
			}
			return true
		})
	}
	sort.Strings(lits.strs)
	sort.Strings(lits.runes)
	sort.Slice(lits.ints, func(i, j int) bool { return lits.ints[i] < lits.ints[j] })
}

// words: mined string literals + the static dictionary.
func (m *mined) words() []string { return append(append([]string{}, m.strs...), staticWords...) }

// chars: mined rune literals + every ASCII letter (unit names, suffixes).
func (m *mined) chars() []string {
	out := append([]string{}, m.runes...)
	for c := 'a'; c <= 'z'; c++ {
		out = append(out, string(c), string(c-32))
	}
	return out
}

// sizes: literal−1, literal, literal+1 for every mined integer that is a plausible length, plus fixed large sizes.
func (m *mined) sizes(max int64) []int {
	seen := map[int]bool{}
	var out []int
	add := func(v int64) {
		if v >= 0 && v <= max && !seen[int(v)] {
			seen[int(v)] = true
			out = append(out, int(v))
		}
	}
	for _, v := range m.ints {
		add(v - 1)
		add(v)
		add(v + 1)
	}
	for _, v := range []int64{255, 256, 257, 300, 1000, 4096, 49149, 49150, 65535, 65536, 70000} {
		add(v)
	}
	return out
}
