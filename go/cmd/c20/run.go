package main

import (
	"bytes"
	"database/sql/driver"
	"encoding/hex"
	"encoding/json"
	"errors"
	"fmt"
	"math/big"
	"strconv"
	"strings"
	"time"

	jsoniter "github.com/json-iterator/go"
	"github.com/pinealctx/neptune/tex"

	"nvharness/lib/corr"
)

// ---------------------------------------------------------------- token escaping (same as Oracle/C20.lean)

func escapeTok(b []byte) string {
	var sb strings.Builder
	for _, c := range b {
		if c >= 33 && c <= 126 && c != '%' {
			sb.WriteByte(c)
		} else {
			fmt.Fprintf(&sb, "%%%02X", c)
		}
	}
	return sb.String()
}

func hexv(c byte) int {
	switch {
	case c >= '0' && c <= '9':
		return int(c - '0')
	case c >= 'a' && c <= 'f':
		return int(c-'a') + 10
	case c >= 'A' && c <= 'F':
		return int(c-'A') + 10
	}
	return -1
}

func unescapeTok(s string) ([]byte, bool) {
	if !strings.HasPrefix(s, "t:") {
		return nil, false
	}
	s = s[2:]
	out := []byte{}
	for i := 0; i < len(s); i++ {
		c := s[i]
		if c == '%' {
			if i+2 > len(s)-1 {
				return nil, false
			}
			a, b := hexv(s[i+1]), hexv(s[i+2])
			if a < 0 || b < 0 {
				return nil, false
			}
			out = append(out, byte(a*16+b))
			i += 2
			continue
		}
		if c < 33 || c > 126 {
			return nil, false
		}
		out = append(out, c)
	}
	return out, true
}

func tokArg(b []byte) string { return "t:" + escapeTok(b) }

// ---------------------------------------------------------------- the seven JSON-adapted types

type unmarshalFn func([]byte, interface{}) error
type marshalFn func(interface{}) ([]byte, error)

// the JSON libraries a token / value is sent through besides the direct method call: encoding/json and jsoniter in its
// two stock configurations, each with the value as a struct field and as the top-level value
type jsonLib struct {
	name      string
	jsoniter  bool
	unmarshal unmarshalFn
	marshal   marshalFn
}

var jsonLibs = []jsonLib{
	{"encoding/json", false, json.Unmarshal, json.Marshal},
	{"jsoniter.ConfigCompatibleWithStandardLibrary", true, jsoniter.ConfigCompatibleWithStandardLibrary.Unmarshal, jsoniter.ConfigCompatibleWithStandardLibrary.Marshal},
	{"jsoniter.ConfigDefault", true, jsoniter.ConfigDefault.Unmarshal, jsoniter.ConfigDefault.Marshal},
}

type jsType struct {
	name   string // op prefix
	goName string // for monitor keys
	// decode b through the type's UnmarshalJSON; returns the canonical value text
	direct func(b []byte) (string, error)
	// the same through a JSON library: doc is {"V":<tok>}
	viaLib func(unmarshal unmarshalFn, doc []byte) (string, error)
	// … and with the token as the whole document
	viaTop func(unmarshal unmarshalFn, tok []byte) (string, error)
	// marshal the value given as text: directly, and through a library as a struct field ({"V":…} stripped) and top-level
	marshal func(arg string) (direct []byte, ok bool)
	libEnc  func(m marshalFn, arg string) (field []byte, top []byte)
}

// mkType builds the entry of one wrapper type T from its value printer and its argument parser.
func mkType[T any](name, goName string, show func(T) string, parse func(string) (T, bool), decoded func(T, []byte)) jsType {
	return jsType{name: name, goName: goName,
		direct: func(b []byte) (string, error) {
			var v T
			err := any(&v).(json.Unmarshaler).UnmarshalJSON(b)
			if err == nil && decoded != nil {
				decoded(v, b)
			}
			return show(v), err
		},
		viaLib: func(um unmarshalFn, doc []byte) (string, error) {
			var s struct{ V T }
			err := um(doc, &s)
			return show(s.V), err
		},
		viaTop: func(um unmarshalFn, tok []byte) (string, error) {
			var v T
			err := um(tok, &v)
			return show(v), err
		},
		marshal: func(a string) ([]byte, bool) {
			x, ok := parse(a)
			if !ok {
				return nil, false
			}
			d, _ := any(x).(json.Marshaler).MarshalJSON()
			return d, true
		},
		libEnc: func(m marshalFn, a string) ([]byte, []byte) {
			x, _ := parse(a)
			top, err := m(x)
			if err != nil {
				top = []byte("marshal-error")
			}
			return libField(m(struct{ V T }{x})), top
		}}
}

func fmtBytes(b []byte) string {
	parts := make([]string, len(b))
	for i, x := range b {
		parts[i] = strconv.Itoa(int(x))
	}
	return "[" + strings.Join(parts, ",") + "]"
}

func libField(enc []byte, err error) []byte {
	// {"V":<tok>} -> <tok>
	if err != nil || !bytes.HasPrefix(enc, []byte(`{"V":`)) || !bytes.HasSuffix(enc, []byte(`}`)) {
		return []byte("marshal-error")
	}
	return enc[5 : len(enc)-1]
}

func parseI64(s string) (int64, bool) {
	if strings.HasPrefix(s, "+") || strings.Contains(s, "_") {
		return 0, false
	}
	v, err := strconv.ParseInt(s, 10, 64)
	return v, err == nil
}

func parseU64(s string) (uint64, bool) {
	if strings.HasPrefix(s, "+") || strings.Contains(s, "_") {
		return 0, false
	}
	v, err := strconv.ParseUint(s, 10, 64)
	return v, err == nil
}

func showI64[T ~int64](v T) string  { return strconv.FormatInt(int64(v), 10) }
func showU64[T ~uint64](v T) string { return strconv.FormatUint(uint64(v), 10) }

var jsTypes = []jsType{
	mkType("i64", "JsInt64", showI64[tex.JsInt64], func(a string) (tex.JsInt64, bool) { x, ok := parseI64(a); return tex.JsInt64(x), ok }, nil),
	mkType("u64", "JsUInt64", showU64[tex.JsUInt64], func(a string) (tex.JsUInt64, bool) { x, ok := parseU64(a); return tex.JsUInt64(x), ok }, nil),
	mkType("utime", "JsUnixTime", func(v tex.JsUnixTime) string { return strconv.FormatInt(time.Time(v).Unix(), 10) },
		func(a string) (tex.JsUnixTime, bool) { x, ok := parseI64(a); return tex.JsUnixTime(time.Unix(x, 0)), ok }, nil),
	mkType("ntime", "JsNanoTime", func(v tex.JsNanoTime) string { return strconv.FormatInt(time.Time(v).UnixNano(), 10) },
		func(a string) (tex.JsNanoTime, bool) { x, ok := parseI64(a); return tex.JsNanoTime(time.Unix(0, x)), ok }, nil),
	mkType("stamp", "UnixStamp", showI64[tex.UnixStamp], func(a string) (tex.UnixStamp, bool) { x, ok := parseI64(a); return tex.UnixStamp(x), ok }, nil),
	mkType("dur", "Duration", showI64[tex.Duration], func(a string) (tex.Duration, bool) { x, ok := parseI64(a); return tex.Duration(x), ok }, nil),
	mkType("byte", "JsByte", func(v tex.JsByte) string { return fmtBytes(v) },
		func(a string) (tex.JsByte, bool) {
			var l []byte
			if a != "-" {
				for _, p := range strings.Split(a, ",") {
					x, ok := parseU64(p)
					if !ok || x > 255 {
						return nil, false
					}
					l = append(l, byte(x))
				}
			}
			return tex.JsByte(l), true
		},
		func(v tex.JsByte, b []byte) { holdDec("JsByte.UnmarshalJSON", string(b), v) }),
}

func jsTypeOf(name string) *jsType {
	for i := range jsTypes {
		if jsTypes[i].name == name {
			return &jsTypes[i]
		}
	}
	return nil
}

// classify maps an error to the small enum of the model.
func classify(err error) string {
	switch {
	case err == nil:
		return ""
	case errors.Is(err, strconv.ErrSyntax):
		return "err:syntax"
	case errors.Is(err, strconv.ErrRange):
		return "err:range"
	case errors.Is(err, tex.ErrInvalidInt64Js), errors.Is(err, tex.ErrInvalidUInt64Js), errors.Is(err, tex.ErrInvalidByteJs),
		errors.Is(err, tex.ErrInvalidDuration):
		return "err:invalid"
	}
	msg := err.Error()
	// jsoniter wraps the error text of UnmarshalJSON
	if i := strings.Index(msg, "unmarshalerDecoder: "); i >= 0 {
		msg = msg[i+len("unmarshalerDecoder: "):]
		if j := strings.Index(msg, ", error found in #"); j >= 0 {
			msg = msg[:j]
		}
		switch {
		case strings.HasPrefix(msg, "strconv.") && strings.HasSuffix(msg, ": invalid syntax"):
			return "err:syntax"
		case strings.HasPrefix(msg, "strconv.") && strings.HasSuffix(msg, ": value out of range"):
			return "err:range"
		case msg == tex.ErrInvalidInt64Js.Error(), msg == tex.ErrInvalidUInt64Js.Error(), msg == tex.ErrInvalidByteJs.Error(),
			msg == tex.ErrInvalidDuration.Error():
			return "err:invalid"
		}
	}
	return "err:other"
}

func safely(f func() (string, error)) (out string) {
	defer func() {
		if r := recover(); r != nil {
			out = "panic"
		}
	}()
	v, err := f()
	if err != nil {
		return classify(err)
	}
	return "ok " + v
}

// libToken: can tok be placed as the value of a JSON document member so that the library hands exactly tok to UnmarshalJSON?
func libToken(tok []byte) bool {
	if len(tok) == 0 || !json.Valid(tok) {
		return false
	}
	isWS := func(c byte) bool { return c == ' ' || c == '\t' || c == '\n' || c == '\r' }
	return !isWS(tok[0]) && !isWS(tok[len(tok)-1])
}

// probe records what a JSON library hands to UnmarshalJSON.
type probe struct {
	raw    []byte
	called bool
}

func (p *probe) UnmarshalJSON(b []byte) error {
	p.raw, p.called = append([]byte{}, b...), true
	return nil
}

// delivers: does the library call UnmarshalJSON with exactly tok for the document {"V":tok} (field) / tok (top level)?
// (jsoniter, for one, rejects the number 1e400 itself; such a token never reaches the wrapper through that library.)
func delivers(um unmarshalFn, doc, tok []byte, top bool) (ok bool) {
	defer func() {
		if recover() != nil {
			ok = false
		}
	}()
	if top {
		var p probe
		if err := um(tok, &p); err != nil {
			return false
		}
		return p.called && bytes.Equal(p.raw, tok)
	}
	var s struct{ V probe }
	if err := um(doc, &s); err != nil {
		return false
	}
	return s.V.called && bytes.Equal(s.V.raw, tok)
}

// decodeAll decodes tok directly and — when a library delivers it — through encoding/json and both jsoniter
// configurations, as a struct field and as the top-level value; all must agree with the direct call.
func decodeAll(t *jsType, tok []byte) string {
	directText := ""
	d := safely(func() (string, error) {
		v, err := t.direct(append([]byte{}, tok...))
		if err != nil {
			directText = err.Error()
		}
		return v, err
	})
	if !libToken(tok) {
		return d
	}
	// a library may wrap the error of UnmarshalJSON in text of its own: an error that carries the direct error's
	// text verbatim is the same error, however the wrapper is worded
	via := func(f func() (string, error)) string {
		wrapped := false
		r := safely(func() (string, error) {
			v, err := f()
			wrapped = err != nil && directText != "" && strings.Contains(err.Error(), directText)
			return v, err
		})
		if wrapped && strings.HasPrefix(d, "err:") {
			return d
		}
		return r
	}
	doc := append(append([]byte(`{"V":`), tok...), '}')
	for _, lib := range jsonLibs {
		for _, top := range []bool{false, true} {
			if !delivers(lib.unmarshal, doc, tok, top) {
				continue
			}
			um := lib.unmarshal
			r := via(func() (string, error) {
				if top {
					return t.viaTop(um, append([]byte{}, tok...))
				}
				return t.viaLib(um, doc)
			})
			if r != d {
				where := "field"
				if top {
					where = "top-level"
				}
				kind := "path-mismatch"
				if lib.jsoniter {
					kind = "jsoniter-differs"
				}
				return fmt.Sprintf("%s direct=%q %s(%s)=%q", kind, d, lib.name, where, r)
			}
		}
	}
	return d
}

// encodeAll: the value's text from MarshalJSON, and — "" when they all agree — the first library output that differs.
func encodeAll(t *jsType, arg string) (direct []byte, mismatch string, ok bool) {
	direct, ok = t.marshal(arg)
	if !ok {
		return nil, "", false
	}
	for _, lib := range jsonLibs {
		field, top := t.libEnc(lib.marshal, arg)
		kind := "marshal-path-mismatch"
		if lib.jsoniter {
			kind = "jsoniter-differs"
		}
		if !bytes.Equal(field, direct) {
			return direct, fmt.Sprintf("%s direct=%q %s(field)=%q", kind, direct, lib.name, field), true
		}
		if !bytes.Equal(top, direct) {
			return direct, fmt.Sprintf("%s direct=%q %s(top-level)=%q", kind, direct, lib.name, top), true
		}
	}
	return direct, "", true
}

// ---------------------------------------------------------------- what a token denotes (independent reference, math/big)

// denoteInt: optional surrounding quotes (both or none), optional sign, decimal digits. `""` denotes 0.
func denoteInt(tok []byte) (*big.Int, bool) {
	s := tok
	quoted := len(s) >= 2 && s[0] == '"' && s[len(s)-1] == '"'
	if quoted {
		s = s[1 : len(s)-1]
		if len(s) == 0 {
			return big.NewInt(0), true
		}
	}
	return denoteCore(s)
}

func denoteCore(s []byte) (*big.Int, bool) {
	neg := false
	if len(s) > 0 && (s[0] == '+' || s[0] == '-') {
		neg = s[0] == '-'
		s = s[1:]
	}
	if len(s) == 0 {
		return nil, false
	}
	v := new(big.Int)
	ten := big.NewInt(10)
	for _, c := range s {
		if c < '0' || c > '9' {
			return nil, false
		}
		v.Mul(v, ten)
		v.Add(v, big.NewInt(int64(c-'0')))
	}
	if neg {
		v.Neg(v)
	}
	return v, true
}

func isQuoted(tok []byte) bool { return len(tok) >= 2 && tok[0] == '"' && tok[len(tok)-1] == '"' }

func unq(tok []byte) []byte {
	if isQuoted(tok) {
		return tok[1 : len(tok)-1]
	}
	return tok
}

// keySite: one key per root cause — the three time-stamp wrappers share one copied body (DESIGN F19).
func keySite(t *jsType) string {
	switch t.name {
	case "utime", "ntime", "stamp":
		return "JsUnixTime+JsNanoTime+UnixStamp"
	}
	return t.goName
}

// monitorDecode: the exact-or-error clause, restated on the real result.
func monitorDecode(t *jsType, tok []byte, res string) []corr.Hit {
	if !strings.HasPrefix(res, "ok ") {
		if strings.HasPrefix(res, "path-mismatch") {
			return []corr.Hit{{Key: "C20:" + t.goName + ".UnmarshalJSON:json-libraries-disagree", What: fmt.Sprintf("token %q: %s", tok, res)}}
		}
		if strings.HasPrefix(res, "jsoniter-differs") {
			return []corr.Hit{{Key: "C20:" + t.goName + ":jsoniter-differs", What: fmt.Sprintf("token %q decoded through jsoniter does not give what %s.UnmarshalJSON gives: %s", tok, t.goName, res)}}
		}
		return nil
	}
	got := res[3:]
	site := "C20:" + keySite(t) + ".UnmarshalJSON:"
	miss := func(wrapped bool, want string) []corr.Hit {
		key := site + "unquoted-token-sliced"
		if isQuoted(tok) {
			key = site + "quoted-text-mis-decoded"
			if wrapped {
				key = "C20:JsByte.FromString:element-wrapped"
			}
		}
		return []corr.Hit{{Key: key, What: fmt.Sprintf("%s: token %s decoded without error to %s, but the text denotes %s", t.goName, escapeTok(tok), got, want)}}
	}
	switch t.name {
	case "dur":
		d, err := time.ParseDuration(string(unq(tok)))
		if err != nil {
			return miss(false, "no duration")
		}
		if strconv.FormatInt(int64(d), 10) != got {
			return miss(false, d.String())
		}
	case "byte":
		text := unq(tok)
		want := "[]"
		wrapped := false
		if len(text) > 0 {
			var parts []string
			for _, p := range bytes.Split(text, []byte("/")) {
				v, ok := denoteCore(p)
				if !ok {
					return miss(false, "no byte list")
				}
				if v.Sign() < 0 || v.Cmp(big.NewInt(255)) > 0 {
					wrapped = true
				}
				parts = append(parts, v.String())
			}
			want = "[" + strings.Join(parts, ",") + "]"
		}
		if wrapped {
			return miss(true, want+" (element outside 0..255)")
		}
		if want != got {
			return miss(false, want)
		}
	default:
		v, ok := denoteInt(tok)
		if !ok {
			return miss(false, "no integer")
		}
		if v.String() != got {
			return miss(false, v.String())
		}
	}
	return nil
}

// ---------------------------------------------------------------- results a caller still holds

// A []byte an encoder returned belongs to the caller: later encodes (of this or any other value, on this or another
// goroutine) must not change it. Every such slice is kept with a private copy and compared again at the end of the script.
type heldResult struct {
	dec  bool   // the slice is a decoded value (Scan / UnmarshalJSON / FromString) rather than an encoder's output
	site string // "JsByte.ToJS", "JsInt64.MarshalJSON", "Base64Bytes.Scan", …
	of   string // the value encoded
	raw  []byte // exactly the slice the encoder returned
	copy []byte
}

var held []heldResult

func hold(site, of string, raw []byte) {
	held = append(held, heldResult{false, site, of, raw, append([]byte{}, raw...)})
}

// holdDec: a decoded slice-typed value belongs to the caller just as well: a later decode must not change it.
func holdDec(site, of string, raw []byte) {
	if len(of) > 60 {
		of = of[:60] + "…"
	}
	held = append(held, heldResult{true, site, of, raw, append([]byte{}, raw...)})
}

// checkHeld: run a few more encodes (here and on a second goroutine), then compare every held slice with its copy.
func checkHeld() []corr.Hit {
	if len(held) == 0 {
		return nil
	}
	other := tex.JsByte{201, 202, 203, 204, 205, 206, 207, 208, 209}
	churn := func() {
		_ = other.ToJS()
		_ = other.ToString()
		_, _ = other.MarshalJSON()
		_, _ = json.Marshal(struct{ V tex.JsByte }{other})
		_, _ = tex.JsInt64(-1234567890123456789).MarshalJSON()
		_, _ = tex.JsUInt64(12345678901234567890).MarshalJSON()
		_, _ = tex.Duration(-90000000001).MarshalJSON()
		_, _ = tex.JsNanoTime(time.Unix(0, 1234567890123456789)).MarshalJSON()
		var b tex.Base64Bytes
		_ = b.Scan("WFlaWFlaWFlaWFlaWFlaWFlaWFlaWFla")
		_ = b.Scan([]byte("eHl6eHl6eHl6eHl6"))
		var j tex.JsByte
		_ = j.UnmarshalJSON([]byte(`"9/8/7/6/5/4/3/2/1/9/8/7/6/5/4/3/2/1"`))
		_ = j.FromString("5/4/3/2/1/5/4/3/2/1")
	}
	churn()
	done := make(chan struct{})
	go func() { churn(); close(done) }()
	<-done
	var hits []corr.Hit
	seen := map[string]bool{}
	for _, h := range held {
		if !bytes.Equal(h.raw, h.copy) && !seen[h.site] {
			seen[h.site] = true
			what, show := "encode", func(b []byte) string { return fmt.Sprintf("%q", b) }
			if h.dec {
				what, show = "decode", func(b []byte) string {
					if len(b) > 24 {
						return fmt.Sprintf("%v…", b[:24])
					}
					return fmt.Sprintf("%v", b)
				}
			}
			hits = append(hits, corr.Hit{Key: "C20:" + h.site + ":earlier-result-changed-by-later-" + what,
				What: fmt.Sprintf("%s of %s returned %s; after later %ss the same slice reads %s", h.site, h.of, show(h.copy), what, show(h.raw))})
		}
	}
	held = held[:0]
	return hits
}

// ---------------------------------------------------------------- the harness never dies and never hangs

// Any panic or endless loop of an API call on a script line is a result (`panic` / `hang`) and a monitor hit with the
// line as replay — never the death of the runner. Every line runs in its own goroutine under a watchdog; after the
// first hang of an operation kind later lines of that kind are answered `hang` at once (the stuck goroutine cannot be
// killed, it just keeps spinning in the background).
var hungOps = map[string]bool{}

const lineTimeout = 8 * time.Second

func opName(line string) string {
	f := strings.Fields(line)
	if len(f) == 0 {
		return ""
	}
	return f[0]
}

// knownPanic: the one input on which the unchanged tree panics and which is outside the property's quantifier
// (JsInt64 on the lone quote character is `b[1:0]`; no JSON library ever passes it — theorem i64_lone_quote_panics_today).
func knownPanic(line string) bool { return line == `i64.dec t:"` }

func runLineGuarded(line string) (string, []corr.Hit) {
	op := opName(line)
	if hungOps[op] {
		return "hang", nil
	}
	type result struct {
		out  string
		hits []corr.Hit
	}
	ch := make(chan result, 1)
	go func() {
		defer func() {
			if r := recover(); r != nil {
				ch <- result{"panic", []corr.Hit{{Key: "C20:" + op + ":api-call-panics", What: fmt.Sprintf("`%s` panicked: %v", line, r)}}}
			}
		}()
		o, h := runLine(line)
		if o == "panic" && !knownPanic(line) {
			h = append(h, corr.Hit{Key: "C20:" + op + ":api-call-panics", What: fmt.Sprintf("`%s`: the call panicked", line)})
		}
		ch <- result{o, h}
	}()
	select {
	case r := <-ch:
		return r.out, r.hits
	case <-time.After(lineTimeout):
		hungOps[op] = true
		return "hang", []corr.Hit{{Key: "C20:" + op + ":does-not-terminate", What: fmt.Sprintf("`%s` did not return within %v", line, lineTimeout)}}
	}
}

func guardedHeld() (hits []corr.Hit) {
	ch := make(chan []corr.Hit, 1)
	go func() {
		defer func() {
			if r := recover(); r != nil {
				held = held[:0]
				ch <- []corr.Hit{{Key: "C20:encode-decode-after-script:api-call-panics", What: fmt.Sprintf("a plain encode/decode of a valid value panicked: %v", r)}}
			}
		}()
		ch <- checkHeld()
	}()
	select {
	case h := <-ch:
		return h
	case <-time.After(lineTimeout):
		held = nil
		return []corr.Hit{{Key: "C20:encode-decode-after-script:does-not-terminate", What: "a plain encode/decode of a valid value did not return"}}
	}
}

// ---------------------------------------------------------------- one line

func runLine(line string) (string, []corr.Hit) {
	f := strings.Fields(line)
	if len(f) == 0 {
		return "bad-op", nil
	}
	op := f[0]
	switch {
	case op == "hex.dec" || op == "hex.rt":
		if len(f) != 4 || (f[1] != "16" && f[1] != "32") || (f[2] != "s" && f[2] != "u") {
			return "bad-op", nil
		}
		return runHex(op, f[1] == "32", f[2] == "s", f[3])
	case op == "b64.dec" || op == "b64.rt":
		if len(f) != 2 {
			return "bad-op", nil
		}
		return runB64(op, f[1])
	case op == "sql.scan":
		if len(f) != 4 {
			return "bad-op", nil
		}
		return runSQLScan(f[1], f[2], f[3])
	case op == "sql.rt":
		if len(f) != 3 {
			return "bad-op", nil
		}
		return runSQLRt(f[1], f[2])
	case op == "sql.rtt":
		if len(f) != 5 {
			return "bad-op", nil
		}
		return runSQLRtt(f[1], f[2], f[3], f[4])
	case op == "ntime.rtt" || op == "utime.rtt":
		if len(f) != 4 {
			return "bad-op", nil
		}
		return runTimeRt(op, f[1], f[2], f[3])
	case op == "tostr":
		if len(f) != 3 {
			return "bad-op", nil
		}
		return runToStr(f[1], f[2])
	case op == "dur.toml":
		if len(f) != 2 {
			return "bad-op", nil
		}
		return runDurToml(f[1])
	case op == "byte.fromstr":
		if len(f) != 2 {
			return "bad-op", nil
		}
		return runByteFromStr(f[1])
	case op == "b64.scankind":
		if len(f) != 2 {
			return "bad-op", nil
		}
		return runB64ScanKind(f[1])
	}
	if len(f) != 2 {
		return "bad-op", nil
	}
	dot := strings.IndexByte(op, '.')
	if dot < 0 {
		return "bad-op", nil
	}
	t := jsTypeOf(op[:dot])
	if t == nil {
		return "bad-op", nil
	}
	switch op[dot+1:] {
	case "dec":
		tok, ok := unescapeTok(f[1])
		if !ok {
			return "bad-op", nil
		}
		res := decodeAll(t, tok)
		return res, monitorDecode(t, tok, res)
	case "rt":
		d, mismatch, ok := encodeAll(t, f[1])
		if !ok {
			return "bad-op", nil
		}
		if mismatch != "" {
			var hits []corr.Hit
			if strings.HasPrefix(mismatch, "jsoniter-differs") {
				hits = append(hits, corr.Hit{Key: "C20:" + t.goName + ":jsoniter-differs", What: fmt.Sprintf("value %s encoded through jsoniter does not give what %s.MarshalJSON gives: %s", f[1], t.goName, mismatch)})
			}
			return mismatch, hits
		}
		hold(t.goName+".MarshalJSON", f[1], d)
		res := decodeAll(t, d)
		var hits []corr.Hit
		if strings.HasPrefix(res, "jsoniter-differs") {
			hits = append(hits, corr.Hit{Key: "C20:" + t.goName + ":jsoniter-differs", What: fmt.Sprintf("value %s marshals to %s: %s", f[1], d, res)})
		}
		want := "ok " + f[1]
		if t.name == "byte" {
			want = "ok [" + strings.ReplaceAll(f[1], "-", "") + "]"
		}
		if res != want {
			hits = append(hits, corr.Hit{Key: "C20:" + t.goName + ":roundtrip", What: fmt.Sprintf("value %s marshals to %s, which unmarshals to `%s`", f[1], d, res)})
		}
		out := "enc=" + tokArg(d) + " dec=" + res
		switch t.name {
		case "dur":
			// the two other exported entry points of Duration: the getter and the TOML form
			x, _ := parseI64(f[1])
			get := int64(tex.Duration(x).Duration())
			toml := safely(func() (string, error) {
				var v tex.Duration
				err := v.UnmarshalTOML(time.Duration(x).String())
				return strconv.FormatInt(int64(v), 10), err
			})
			if get != x {
				hits = append(hits, corr.Hit{Key: "C20:Duration.Duration:getter-changes-value", What: fmt.Sprintf("Duration(%d).Duration() = %d", x, get)})
			}
			if toml != "ok "+f[1] {
				hits = append(hits, corr.Hit{Key: "C20:Duration.UnmarshalTOML:roundtrip", What: fmt.Sprintf("Duration %d prints as %q, which UnmarshalTOML reads as `%s`", x, time.Duration(x).String(), toml)})
			}
			out += " get=" + strconv.FormatInt(get, 10) + " toml=" + toml
		case "byte":
			var l []byte
			if f[1] != "-" {
				for _, p := range strings.Split(f[1], ",") {
					x, _ := parseU64(p)
					l = append(l, byte(x))
				}
			}
			str := tex.JsByte(l).ToString()
			raw := tex.JsByte(l).ToJS()
			hold("JsByte.ToJS", f[1], raw)
			js := string(raw)
			fs := safely(func() (string, error) {
				var v tex.JsByte
				err := v.FromString(str)
				return fmtBytes(v), err
			})
			if str != js {
				hits = append(hits, corr.Hit{Key: "C20:JsByte.ToString:differs-from-ToJS", What: fmt.Sprintf("%v: ToString %q, ToJS %q", l, str, js)})
			}
			if fs != want {
				hits = append(hits, corr.Hit{Key: "C20:JsByte.ToString:roundtrip", What: fmt.Sprintf("%v: ToString %q, which FromString reads as `%s`", l, str, fs)})
			}
			out += " str=" + tokArg([]byte(str)) + " fs=" + fs
		}
		return out, hits
	}
	return "bad-op", nil
}

// runToStr: tex.ToString, MapVal2String and ToStringList on a value of an integer kind — the text must denote the
// value and (for the wrapper kinds) decode back through the wrapper.
func runToStr(kind, v string) (string, []corr.Hit) {
	var val interface{}
	want := new(big.Int)
	switch kind {
	case "u64w", "u64", "uint":
		x, ok := parseU64(v)
		if !ok {
			return "bad-op", nil
		}
		want.SetUint64(x)
		val = map[string]interface{}{"u64w": tex.JsUInt64(x), "u64": x, "uint": uint(x)}[kind]
	case "i64w", "i64", "int", "dur", "tdur":
		x, ok := parseI64(v)
		if !ok {
			return "bad-op", nil
		}
		want.SetInt64(x)
		val = map[string]interface{}{"i64w": tex.JsInt64(x), "i64": x, "int": int(x), "dur": tex.Duration(x), "tdur": time.Duration(x)}[kind]
	default:
		return "bad-op", nil
	}
	var a, b, c string
	res := safely(func() (string, error) {
		a = tex.ToString(val)
		b = tex.MapVal2String(map[string]interface{}{"k": val}, "k")
		l := tex.ToStringList([]interface{}{val})
		if len(l) == 1 {
			c = l[0]
		}
		return "", nil
	})
	if res == "panic" {
		return "panic", nil
	}
	if a != b || a != c {
		return fmt.Sprintf("path-mismatch ToString=%q MapVal2String=%q ToStringList=%q", a, b, c), nil
	}
	var hits []corr.Hit
	name := fmt.Sprintf("%T", val)
	if d, ok := denoteCore([]byte(a)); !ok || d.Cmp(want) != 0 {
		hits = append(hits, corr.Hit{Key: "C20:ToString:text-denotes-different-number", What: fmt.Sprintf("tex.ToString(%s(%s)) = %q", name, v, a)})
	} else if kind == "i64w" || kind == "u64w" {
		t := jsTypeOf(kind[:3])
		if back := decodeAll(t, []byte(`"`+a+`"`)); back != "ok "+v {
			hits = append(hits, corr.Hit{Key: "C20:ToString:text-does-not-decode-back", What: fmt.Sprintf("tex.ToString(%s(%s)) = %q, which %s.UnmarshalJSON reads as `%s`", name, v, a, t.goName, back)})
		}
	}
	return tokArg([]byte(a)), hits
}

// runDurToml: Duration.UnmarshalTOML on a string (t:<tok>) or on a value of another kind (k:<kind>).
func runDurToml(arg string) (string, []corr.Hit) {
	var in interface{}
	isString := false
	switch arg {
	case "k:int":
		in = int64(5)
	case "k:bytes":
		in = []byte("5s")
	case "k:nil":
		in = nil
	case "k:float":
		in = 1.5
	default:
		tok, ok := unescapeTok(arg)
		if !ok {
			return "bad-op", nil
		}
		in, isString = string(tok), true
	}
	var got tex.Duration
	res := safely(func() (string, error) {
		err := got.UnmarshalTOML(in)
		return strconv.FormatInt(int64(got), 10), err
	})
	var hits []corr.Hit
	if strings.HasPrefix(res, "ok ") {
		miss := !isString
		if isString {
			d, err := time.ParseDuration(in.(string))
			miss = err != nil || int64(d) != int64(got)
		}
		if miss {
			hits = append(hits, corr.Hit{Key: "C20:Duration.UnmarshalTOML:mis-decode", What: fmt.Sprintf("UnmarshalTOML(%T %q) returned nil and %d", in, in, int64(got))})
		}
	}
	return res, hits
}

// runByteFromStr: JsByte.FromString called directly (no quotes involved).
func runByteFromStr(arg string) (string, []corr.Hit) {
	tok, ok := unescapeTok(arg)
	if !ok {
		return "bad-op", nil
	}
	res := safely(func() (string, error) {
		var v tex.JsByte
		err := v.FromString(string(tok))
		if err == nil {
			holdDec("JsByte.FromString", string(tok), v)
		}
		return fmtBytes(v), err
	})
	// same reference as the JSON form of a quoted token
	quoted := append(append([]byte{'"'}, tok...), '"')
	return res, monitorDecode(jsTypeOf("byte"), quoted, res)
}

// runB64ScanKind: Base64Bytes.Scan of a value that is neither []byte nor string must fail.
func runB64ScanKind(kind string) (string, []corr.Hit) {
	var in interface{}
	switch kind {
	case "int":
		in = int64(5)
	case "nil":
		in = nil
	case "float":
		in = 1.5
	case "time":
		in = time.Unix(5, 0)
	default:
		return "bad-op", nil
	}
	res := safely(func() (string, error) {
		var v tex.Base64Bytes
		err := v.Scan(in)
		return "x:" + hex.EncodeToString(v), err
	})
	var hits []corr.Hit
	if strings.HasPrefix(res, "ok ") {
		hits = append(hits, corr.Hit{Key: "C20:Base64Bytes.Scan:unsupported-type-accepted", What: fmt.Sprintf("Scan(%T) returned nil", in)})
	}
	return res, hits
}

func runHex(op string, v2, signed bool, arg string) (string, []corr.Hit) {
	base := 16
	if v2 {
		base = 32
	}
	dec := func(s string) string {
		return safely(func() (string, error) {
			switch {
			case signed && !v2:
				v, err := tex.HexI64(s)
				return strconv.FormatInt(v, 10), err
			case signed && v2:
				v, err := tex.HexI64V2(s)
				return strconv.FormatInt(v, 10), err
			case !signed && !v2:
				v, err := tex.HexU64(s)
				return strconv.FormatUint(v, 10), err
			default:
				v, err := tex.HexU64V2(s)
				return strconv.FormatUint(v, 10), err
			}
		})
	}
	if op == "hex.dec" {
		tok, ok := unescapeTok(arg)
		if !ok {
			return "bad-op", nil
		}
		res := dec(string(tok))
		var hits []corr.Hit
		if strings.HasPrefix(res, "ok ") {
			// reference: sign + digits of the base, arbitrary precision
			s := string(tok)
			body := strings.TrimLeft(s, "+-")
			ref, ok := new(big.Int).SetString(s, base)
			if !ok || strings.Contains(s, "_") || len(s)-len(body) > 1 || ref.String() != res[3:] {
				hits = append(hits, corr.Hit{Key: "C20:hex:mis-decode", What: fmt.Sprintf("base-%d text %q decoded to %s", base, s, res[3:])})
			}
		}
		return res, hits
	}
	var enc string
	if signed {
		x, ok := parseI64(arg)
		if !ok {
			return "bad-op", nil
		}
		if v2 {
			enc = tex.I64HexV2(x)
		} else {
			enc = tex.I64Hex(x)
		}
	} else {
		x, ok := parseU64(arg)
		if !ok {
			return "bad-op", nil
		}
		if v2 {
			enc = tex.U64HexV2(x)
		} else {
			enc = tex.U64Hex(x)
		}
	}
	res := dec(enc)
	var hits []corr.Hit
	if res != "ok "+arg {
		hits = append(hits, corr.Hit{Key: "C20:hex:roundtrip", What: fmt.Sprintf("value %s formats (base %d) to %q, which parses to `%s`", arg, base, enc, res)})
	}
	return "enc=" + tokArg([]byte(enc)) + " dec=" + res, hits
}

func runB64(op, arg string) (string, []corr.Hit) {
	scan := func(s []byte, asString bool) string {
		return safely(func() (string, error) {
			var v tex.Base64Bytes
			var err error
			if asString {
				err = v.Scan(string(s))
			} else {
				err = v.Scan(s)
			}
			if err == nil {
				holdDec("Base64Bytes.Scan", string(s), v)
			}
			return "x:" + hex.EncodeToString(v), err
		})
	}
	both := func(s []byte) string {
		a, b := scan(s, true), scan(s, false)
		if a != b {
			return fmt.Sprintf("path-mismatch string=%q bytes=%q", a, b)
		}
		return a
	}
	if op == "b64.dec" {
		tok, ok := unescapeTok(arg)
		if !ok {
			return "bad-op", nil
		}
		return both(tok), nil
	}
	if !strings.HasPrefix(arg, "x:") {
		return "bad-op", nil
	}
	raw, err := hex.DecodeString(arg[2:])
	if err != nil {
		return "bad-op", nil
	}
	val, _ := tex.Base64Bytes(raw).Value()
	enc, _ := val.(string)
	res := both([]byte(enc))
	var hits []corr.Hit
	if res != "ok x:"+hex.EncodeToString(raw) {
		hits = append(hits, corr.Hit{Key: "C20:Base64Bytes:roundtrip", What: fmt.Sprintf("bytes %x have Value %q, which scans to `%s`", raw, enc, res)})
	}
	return "enc=" + tokArg([]byte(enc)) + " dec=" + res, hits
}

// ---------------------------------------------------------------- instants

const zeroTimeUnix = -62135596800

func showTime(t time.Time) string {
	return strconv.FormatInt(t.Unix(), 10) + ":" + strconv.Itoa(t.Nanosecond())
}

func parseNsec(s string) (int, bool) {
	n, ok := parseU64(s)
	return int(n), ok && n < 1000000000
}

// buildTime makes a genuine time.Time the way `how` says: unix = time.Unix(sec,nsec), zero = time.Time{}, date<Y> = time.Date(Y,1,1,…,UTC).
func buildTime(secS, nsecS, how string) (time.Time, bool) {
	sec, ok1 := parseI64(secS)
	nsec, ok2 := parseNsec(nsecS)
	if !ok1 || !ok2 {
		return time.Time{}, false
	}
	switch {
	case how == "unix":
		return time.Unix(sec, int64(nsec)), true
	case how == "zero":
		return time.Time{}, sec == zeroTimeUnix && nsec == 0
	case strings.HasPrefix(how, "date"):
		y, ok := parseU64(how[4:])
		if !ok || nsec != 0 || y > 292277026000 {
			return time.Time{}, false
		}
		t := time.Date(int(y), 1, 1, 0, 0, 0, 0, time.UTC)
		return t, t.Unix() == sec
	}
	return time.Time{}, false
}

// fitsNano: the instant is representable as int64 nanoseconds since 1970 (math/big, independent of the model).
func fitsNano(t time.Time) bool {
	v := new(big.Int).Mul(big.NewInt(t.Unix()), big.NewInt(1000000000))
	v.Add(v, big.NewInt(int64(t.Nanosecond())))
	return v.IsInt64()
}

// runTimeRt: marshal a genuine time.Time through JsNanoTime / JsUnixTime, unmarshal, compare instants.
func runTimeRt(op, secS, nsecS, how string) (string, []corr.Hit) {
	t, ok := buildTime(secS, nsecS, how)
	if !ok {
		return "bad-op", nil
	}
	var enc, lib []byte
	var dec func(b []byte) (time.Time, error)
	var viaLib func(um func([]byte, interface{}) error, doc []byte) (time.Time, error)
	if op == "ntime.rtt" {
		enc, _ = tex.JsNanoTime(t).MarshalJSON()
		lib = libField(json.Marshal(struct{ V tex.JsNanoTime }{tex.JsNanoTime(t)}))
		dec = func(b []byte) (time.Time, error) { var v tex.JsNanoTime; err := v.UnmarshalJSON(b); return time.Time(v), err }
		viaLib = func(um func([]byte, interface{}) error, doc []byte) (time.Time, error) {
			var s struct{ V tex.JsNanoTime }
			err := um(doc, &s)
			return time.Time(s.V), err
		}
	} else {
		enc, _ = tex.JsUnixTime(t).MarshalJSON()
		lib = libField(json.Marshal(struct{ V tex.JsUnixTime }{tex.JsUnixTime(t)}))
		dec = func(b []byte) (time.Time, error) { var v tex.JsUnixTime; err := v.UnmarshalJSON(b); return time.Time(v), err }
		viaLib = func(um func([]byte, interface{}) error, doc []byte) (time.Time, error) {
			var s struct{ V tex.JsUnixTime }
			err := um(doc, &s)
			return time.Time(s.V), err
		}
	}
	if !bytes.Equal(enc, lib) {
		return fmt.Sprintf("marshal-path-mismatch direct=%q encoding/json=%q", enc, lib), nil
	}
	hold(map[string]string{"ntime.rtt": "JsNanoTime", "utime.rtt": "JsUnixTime"}[op]+".MarshalJSON", secS+":"+nsecS, enc)
	var got time.Time
	res := safely(func() (string, error) {
		v, err := dec(append([]byte{}, enc...))
		got = v
		return showTime(v), err
	})
	doc := append(append([]byte(`{"V":`), enc...), '}')
	for _, um := range []func([]byte, interface{}) error{json.Unmarshal, jsoniter.ConfigCompatibleWithStandardLibrary.Unmarshal} {
		r2 := safely(func() (string, error) { v, err := viaLib(um, doc); return showTime(v), err })
		if r2 != res {
			return fmt.Sprintf("path-mismatch direct=%q library=%q", res, r2), nil
		}
	}
	var hits []corr.Hit
	name := "JsNanoTime"
	want := t
	if op == "utime.rtt" {
		name = "JsUnixTime"
		want = time.Unix(t.Unix(), 0) // second-resolution format: the nanoseconds are not part of the value
	}
	if !strings.HasPrefix(res, "ok ") || !got.Equal(want) {
		key := "C20:" + name + ":roundtrip"
		if op == "ntime.rtt" && !fitsNano(t) {
			key = "C20:JsNanoTime:time-outside-unixnano-range-roundtrip"
		}
		hits = append(hits, corr.Hit{Key: key, What: fmt.Sprintf("%s(%s) marshals to %s, which unmarshals to `%s` (%s)", name, t.UTC().Format(time.RFC3339Nano), enc, res, got.UTC().Format(time.RFC3339Nano))})
	}
	return "enc=" + tokArg(enc) + " dec=" + res, hits
}

// ---------------------------------------------------------------- SQL forms

// sqlValue builds the dynamic value a driver hands to Scan. denotes: the int64 the value stands for (nil if none).
func sqlValue(ty, v string) (val interface{}, ok bool) {
	switch ty {
	case "i32":
		x, err := strconv.ParseInt(v, 10, 32)
		return int32(x), err == nil && !strings.HasPrefix(v, "+")
	case "u32":
		x, err := strconv.ParseUint(v, 10, 32)
		return uint32(x), err == nil && !strings.HasPrefix(v, "+")
	case "i64":
		x, ok := parseI64(v)
		return x, ok
	case "u64":
		x, ok := parseU64(v)
		return x, ok
	case "int":
		x, ok := parseI64(v)
		return int(x), ok
	case "uint":
		x, ok := parseU64(v)
		return uint(x), ok
	case "f64":
		x, ok := parseI64(v)
		return float64(x), ok
	case "bool":
		return v == "1", v == "0" || v == "1"
	case "bytes":
		b, ok := unescapeTok(v)
		return b, ok
	case "str":
		b, ok := unescapeTok(v)
		return string(b), ok
	case "time":
		i := strings.IndexByte(v, ':')
		if i < 0 {
			return nil, false
		}
		t, ok := buildTime(v[:i], v[i+1:], "unix")
		return t, ok
	case "null":
		return nil, v == "-"
	}
	return nil, false
}

// sqlDenotes: the integer a driver value stands for, by an independent reading (math/big); ok=false: none.
func sqlDenotes(val interface{}) (*big.Int, bool) {
	switch x := val.(type) {
	case nil:
		return big.NewInt(0), true
	case int32:
		return big.NewInt(int64(x)), true
	case uint32:
		return big.NewInt(int64(x)), true
	case int64:
		return big.NewInt(x), true
	case int:
		return big.NewInt(int64(x)), true
	case uint64:
		return new(big.Int).SetUint64(x), true
	case uint:
		return new(big.Int).SetUint64(uint64(x)), true
	case []byte:
		return denoteCore(x)
	case string:
		return denoteCore([]byte(x))
	}
	return nil, false
}

func scanInto(target string, val interface{}) (string, time.Time, int64) {
	var gt time.Time
	var gi int64
	res := safely(func() (string, error) {
		switch target {
		case "nano":
			var s tex.UnixNano2Time
			err := s.Scan(val)
			gt = time.Time(s)
			return showTime(gt), err
		case "unix":
			var s tex.Unix2Time
			err := s.Scan(val)
			gt = time.Time(s)
			return showTime(gt), err
		case "stamp":
			s := tex.UnixStamp(7)
			err := s.Scan(val)
			gi = int64(s)
			return strconv.FormatInt(gi, 10), err
		default:
			s := tex.SQLTime2Unix(7)
			err := s.Scan(val)
			gi = int64(s)
			return strconv.FormatInt(gi, 10), err
		}
	})
	return res, gt, gi
}

func validTarget(t string) bool { return t == "nano" || t == "unix" || t == "stamp" || t == "t2u" }

var scanTypeName = map[string]string{"nano": "UnixNano2Time", "unix": "Unix2Time", "stamp": "UnixStamp", "t2u": "SQLTime2Unix"}

func runSQLScan(target, ty, v string) (string, []corr.Hit) {
	if !validTarget(target) {
		return "bad-op", nil
	}
	val, ok := sqlValue(ty, v)
	if !ok {
		return "bad-op", nil
	}
	res, gt, gi := scanInto(target, val)
	var hits []corr.Hit
	if strings.HasPrefix(res, "ok ") {
		name := scanTypeName[target]
		if target == "nano" || target == "unix" {
			d, denotes := sqlDenotes(val)
			var got *big.Int
			if target == "nano" {
				got = new(big.Int).Add(new(big.Int).Mul(big.NewInt(gt.Unix()), big.NewInt(1000000000)), big.NewInt(int64(gt.Nanosecond())))
			} else {
				got = big.NewInt(gt.Unix())
			}
			switch {
			case !denotes:
				hits = append(hits, corr.Hit{Key: "C20:Scan:unsupported-type-yields-epoch", What: fmt.Sprintf("%s.Scan(%T %v) returned nil and the instant %s: the value denotes no integer", name, val, val, showTime(gt))})
			case d.Cmp(got) != 0 && (ty == "u64" || ty == "uint"):
				hits = append(hits, corr.Hit{Key: "C20:Scan:uint64-above-maxint64-wraps", What: fmt.Sprintf("%s.Scan(%T %v) returned nil and %s, the value is %s", name, val, val, got, d)})
			case d.Cmp(got) != 0:
				hits = append(hits, corr.Hit{Key: "C20:Scan:unsupported-type-yields-epoch", What: fmt.Sprintf("%s.Scan(%T %q) returned nil and %s, the value denotes %s", name, val, val, got, d)})
			}
		} else {
			switch x := val.(type) {
			case nil:
				if gi != 7 {
					hits = append(hits, corr.Hit{Key: "C20:Scan:stamp-null-changes-value", What: fmt.Sprintf("%s.Scan(nil) changed the stamp to %d", name, gi)})
				}
			case time.Time:
				if gi != x.Unix() {
					hits = append(hits, corr.Hit{Key: "C20:sql-" + target + ":roundtrip", What: fmt.Sprintf("%s.Scan(%s) = %d", name, showTime(x), gi)})
				}
			default:
				hits = append(hits, corr.Hit{Key: "C20:Scan:unsupported-type-yields-epoch", What: fmt.Sprintf("%s.Scan(%T %v) returned nil and left the stamp at %d: the value is not a time", name, val, val, gi)})
			}
		}
	}
	return res, hits
}

func runSQLRt(target, v string) (string, []corr.Hit) {
	if !validTarget(target) {
		return "bad-op", nil
	}
	x, ok := parseI64(v)
	if !ok {
		return "bad-op", nil
	}
	var dv driver.Value
	var shown string
	want := v
	switch target {
	case "nano":
		dv, _ = tex.UnixNano2Time(time.Unix(0, x)).Value()
		want = showTime(time.Unix(0, x))
	case "unix":
		dv, _ = tex.Unix2Time(time.Unix(x, 0)).Value()
		want = showTime(time.Unix(x, 0))
	case "stamp":
		dv, _ = tex.UnixStamp(x).Value()
	default:
		dv, _ = tex.SQLTime2Unix(x).Value()
	}
	switch y := dv.(type) {
	case int64:
		shown = strconv.FormatInt(y, 10)
	case time.Time:
		shown = strconv.FormatInt(y.Unix(), 10)
	default:
		shown = fmt.Sprintf("?%T", dv)
	}
	res, _, _ := scanInto(target, dv)
	var hits []corr.Hit
	if res != "ok "+want || shown != v {
		hits = append(hits, corr.Hit{Key: "C20:sql-" + target + ":roundtrip", What: fmt.Sprintf("value %s has driver value %s, which scans to `%s`", v, shown, res)})
	}
	return "val=" + shown + " scan=" + res, hits
}

// runSQLRtt: Value() then Scan() on a genuine time.Time.
func runSQLRtt(target, secS, nsecS, how string) (string, []corr.Hit) {
	if target != "nano" && target != "unix" {
		return "bad-op", nil
	}
	t, ok := buildTime(secS, nsecS, how)
	if !ok {
		return "bad-op", nil
	}
	var dv driver.Value
	want := t
	if target == "nano" {
		dv, _ = tex.UnixNano2Time(t).Value()
	} else {
		dv, _ = tex.Unix2Time(t).Value()
		want = time.Unix(t.Unix(), 0)
	}
	shown := fmt.Sprintf("?%T", dv)
	if y, ok := dv.(int64); ok {
		shown = strconv.FormatInt(y, 10)
	}
	res, gt, _ := scanInto(target, dv)
	var hits []corr.Hit
	if !strings.HasPrefix(res, "ok ") || !gt.Equal(want) {
		key := "C20:sql-" + target + ":roundtrip"
		if target == "nano" && !fitsNano(t) {
			key = "C20:UnixNano2Time:time-outside-unixnano-range-roundtrip"
		}
		hits = append(hits, corr.Hit{Key: key, What: fmt.Sprintf("%s(%s).Value() = %s, which scans to `%s` (%s)", scanTypeName[target], t.UTC().Format(time.RFC3339Nano), shown, res, gt.UTC().Format(time.RFC3339Nano))})
	}
	return "val=" + shown + " scan=" + res, hits
}
