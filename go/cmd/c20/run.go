package main

import (
	"bytes"
	"database/sql/driver"
	"encoding/hex"
	"encoding/json"
	"errors"
	"fmt"
	"math/big"
	"strconv"
	"strings"
	"time"

	jsoniter "github.com/json-iterator/go"
	"github.com/pinealctx/neptune/tex"

	"nvharness/lib/corr"
)

// ---------------------------------------------------------------- token escaping (same as Oracle/C20.lean)

func escapeTok(b []byte) string {
	var sb strings.Builder
	for _, c := range b {
		if c >= 33 && c <= 126 && c != '%' {
			sb.WriteByte(c)
		} else {
			fmt.Fprintf(&sb, "%%%02X", c)
		}
	}
	return sb.String()
}

func hexv(c byte) int {
	switch {
	case c >= '0' && c <= '9':
		return int(c - '0')
	case c >= 'a' && c <= 'f':
		return int(c-'a') + 10
	case c >= 'A' && c <= 'F':
		return int(c-'A') + 10
	}
	return -1
}

func unescapeTok(s string) ([]byte, bool) {
	if !strings.HasPrefix(s, "t:") {
		return nil, false
	}
	s = s[2:]
	out := []byte{}
	for i := 0; i < len(s); i++ {
		c := s[i]
		if c == '%' {
			if i+2 > len(s)-1 {
				return nil, false
			}
			a, b := hexv(s[i+1]), hexv(s[i+2])
			if a < 0 || b < 0 {
				return nil, false
			}
			out = append(out, byte(a*16+b))
			i += 2
			continue
		}
		if c < 33 || c > 126 {
			return nil, false
		}
		out = append(out, c)
	}
	return out, true
}

func tokArg(b []byte) string { return "t:" + escapeTok(b) }

// ---------------------------------------------------------------- the seven JSON-adapted types

type jsType struct {
	name   string // op prefix
	goName string // for monitor keys
	// decode b through the type's UnmarshalJSON; returns the canonical value text
	direct func(b []byte) (string, error)
	// the same through a JSON library: doc is {"V":<tok>}
	viaLib func(unmarshal func([]byte, interface{}) error, doc []byte) (string, error)
	// marshal the value given as text; direct and through json.Marshal of a struct
	marshal func(arg string) (direct []byte, lib []byte, ok bool)
}

func fmtBytes(b []byte) string {
	parts := make([]string, len(b))
	for i, x := range b {
		parts[i] = strconv.Itoa(int(x))
	}
	return "[" + strings.Join(parts, ",") + "]"
}

func libField(enc []byte, err error) []byte {
	// {"V":<tok>} -> <tok>
	if err != nil || !bytes.HasPrefix(enc, []byte(`{"V":`)) || !bytes.HasSuffix(enc, []byte(`}`)) {
		return []byte("marshal-error")
	}
	return enc[5 : len(enc)-1]
}

func parseI64(s string) (int64, bool) {
	if strings.HasPrefix(s, "+") || strings.Contains(s, "_") {
		return 0, false
	}
	v, err := strconv.ParseInt(s, 10, 64)
	return v, err == nil
}

func parseU64(s string) (uint64, bool) {
	if strings.HasPrefix(s, "+") || strings.Contains(s, "_") {
		return 0, false
	}
	v, err := strconv.ParseUint(s, 10, 64)
	return v, err == nil
}

var jsTypes = []jsType{
	{name: "i64", goName: "JsInt64",
		direct: func(b []byte) (string, error) {
			var v tex.JsInt64
			err := v.UnmarshalJSON(b)
			return strconv.FormatInt(int64(v), 10), err
		},
		viaLib: func(um func([]byte, interface{}) error, doc []byte) (string, error) {
			var s struct{ V tex.JsInt64 }
			err := um(doc, &s)
			return strconv.FormatInt(int64(s.V), 10), err
		},
		marshal: func(a string) ([]byte, []byte, bool) {
			x, ok := parseI64(a)
			if !ok {
				return nil, nil, false
			}
			d, _ := tex.JsInt64(x).MarshalJSON()
			return d, libField(json.Marshal(struct{ V tex.JsInt64 }{tex.JsInt64(x)})), true
		}},
	{name: "u64", goName: "JsUInt64",
		direct: func(b []byte) (string, error) {
			var v tex.JsUInt64
			err := v.UnmarshalJSON(b)
			return strconv.FormatUint(uint64(v), 10), err
		},
		viaLib: func(um func([]byte, interface{}) error, doc []byte) (string, error) {
			var s struct{ V tex.JsUInt64 }
			err := um(doc, &s)
			return strconv.FormatUint(uint64(s.V), 10), err
		},
		marshal: func(a string) ([]byte, []byte, bool) {
			x, ok := parseU64(a)
			if !ok {
				return nil, nil, false
			}
			d, _ := tex.JsUInt64(x).MarshalJSON()
			return d, libField(json.Marshal(struct{ V tex.JsUInt64 }{tex.JsUInt64(x)})), true
		}},
	{name: "utime", goName: "JsUnixTime",
		direct: func(b []byte) (string, error) {
			var v tex.JsUnixTime
			err := v.UnmarshalJSON(b)
			return strconv.FormatInt(time.Time(v).Unix(), 10), err
		},
		viaLib: func(um func([]byte, interface{}) error, doc []byte) (string, error) {
			var s struct{ V tex.JsUnixTime }
			err := um(doc, &s)
			return strconv.FormatInt(time.Time(s.V).Unix(), 10), err
		},
		marshal: func(a string) ([]byte, []byte, bool) {
			x, ok := parseI64(a)
			if !ok {
				return nil, nil, false
			}
			v := tex.JsUnixTime(time.Unix(x, 0))
			d, _ := v.MarshalJSON()
			return d, libField(json.Marshal(struct{ V tex.JsUnixTime }{v})), true
		}},
	{name: "ntime", goName: "JsNanoTime",
		direct: func(b []byte) (string, error) {
			var v tex.JsNanoTime
			err := v.UnmarshalJSON(b)
			return strconv.FormatInt(time.Time(v).UnixNano(), 10), err
		},
		viaLib: func(um func([]byte, interface{}) error, doc []byte) (string, error) {
			var s struct{ V tex.JsNanoTime }
			err := um(doc, &s)
			return strconv.FormatInt(time.Time(s.V).UnixNano(), 10), err
		},
		marshal: func(a string) ([]byte, []byte, bool) {
			x, ok := parseI64(a)
			if !ok {
				return nil, nil, false
			}
			v := tex.JsNanoTime(time.Unix(0, x))
			d, _ := v.MarshalJSON()
			return d, libField(json.Marshal(struct{ V tex.JsNanoTime }{v})), true
		}},
	{name: "stamp", goName: "UnixStamp",
		direct: func(b []byte) (string, error) {
			var v tex.UnixStamp
			err := v.UnmarshalJSON(b)
			return strconv.FormatInt(int64(v), 10), err
		},
		viaLib: func(um func([]byte, interface{}) error, doc []byte) (string, error) {
			var s struct{ V tex.UnixStamp }
			err := um(doc, &s)
			return strconv.FormatInt(int64(s.V), 10), err
		},
		marshal: func(a string) ([]byte, []byte, bool) {
			x, ok := parseI64(a)
			if !ok {
				return nil, nil, false
			}
			d, _ := tex.UnixStamp(x).MarshalJSON()
			return d, libField(json.Marshal(struct{ V tex.UnixStamp }{tex.UnixStamp(x)})), true
		}},
	{name: "dur", goName: "Duration",
		direct: func(b []byte) (string, error) {
			var v tex.Duration
			err := v.UnmarshalJSON(b)
			return strconv.FormatInt(int64(v), 10), err
		},
		viaLib: func(um func([]byte, interface{}) error, doc []byte) (string, error) {
			var s struct{ V tex.Duration }
			err := um(doc, &s)
			return strconv.FormatInt(int64(s.V), 10), err
		},
		marshal: func(a string) ([]byte, []byte, bool) {
			x, ok := parseI64(a)
			if !ok {
				return nil, nil, false
			}
			d, _ := tex.Duration(x).MarshalJSON()
			enc, err := json.Marshal(struct{ V tex.Duration }{tex.Duration(x)})
			// encoding/json escapes nothing in a duration text, but it re-validates it
			return d, libField(enc, err), true
		}},
	{name: "byte", goName: "JsByte",
		direct: func(b []byte) (string, error) {
			var v tex.JsByte
			err := v.UnmarshalJSON(b)
			return fmtBytes(v), err
		},
		viaLib: func(um func([]byte, interface{}) error, doc []byte) (string, error) {
			var s struct{ V tex.JsByte }
			err := um(doc, &s)
			return fmtBytes(s.V), err
		},
		marshal: func(a string) ([]byte, []byte, bool) {
			var l []byte
			if a != "-" {
				for _, p := range strings.Split(a, ",") {
					x, ok := parseU64(p)
					if !ok || x > 255 {
						return nil, nil, false
					}
					l = append(l, byte(x))
				}
			}
			d, _ := tex.JsByte(l).MarshalJSON()
			return d, libField(json.Marshal(struct{ V tex.JsByte }{tex.JsByte(l)})), true
		}},
}

func jsTypeOf(name string) *jsType {
	for i := range jsTypes {
		if jsTypes[i].name == name {
			return &jsTypes[i]
		}
	}
	return nil
}

// classify maps an error to the small enum of the model.
func classify(err error) string {
	switch {
	case err == nil:
		return ""
	case errors.Is(err, strconv.ErrSyntax):
		return "err:syntax"
	case errors.Is(err, strconv.ErrRange):
		return "err:range"
	case errors.Is(err, tex.ErrInvalidInt64Js), errors.Is(err, tex.ErrInvalidUInt64Js), errors.Is(err, tex.ErrInvalidByteJs),
		errors.Is(err, tex.ErrInvalidDuration):
		return "err:invalid"
	}
	msg := err.Error()
	// jsoniter wraps the error text of UnmarshalJSON
	if i := strings.Index(msg, "unmarshalerDecoder: "); i >= 0 {
		msg = msg[i+len("unmarshalerDecoder: "):]
		if j := strings.Index(msg, ", error found in #"); j >= 0 {
			msg = msg[:j]
		}
		switch {
		case strings.HasPrefix(msg, "strconv.") && strings.HasSuffix(msg, ": invalid syntax"):
			return "err:syntax"
		case strings.HasPrefix(msg, "strconv.") && strings.HasSuffix(msg, ": value out of range"):
			return "err:range"
		case msg == tex.ErrInvalidInt64Js.Error(), msg == tex.ErrInvalidUInt64Js.Error(), msg == tex.ErrInvalidByteJs.Error(),
			msg == tex.ErrInvalidDuration.Error():
			return "err:invalid"
		}
	}
	return "err:other"
}

func safely(f func() (string, error)) (out string) {
	defer func() {
		if r := recover(); r != nil {
			out = "panic"
		}
	}()
	v, err := f()
	if err != nil {
		return classify(err)
	}
	return "ok " + v
}

// libToken: can tok be placed as the value of a JSON document member so that the library hands exactly tok to UnmarshalJSON?
func libToken(tok []byte) bool {
	if len(tok) == 0 || !json.Valid(tok) {
		return false
	}
	isWS := func(c byte) bool { return c == ' ' || c == '\t' || c == '\n' || c == '\r' }
	return !isWS(tok[0]) && !isWS(tok[len(tok)-1])
}

// probe records what a JSON library hands to UnmarshalJSON.
type probe struct {
	raw    []byte
	called bool
}

func (p *probe) UnmarshalJSON(b []byte) error {
	p.raw, p.called = append([]byte{}, b...), true
	return nil
}

// delivers: does the library call UnmarshalJSON with exactly tok for the document {"V":tok}? (jsoniter, for one,
// rejects the number 1e400 itself; such a token never reaches the wrapper through that library.)
func delivers(um func([]byte, interface{}) error, doc, tok []byte) (ok bool) {
	defer func() {
		if recover() != nil {
			ok = false
		}
	}()
	var s struct{ V probe }
	if err := um(doc, &s); err != nil {
		return false
	}
	return s.V.called && bytes.Equal(s.V.raw, tok)
}

// decodeAll decodes tok directly and — when a library delivers it — through encoding/json and jsoniter; all must agree.
func decodeAll(t *jsType, tok []byte) string {
	d := safely(func() (string, error) { return t.direct(append([]byte{}, tok...)) })
	if libToken(tok) {
		doc := append(append([]byte(`{"V":`), tok...), '}')
		j, it := d, d
		if delivers(json.Unmarshal, doc, tok) {
			j = safely(func() (string, error) { return t.viaLib(json.Unmarshal, doc) })
		}
		if delivers(jsoniter.ConfigCompatibleWithStandardLibrary.Unmarshal, doc, tok) {
			it = safely(func() (string, error) {
				return t.viaLib(jsoniter.ConfigCompatibleWithStandardLibrary.Unmarshal, doc)
			})
		}
		if j != d || it != d {
			return fmt.Sprintf("path-mismatch direct=%q encoding/json=%q jsoniter=%q", d, j, it)
		}
	}
	return d
}

// ---------------------------------------------------------------- what a token denotes (independent reference, math/big)

// denoteInt: optional surrounding quotes (both or none), optional sign, decimal digits. `""` denotes 0.
func denoteInt(tok []byte) (*big.Int, bool) {
	s := tok
	quoted := len(s) >= 2 && s[0] == '"' && s[len(s)-1] == '"'
	if quoted {
		s = s[1 : len(s)-1]
		if len(s) == 0 {
			return big.NewInt(0), true
		}
	}
	return denoteCore(s)
}

func denoteCore(s []byte) (*big.Int, bool) {
	neg := false
	if len(s) > 0 && (s[0] == '+' || s[0] == '-') {
		neg = s[0] == '-'
		s = s[1:]
	}
	if len(s) == 0 {
		return nil, false
	}
	v := new(big.Int)
	ten := big.NewInt(10)
	for _, c := range s {
		if c < '0' || c > '9' {
			return nil, false
		}
		v.Mul(v, ten)
		v.Add(v, big.NewInt(int64(c-'0')))
	}
	if neg {
		v.Neg(v)
	}
	return v, true
}

func isQuoted(tok []byte) bool { return len(tok) >= 2 && tok[0] == '"' && tok[len(tok)-1] == '"' }

func unq(tok []byte) []byte {
	if isQuoted(tok) {
		return tok[1 : len(tok)-1]
	}
	return tok
}

// keySite: one key per root cause — the three time-stamp wrappers share one copied body (DESIGN F19).
func keySite(t *jsType) string {
	switch t.name {
	case "utime", "ntime", "stamp":
		return "JsUnixTime+JsNanoTime+UnixStamp"
	}
	return t.goName
}

// monitorDecode: the exact-or-error clause, restated on the real result.
func monitorDecode(t *jsType, tok []byte, res string) []corr.Hit {
	if !strings.HasPrefix(res, "ok ") {
		if strings.HasPrefix(res, "path-mismatch") {
			return []corr.Hit{{Key: "C20:" + t.goName + ".UnmarshalJSON:json-libraries-disagree", What: fmt.Sprintf("token %q: %s", tok, res)}}
		}
		return nil
	}
	got := res[3:]
	site := "C20:" + keySite(t) + ".UnmarshalJSON:"
	miss := func(wrapped bool, want string) []corr.Hit {
		key := site + "unquoted-token-sliced"
		if isQuoted(tok) {
			key = site + "quoted-text-mis-decoded"
			if wrapped {
				key = "C20:JsByte.FromString:element-wrapped"
			}
		}
		return []corr.Hit{{Key: key, What: fmt.Sprintf("%s: token %s decoded without error to %s, but the text denotes %s", t.goName, escapeTok(tok), got, want)}}
	}
	switch t.name {
	case "dur":
		d, err := time.ParseDuration(string(unq(tok)))
		if err != nil {
			return miss(false, "no duration")
		}
		if strconv.FormatInt(int64(d), 10) != got {
			return miss(false, d.String())
		}
	case "byte":
		text := unq(tok)
		want := "[]"
		wrapped := false
		if len(text) > 0 {
			var parts []string
			for _, p := range bytes.Split(text, []byte("/")) {
				v, ok := denoteCore(p)
				if !ok {
					return miss(false, "no byte list")
				}
				if v.Sign() < 0 || v.Cmp(big.NewInt(255)) > 0 {
					wrapped = true
				}
				parts = append(parts, v.String())
			}
			want = "[" + strings.Join(parts, ",") + "]"
		}
		if wrapped {
			return miss(true, want+" (element outside 0..255)")
		}
		if want != got {
			return miss(false, want)
		}
	default:
		v, ok := denoteInt(tok)
		if !ok {
			return miss(false, "no integer")
		}
		if v.String() != got {
			return miss(false, v.String())
		}
	}
	return nil
}

// ---------------------------------------------------------------- one line

func runLine(line string) (string, []corr.Hit) {
	f := strings.Fields(line)
	if len(f) == 0 {
		return "bad-op", nil
	}
	op := f[0]
	switch {
	case op == "hex.dec" || op == "hex.rt":
		if len(f) != 4 || (f[1] != "16" && f[1] != "32") || (f[2] != "s" && f[2] != "u") {
			return "bad-op", nil
		}
		return runHex(op, f[1] == "32", f[2] == "s", f[3])
	case op == "b64.dec" || op == "b64.rt":
		if len(f) != 2 {
			return "bad-op", nil
		}
		return runB64(op, f[1])
	case op == "sql.scan":
		if len(f) != 4 {
			return "bad-op", nil
		}
		return runSQLScan(f[1], f[2], f[3])
	case op == "sql.rt":
		if len(f) != 3 {
			return "bad-op", nil
		}
		return runSQLRt(f[1], f[2])
	}
	if len(f) != 2 {
		return "bad-op", nil
	}
	dot := strings.IndexByte(op, '.')
	if dot < 0 {
		return "bad-op", nil
	}
	t := jsTypeOf(op[:dot])
	if t == nil {
		return "bad-op", nil
	}
	switch op[dot+1:] {
	case "dec":
		tok, ok := unescapeTok(f[1])
		if !ok {
			return "bad-op", nil
		}
		res := decodeAll(t, tok)
		return res, monitorDecode(t, tok, res)
	case "rt":
		d, lib, ok := t.marshal(f[1])
		if !ok {
			return "bad-op", nil
		}
		if !bytes.Equal(d, lib) {
			return fmt.Sprintf("marshal-path-mismatch direct=%q encoding/json=%q", d, lib), nil
		}
		res := decodeAll(t, d)
		var hits []corr.Hit
		want := "ok " + f[1]
		if t.name == "byte" {
			want = "ok [" + strings.ReplaceAll(f[1], "-", "") + "]"
		}
		if res != want {
			hits = append(hits, corr.Hit{Key: "C20:" + t.goName + ":roundtrip", What: fmt.Sprintf("value %s marshals to %s, which unmarshals to `%s`", f[1], d, res)})
		}
		return "enc=" + tokArg(d) + " dec=" + res, hits
	}
	return "bad-op", nil
}

func runHex(op string, v2, signed bool, arg string) (string, []corr.Hit) {
	base := 16
	if v2 {
		base = 32
	}
	dec := func(s string) string {
		return safely(func() (string, error) {
			switch {
			case signed && !v2:
				v, err := tex.HexI64(s)
				return strconv.FormatInt(v, 10), err
			case signed && v2:
				v, err := tex.HexI64V2(s)
				return strconv.FormatInt(v, 10), err
			case !signed && !v2:
				v, err := tex.HexU64(s)
				return strconv.FormatUint(v, 10), err
			default:
				v, err := tex.HexU64V2(s)
				return strconv.FormatUint(v, 10), err
			}
		})
	}
	if op == "hex.dec" {
		tok, ok := unescapeTok(arg)
		if !ok {
			return "bad-op", nil
		}
		res := dec(string(tok))
		var hits []corr.Hit
		if strings.HasPrefix(res, "ok ") {
			// reference: sign + digits of the base, arbitrary precision
			s := string(tok)
			body := strings.TrimLeft(s, "+-")
			ref, ok := new(big.Int).SetString(s, base)
			if !ok || strings.Contains(s, "_") || len(s)-len(body) > 1 || ref.String() != res[3:] {
				hits = append(hits, corr.Hit{Key: "C20:hex:mis-decode", What: fmt.Sprintf("base-%d text %q decoded to %s", base, s, res[3:])})
			}
		}
		return res, hits
	}
	var enc string
	if signed {
		x, ok := parseI64(arg)
		if !ok {
			return "bad-op", nil
		}
		if v2 {
			enc = tex.I64HexV2(x)
		} else {
			enc = tex.I64Hex(x)
		}
	} else {
		x, ok := parseU64(arg)
		if !ok {
			return "bad-op", nil
		}
		if v2 {
			enc = tex.U64HexV2(x)
		} else {
			enc = tex.U64Hex(x)
		}
	}
	res := dec(enc)
	var hits []corr.Hit
	if res != "ok "+arg {
		hits = append(hits, corr.Hit{Key: "C20:hex:roundtrip", What: fmt.Sprintf("value %s formats (base %d) to %q, which parses to `%s`", arg, base, enc, res)})
	}
	return "enc=" + tokArg([]byte(enc)) + " dec=" + res, hits
}

func runB64(op, arg string) (string, []corr.Hit) {
	scan := func(s []byte, asString bool) string {
		return safely(func() (string, error) {
			var v tex.Base64Bytes
			var err error
			if asString {
				err = v.Scan(string(s))
			} else {
				err = v.Scan(s)
			}
			return "x:" + hex.EncodeToString(v), err
		})
	}
	both := func(s []byte) string {
		a, b := scan(s, true), scan(s, false)
		if a != b {
			return fmt.Sprintf("path-mismatch string=%q bytes=%q", a, b)
		}
		return a
	}
	if op == "b64.dec" {
		tok, ok := unescapeTok(arg)
		if !ok {
			return "bad-op", nil
		}
		return both(tok), nil
	}
	if !strings.HasPrefix(arg, "x:") {
		return "bad-op", nil
	}
	raw, err := hex.DecodeString(arg[2:])
	if err != nil {
		return "bad-op", nil
	}
	val, _ := tex.Base64Bytes(raw).Value()
	enc, _ := val.(string)
	res := both([]byte(enc))
	var hits []corr.Hit
	if res != "ok x:"+hex.EncodeToString(raw) {
		hits = append(hits, corr.Hit{Key: "C20:Base64Bytes:roundtrip", What: fmt.Sprintf("bytes %x have Value %q, which scans to `%s`", raw, enc, res)})
	}
	return "enc=" + tokArg([]byte(enc)) + " dec=" + res, hits
}

func sqlValue(ty, v string) (interface{}, bool) {
	switch ty {
	case "i32":
		x, err := strconv.ParseInt(v, 10, 32)
		return int32(x), err == nil && !strings.HasPrefix(v, "+")
	case "u32":
		x, err := strconv.ParseUint(v, 10, 32)
		return uint32(x), err == nil && !strings.HasPrefix(v, "+")
	case "i64":
		x, ok := parseI64(v)
		return x, ok
	case "u64":
		x, ok := parseU64(v)
		return x, ok
	case "int":
		x, ok := parseI64(v)
		return int(x), ok
	case "uint":
		x, ok := parseU64(v)
		return uint(x), ok
	case "time":
		x, ok := parseI64(v)
		return time.Unix(x, 0), ok
	case "other":
		return "a string", true
	}
	return nil, false
}

func scanInto(target string, val interface{}) string {
	return safely(func() (string, error) {
		switch target {
		case "nano":
			var s tex.UnixNano2Time
			err := s.Scan(val)
			return strconv.FormatInt(time.Time(s).UnixNano(), 10), err
		case "unix":
			var s tex.Unix2Time
			err := s.Scan(val)
			return strconv.FormatInt(time.Time(s).Unix(), 10), err
		case "stamp":
			s := tex.UnixStamp(7)
			err := s.Scan(val)
			return strconv.FormatInt(int64(s), 10), err
		default:
			s := tex.SQLTime2Unix(7)
			err := s.Scan(val)
			return strconv.FormatInt(int64(s), 10), err
		}
	})
}

func validTarget(t string) bool { return t == "nano" || t == "unix" || t == "stamp" || t == "t2u" }

func runSQLScan(target, ty, v string) (string, []corr.Hit) {
	if !validTarget(target) {
		return "bad-op", nil
	}
	val, ok := sqlValue(ty, v)
	if !ok {
		return "bad-op", nil
	}
	// the model keeps i32/u32 as unbounded numbers; out-of-width arguments are rejected above
	return scanInto(target, val), nil
}

func runSQLRt(target, v string) (string, []corr.Hit) {
	if !validTarget(target) {
		return "bad-op", nil
	}
	x, ok := parseI64(v)
	if !ok {
		return "bad-op", nil
	}
	var dv driver.Value
	var shown string
	switch target {
	case "nano":
		dv, _ = tex.UnixNano2Time(time.Unix(0, x)).Value()
	case "unix":
		dv, _ = tex.Unix2Time(time.Unix(x, 0)).Value()
	case "stamp":
		dv, _ = tex.UnixStamp(x).Value()
	default:
		dv, _ = tex.SQLTime2Unix(x).Value()
	}
	switch y := dv.(type) {
	case int64:
		shown = strconv.FormatInt(y, 10)
	case time.Time:
		shown = strconv.FormatInt(y.Unix(), 10)
	default:
		shown = fmt.Sprintf("?%T", dv)
	}
	res := scanInto(target, dv)
	var hits []corr.Hit
	if res != "ok "+v || shown != v {
		hits = append(hits, corr.Hit{Key: "C20:sql-" + target + ":roundtrip", What: fmt.Sprintf("value %s has driver value %s, which scans to `%s`", v, shown, res)})
	}
	return "val=" + shown + " scan=" + res, hits
}
