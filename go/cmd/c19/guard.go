package main

import (
	"bufio"
	"encoding/json"
	"fmt"
	"io"
	"os"
	"os/exec"
	"runtime"
	"strconv"
	"strings"
	"sync"
	"time"

	"github.com/pinealctx/neptune/idgen/random"

	"nvharness/lib/corr"
)

// Watchdog for the calls that run a loop of the implementation on harness-chosen sizes (genNonceStr through the hook, SecGenNonceStr):
// they are executed in a child process that is killed when a line takes longer than hangAfter or the heap explodes. A call that does
// not return is answered `hang` and reported by monitor C19:genNonceStr:does-not-terminate; the runner itself never hangs or dies.
const hangAfter = 2 * time.Second

var (
	hungMu   sync.Mutex
	hungKind = map[string]bool{} // op kinds (nonce / cover / sample / secgen) that already hung in this process: answered `hang` at once
	secgenOK = map[int]bool{}    // code lengths for which SecGenNonceStr("0123456789", n) was seen to return (child probe)
)

func isHung(kind string) bool {
	hungMu.Lock()
	defer hungMu.Unlock()
	return hungKind[kind]
}

func setHung(kind string) {
	hungMu.Lock()
	defer hungMu.Unlock()
	hungKind[kind] = true
}

type guardReply struct {
	Out  string     `json:"out"`
	Hits []corr.Hit `json:"hits"`
}

// memWatch ends the child when its heap explodes (an endless loop that appends).
func memWatch() {
	go func() {
		var m runtime.MemStats
		for {
			time.Sleep(20 * time.Millisecond)
			runtime.ReadMemStats(&m)
			if m.HeapAlloc > 1<<30 {
				os.Exit(3)
			}
		}
	}()
}

// guardChild: `c19 guard` reads nonce / cover / sample / secgen lines from stdin and answers one JSON line each.
func guardChild() {
	memWatch()
	in := bufio.NewReader(os.Stdin)
	w := bufio.NewWriter(os.Stdout)
	for {
		line, err := in.ReadString('\n')
		line = strings.TrimRight(line, "\n")
		if line != "" {
			s := &sess{}
			var o string
			func() {
				defer func() {
					if r := recover(); r != nil {
						o = "panic"
					}
				}()
				f := strings.Fields(line)
				if f[0] == "secgen" && len(f) == 2 {
					n, _ := strconv.Atoi(f[1])
					_ = random.SecGenNonceStr("0123456789", n)
					o = "returned"
				} else {
					o = s.nonceLine(f)
				}
			}()
			b, _ := json.Marshal(guardReply{Out: o, Hits: s.hits})
			w.Write(b)
			w.WriteByte('\n')
			w.Flush()
		}
		if err != nil {
			return
		}
	}
}

// runGuarded executes the given lines in one child; a line that does not answer in time is `hang` (and so are the following ones).
func runGuarded(lines []string) []guardReply {
	res := make([]guardReply, len(lines))
	cmd := exec.Command(os.Args[0], "guard")
	stdin, e1 := cmd.StdinPipe()
	stdout, e2 := cmd.StdoutPipe()
	if e1 != nil || e2 != nil || cmd.Start() != nil {
		for i := range res {
			res[i] = guardReply{Out: "no-child"}
		}
		return res
	}
	defer func() {
		stdin.Close()
		_ = cmd.Process.Kill()
		_ = cmd.Wait()
	}()
	answers := make(chan string, len(lines))
	go func() {
		r := bufio.NewReaderSize(stdout, 1<<20)
		for {
			l, err := r.ReadString('\n')
			if err != nil {
				close(answers)
				return
			}
			answers <- l
		}
	}()
	dead := false
	for i, l := range lines {
		kind := strings.Fields(l)[0]
		if dead || isHung(kind) {
			res[i] = hangReply(kind, l)
			continue
		}
		if _, err := io.WriteString(stdin, l+"\n"); err != nil {
			dead = true
			res[i] = hangReply(kind, l)
			continue
		}
		select {
		case a, ok := <-answers:
			var r guardReply
			if !ok || json.Unmarshal([]byte(a), &r) != nil {
				dead = true
				setHung(kind)
				res[i] = hangReply(kind, l)
				continue
			}
			res[i] = r
		case <-time.After(hangAfter):
			dead = true
			setHung(kind)
			res[i] = hangReply(kind, l)
		}
	}
	return res
}

func hangReply(kind, line string) guardReply {
	what := fmt.Sprintf("`%s` does not return within %v (or exhausts memory): the call was abandoned in a child process", line, hangAfter)
	if kind == "secgen" {
		what = fmt.Sprintf("random.SecGenNonceStr(\"0123456789\", %s) does not return within %v (or exhausts memory): every SendSMSCode with a real sender and this CodeLen would hang", strings.TrimPrefix(line, "secgen "), hangAfter)
	}
	return guardReply{Out: "hang", Hits: []corr.Hit{{Key: "C19:genNonceStr:does-not-terminate", What: what}}}
}

// secgenReturns: before the first real-sender send with a given CodeLen > 0, the generator call it makes is tried in a child.
func secgenReturns(n int) (bool, []corr.Hit) {
	hungMu.Lock()
	ok, seen := secgenOK[n]
	hungMu.Unlock()
	if seen && ok {
		return true, nil
	}
	line := "secgen " + strconv.Itoa(n)
	if isHung("secgen") {
		return false, hangReply("secgen", line).Hits
	}
	r := runGuarded([]string{line})[0]
	hungMu.Lock()
	secgenOK[n] = r.Out == "returned" || r.Out == "no-child"
	hungMu.Unlock()
	if r.Out == "hang" {
		return false, r.Hits
	}
	return true, nil
}
