//go:build verif && vcodenow

package main

import (
	"time"

	"github.com/pinealctx/neptune/vcode"
)

// Built only with `-tags verif,vcodenow`, i.e. once /repo has vcode.VerifSetNow (fixes/hooks-C19-vcode-now.diff.txt +
// fixes/hooks-C19-vcode-verif_hooks.go.txt): the implementation reads the harness's fake clock.
const clockAvailable = true

func installClock(now func() time.Time) (restore func()) { return vcode.VerifSetNow(now) }
