package main

import (
	"fmt"
	"go/ast"
	"go/token"
	"os"
	"path/filepath"
	"regexp"
	"sort"
	"strings"

	"nvharness/lib/gofacts"
)

// ---------------------------------------------------------------- extract
//
// All facts are read from canonical bodies: local variables (var / := / range declarations, not parameters) are renamed
// to _v0, _v1, … in order of declaration, `x := e` is written `var x = e`, and a local initialised with `time.Now()` is
// called _now and its declaration removed (so it may be hoisted). Anything not recognised is `unknown` / false.

var defineRe = regexp.MustCompile(`((?:_v\d+|_now|_)(?:, (?:_v\d+|_now|_))*) := `)

// clockVar is true when the package declares `var timeNow = time.Now` (the injectable clock): then `timeNow()` reads the clock.
var clockVar bool

func isTimeNow(e ast.Expr) bool {
	c, ok := e.(*ast.CallExpr)
	if !ok || len(c.Args) != 0 {
		return false
	}
	if id, ok := c.Fun.(*ast.Ident); ok && id.Name == "timeNow" && clockVar {
		return true
	}
	sel, ok := c.Fun.(*ast.SelectorExpr)
	if !ok || sel.Sel.Name != "Now" {
		return false
	}
	x, ok := sel.X.(*ast.Ident)
	return ok && x.Name == "time"
}

// canon rewrites the identifiers of the declaration in place: use only canon (not Body) on a function afterwards.
func canon(f *gofacts.File, fd *ast.FuncDecl) string {
	if fd == nil || fd.Body == nil {
		return ""
	}
	names := map[string]string{}
	n := 0
	add := func(e ast.Expr, now bool) {
		if id, ok := e.(*ast.Ident); ok && id.Name != "_" {
			if _, seen := names[id.Name]; !seen {
				if now {
					names[id.Name] = "_now"
				} else {
					names[id.Name] = fmt.Sprintf("_v%d", n)
					n++
				}
			}
		}
	}
	ast.Inspect(fd.Body, func(nd ast.Node) bool {
		switch x := nd.(type) {
		case *ast.ValueSpec:
			now := len(x.Names) == 1 && len(x.Values) == 1 && isTimeNow(x.Values[0])
			for _, id := range x.Names {
				add(id, now)
			}
		case *ast.AssignStmt:
			if x.Tok == token.DEFINE {
				now := len(x.Lhs) == 1 && len(x.Rhs) == 1 && isTimeNow(x.Rhs[0])
				for _, l := range x.Lhs {
					add(l, now)
				}
			}
		case *ast.RangeStmt:
			if x.Tok == token.DEFINE {
				if x.Key != nil {
					add(x.Key, false)
				}
				if x.Value != nil {
					add(x.Value, false)
				}
			}
		}
		return true
	})
	var ren func(nd ast.Node)
	ren = func(nd ast.Node) {
		ast.Inspect(nd, func(m ast.Node) bool {
			switch x := m.(type) {
			case *ast.SelectorExpr: // never a field / method name
				ren(x.X)
				return false
			case *ast.KeyValueExpr: // never a struct-literal field name
				ren(x.Value)
				return false
			case *ast.Ident:
				if nn, ok := names[x.Name]; ok {
					x.Name = nn
				}
			}
			return true
		})
	}
	ren(fd.Body)
	s := defineRe.ReplaceAllString(f.Src(fd.Body), "var $1 = ")
	if clockVar {
		s = strings.ReplaceAll(s, "var _now = timeNow() ", "var _now = time.Now() ")
	}
	// the clock is read exactly once, before it is used; its declaration is dropped from the canonical text
	const decl = "var _now = time.Now() "
	if i := strings.Index(s, decl); i >= 0 {
		rest := s[:i] + s[i+len(decl):]
		if strings.Contains(s[:i], "_now") || strings.Contains(rest, "_now =") || strings.Contains(rest, "time.Now()") {
			return "?clock " + s
		}
		return rest
	}
	return s
}

// stmts returns the normalised statements of a function body (top level only).
func stmts(f *gofacts.File, fd *ast.FuncDecl) []string {
	var out []string
	if fd == nil || fd.Body == nil {
		return out
	}
	for _, st := range fd.Body.List {
		out = append(out, f.Src(st))
	}
	return out
}

func sameSet(got []string, want ...string) bool {
	if len(got) != len(want) {
		return false
	}
	a := append([]string{}, got...)
	b := append([]string{}, want...)
	sort.Strings(a)
	sort.Strings(b)
	for i := range a {
		if a[i] != gofacts.Norm(b[i]) {
			return false
		}
	}
	return true
}

// keyExpr returns (classification, printed right-hand side) of the first statement `var key = E` / `key := E` of a method;
// E may be a call h(areaCode, phone) of a package-level function of the same file whose body is `return E'`: then E' is
// classified, with h's parameters renamed to areaCode, phone.
func keyExpr(f *gofacts.File, fd *ast.FuncDecl) (string, string) {
	if fd == nil || fd.Body == nil || len(fd.Body.List) == 0 {
		return "unknown", ""
	}
	var rhs ast.Expr
	switch st := fd.Body.List[0].(type) {
	case *ast.DeclStmt:
		if gd, ok := st.Decl.(*ast.GenDecl); ok && gd.Tok == token.VAR && len(gd.Specs) == 1 {
			if vs, ok := gd.Specs[0].(*ast.ValueSpec); ok && len(vs.Names) == 1 && len(vs.Values) == 1 {
				rhs = vs.Values[0]
			}
		}
	case *ast.AssignStmt:
		if st.Tok == token.DEFINE && len(st.Lhs) == 1 && len(st.Rhs) == 1 {
			rhs = st.Rhs[0]
		}
	}
	if rhs == nil {
		return "unknown", ""
	}
	printed := f.Src(rhs)
	expr := printed
	if call, ok := rhs.(*ast.CallExpr); ok {
		if id, ok := call.Fun.(*ast.Ident); ok { // one level of helper call
			h := f.Func("", id.Name)
			if h == nil || h.Body == nil || len(h.Body.List) != 1 || len(call.Args) != 2 ||
				f.Src(call.Args[0]) != "areaCode" || f.Src(call.Args[1]) != "phone" {
				return "unknown", printed
			}
			ret, ok := h.Body.List[0].(*ast.ReturnStmt)
			var ps []string
			for _, fl := range h.Type.Params.List {
				if f.Src(fl.Type) != "string" {
					return "unknown", printed
				}
				for _, nm := range fl.Names {
					ps = append(ps, nm.Name)
				}
			}
			if !ok || len(ret.Results) != 1 || len(ps) != 2 {
				return "unknown", printed
			}
			expr = f.Src(ret.Results[0])
			expr = regexp.MustCompile(`\b`+regexp.QuoteMeta(ps[0])+`\b`).ReplaceAllString(expr, "\x00A")
			expr = regexp.MustCompile(`\b`+regexp.QuoteMeta(ps[1])+`\b`).ReplaceAllString(expr, "\x00P")
			expr = strings.ReplaceAll(strings.ReplaceAll(expr, "\x00A", "areaCode"), "\x00P", "phone")
		}
	}
	switch expr {
	case `fmt.Sprintf("%s-%s", areaCode, phone)`, `areaCode + "-" + phone`:
		return "dashJoin", printed
	case `fmt.Sprintf("%s%s", areaCode, phone)`, `areaCode + phone`:
		return "plain", printed
	case `fmt.Sprintf("%d:%s%s", len(areaCode), areaCode, phone)`, `strconv.Itoa(len(areaCode)) + ":" + areaCode + phone`:
		return "lenPrefix", printed
	}
	return "unknown", printed
}

// gtKind classifies a condition meaning "elapsed time since t compares greater than d": `now.Sub(t) > d` (gt), `>=` (ge) and the
// equivalent After/Before spellings on `t.Add(d)`; anything else is unknown. (For t = a stored time stamp and |d| < 292 years
// `t.Add(d)` does not overflow, so the spellings agree; a zero t is never compared this way.)
func gtKind(cond, now, t, d string) string {
	switch cond {
	case now + ".Sub(" + t + ") > " + d, now + ".After(" + t + ".Add(" + d + "))", t + ".Add(" + d + ").Before(" + now + ")":
		return "gt"
	case now + ".Sub(" + t + ") >= " + d, "!" + now + ".Before(" + t + ".Add(" + d + "))", "!" + t + ".Add(" + d + ").After(" + now + ")":
		return "ge"
	}
	return "unknown"
}

// ltKind: "elapsed time since t compares less than d": `now.Sub(t) < d` (lt), `<=` (le), and Before/After on `t.Add(d)`.
// With a zero t (first send) `now.Sub(t)` saturates and `t.Add(d)` lies far in the past: both say "not less".
func ltKind(cond, now, t, d string) string {
	switch cond {
	case now + ".Sub(" + t + ") < " + d, now + ".Before(" + t + ".Add(" + d + "))", t + ".Add(" + d + ").After(" + now + ")":
		return "lt"
	case now + ".Sub(" + t + ") <= " + d, "!" + now + ".After(" + t + ".Add(" + d + "))", "!" + t + ".Add(" + d + ").Before(" + now + ")":
		return "le"
	}
	return "unknown"
}

func extract(repo, leanDir string) {
	vl := gofacts.MustLoad(repo, "vcode/vlogic.go")
	cd := gofacts.MustLoad(repo, "vcode/code.go")
	ut := gofacts.MustLoad(repo, "idgen/random/util.go")
	tx := gofacts.MustLoad(repo, "tex/duration.go")

	// the injectable clock, if any: `var timeNow = time.Now` at package level of code.go or vlogic.go, assigned nowhere else
	pkgSrc := cd.Src(cd.AST) + " " + vl.Src(vl.AST)
	clockVar = strings.Count(pkgSrc, "var timeNow = time.Now ") == 1 && strings.Count(pkgSrc, "timeNow =") == 1

	// the key expressions (read from the AST before the bodies are canonicalised)
	sendFmt, sendRHS := keyExpr(vl, vl.Func("sender", "SendSMSCode"))
	verFmt, verRHS := keyExpr(vl, vl.Func("sender", "VerifySMSCode"))
	sendBody := canon(vl, vl.Func("sender", "SendSMSCode"))
	verBody := canon(vl, vl.Func("sender", "VerifySMSCode"))

	// SendSMSCode / VerifySMSCode: `{ var _v0 = <key expression> <rest> }` (_v0 key, _v1 entry, _v2 err, _v3 code)
	const sendRest = " var _v1 = s.fetchCache(_v0, true) if _v1 == nil { _v1 = newSenderCache(_now) } " +
		"var _v2 = s.checkSend(_v1, _now) if _v2 != nil { return \"\", _v2 } var _v3 = s.genCode(phone) _v1.updateSend(_v3, _now) " +
		"s.cacheM.Set(_v0, _v1) if !s.Mock { _v2 = s.sms.SendCode(areaCode, phone, _v3) } return _v1.hash, _v2 }"
	const verRest = " var _v1 = s.fetchCache(_v0, false) if _v1 == nil { return ErrVerifyCodeNotExist } return s.checkVerify(_v1, code, hash) }"
	sendFlow := sendRHS != "" && sendBody == "{ var _v0 = "+sendRHS+sendRest
	verifyFlow := verRHS != "" && verBody == "{ var _v0 = "+verRHS+verRest
	if !sendFlow {
		sendFmt = "unknown" // the key variable must be the one used for fetch and Set
	}
	if !verifyFlow {
		verFmt = "unknown"
	}

	// genNonceStr: the argument of fn(…); _v0 = builder, _v1 = len(baseStr), _v2 = index, _v3 = loop counter
	nonce := canon(ut, ut.Func("", "genNonceStr"))
	bound := "unknown"
	const noncePre = "{ var _v0 strings.Builder var _v1 = len(baseStr) var _v2 int for var _v3 = 0; _v3 < length; _v3++ { _v2 = fn("
	const noncePost = ") _v0.WriteByte(baseStr[_v2]) } return _v0.String() }"
	const secBody = "{ var _v0 [8]byte var _, _v1 = io.ReadFull(cRand.Reader, _v0[:]) var _v2 int64 if _v1 != nil { _v2 = time.Now().UnixNano() } else { " +
		"_v2 = int64(binary.LittleEndian.Uint64(_v0[:])) if _v2 < 0 { _v2 = -_v2 } } var _v3 = rand.NewSource(_v2) var _v4 = rand.New(_v3) " +
		"return genNonceStr(baseStr, length, _v4.Intn) }"
	nonceLoop := strings.HasPrefix(nonce, noncePre) && strings.HasSuffix(nonce, noncePost) && len(nonce) >= len(noncePre)+len(noncePost) &&
		canon(ut, ut.Func("", "SecGenNonceStr")) == secBody
	if nonceLoop {
		switch nonce[len(noncePre) : len(nonce)-len(noncePost)] {
		case "_v1 - 1":
			bound = "lenMinus1"
		case "_v1":
			bound = "len"
		}
	}

	// checkVerify
	cv := canon(vl, vl.Func("sender", "checkVerify"))
	const retryIf = "if c.verifyCount > s.MaxVerifyCount { return ErrVerifyCodeRetryLimit }"
	const codeIf = "if c.code != code { return ErrVerifyCodeNotMatch }"
	const hashIf = "if c.hash != hash { return ErrVerifyCodeHashNotMatch }"
	const ttlPre, ttlPost = "if ", " { return ErrVerifyCodeTimeout } return nil }"
	ttlCmp, ttlIf := "unknown", "?"
	if i := strings.LastIndex(cv, ttlPre); i >= 0 && strings.HasSuffix(cv, ttlPost) && i+len(ttlPre) <= len(cv)-len(ttlPost) {
		cond := cv[i+len(ttlPre) : len(cv)-len(ttlPost)]
		ttlCmp = gtKind(cond, "_now", "c.setTime", "s.TTL.Duration()")
		ttlIf = ttlPre + cond + ttlPost
	}
	countsFirst := strings.HasPrefix(cv, "{ c.updateVerify() "+retryIf) &&
		cd.Body("vCache", "updateVerify") == "{ c.verifyCount++ }" && strings.Count(cv, "verifyCount") == 1 &&
		strings.Count(cv, "updateVerify") == 1
	verifyOrder := cv == "{ c.updateVerify() "+retryIf+" "+codeIf+" "+hashIf+" "+ttlIf

	// updateSend: the five assignments in any order
	updateSend := sameSet(stmts(cd, cd.Func("vCache", "updateSend")),
		"c.code = code", "c.hash = random.MD5UUID()", "c.setTime = now", "c.sendCount++", "c.verifyCount = 0") &&
		gofacts.Has(cd.Body("", "newSenderCache"), "return &vCache{counterTime: now}")

	// checkSend (no locals)
	minCmp, winCmp := "unknown", "unknown"
	checkSend := false
	if m := regexp.MustCompile(`^\{ if (.+?) \{ return ErrSendTooFreq \} if (.+?) \{ c\.refresh\(now\) return nil \} ` +
		`if c\.sendCount > s\.MaxCount \{ return ErrSendCountLimit \} return nil \}$`).FindStringSubmatch(vl.Body("sender", "checkSend")); m != nil {
		minCmp = ltKind(m[1], "now", "c.setTime", "s.MinInterval.Duration()")
		winCmp = gtKind(m[2], "now", "c.counterTime", "s.CounterDuration.Duration()")
		checkSend = sameSet(stmts(cd, cd.Func("vCache", "refresh")), "c.counterTime = now", "c.sendCount = 0")
	}

	// genCode (_v0 = len(phone), _v1 = padded code, _v2 = loop counter)
	genCode := canon(vl, vl.Func("sender", "genCode")) == "{ if !s.Mock { return random.SecGenNonceStr(numChars, s.CodeLen) } var _v0 = len(phone) "+
		"if _v0 >= s.CodeLen { return phone[_v0-s.CodeLen:] } var _v1 = phone for var _v2 = 0; _v2 < s.CodeLen-_v0; _v2++ { _v1 = fmt.Sprintf(\"0%s\", _v1) } return _v1 }" &&
		regexp.MustCompile(`numChars\s*=\s*"0123456789"`).MatchString(vl.Src(vl.AST))

	// the logic's own cache; fetchCache whole body (_v0 = fn, _v1 = item, _v2 = ok, _v3 = ret)
	ownCache := gofacts.Has(vl.Body("", "NewSimpleLogic"), "cacheM: NewSimpleCache(config.CacheSize)") &&
		canon(vl, vl.Func("sender", "fetchCache")) == "{ var _v0 = s.cacheM.Get if peek { _v0 = s.cacheM.Peek } var _v1, _v2 = _v0(key) if !_v2 { return nil } "+
			"var _v3 *vCache _v3, _v2 = _v1.(*vCache) if !_v2 { return nil } return _v3 }"

	sizeIsOne := cd.Body("vCache", "Size") == "{ return 1 }"
	simpleLRU := vl.Body("", "NewSimpleCache") == "{ return &simpleCache{lru: cache.NewLRUCache(c)} }" &&
		canon(vl, vl.Func("simpleCache", "Set")) == "{ var _v0, _v1 = value.(cache.Value) if _v1 { s.lru.Set(key, _v0) } }" &&
		vl.Body("simpleCache", "Get") == "{ return s.lru.Get(key) }" && vl.Body("simpleCache", "Peek") == "{ return s.lru.Peek(key) }"
	durationID := tx.Body("Duration", "Duration") == "{ return time.Duration(i) }" &&
		regexp.MustCompile(`type Duration time\.Duration\b`).MatchString(tx.Src(tx.AST))

	b := gofacts.LeanBool
	facts := []bool{countsFirst, verifyOrder, updateSend, checkSend, sendFlow, verifyFlow, genCode, ownCache, nonceLoop, sizeIsOne, simpleLRU, durationID}
	var fs, fv []string
	for _, x := range facts {
		fs = append(fs, b(x))
		fv = append(fv, fmt.Sprint(x))
	}
	out := fmt.Sprintf(`import Nv.Model.C19
set_option linter.unusedVariables false
/-! GENERATED by `+"`c19 extract`"+` from vcode/vlogic.go, vcode/code.go, idgen/random/util.go, tex/duration.go — do not edit. -/
namespace Nv.Gen.C19
def cfg : Nv.C19.Cfg := ⟨.%s, .%s, .%s, .%s, .%s, .%s⟩
def facts : Nv.C19.Facts := ⟨%s⟩
end Nv.Gen.C19
`, sendFmt, verFmt, bound, minCmp, winCmp, ttlCmp, strings.Join(fs, ", "))
	if err := gofacts.WriteIfChanged(filepath.Join(leanDir, "Nv/Gen/C19.lean"), out); err != nil {
		fmt.Fprintln(os.Stderr, err)
		os.Exit(2)
	}
	fmt.Printf("extract C19: sendKeyFmt=%s verifyKeyFmt=%s nonceBound=%s minIntervalCmp=%s windowCmp=%s ttlCmp=%s clockVar=%v facts(verifyCountsFirst,verifyOrder,updateSendShape,checkSendShape,sendFlow,verifyFlow,genCodeShape,ownCache,nonceLoop,sizeIsOne,simpleCacheIsLRU,durationIdentity)=%s\n",
		sendFmt, verFmt, bound, minCmp, winCmp, ttlCmp, clockVar, strings.Join(fv, ","))
}
