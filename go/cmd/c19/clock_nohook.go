//go:build !vcodenow

package main

import "time"

// Default build: vcode reads time.Now() directly and no hook can intercept it. The harness then runs on the real clock and
// restricts itself to durations of -1 ms and 9223372037 ms (see main.go); `tick` lines are answered `no-clock` and never generated.
const clockAvailable = false

func installClock(now func() time.Time) (restore func()) { return func() {} }
