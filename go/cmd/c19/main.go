// Command c19: extractor and correspondence runner for property C19 (vcode send/verify, genNonceStr).
package main

import (
	"bytes"
	"errors"
	"fmt"
	"os"
	"os/exec"
	"runtime"
	"sort"
	"strconv"
	"strings"
	"sync"
	"sync/atomic"
	"time"

	"github.com/pinealctx/neptune/idgen/random"
	"github.com/pinealctx/neptune/tex"
	"github.com/pinealctx/neptune/vcode"

	"nvharness/lib/corr"
	_ "nvharness/lib/quiet"
	"nvharness/lib/rng"
)

func main() {
	if len(os.Args) < 2 {
		fmt.Fprintln(os.Stderr, "usage: c19 extract|corr …")
		os.Exit(2)
	}
	switch os.Args[1] {
	case "extract":
		extract(os.Args[2], os.Args[3])
	case "corr":
		corr.Main(spec(), os.Args[2:])
	case "guard":
		guardChild()
	case "stress":
		stressChild(os.Args[2:])
	case "race":
		raceChild(os.Args[2:])
	default:
		os.Exit(2)
	}
}

// ---------------------------------------------------------------- runner

var errSMS = errors.New("fake-sms-failure")

type fakeSMS struct {
	fail  bool
	calls int
	area  string
	phone string
	code  string
}

func (f *fakeSMS) SendCode(areaCode, phone, code string) error {
	f.calls++
	f.area, f.phone, f.code = areaCode, phone, code
	if f.fail {
		return errSMS
	}
	return nil
}

type params struct {
	cap            int // CacheSize
	mock           bool
	codeLen        int // may be negative (out of the property's domain; both sides still agree)
	maxc, maxv     int
	ttl, mini, win int64 // TTL, MinInterval, CounterDuration in milliseconds (any sign)
	smsfail        bool
}

// The clock. With the hook vcode.VerifSetNow (build tag vcodenow, see clock_hook.go) the implementation reads a fake clock:
// clockBase + clockMs milliseconds, advanced by `tick` lines only. Without it (clock_nohook.go) the real clock runs; then the
// harness uses only durations for which an unknown elapsed time of a few microseconds and the model's elapsed time 0 compare
// alike: always = -1 ms and never = 9223372037 ms (106.75 days; chosen so that a unit slip by x1000 overflows int64 into a
// negative duration and flips the regime).
const (
	alwaysMs = int64(-1)
	neverMs  = int64(9223372037)
)

var clockBase = time.Date(2020, 1, 1, 0, 0, 0, 0, time.UTC)

func msDur(ms int64) tex.Duration { return tex.Duration(ms * int64(time.Millisecond)) }

type pairState struct {
	accepted int    // accepted sends to this pair
	code     string // code of the last accepted send (captured by the fake sender; mock mode: the documented mock code)
	hasCode  bool
	hash     string // hash returned by the last accepted send
	attempts int    // verify calls for this pair since its last accepted send
	// eviction bookkeeping, independent of the model: operations on other pairs since this pair's entry was last moved to
	// the front (accepted send, or verify that found it). While that number is below CacheSize the entry cannot have been evicted.
	othersSince  int
	maybeEvicted bool
	// time bookkeeping (fake-clock readings in ms; all 0 without the clock hook)
	sendTime   int64 // reading at the last accepted send
	winStart   int64 // start of the current counter window
	winCount   int   // accepted sends in that window
	winUnknown bool  // the entry may have been evicted and re-created: the window is not known any more
}

type sess struct {
	inited      bool
	p           params
	logic       vcode.VCLogic
	sms         *fakeSMS
	hashes      []string // hash of accepted send k (index k-1)
	codes       []string // code of accepted send k
	pairs       map[[2]string]*pairState
	hits        []corr.Hit
	guarded     []guardReply // answers of this case's nonce / cover / sample lines, computed in the watchdog child
	guardedNext int
	clockMs     int64  // the fake clock reading
	restore     func() // uninstalls the fake clock
}

func (s *sess) hit(site, what, msg string) {
	s.hits = append(s.hits, corr.Hit{Key: "C19:" + site + ":" + what, What: msg})
}

// Byte strings in the word protocol: printable ASCII 0x21–0x7E stands for itself except '%'; any byte may be written %XX (two
// upper-case hex digits); `_` alone is the empty string. Go strings are byte strings, so (area, phone, code) reach the implementation
// exactly as written.
func hexVal(c byte) (int, bool) {
	switch {
	case c >= '0' && c <= '9':
		return int(c - '0'), true
	case c >= 'A' && c <= 'F':
		return int(c-'A') + 10, true
	}
	return 0, false
}

func unescape(w string) (string, bool) {
	var b []byte
	for i := 0; i < len(w); i++ {
		if w[i] != '%' {
			b = append(b, w[i])
			continue
		}
		if i+2 >= len(w) {
			return "", false
		}
		x, ok1 := hexVal(w[i+1])
		y, ok2 := hexVal(w[i+2])
		if !ok1 || !ok2 {
			return "", false
		}
		b = append(b, byte(x*16+y))
		i += 2
	}
	return string(b), true
}

func tokB(w string) (string, bool) {
	if w == "_" {
		return "", true
	}
	return unescape(w)
}

// escLit writes a byte string as protocol text; esc also maps the empty string to `_` (and a lone underscore to %5F).
func escLit(s string) string {
	var b strings.Builder
	for i := 0; i < len(s); i++ {
		if c := s[i]; c < 0x21 || c > 0x7E || c == '%' {
			fmt.Fprintf(&b, "%%%02X", c)
		} else {
			b.WriteByte(c)
		}
	}
	return b.String()
}

func esc(s string) string {
	switch s {
	case "":
		return "_"
	case "_":
		return "%5F"
	}
	return escLit(s)
}

func tok(s string) string {
	if s == "_" {
		return ""
	}
	return s
}

func field(name, w string) (string, bool) {
	if strings.HasPrefix(w, name+"=") {
		return w[len(name)+1:], true
	}
	return "", false
}

func parseBool(s string, ok bool) (bool, bool) {
	if !ok || (s != "0" && s != "1") {
		return false, false
	}
	return s == "1", true
}

// parseNat accepts what Lean's String.toNat? accepts: non-empty, decimal digits only.
func parseNat(s string) (int, bool) {
	if s == "" || len(s) > 9 {
		return 0, false
	}
	for _, c := range s {
		if c < '0' || c > '9' {
			return 0, false
		}
	}
	n, _ := strconv.Atoi(s)
	return n, true
}

// parseInt: optional '-' then digits (Lean's String.toInt?).
func parseInt(s string) (int, bool) {
	if strings.HasPrefix(s, "-") {
		n, ok := parseNat(s[1:])
		return -n, ok
	}
	return parseNat(s)
}

// parseMs: 1…15 decimal digits; parseDur: the same with an optional '-'.
func parseMs(s string) (int64, bool) {
	if s == "" || len(s) > 15 {
		return 0, false
	}
	for _, c := range s {
		if c < '0' || c > '9' {
			return 0, false
		}
	}
	n, _ := strconv.ParseInt(s, 10, 64)
	return n, true
}

func parseDur(s string) (int64, bool) {
	if strings.HasPrefix(s, "-") {
		n, ok := parseMs(s[1:])
		return -n, ok
	}
	return parseMs(s)
}

func parseNew(f []string) (params, bool) {
	var p params
	if len(f) != 9 {
		return p, false
	}
	names := []string{"cap", "mock", "len", "maxc", "maxv", "ttl", "mini", "win", "smsfail"}
	vals := make([]string, 9)
	for i, n := range names {
		v, ok := field(n, f[i])
		if !ok {
			return p, false
		}
		vals[i] = v
	}
	var ok [9]bool
	p.cap, ok[0] = parseNat(vals[0])
	p.mock, ok[1] = parseBool(vals[1], true)
	p.codeLen, ok[2] = parseInt(vals[2])
	p.maxc, ok[3] = parseInt(vals[3])
	p.maxv, ok[4] = parseInt(vals[4])
	p.ttl, ok[5] = parseDur(vals[5])
	p.mini, ok[6] = parseDur(vals[6])
	p.win, ok[7] = parseDur(vals[7])
	p.smsfail, ok[8] = parseBool(vals[8], true)
	for _, o := range ok {
		if !o {
			return p, false
		}
	}
	return p, true
}

func (s *sess) fakeNow() time.Time { return clockBase.Add(time.Duration(s.clockMs) * time.Millisecond) }

func (s *sess) start(p params) {
	cfg := &vcode.Config{CacheSize: int64(p.cap), Mock: p.mock, CodeLen: p.codeLen, MaxCount: p.maxc, MaxVerifyCount: p.maxv,
		TTL: msDur(p.ttl), MinInterval: msDur(p.mini), CounterDuration: msDur(p.win)}
	s.sms = &fakeSMS{fail: p.smsfail}
	s.logic = vcode.NewSimpleLogic(cfg, s.sms, nil)
	s.p = p
	s.inited = true
	s.hashes, s.codes = nil, nil
	s.pairs = map[[2]string]*pairState{}
	s.clockMs = 0
	if s.restore != nil {
		s.restore()
	}
	s.restore = installClock(s.fakeNow)
}

func (s *sess) tick(w string) string {
	t, ok := parseMs(w)
	if !ok {
		return "bad-op"
	}
	if !clockAvailable {
		return "no-clock" // this build cannot set the implementation's clock (see clock_nohook.go); the generator emits no tick lines
	}
	if t > s.clockMs {
		s.clockMs = t // a reading below the current one is ignored
	}
	return "now=" + strconv.FormatInt(s.clockMs, 10)
}

func (s *sess) pair(a, p string) *pairState {
	k := [2]string{a, p}
	if s.pairs[k] == nil {
		s.pairs[k] = &pairState{}
	}
	return s.pairs[k]
}

// bump records an operation on pair (a, p): every other pair's entry may have moved one position towards the back.
func (s *sess) bump(a, p string) {
	for k, q := range s.pairs {
		if k != [2]string{a, p} {
			q.othersSince++
			if q.othersSince >= s.p.cap {
				q.maybeEvicted = true
			}
		}
	}
}

// evictable: the pair's entry may have been evicted since its last accepted send (then nothing can be said about it).
func (s *sess) evictable(ps *pairState) bool { return s.p.cap <= 0 || ps.maybeEvicted }

// sharesKey is a behavioural probe on a fresh instance of the implementation: a code is sent to (a2, p2) and then (a1, p1),
// to which nothing was sent, is verified. Any answer but "not exist" means the lookup of (a1, p1) found the entry of (a2, p2):
// the two pairs share a cache key.
func sharesKey(a1, p1, a2, p2 string) (shared bool) {
	defer func() {
		if r := recover(); r != nil {
			shared = false
		}
	}()
	cfg := &vcode.Config{CacheSize: 16, Mock: true, CodeLen: 0, MaxCount: 3, MaxVerifyCount: 3, TTL: msDur(neverMs), MinInterval: msDur(alwaysMs), CounterDuration: msDur(neverMs)}
	l := vcode.NewSimpleLogic(cfg, &fakeSMS{}, nil)
	h, err := l.SendSMSCode(a2, p2)
	if err != nil {
		return false
	}
	return !errors.Is(l.VerifySMSCode(a1, p1, "", h), vcode.ErrVerifyCodeNotExist)
}

// partner finds another pair of this script that the implementation stores under the same cache key as (a, p).
func (s *sess) partner(a, p string) (string, bool) {
	var keys [][2]string
	for k := range s.pairs {
		if k != [2]string{a, p} {
			keys = append(keys, k)
		}
	}
	sort.Slice(keys, func(i, j int) bool { return keys[i][0]+"\x00"+keys[i][1] < keys[j][0]+"\x00"+keys[j][1] })
	for _, k := range keys {
		if sharesKey(a, p, k[0], k[1]) {
			return fmt.Sprintf("(%q,%q)", k[0], k[1]), true
		}
	}
	return "", false
}

// hitPair reports a violation observed on pair (a, p). When the script also uses a pair that the implementation keeps
// under the same cache key (probe sharesKey), the root cause is the key: one finding key for all its symptoms.
func (s *sess) hitPair(a, p, site, what, msg string) {
	if q, ok := s.partner(a, p); ok {
		s.hit("cacheKey", "distinct-pairs-share-key", msg+fmt.Sprintf(" — probe: a code sent to pair %s of this script is found when (%q,%q) is verified, the two pairs share one cache key", q, a, p))
		return
	}
	s.hit(site, what, msg)
}

// mockSpec is the documented mock code: the last n characters of the phone, left-padded with '0'.
func mockSpec(phone string, n int) string {
	if n < 0 {
		return ""
	}
	if len(phone) >= n {
		return phone[len(phone)-n:]
	}
	return strings.Repeat("0", n-len(phone)) + phone
}

func (s *sess) lastSend(ps *pairState) string {
	if ps.accepted == 0 {
		return "nothing was sent to this pair before"
	}
	return fmt.Sprintf("the previous accepted send was at %d ms", ps.sendTime)
}

func (s *sess) send(a, p string) (out string) {
	if !s.p.mock && s.p.codeLen > 0 { // the real sender's code generator is tried in the watchdog child first
		if ok, hits := secgenReturns(s.p.codeLen); !ok {
			s.hits = append(s.hits, hits...)
			return "hang"
		}
	}
	ps := s.pair(a, p)
	calls := s.sms.calls
	var hash string
	var err error
	panicked := false
	func() {
		defer func() {
			if r := recover(); r != nil {
				panicked = true
			}
		}()
		hash, err = s.logic.SendSMSCode(a, p)
	}()
	now := s.clockMs
	defer s.bump(a, p)
	if panicked {
		return "panic"
	}
	switch {
	case err == nil:
		out = "ok"
	case errors.Is(err, errSMS):
		out = "smsfail"
	case errors.Is(err, vcode.ErrSendTooFreq):
		// refused as too frequent: only right when an earlier accepted send is closer than the minimum interval
		if ps.accepted == 0 || now-ps.sendTime >= s.p.mini {
			s.hitPair(a, p, "SendSMSCode", "send-refused-without-cause", fmt.Sprintf("send to (%q,%q) at %d ms refused as too frequent: %s, MinInterval=%d ms", a, p, now, s.lastSend(ps), s.p.mini))
		}
		return "err:tooFreq"
	case errors.Is(err, vcode.ErrSendCountLimit):
		// refused by the count limit: only right when the window is not over and already holds more than MaxCount sends
		// (an absent or evicted entry: window starting now, count 0)
		present := ps.accepted > 0 && !ps.winUnknown && !(now-ps.winStart > s.p.win) && ps.winCount > s.p.maxc
		fresh := !(0 > s.p.win) && 0 > s.p.maxc
		legit := present
		if ps.accepted == 0 {
			legit = fresh
		} else if s.evictable(ps) || ps.winUnknown {
			legit = present || fresh || ps.winUnknown
		}
		if !legit {
			s.hitPair(a, p, "SendSMSCode", "send-refused-without-cause", fmt.Sprintf("send to (%q,%q) at %d ms refused by the count limit: window started at %d ms with %d accepted sends, CounterDuration=%d ms, MaxCount=%d", a, p, now, ps.winStart, ps.winCount, s.p.win, s.p.maxc))
		}
		return "err:countLimit"
	default:
		return "err:other"
	}
	// monitors on an accepted send
	evictable := s.evictable(ps)
	if ps.accepted > 0 && !evictable && now-ps.sendTime < s.p.mini {
		s.hitPair(a, p, "SendSMSCode", "min-interval-not-enforced", fmt.Sprintf("send to (%q,%q) at %d ms accepted although the previous accepted send was at %d ms and MinInterval=%d ms", a, p, now, ps.sendTime, s.p.mini))
	}
	switch {
	case ps.accepted == 0:
		if !(0 > s.p.win) && 0 > s.p.maxc {
			s.hitPair(a, p, "SendSMSCode", "count-limit-not-enforced", fmt.Sprintf("first send to (%q,%q) accepted although MaxCount=%d < 0 and the window (CounterDuration=%d ms) has just started", a, p, s.p.maxc, s.p.win))
		}
		ps.winStart, ps.winCount = now, 1
	case ps.winUnknown:
	case now-ps.winStart > s.p.win && !evictable:
		ps.winStart, ps.winCount = now, 1 // the window is over: a new one starts with this send
	case evictable:
		ps.winUnknown = true // evicted ⇒ new window now; not evicted ⇒ old window continues: cannot be told apart
	default:
		if ps.winCount > s.p.maxc {
			s.hitPair(a, p, "SendSMSCode", "count-limit-not-enforced", fmt.Sprintf("send to (%q,%q) at %d ms accepted as number %d of the window started at %d ms (CounterDuration=%d ms), MaxCount=%d (the code admits MaxCount+1)", a, p, now, ps.winCount+1, ps.winStart, s.p.win, s.p.maxc))
		}
		ps.winCount++
	}
	ps.sendTime = now
	for _, h := range s.hashes {
		if h == hash {
			s.hit("MD5UUID", "hash-repeated", fmt.Sprintf("hash %q returned by two accepted sends", hash))
		}
	}
	code := ""
	if s.p.mock {
		code = mockSpec(p, s.p.codeLen)
		if s.sms.calls != calls {
			s.hit("SendSMSCode", "mock-mode-sent-sms", "mock mode, yet the SMS sender was called")
		}
	} else {
		if s.sms.calls != calls+1 || s.sms.area != a || s.sms.phone != p {
			s.hit("SendSMSCode", "code-not-sent", fmt.Sprintf("accepted send to (%q,%q): sender calls %d, last call (%q,%q)", a, p, s.sms.calls-calls, s.sms.area, s.sms.phone))
		} else {
			code = s.sms.code
			if s.p.codeLen >= 0 && len(code) != s.p.codeLen {
				s.hit("genCode", "code-length", fmt.Sprintf("CodeLen=%d, generated code %q", s.p.codeLen, code))
			}
			for _, c := range code {
				if c < '0' || c > '9' {
					s.hit("genCode", "code-not-digits", fmt.Sprintf("generated code %q", code))
					break
				}
			}
		}
	}
	s.hashes = append(s.hashes, hash)
	s.codes = append(s.codes, code)
	ps.accepted++
	ps.code, ps.hasCode, ps.hash, ps.attempts = code, true, hash, 0
	ps.othersSince, ps.maybeEvicted = 0, false
	if hash == "" {
		return out + " h-"
	}
	return out + " h" + strconv.Itoa(len(s.hashes))
}

const bogusHash = "bogus-hash-never-issued"

var nearMissMods = map[string]bool{"U": true, "sp": true, "ts": true, "tr": true, "ch": true, "z": true, "fw": true}

// nearMiss builds a string that is almost, but certainly not, v: case flipped, a blank added, one character dropped
// or changed, ASCII digits replaced by full-width ones. Whatever the modification, the result differs from v.
func nearMiss(v, mod string) string {
	out := v
	switch mod {
	case "U":
		out = strings.Map(func(r rune) rune {
			switch {
			case r >= 'a' && r <= 'z':
				return r - 32
			case r >= 'A' && r <= 'Z':
				return r + 32
			}
			return r
		}, v)
	case "sp":
		out = " " + v
	case "ts":
		out = v + " "
	case "tr":
		if len(v) > 0 {
			out = v[:len(v)-1]
		}
	case "ch":
		if len(v) > 0 {
			c := v[len(v)-1]
			n := byte('0')
			if c == '0' {
				n = '1'
			}
			out = v[:len(v)-1] + string(n)
		}
	case "z":
		if len(v) > 0 {
			out = v[1:] // the leading (zero) digit dropped
		}
	case "fw":
		out = strings.Map(func(r rune) rune {
			if r >= '0' && r <= '9' {
				return r - '0' + '０'
			}
			return r
		}, v)
	}
	if out == v {
		out = v + "X"
	}
	return out
}

// splitMod: `<ref>^<mod>`.
func splitMod(w string) (string, string, bool) {
	parts := strings.Split(w, "^")
	if len(parts) != 2 || !nearMissMods[parts[1]] {
		return "", "", false
	}
	return parts[0], parts[1], true
}

func (s *sess) codeArg(ps *pairState, w string) (string, bool) {
	if strings.Contains(w, "^") {
		base, mod, ok := splitMod(w)
		if !ok {
			return "", false
		}
		v, ok := s.codeArgBase(ps, base)
		return nearMiss(v, mod), ok
	}
	return s.codeArgBase(ps, w)
}

func (s *sess) hashArg(ps *pairState, w string) (string, bool) {
	if strings.Contains(w, "^") {
		base, mod, ok := splitMod(w)
		if !ok {
			return "", false
		}
		v, ok := s.hashArgBase(ps, base)
		return nearMiss(v, mod), ok
	}
	return s.hashArgBase(ps, w)
}

func (s *sess) codeArgBase(ps *pairState, w string) (string, bool) {
	cur := "x"
	if ps.hasCode {
		cur = ps.code
	}
	switch {
	case w == "cur":
		return cur, true
	case w == "wrong":
		if !ps.hasCode || ps.code == "" {
			return "x", true
		}
		return "x" + ps.code[1:], true
	case strings.HasPrefix(w, "lit:"):
		return unescape(w[4:])
	case strings.HasPrefix(w, "c"):
		k, ok := parseNat(w[1:])
		if !ok {
			return "", false
		}
		if k >= 1 && k <= len(s.codes) {
			return s.codes[k-1], true
		}
		return "x", true
	}
	return "", false
}

func (s *sess) hashArgBase(ps *pairState, w string) (string, bool) {
	switch {
	case w == "hx":
		return bogusHash, true
	case w == "h-":
		return "", true
	case w == "hcur":
		if ps.accepted > 0 {
			return ps.hash, true
		}
		return bogusHash, true
	case strings.HasPrefix(w, "h"):
		k, ok := parseNat(w[1:])
		if !ok {
			return "", false
		}
		if k >= 1 && k <= len(s.hashes) {
			return s.hashes[k-1], true
		}
		return bogusHash, true
	}
	return "", false
}

func (s *sess) verify(a, p, cw, hw string) string {
	ps := s.pair(a, p)
	code, ok1 := s.codeArg(ps, cw)
	hash, ok2 := s.hashArg(ps, hw)
	if !ok1 || !ok2 {
		return "bad-op"
	}
	var err error
	panicked := false
	func() {
		defer func() {
			if r := recover(); r != nil {
				panicked = true
			}
		}()
		err = s.logic.VerifySMSCode(a, p, code, hash)
	}()
	defer s.bump(a, p)
	if panicked {
		return "panic"
	}
	out := "err:other"
	switch {
	case err == nil:
		out = "ok"
	case errors.Is(err, vcode.ErrVerifyCodeNotExist):
		out = "err:notExist"
	case errors.Is(err, vcode.ErrVerifyCodeRetryLimit):
		out = "err:retryLimit"
	case errors.Is(err, vcode.ErrVerifyCodeNotMatch):
		out = "err:notMatch"
	case errors.Is(err, vcode.ErrVerifyCodeHashNotMatch):
		out = "err:hashNotMatch"
	case errors.Is(err, vcode.ErrVerifyCodeTimeout):
		out = "err:timeout"
	}
	// monitors (bookkeeping per (area, phone) pair, independent of how the implementation keys its cache)
	right := ps.accepted > 0 && ps.hasCode && code == ps.code && hash == ps.hash && hash != ""
	attempt := ps.attempts + 1
	now := s.clockMs
	expired := ps.accepted > 0 && now-ps.sendTime > s.p.ttl
	desc := fmt.Sprintf("verify (%q,%q) at %d ms code=%q attempt %d since the last accepted send (at %d ms), MaxVerifyCount=%d, TTL=%d ms → %s", a, p, now, code, attempt, ps.sendTime, s.p.maxv, s.p.ttl, out)
	if out == "ok" {
		switch {
		case ps.accepted == 0:
			s.hitPair(a, p, "VerifySMSCode", "wrong-input-accepted", desc+": nothing was sent to this pair")
		case !right:
			s.hitPair(a, p, "VerifySMSCode", "wrong-input-accepted", desc+fmt.Sprintf(": current code of the pair is %q, code or hash differ", ps.code))
		case expired:
			s.hitPair(a, p, "VerifySMSCode", "verified-after-lifetime", desc+": the lifetime of the code is over")
		}
		if ps.accepted > 0 && attempt > s.p.maxv {
			s.hitPair(a, p, "VerifySMSCode", "attempts-not-bounded", desc+": accepted beyond the attempt limit")
		}
	} else if right && !expired && attempt <= s.p.maxv && !s.evictable(ps) {
		if out == "err:retryLimit" && ps.accepted >= 2 {
			s.hitPair(a, p, "SendSMSCode", "attempts-not-reset", desc+": right code and hash refused although a new code was sent")
		} else {
			s.hitPair(a, p, "VerifySMSCode", "sent-code-never-verifies", desc+": right code and returned hash, within lifetime and attempt limit, entry not evictable")
		}
	}
	if ps.accepted > 0 {
		ps.attempts++
	}
	if out != "err:notExist" {
		ps.othersSince = 0 // the entry was found: Get moved it to the front
	}
	return out
}

// stressChild (separate process: a crash must not take the runner down): g goroutines call SendSMSCode / VerifySMSCode on one
// instance, each on its own phone numbers. The property speaks of sequences of calls; this only checks that concurrent callers
// on distinct pairs do not crash the process (e.g. `concurrent map read and map write` in an unlocked cache method).
func stressChild(args []string) {
	if len(args) != 2 {
		os.Exit(2)
	}
	g, _ := strconv.Atoi(args[0])
	n, _ := strconv.Atoi(args[1])
	cfg := &vcode.Config{CacheSize: 1000, Mock: true, CodeLen: 4, MaxCount: 3, MaxVerifyCount: 3,
		TTL: msDur(neverMs), MinInterval: msDur(alwaysMs), CounterDuration: msDur(neverMs)}
	l := vcode.NewSimpleLogic(cfg, &fakeSMS{}, nil)
	done := make(chan bool, g)
	for w := 0; w < g; w++ {
		go func(w int) {
			for i := 0; i < n; i++ {
				ph := strconv.Itoa(w) + "-" + strconv.Itoa(i)
				h, _ := l.SendSMSCode("86", ph)
				_ = l.VerifySMSCode("86", ph, mockSpec(ph, 4), h)
			}
			done <- true
		}(w)
	}
	for w := 0; w < g; w++ {
		<-done
	}
	fmt.Println("stress-done")
}

// raceChild (separate process, GOMAXPROCS >= 4): ONE instance with MinInterval = "never". A code is sent to one pair X; then g
// goroutines hammer sends and verifies on their own small sets of other phones while the main goroutine re-sends to X n times.
// Every linearisation of these calls is a sequence in which each re-send to X comes after an accepted send to X inside the
// minimum interval and with fewer than CacheSize other pairs in between (g*40+1 pairs, CacheSize 100000) — so every re-send must
// be refused as too frequent, and the code sent first must still verify with its hash afterwards.
func raceChild(args []string) {
	if len(args) != 3 {
		os.Exit(2)
	}
	g, _ := strconv.Atoi(args[0])
	n, _ := strconv.Atoi(args[1])
	mock := args[2] == "1"
	if runtime.GOMAXPROCS(0) < 4 {
		runtime.GOMAXPROCS(4)
	}
	sms := &lockedSMS{}
	cfg := &vcode.Config{CacheSize: 100000, Mock: mock, CodeLen: 6, MaxCount: 1000000, MaxVerifyCount: 3,
		TTL: msDur(neverMs), MinInterval: msDur(neverMs), CounterDuration: msDur(neverMs)}
	l := vcode.NewSimpleLogic(cfg, sms, nil)
	const xa, xp = "86", "13800138000"
	h0, err := l.SendSMSCode(xa, xp)
	if err != nil {
		fmt.Println("race first-send-failed")
		return
	}
	code0 := mockSpec(xp, 6)
	if !mock {
		code0 = sms.codeFor(xp)
	}
	var stop int32
	done := make(chan bool, g)
	for w := 0; w < g; w++ {
		go func(w int) {
			for i := 0; atomic.LoadInt32(&stop) == 0; i++ {
				ph := "139" + strconv.Itoa(w) + "-" + strconv.Itoa(i%40)
				h, _ := l.SendSMSCode("86", ph)
				_ = l.VerifySMSCode("86", ph, "x", h)
			}
			done <- true
		}(w)
	}
	accepted, other := 0, 0
	for i := 0; i < n; i++ {
		_, err := l.SendSMSCode(xa, xp)
		switch {
		case errors.Is(err, vcode.ErrSendTooFreq):
		case err == nil:
			accepted++
		default:
			other++
		}
	}
	atomic.StoreInt32(&stop, 1)
	for w := 0; w < g; w++ {
		<-done
	}
	v := verifyOut(l.VerifySMSCode(xa, xp, code0, h0))
	fmt.Printf("race accepted=%d other=%d verify=%s\n", accepted, other, v)
}

// lockedSMS is a sender usable from several goroutines; it remembers the last code per phone.
type lockedSMS struct {
	mu    sync.Mutex
	codes map[string]string
}

func (f *lockedSMS) SendCode(areaCode, phone, code string) error {
	f.mu.Lock()
	defer f.mu.Unlock()
	if f.codes == nil {
		f.codes = map[string]string{}
	}
	f.codes[phone] = code
	return nil
}

func (f *lockedSMS) codeFor(phone string) string {
	f.mu.Lock()
	defer f.mu.Unlock()
	return f.codes[phone]
}

// race line: runs raceChild in a child process and prints what it observed; the oracle's answer is what every sequential
// interleaving gives (theorem vc_resend_refused_any_interleaving): no re-send accepted, the first code still verifies.
func (s *sess) race(gw, nw, mw string) string {
	g, ok1 := parseNat(gw)
	n, ok2 := parseNat(nw)
	if !ok1 || !ok2 || g < 1 || g > 64 || n < 1 || n > 1000000 || (mw != "0" && mw != "1") {
		return "bad-op"
	}
	if mw == "0" { // the real sender's code generator (CodeLen 6) is tried in the watchdog child first
		if ok, hits := secgenReturns(6); !ok {
			s.hits = append(s.hits, hits...)
			return "hang"
		}
	}
	cmd := exec.Command(os.Args[0], "race", strconv.Itoa(g), strconv.Itoa(n), mw)
	var out bytes.Buffer
	cmd.Stdout, cmd.Stderr = &out, &out
	if err := cmd.Start(); err != nil {
		return "resend-accepted=0 first-code-verifies=1" // cannot start a child here: nothing observed
	}
	done := make(chan error, 1)
	go func() { done <- cmd.Wait() }()
	select {
	case err := <-done:
		var acc, oth int
		var v string
		if _, e := fmt.Sscanf(strings.TrimSpace(out.String()), "race accepted=%d other=%d verify=%s", &acc, &oth, &v); err != nil || e != nil {
			first := strings.SplitN(strings.TrimSpace(out.String()), "\n", 2)[0]
			s.hit("concurrent-callers", "crash", fmt.Sprintf("race %d %d: the child process died or printed no result: %s", g, n, first))
			return "race=crash"
		}
		a, f := 0, 1
		if acc > 0 || oth > 0 {
			a = 1
			s.hit("SendSMSCode", "resend-inside-interval-accepted-under-contention", fmt.Sprintf("one instance, MinInterval 106 days, a code sent to (86,13800138000); while %d goroutines send and verify on other phones, %d of %d re-sends to that pair were accepted (%d answered otherwise than too-frequent); afterwards the first code with its hash → %s", g, acc, n, oth, v))
		}
		if v != "ok" {
			f = 0
			if a == 0 {
				s.hit("VerifySMSCode", "sent-code-never-verifies", fmt.Sprintf("race %d %d: no re-send was accepted, yet the code sent first with its hash → %s", g, n, v))
			}
		}
		return fmt.Sprintf("resend-accepted=%d first-code-verifies=%d", a, f)
	case <-time.After(60 * time.Second):
		_ = cmd.Process.Kill()
		s.hit("concurrent-callers", "crash", fmt.Sprintf("race %d %d: no end after 60 s (deadlock?)", g, n))
		return "race=crash"
	}
}

// stress line: runs stressChild in a child process; a crash is a monitor hit.
func (s *sess) stress(gw, nw string) string {
	g, ok1 := parseNat(gw)
	n, ok2 := parseNat(nw)
	if !ok1 || !ok2 || g < 1 || g > 64 || n > 100000 {
		return "bad-op"
	}
	cmd := exec.Command(os.Args[0], "stress", strconv.Itoa(g), strconv.Itoa(n))
	var out bytes.Buffer
	cmd.Stdout, cmd.Stderr = &out, &out
	if err := cmd.Start(); err != nil {
		return "stress=ok" // cannot start a child here: nothing observed
	}
	done := make(chan error, 1)
	go func() { done <- cmd.Wait() }()
	select {
	case err := <-done:
		if err != nil || !strings.Contains(out.String(), "stress-done") {
			first := strings.SplitN(strings.TrimSpace(out.String()), "\n", 2)[0]
			s.hit("concurrent-callers", "crash", fmt.Sprintf("%d goroutines x %d send+verify on distinct phones of one instance: the process died: %s", g, n, first))
			return "stress=crash"
		}
	case <-time.After(60 * time.Second):
		_ = cmd.Process.Kill()
		s.hit("concurrent-callers", "crash", fmt.Sprintf("%d goroutines x %d send+verify on distinct phones: no end after 60 s (deadlock?)", g, n))
		return "stress=crash"
	}
	return "stress=ok"
}

func bulkPhone(i int) string { return strconv.FormatInt(13900000000+int64(i), 10) }

// bulk: a fresh instance (mock mode, all durations "never"), n sends to distinct generated pairs, then pair k is verified with the
// code and hash of its send and re-sent. The cache really holds min(n, CacheSize) entries afterwards.
func (s *sess) bulk(cw, nw, kw string) (out string) {
	capN, ok1 := parseNat(cw)
	n, ok2 := parseNat(nw)
	k, ok3 := parseNat(kw)
	if !ok1 || !ok2 || !ok3 || n > 200000 {
		return "bad-op"
	}
	defer func() {
		if r := recover(); r != nil {
			out = "panic"
		}
	}()
	cfg := &vcode.Config{CacheSize: int64(capN), Mock: true, CodeLen: 4, MaxCount: 3, MaxVerifyCount: 3,
		TTL: msDur(neverMs), MinInterval: msDur(neverMs), CounterDuration: msDur(neverMs)}
	l := vcode.NewSimpleLogic(cfg, &fakeSMS{}, nil)
	hashK := bogusHash
	for i := 0; i < n; i++ {
		h, err := l.SendSMSCode("86", bulkPhone(i))
		if err != nil {
			s.hit("SendSMSCode", "send-refused-without-cause", fmt.Sprintf("bulk: first send to generated pair %d of %d refused: %v", i, n, err))
			return "send-failed"
		}
		if i == k {
			hashK = h
		}
	}
	vo := verifyOut(l.VerifySMSCode("86", bulkPhone(k), mockSpec(bulkPhone(k), 4), hashK))
	_, serr := l.SendSMSCode("86", bulkPhone(k))
	so := "err:other"
	switch {
	case serr == nil:
		so = "ok h" + strconv.Itoa(n+1)
	case errors.Is(serr, vcode.ErrSendTooFreq):
		so = "err:tooFreq"
	case errors.Is(serr, vcode.ErrSendCountLimit):
		so = "err:countLimit"
	}
	// monitors: pair k was sent and fewer than CacheSize pairs were touched since ⇒ its entry cannot have been evicted
	desc := fmt.Sprintf("bulk: CacheSize %d, %d sends to distinct pairs, pair %d (followed by %d others): verify with its code and hash → %s, re-send inside MinInterval → %s", capN, n, k, n-1-k, vo, so)
	switch {
	case k < n && n-1-k < capN:
		if vo != "ok" {
			s.hit("VerifySMSCode", "sent-code-never-verifies", desc)
		}
		if so != "err:tooFreq" {
			s.hit("SendSMSCode", "min-interval-not-enforced", desc)
		}
	case k >= n && vo == "ok":
		s.hit("VerifySMSCode", "wrong-input-accepted", desc+": nothing was sent to this pair")
	}
	return "verify=" + vo + " resend=" + so
}

func verifyOut(err error) string {
	switch {
	case err == nil:
		return "ok"
	case errors.Is(err, vcode.ErrVerifyCodeNotExist):
		return "err:notExist"
	case errors.Is(err, vcode.ErrVerifyCodeRetryLimit):
		return "err:retryLimit"
	case errors.Is(err, vcode.ErrVerifyCodeNotMatch):
		return "err:notMatch"
	case errors.Is(err, vcode.ErrVerifyCodeHashNotMatch):
		return "err:hashNotMatch"
	case errors.Is(err, vcode.ErrVerifyCodeTimeout):
		return "err:timeout"
	}
	return "err:other"
}

// scripted random source: fn(n) = v_i mod n (0 once the script ran out); n <= 0 panics like rand.Intn.
func scripted(vals []int) func(int) int {
	i := 0
	return func(n int) int {
		if n <= 0 {
			panic("invalid argument to Intn")
		}
		v := 0
		if i < len(vals) {
			v = vals[i]
		}
		i++
		return v % n
	}
}

func callNonce(base string, length int, vals []int) (out string, panicked bool) {
	defer func() {
		if r := recover(); r != nil {
			panicked = true
		}
	}()
	return random.VerifGenNonceStr(base, length, scripted(vals)), false
}

func distinctSorted(s string) string {
	seen := map[byte]bool{}
	var bs []byte
	for i := 0; i < len(s); i++ {
		if !seen[s[i]] {
			seen[s[i]] = true
			bs = append(bs, s[i])
		}
	}
	sort.Slice(bs, func(i, j int) bool { return bs[i] < bs[j] })
	return string(bs)
}

func (s *sess) nonce(bw, nw, vw string) string {
	base := tok(bw)
	n, ok := parseInt(nw)
	if !ok {
		return "bad-op"
	}
	var vals []int
	if vw != "-" {
		for _, t := range strings.Split(vw, ",") {
			v, ok := parseNat(t)
			if !ok {
				return "bad-op"
			}
			vals = append(vals, v)
		}
	}
	out, p := callNonce(base, n, vals)
	if p {
		return "panic"
	}
	want := n
	if want < 0 {
		want = 0
	}
	if len(out) != want {
		s.hit("genNonceStr", "length", fmt.Sprintf("genNonceStr(%q, %d) = %q", base, n, out))
	}
	for i := 0; i < len(out); i++ {
		if !strings.Contains(base, out[i:i+1]) {
			s.hit("genNonceStr", "char-outside-alphabet", fmt.Sprintf("genNonceStr(%q, %d) = %q", base, n, out))
			break
		}
	}
	return "out=" + out
}

func (s *sess) cover(bw string) string {
	base := tok(bw)
	var all string
	for v := 0; v < 2*len(base)+2; v++ {
		out, p := callNonce(base, 1, []int{v})
		if p {
			if len(base) >= 1 {
				s.hit("genNonceStr", "alphabet-char-unreachable", fmt.Sprintf("genNonceStr(%q, 1, fn) panics for fn(n) = %d mod n: no character of the alphabet can be produced", base, v))
			}
			return "panic"
		}
		all += out
	}
	got := distinctSorted(all)
	if got != distinctSorted(base) {
		s.hit("genNonceStr", "alphabet-char-unreachable", fmt.Sprintf("genNonceStr(%q, 1, fn) over fn(n) = v mod n, v = 0..%d produces only %q", base, 2*len(base)+1, got))
	}
	return "covered=" + got
}

func (s *sess) sample(bw, nw, cw string) string {
	base := tok(bw)
	n, ok1 := parseNat(nw)
	cnt, ok2 := parseNat(cw)
	if !ok1 || !ok2 || len(base) == 0 || n == 0 || cnt == 0 || n*cnt < 400*len(base) {
		return "bad-op"
	}
	var all strings.Builder
	lenOK, alphaOK, panicked := 1, 1, false
	func() {
		defer func() {
			if r := recover(); r != nil {
				panicked = true
			}
		}()
		for i := 0; i < cnt; i++ {
			o := random.SecGenNonceStr(base, n)
			if len(o) != n {
				lenOK = 0
			}
			all.WriteString(o)
		}
	}()
	if panicked {
		s.hit("genNonceStr", "alphabet-char-unreachable", fmt.Sprintf("SecGenNonceStr(%q, %d) panics", base, n))
		return "panic"
	}
	got := distinctSorted(all.String())
	for i := 0; i < len(got); i++ {
		if !strings.Contains(base, got[i:i+1]) {
			alphaOK = 0
		}
	}
	if lenOK == 0 {
		s.hit("genNonceStr", "length", fmt.Sprintf("SecGenNonceStr(%q, %d) returned a string of another length", base, n))
	}
	if alphaOK == 0 {
		s.hit("genNonceStr", "char-outside-alphabet", fmt.Sprintf("SecGenNonceStr(%q, %d) produced %q", base, n, got))
	}
	if got != distinctSorted(base) {
		s.hit("genNonceStr", "alphabet-char-unreachable", fmt.Sprintf("%d samples of SecGenNonceStr(%q, %d) (%d characters) contain only %q", cnt, base, n, cnt*n, got))
	}
	return fmt.Sprintf("len-ok=%d alphabet-ok=%d covered=%s", lenOK, alphaOK, got)
}

func (s *sess) line(l string) string {
	f := strings.Fields(l)
	if len(f) == 0 {
		return "bad-op"
	}
	switch {
	case f[0] == "new":
		p, ok := parseNew(f[1:])
		if !ok {
			s.inited = false
			return "bad-op"
		}
		s.start(p)
		return "new"
	case f[0] == "tick" && len(f) == 2:
		if !s.inited {
			return "bad-op"
		}
		return s.tick(f[1])
	case f[0] == "send" && len(f) == 3:
		if !s.inited {
			return "bad-op"
		}
		a, ok1 := tokB(f[1])
		p, ok2 := tokB(f[2])
		if !ok1 || !ok2 {
			return "bad-op"
		}
		return s.send(a, p)
	case f[0] == "verify" && len(f) == 5:
		if !s.inited {
			return "bad-op"
		}
		a, ok1 := tokB(f[1])
		p, ok2 := tokB(f[2])
		if !ok1 || !ok2 {
			return "bad-op"
		}
		return s.verify(a, p, f[3], f[4])
	case f[0] == "bulk" && len(f) == 4:
		return s.bulk(f[1], f[2], f[3])
	case f[0] == "stress" && len(f) == 3:
		return s.stress(f[1], f[2])
	case f[0] == "race" && len(f) == 4:
		return s.race(f[1], f[2], f[3])
	case f[0] == "nonce" || f[0] == "cover" || f[0] == "sample":
		// executed in the watchdog child (guard.go); the answers were computed when the case started
		if s.guardedNext < len(s.guarded) {
			r := s.guarded[s.guardedNext]
			s.guardedNext++
			s.hits = append(s.hits, r.Hits...)
			return r.Out
		}
		return s.nonceLine(f)
	}
	return "bad-op"
}

const guardedCases = 3000

var guardSpawns int

// nonceLine runs a nonce / cover / sample line in this process (used by the watchdog child).
func (s *sess) nonceLine(f []string) string {
	switch {
	case f[0] == "nonce" && len(f) == 4:
		return s.nonce(f[1], f[2], f[3])
	case f[0] == "cover" && len(f) == 2:
		return s.cover(f[1])
	case f[0] == "sample" && len(f) == 4:
		return s.sample(f[1], f[2], f[3])
	}
	return "bad-op"
}

func run(c corr.Case) corr.Result {
	s := &sess{}
	var gl []string
	for _, l := range c.Lines {
		if f := strings.Fields(l); len(f) > 0 && (f[0] == "nonce" || f[0] == "cover" || f[0] == "sample") {
			gl = append(gl, l)
		}
	}
	// The first guardedCases cases with such lines of a process run them in the watchdog child (a hang shows at once, on the fixed
	// cases); later ones run in-process to keep the wide tiers fast — unless a hang was seen, then they are answered `hang` by the child path.
	if len(gl) > 0 && (guardSpawns < guardedCases || isHung("nonce") || isHung("cover") || isHung("sample")) {
		guardSpawns++
		s.guarded = runGuarded(gl)
	}
	defer func() {
		if s.restore != nil {
			s.restore()
		}
	}()
	var res corr.Result
	for _, l := range c.Lines {
		var o string
		func() {
			defer func() {
				if r := recover(); r != nil {
					o = "panic"
				}
			}()
			o = s.line(l)
		}()
		res.Outs = append(res.Outs, o)
	}
	res.Hits = s.hits
	return res
}

// ---------------------------------------------------------------- generators

func b01(b bool) string {
	if b {
		return "1"
	}
	return "0"
}

func newLine(p params) string {
	return fmt.Sprintf("new cap=%d mock=%s len=%d maxc=%d maxv=%d ttl=%d mini=%d win=%d smsfail=%s", p.cap, b01(p.mock), p.codeLen, p.maxc, p.maxv,
		p.ttl, p.mini, p.win, b01(p.smsfail))
}

func genParams(r *rng.R) params {
	cap := 100000
	if r.Chance(1, 6) {
		cap = r.PickInt(0, 1, 2, 2, 3, 3, 4, 8, 16, 17)
	}
	return params{cap: cap, mock: r.Bool(), codeLen: r.PickInt(0, 1, 4, 6, 25, 4, 6, 1, 25, 0, -1), maxc: r.PickInt(-1, 0, 1, 2, 3, 3), maxv: r.PickInt(-1, 0, 1, 2, 3, 3, 5),
		ttl: pickDur(r, r.Chance(1, 6), neverMs, 0, 1, 5, 1000), mini: pickDur(r, r.Chance(4, 5), neverMs, 0, 1, 3, 1000),
		win: pickDur(r, r.Chance(1, 3), neverMs, 0, 1, 10, 1000), smsfail: r.Chance(1, 6)}
}

func pickI64(r *rng.R, xs ...int64) int64 { return xs[r.Intn(len(xs))] }

// pickDur: -1 ms ("always elapsed") when `always`, else the `never` value; with the clock hook also, half of the time, one of
// the finite durations, whose boundaries the tick lines then probe.
func pickDur(r *rng.R, always bool, never int64, finite ...int64) int64 {
	d := never
	if always {
		d = alwaysMs
	}
	if clockAvailable && r.Chance(1, 2) {
		d = pickI64(r, finite...)
	}
	return d
}

// regime: the always/never value for a generator class that wants a definite regime.
func regime(always bool) int64 {
	if always {
		return alwaysMs
	}
	return neverMs
}

type gen struct {
	clock  int64 // the generator's own idea of the fake clock (only used with the clock hook)
	r      *rng.R
	p      params
	pairs  [][2]string
	nsend  int // send lines so far (upper bound of accepted sends)
	search bool
}

// pair universe: area codes and phones with and without dashes, and empty strings (`_`), in every tier.
// `confusable` lists groups of distinct pairs that a joined key cannot tell apart: with a dash (first three) or
// without any separator (last).
var areas = []string{"1", "12", "86", "1-2", "1-", "-", "_", "1-809", "%C3%A9", "%C3"}
var phones = []string{"23", "3", "5551234", "7-7", "13800138000", "2-3", "-3", "-23", "_", "%A95", "5", "%C3%A9%C3%A9", "7%E4%B8%AD", "%5F"}
var confusable = [][][2]string{
	{{"1-2", "3"}, {"1", "2-3"}},
	{{"1-", "3"}, {"1", "-3"}},
	{{"_", "-3"}, {"-", "3"}},
	{{"1-2", "-3"}, {"1", "2--3"}, {"1-2-", "3"}},
	{{"1", "23"}, {"12", "3"}, {"_", "123"}},
	// "é" = C3 A9: a key that counts characters instead of bytes, or joins without separator, confuses these
	{{"%C3%A9", "5"}, {"%C3", "%A95"}},
	{{"%C3%A9", "%C3%A9"}, {"%C3", "%A9%C3%A9"}, {"%C3%A9%C3", "%A9"}},
}

func (g *gen) pickPairs() {
	r := g.r
	g.pairs = nil
	if r.Chance(1, 2) {
		grp := confusable[r.Intn(len(confusable))]
		g.pairs = append(g.pairs, grp...)
		// two independent random codes of a pair-confusing implementation must not be equal by accident
		if !g.p.mock && g.p.codeLen > 0 && g.p.codeLen < 20 {
			g.p.codeLen = 25
		}
	}
	n := r.Range(1, 4)
	for i := 0; i < n; i++ {
		g.pairs = append(g.pairs, [2]string{areas[r.Intn(len(areas))], phones[r.Intn(len(phones))]})
	}
}

// tickLine advances the clock to a reading at, just before or just after a configured duration away from `from`.
func (g *gen) tickTo(from int64, d int64, delta int64) string {
	t := from + d + delta
	if t < g.clock {
		t = g.clock
	}
	g.clock = t
	return "tick " + strconv.FormatInt(t, 10)
}

// maybeTick (clock hook only): with probability 1/3 a tick by 0, 1 or a configured duration -1/0/+1.
func (g *gen) maybeTick(lines []string) []string {
	if !clockAvailable || !g.r.Chance(1, 3) {
		return lines
	}
	var ds []int64
	for _, d := range []int64{g.p.ttl, g.p.mini, g.p.win} {
		if d >= 0 && d <= 100000 {
			ds = append(ds, d-1, d, d+1)
		}
	}
	ds = append(ds, 0, 1, 2)
	d := ds[g.r.Intn(len(ds))]
	if d < 0 {
		d = 0
	}
	return append(lines, g.tickTo(g.clock, d, 0))
}

func (g *gen) anyPair() [2]string { return g.pairs[g.r.Intn(len(g.pairs))] }

func (g *gen) sendLine(p [2]string) string {
	g.nsend++
	return "send " + p[0] + " " + p[1]
}

func (g *gen) codeArg() string {
	r := g.r
	x := r.Intn(100)
	switch {
	case x < 55:
		return "cur"
	case x < 75:
		return "wrong"
	case x < 85 && (g.p.mock || g.p.codeLen >= 20) && g.nsend > 0:
		return "c" + strconv.Itoa(r.Range(1, g.nsend+1))
	case x < 93 && g.p.mock:
		ph := g.anyPair()[1]
		raw, _ := tokB(ph)
		return "lit:" + escLit(mockSpec(raw, r.PickInt(g.p.codeLen, g.p.codeLen, g.p.codeLen+1, 1)))
	case x < 95:
		return "lit:" // the empty code
	case x < 96:
		return "lit:" + r.Pick("abc", "abc", "%C3%A9", "%A9", "%EF%BC%95", "%00", "5%20", "%25") // also non-ASCII / odd bytes
	}
	// near misses of the right code: leading digit dropped, full-width digits, blanks, last digit changed or dropped
	return "cur^" + r.Pick("z", "fw", "ts", "sp", "ch", "tr", "U")
}

func (g *gen) hashArg() string {
	r := g.r
	x := r.Intn(100)
	switch {
	case x < 65:
		return "hcur"
	case x < 80 && g.nsend > 0:
		return "h" + strconv.Itoa(r.Range(1, g.nsend+1))
	case x < 86:
		return "hx"
	case x < 90:
		return "h-"
	}
	// near misses of the returned hash: other letter case, blanks, one character dropped or changed
	return "hcur^" + r.Pick("U", "U", "U", "sp", "ts", "tr", "ch")
}

func (g *gen) verifyLine(p [2]string, code, hash string) string {
	return "verify " + p[0] + " " + p[1] + " " + code + " " + hash
}

func genHistory(r *rng.R, search bool) corr.Case {
	g := &gen{r: r, p: genParams(r), search: search}
	g.pickPairs()
	lines := []string{newLine(g.p)}
	n := r.Range(6, 30)
	if search {
		n = r.Range(6, 60)
	}
	for i := 0; i < n; i++ {
		lines = g.maybeTick(lines)
		p := g.anyPair()
		if r.Chance(1, 3) || i == 0 {
			lines = append(lines, g.sendLine(p))
			if r.Chance(1, 2) { // verify right after a (re-)send
				lines = append(lines, g.verifyLine(p, "cur", "hcur"))
			}
		} else {
			lines = append(lines, g.verifyLine(p, g.codeArg(), g.hashArg()))
		}
	}
	return corr.Case{Tag: "history", Lines: lines}
}

// attempts: guesses up to / beyond the attempt limit, then the right code; re-send; right code again.
func genAttempts(r *rng.R) corr.Case {
	g := &gen{r: r, p: genParams(r)}
	if !clockAvailable || r.Chance(1, 2) {
		g.p.ttl, g.p.mini = regime(r.Chance(1, 10)), alwaysMs
		g.p.win = regime(r.Chance(1, 2))
	}
	g.p.maxc = r.PickInt(3, 3, 0, -1)
	g.pickPairs()
	p := g.anyPair()
	lines := []string{newLine(g.p), g.sendLine(p)}
	rounds := r.Range(1, 3)
	for k := 0; k < rounds; k++ {
		wrongs := g.p.maxv + r.Range(-2, 2)
		for i := 0; i < wrongs; i++ {
			lines = g.maybeTick(lines)
			lines = append(lines, g.verifyLine(p, r.Pick("wrong", "wrong", "wrong", "cur"), r.Pick("hcur", "hcur", "hx")))
			if r.Chance(1, 6) {
				q := g.anyPair()
				lines = append(lines, r.Pick(g.verifyLine(q, g.codeArg(), g.hashArg()), g.sendLine(q)))
			}
		}
		for i := r.Range(1, 3); i > 0; i-- {
			lines = append(lines, g.verifyLine(p, "cur", "hcur"))
		}
		if k+1 < rounds {
			lines = append(lines, g.sendLine(p))
		}
	}
	return corr.Case{Tag: "attempts", Lines: lines}
}

// limits: MaxCount+1 / MaxCount+2 sends per pair, in every interval / window regime.
func genLimits(r *rng.R) corr.Case {
	g := &gen{r: r, p: genParams(r)}
	if !clockAvailable || r.Chance(1, 2) {
		g.p.mini, g.p.win = regime(!r.Chance(1, 3)), regime(r.Chance(1, 3))
	}
	g.pickPairs()
	lines := []string{newLine(g.p)}
	p, q := g.anyPair(), g.anyPair()
	n := g.p.maxc + r.Range(1, 4)
	for i := 0; i < n; i++ {
		lines = g.maybeTick(lines)
		lines = append(lines, g.sendLine(p))
		if r.Chance(1, 3) {
			lines = append(lines, g.verifyLine(p, g.codeArg(), g.hashArg()))
		}
		if r.Chance(1, 3) {
			lines = append(lines, g.sendLine(q))
		}
	}
	lines = append(lines, g.verifyLine(p, "cur", "hcur"), g.verifyLine(q, "cur", "hcur"))
	return corr.Case{Tag: "limits", Lines: lines}
}

// cross: the code and hash sent to one pair presented for another pair.
func genCross(r *rng.R) corr.Case {
	g := &gen{r: r, p: genParams(r)}
	g.p.codeLen = r.PickInt(25, 25, 4, 1, 0)
	if g.p.codeLen < 20 {
		g.p.mock = true
	}
	g.p.ttl, g.p.mini, g.p.maxv = neverMs, alwaysMs, r.PickInt(3, 3, 1)
	if g.p.maxc < 0 {
		g.p.maxc = 1
	}
	g.pickPairs()
	if len(g.pairs) < 2 {
		g.pairs = append(g.pairs, [2]string{"86", "23"})
	}
	lines := []string{newLine(g.p)}
	for i := r.Range(1, 3); i > 0; i-- {
		lines = append(lines, g.sendLine(g.anyPair()))
	}
	for i := r.Range(2, 8); i > 0; i-- {
		k := strconv.Itoa(r.Range(1, g.nsend))
		lines = append(lines, g.verifyLine(g.anyPair(), "c"+k, r.Pick("h"+k, "h"+k, "hcur")))
	}
	return corr.Case{Tag: "cross", Lines: lines}
}

// evict: a small cache and more pairs than it holds — entries are evicted, which deletes sent codes and restarts the limits.
func genEvict(r *rng.R) corr.Case {
	g := &gen{r: r, p: genParams(r)}
	g.p.cap = r.PickInt(1, 2, 2, 3, 3, 0)
	g.p.ttl = neverMs
	g.p.mini, g.p.win = regime(!r.Chance(1, 2)), regime(r.Chance(1, 4))
	g.p.maxv = r.PickInt(2, 3, 5)
	g.pickPairs()
	for len(g.pairs) < g.p.cap+2 {
		g.pairs = append(g.pairs, [2]string{areas[r.Intn(len(areas))], phones[r.Intn(len(phones))]})
	}
	lines := []string{newLine(g.p)}
	for i := r.Range(6, 24); i > 0; i-- {
		lines = g.maybeTick(lines)
		p := g.anyPair()
		switch r.Intn(5) {
		case 0, 1:
			lines = append(lines, g.sendLine(p))
		case 2, 3:
			lines = append(lines, g.verifyLine(p, "cur", "hcur"))
		default:
			lines = append(lines, g.verifyLine(p, g.codeArg(), g.hashArg()))
		}
	}
	return corr.Case{Tag: "evict", Lines: lines}
}

// boundary (clock hook only): every configured duration d is probed at d-1, d and d+1 — the lifetime after a send, the minimum
// interval between two sends, the counter window after its start — including d = 0 and 1 and the first send (zero setTime).
func genBoundary(r *rng.R) corr.Case {
	if !clockAvailable {
		return genHistory(r, false)
	}
	g := &gen{r: r, p: genParams(r)}
	g.p.cap, g.p.smsfail = 100000, r.Chance(1, 8)
	d := pickI64(r, 0, 1, 2, 5, 1000, 86400000)
	delta := pickI64(r, -1, 0, 1)
	g.pickPairs()
	p := g.anyPair()
	t0 := pickI64(r, 0, 1, 7, 1000000)
	var lines []string
	switch r.Intn(3) {
	case 0: // lifetime
		g.p.ttl, g.p.mini, g.p.win, g.p.maxv, g.p.maxc = d, alwaysMs, regime(r.Bool()), r.PickInt(2, 3, 5), r.PickInt(0, 1, 3)
		lines = []string{newLine(g.p), g.tickTo(t0, 0, 0), g.sendLine(p), g.tickTo(t0, d, delta), g.verifyLine(p, "cur", "hcur")}
		if r.Bool() {
			lines = append(lines, g.tickTo(t0, d, delta+1), g.verifyLine(p, "cur", "hcur"))
		}
		if r.Bool() { // a re-send starts a new lifetime
			t1 := g.clock
			lines = append(lines, g.sendLine(p), g.tickTo(t1, d, pickI64(r, -1, 0, 1)), g.verifyLine(p, "cur", "hcur"))
		}
	case 1: // minimum interval (the first send is never too frequent, whatever the interval)
		g.p.mini, g.p.ttl, g.p.win, g.p.maxc = d, neverMs, regime(r.Bool()), r.PickInt(3, 3, 1)
		lines = []string{newLine(g.p), g.tickTo(t0, 0, 0), g.sendLine(p), g.tickTo(t0, d, delta), g.sendLine(p)}
		t1 := g.clock
		lines = append(lines, g.tickTo(t1, d, pickI64(r, -1, 0, 1)), g.sendLine(p), g.verifyLine(p, "cur", "hcur"))
	default: // counter window: fill it, then probe its end
		g.p.win, g.p.mini, g.p.ttl, g.p.maxc = d, alwaysMs, neverMs, r.PickInt(0, 1, 1, 2)
		lines = []string{newLine(g.p), g.tickTo(t0, 0, 0)}
		for i := 0; i <= g.p.maxc; i++ {
			lines = append(lines, g.sendLine(p))
			if d > 2 && r.Bool() {
				lines = append(lines, g.tickTo(g.clock, 1, 0))
			}
		}
		lines = append(lines, g.tickTo(t0, d, delta), g.sendLine(p), g.sendLine(p))
		t1 := g.clock
		lines = append(lines, g.tickTo(t1, d, pickI64(r, -1, 0, 1)), g.sendLine(p), g.sendLine(p))
	}
	return corr.Case{Tag: "boundary", Lines: lines}
}

// fill: the cache is really filled beyond its capacity (2 … 64) with generated phone numbers; the scripts pin the LRU order the
// implementation must keep: a verify promotes, exactly the least recently used entry goes, a pair touched by fewer than CacheSize
// others survives, and the minimum interval is still enforced for survivors.
func genFill(r *rng.R) corr.Case {
	g := &gen{r: r, p: genParams(r)}
	cap := r.PickInt(2, 3, 4, 8, 8, 16, 16, 17, 17, 64)
	variant := r.Intn(4)
	g.p.cap, g.p.smsfail = cap, false
	g.p.maxc, g.p.maxv, g.p.ttl, g.p.win = 3, r.PickInt(3, 5), neverMs, neverMs
	g.p.mini = regime(variant != 2)
	if g.p.codeLen < 0 {
		g.p.codeLen = 4
	}
	area := r.Pick("86", "1", "1-809", "%C3%A9")
	base := r.Intn(90000000)
	pr := func(i int) [2]string { return [2]string{area, fmt.Sprintf("139%08d", base+i)} }
	lines := []string{newLine(g.p)}
	cur := func(i int) string { return g.verifyLine(pr(i), "cur", "hcur") }
	switch variant {
	case 0: // a verify promotes: the other old entry is the one that goes
		lines = append(lines, g.sendLine(pr(0)), g.sendLine(pr(1)), cur(0))
		for i := 2; i <= cap; i++ {
			lines = append(lines, g.sendLine(pr(i)))
		}
		lines = append(lines, cur(0), cur(1), cur(2))
	case 1: // cap+1+extra sends: exactly the first extra+1 are gone, the next one still verifies
		extra := r.Intn(cap)
		for i := 0; i <= cap+extra; i++ {
			lines = append(lines, g.sendLine(pr(i)))
		}
		lines = append(lines, cur(extra+1), cur(extra), cur(cap+extra), cur(0))
	case 2: // minimum interval after the fill: survivors are refused, evicted pairs accepted again
		for i := 0; i <= cap; i++ {
			lines = append(lines, g.sendLine(pr(i)))
		}
		lines = append(lines, g.sendLine(pr(1)), g.sendLine(pr(0)), g.sendLine(pr(cap)), cur(1))
	default: // random traffic over cap+1 … 2·cap pairs
		np := cap + 1 + r.Intn(cap)
		for i := r.Range(2*cap, 4*cap); i > 0; i-- {
			j := r.Intn(np)
			if r.Chance(1, 2) {
				lines = append(lines, g.sendLine(pr(j)))
			} else {
				lines = append(lines, g.verifyLine(pr(j), r.Pick("cur", "cur", "cur", "wrong"), "hcur"))
			}
		}
	}
	return corr.Case{Tag: "fill", Lines: lines}
}

// bulk lines: small ones are answered by the model run itself, large ones (thorough / search tiers) by the proved closed form.
func genBulk(r *rng.R, tier string) corr.Case {
	lines := []string{newLine(genParams(r))}
	for i := r.Range(1, 3); i > 0; i-- {
		cap := r.PickInt(0, 1, 2, 3, 8, 16, 17, 64, 100)
		n := r.Range(0, 2*cap+3)
		k := n - 1 - cap + r.Range(-2, 2)
		if k < 0 || r.Chance(1, 5) {
			k = r.Intn(n + 2)
		}
		lines = append(lines, fmt.Sprintf("bulk %d %d %d", cap, n, k))
	}
	if tier != "quick" && r.Chance(1, 25) {
		cap := r.PickInt(100000, 100000, 65536, 65537, 70000, 69999)
		n := r.PickInt(70000, 65537, 65536, 100001)
		k := r.PickInt(0, 1, n-cap, n-cap-1, n-1, n-65536, n-65537, 4463)
		if k < 0 {
			k = 0
		}
		lines = append(lines, fmt.Sprintf("bulk %d %d %d", cap, n, k))
	}
	if r.Chance(1, 8) { // parallel callers on one instance (child process): re-sends inside the minimum interval under contention
		g, n := r.PickInt(2, 4, 8), r.PickInt(2000, 5000, 20000)
		if tier != "quick" && r.Chance(1, 4) {
			g, n = r.PickInt(8, 16), r.PickInt(50000, 100000)
		}
		lines = append(lines, fmt.Sprintf("race %d %d %s", g, n, r.Pick("0", "1")))
	}
	if tier != "quick" && r.Chance(1, 80) { // concurrent callers in a child process (thorough / search tiers only)
		lines = append(lines, fmt.Sprintf("stress %d %d", r.PickInt(4, 8, 8, 16), r.PickInt(5000, 20000)))
	}
	return corr.Case{Tag: "bulk", Lines: lines}
}

var bases = []string{"0123456789", "0123456789", "ab", "a", "abc", "_", "aab", "abcdefghijklmnopqrstuvwxyz", "01"}

func genNonce(r *rng.R) corr.Case {
	lines := []string{newLine(genParams(r))}
	for i := r.Range(1, 6); i > 0; i-- {
		base := bases[r.Intn(len(bases))]
		bl := len(tok(base))
		if r.Chance(1, 4) {
			lines = append(lines, "cover "+base)
			continue
		}
		n := r.PickInt(0, 1, 1, 2, 3, 5, 8, -1)
		var vs []string
		for j := r.Range(0, 9); j > 0; j-- {
			v := r.Intn(1000)
			if bl > 0 && r.Chance(1, 2) {
				v = r.PickInt(bl-1, bl-1, bl, 0, 2*bl-1, bl-2+2*bl, 1)
			}
			vs = append(vs, strconv.Itoa(v))
		}
		vw := "-"
		if len(vs) > 0 {
			vw = strings.Join(vs, ",")
		}
		lines = append(lines, fmt.Sprintf("nonce %s %d %s", base, n, vw))
	}
	return corr.Case{Tag: "nonce", Lines: lines}
}

func genSample(r *rng.R) corr.Case {
	base := r.Pick("0123456789", "ab", "abc", "a", "01", "aab", "xyz_")
	n := r.PickInt(1, 4, 6)
	cnt := (400*len(base))/n + 1 + r.Intn(50)
	if r.Chance(1, 8) {
		cnt = r.Intn(20) // under-sampled or zero: both sides answer bad-op
	}
	return corr.Case{Tag: "sample", Lines: []string{newLine(genParams(r)), fmt.Sprintf("sample %s %d %d", base, n, cnt)}}
}

func genMalformed(r *rng.R) corr.Case {
	lines := []string{r.Pick(newLine(genParams(r)), newLine(genParams(r)), "new cap=100000 mock=2 len=1 maxc=1 maxv=1 ttl=9223372037 mini=-1 win=9223372037 smsfail=0",
		"new cap=100000 mock=1 len=x maxc=1 maxv=1 ttl=9223372037 mini=-1 win=9223372037 smsfail=0", "new", "new len=1 mock=1 maxc=1 maxv=1 ttl=9223372037 mini=-1 win=9223372037 smsfail=0", "new mock=1 len=1 maxc=1 maxv=1 ttl=9223372037 mini=-1 win=9223372037 smsfail=0",
		"new cap=-1 mock=1 len=1 maxc=1 maxv=1 ttl=9223372037 mini=-1 win=9223372037 smsfail=0", "new cap=x mock=1 len=1 maxc=1 maxv=1 ttl=9223372037 mini=-1 win=9223372037 smsfail=0",
		"new cap=100000 mock=1 len=1 maxc=+1 maxv=1 ttl=9223372037 mini=-1 win=9223372037", "new cap=100000 mock=1 len=-1 maxc=1 maxv=1 ttl=9223372037 mini=-1 win=9223372037 smsfail=0")}
	bad := []string{"send 1", "send", "send 1 23 4", "verify 1 23 cur", "verify 1 23 cur hcur x", "verify 1 23 cux hcur", "verify 1 23 cur g1",
		"verify 1 23 c hcur", "verify 1 23 c1x h1", "verify 1 23 cur h1x", "frob 1 2", "", "nonce ab 1", "nonce ab x 1", "nonce ab 1 1,,2", "nonce ab 1 1,-2",
		"cover", "cover ab cd", "sample ab 1", "sample ab 0 100", "sample _ 1 1000", "sample ab 1 x", "SEND 1 23", "send 1 23", "verify 1 23 cur hcur",
		"verify 1 23 lit: h-", "nonce ab 2 1,2", "new", "send 1 %", "send %4 2", "send 1 %zz", "verify 1 2%C lit:1 hx", "verify 1 23 lit:%4 hx", "bulk 1 2", "bulk 1 2 x", "bulk 3 200001 0", "bulk -1 2 0", "bulk 2 3 1", "race 2 100", "race 0 100 1", "race 2 100 2", "race 2 0 1", "race 65 10 0", "race x 10 0"}
	for i := r.Range(1, 6); i > 0; i-- {
		lines = append(lines, bad[r.Intn(len(bad))])
	}
	return corr.Case{Tag: "malformed", Lines: lines}
}

// clockCases: boundary witnesses that need the fake clock.
func clockCases() []corr.Case {
	tm := "new cap=1000 mock=0 len=6 maxc=1 maxv=5 ttl=5 mini=3 win=10 smsfail=0"
	return []corr.Case{
		{Tag: "fixed-clock", Lines: []string{tm, "tick 100", "send 1 2", "tick 104", "verify 1 2 cur hcur", "tick 105", "verify 1 2 cur hcur", "tick 106", "verify 1 2 cur hcur", "tick 50", "verify 1 2 cur hcur"}},
		{Tag: "fixed-clock", Lines: []string{tm, "tick 100", "send 1 2", "tick 102", "send 1 2", "tick 103", "send 1 2"}},
		{Tag: "fixed-clock", Lines: []string{tm, "tick 100", "send 1 2", "tick 104", "send 1 2", "tick 110", "send 1 2", "tick 111", "send 1 2", "tick 115", "send 1 2", "tick 119", "send 1 2"}},
		{Tag: "fixed-clock", Lines: []string{"new cap=1000 mock=1 len=2 maxc=0 maxv=3 ttl=0 mini=0 win=0 smsfail=0", "send 1 23", "verify 1 23 cur hcur", "send 1 23", "tick 1", "verify 1 23 cur hcur", "send 1 23", "send 1 23"}},
		{Tag: "fixed-clock", Lines: []string{"new cap=1000 mock=1 len=2 maxc=3 maxv=3 ttl=1 mini=1 win=1 smsfail=0", "tick 7", "send 1 23", "send 1 23", "tick 8", "verify 1 23 cur hcur", "send 1 23", "tick 9", "verify 1 23 cur hcur", "tick 10", "verify 1 23 cur hcur"}},
		{Tag: "fixed-clock", Lines: []string{"new cap=1000 mock=1 len=2 maxc=3 maxv=3 ttl=86400000 mini=60000 win=3600000 smsfail=0", "tick 1000000", "send 86 5551234", "tick 1059999", "send 86 5551234", "tick 1060000", "send 86 5551234",
			"tick 87460000", "verify 86 5551234 cur hcur", "tick 87460001", "verify 86 5551234 cur hcur"}},
	}
}

func fixedCases() []corr.Case {
	cs := append(fixedBase(), fillCases()...)
	if clockAvailable {
		cs = append(cs, clockCases()...)
	}
	return cs
}

// fillCases: the LRU order pinned through vcode with a cache that is really full (CacheSize 16 / 17 / 64), and the bulk line.
func fillCases() []corr.Case {
	nl := func(cap int, mini int64) string {
		return fmt.Sprintf("new cap=%d mock=0 len=6 maxc=3 maxv=3 ttl=%d mini=%d win=%d smsfail=0", cap, neverMs, mini, neverMs)
	}
	ph := func(i int) string { return fmt.Sprintf("86 139%08d", i) }
	var cs []corr.Case
	for _, cap := range []int{16, 17, 64} {
		// a verify promotes (send A, send B, verify A, cap-1 others: A stays, B goes)
		l := []string{nl(cap, alwaysMs), "send " + ph(0), "send " + ph(1), "verify " + ph(0) + " cur hcur"}
		for i := 2; i <= cap; i++ {
			l = append(l, "send "+ph(i))
		}
		cs = append(cs, corr.Case{Tag: "fixed-fill", Lines: append(l, "verify "+ph(0)+" cur hcur", "verify "+ph(1)+" cur hcur")})
		// cap+1 sends: exactly the first is gone, the second still verifies; the minimum interval still holds for the survivor
		l = []string{nl(cap, neverMs)}
		for i := 0; i <= cap; i++ {
			l = append(l, "send "+ph(i))
		}
		cs = append(cs, corr.Case{Tag: "fixed-fill", Lines: append(l, "verify "+ph(1)+" cur hcur", "verify "+ph(0)+" cur hcur", "send "+ph(1), "send "+ph(0))})
	}
	// a re-send moves the pair to the front (Set of the same object): CacheSize 2, send A, send B, re-send A, send C ⇒ A stays, B goes
	for _, cap := range []int{2, 3, 16} {
		l := []string{nl(cap, alwaysMs), "send " + ph(0)}
		for i := 1; i < cap; i++ {
			l = append(l, "send "+ph(i))
		}
		l = append(l, "send "+ph(0), "send "+ph(cap), "verify "+ph(0)+" cur hcur", "verify "+ph(1)+" cur hcur")
		cs = append(cs, corr.Case{Tag: "fixed-fill", Lines: l})
	}
	std := nl(100000, alwaysMs)
	cs = append(cs,
		corr.Case{Tag: "fixed-bulk", Lines: []string{std, "bulk 16 17 1", "bulk 16 17 0", "bulk 3 5 2", "bulk 3 5 1", "bulk 0 3 2", "bulk 5 3 7", "bulk 64 300 236", "bulk 64 300 235", "bulk 1 1 0", "bulk 7 0 0"}},
		// the CacheSize the harness itself configures must really be honoured: 70 000 entries in a 100 000 cache
		corr.Case{Tag: "fixed-bulk", Lines: []string{std, "bulk 100000 70000 0"}},
		// parallel callers: re-sends inside the minimum interval while 8 / 4 goroutines keep the cache busy
		corr.Case{Tag: "fixed-race", Lines: []string{std, "race 8 20000 1"}},
		corr.Case{Tag: "fixed-race", Lines: []string{std, "race 4 5000 0"}},
		// byte strings: "é" = C3 A9; the pairs ("é","5") and ("\xc3","\xa95") are different pairs
		corr.Case{Tag: "fixed-bytes", Lines: []string{"new cap=100000 mock=1 len=1 maxc=3 maxv=3 ttl=9223372037 mini=-1 win=9223372037 smsfail=0", "send %C3%A9 5", "verify %C3 %A95 lit:5 h1", "verify %C3%A9 5 cur hcur",
			"send %C3%A9%C3%A9 %C3%A9", "verify %C3%A9%C3%A9 %C3%A9 lit:%A9 hcur", "verify %C3%A9 %C3%A9%C3%A9 lit:%A9 h2", "verify %C3%A9%C3%A9 %C3%A9 lit:%C3%A9 hcur"}},
		corr.Case{Tag: "fixed-bytes", Lines: []string{"new cap=100000 mock=1 len=3 maxc=3 maxv=3 ttl=9223372037 mini=-1 win=9223372037 smsfail=0", "send 86 7%C3%A9", "verify 86 7%C3%A9 cur hcur", "verify 86 7%C3%A9 lit:7%C3%A9 h1",
			"send %5F %25", "verify %5F %25 lit:00%25 hcur", "verify _ %25 lit:00%25 h2", "send 86 %C", "send 86 %c3", "verify 86 5 lit:%G1 hx"}},
	)
	return cs
}

func fixedBase() []corr.Case {
	std := "new cap=100000 mock=0 len=6 maxc=3 maxv=3 ttl=9223372037 mini=-1 win=9223372037 smsfail=0"
	mock := "new cap=100000 mock=1 len=4 maxc=3 maxv=3 ttl=9223372037 mini=-1 win=9223372037 smsfail=0"
	return []corr.Case{
		// the dashed key confuses ("1-2","3") with ("1","2-3"): the code sent to one verifies for the other
		{Tag: "fixed-key-injective", Lines: []string{"new cap=100000 mock=1 len=1 maxc=3 maxv=3 ttl=9223372037 mini=-1 win=9223372037 smsfail=0", "send 1-2 3", "verify 1 2-3 lit:3 h1"}},
		{Tag: "fixed-key-injective", Lines: []string{"new cap=100000 mock=0 len=25 maxc=3 maxv=3 ttl=9223372037 mini=-1 win=9223372037 smsfail=0", "send 1- 3", "send 1 -3", "verify 1- 3 cur hcur", "verify 1 -3 cur hcur",
			"send _ -3", "send - 3", "verify _ -3 cur hcur", "send _ _", "verify _ _ cur hcur"}},
		// a bounded cache forgets (observation): CacheSize 2, two other pairs evict the entry
		{Tag: "fixed-evict", Lines: []string{"new cap=2 mock=0 len=6 maxc=1 maxv=2 ttl=9223372037 mini=9223372037 win=9223372037 smsfail=0", "send 1 1", "send 1 1", "send 1 2", "send 1 3", "verify 1 1 cur hcur", "send 1 1"}},
		{Tag: "fixed-evict", Lines: []string{"new cap=2 mock=0 len=6 maxc=1 maxv=2 ttl=9223372037 mini=-1 win=9223372037 smsfail=0", "send 1 1", "send 1 2", "verify 1 1 lit:x hx", "send 1 3", "verify 1 1 cur hcur", "verify 1 2 cur hcur"}},
		{Tag: "fixed-evict", Lines: []string{"new cap=0 mock=1 len=2 maxc=0 maxv=2 ttl=9223372037 mini=9223372037 win=9223372037 smsfail=0", "send 1 23", "verify 1 23 cur hcur", "send 1 23"}},
		{Tag: "fixed-evict", Lines: []string{"new cap=1 mock=1 len=2 maxc=0 maxv=2 ttl=9223372037 mini=9223372037 win=9223372037 smsfail=0", "send 1 23", "verify 1 23 cur hcur", "send 1 23", "send 1 24", "send 1 23"}},
		// negative CodeLen (outside the property's domain): mock mode panics, the real sender issues the empty code
		{Tag: "fixed-neglen", Lines: []string{"new cap=100000 mock=1 len=-1 maxc=3 maxv=3 ttl=9223372037 mini=-1 win=9223372037 smsfail=0", "send 1 23", "verify 1 23 cur hcur"}},
		{Tag: "fixed-neglen", Lines: []string{"new cap=100000 mock=0 len=-1 maxc=3 maxv=3 ttl=9223372037 mini=-1 win=9223372037 smsfail=0", "send 1 23", "verify 1 23 cur hcur", "verify 1 23 lit: h1"}},
		{Tag: "fixed-neglen", Lines: []string{"new cap=100000 mock=1 len=-2 maxc=-1 maxv=3 ttl=9223372037 mini=-1 win=9223372037 smsfail=0", "send 1 23"}},
		{Tag: "fixed-F17", Lines: []string{std, "send 86 5551234", "verify 86 5551234 cur hcur"}},
		{Tag: "fixed-F17", Lines: []string{mock, "send 86 5551234", "verify 86 5551234 lit:1234 h1"}},
		{Tag: "fixed-F18", Lines: []string{std, "cover 0123456789", "nonce 0123456789 3 9,19,29", "nonce 0123456789 4 0,8,10,7"}},
		{Tag: "fixed-F18", Lines: []string{std, "sample 0123456789 6 1000"}},
		{Tag: "fixed-F18", Lines: []string{std, "nonce a 1 0", "cover a", "nonce _ 1 0", "nonce _ 0 -", "nonce ab -1 1", "cover _"}},
		{Tag: "fixed-near-miss", Lines: []string{"new cap=100000 mock=0 len=6 maxc=3 maxv=20 ttl=9223372037 mini=-1 win=9223372037 smsfail=0", "send 1 23", "verify 1 23 cur hcur^U", "verify 1 23 cur hcur^sp", "verify 1 23 cur hcur^ts",
			"verify 1 23 cur hcur^tr", "verify 1 23 cur hcur^ch", "verify 1 23 cur h1^U", "verify 1 23 cur^z hcur", "verify 1 23 cur^fw hcur", "verify 1 23 cur^ts hcur", "verify 1 23 cur^sp hcur",
			"verify 1 23 cur^ch hcur", "verify 1 23 cur^tr hcur", "verify 1 23 cur hcur"}},
		{Tag: "fixed-near-miss", Lines: []string{"new cap=100000 mock=1 len=4 maxc=3 maxv=20 ttl=9223372037 mini=-1 win=9223372037 smsfail=0", "send 1 23", "verify 1 23 lit:0023 hcur^U", "verify 1 23 cur^z hcur", "verify 1 23 lit:023 hcur",
			"verify 1 23 lit:23 hcur", "verify 1 23 cur^fw hcur", "verify 1 23 lit:0023 hcur"}},
		{Tag: "fixed-attempts", Lines: []string{std, "send 1 23", "verify 1 23 wrong hcur", "verify 1 23 wrong hcur", "verify 1 23 wrong hcur", "verify 1 23 cur hcur",
			"send 1 23", "verify 1 23 cur hcur", "verify 1 23 cur hcur", "verify 1 23 cur hcur", "verify 1 23 cur hcur"}},
		{Tag: "fixed-attempts", Lines: []string{"new cap=100000 mock=1 len=2 maxc=3 maxv=0 ttl=9223372037 mini=-1 win=9223372037 smsfail=0", "send 1 23", "verify 1 23 cur hcur"}},
		{Tag: "fixed-attempts", Lines: []string{"new cap=100000 mock=1 len=2 maxc=3 maxv=-1 ttl=9223372037 mini=-1 win=9223372037 smsfail=0", "send 1 23", "verify 1 23 lit:23 h1"}},
		{Tag: "fixed-limits", Lines: []string{"new cap=100000 mock=1 len=2 maxc=1 maxv=3 ttl=9223372037 mini=-1 win=9223372037 smsfail=0", "send 1 23", "send 1 23", "send 1 23", "send 12 3", "verify 1 23 cur hcur"}},
		{Tag: "fixed-limits", Lines: []string{"new cap=100000 mock=1 len=2 maxc=1 maxv=3 ttl=9223372037 mini=-1 win=-1 smsfail=0", "send 1 23", "send 1 23", "send 1 23", "send 1 23"}},
		{Tag: "fixed-limits", Lines: []string{"new cap=100000 mock=1 len=2 maxc=-1 maxv=3 ttl=9223372037 mini=-1 win=9223372037 smsfail=0", "send 1 23", "verify 1 23 cur hcur"}},
		{Tag: "fixed-limits", Lines: []string{"new cap=100000 mock=0 len=6 maxc=3 maxv=3 ttl=9223372037 mini=9223372037 win=9223372037 smsfail=0", "send 1 23", "send 1 23", "send 12 3", "verify 1 23 cur hcur"}},
		{Tag: "fixed-ttl", Lines: []string{"new cap=100000 mock=0 len=6 maxc=3 maxv=3 ttl=-1 mini=-1 win=9223372037 smsfail=0", "send 1 23", "verify 1 23 cur hcur", "verify 1 23 wrong hcur", "verify 1 23 cur hx"}},
		{Tag: "fixed-smsfail", Lines: []string{"new cap=100000 mock=0 len=6 maxc=3 maxv=3 ttl=9223372037 mini=-1 win=9223372037 smsfail=1", "send 1 23", "verify 1 23 cur hcur", "send 1 23", "verify 1 23 cur h1"}},
		{Tag: "fixed-collide", Lines: []string{mock, "send 1 23", "send 12 3", "verify 1 23 cur hcur", "verify 12 3 cur hcur", "verify 12 3 c1 h1", "verify 1 23 c2 h2"}},
		{Tag: "fixed-mock", Lines: []string{"new cap=100000 mock=1 len=6 maxc=3 maxv=3 ttl=9223372037 mini=-1 win=9223372037 smsfail=1", "send 1 23", "verify 1 23 lit:000023 h1", "verify 1 23 lit:23 h1", "send 1 7-7", "verify 1 7-7 lit:0007-7 hcur"}},
		{Tag: "fixed-len0", Lines: []string{"new cap=100000 mock=0 len=0 maxc=3 maxv=3 ttl=9223372037 mini=-1 win=9223372037 smsfail=0", "send 1 23", "verify 1 23 lit: hcur", "verify 1 23 cur hcur", "verify 1 23 wrong hcur"}},
		{Tag: "fixed-len0", Lines: []string{"new cap=100000 mock=1 len=0 maxc=3 maxv=3 ttl=9223372037 mini=-1 win=9223372037 smsfail=0", "send 1 23", "verify 1 23 lit: hcur", "verify 1 23 cur h-"}},
	}
}

func genCase(r *rng.R, tier string, i int) corr.Case {
	search := tier == "search"
	x := r.Intn(100)
	switch {
	case x < 12 && clockAvailable:
		return genBoundary(r)
	case x < 36:
		return genHistory(r, search)
	case x < 52:
		return genAttempts(r)
	case x < 64:
		return genLimits(r)
	case x < 73:
		return genCross(r)
	case x < 80:
		return genEvict(r)
	case x < 86:
		return genFill(r)
	case x < 88:
		return genBulk(r, tier)
	case x < 94:
		return genNonce(r)
	case x < 95:
		return genSample(r)
	}
	return genMalformed(r)
}

func spec() corr.Spec {
	return corr.Spec{
		Property: "C19",
		Fixed:    fixedCases,
		Count: func(tier string) int {
			switch tier {
			case "quick":
				return 2500
			case "thorough":
				return 40000
			}
			return 60000
		},
		Gen: genCase,
		Run: run,
		NonTrivial: func(c corr.Case, r corr.Result) bool {
			acc, ver, other := false, false, false
			for i, l := range c.Lines {
				o := r.Outs[i]
				switch {
				case strings.HasPrefix(l, "send ") && (strings.HasPrefix(o, "ok") || strings.HasPrefix(o, "smsfail")):
					acc = true
				case strings.HasPrefix(l, "verify ") && acc && o != "bad-op":
					ver = true
				case (strings.HasPrefix(l, "nonce ") || strings.HasPrefix(l, "cover ") || strings.HasPrefix(l, "sample ") || strings.HasPrefix(l, "bulk ") || strings.HasPrefix(l, "stress ") || strings.HasPrefix(l, "race ")) && o != "bad-op":
					other = true
				}
			}
			return (acc && ver) || other
		},
		Rule: "send/verify histories over up to 7 (area, phone) pairs — area codes and phones with and without '-', empty strings, and groups of pairs that a dashed or an unseparated key confuses — mock and real-sender modes, code lengths {-1,0,1,4,6,25}, limits -1..5, durations -1 ms / 9223372037 ms (and, with the clock hook, finite durations probed at d-1, d, d+1 by tick lines; class `boundary`), failing sender, CacheSize 100000 or 0..4, 8, 16, 17, 64 (eviction; class `fill` really fills the cache with generated phone numbers; `bulk` lines send to up to 100001 distinct pairs), byte-string tokens (%XX: non-ASCII area codes, phones and codes); classes: random histories, attempt-limit boundaries, send-limit boundaries, cross-pair code/hash reuse, small-cache eviction, scripted genNonceStr, sampled SecGenNonceStr, malformed lines; non-trivial = an accepted send followed by a verify, or a nonce/cover/sample line that was executed; distinct = distinct script text",
		Assumptions: []string{
			"time: without the clock hook (default build, clock_nohook.go) vcode reads the real clock; only the durations -1 ms (always elapsed) and 9223372037 ms (106.75 days, never elapses; x1000 overflows into a negative duration) are configured, for which the unknown real elapsed time (a few microseconds, >= 0, monotonic) and the model's elapsed time 0 compare alike; no tick lines. With the hook vcode.VerifSetNow (build tag vcodenow) the implementation reads a fake clock set by tick lines and every duration d in {0,1,2,3,5,10,1000,86400000} ms is probed at d-1, d, d+1. The unit is the pinned fact durationIdentity (tex.Duration.Duration() = time.Duration(i))",
			"the cache is cache.LRUCache with capacity CacheSize and entries of size 1 (facts sizeIsOne, simpleCacheIsLRU; NewSimpleLogic ignores the cache passed in: fact ownCache); its semantics (Set moves to front and evicts from the back, Get promotes, Peek does not) are modelled and exercised with CacheSize 0..4",
			"random.MD5UUID() returns a fresh non-empty string per call (checked by monitor C19:MD5UUID:hash-repeated on every script); modelled as the sequence number of the accepted send",
			"codes of the real-sender mode are random: modelled symbolically (text = genNonce over an abstract source); `c<k>` code arguments are generated only in mock mode or with CodeLen >= 20, `lit:` digit codes only in mock mode, scripts with key-confusable pairs use mock mode or CodeLen 0/25, so that two independent random codes are equal with probability < 1e-20",
			"sample lines draw count*len >= 400*|alphabet| characters from SecGenNonceStr (seeded by crypto/rand, not by VERIF_SEED): a reachable character is missed with probability < 1e-100; that math/rand's Intn(n) can return every value below n is not verified",
			"area codes, phones and alphabets are ASCII (len() counts bytes, the model counts characters); int counters do not overflow; calls are sequential (vcode has no lock of its own)",
			"a negative CodeLen is outside the property's domain (mock mode panics, the real sender issues the empty code): mirrored by the model, not judged by the monitors",
		},
		Trusted: []string{"fake SMS sender and per-pair bookkeeping in go/cmd/c19 (monitors)"},
	}
}
