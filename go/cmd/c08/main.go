// Command c08: extractor and correspondence runner for property C08
// (bitmap1024: set algebra and ordered, bounded iteration).
package main

import (
	"fmt"
	"os"
	"strconv"
	"strings"

	"github.com/pinealctx/neptune/bitmap1024"

	"nvharness/lib/c08x"
	"nvharness/lib/corr"
	"nvharness/lib/rng"
)

func main() {
	if len(os.Args) < 2 {
		fmt.Fprintln(os.Stderr, "usage: c08 extract <repo> <leanDir> | corr …")
		os.Exit(2)
	}
	switch os.Args[1] {
	case "extract":
		c08x.ExtractC08(os.Args[2], os.Args[3])
	case "corr":
		corr.Main(spec(), os.Args[2:])
	default:
		os.Exit(2)
	}
}

// ---------------------------------------------------------------- script state

type state struct {
	word bitmap1024.Bit64
	a, b bitmap1024.Bit1024
	// reference kept by the monitors only: boolean arrays updated from the operations' *intended* meaning
	refW    [64]bool
	refA    [1024]bool
	refB    [1024]bool
	hits    []corr.Hit
	hitSeen map[string]bool
	held    []c08x.Held // results returned by earlier GetN calls, re-checked after later calls
}

func newState() *state {
	c08x.SetMagic(int64(c08x.DefaultMagic))
	return &state{a: bitmap1024.NewBit1024(), b: bitmap1024.NewBit1024(), hitSeen: map[string]bool{}}
}

func (st *state) hit(site, what, detail string) {
	key := "C08:" + site + ":" + what
	if st.hitSeen[key] {
		return
	}
	st.hitSeen[key] = true
	st.hits = append(st.hits, corr.Hit{Key: key, What: detail})
}

// recheckHeld: every slice a GetN call returned earlier must still read what it read then.
func (st *state) recheckHeld() {
	for _, h := range st.held {
		if ok, what := h.Recheck(); !ok {
			st.hit(h.Site, "result-overwritten", "a later call rewrote an earlier result: "+what)
		}
	}
}

func (st *state) hold(h c08x.Held) {
	st.held = append(st.held, h)
	if len(st.held) > 24 {
		st.held = st.held[len(st.held)-24:]
	}
}

// checkMaskTable: the process-wide mask table must be intact (key `C08:u64Tab:corrupted`).
func (st *state) checkMaskTable() {
	if ok, what := c08x.MaskTableIntact(); !ok {
		st.hit("u64Tab", "corrupted", what)
	}
}

func (st *state) reg(r string) (bitmap1024.Bit1024, *[1024]bool, bool) {
	switch r {
	case "a":
		return st.a, &st.refA, true
	case "b":
		return st.b, &st.refB, true
	}
	return nil, nil, false
}

func setChanged(b bitmap1024.Bit1024, ref *[1024]bool) bool {
	for i := 0; i < 1024; i++ {
		if ((uint64(b[i/64])>>uint(i%64))&1 == 1) != ref[i] {
			return true
		}
	}
	return false
}

func refMembers(ref []bool) []int {
	var out []int
	for i, v := range ref {
		if v {
			out = append(out, i)
		}
	}
	return out
}

func (st *state) checkWord(site string) {
	for i := 0; i < 64; i++ {
		if ((uint64(st.word)>>uint(i))&1 == 1) != st.refW[i] {
			st.hit(site, "membership", fmt.Sprintf("bit %d of the word is %v, the reference set says %v (word=%x)", i, !st.refW[i], st.refW[i], uint64(st.word)))
			for j := 0; j < 64; j++ {
				st.refW[j] = (uint64(st.word)>>uint(j))&1 == 1
			}
			return
		}
	}
}

func (st *state) checkReg(site string, b bitmap1024.Bit1024, ref *[1024]bool) {
	if len(b) != 16 {
		st.hit(site, "shape", fmt.Sprintf("bitmap has %d words", len(b)))
		return
	}
	for i := 0; i < 1024; i++ {
		if ((uint64(b[i/64])>>uint(i%64))&1 == 1) != ref[i] {
			st.hit(site, "membership", fmt.Sprintf("index %d: bitmap says %v, reference set says %v", i, !ref[i], ref[i]))
			if ref == &st.refA || ref == &st.refB {
				// resynchronise the register's reference, so that one root cause is not reported again by later operations
				for j := 0; j < 1024; j++ {
					ref[j] = (uint64(b[j/64])>>uint(j%64))&1 == 1
				}
			}
			return
		}
	}
}

var widthNames = map[string]string{"i8": "I8", "i16": "I16", "i32": "I32", "u32": "U32", "i64": "I64"}

func methodName(base string, rev bool, wt string) string {
	n := base + widthNames[wt]
	if rev {
		n = "R" + n
	}
	return n
}

// iterLine runs an iterator of element type T, prints the canonical result and evaluates the monitors:
// exact content/count against the boolean-array reference, and independence of the sparse threshold.
func iterLine[T c08x.Elem](st *state, site string, members []int, rev bool, slen, pos int, add int64, n int,
	f func(s []T, pos int, add T, n int) int) string {
	s, c, ok := c08x.IterCall(slen, pos, add, n, f)
	want, cnt, applicable := c08x.ExpectIter[T](members, rev, slen, pos, add, n)
	if applicable {
		switch {
		case !ok:
			st.hit(site, "panic", fmt.Sprintf("panicked although pos=%d and the slice (len %d) has room for %d values", pos, slen, cnt))
		case c != cnt:
			st.hit(site, "count", fmt.Sprintf("returned %d, expected min(n,Len)=%d (members=%v n=%d)", c, cnt, members, n))
		case !c08x.EqualVals(s, want):
			st.hit(site, "content", fmt.Sprintf("slice=%s expected=%s (members=%v rev=%v pos=%d add=%d n=%d)", c08x.ShowVals(s), c08x.ShowVals(want), members, rev, pos, add, n))
		}
		// threshold independence, observed directly on the implementation
		cur := bitmap1024.VerifSparseMagic()
		for _, m := range []int32{-1, 64} {
			if m == cur {
				continue
			}
			bitmap1024.VerifSetSparseMagic(m)
			s2, c2, ok2 := c08x.IterCall(slen, pos, add, n, f)
			if ok2 != ok || (ok && (c2 != c || !c08x.EqualVals(s2, s))) {
				st.hit(site, "threshold-dependent", fmt.Sprintf("sparseMagic=%d gives %s, sparseMagic=%d gives %s", cur, c08x.ShowIter(s, c, ok), m, c08x.ShowIter(s2, c2, ok2)))
			}
		}
		bitmap1024.VerifSetSparseMagic(cur)
	}
	return c08x.ShowIter(s, c, ok)
}

func getnLine[T c08x.Elem](st *state, site string, members []int, rev bool, n int, f func(n int) []T) string {
	s, ok := c08x.GetNCall(n, f)
	st.recheckHeld() // earlier results must survive this call
	if ok && len(s) > 0 {
		st.hold(c08x.Hold(site, s))
	}
	if n >= 0 {
		want := c08x.ExpectGetN[T](members, rev, 0, n)
		switch {
		case !ok:
			st.hit(site, "panic", fmt.Sprintf("panicked for n=%d", n))
		case (s == nil) != (want == nil) || !c08x.EqualVals(s, want):
			st.hit(site, "content", fmt.Sprintf("returned %s expected %s (members=%v)", c08x.ShowGetN(s, ok), c08x.ShowGetN(want, true), members))
		}
	}
	return c08x.ShowGetN(s, ok)
}

const maxSlice = 100000

func (st *state) run(line string) string {
	f := strings.Fields(line)
	if len(f) == 0 {
		return "bad-op"
	}
	switch {
	case f[0] == "new" && len(f) == 1:
		*st = *newState()
		return "ok"
	case f[0] == "probe-api" && len(f) == 1:
		// monitor-only: every exported method of the package's types, called once on throw-away values, must leave the
		// process-wide mask table intact (methods the scripts do not know about included)
		for _, bad := range c08x.ProbeAPI() {
			st.hit("api-probe", "corrupts-mask-table", "after calling "+bad)
		}
		return "ok"
	case f[0] == "magic" && len(f) == 2:
		m, ok := c08x.ParseInt(f[1], -2147483648, 2147483647)
		if !ok {
			return "bad-op"
		}
		c08x.SetMagic(m)
		// T-observable: the threshold as read back through the hook (a no-op setter would silently collapse the
		// dense/sparse branch coverage — results do not depend on the threshold)
		return fmt.Sprintf("magic=%d", bitmap1024.VerifSparseMagic())
	case f[0] == "w" && len(f) == 2:
		v, ok := c08x.ParseHex64(f[1])
		if !ok {
			return "bad-op"
		}
		st.word = bitmap1024.Bit64(v)
		for i := 0; i < 64; i++ {
			st.refW[i] = (v>>uint(i))&1 == 1
		}
		return "ok"
	case (f[0] == "set64" || f[0] == "unset64") && len(f) == 2:
		i, ok := c08x.ParseInt(f[1], 0, 255)
		if !ok || strings.HasPrefix(f[1], "-") {
			return "bad-op"
		}
		if f[0] == "set64" {
			st.word.Set(byte(i))
			if i <= 63 {
				st.refW[i] = true
			}
			st.checkWord("Bit64.Set")
		} else {
			st.word.Unset(byte(i))
			if i <= 63 {
				st.refW[i] = false
			}
			st.checkWord("Bit64.Unset")
		}
		return strconv.FormatUint(uint64(st.word), 16)
	case f[0] == "len64" && len(f) == 1:
		l, nl, full := st.word.Len(), st.word.NLen(), st.word.Full()
		cnt := len(refMembers(st.refW[:]))
		if l != cnt || nl != 64-cnt || full != (cnt == 64) {
			st.hit("Bit64.Len", "count", fmt.Sprintf("Len=%d NLen=%d Full=%v for a word with %d members", l, nl, full, cnt))
		}
		fl := 0
		if full {
			fl = 1
		}
		return fmt.Sprintf("%d %d %d", l, nl, fl)
	case f[0] == "alg64" && len(f) == 2:
		v, ok := c08x.ParseHex64(f[1])
		if !ok {
			return "bad-op"
		}
		c := bitmap1024.Bit64(v)
		and, or, rev := st.word.And(c), st.word.Or(c), st.word.Reverse()
		for i := 0; i < 64; i++ {
			x, y := st.refW[i], (v>>uint(i))&1 == 1
			bit := func(w bitmap1024.Bit64) bool { return (uint64(w)>>uint(i))&1 == 1 }
			if bit(and) != (x && y) {
				st.hit("Bit64.And", "algebra", fmt.Sprintf("bit %d of And", i))
			}
			if bit(or) != (x || y) {
				st.hit("Bit64.Or", "algebra", fmt.Sprintf("bit %d of Or", i))
			}
			if bit(rev) != !x {
				st.hit("Bit64.Reverse", "algebra", fmt.Sprintf("bit %d of Reverse", i))
			}
		}
		return fmt.Sprintf("and=%x or=%x rev=%x", uint64(and), uint64(or), uint64(rev))
	case f[0] == "iter64" && len(f) == 7:
		rev, ok1 := c08x.ParseDir(f[2])
		slen, ok2 := c08x.ParseInt(f[3], 0, maxSlice)
		pos, ok3 := c08x.ParseInt(f[4], -1<<62, 1<<62)
		add, ok4 := c08x.ParseInt(f[5], -1<<63, 1<<63-1)
		n, ok5 := c08x.ParseInt(f[6], -1<<62, 1<<62)
		if _, okw := widthNames[f[1]]; !okw || !ok1 || !ok2 || !ok3 || !ok4 || !ok5 || strings.HasPrefix(f[3], "-") {
			return "bad-op"
		}
		w := st.word
		ms := refMembers(st.refW[:])
		site := "Bit64." + methodName("IterAs", rev, f[1])
		switch f[1] + f[2] {
		case "i8f":
			return iterLine[int8](st, site, ms, rev, int(slen), int(pos), add, int(n), w.IterAsI8)
		case "i8r":
			return iterLine[int8](st, site, ms, rev, int(slen), int(pos), add, int(n), w.RIterAsI8)
		case "i16f":
			return iterLine[int16](st, site, ms, rev, int(slen), int(pos), add, int(n), w.IterAsI16)
		case "i16r":
			return iterLine[int16](st, site, ms, rev, int(slen), int(pos), add, int(n), w.RIterAsI16)
		case "i32f":
			return iterLine[int32](st, site, ms, rev, int(slen), int(pos), add, int(n), w.IterAsI32)
		case "i32r":
			return iterLine[int32](st, site, ms, rev, int(slen), int(pos), add, int(n), w.RIterAsI32)
		case "u32f":
			return iterLine[uint32](st, site, ms, rev, int(slen), int(pos), add, int(n), w.IterAsU32)
		case "u32r":
			return iterLine[uint32](st, site, ms, rev, int(slen), int(pos), add, int(n), w.RIterAsU32)
		case "i64f":
			return iterLine[int64](st, site, ms, rev, int(slen), int(pos), add, int(n), w.IterAsI64)
		case "i64r":
			return iterLine[int64](st, site, ms, rev, int(slen), int(pos), add, int(n), w.RIterAsI64)
		}
		return "bad-op"
	case f[0] == "getn64" && len(f) == 4:
		rev, ok1 := c08x.ParseDir(f[2])
		n, ok2 := c08x.ParseInt(f[3], -1<<62, maxSlice)
		if _, okw := widthNames[f[1]]; !okw || f[1] == "u32" || !ok1 || !ok2 {
			return "bad-op"
		}
		w := st.word
		ms := refMembers(st.refW[:])
		site := "Bit64." + methodName("GetNAs", rev, f[1])
		switch f[1] + f[2] {
		case "i8f":
			return getnLine[int8](st, site, ms, rev, int(n), w.GetNAsI8)
		case "i8r":
			return getnLine[int8](st, site, ms, rev, int(n), w.RGetNAsI8)
		case "i16f":
			return getnLine[int16](st, site, ms, rev, int(n), w.GetNAsI16)
		case "i16r":
			return getnLine[int16](st, site, ms, rev, int(n), w.RGetNAsI16)
		case "i32f":
			return getnLine[int32](st, site, ms, rev, int(n), w.GetNAsI32)
		case "i32r":
			return getnLine[int32](st, site, ms, rev, int(n), w.RGetNAsI32)
		case "i64f":
			return getnLine[int64](st, site, ms, rev, int(n), w.GetNAsI64)
		case "i64r":
			return getnLine[int64](st, site, ms, rev, int(n), w.RGetNAsI64)
		}
		return "bad-op"
	case f[0] == "load" && len(f) == 3:
		_, ref, ok := st.reg(f[1])
		m, ok2 := c08x.ParseMap(f[2])
		if !ok || !ok2 {
			return "bad-op"
		}
		if f[1] == "a" {
			st.a = m
		} else {
			st.b = m
		}
		for i := 0; i < 1024; i++ {
			ref[i] = (uint64(m[i/64])>>uint(i%64))&1 == 1
		}
		return "ok"
	case (f[0] == "seti32" || f[0] == "unseti32" || f[0] == "seti16" || f[0] == "unseti16") && len(f) == 3:
		b, ref, ok := st.reg(f[1])
		lo, hi := int64(-2147483648), int64(2147483647)
		if strings.HasSuffix(f[0], "16") {
			lo, hi = -32768, 32767
		}
		i, ok2 := c08x.ParseInt(f[2], lo, hi)
		if !ok || !ok2 {
			return "bad-op"
		}
		in := i >= 0 && i < 1024
		switch f[0] {
		case "seti32":
			b.SetI32(int32(i))
			if in {
				ref[i] = true
			}
			st.checkReg("Bit1024.SetI32", b, ref)
		case "unseti32":
			b.UnsetI32(int32(i))
			if in {
				ref[i] = false
			}
			st.checkReg("Bit1024.UnsetI32", b, ref)
		case "seti16":
			b.SetI16(int16(i))
			if in {
				ref[i] = true
			}
			st.checkReg("Bit1024.SetI16", b, ref)
		case "unseti16":
			b.UnsetI16(int16(i))
			if in {
				ref[i] = false
			}
			st.checkReg("Bit1024.UnsetI16", b, ref)
		}
		return "ok"
	case f[0] == "marshal-mutate" && len(f) == 2:
		// Marshal's result must be detached from the bitmap: overwrite every byte of the returned buffer and look at the
		// bitmap again — membership changes only through Set/Unset (and Unmarshal), never through a buffer handed out
		b, ref, ok := st.reg(f[1])
		if !ok {
			return "bad-op"
		}
		var buf []byte
		func() {
			defer func() { _ = recover() }()
			buf = b.Marshal()
		}()
		for i := range buf {
			buf[i] ^= 0xa5
		}
		saved := *ref
		st.checkReg("Bit1024.Marshal:aliases-receiver", b, ref)
		if setChanged(b, &saved) {
			// put the bitmap (and the reference, which checkReg resynchronised) back: one root cause, one report
			*ref = saved
			for i := 0; i < 1024; i++ {
				if ref[i] {
					b[i/64] |= 1 << uint(i%64)
				} else {
					b[i/64] &^= 1 << uint(i%64)
				}
			}
		}
		return c08x.ShowMap(b)
	case f[0] == "dump" && len(f) == 2:
		b, _, ok := st.reg(f[1])
		if !ok {
			return "bad-op"
		}
		return c08x.ShowMap(b)
	case f[0] == "len" && len(f) == 2:
		b, ref, ok := st.reg(f[1])
		if !ok {
			return "bad-op"
		}
		l, nl := b.Len(), b.NLen()
		cnt := len(refMembers(ref[:]))
		if l != cnt || nl != 1024-cnt {
			st.hit("Bit1024.Len", "count", fmt.Sprintf("Len=%d NLen=%d for a bitmap with %d members", l, nl, cnt))
		}
		return fmt.Sprintf("%d %d", l, nl)
	case (f[0] == "and" || f[0] == "or" || f[0] == "orrev") && len(f) == 1:
		var d bitmap1024.Bit1024
		var want [1024]bool
		var site string
		switch f[0] {
		case "and":
			d, site = st.a.And(st.b), "Bit1024.And"
		case "or":
			d, site = st.a.Or(st.b), "Bit1024.Or"
		default:
			d, site = st.a.OrThenReverse(st.b), "Bit1024.OrThenReverse"
		}
		for i := range want {
			switch f[0] {
			case "and":
				want[i] = st.refA[i] && st.refB[i]
			case "or":
				want[i] = st.refA[i] || st.refB[i]
			default:
				want[i] = !(st.refA[i] || st.refB[i])
			}
		}
		st.checkReg(site, d, &want)
		st.checkReg(site+":operand-a-changed", st.a, &st.refA)
		st.checkReg(site+":operand-b-changed", st.b, &st.refB)
		return c08x.ShowMap(d)
	case f[0] == "rev" && len(f) == 2:
		b, ref, ok := st.reg(f[1])
		if !ok {
			return "bad-op"
		}
		d := b.Reverse()
		var want [1024]bool
		for i := range want {
			want[i] = !ref[i]
		}
		st.checkReg("Bit1024.Reverse", d, &want)
		st.checkReg("Bit1024.Reverse:operand-changed", b, ref)
		return c08x.ShowMap(d)
	case f[0] == "eq" && len(f) == 1:
		e := st.a.Equal(st.b)
		e2 := st.b.Equal(st.a)
		// set-level expectation, computed from the boolean arrays only
		var onlyA, onlyB []int
		for i := 0; i < 1024; i++ {
			if st.refA[i] && !st.refB[i] {
				onlyA = append(onlyA, i)
			}
			if st.refB[i] && !st.refA[i] {
				onlyB = append(onlyB, i)
			}
		}
		want := len(onlyA) == 0 && len(onlyB) == 0
		if e != want || e2 != want {
			st.hit("Bit1024.Equal", "algebra", fmt.Sprintf("a.Equal(b)=%v b.Equal(a)=%v, yet the sets differ in: only in a %v, only in b %v (equal sets: %v)", e, e2, onlyA, onlyB, want))
		}
		return strconv.FormatBool(e)
	case f[0] == "iter" && len(f) == 8:
		b, ref, ok := st.reg(f[1])
		rev, ok1 := c08x.ParseDir(f[3])
		slen, ok2 := c08x.ParseInt(f[4], 0, maxSlice)
		pos, ok3 := c08x.ParseInt(f[5], -1<<62, 1<<62)
		add, ok4 := c08x.ParseInt(f[6], -1<<63, 1<<63-1)
		n, ok5 := c08x.ParseInt(f[7], -1<<62, 1<<62)
		if _, okw := widthNames[f[2]]; !ok || !okw || f[2] == "i8" || !ok1 || !ok2 || !ok3 || !ok4 || !ok5 || strings.HasPrefix(f[4], "-") {
			return "bad-op"
		}
		ms := refMembers(ref[:])
		site := "Bit1024." + methodName("IterAs", rev, f[2])
		switch f[2] + f[3] {
		case "i16f":
			return iterLine[int16](st, site, ms, rev, int(slen), int(pos), add, int(n), b.IterAsI16)
		case "i16r":
			return iterLine[int16](st, site, ms, rev, int(slen), int(pos), add, int(n), b.RIterAsI16)
		case "i32f":
			return iterLine[int32](st, site, ms, rev, int(slen), int(pos), add, int(n), b.IterAsI32)
		case "i32r":
			return iterLine[int32](st, site, ms, rev, int(slen), int(pos), add, int(n), b.RIterAsI32)
		case "u32f":
			return iterLine[uint32](st, site, ms, rev, int(slen), int(pos), add, int(n), b.IterAsU32)
		case "u32r":
			return iterLine[uint32](st, site, ms, rev, int(slen), int(pos), add, int(n), b.RIterAsU32)
		case "i64f":
			return iterLine[int64](st, site, ms, rev, int(slen), int(pos), add, int(n), b.IterAsI64)
		case "i64r":
			return iterLine[int64](st, site, ms, rev, int(slen), int(pos), add, int(n), b.RIterAsI64)
		}
		return "bad-op"
	case f[0] == "getn" && len(f) == 5:
		b, ref, ok := st.reg(f[1])
		rev, ok1 := c08x.ParseDir(f[3])
		n, ok2 := c08x.ParseInt(f[4], -1<<62, maxSlice)
		if _, okw := widthNames[f[2]]; !ok || !okw || f[2] == "i8" || f[2] == "u32" || !ok1 || !ok2 {
			return "bad-op"
		}
		ms := refMembers(ref[:])
		site := "Bit1024." + methodName("GetNAs", rev, f[2])
		switch f[2] + f[3] {
		case "i16f":
			return getnLine[int16](st, site, ms, rev, int(n), b.GetNAsI16)
		case "i16r":
			return getnLine[int16](st, site, ms, rev, int(n), b.RGetNAsI16)
		case "i32f":
			return getnLine[int32](st, site, ms, rev, int(n), b.GetNAsI32)
		case "i32r":
			return getnLine[int32](st, site, ms, rev, int(n), b.RGetNAsI32)
		case "i64f":
			return getnLine[int64](st, site, ms, rev, int(n), b.GetNAsI64)
		case "i64r":
			return getnLine[int64](st, site, ms, rev, int(n), b.RGetNAsI64)
		}
		return "bad-op"
	}
	return "bad-op"
}

func runCase(c corr.Case) (res corr.Result) {
	st := newState()
	defer c08x.SetMagic(int64(c08x.DefaultMagic))
	walk := strings.Contains(c.Tag, "walk")
	for _, l := range c.Lines {
		out := func() (o string) {
			defer func() {
				if r := recover(); r != nil {
					o = "panic"
					// iterators without room and GetN with a negative count handle their own (expected) panics inside the op;
					// a panic that escapes any operation is one of an API call on a valid input
					if f := strings.Fields(l); len(f) > 0 {
						st.hit("op:"+f[0], "panic", fmt.Sprintf("`%s` panicked: %v", l, r))
					}
				}
			}()
			return st.run(l)
		}()
		res.Outs = append(res.Outs, out)
		if walk {
			st.checkMaskTable() // after every operation of a walk
		}
	}
	// end of every script: earlier results still intact, process-wide mask table still intact
	st.recheckHeld()
	st.checkMaskTable()
	res.Hits = st.hits
	return res
}

// ---------------------------------------------------------------- generators

var widths64 = []string{"i8", "i16", "i32", "u32", "i64"}
var widths1024 = []string{"i16", "i32", "u32", "i64"}

func randWordWithCount(r *rng.R, k int) uint64 {
	if k >= 64 {
		return ^uint64(0)
	}
	var w uint64
	if k > 32 {
		w = ^uint64(0)
		for c := 64; c > k; {
			i := uint(r.Intn(64))
			if w&(1<<i) != 0 {
				w &^= 1 << i
				c--
			}
		}
		return w
	}
	for c := 0; c < k; {
		i := uint(r.Intn(64))
		if w&(1<<i) == 0 {
			w |= 1 << i
			c++
		}
	}
	return w
}

// genWord draws from the classes named in the property: empty, single bit, at/around the sparse threshold,
// dense, full, boundary bits 0/63, random.
func genWord(r *rng.R, magic int) (uint64, string) {
	switch r.Intn(12) {
	case 0:
		return 0, "empty"
	case 1:
		return 1 << uint(r.PickInt(0, 63, r.Intn(64))), "single"
	case 2:
		if magic >= 1 && magic <= 64 {
			return randWordWithCount(r, magic), "at-threshold"
		}
		return randWordWithCount(r, 9), "at-threshold"
	case 3:
		if magic >= 0 && magic < 64 {
			return randWordWithCount(r, magic+1), "above-threshold"
		}
		return randWordWithCount(r, 10), "above-threshold"
	case 4:
		return ^uint64(0), "full"
	case 5:
		return ^uint64(0) &^ (1 << uint(r.Intn(64))), "full-minus-one"
	case 6:
		return randWordWithCount(r, r.Range(2, 8)), "sparse"
	case 7:
		return randWordWithCount(r, r.Range(40, 63)), "dense"
	case 8:
		return 1<<63 | 1 | randWordWithCount(r, r.Range(0, 12)), "ends"
	case 9:
		return r.U64() & r.U64(), "random-quarter"
	default:
		return r.U64(), "random"
	}
}

func addFor(r *rng.R, wt string) int64 {
	var lo, hi int64
	switch wt {
	case "i8":
		lo, hi = -128, 127
	case "i16":
		lo, hi = -32768, 32767
	case "i32":
		lo, hi = -2147483648, 2147483647
	case "u32":
		lo, hi = 0, 4294967295
	default:
		lo, hi = -1<<63, 1<<63-1
	}
	switch r.Intn(8) {
	case 0:
		return 0
	case 1:
		return lo
	case 2:
		return hi
	case 3:
		return hi - int64(r.Intn(70)) // i+add wraps for some members only
	case 4:
		return lo + int64(r.Intn(70))
	case 5:
		if lo < 0 {
			return -int64(r.Intn(70))
		}
		return int64(r.Intn(70))
	case 6:
		return int64(r.Intn(2000))
	default:
		if wt == "i64" {
			return r.I64()
		}
		return lo + int64(r.U64()%uint64(hi-lo+1))
	}
}

func nFor(r *rng.R, l, max int) int {
	switch r.Intn(9) {
	case 0:
		return -1
	case 1:
		return 0
	case 2:
		return 1
	case 3:
		return l - 1
	case 4:
		return l
	case 5:
		return l + 1
	case 6:
		return max
	case 7:
		return 1000 + r.Intn(1000)
	default:
		return r.Intn(max + 2)
	}
}

// iterArgs chooses slice length and position: mostly exactly enough room, sometimes spare cells, rarely no room
// or a negative position (the precondition fails; implementation and model must then both panic or both not).
func iterArgs(r *rng.R, l, n int) (slen, pos int) {
	k := n
	if k < 0 {
		k = 0
	}
	if k > l {
		k = l
	}
	pos = r.PickInt(0, 0, 1, 3, r.Intn(6))
	slen = pos + k + r.PickInt(0, 0, 1, 2)
	switch r.Intn(14) {
	case 0:
		if k > 0 {
			slen = pos + k - 1 // one cell short
		}
	case 1:
		pos = -1 - r.Intn(2)
	case 2:
		slen = 0
	}
	return slen, pos
}

func popcount(w uint64) int { return len(c08x.Members64(w)) }

func pickMagic(r *rng.R) (int, bool) {
	switch r.Intn(7) {
	case 0:
		return -1, true
	case 1:
		return 0, true
	case 2:
		return 64, true
	case 3:
		return 9, true
	case 4:
		return r.Range(1, 63), true
	case 5:
		return r.PickInt(63, 65, 1000, -2147483648, 2147483647), true
	}
	return int(c08x.DefaultMagic), false
}

func genCase64(r *rng.R, tier string) corr.Case {
	lines := []string{"new"}
	magic, set := pickMagic(r)
	if set {
		lines = append(lines, "magic "+strconv.Itoa(magic))
	}
	w, cls := genWord(r, magic)
	lines = append(lines, fmt.Sprintf("w %x", w))
	// a few set/unset operations with in-range, boundary and out-of-range indices
	for k := r.Intn(4); k > 0; k-- {
		i := r.PickInt(0, 63, 64, 65, 127, 128, 255, r.Intn(64), r.Intn(256))
		op := r.Pick("set64", "unset64")
		lines = append(lines, fmt.Sprintf("%s %d", op, i))
		if i <= 63 {
			if op == "set64" {
				w |= 1 << uint(i)
			} else {
				w &^= 1 << uint(i)
			}
		}
	}
	lines = append(lines, "len64")
	if r.Chance(1, 2) {
		lines = append(lines, fmt.Sprintf("alg64 %x", uint64(r.PickI64(int64(r.U64()), 0, -1, int64(w), int64(^w)))))
	}
	l := popcount(w)
	rounds := 10
	if tier != "quick" {
		rounds = 16
	}
	for k := 0; k < rounds; k++ {
		wt := widths64[(k+r.Intn(2))%5]
		dir := r.Pick("f", "r")
		n := nFor(r, l, 64)
		if r.Chance(1, 5) && wt != "u32" {
			if n > 3000 {
				n = 3000
			}
			if r.Chance(1, 12) {
				n = r.PickInt(3001, 4095, 4096, 4097, 5000, 65535, 65536, 65537, 100000) // GetN allocates n cells: large counts too
			}
			lines = append(lines, fmt.Sprintf("getn64 %s %s %d", wt, dir, n))
			continue
		}
		slen, pos := iterArgs(r, l, n)
		lines = append(lines, fmt.Sprintf("iter64 %s %s %d %d %d %d", wt, dir, slen, pos, addFor(r, wt), n))
		if r.Chance(1, 4) {
			// the same call under another threshold, in the same script
			m2, _ := pickMagic(r)
			lines = append(lines, "magic "+strconv.Itoa(m2), fmt.Sprintf("iter64 %s %s %d %d %d %d", wt, dir, slen, pos, addFor(r, wt), n))
		}
	}
	return corr.Case{Tag: "word:" + cls, Lines: lines}
}

// genMap builds a 1024-bit map from member-count classes (0, 1, 63, 64, 65, 1024 …) or word patterns.
func genMap(r *rng.R) ([16]uint64, string) {
	var m [16]uint64
	setN := func(k int) {
		for c := 0; c < k; {
			i := r.Intn(1024)
			if m[i/64]&(1<<uint(i%64)) == 0 {
				m[i/64] |= 1 << uint(i%64)
				c++
			}
		}
	}
	switch r.Intn(12) {
	case 0:
		return m, "count-0"
	case 1:
		setN(1)
		return m, "count-1"
	case 2:
		setN(63)
		return m, "count-63"
	case 3:
		setN(64)
		return m, "count-64"
	case 4:
		setN(65)
		return m, "count-65"
	case 5:
		for i := range m {
			m[i] = ^uint64(0)
		}
		return m, "count-1024"
	case 6:
		for i := range m {
			m[i] = ^uint64(0)
		}
		for k := r.Range(1, 3); k > 0; k-- {
			i := r.Intn(1024)
			m[i/64] &^= 1 << uint(i%64)
		}
		return m, "nearly-full"
	case 7:
		// some words full, some empty, some at the sparse threshold
		for i := range m {
			switch r.Intn(4) {
			case 0:
				m[i] = ^uint64(0)
			case 1:
				m[i] = randWordWithCount(r, r.Range(8, 11))
			case 2:
				m[i] = r.U64()
			}
		}
		return m, "word-patterns"
	case 8:
		// only the first / last word, boundary bits
		m[0] = 1 | r.U64()&r.U64()
		m[15] = 1<<63 | r.U64()&r.U64()
		return m, "edge-words"
	case 9:
		setN(r.Range(2, 62))
		return m, "sparse"
	default:
		for i := range m {
			m[i] = r.U64()
			if r.Chance(1, 3) {
				m[i] &= r.U64()
			}
		}
		return m, "random"
	}
}

func showMapU(m [16]uint64) string {
	parts := make([]string, 16)
	for i, w := range m {
		parts[i] = strconv.FormatUint(w, 16)
	}
	return strings.Join(parts, ",")
}

func countMap(m [16]uint64) int {
	c := 0
	for _, w := range m {
		c += popcount(w)
	}
	return c
}

var setIdx32 = []int{0, 1, 63, 64, 65, 127, 128, 511, 512, 959, 960, 1022, 1023, 1024, 1025, 1087, 2047, -1, -2, -63, -64, -65, -1023, -1024,
	65536, 65536 + 5, 2147483647, -2147483648, 1 << 20, 4096}
var setIdx16 = []int{0, 1, 63, 64, 65, 127, 128, 511, 512, 959, 960, 1022, 1023, 1024, 1025, 1087, 2047, -1, -2, -63, -64, -65, -1023, -1024,
	32767, -32768, 4096}

func genCase1024(r *rng.R, tier string) corr.Case {
	lines := []string{"new"}
	magic, set := pickMagic(r)
	if set {
		lines = append(lines, "magic "+strconv.Itoa(magic))
	}
	ma, cls := genMap(r)
	mb, _ := genMap(r)
	if r.Chance(1, 6) {
		mb = ma
	}
	lines = append(lines, "load a "+showMapU(ma), "load b "+showMapU(mb))
	// mutate through the four setters, boundary and out-of-range indices included
	for k := r.Intn(8); k > 0; k-- {
		reg := r.Pick("a", "a", "b")
		tgt := &ma
		if reg == "b" {
			tgt = &mb
		}
		op := r.Pick("seti32", "unseti32", "seti16", "unseti16")
		var i int
		if strings.HasSuffix(op, "32") {
			i = r.PickInt(setIdx32[r.Intn(len(setIdx32))], r.Intn(1024), r.Range(-70, 1100))
		} else {
			i = r.PickInt(setIdx16[r.Intn(len(setIdx16))], r.Intn(1024), r.Range(-70, 1100))
		}
		lines = append(lines, fmt.Sprintf("%s %s %d", op, reg, i))
		if i >= 0 && i < 1024 {
			if strings.HasPrefix(op, "set") {
				tgt[i/64] |= 1 << uint(i%64)
			} else {
				tgt[i/64] &^= 1 << uint(i%64)
			}
		}
	}
	lines = append(lines, "dump a", "len a")
	if r.Chance(1, 4) {
		lines = append(lines, "marshal-mutate a", "len a")
	}
	if r.Chance(1, 2) {
		lines = append(lines, r.Pick("and", "or", "orrev", "eq", "rev a", "rev b", "dump b", "len b"))
		lines = append(lines, r.Pick("and", "or", "orrev", "eq", "rev a"))
	}
	l := countMap(ma)
	rounds := 8
	if tier != "quick" {
		rounds = 12
	}
	for k := 0; k < rounds; k++ {
		wt := widths1024[(k+r.Intn(2))%4]
		dir := r.Pick("f", "r")
		n := nFor(r, l, 1024)
		if r.Chance(1, 5) && wt != "u32" {
			if n > 3000 {
				n = 3000
			}
			if r.Chance(1, 12) {
				n = r.PickInt(3001, 4095, 4096, 4097, 5000, 65535, 65536, 65537, 100000) // GetN allocates n cells: large counts too
			}
			lines = append(lines, fmt.Sprintf("getn a %s %s %d", wt, dir, n))
			continue
		}
		slen, pos := iterArgs(r, l, n)
		lines = append(lines, fmt.Sprintf("iter a %s %s %d %d %d %d", wt, dir, slen, pos, addFor(r, wt), n))
	}
	return corr.Case{Tag: "map:" + cls, Lines: lines}
}

// genSetOnly: long set/unset histories from the empty map, checking membership after every step via dump.
func genCaseSets(r *rng.R) corr.Case {
	lines := []string{"new"}
	for k := r.Range(5, 40); k > 0; k-- {
		op := r.Pick("seti32", "seti32", "unseti32", "seti16", "seti16", "unseti16")
		var i int
		if strings.HasSuffix(op, "32") {
			i = r.PickInt(setIdx32[r.Intn(len(setIdx32))], r.Intn(1024), r.Intn(1024), r.Range(-130, 1160), int(int32(r.U64())))
		} else {
			i = r.PickInt(setIdx16[r.Intn(len(setIdx16))], r.Intn(1024), r.Intn(1024), r.Range(-130, 1160), int(int16(r.U64())))
		}
		lines = append(lines, fmt.Sprintf("%s a %d", op, i))
		if r.Chance(1, 4) {
			lines = append(lines, "dump a")
		}
	}
	lines = append(lines, "dump a", "len a", "getn a i16 f 1024", "getn a i32 r 1024")
	return corr.Case{Tag: "sets", Lines: lines}
}

// boundary positions for the algebra clause: bit 0 and bit 63 of each of the 16 words
func boundaryPos(r *rng.R) int {
	return 64*r.Intn(16) + r.PickInt(0, 63, 63, 62, 1, r.Intn(64))
}

// genCaseAlgebra: structured pairs for Equal/And/Or/Reverse/OrThenReverse/Len/NLen — b against itself, against itself
// with 1..3 bits flipped at word-boundary positions, with the same bit flipped in two different words (per-word
// differences that cancel when summed or xor-folded), with the same bit flipped in all 16 words, against its
// complement, and empty / full operands.
func genCaseAlgebra(r *rng.R) corr.Case {
	ma, _ := genMap(r)
	switch r.Intn(6) {
	case 0:
		ma = [16]uint64{}
	case 1:
		for i := range ma {
			ma[i] = ^uint64(0)
		}
	}
	mb := ma
	flip := func(p int) { mb[p/64] ^= 1 << uint(p%64) }
	var cls string
	switch r.Intn(10) {
	case 0:
		cls = "same"
	case 1:
		cls = "complement"
		for i := range mb {
			mb[i] = ^ma[i]
		}
	case 2:
		cls = "flip-1"
		flip(boundaryPos(r))
	case 3:
		cls = "flip-2"
		flip(boundaryPos(r))
		flip(boundaryPos(r))
	case 4:
		cls = "flip-3"
		flip(boundaryPos(r))
		flip(boundaryPos(r))
		flip(boundaryPos(r))
	case 5, 6:
		// the same bit in two different words: the two per-word differences are equal, so any fold of them
		// (sum, xor) that is not a plain OR can cancel
		cls = "same-bit-two-words"
		bit := r.PickInt(63, 63, 0, 62, r.Intn(64))
		i := r.Intn(16)
		j := (i + 1 + r.Intn(15)) % 16
		flip(64*i + bit)
		flip(64*j + bit)
	case 7:
		cls = "same-bit-all-words"
		bit := r.PickInt(63, 62, 61, 60, 59, 0, r.Intn(64))
		for i := 0; i < 16; i++ {
			flip(64*i + bit)
		}
	case 8:
		cls = "same-bit-2^k-words"
		bit := r.PickInt(63, 62, 61, 60)
		k := 1 << uint(64-bit) // 2, 4, 8 or 16 words: k * 2^bit = 2^64
		if k > 16 {
			k = 16
		}
		start := r.Intn(16)
		for i := 0; i < k; i++ {
			flip(64*((start+i)%16) + bit)
		}
	default:
		cls = "empty-vs-full"
		ma = [16]uint64{}
		for i := range mb {
			mb[i] = ^uint64(0)
		}
		if r.Bool() {
			ma, mb = mb, ma
		}
	}
	lines := []string{"new", "load a " + showMapU(ma), "load b " + showMapU(mb), "eq", "and", "or", "orrev", "rev a", "rev b", "len a", "len b"}
	if r.Chance(1, 2) {
		// reach the same pair through the setters as well, then compare again
		p := boundaryPos(r)
		lines = append(lines, fmt.Sprintf("%s b %d", r.Pick("seti32", "unseti32", "seti16", "unseti16"), p), "eq", "dump b", "len b")
	}
	if r.Chance(1, 3) {
		w := ma[r.Intn(16)]
		lines = append(lines, fmt.Sprintf("w %x", w), "len64", fmt.Sprintf("alg64 %x", mb[r.Intn(16)]), fmt.Sprintf("alg64 %x", ^w), fmt.Sprintf("alg64 %x", w))
	}
	return corr.Case{Tag: "algebra:" + cls, Lines: lines}
}

// permutation of 0…1023 used by the walk scripts (397 is odd, so i*397+off is a bijection modulo 1024)
func walkOrder(kind string, seed int) []int {
	out := make([]int, 1024)
	for i := range out {
		switch kind {
		case "asc":
			out[i] = i
		case "desc":
			out[i] = 1023 - i
		default:
			out[i] = (i*397 + seed) % 1024
		}
	}
	return out
}

// walkScript fills a register one member at a time until it is full, so that Len passes through every value 0…1024
// (membership of exactly that index changes at every step — monitor after each call, `len` after each call, the
// oracle sees the whole map every `dumpEvery` steps), then empties it again in another order.
func walkScript(fill, drain []int, dumpEvery int, mix func(k int) string) []string {
	lines := []string{"new"}
	for k, i := range fill {
		lines = append(lines, fmt.Sprintf("%s a %d", mix(k), i), "len a")
		if (k+1)%dumpEvery == 0 {
			lines = append(lines, "dump a")
		}
	}
	lines = append(lines, "dump a", "getn a i16 f 1024", "getn a i32 r 1025")
	for k, i := range drain {
		op := "unseti32"
		if k%2 == 1 {
			op = "unseti16"
		}
		lines = append(lines, fmt.Sprintf("%s a %d", op, i), "len a")
		if (k+1)%dumpEvery == 0 {
			lines = append(lines, "dump a")
		}
	}
	return append(lines, "dump a", "len a")
}

// genCaseWalk: a random-order walk of Len from 0 up to a random height (often all the way to 1024) and down again,
// with repeated and out-of-range indices mixed in.
func genCaseWalk(r *rng.R) corr.Case {
	perm := walkOrder("perm", r.Intn(1024))
	// shuffle blocks of the permutation so that orders differ between cases
	for i := len(perm) - 1; i > 0; i-- {
		j := r.Intn(i + 1)
		perm[i], perm[j] = perm[j], perm[i]
	}
	height := r.PickInt(1024, 1024, 1000, 1001, 900, 901, r.Range(1, 1024))
	lines := []string{"new"}
	for k := 0; k < height; k++ {
		op := r.Pick("seti32", "seti16")
		lines = append(lines, fmt.Sprintf("%s a %d", op, perm[k]))
		if r.Chance(1, 40) {
			lines = append(lines, fmt.Sprintf("%s a %d", op, r.PickInt(perm[r.Intn(k+1)], -1, -63, 1024, 1087, -1024)))
		}
		if r.Chance(1, 8) {
			lines = append(lines, "len a")
		}
		if r.Chance(1, 64) {
			lines = append(lines, "dump a")
		}
	}
	lines = append(lines, "dump a", "len a")
	down := r.PickInt(0, height, r.Intn(height+1))
	for k := 0; k < down; k++ {
		lines = append(lines, fmt.Sprintf("%s a %d", r.Pick("unseti32", "unseti16"), perm[height-1-k]))
		if r.Chance(1, 8) {
			lines = append(lines, "len a")
		}
	}
	lines = append(lines, "dump a", "len a")
	return corr.Case{Tag: "walk", Lines: lines}
}

func genMalformed(r *rng.R) corr.Case {
	bad := []string{"", "nope", "new 1", "magic", "magic x", "magic 99999999999", "w", "w xyz", "w 12345678901234567", "w FF", "set64 256", "set64 -1", "set64 a",
		"len64 1", "alg64", "alg64 zz", "iter64 i7 f 3 0 0 1", "iter64 i8 x 3 0 0 1", "iter64 i8 f -3 0 0 1", "iter64 i8 f 3 0 0", "iter64 i8 f 3 0 a 1",
		"getn64 u32 f 3", "getn64 i8 f", "getn64 i9 f 1", "load c 0,0,0,0,0,0,0,0,0,0,0,0,0,0,0,0", "load a 0,0,0", "load a 0,0,0,0,0,0,0,0,0,0,0,0,0,0,0,g",
		"seti32 a 2147483648", "seti16 a 32768", "seti16 a -32769", "seti32 c 1", "seti32 a", "dump", "dump c", "len", "len c", "and 1", "rev", "rev c", "eq 1",
		"iter a i8 f 3 0 0 1", "iter c i16 f 3 0 0 1", "iter a i16 f 3 0 0", "getn a u32 f 3", "getn a i8 f 3", "marshal-mutate", "marshal-mutate c", "getn a i16 q 3", "getn a i16 f x", "ITER64 i8 f 3 0 0 1"}
	lines := []string{"new"}
	for k := r.Range(3, 8); k > 0; k-- {
		if r.Chance(1, 3) {
			lines = append(lines, r.Pick("len64", "dump a", "w ff", "seti32 a 5", "len a"))
		} else {
			lines = append(lines, bad[r.Intn(len(bad))])
		}
	}
	return corr.Case{Tag: "malformed", Lines: lines}
}

func fixedCases() []corr.Case {
	var cs []corr.Case
	// every iterator × direction × threshold on the boundary words, all n classes
	wordsHex := []string{"0", "1", "8000000000000000", "8000000000000001", "ffffffffffffffff", "7fffffffffffffff", "fffffffffffffffe",
		"1ff", "3ff", "aaaaaaaaaaaaaaaa", "ff00000000000081"}
	for _, wh := range wordsHex {
		w, _ := strconv.ParseUint(wh, 16, 64)
		l := popcount(w)
		for _, m := range []int{-1, 0, 9, 64} {
			lines := []string{"new", fmt.Sprintf("magic %d", m), "w " + wh, "len64"}
			for _, wt := range widths64 {
				for _, d := range []string{"f", "r"} {
					for _, n := range []int{-1, 0, 1, l - 1, l, l + 1, 64, 1000} {
						k := n
						if k < 0 {
							k = 0
						}
						if k > l {
							k = l
						}
						lines = append(lines, fmt.Sprintf("iter64 %s %s %d 1 %d %d", wt, d, k+2, 100, n))
					}
					if wt != "u32" {
						lines = append(lines, fmt.Sprintf("getn64 %s %s %d", wt, d, l), fmt.Sprintf("getn64 %s %s 0", wt, d), fmt.Sprintf("getn64 %s %s -1", wt, d))
					}
				}
			}
			cs = append(cs, corr.Case{Tag: "fixed:word-boundaries", Lines: lines})
		}
	}
	// set/unset guards of the 64-bit layer: every byte value
	{
		lines := []string{"new"}
		for i := 0; i < 256; i++ {
			lines = append(lines, fmt.Sprintf("set64 %d", i))
		}
		for i := 255; i >= 0; i-- {
			lines = append(lines, fmt.Sprintf("unset64 %d", i))
		}
		cs = append(cs, corr.Case{Tag: "fixed:set64-all-bytes", Lines: lines})
	}
	// 1024 layer: every boundary index through the four setters
	{
		lines := []string{"new"}
		for _, i := range setIdx32 {
			lines = append(lines, fmt.Sprintf("seti32 a %d", i), "dump a")
		}
		for _, i := range setIdx16 {
			lines = append(lines, fmt.Sprintf("seti16 b %d", i), "dump b")
		}
		lines = append(lines, "eq", "and", "or", "orrev", "rev a", "len a", "len b")
		for _, i := range setIdx32 {
			lines = append(lines, fmt.Sprintf("unseti32 a %d", i))
		}
		for _, i := range setIdx16 {
			lines = append(lines, fmt.Sprintf("unseti16 b %d", i))
		}
		lines = append(lines, "dump a", "dump b", "eq")
		cs = append(cs, corr.Case{Tag: "fixed:set1024-boundaries", Lines: lines})
	}
	// all 1024 indices set one by one, then the full map iterated in every width and direction
	{
		lines := []string{"new"}
		for i := 0; i < 1024; i++ {
			lines = append(lines, fmt.Sprintf("seti16 a %d", i))
		}
		lines = append(lines, "dump a", "len a")
		for _, wt := range widths1024 {
			for _, d := range []string{"f", "r"} {
				for _, n := range []int{-1, 0, 1, 63, 64, 65, 1023, 1024, 1025} {
					k := n
					if k < 0 {
						k = 0
					}
					if k > 1024 {
						k = 1024
					}
					lines = append(lines, fmt.Sprintf("iter a %s %s %d 2 %d %d", wt, d, k+3, 7, n))
				}
			}
		}
		cs = append(cs, corr.Case{Tag: "fixed:full-map", Lines: lines})
	}
	// Len walks through every value 0…1024 and back: three fill orders (word 0 last, word 0 first, scattered)
	{
		alt := func(k int) string {
			if k%2 == 0 {
				return "seti32"
			}
			return "seti16"
		}
		cs = append(cs, corr.Case{Tag: "fixed:walk-descending", Lines: walkScript(walkOrder("desc", 0), walkOrder("perm", 5), 16, alt)})
		cs = append(cs, corr.Case{Tag: "fixed:walk-ascending", Lines: walkScript(walkOrder("asc", 0), walkOrder("desc", 0), 16, alt)})
		cs = append(cs, corr.Case{Tag: "fixed:walk-scattered", Lines: walkScript(walkOrder("perm", 11), walkOrder("asc", 0), 1, func(k int) string {
			if k%3 == 0 {
				return "seti16"
			}
			return "seti32"
		})})
	}
	// GetN with counts far beyond the number of members (it allocates n cells): every width, both layers
	{
		lines := []string{"new", "seti32 a 5", "w 8000000000000021"}
		for _, n := range []int{3001, 4096, 4097, 5000, 65536, 100000} {
			for _, wt := range []string{"i16", "i32", "i64"} {
				lines = append(lines, fmt.Sprintf("getn a %s f %d", wt, n), fmt.Sprintf("getn a %s r %d", wt, n))
			}
			for _, wt := range []string{"i8", "i16", "i32", "i64"} {
				lines = append(lines, fmt.Sprintf("getn64 %s f %d", wt, n), fmt.Sprintf("getn64 %s r %d", wt, n))
			}
		}
		lines = append(lines, "load a "+strings.TrimSuffix(strings.Repeat("ffffffffffffffff,", 16), ","), "getn a i32 f 5000", "getn a i16 r 100000", "getn a i64 f 4097")
		cs = append(cs, corr.Case{Tag: "fixed:getn-large-n", Lines: lines})
	}
	// Marshal's result is detached from the bitmap (both encodings, at the 63/64/65 boundary and full); earlier GetN
	// results survive later GetN calls of the same width on other words / maps
	{
		lines := []string{"new"}
		for _, k := range []int{0, 1, 63, 64, 65, 1024} {
			var m [16]uint64
			for i := 0; i < k; i++ {
				j := (i * 17) % 1024
				if k == 1024 {
					j = i
				}
				m[j/64] |= 1 << uint(j%64)
			}
			lines = append(lines, "load a "+showMapU(m), "marshal-mutate a", "dump a", "len a", "getn a i16 f 70")
		}
		for _, wt := range []string{"i8", "i16", "i32", "i64"} {
			lines = append(lines, "w ff", fmt.Sprintf("getn64 %s f 8", wt), "w ff00000000000000", fmt.Sprintf("getn64 %s f 8", wt), fmt.Sprintf("getn64 %s r 3", wt),
				"w 8000000000000001", fmt.Sprintf("getn64 %s r 64", wt))
		}
		for _, wt := range []string{"i16", "i32", "i64"} {
			lines = append(lines, "load a 3,0,0,0,0,0,0,0,0,0,0,0,0,0,0,0", fmt.Sprintf("getn a %s f 5", wt), "load b 0,0,0,0,0,0,0,0,0,0,0,0,0,0,0,c000000000000000",
				fmt.Sprintf("getn b %s f 5", wt), fmt.Sprintf("getn a %s r 5", wt))
		}
		cs = append(cs, corr.Case{Tag: "fixed:detached-results", Lines: lines})
	}
	// algebra on structured pairs: differences that cancel under a wrapping sum / xor fold, complements, empty / full
	{
		mk := func(ps ...int) string {
			var m [16]uint64
			for _, p := range ps {
				m[p/64] |= 1 << uint(p%64)
			}
			return showMapU(m)
		}
		ops := []string{"eq", "and", "or", "orrev", "rev a", "rev b", "len a", "len b"}
		pairs := [][2]string{
			{mk(63), mk(127)},                  // top bit of word 0 vs top bit of word 1
			{mk(5, 700), mk(5, 700, 255, 639)}, // b vs b plus the top bits of words 3 and 9
			{mk(), mk(63, 127)},
			{mk(0), mk(64)},
			{mk(), mk(0, 64, 128, 192, 256, 320, 384, 448, 512, 576, 640, 704, 768, 832, 896, 960)},
			{mk(), mk(63, 127, 191, 255, 319, 383, 447, 511, 575, 639, 703, 767, 831, 895, 959, 1023)},
			{mk(), mk(60, 124, 188, 252, 316, 380, 444, 508, 572, 636, 700, 764, 828, 892, 956, 1020)}, // 16 * 2^60 = 2^64
			{mk(), mk(62, 126, 190, 254)}, // 4 * 2^62 = 2^64
			{mk(1, 2, 3), mk(1, 2, 3)},
			{mk(), mk()},
			{mk(0), mk(1023)},
			{mk(1023), mk()},
		}
		full := strings.TrimSuffix(strings.Repeat("ffffffffffffffff,", 16), ",")
		pairs = append(pairs, [2]string{full, full}, [2]string{full, mk()}, [2]string{mk(), full},
			[2]string{full, "7fffffffffffffff,7fffffffffffffff,ffffffffffffffff,ffffffffffffffff,ffffffffffffffff,ffffffffffffffff,ffffffffffffffff,ffffffffffffffff,ffffffffffffffff,ffffffffffffffff,ffffffffffffffff,ffffffffffffffff,ffffffffffffffff,ffffffffffffffff,ffffffffffffffff,ffffffffffffffff"})
		for _, pr := range pairs {
			lines := append([]string{"new", "load a " + pr[0], "load b " + pr[1]}, ops...)
			cs = append(cs, corr.Case{Tag: "fixed:algebra-pairs", Lines: lines})
		}
	}
	return cs
}

// tOnly: the echo of the threshold read back through the hook is an internal observable
func tOnly(line string) bool { return strings.HasPrefix(line, "magic ") }

// probeAt: index of the last generated case of each tier (see Count), which is the API probe
var probeAt = map[string]int{"quick": 2599, "thorough": 29999, "search": 9999}

func spec() corr.Spec {
	return corr.Spec{
		Property: "C08",
		Fixed:    fixedCases,
		Count: func(tier string) int {
			switch tier {
			case "quick":
				return 2600
			case "thorough":
				return 30000
			}
			return 10000 // search: after a broken tie; small scripts, algebra / set classes favoured (see Gen)
		},
		Gen: func(r *rng.R, tier string, i int) corr.Case {
			if i == probeAt[tier] {
				// last case of the run: if a method damages shared state, nothing after it is affected
				return corr.Case{Tag: "api-probe", Lines: []string{"new", "probe-api"}}
			}
			if r.Chance(1, 40) {
				return genCaseWalk(r) // Len through (almost) every value, random order
			}
			if tier == "search" {
				// the widened search must stay fast: the cheap classes (algebra pairs, set histories, single words)
				// carry most of the weight, the expensive 1024-bit iterator scripts a small share
				switch x := r.Intn(20); {
				case x < 8:
					return genCaseAlgebra(r)
				case x < 12:
					return genCaseSets(r)
				case x < 18:
					return genCase64(r, "quick")
				default:
					return genCase1024(r, "quick")
				}
			}
			switch x := r.Intn(20); {
			case x < 9:
				return genCase64(r, tier)
			case x < 14:
				return genCase1024(r, tier)
			case x < 16:
				return genCaseSets(r)
			case x < 19:
				return genCaseAlgebra(r)
			default:
				return genMalformed(r)
			}
		},
		Run:   runCase,
		TOnly: tOnly,
		NonTrivial: func(c corr.Case, res corr.Result) bool {
			// at least one iterator call that wrote something, or a mutation of a bitmap
			for i, l := range c.Lines {
				if strings.HasPrefix(l, "iter") && strings.HasPrefix(res.Outs[i], "c=") && !strings.HasPrefix(res.Outs[i], "c=0 ") {
					return true
				}
				if strings.HasPrefix(l, "seti") || strings.HasPrefix(l, "unseti") || strings.HasPrefix(l, "set64") {
					return true
				}
				if l == "eq" && strings.HasPrefix(c.Tag, "algebra:") && c.Tag != "algebra:same" {
					return true
				}
			}
			return false
		},
		Classify: func(c corr.Case, line int, want, got string) string {
			f := strings.Fields(c.Lines[line])
			if len(f) == 0 {
				return "C08:corr:empty-line"
			}
			switch f[0] {
			case "iter64", "getn64":
				if len(f) > 2 {
					return "C08:corr:" + f[0] + ":" + f[1] + ":" + f[2]
				}
			case "iter", "getn":
				if len(f) > 3 {
					return "C08:corr:" + f[0] + ":" + f[2] + ":" + f[3]
				}
			}
			return "C08:corr:" + f[0]
		},
		Rule: "scripts over one 64-bit word (classes: empty, single bit, at / just above the sparse threshold, sparse, dense, full, full-1, end bits, random) and two 1024-bit registers (member counts 0,1,63,64,65,1024, nearly full, word patterns, random); every script fixes a sparse threshold (-1, 0, 9, 64, random, int32 extremes) through the hook; iterator calls cover 5 widths x 2 directions, n in {-1,0,1,l-1,l,l+1,max,>1000,random}, add at the width's extremes, pos 0..5, slices with exact room, spare cells, one cell short, negative pos; set/unset with boundary and out-of-range indices; algebra on structured pairs (b vs b, vs complement, vs b with 1..3 bits flipped at bit 0/63 of any word, the same bit flipped in two / 2^k / all 16 words, empty / full; Len walks 0…1024…0 one member at a time in descending / ascending / scattered / random order with Len checked at every step; GetN with n up to 100000) through Equal (both orders), And, Or, Reverse, OrThenReverse, Len, NLen; a case is non-trivial when an iterator wrote at least one value or a bitmap was mutated; distinct = distinct script text",
		Assumptions: []string{
			"slices are shorter than 2^63 (cursor arithmetic modelled in unbounded Int)",
			"Bit1024 values have 16 words (NewBit1024 / Reverse / And / Or all allocate L16 words); shorter slices built by hand are outside the model",
			"GetN* with a negative n panics in make (outside the property, exhibited as `panic` on both sides); n is kept <= 100000 in scripts",
		},
		Trusted: []string{
			"math/bits (OnesCount64, TrailingZeros64, Len64) modelled in Lean as popcount / lowest / highest set bit, validated by the correspondence only",
			"go2lean Subst: `u64Tab[i]` = `1#64 <<< i.toNat` (table filled by init(): fact tabInit; validated by set64/unset64 over all 256 byte values and by every iterator run)",
			"hooks bitmap1024.VerifSetSparseMagic / VerifSparseMagic (build tag verif) only forward to internal.SetSparseMagic / read the atomic",
		},
	}
}
