// Command c03: extractor and correspondence runner for property C03
// (ds/tree/btree: ordered-set equivalence, bounded range scans, clone isolation; ds/tree wrapper).
package main

import (
	"fmt"
	"os"

	"nvharness/lib/corr"
	_ "nvharness/lib/quiet"
)

func main() {
	if len(os.Args) < 2 {
		fmt.Fprintln(os.Stderr, "usage: c03 extract <repo> <leanDir> | corr …")
		os.Exit(2)
	}
	switch os.Args[1] {
	case "extract":
		if len(os.Args) < 4 {
			os.Exit(2)
		}
		extract(os.Args[2], os.Args[3])
	case "corr":
		corr.Main(spec(), os.Args[2:])
	case "worker":
		workerMain()
	default:
		os.Exit(2)
	}
}
