package main

import (
	"fmt"
	"go/ast"
	"os"
	"path/filepath"
	"regexp"
	"strconv"
	"strings"

	"nvharness/lib/gofacts"
)

// scanTuple is the argument tuple a scan method passes to (*node).iterate, classified.
type scanTuple struct {
	dir, start, stop string
	incl, hit        bool
	guard            bool // body is exactly `if t.root == nil { return } t.root.iterate(…)`
}

func (s scanTuple) lean() string {
	return fmt.Sprintf("⟨.%s, .%s, .%s, %s, %s⟩", s.dir, s.start, s.stop, gofacts.LeanBool(s.incl), gofacts.LeanBool(s.hit))
}

func (s scanTuple) String() string {
	return fmt.Sprintf("(%s,%s,%s,%v,%v)", s.dir, s.start, s.stop, s.incl, s.hit)
}

var unknownTuple = scanTuple{dir: "unknown", start: "unknown", stop: "unknown"}

var iterCall = regexp.MustCompile(`^\{ if t\.root == nil \{ return \} t\.root\.iterate\((\w+), (\w+), (\w+), (\w+), (\w+), (\w+)\) \}$`)

func paramNames(fd *ast.FuncDecl) []string {
	var out []string
	if fd == nil || fd.Type.Params == nil {
		return out
	}
	for _, f := range fd.Type.Params.List {
		for _, n := range f.Names {
			out = append(out, n.Name)
		}
	}
	return out
}

// classifyScan reads one scan method of *btree.BTree. Anything not recognised gives the `unknown` tuple.
func classifyScan(f *gofacts.File, name string) scanTuple {
	fd := f.Func("BTree", name)
	if fd == nil || fd.Body == nil {
		return unknownTuple
	}
	m := iterCall.FindStringSubmatch(f.Src(fd.Body))
	if m == nil {
		return unknownTuple
	}
	ps := paramNames(fd)
	if len(ps) == 0 || m[6] != ps[len(ps)-1] {
		return unknownTuple
	}
	items := ps[:len(ps)-1] // item parameters, the last parameter is the iterator
	arg := func(s string) string {
		switch {
		case s == "nil":
			return "nil"
		case len(items) >= 1 && s == items[0]:
			return "pivot"
		case len(items) >= 2 && s == items[1]:
			return "pivot2"
		}
		return "unknown"
	}
	t := scanTuple{guard: true}
	switch m[1] {
	case "ascend":
		t.dir = "asc"
	case "descend":
		t.dir = "desc"
	default:
		return unknownTuple
	}
	t.start, t.stop = arg(m[2]), arg(m[3])
	if (m[4] != "true" && m[4] != "false") || (m[5] != "true" && m[5] != "false") {
		return unknownTuple
	}
	t.incl, t.hit = m[4] == "true", m[5] == "true"
	return t
}

func extract(repo, leanDir string) {
	bt := gofacts.MustLoad(repo, "ds/tree/btree/btree.go")
	ext := gofacts.MustLoad(repo, "ds/tree/btree/btree_ext.go")
	wr := gofacts.MustLoad(repo, "ds/tree/btree.go")

	scanOf := func(name string) scanTuple {
		// the two added scans live in btree_ext.go; accept either file (a move is harmless)
		if ext.Func("BTree", name) != nil {
			return classifyScan(ext, name)
		}
		return classifyScan(bt, name)
	}
	ascGe, ascGt := scanOf("AscendGreaterOrEqual"), scanOf("AscendGreater")
	descLe, descLt := scanOf("DescendLessOrEqual"), scanOf("DescendLess")

	other := map[string]scanTuple{
		"Ascend":             {dir: "asc", start: "nil", stop: "nil", guard: true},
		"AscendRange":        {dir: "asc", start: "pivot", stop: "pivot2", incl: true, guard: true},
		"AscendLessThan":     {dir: "asc", start: "nil", stop: "pivot", guard: true},
		"Descend":            {dir: "desc", start: "nil", stop: "nil", guard: true},
		"DescendRange":       {dir: "desc", start: "pivot", stop: "pivot2", incl: true, guard: true},
		"DescendGreaterThan": {dir: "desc", start: "nil", stop: "pivot", guard: true},
	}
	otherScans := true
	for name, want := range other {
		if scanOf(name) != want {
			otherScans = false
		}
	}
	rootNilGuard := ascGe.guard && ascGt.guard && descLe.guard && descLt.guard && otherScans

	maxItemsExpr := bt.Body("BTree", "maxItems") == "{ return t.degree*2 - 1 }"
	minItemsExpr := bt.Body("BTree", "minItems") == "{ return t.degree - 1 }"
	msc := bt.Body("node", "maybeSplitChild")
	roi := bt.Body("BTree", "ReplaceOrInsert")
	splitHalf := gofacts.Has(msc, "item, second := first.split(maxItems / 2)") &&
		gofacts.Has(roi, "item2, second := t.root.split(t.maxItems() / 2)")
	splitGuards := strings.HasPrefix(msc, "{ if len(n.children[i].items) < maxItems { return false } first := n.mutableChild(i)") &&
		gofacts.Has(roi, "t.root = t.root.mutableFor(t.cow) if len(t.root.items) >= t.maxItems() {") &&
		gofacts.Has(roi, "out := t.root.insert(item, t.maxItems()) if out == nil { t.length++ } return out }")
	rem := bt.Body("node", "remove")
	growGuard := gofacts.Has(rem, "if len(n.children[i].items) <= minItems { return n.growChildAndRemove(i, item, minItems, typ) } child := n.mutableChild(i)")
	gr := bt.Body("node", "growChildAndRemove")
	stealGuards := strings.HasPrefix(gr, "{ if i > 0 && len(n.children[i-1].items) > minItems {") &&
		gofacts.Has(gr, "} else if i < len(n.items) && len(n.children[i+1].items) > minItems {") &&
		gofacts.Has(gr, "} else { if i >= len(n.items) { i-- } child := n.mutableChild(i)") &&
		strings.HasSuffix(gr, "return n.remove(item, minItems, typ) }")

	// wrapper
	wmap := func(method, target string) bool {
		return wr.Body("BTree", method) == "{ return b.iterWalk(k, b.t."+target+", filter, n) }"
	}
	wrapperScanMap := wmap("AscendGte", "AscendGreaterOrEqual") && wmap("AscendGt", "AscendGreater") &&
		wmap("DescendLte", "DescendLessOrEqual") && wmap("DescendLt", "DescendLess")
	wlock := func(method string) bool {
		return strings.HasPrefix(wr.Body("BTree", method), "{ b.rw.Lock() defer b.rw.Unlock() ")
	}
	wrapperWriteLocks := wlock("Insert") && wlock("Update") && wlock("UpdateOrInsert") && wlock("Delete") &&
		wr.Body("BTree", "Insert") == "{ b.rw.Lock() defer b.rw.Unlock() b.t.ReplaceOrInsert(v) }" &&
		wr.Body("BTree", "Delete") == "{ b.rw.Lock() defer b.rw.Unlock() var e = b.t.Delete(k) return e != nil }"
	walk := wr.Body("BTree", "iterWalk")
	wrapperReadLocks := wr.Body("BTree", "Get") == "{ b.rw.RLock() defer b.rw.RUnlock() return b.t.Get(k) }" &&
		strings.HasSuffix(walk, "b.rw.RLock() defer b.rw.RUnlock() iterFn(k, fn) return ns }")
	updateBody := wr.Body("BTree", "Update") ==
		"{ b.rw.Lock() defer b.rw.Unlock() var e = b.t.Delete(oldV) if e == nil { return false } b.t.ReplaceOrInsert(newV) return true }"
	upsertBody := wr.Body("BTree", "UpdateOrInsert") ==
		"{ b.rw.Lock() defer b.rw.Unlock() var e = b.t.Delete(oldV) b.t.ReplaceOrInsert(newV) return e != nil }"

	// iterWalk: the limit comparison is a parameter of the model; the rest of the body is a fact
	limitCmp := "unknown"
	walkRe := regexp.MustCompile(`^\{ if n == 0 \{ return nil \} var ns = make\(\[\]Node, 0, n\) var c = 0 var fn = func\(v Node\) bool \{ if c (>=|==|>) n \{ return false \} if filter\(v\) \{ ns = append\(ns, v\) c\+\+ \} return true \} b\.rw\.RLock\(\) defer b\.rw\.RUnlock\(\) iterFn\(k, fn\) return ns \}$`)
	walkBody := false
	if m := walkRe.FindStringSubmatch(walk); m != nil {
		walkBody = true
		limitCmp = map[string]string{">=": "ge", "==": "eq", ">": "gt"}[m[1]]
	}
	wrapperDegree := 0
	if m := regexp.MustCompile(`b\.t = btree\.New\((\d+)\)`).FindStringSubmatch(wr.Body("", "NewBTree")); m != nil {
		wrapperDegree, _ = strconv.Atoi(m[1])
	}

	cloneFreshCows := bt.Body("BTree", "Clone") == "{ cow1, cow2 := *t.cow, *t.cow out := *t t.cow = &cow1 out.cow = &cow2 return &out }"
	cowGuards := strings.HasPrefix(bt.Body("node", "mutableFor"), "{ if n.cow == cow { return n } out := cow.newNode()") &&
		strings.HasPrefix(bt.Body("copyOnWriteContext", "freeNode"), "{ if n.cow == c { n.items.truncate(0) n.children.truncate(0) n.cow = nil") &&
		bt.Body("node", "mutableChild") == "{ c := n.children[i].mutableFor(n.cow) n.children[i] = c return c }" &&
		bt.Body("copyOnWriteContext", "newNode") == "{ n = c.freelist.newNode() n.cow = c return }"

	facts := []bool{maxItemsExpr, minItemsExpr, splitHalf, splitGuards, growGuard, stealGuards, otherScans, rootNilGuard,
		wrapperScanMap, wrapperWriteLocks, wrapperReadLocks, updateBody, upsertBody, walkBody, cloneFreshCows, cowGuards}
	var fs []string
	for _, b := range facts {
		fs = append(fs, gofacts.LeanBool(b))
	}
	out := fmt.Sprintf(`import Nv.Model.C03
set_option linter.unusedVariables false
/-! GENERATED by `+"`c03 extract`"+` from ds/tree/btree/btree.go, ds/tree/btree/btree_ext.go, ds/tree/btree.go — do not edit. -/
namespace Nv.Gen.C03
open Nv.C03
def cfg : Cfg := ⟨%s, %s, %s, %s, .%s, %d⟩
def facts : Facts := ⟨%s⟩
end Nv.Gen.C03
`, ascGe.lean(), ascGt.lean(), descLe.lean(), descLt.lean(), limitCmp, wrapperDegree, strings.Join(fs, ", "))
	if err := gofacts.WriteIfChanged(filepath.Join(leanDir, "Nv/Gen/C03.lean"), out); err != nil {
		fmt.Fprintln(os.Stderr, err)
		os.Exit(2)
	}
	fmt.Printf("extract C03: ascGe=%v ascGt=%v descLe=%v descLt=%v limitCmp=%s wrapperDegree=%d facts=%v\n",
		ascGe, ascGt, descLe, descLt, limitCmp, wrapperDegree, facts)
}
