package main

import (
	"crypto/sha1"
	"fmt"
	"go/ast"
	"os"
	"path/filepath"
	"regexp"
	"sort"
	"strconv"
	"strings"

	"nvharness/lib/gofacts"
)

// scanTuple is the argument tuple a scan method passes to (*node).iterate, classified.
type scanTuple struct {
	dir, start, stop string
	incl, hit        bool
	guard            bool // body is exactly `if t.root == nil { return } t.root.iterate(…)`
}

func (s scanTuple) lean() string {
	return fmt.Sprintf("⟨.%s, .%s, .%s, %s, %s⟩", s.dir, s.start, s.stop, gofacts.LeanBool(s.incl), gofacts.LeanBool(s.hit))
}

func (s scanTuple) String() string {
	return fmt.Sprintf("(%s,%s,%s,%v,%v)", s.dir, s.start, s.stop, s.incl, s.hit)
}

var unknownTuple = scanTuple{dir: "unknown", start: "unknown", stop: "unknown"}

var iterCall = regexp.MustCompile(`^\{ if t\.root == nil \{ return \} t\.root\.iterate\((\w+), (\w+), (\w+), (\w+), (\w+), (\w+)\) \}$`)

func paramNames(fd *ast.FuncDecl) []string {
	var out []string
	if fd == nil || fd.Type.Params == nil {
		return out
	}
	for _, f := range fd.Type.Params.List {
		for _, n := range f.Names {
			out = append(out, n.Name)
		}
	}
	return out
}

// classifyScan reads one scan method of *btree.BTree. Anything not recognised gives the `unknown` tuple.
func classifyScan(f *gofacts.File, name string) scanTuple {
	fd := f.Func("BTree", name)
	if fd == nil || fd.Body == nil {
		return unknownTuple
	}
	m := iterCall.FindStringSubmatch(f.Src(fd.Body))
	if m == nil {
		return unknownTuple
	}
	ps := paramNames(fd)
	if len(ps) == 0 || m[6] != ps[len(ps)-1] {
		return unknownTuple
	}
	items := ps[:len(ps)-1] // item parameters, the last parameter is the iterator
	arg := func(s string) string {
		switch {
		case s == "nil":
			return "nil"
		case len(items) >= 1 && s == items[0]:
			return "pivot"
		case len(items) >= 2 && s == items[1]:
			return "pivot2"
		}
		return "unknown"
	}
	t := scanTuple{guard: true}
	switch m[1] {
	case "ascend":
		t.dir = "asc"
	case "descend":
		t.dir = "desc"
	default:
		return unknownTuple
	}
	t.start, t.stop = arg(m[2]), arg(m[3])
	if (m[4] != "true" && m[4] != "false") || (m[5] != "true" && m[5] != "false") {
		return unknownTuple
	}
	t.incl, t.hit = m[4] == "true", m[5] == "true"
	return t
}

// canonical-text hashes (gofacts.Canon: locals renamed, `var x = e` ≡ `x := e`, white space collapsed; sha1, 12 hex
// digits) of every function the hand-written model mirrors, as they are in the tree the model was written against.
// A renamed local does not change them; any inserted, removed or changed statement does.
var coreHash = map[string]string{
	".New": "fbefecb9e685", ".NewFreeList": "d6a7f82fc7bd", ".NewWithFreeList": "0238af3d4420", ".max": "af2b31a07c45", ".min": "7d88fc1f7404",
	"BTree.Clear": "a67ad82dd8d1", "BTree.Clone": "5f97fa64fc46", "BTree.Delete": "83969a86ca76", "BTree.DeleteMax": "757a131048a4",
	"BTree.DeleteMin": "3d0da29cae8a", "BTree.Get": "6a868d7b4eb2", "BTree.Has": "5398602edfb3", "BTree.Len": "796f4fae1f30",
	"BTree.Max": "b1512682e3a4", "BTree.Min": "8d994e32d588", "BTree.ReplaceOrInsert": "e84eb7eceb1a", "BTree.deleteItem": "3765502e5608",
	"BTree.maxItems": "127ff6da923c", "BTree.minItems": "15e4fe6a7968", "FreeList.freeNode": "07fa1138af39", "FreeList.newNode": "3b00f5d4b2c3",
	"children.insertAt": "d5f50b76e710", "children.pop": "ed8b213fa5ac", "children.removeAt": "c53ea987ab0f", "children.truncate": "ef7e6ed1a5f4",
	"copyOnWriteContext.freeNode": "02ebc3e561bf", "copyOnWriteContext.newNode": "b60a1a27090a", "items.find": "1cbb98ac4b29",
	"items.insertAt": "aff62ea157bc", "items.pop": "4b06a4b589bb", "items.removeAt": "28563bdecd90", "items.truncate": "746d9fabd600",
	"node.get": "302621d1e2d1", "node.growChildAndRemove": "6203868315ba", "node.insert": "ef5ceb1cf711", "node.iterate": "2e45fcce796a",
	"node.maybeSplitChild": "e1482b94c427", "node.mutableChild": "1ffb9fd8c272", "node.mutableFor": "c6eaea2acf95", "node.remove": "c0c38631a611",
	"node.reset": "71fe25add3a5", "node.split": "a5efb4c4a001",
}

var wrapperHash = map[string]string{
	".NewBTree": "630783cac848", "BTree.AscendGt": "496d9c679d05", "BTree.AscendGte": "00b215e5a575", "BTree.Delete": "ba4e81d907b6",
	"BTree.DescendLt": "744faff8c4de", "BTree.DescendLte": "9bc229133f79", "BTree.Get": "0f83915c863f", "BTree.Insert": "d652f7dbba06",
	"BTree.Update": "26f06674f999", "BTree.UpdateOrInsert": "303a21ed656f",
}

var coreGroups = []struct {
	name string
	fns  []string
}{
	{"bodyIterate", []string{"node.iterate"}},
	{"bodyFind", []string{"items.find"}},
	{"bodySlices", []string{"items.insertAt", "items.removeAt", "items.pop", "items.truncate", "children.insertAt", "children.removeAt", "children.pop", "children.truncate", "node.split"}},
	{"bodyInsert", []string{"node.insert", "node.maybeSplitChild", "BTree.ReplaceOrInsert"}},
	{"bodyRemove", []string{"node.remove", "node.growChildAndRemove", "BTree.deleteItem", "BTree.Delete", "BTree.DeleteMin", "BTree.DeleteMax"}},
	{"bodyLookup", []string{"node.get", ".min", ".max", "BTree.Get", "BTree.Min", "BTree.Max", "BTree.Has", "BTree.Len", "BTree.maxItems", "BTree.minItems"}},
	{"bodyCow", []string{"BTree.Clone", "node.mutableFor", "node.mutableChild", "copyOnWriteContext.newNode", "copyOnWriteContext.freeNode",
		"FreeList.newNode", "FreeList.freeNode", ".NewFreeList", ".New", ".NewWithFreeList", "BTree.Clear", "node.reset"}},
}

// funcNames lists the functions of a file as `Recv.Name` (`.Name` for plain functions).
func funcNames(f *gofacts.File) []string {
	var out []string
	for _, d := range f.AST.Decls {
		fd, ok := d.(*ast.FuncDecl)
		if !ok {
			continue
		}
		recv := ""
		if fd.Recv != nil && len(fd.Recv.List) > 0 {
			t := fd.Recv.List[0].Type
			if st, ok := t.(*ast.StarExpr); ok {
				t = st.X
			}
			if id, ok := t.(*ast.Ident); ok {
				recv = id.Name
			}
		}
		out = append(out, recv+"."+fd.Name.Name)
	}
	return out
}

func canonHash(f *gofacts.File, qual string) string {
	i := strings.Index(qual, ".")
	fd := f.Func(qual[:i], qual[i+1:])
	if fd == nil {
		return "missing"
	}
	return fmt.Sprintf("%x", sha1.Sum([]byte(f.Canon(fd))))[:12]
}

// the two recognised shapes of (*tree.BTree).iterWalk, in canonical text; %s = the limit comparison
const walkEager = "func ( v1 * BTree ) iterWalk ( v2 Node , v3 _gBtreeIterWrap , v4 FilterFn , v5 int ) [ ] Node { if v5 == 0 { return nil ; } ; v6 := make ( [ ] Node , 0 , v5 ) ; v7 := 0 ; v8 := func ( v9 Node ) bool { if v7 %s v5 { return false ; } ; if v4 ( v9 ) { v6 = append ( v6 , v9 ) ; v7 ++ ; } ; return true ; } ; v1 . rw . RLock ( ) ; defer v1 . rw . RUnlock ( ) ; v3 ( v2 , v8 ) ; return v6 ; } ;"
const walkCapped = "func ( v1 * BTree ) iterWalk ( v2 Node , v3 _gBtreeIterWrap , v4 FilterFn , v5 int ) [ ] Node { if v5 == 0 { return nil ; } ; v1 . rw . RLock ( ) ; defer v1 . rw . RUnlock ( ) ; v6 := v5 ; if v7 := v1 . t . Len ( ) ; v7 < v6 { v6 = v7 ; } ; v8 := make ( [ ] Node , 0 , v6 ) ; v9 := 0 ; v10 := func ( v11 Node ) bool { if v9 %s v5 { return false ; } ; if v4 ( v11 ) { v8 = append ( v8 , v11 ) ; v9 ++ ; } ; return true ; } ; v3 ( v2 , v10 ) ; return v8 ; } ;"

func extract(repo, leanDir string) {
	bt := gofacts.MustLoad(repo, "ds/tree/btree/btree.go")
	ext := gofacts.MustLoad(repo, "ds/tree/btree/btree_ext.go")
	wr := gofacts.MustLoad(repo, "ds/tree/btree.go")

	scanOf := func(name string) scanTuple {
		// the two added scans live in btree_ext.go; accept either file (a move is harmless)
		if ext.Func("BTree", name) != nil {
			return classifyScan(ext, name)
		}
		return classifyScan(bt, name)
	}
	ascGe, ascGt := scanOf("AscendGreaterOrEqual"), scanOf("AscendGreater")
	descLe, descLt := scanOf("DescendLessOrEqual"), scanOf("DescendLess")

	other := map[string]scanTuple{
		"Ascend":             {dir: "asc", start: "nil", stop: "nil", guard: true},
		"AscendRange":        {dir: "asc", start: "pivot", stop: "pivot2", incl: true, guard: true},
		"AscendLessThan":     {dir: "asc", start: "nil", stop: "pivot", guard: true},
		"Descend":            {dir: "desc", start: "nil", stop: "nil", guard: true},
		"DescendRange":       {dir: "desc", start: "pivot", stop: "pivot2", incl: true, guard: true},
		"DescendGreaterThan": {dir: "desc", start: "nil", stop: "pivot", guard: true},
	}
	otherScans := true
	for name, want := range other {
		if scanOf(name) != want {
			otherScans = false
		}
	}
	rootNilGuard := ascGe.guard && ascGt.guard && descLe.guard && descLt.guard && otherScans

	maxItemsExpr := bt.Body("BTree", "maxItems") == "{ return t.degree*2 - 1 }"
	minItemsExpr := bt.Body("BTree", "minItems") == "{ return t.degree - 1 }"
	msc := bt.Body("node", "maybeSplitChild")
	roi := bt.Body("BTree", "ReplaceOrInsert")
	splitHalf := gofacts.Has(msc, "item, second := first.split(maxItems / 2)") &&
		gofacts.Has(roi, "item2, second := t.root.split(t.maxItems() / 2)")
	splitGuards := strings.HasPrefix(msc, "{ if len(n.children[i].items) < maxItems { return false } first := n.mutableChild(i)") &&
		gofacts.Has(roi, "t.root = t.root.mutableFor(t.cow) if len(t.root.items) >= t.maxItems() {") &&
		gofacts.Has(roi, "out := t.root.insert(item, t.maxItems()) if out == nil { t.length++ } return out }")
	rem := bt.Body("node", "remove")
	growGuard := gofacts.Has(rem, "if len(n.children[i].items) <= minItems { return n.growChildAndRemove(i, item, minItems, typ) } child := n.mutableChild(i)")
	gr := bt.Body("node", "growChildAndRemove")
	stealGuards := strings.HasPrefix(gr, "{ if i > 0 && len(n.children[i-1].items) > minItems {") &&
		gofacts.Has(gr, "} else if i < len(n.items) && len(n.children[i+1].items) > minItems {") &&
		gofacts.Has(gr, "} else { if i >= len(n.items) { i-- } child := n.mutableChild(i)") &&
		strings.HasSuffix(gr, "return n.remove(item, minItems, typ) }")

	// wrapper
	wmap := func(method, target string) bool {
		return wr.Body("BTree", method) == "{ return b.iterWalk(k, b.t."+target+", filter, n) }"
	}
	wrapperScanMap := wmap("AscendGte", "AscendGreaterOrEqual") && wmap("AscendGt", "AscendGreater") &&
		wmap("DescendLte", "DescendLessOrEqual") && wmap("DescendLt", "DescendLess")
	wlock := func(method string) bool {
		return strings.HasPrefix(wr.Body("BTree", method), "{ b.rw.Lock() defer b.rw.Unlock() ")
	}
	wrapperWriteLocks := wlock("Insert") && wlock("Update") && wlock("UpdateOrInsert") && wlock("Delete") &&
		wr.Body("BTree", "Insert") == "{ b.rw.Lock() defer b.rw.Unlock() b.t.ReplaceOrInsert(v) }" &&
		wr.Body("BTree", "Delete") == "{ b.rw.Lock() defer b.rw.Unlock() var e = b.t.Delete(k) return e != nil }"
	walk := wr.Body("BTree", "iterWalk")
	wrapperReadLocks := wr.Body("BTree", "Get") == "{ b.rw.RLock() defer b.rw.RUnlock() return b.t.Get(k) }" &&
		(strings.HasSuffix(walk, "b.rw.RLock() defer b.rw.RUnlock() iterFn(k, fn) return ns }") ||
			strings.HasPrefix(walk, "{ if n == 0 { return nil } b.rw.RLock() defer b.rw.RUnlock() "))
	updateBody := wr.Body("BTree", "Update") ==
		"{ b.rw.Lock() defer b.rw.Unlock() var e = b.t.Delete(oldV) if e == nil { return false } b.t.ReplaceOrInsert(newV) return true }"
	upsertBody := wr.Body("BTree", "UpdateOrInsert") ==
		"{ b.rw.Lock() defer b.rw.Unlock() var e = b.t.Delete(oldV) b.t.ReplaceOrInsert(newV) return e != nil }"

	// iterWalk: the limit comparison and the pre-sizing are parameters of the model; the rest of the body is pinned
	limitCmp, prealloc, walkBody := "unknown", "unknown", false
	walkCanon := wr.Canon(wr.Func("BTree", "iterWalk"))
	for op, name := range map[string]string{">=": "ge", "==": "eq", ">": "gt"} {
		if walkCanon == fmt.Sprintf(walkEager, op) {
			limitCmp, prealloc, walkBody = name, "eager", true
		}
		if walkCanon == fmt.Sprintf(walkCapped, op) {
			limitCmp, prealloc, walkBody = name, "capped", true
		}
	}
	wrapperDegree := 0
	if m := regexp.MustCompile(`b\.t = btree\.New\((\d+)\)`).FindStringSubmatch(wr.Body("", "NewBTree")); m != nil {
		wrapperDegree, _ = strconv.Atoi(m[1])
	}

	cloneFreshCows := bt.Body("BTree", "Clone") == "{ cow1, cow2 := *t.cow, *t.cow out := *t t.cow = &cow1 out.cow = &cow2 return &out }"
	cowGuards := strings.HasPrefix(bt.Body("node", "mutableFor"), "{ if n.cow == cow { return n } out := cow.newNode()") &&
		strings.HasPrefix(bt.Body("copyOnWriteContext", "freeNode"), "{ if n.cow == c { n.items.truncate(0) n.children.truncate(0) n.cow = nil") &&
		bt.Body("node", "mutableChild") == "{ c := n.children[i].mutableFor(n.cow) n.children[i] = c return c }" &&
		bt.Body("copyOnWriteContext", "newNode") == "{ n = c.freelist.newNode() n.cow = c return }"

	// whole bodies, by group
	var deviating []string
	var groupOK []bool
	for _, g := range coreGroups {
		ok := true
		for _, fn := range g.fns {
			if canonHash(bt, fn) != coreHash[fn] {
				ok = false
				deviating = append(deviating, g.name+":"+fn)
			}
		}
		groupOK = append(groupOK, ok)
	}
	bodyWrapper := walkBody
	for fn, want := range wrapperHash {
		if canonHash(wr, fn) != want {
			bodyWrapper = false
			deviating = append(deviating, "bodyWrapper:"+fn)
		}
	}
	if !walkBody {
		deviating = append(deviating, "bodyWrapper:BTree.iterWalk")
	}
	// closure: `node.print` pinned too, and no function of the three anchored files outside the pinned sets
	bodyClosed := true
	known := map[string]bool{"Int.Less": true, "node.print": true, "BTree.AscendGreater": true, "BTree.DescendLess": true,
		"BTree.Ascend": true, "BTree.AscendGreaterOrEqual": true, "BTree.AscendLessThan": true, "BTree.AscendRange": true,
		"BTree.Descend": true, "BTree.DescendGreaterThan": true, "BTree.DescendLessOrEqual": true, "BTree.DescendRange": true}
	for fn := range coreHash {
		known[fn] = true
	}
	if canonHash(bt, "node.print") != "b4da267c32a3" {
		bodyClosed = false
		deviating = append(deviating, "bodyClosed:node.print")
	}
	for _, file := range []*gofacts.File{bt, ext} {
		for _, q := range funcNames(file) {
			if !known[q] {
				bodyClosed = false
				deviating = append(deviating, "bodyClosed:unpinned:"+q)
			}
		}
	}
	wknown := map[string]bool{"BTree.iterWalk": true}
	for fn := range wrapperHash {
		wknown[fn] = true
	}
	for _, q := range funcNames(wr) {
		if !wknown[q] {
			bodyClosed = false
			deviating = append(deviating, "bodyClosed:unpinned:tree."+q)
		}
	}
	// EVERY method of tree.BTree (known or not) takes the lock first, or is a one-line call of iterWalk
	wrapperAllLocked := true
	for _, d := range wr.AST.Decls {
		fd, ok := d.(*ast.FuncDecl)
		if !ok || fd.Recv == nil || fd.Body == nil {
			continue
		}
		body := wr.Src(fd.Body)
		okShape := strings.HasPrefix(body, "{ b.rw.Lock() defer b.rw.Unlock() ") || strings.HasPrefix(body, "{ b.rw.RLock() defer b.rw.RUnlock() ") ||
			strings.HasPrefix(body, "{ return b.iterWalk(k, b.t.") || (fd.Name.Name == "iterWalk" && walkBody)
		if !okShape {
			wrapperAllLocked = false
			deviating = append(deviating, "wrapperAllLocked:"+fd.Name.Name)
		}
	}
	// btree.Int.Less: the comparison is a parameter of the model (a kernel on 64-bit integers)
	intLess := "unknown"
	switch bt.Canon(bt.Func("Int", "Less")) {
	case "func ( v1 Int ) Less ( v2 Item ) bool { return v1 < v2 . ( Int ) ; } ;":
		intLess = "direct"
	case "func ( v1 Int ) Less ( v2 Item ) bool { return v1 - v2 . ( Int ) < 0 ; } ;":
		intLess = "subtract"
	}
	sort.Strings(deviating)

	facts := []bool{maxItemsExpr, minItemsExpr, splitHalf, splitGuards, growGuard, stealGuards, otherScans, rootNilGuard,
		wrapperScanMap, wrapperWriteLocks, wrapperReadLocks, updateBody, upsertBody, walkBody, cloneFreshCows, cowGuards}
	facts = append(facts, groupOK...)
	facts = append(facts, bodyWrapper, bodyClosed, wrapperAllLocked)
	var fs []string
	for _, b := range facts {
		fs = append(fs, gofacts.LeanBool(b))
	}
	out := fmt.Sprintf(`import Nv.Model.C03
set_option linter.unusedVariables false
/-! GENERATED by `+"`c03 extract`"+` from ds/tree/btree/btree.go, ds/tree/btree/btree_ext.go, ds/tree/btree.go — do not edit. -/
namespace Nv.Gen.C03
open Nv.C03
def cfg : Cfg := ⟨%s, %s, %s, %s, .%s, %d, .%s, .%s⟩
def facts : Facts := ⟨%s⟩
end Nv.Gen.C03
`, ascGe.lean(), ascGt.lean(), descLe.lean(), descLt.lean(), limitCmp, wrapperDegree, prealloc, intLess, strings.Join(fs, ", "))
	if err := gofacts.WriteIfChanged(filepath.Join(leanDir, "Nv/Gen/C03.lean"), out); err != nil {
		fmt.Fprintln(os.Stderr, err)
		os.Exit(2)
	}
	fmt.Printf("extract C03: ascGe=%v ascGt=%v descLe=%v descLt=%v limitCmp=%s wrapperDegree=%d prealloc=%s intLess=%s facts=%v deviating=%v\n",
		ascGe, ascGt, descLe, descLt, limitCmp, wrapperDegree, prealloc, intLess, facts, deviating)
}
