package main

import (
	"fmt"
	"os"
	"runtime/debug"
	"sort"
	"strconv"
	"strings"
	"sync"
	"time"

	"github.com/pinealctx/neptune/ds/tree"
	"github.com/pinealctx/neptune/ds/tree/btree"

	"nvharness/lib/corr"
)

// kv is the item type used by the harness: ordered by key only, val tells stored versions apart.
type kv struct{ k, v int }

func (a kv) Less(b btree.Item) bool { return a.k < b.(keyer).key() }

type btreeItem = btree.Item

func showItem(i btree.Item) string {
	if i == nil {
		return "nil"
	}
	x, ok := plain(i)
	if !ok {
		return "?item"
	}
	return strconv.Itoa(x.k) + ":" + strconv.Itoa(x.v)
}

// mk builds the item handed to btree.BTree: the harness' own kv, or the package's btree.Int in `newi` scripts.
func (w *world) mk(k, v int) btree.Item {
	if w.intMode {
		return btree.Int(k)
	}
	return kv{k, v}
}

func fillVal(intMode bool, k int) int {
	if intMode {
		return 0
	}
	return ((k % 997) + 997) % 997
}

func showKV(x kv) string { return strconv.Itoa(x.k) + ":" + strconv.Itoa(x.v) }

func showKVs(l []kv) string {
	var b strings.Builder
	b.WriteByte('[')
	for i, x := range l {
		if i > 0 {
			b.WriteByte(',')
		}
		b.WriteString(showKV(x))
	}
	b.WriteByte(']')
	return b.String()
}

// pInt: optional '-', 1..19 digits, within int64 (the oracle uses the same rule).
func pInt(s string) (int, bool) {
	d := s
	if strings.HasPrefix(d, "-") {
		d = d[1:]
	}
	if len(d) == 0 || len(d) > 19 {
		return 0, false
	}
	for _, c := range d {
		if c < '0' || c > '9' {
			return 0, false
		}
	}
	n, err := strconv.ParseInt(s, 10, 64)
	return int(n), err == nil
}

func pNat(s string) (int, bool) {
	n, ok := pInt(s)
	return n, ok && n >= 0
}

func pPred(s string) (func(kv) bool, bool) {
	switch {
	case s == "all":
		return func(kv) bool { return true }, true
	case s == "none":
		return func(kv) bool { return false }, true
	case s == "mod3":
		return func(x kv) bool { return x.k%3 != 0 }, true
	case s == "odd":
		return func(x kv) bool { return x.k%2 != 0 }, true
	case strings.HasPrefix(s, "lt:"):
		k, ok := pInt(s[3:])
		return func(x kv) bool { return x.k < k }, ok
	case strings.HasPrefix(s, "gt:"):
		k, ok := pInt(s[3:])
		return func(x kv) bool { return x.k > k }, ok
	case strings.HasPrefix(s, "ne:"):
		k, ok := pInt(s[3:])
		return func(x kv) bool { return x.k != k }, ok
	}
	return nil, false
}

// ---------------------------------------------------------------- reference (sorted slice), used by the monitors only

type ref struct{ items []kv } // strictly increasing keys

func (r *ref) idx(k int) (int, bool) {
	i := sort.Search(len(r.items), func(i int) bool { return r.items[i].k >= k })
	return i, i < len(r.items) && r.items[i].k == k
}

func (r *ref) get(k int) (kv, bool) {
	i, ok := r.idx(k)
	if !ok {
		return kv{}, false
	}
	return r.items[i], true
}

func (r *ref) put(x kv) (kv, bool) {
	i, ok := r.idx(x.k)
	if ok {
		old := r.items[i]
		r.items[i] = x
		return old, true
	}
	r.items = append(r.items, kv{})
	copy(r.items[i+1:], r.items[i:])
	r.items[i] = x
	return kv{}, false
}

func (r *ref) del(k int) (kv, bool) {
	i, ok := r.idx(k)
	if !ok {
		return kv{}, false
	}
	old := r.items[i]
	r.items = append(r.items[:i:i], r.items[i+1:]...)
	return old, true
}

func (r *ref) clone() *ref { return &ref{items: append([]kv(nil), r.items...)} }

// scanRef: the items a scan must hand to its callback, before the callback's own early stop.
func (r *ref) scanRef(name string, p, p2 int) []kv {
	var out []kv
	keep := func(x kv) bool {
		switch name {
		case "asc", "desc":
			return true
		case "ascge":
			return x.k >= p
		case "ascgt", "descgt":
			return x.k > p
		case "asclt", "desclt":
			return x.k < p
		case "descle":
			return x.k <= p
		case "ascrange":
			return x.k >= p && x.k < p2
		case "descrange":
			return x.k <= p && x.k > p2
		}
		return false
	}
	for _, x := range r.items {
		if keep(x) {
			out = append(out, x)
		}
	}
	if strings.HasPrefix(name, "desc") {
		for i, j := 0, len(out)-1; i < j; i, j = i+1, j-1 {
			out[i], out[j] = out[j], out[i]
		}
	}
	return out
}

// visited: a callback that continues while cont holds sees items up to and including the first rejected one.
func visited(l []kv, cont func(kv) bool) []kv {
	var out []kv
	for _, x := range l {
		out = append(out, x)
		if !cont(x) {
			break
		}
	}
	return out
}

func eqKVs(a, b []kv) bool {
	if len(a) != len(b) {
		return false
	}
	for i := range a {
		if a[i] != b[i] {
			return false
		}
	}
	return true
}

// ---------------------------------------------------------------- one script on the real implementation

type world struct {
	dead    bool // the structure is no longer a tree (cycle): nothing more is executed on it
	wrapper bool
	trees   []*btree.BTree
	refs    []*ref
	w       *tree.BTree
	hits    []corr.Hit
	seen    map[string]bool
	hmu     sync.Mutex
	intMode bool // `newi`: the items are btree.Int (keys only)
	bigUsed bool // a limit in (2^24, 2^42] was already used in this script
	par     bool // inside a parbegin…parend block: every handle is driven by its own goroutine
}

func (w *world) hit(key, what string) {
	w.hmu.Lock()
	defer w.hmu.Unlock()
	key = "C03:" + key
	if w.seen[key] {
		return
	}
	w.seen[key] = true
	w.hits = append(w.hits, corr.Hit{Key: key, What: what})
}

func allItems(t *btree.BTree) []kv {
	var out []kv
	t.Ascend(func(i btree.Item) bool {
		if x, ok := plain(i); ok {
			out = append(out, x)
		}
		return true
	})
	return out
}

// fatalKind: structural damage after which traversing the structure may not terminate.
func fatalKind(err error) bool {
	switch errKind(err) {
	case "ok", "err:underfull", "err:overfull", "err:length":
		return false
	}
	return true
}

func errKind(err error) string {
	if err == nil {
		return "ok"
	}
	if ve, ok := err.(*btree.VerifError); ok {
		return "err:" + ve.Kind
	}
	return "err:other"
}

// afterWrite restates the property after a mutation of handle h (direct) — contents of EVERY handle equal their
// reference (clone isolation both ways), structure and length of the written handle are right.
func (w *world) afterWrite(h int, op string) {
	if w.par {
		// the other handles are being written by their own goroutines: judge this handle only (all are compared at parend)
		t := w.trees[h]
		if err := t.VerifCheck(); err != nil {
			w.hit("concurrency:clone-writers:VerifCheck:"+errKind(err)[4:], fmt.Sprintf("handle %d after %s while other handles were written concurrently: %v", h, op, err))
			return
		}
		if got := allItems(t); !eqKVs(got, w.refs[h].items) {
			w.hit("concurrency:clone-writers:contents-differ", fmt.Sprintf("handle %d after %s while other handles were written concurrently: tree=%s expected=%s", h, op, showKVs(got), showKVs(w.refs[h].items)))
			w.refs[h].items = append([]kv(nil), got...)
		}
		return
	}
	for j, t := range w.trees {
		if err := t.VerifCheck(); err != nil && fatalKind(err) {
			w.dead = true
			w.hit("btree:VerifCheck:"+errKind(err)[4:], fmt.Sprintf("after %s on handle %d, handle %d: %v", op, h, j, err))
			return
		}
	}
	for j, t := range w.trees {
		got := allItems(t)
		if !eqKVs(got, w.refs[j].items) {
			if j == h {
				w.hit("btree:"+op+":contents-differ-from-sorted-set", fmt.Sprintf("after %s on handle %d: tree=%s sorted-set=%s", op, h, showKVs(got), showKVs(w.refs[j].items)))
			} else {
				w.hit("btree:Clone:write-visible-in-other-tree", fmt.Sprintf("after %s on handle %d, handle %d changed: tree=%s expected=%s", op, h, j, showKVs(got), showKVs(w.refs[j].items)))
			}
			// resynchronise, so that later operations are judged on their own and not on this divergence
			w.refs[j].items = append([]kv(nil), got...)
		}
	}
	t := w.trees[h]
	if t.Len() != len(w.refs[h].items) {
		w.hit("btree:Len:differs-from-item-count", fmt.Sprintf("after %s: Len()=%d, %d items", op, t.Len(), len(w.refs[h].items)))
	}
	if err := t.VerifCheck(); err != nil {
		w.hit("btree:VerifCheck:"+errKind(err)[4:], fmt.Sprintf("after %s on handle %d: %v", op, h, err))
	}
}

func (w *world) afterWrapperWrite(op string, r *ref) {
	in := w.w.VerifInner()
	if err := in.VerifCheck(); err != nil && fatalKind(err) {
		w.dead = true
		w.hit("tree:VerifCheck:"+errKind(err)[4:], fmt.Sprintf("after %s: %v", op, err))
		return
	}
	got := allItems(in)
	if !eqKVs(got, r.items) {
		w.hit("tree:"+op+":contents-differ-from-sorted-set", fmt.Sprintf("after %s: tree=%s sorted-set=%s", op, showKVs(got), showKVs(r.items)))
		r.items = append([]kv(nil), got...)
	}
	if in.Len() != len(r.items) {
		w.hit("tree:Len:differs-from-item-count", fmt.Sprintf("after %s: Len()=%d, %d items", op, in.Len(), len(r.items)))
	}
	if err := in.VerifCheck(); err != nil {
		w.hit("tree:VerifCheck:"+errKind(err)[4:], fmt.Sprintf("after %s: %v", op, err))
	}
}

func optItem(x kv, ok bool) string {
	if !ok {
		return "nil"
	}
	return showKV(x)
}

func (w *world) handle(s string) (int, bool) {
	if w.wrapper || w.trees == nil {
		return 0, false
	}
	h, ok := pNat(s)
	if !ok || h >= len(w.trees) {
		return 0, false
	}
	return h, true
}

var directScans = map[string][2]bool{ // name -> needs p, needs p2
	"asc": {false, false}, "ascge": {true, false}, "ascgt": {true, false}, "asclt": {true, false}, "ascrange": {true, true},
	"desc": {false, false}, "descle": {true, false}, "desclt": {true, false}, "descgt": {true, false}, "descrange": {true, true},
}

func callWalk(b *tree.BTree, name string, p int, filter tree.FilterFn, n int) []tree.Node {
	switch name {
	case "gte":
		return b.AscendGte(kv{k: p}, filter, n)
	case "gt":
		return b.AscendGt(kv{k: p}, filter, n)
	case "lte":
		return b.DescendLte(kv{k: p}, filter, n)
	case "lt":
		return b.DescendLt(kv{k: p}, filter, n)
	}
	return nil
}

func runScan(t *btree.BTree, name string, pi, p2i btree.Item, cont func(kv) bool) []kv {
	out := []kv{}
	it := func(i btree.Item) bool {
		x, _ := plain(i)
		out = append(out, x)
		return cont(x)
	}
	switch name {
	case "asc":
		t.Ascend(it)
	case "ascge":
		t.AscendGreaterOrEqual(pi, it)
	case "ascgt":
		t.AscendGreater(pi, it)
	case "asclt":
		t.AscendLessThan(pi, it)
	case "ascrange":
		t.AscendRange(pi, p2i, it)
	case "desc":
		t.Descend(it)
	case "descle":
		t.DescendLessOrEqual(pi, it)
	case "desclt":
		t.DescendLess(pi, it)
	case "descgt":
		t.DescendGreaterThan(pi, it)
	case "descrange":
		t.DescendRange(pi, p2i, it)
	}
	return out
}

func (w *world) line(line string) string {
	if w.dead {
		return "aborted"
	}
	f := strings.Fields(line)
	if len(f) == 0 {
		return "bad-op"
	}
	switch {
	case (f[0] == "new" || f[0] == "newi") && len(f) == 2:
		d, ok := pNat(f[1])
		if !ok || d < 2 || d > 256 {
			return "bad-op"
		}
		w.wrapper, w.w = false, nil
		w.intMode = f[0] == "newi"
		w.bigUsed = false
		w.trees = []*btree.BTree{btree.New(d)}
		w.refs = []*ref{{}}
		return "ok"
	case f[0] == "neww" && len(f) == 1:
		w.wrapper, w.trees = true, nil
		w.intMode = false
		w.bigUsed = false
		w.w = tree.NewBTree()
		w.refs = []*ref{{}}
		return "ok"
	}
	if strings.HasPrefix(f[0], "w") {
		return w.wrapperLine(f)
	}
	if len(f) < 2 {
		return "bad-op"
	}
	h, ok := w.handle(f[1])
	if !ok {
		return "bad-op"
	}
	t, r := w.trees[h], w.refs[h]
	switch {
	case f[0] == "ins" && len(f) == 4:
		k, ok1 := pInt(f[2])
		v, ok2 := pNat(f[3])
		if !ok1 || !ok2 {
			return "bad-op"
		}
		if w.intMode && v != 0 {
			return "bad-op"
		}
		out := showItem(t.ReplaceOrInsert(w.mk(k, v)))
		want := optItem(r.put(kv{k, v}))
		if out != want {
			w.hit("btree:ReplaceOrInsert:wrong-return", fmt.Sprintf("ReplaceOrInsert(%d:%d) returned %s, the sorted set held %s", k, v, out, want))
		}
		w.afterWrite(h, "ReplaceOrInsert")
		return out
	case f[0] == "fill" && len(f) == 4:
		a, ok1 := pInt(f[2])
		b, ok2 := pInt(f[3])
		if !ok1 || !ok2 {
			return "bad-op"
		}
		n, step := b-a, 1
		if a > b {
			n, step = a-b, -1
		}
		if n < 0 || n > 4095 { // n < 0: the distance does not fit an int
			return "bad-op"
		}
		for j, k := 0, a; j <= n; j, k = j+1, k+step {
			v := fillVal(w.intMode, k)
			out := showItem(t.ReplaceOrInsert(w.mk(k, v)))
			if want := optItem(r.put(kv{k, v})); out != want {
				w.hit("btree:ReplaceOrInsert:wrong-return", fmt.Sprintf("ReplaceOrInsert(%d:%d) (bulk fill) returned %s, the sorted set held %s", k, v, out, want))
			}
		}
		w.afterWrite(h, "ReplaceOrInsert")
		return strconv.Itoa(t.Len())
	case f[0] == "del" && len(f) == 3:
		k, ok1 := pInt(f[2])
		if !ok1 {
			return "bad-op"
		}
		out := showItem(t.Delete(w.mk(k, 0)))
		want := optItem(r.del(k))
		if out != want {
			w.hit("btree:Delete:wrong-return", fmt.Sprintf("Delete(%d) returned %s, the sorted set held %s", k, out, want))
		}
		w.afterWrite(h, "Delete")
		return out
	case (f[0] == "delmin" || f[0] == "delmax") && len(f) == 2:
		var out, want string
		if f[0] == "delmin" {
			out = showItem(t.DeleteMin())
			if len(r.items) > 0 {
				want = optItem(r.del(r.items[0].k))
			} else {
				want = "nil"
			}
		} else {
			out = showItem(t.DeleteMax())
			if len(r.items) > 0 {
				want = optItem(r.del(r.items[len(r.items)-1].k))
			} else {
				want = "nil"
			}
		}
		if out != want {
			w.hit("btree:DeleteMinMax:wrong-return", fmt.Sprintf("%s returned %s, expected %s", f[0], out, want))
		}
		w.afterWrite(h, "DeleteMinMax")
		return out
	case f[0] == "get" && len(f) == 3:
		k, ok1 := pInt(f[2])
		if !ok1 {
			return "bad-op"
		}
		out := showItem(t.Get(w.mk(k, 0)))
		if want := optItem(r.get(k)); out != want {
			w.hit("btree:Get:wrong-item", fmt.Sprintf("Get(%d)=%s, the sorted set holds %s", k, out, want))
		}
		return out
	case f[0] == "has" && len(f) == 3:
		k, ok1 := pInt(f[2])
		if !ok1 {
			return "bad-op"
		}
		out := t.Has(w.mk(k, 0))
		if _, want := r.get(k); out != want {
			w.hit("btree:Has:wrong", fmt.Sprintf("Has(%d)=%v", k, out))
		}
		return strconv.FormatBool(out)
	case (f[0] == "min" || f[0] == "max") && len(f) == 2:
		var out, want string
		if f[0] == "min" {
			out = showItem(t.Min())
			want = "nil"
			if len(r.items) > 0 {
				want = showKV(r.items[0])
			}
		} else {
			out = showItem(t.Max())
			want = "nil"
			if len(r.items) > 0 {
				want = showKV(r.items[len(r.items)-1])
			}
		}
		if out != want {
			w.hit("btree:MinMax:wrong-item", fmt.Sprintf("%s=%s, the sorted set gives %s", f[0], out, want))
		}
		return out
	case f[0] == "len" && len(f) == 2:
		if t.Len() != len(r.items) {
			w.hit("btree:Len:differs-from-item-count", fmt.Sprintf("Len()=%d, %d items", t.Len(), len(r.items)))
		}
		return strconv.Itoa(t.Len())
	case f[0] == "chk" && len(f) == 2:
		err := t.VerifCheck()
		if err != nil {
			w.hit("btree:VerifCheck:"+errKind(err)[4:], fmt.Sprintf("handle %d: %v", h, err))
			return "bad"
		}
		return "ok"
	case f[0] == "owned" && len(f) == 2:
		o, tot := t.VerifOwned()
		return fmt.Sprintf("owned=%d total=%d", o, tot)
	case f[0] == "cons" && len(f) == 2:
		return "ok"
	case f[0] == "free" && len(f) == 2:
		return "free=" + strconv.Itoa(t.VerifFreeListLen())
	case f[0] == "clone" && len(f) == 2:
		if len(w.trees) >= 8 {
			return "bad-op"
		}
		w.trees = append(w.trees, t.Clone())
		w.refs = append(w.refs, r.clone())
		w.afterWrite(len(w.trees)-1, "Clone")
		return "h" + strconv.Itoa(len(w.trees)-1)
	case f[0] == "clear" && len(f) == 3:
		if f[2] != "0" && f[2] != "1" {
			return "bad-op"
		}
		t.Clear(f[2] == "1")
		r.items = nil
		w.afterWrite(h, "Clear")
		return "ok"
	case f[0] == "scan" && len(f) == 6:
		need, ok0 := directScans[f[2]]
		if !ok0 {
			return "bad-op"
		}
		var p, p2 int
		hasP, hasP2 := f[3] != "-", f[4] != "-"
		var ok1, ok2 = true, true
		if hasP {
			p, ok1 = pInt(f[3])
		}
		if hasP2 {
			p2, ok2 = pInt(f[4])
		}
		cont, ok3 := pPred(f[5])
		if !ok1 || !ok2 || !ok3 || hasP != need[0] || hasP2 != need[1] {
			return "bad-op"
		}
		got := runScan(t, f[2], w.mk(p, 0), w.mk(p2, 0), cont)
		want := visited(r.scanRef(f[2], p, p2), cont)
		if !eqKVs(got, want) {
			w.hit("btree:scan:"+f[2]+":wrong-items", fmt.Sprintf("%s pivot=%s/%s cont=%s on %s handed %s to the callback, the sorted set gives %s",
				f[2], f[3], f[4], f[5], showKVs(r.items), showKVs(got), showKVs(want)))
		}
		return showKVs(got)
	}
	return "bad-op"
}

var wrapperScans = map[string]string{"gte": "ascge", "gt": "ascgt", "lte": "descle", "lt": "desclt"}

func (w *world) wrapperLine(f []string) string {
	if !w.wrapper || w.w == nil {
		return "bad-op"
	}
	r := w.refs[0]
	b := w.w
	switch {
	case f[0] == "wins" && len(f) == 3:
		k, ok1 := pInt(f[1])
		v, ok2 := pNat(f[2])
		if !ok1 || !ok2 {
			return "bad-op"
		}
		b.Insert(kv{k, v})
		r.put(kv{k, v})
		w.afterWrapperWrite("Insert", r)
		return "ok"
	case f[0] == "wfill" && len(f) == 3:
		a, ok1 := pInt(f[1])
		c, ok2 := pInt(f[2])
		if !ok1 || !ok2 {
			return "bad-op"
		}
		n, step := c-a, 1
		if a > c {
			n, step = a-c, -1
		}
		if n < 0 || n > 4095 {
			return "bad-op"
		}
		for j, k := 0, a; j <= n; j, k = j+1, k+step {
			b.Insert(kv{k, fillVal(false, k)})
			r.put(kv{k, fillVal(false, k)})
		}
		w.afterWrapperWrite("Insert", r)
		return strconv.Itoa(b.VerifInner().Len())
	case (f[0] == "wupd" || f[0] == "wups") && len(f) == 4:
		old, ok0 := pInt(f[1])
		k, ok1 := pInt(f[2])
		v, ok2 := pNat(f[3])
		if !ok0 || !ok1 || !ok2 {
			return "bad-op"
		}
		var out bool
		_, had := r.get(old)
		if f[0] == "wupd" {
			out = b.Update(kv{k: old}, kv{k, v})
			if had {
				r.del(old)
				r.put(kv{k, v})
			}
			if out != had {
				w.hit("tree:Update:wrong-return", fmt.Sprintf("Update(%d -> %d:%d) returned %v, old present=%v", old, k, v, out, had))
			}
			w.afterWrapperWrite("Update", r)
		} else {
			out = b.UpdateOrInsert(kv{k: old}, kv{k, v})
			r.del(old)
			r.put(kv{k, v})
			if out != had {
				w.hit("tree:UpdateOrInsert:wrong-return", fmt.Sprintf("UpdateOrInsert(%d -> %d:%d) returned %v, old present=%v", old, k, v, out, had))
			}
			w.afterWrapperWrite("UpdateOrInsert", r)
		}
		return strconv.FormatBool(out)
	case f[0] == "wdel" && len(f) == 2:
		k, ok1 := pInt(f[1])
		if !ok1 {
			return "bad-op"
		}
		out := b.Delete(kv{k: k})
		_, had := r.del(k)
		if out != had {
			w.hit("tree:Delete:wrong-return", fmt.Sprintf("Delete(%d) returned %v, present=%v", k, out, had))
		}
		w.afterWrapperWrite("Delete", r)
		return strconv.FormatBool(out)
	case f[0] == "wget" && len(f) == 2:
		k, ok1 := pInt(f[1])
		if !ok1 {
			return "bad-op"
		}
		out := showItem(b.Get(kv{k: k}))
		if want := optItem(r.get(k)); out != want {
			w.hit("tree:Get:wrong-item", fmt.Sprintf("Get(%d)=%s, the sorted set holds %s", k, out, want))
		}
		return out
	case f[0] == "wscan" && len(f) == 5:
		p, ok1 := pInt(f[2])
		flt, ok2 := pPred(f[3])
		n, ok3 := pInt(f[4])
		if !ok1 || !ok2 || !ok3 {
			return "bad-op"
		}
		name, ok4 := wrapperScans[f[1]]
		if !ok4 {
			return "bad-op"
		}
		filter := func(x tree.Node) bool { y, _ := plain(x); return flt(y) }
		var res []tree.Node
		if n > 1<<24 && n <= 1<<42 {
			if w.bigUsed {
				return "bad-op" // one such request per script (protocol rule, same in the oracle)
			}
			w.bigUsed = true
		}
		if n > 1<<24 {
			// a request the implementation may answer by exhausting memory: leave a note for the parent process, so that
			// a dead worker is attributed to this call
			fmt.Fprintf(os.Stderr, "C03-BIGLIMIT %s\n", strings.Join(f, " "))
			faulted := true
			// no collection while a slice of up to 2^42 never-touched cells may be live: marking would walk all of it
			gcOld := debug.SetGCPercent(-1)
			func() {
				defer func() {
					if e := recover(); e != nil {
						w.hit("tree:iterWalk:limit-panics-or-exhausts-memory", fmt.Sprintf("%s on %s: panic: %v — the first n matching items exist and are few", strings.Join(f, " "), showKVs(r.items), e))
					}
				}()
				res = callWalk(b, f[1], p, filter, n)
				faulted = false
			}()
			fmt.Fprintf(os.Stderr, "C03-BIGLIMIT-DONE\n")
			if cap(res) > 1<<24 {
				res = append([]tree.Node(nil), res...) // drop the huge backing array, hand it back to the OS …
				debug.FreeOSMemory()
				recycleWorker = true // … and let this process end after the script: a recycled span would be zeroed page by page
			}
			debug.SetGCPercent(gcOld)
			if faulted {
				debug.SetGCPercent(gcOld)
				return "fault"
			}
		} else {
			res = callWalk(b, f[1], p, filter, n)
		}
		got := []kv{}
		for _, x := range res {
			y, _ := plain(x)
			got = append(got, y)
		}
		if n >= 0 {
			want := []kv{}
			for _, x := range r.scanRef(name, p, 0) {
				if len(want) < n && flt(x) {
					want = append(want, x)
				}
			}
			if len(got) > n {
				w.hit("tree:iterWalk:limit-exceeded", fmt.Sprintf("%s pivot=%d filter=%s n=%d returned %d items: %s", f[1], p, f[3], n, len(got), showKVs(got)))
			} else if !eqKVs(got, want) {
				w.hit("tree:iterWalk:"+f[1]+":wrong-items", fmt.Sprintf("%s pivot=%d filter=%s n=%d on %s returned %s, the first n matching items are %s",
					f[1], p, f[3], n, showKVs(r.items), showKVs(got), showKVs(want)))
			}
		}
		return showKVs(got)
	case f[0] == "wlen" && len(f) == 1:
		return strconv.Itoa(b.VerifInner().Len())
	case f[0] == "wchk" && len(f) == 1:
		if err := b.VerifInner().VerifCheck(); err != nil {
			w.hit("tree:VerifCheck:"+errKind(err)[4:], err.Error())
			return "bad"
		}
		return "ok"
	case f[0] == "wrace":
		return w.race(f)
	case f[0] == "wconc" && len(f) == 3:
		lo, ok1 := pInt(f[1])
		hi, ok2 := pInt(f[2])
		if !ok1 || !ok2 || lo > hi || hi-lo > 400 {
			return "bad-op"
		}
		return w.concurrent(lo, hi)
	}
	return "bad-op"
}

// concurrent: four writers insert disjoint residue classes of lo..hi (val 0) through the locked wrapper while four
// readers scan; every scan result must be strictly ordered, within its range, and contain everything that was in the
// tree before the burst. Afterwards the contents must be the union.
func (w *world) concurrent(lo, hi int) string {
	b, r := w.w, w.refs[0]
	before := append([]kv(nil), r.items...)
	var wg sync.WaitGroup
	var mu sync.Mutex
	bad := ""
	report := func(s string) {
		mu.Lock()
		if bad == "" {
			bad = s
		}
		mu.Unlock()
	}
	stop := make(chan struct{})
	for wi := 0; wi < 4; wi++ {
		wg.Add(1)
		go func(wi int) {
			defer wg.Done()
			defer func() {
				if e := recover(); e != nil {
					report(fmt.Sprintf("writer panic: %v", e))
				}
			}()
			for k := lo; k <= hi; k++ {
				if ((k%4)+4)%4 == wi {
					b.Insert(kv{k, 0})
				}
			}
		}(wi)
	}
	var rg sync.WaitGroup
	for ri := 0; ri < 4; ri++ {
		rg.Add(1)
		go func(ri int) {
			defer rg.Done()
			defer func() {
				if e := recover(); e != nil {
					report(fmt.Sprintf("reader panic: %v", e))
				}
			}()
			for it := 0; ; it++ {
				select {
				case <-stop:
					return
				default:
				}
				p := lo - 1 + (it*7+ri)%(hi-lo+3)
				asc := ri%2 == 0
				var res []tree.Node
				if asc {
					res = b.AscendGt(kv{k: p}, func(tree.Node) bool { return true }, 2000)
				} else {
					res = b.DescendLt(kv{k: p}, func(tree.Node) bool { return true }, 2000)
				}
				prev, first := 0, true
				seen := map[int]bool{}
				for _, x := range res {
					y, _ := plain(x)
					if (asc && y.k <= p) || (!asc && y.k >= p) {
						report(fmt.Sprintf("concurrent exclusive scan from %d returned %d", p, y.k))
					}
					if !first && ((asc && y.k <= prev) || (!asc && y.k >= prev)) {
						report(fmt.Sprintf("concurrent scan out of order: %d after %d", y.k, prev))
					}
					prev, first = y.k, false
					seen[y.k] = true
				}
				for _, x := range before {
					if ((asc && x.k > p) || (!asc && x.k < p)) && !seen[x.k] {
						report(fmt.Sprintf("concurrent scan from %d lost key %d that was present throughout", p, x.k))
					}
				}
			}
		}(ri)
	}
	done := make(chan struct{})
	go func() { wg.Wait(); close(done) }()
	select {
	case <-done:
	case <-time.After(60 * time.Second):
		close(stop)
		panic(harnessFatal{"wconc: writers did not finish within 60 s (wall clock): no verdict"})
	}
	close(stop)
	rg.Wait()
	for k := lo; k <= hi; k++ {
		r.put(kv{k, 0})
	}
	if bad != "" {
		w.hit("concurrency:wrapper:inconsistent-scan-or-panic", bad)
	}
	w.afterWrapperWrite("concurrent-Insert", r)
	return "ok"
}

var parOps = map[string]bool{"ins": true, "del": true, "delmin": true, "delmax": true, "get": true, "has": true, "min": true, "max": true, "len": true, "scan": true}

// runPar executes the lines of a parbegin…parend block: one goroutine per handle, each running its handle's lines
// in script order, all at the same time. Handles are isolated from each other (that is the property), so each
// line's result is independent of the interleaving; afterwards every handle is compared with its reference.
func (w *world) runPar(lines []string) []string {
	lineBegin("parbegin … parend (" + strings.Join(lines, "; ") + ")") // for the worker's watchdog
	defer lineEnd()
	outs := make([]string, len(lines))
	groups := map[int][]int{}
	for i, l := range lines {
		f := strings.Fields(l)
		if len(f) < 2 || !parOps[f[0]] {
			outs[i] = "bad-op"
			continue
		}
		h, ok := w.handle(f[1])
		if !ok {
			outs[i] = "bad-op"
			continue
		}
		groups[h] = append(groups[h], i)
	}
	fmt.Fprintf(os.Stderr, "C03-PAR %d handles\n", len(groups))
	w.par = true
	var wg sync.WaitGroup
	for _, idxs := range groups {
		wg.Add(1)
		go func(idxs []int) {
			defer wg.Done()
			for _, i := range idxs {
				func() {
					defer func() {
						if e := recover(); e != nil {
							outs[i] = "panic"
							w.hit("concurrency:clone-writers:panic", fmt.Sprintf("`%s` panicked while other handles were written concurrently: %v", lines[i], e))
						}
					}()
					outs[i] = w.line(lines[i])
				}()
			}
		}(idxs)
	}
	done := make(chan struct{})
	go func() { wg.Wait(); close(done) }()
	select {
	case <-done:
	case <-time.After(90 * time.Second):
		panic(harnessFatal{"parallel block did not finish within 90 s (wall clock): no verdict"})
	}
	w.par = false
	fmt.Fprintf(os.Stderr, "C03-PAR-DONE\n")
	for j, t := range w.trees {
		if err := t.VerifCheck(); err != nil {
			w.hit("concurrency:clone-writers:VerifCheck:"+errKind(err)[4:], fmt.Sprintf("handle %d after the parallel block: %v", j, err))
			if fatalKind(err) {
				w.dead = true
				return outs
			}
		}
		if got := allItems(t); !eqKVs(got, w.refs[j].items) {
			w.hit("concurrency:clone-writers:contents-differ", fmt.Sprintf("handle %d after the parallel block: tree=%s expected=%s", j, showKVs(got), showKVs(w.refs[j].items)))
			w.refs[j].items = append([]kv(nil), got...)
		}
	}
	return outs
}

// expectedPanic: the one call the model itself answers with a panic — a negative limit handed to the wrapper's scans
// (`make` with a negative capacity; outside the property's domain, modelled as coded).
func expectedPanic(l string) bool {
	f := strings.Fields(l)
	if len(f) == 5 && f[0] == "wscan" {
		if n, err := strconv.ParseInt(f[4], 10, 64); err == nil && n < 0 {
			return true
		}
	}
	return false
}

// runCase executes a script; never panics. A script that does not finish within the wall-clock limit is a harness
// error (exit 2), never a verdict.
func runCase(c corr.Case) corr.Result {
	type res struct {
		outs []string
		hits []corr.Hit
	}
	ch := make(chan res, 1)
	go func() {
		w := &world{seen: map[string]bool{}}
		outs := make([]string, 0, len(c.Lines))
		one := func(l string) {
			defer func() {
				if e := recover(); e != nil {
					if hf, ok := e.(harnessFatal); ok {
						fatalExit(hf.msg) // quiescence / termination could not be established: a harness error, never a verdict
					}
					outs = append(outs, "panic")
					if !expectedPanic(l) {
						// an API call on a valid input must return: any other panic is a violation with this script as replay
						w.hit("impl:api-call-panics", fmt.Sprintf("`%s` panicked: %v", strings.TrimSpace(l), e))
					}
				}
			}()
			lineBegin(l)
			defer lineEnd()
			outs = append(outs, w.line(l))
		}
		for i := 0; i < len(c.Lines); i++ {
			l := strings.TrimSpace(c.Lines[i])
			direct := !w.wrapper && w.trees != nil && !w.dead
			if l == "parbegin" && direct {
				end := i + 1
				isInit := func(l string) bool { // a line that re-initialises everything ends an open block (as in the oracle)
					f := strings.Fields(l)
					if len(f) == 2 && (f[0] == "new" || f[0] == "newi") {
						d, ok := pNat(f[1])
						return ok && d >= 2 && d <= 256
					}
					return len(f) == 1 && f[0] == "neww"
				}
				for end < len(c.Lines) && strings.TrimSpace(c.Lines[end]) != "parend" && !isInit(c.Lines[end]) {
					end++
				}
				if end < len(c.Lines) && isInit(c.Lines[end]) {
					outs = append(outs, "ok")
					outs = append(outs, w.runPar(c.Lines[i+1:end])...)
					i = end - 1
					continue
				}
				if end < len(c.Lines) {
					outs = append(outs, "ok")
					func() {
						defer func() {
							if e := recover(); e != nil {
								if hf, ok := e.(harnessFatal); ok {
									fatalExit(hf.msg)
								}
								panic(e)
							}
						}()
						outs = append(outs, w.runPar(c.Lines[i+1:end])...)
					}()
					if w.dead {
						outs = append(outs, "aborted")
					} else {
						outs = append(outs, "ok")
					}
					i = end
					continue
				}
				// no matching parend: the block stays open for the rest of the script
				outs = append(outs, "ok")
				outs = append(outs, w.runPar(c.Lines[i+1:])...)
				break
			}
			if (l == "parbegin" || l == "parend") && !w.dead {
				outs = append(outs, "bad-op")
				continue
			}
			one(c.Lines[i])
		}
		ch <- res{outs, w.hits}
	}()
	select {
	case r := <-ch:
		return corr.Result{Outs: r.outs, Hits: r.hits}
	case <-time.After(180 * time.Second):
		fatalExit("script still running after 180 s (wall clock): no verdict")
		return corr.Result{}
	}
}
