package main

import (
	"fmt"
	"os"
	"runtime"
	"sync"

	"github.com/pinealctx/neptune/ds/tree"
	"strconv"
	"strings"

	"nvharness/lib/corr"
	"nvharness/lib/rng"
)

// eagerPrealloc probes (once) whether the wrapper sizes its result by the requested limit: a scan of a one-item tree with
// limit 2^20 either allocates 16 MB or it does not. Limits the implementation might really allocate (2^24 … 2^42
// cells: tens of GB to TB of address space, minutes of page faults) are only put into scripts when it does not —
// the eager shape is reported through the limits that fail at once (2^42+1, MaxInt64-1, MaxInt64).
var eagerPrealloc = func() func() bool {
	var once sync.Once
	var eager bool
	return func() bool {
		once.Do(func() {
			b := tree.NewBTree()
			b.Insert(kv{1, 1})
			var m0, m1 runtime.MemStats
			runtime.ReadMemStats(&m0)
			_ = b.AscendGte(kv{k: 0}, func(tree.Node) bool { return true }, 1<<20)
			runtime.ReadMemStats(&m1)
			eager = m1.TotalAlloc-m0.TotalAlloc >= 8<<20
		})
		return eager
	}
}()

var scanNames = []string{"asc", "ascge", "ascgt", "asclt", "ascrange", "desc", "descle", "desclt", "descgt", "descrange"}

func scanLine(h int, name string, p, p2 int, cont string) string {
	ps, p2s := "-", "-"
	if directScans[name][0] {
		ps = strconv.Itoa(p)
	}
	if directScans[name][1] {
		p2s = strconv.Itoa(p2)
	}
	return fmt.Sprintf("scan %d %s %s %s %s", h, name, ps, p2s, cont)
}

func randCont(r *rng.R, K int) string {
	switch r.Intn(8) {
	case 0:
		return "none"
	case 1:
		return "lt:" + strconv.Itoa(r.Range(-1, K+1))
	case 2:
		return "gt:" + strconv.Itoa(r.Range(-1, K+1))
	case 3:
		return "ne:" + strconv.Itoa(r.Range(0, K+1))
	}
	return "all"
}

func randFilter(r *rng.R, K int) string {
	switch r.Intn(8) {
	case 0:
		return "none"
	case 1, 2:
		return "mod3"
	case 3:
		return "odd"
	case 4:
		return "lt:" + strconv.Itoa(r.Range(-1, K+1))
	case 5:
		return "gt:" + strconv.Itoa(r.Range(-1, K+1))
	}
	return "all"
}

// sweep: every pivot from -2 to K+2 for the four pivot scans the property names (and a sample of the others)
func sweep(r *rng.R, h, K int, lines []string) []string {
	for p := -2; p <= K+2; p++ {
		for _, name := range []string{"ascge", "ascgt", "descle", "desclt"} {
			lines = append(lines, scanLine(h, name, p, 0, "all"))
		}
	}
	return lines
}

// genDirect: histories on btree.BTree handles with clones.
func genDirect(r *rng.R, tier string, clones bool) corr.Case {
	d := r.PickInt(2, 2, 2, 3, 3, 4, 5)
	if r.Chance(1, 25) {
		d = r.Range(6, 9)
	}
	K := r.PickInt(8, 14, 25, 40)
	nops := r.Range(20, 70)
	if tier != "quick" {
		nops = r.Range(30, 140)
	}
	lines := []string{"new " + strconv.Itoa(d)}
	handles := 1
	ver := 0
	// phases bias towards growth, then shrink, so that splits, steals, merges and root collapse all occur
	phase := 0
	for i := 0; i < nops; i++ {
		if r.Chance(1, 15) {
			phase = r.Intn(3)
		}
		h := 0
		if handles > 1 {
			h = r.Intn(handles)
		}
		x := r.Intn(100)
		insP := []int{60, 25, 40}[phase]
		delP := []int{10, 45, 25}[phase]
		k := r.Range(1, K)
		switch {
		case x < insP:
			ver++
			lines = append(lines, fmt.Sprintf("ins %d %d %d", h, k, ver))
		case x < insP+delP:
			switch r.Intn(10) {
			case 0:
				lines = append(lines, fmt.Sprintf("delmin %d", h))
			case 1:
				lines = append(lines, fmt.Sprintf("delmax %d", h))
			default:
				lines = append(lines, fmt.Sprintf("del %d %d", h, r.Range(0, K+1)))
			}
		case x < insP+delP+4 && clones && handles < 5:
			lines = append(lines, fmt.Sprintf("clone %d", h))
			handles++
		case x < insP+delP+5 && clones:
			lines = append(lines, fmt.Sprintf("clear %d %d", h, r.Intn(2)))
		default:
			switch r.Intn(12) {
			case 0:
				lines = append(lines, fmt.Sprintf("get %d %d", h, r.Range(-1, K+2)))
			case 1:
				lines = append(lines, fmt.Sprintf("has %d %d", h, r.Range(-1, K+2)))
			case 2:
				lines = append(lines, fmt.Sprintf("min %d", h), fmt.Sprintf("max %d", h))
			case 3:
				lines = append(lines, fmt.Sprintf("len %d", h), fmt.Sprintf("chk %d", h))
			default:
				name := scanNames[r.Intn(len(scanNames))]
				if r.Chance(1, 2) {
					name = r.Pick("ascgt", "desclt", "ascge", "descle")
				}
				lines = append(lines, scanLine(h, name, r.Range(-2, K+2), r.Range(-2, K+2), randCont(r, K)))
			}
		}
		// after a mutation, read every handle now and then (clone isolation both ways)
		if handles > 1 && r.Chance(1, 4) {
			for j := 0; j < handles; j++ {
				lines = append(lines, fmt.Sprintf("scan %d asc - - all", j), fmt.Sprintf("len %d", j), fmt.Sprintf("owned %d", j))
			}
		}
		if r.Chance(1, 12) {
			lines = append(lines, fmt.Sprintf("owned %d", h), fmt.Sprintf("cons %d", h), fmt.Sprintf("free %d", h))
		}
	}
	for j := 0; j < handles; j++ {
		lines = append(lines, fmt.Sprintf("chk %d", j), fmt.Sprintf("len %d", j), fmt.Sprintf("scan %d asc - - all", j),
			fmt.Sprintf("owned %d", j), fmt.Sprintf("cons %d", j))
	}
	if r.Chance(1, 3) {
		lines = sweep(r, r.Intn(handles), K, lines)
	}
	tag := "direct-history"
	if clones {
		tag = "clone-program"
	}
	return corr.Case{Tag: tag, Lines: lines}
}

// genGrowShrink: fill 1..K in some order, sweep all pivots, then delete everything in some order checking the
// structure after every step, then refill (free-list reuse).
func genGrowShrink(r *rng.R, tier string) corr.Case {
	d := r.PickInt(2, 2, 3, 4, 5)
	K := r.PickInt(10, 17, 26, 40)
	lines := []string{"new " + strconv.Itoa(d)}
	perm := func() []int {
		ks := make([]int, K)
		for i := range ks {
			ks[i] = i + 1
		}
		switch r.Intn(3) {
		case 0: // ascending
		case 1: // descending
			for i, j := 0, K-1; i < j; i, j = i+1, j-1 {
				ks[i], ks[j] = ks[j], ks[i]
			}
		default:
			for i := K - 1; i > 0; i-- {
				j := r.Intn(i + 1)
				ks[i], ks[j] = ks[j], ks[i]
			}
		}
		return ks
	}
	ver := 0
	for _, k := range perm() {
		ver++
		lines = append(lines, fmt.Sprintf("ins 0 %d %d", k, ver))
		if r.Chance(1, 3) {
			lines = append(lines, "chk 0")
		}
	}
	lines = append(lines, "chk 0", "len 0")
	lines = sweep(r, 0, K, lines)
	withClone := r.Chance(1, 3)
	if withClone {
		lines = append(lines, "clone 0")
	}
	for _, k := range perm() {
		lines = append(lines, fmt.Sprintf("del 0 %d", k), "chk 0")
		if r.Chance(1, 5) {
			lines = append(lines, scanLine(0, r.Pick("ascgt", "desclt", "ascge", "descle"), r.Range(-1, K+1), 0, "all"))
		}
	}
	lines = append(lines, "len 0", "scan 0 asc - - all", "min 0", "max 0", "del 0 1", "owned 0", "cons 0", "free 0")
	if r.Chance(1, 3) {
		lines = append(lines, fmt.Sprintf("clear 0 %d", r.Intn(2)), "free 0", "len 0", "chk 0")
	}
	if withClone {
		lines = append(lines, "chk 1", "len 1", "scan 1 asc - - all", "scan 1 desc - - all")
	}
	for _, k := range perm()[:K/2] {
		ver++
		lines = append(lines, fmt.Sprintf("ins 0 %d %d", k, ver))
	}
	lines = append(lines, "chk 0", "len 0", "scan 0 desc - - all", "owned 0", "cons 0")
	if withClone {
		lines = append(lines, "scan 1 asc - - all", "owned 1", "cons 1")
	}
	return corr.Case{Tag: "grow-shrink", Lines: lines}
}

// genWrapper: histories on the locked wrapper tree.BTree.
func genWrapper(r *rng.R, tier string) corr.Case {
	K := r.PickInt(8, 14, 25, 40)
	nops := r.Range(20, 70)
	if tier != "quick" {
		nops = r.Range(30, 140)
	}
	lines := []string{"neww"}
	ver := 0
	phase := 0
	for i := 0; i < nops; i++ {
		if r.Chance(1, 15) {
			phase = r.Intn(3)
		}
		x := r.Intn(100)
		insP := []int{45, 15, 30}[phase]
		delP := []int{8, 40, 20}[phase]
		switch {
		case x < insP:
			ver++
			lines = append(lines, fmt.Sprintf("wins %d %d", r.Range(1, K), ver))
		case x < insP+delP:
			lines = append(lines, fmt.Sprintf("wdel %d", r.Range(0, K+1)))
		case x < insP+delP+10:
			ver++
			lines = append(lines, fmt.Sprintf("wupd %d %d %d", r.Range(0, K+1), r.Range(1, K), ver))
		case x < insP+delP+20:
			ver++
			lines = append(lines, fmt.Sprintf("wups %d %d %d", r.Range(0, K+1), r.Range(1, K), ver))
		case x < insP+delP+24:
			lines = append(lines, fmt.Sprintf("wget %d", r.Range(-1, K+2)))
		case x < insP+delP+26:
			lines = append(lines, "wlen", "wchk")
		default:
			n := r.PickInt(0, 1, 1, 2, 3, 3, 5, 1000)
			if r.Chance(1, 40) {
				n = -r.Range(1, 3)
			}
			ns := strconv.Itoa(n)
			if r.Chance(1, 10) {
				// "no limit" idioms and other large limits: the result is still the few matching items
				ns = r.Pick("17592186044417", "9223372036854775806", "9223372036854775807", "9223372036854775807", "4611686018427387904")
				if r.Chance(1, 8) && !eagerPrealloc() {
					ns = r.Pick("2147483647", "1099511627776") // one per script (a second one is `bad-op`)
				}
			}
			lines = append(lines, fmt.Sprintf("wscan %s %d %s %s", r.Pick("gte", "gt", "lte", "lt"), r.Range(-2, K+2), randFilter(r, K), ns))
		}
	}
	lines = append(lines, "wchk", "wlen")
	if r.Chance(1, 2) {
		for p := -2; p <= K+2; p++ {
			for _, name := range []string{"gte", "gt", "lte", "lt"} {
				lines = append(lines, fmt.Sprintf("wscan %s %d %s %d", name, p, r.Pick("all", "all", "mod3"), r.PickInt(0, 1, 3, 1000)))
			}
		}
	}
	if (tier == "quick" && r.Chance(1, 25)) || (tier != "quick" && r.Chance(1, 8)) {
		// readers and writers on the locked wrapper at the same time (short in quick)
		lo := r.Range(-5, K)
		span := r.Range(20, 60)
		if tier != "quick" {
			span = r.Range(20, 300)
		}
		lines = append(lines, fmt.Sprintf("wconc %d %d", lo, lo+span), "wchk", "wlen", "wscan gte -100 all 1000")
	}
	return corr.Case{Tag: "wrapper-history", Lines: lines}
}

func randWrOp(r *rng.R, K, hot int, ver *int) string {
	key := func() int {
		if r.Chance(3, 4) {
			return hot
		}
		return r.Range(0, K+1)
	}
	*ver++
	switch r.Intn(10) {
	case 0, 1, 2:
		return fmt.Sprintf("upd %d %d %d", key(), r.Range(1, K+3), *ver)
	case 3, 4:
		return fmt.Sprintf("ups %d %d %d", key(), r.Range(1, K+3), *ver)
	case 5, 6, 7:
		return fmt.Sprintf("del %d", key())
	case 8:
		return fmt.Sprintf("ins %d %d", key(), *ver)
	}
	return fmt.Sprintf("get %d", key())
}

// genRace: the locked wrapper with two callers: call A is parked inside its pos-th key comparison, B (mostly on the
// same key) is started, A is released; results and contents must be those of A;B or B;A.
func genRace(r *rng.R, tier string) corr.Case {
	K := r.PickInt(3, 5, 8, 12, 20)
	lines := []string{"neww"}
	ver := 0
	for k := 1; k <= K; k++ {
		if r.Chance(4, 5) {
			ver++
			lines = append(lines, fmt.Sprintf("wins %d %d", k, ver))
		}
	}
	n := r.Range(1, 4)
	for i := 0; i < n; i++ {
		hot := r.Range(1, K)
		a := randWrOp(r, K, hot, &ver)
		if r.Chance(1, 2) {
			ver++
			a = fmt.Sprintf("upd %d %d %d", hot, r.Range(1, K+3), ver)
		}
		lines = append(lines, fmt.Sprintf("wrace %d %s / %s", r.PickInt(1, 1, 2, 2, 3, 4, 5, 7), a, randWrOp(r, K, hot, &ver)), "wchk", "wlen")
	}
	return corr.Case{Tag: "wrapper-race", Lines: lines}
}

// genWide: high degrees and hundreds of keys: nodes with 18+ items, heights the small classes never reach. Bulk fill,
// then every kind of operation ON EXISTING KEYS (re-insert, get, delete) and scans at pivots near node boundaries.
func genWide(r *rng.R, tier string) corr.Case {
	d := r.PickInt(10, 10, 11, 12, 12, 16, 24, 32)
	K := r.PickInt(60, 120, 200, 400)
	if d >= 16 && K < 200 {
		K = 200
	}
	lines := []string{"new " + strconv.Itoa(d)}
	ks := make([]int, K)
	for i := range ks {
		ks[i] = i + 1
	}
	switch r.Intn(3) {
	case 0:
	case 1:
		for i, j := 0, K-1; i < j; i, j = i+1, j-1 {
			ks[i], ks[j] = ks[j], ks[i]
		}
	default:
		for i := K - 1; i > 0; i-- {
			j := r.Intn(i + 1)
			ks[i], ks[j] = ks[j], ks[i]
		}
	}
	ver := 0
	for _, k := range ks {
		ver++
		lines = append(lines, fmt.Sprintf("ins 0 %d %d", k, ver))
	}
	lines = append(lines, "chk 0", "len 0", "min 0", "max 0")
	withClone := r.Chance(1, 3)
	if withClone {
		lines = append(lines, "clone 0")
	}
	nops := r.Range(60, 160)
	for i := 0; i < nops; i++ {
		k := r.Range(1, K)
		switch r.Intn(10) {
		case 0, 1, 2:
			ver++
			lines = append(lines, fmt.Sprintf("ins 0 %d %d", k, ver), "len 0")
		case 3, 4:
			lines = append(lines, fmt.Sprintf("get 0 %d", k), fmt.Sprintf("has 0 %d", k))
		case 5, 6:
			lines = append(lines, fmt.Sprintf("del 0 %d", k), "chk 0")
		case 7:
			lines = append(lines, scanLine(0, r.Pick("ascgt", "desclt", "ascge", "descle"), k, 0, "ne:"+strconv.Itoa(k+r.Range(-3, 3))))
		case 8:
			lines = append(lines, scanLine(0, r.Pick("ascrange", "descrange"), k, k+r.Range(-25, 25), "all"))
		default:
			lines = append(lines, fmt.Sprintf("delmin 0"), fmt.Sprintf("delmax 0"))
		}
	}
	lines = append(lines, "chk 0", "len 0", "scan 0 asc - - all", "owned 0", "cons 0")
	if withClone {
		lines = append(lines, "chk 1", "len 1", "scan 1 desc - - all", "owned 1", "cons 1")
	}
	return corr.Case{Tag: "wide-degree", Lines: lines}
}

// genPar: writers on a tree and its clones AT THE SAME TIME: one goroutine per handle (parbegin … parend). The handles
// share cells and the free list; isolation says every handle still behaves like its own sorted set.
func genPar(r *rng.R, tier string) corr.Case {
	d := r.PickInt(2, 2, 3, 4)
	K := r.PickInt(40, 80, 150)
	lines := []string{"new " + strconv.Itoa(d)}
	ver := 0
	for k := 1; k <= K; k++ {
		if r.Chance(3, 4) {
			ver++
			lines = append(lines, fmt.Sprintf("ins 0 %d %d", k, ver))
		}
	}
	handles := r.Range(2, 4)
	for h := 1; h < handles; h++ {
		lines = append(lines, fmt.Sprintf("clone %d", r.Intn(h)))
	}
	rounds := 1
	if tier != "quick" {
		rounds = r.Range(1, 3)
	}
	for round := 0; round < rounds; round++ {
		lines = append(lines, "parbegin")
		n := r.Range(60, 200)
		if tier != "quick" {
			n = r.Range(150, 600)
		}
		for i := 0; i < n; i++ {
			h := r.Intn(handles)
			switch r.Intn(10) {
			case 0, 1, 2, 3:
				ver++
				lines = append(lines, fmt.Sprintf("ins %d %d %d", h, r.Range(1, K+10), ver))
			case 4, 5, 6, 7:
				lines = append(lines, fmt.Sprintf("del %d %d", h, r.Range(1, K+10)))
			case 8:
				lines = append(lines, fmt.Sprintf("get %d %d", h, r.Range(1, K)))
			default:
				lines = append(lines, scanLine(h, r.Pick("ascgt", "desclt"), r.Range(0, K), 0, "lt:"+strconv.Itoa(r.Range(0, K))))
			}
		}
		lines = append(lines, "parend")
		for h := 0; h < handles; h++ {
			lines = append(lines, fmt.Sprintf("chk %d", h), fmt.Sprintf("len %d", h), fmt.Sprintf("scan %d asc - - all", h), fmt.Sprintf("owned %d", h), fmt.Sprintf("cons %d", h))
		}
		if round+1 < rounds && handles < 6 {
			lines = append(lines, fmt.Sprintf("clone %d", r.Intn(handles)))
			handles++
		}
	}
	return corr.Case{Tag: "clone-parallel", Lines: lines}
}

var extremeKeys = []int{-9223372036854775808, -9223372036854775807, -4611686018427387904, -1 << 40, -5, -1, 0, 1, 7, 1 << 40,
	4611686018427387904, 9223372036854775806, 9223372036854775807}

// genIntExtreme: trees of the package's own item type btree.Int (so Int.Less is what orders them), with keys at and
// around MinInt64 / MaxInt64, where a comparison by subtraction wraps.
func genIntExtreme(r *rng.R, tier string) corr.Case {
	d := r.PickInt(2, 2, 3, 4, 8)
	lines := []string{"newi " + strconv.Itoa(d)}
	key := func() int {
		if r.Chance(2, 3) {
			k := extremeKeys[r.Intn(len(extremeKeys))]
			switch off := r.PickInt(0, 0, 0, 1, -1); {
			case off == 1 && k != 9223372036854775807:
				k++
			case off == -1 && k != -9223372036854775808:
				k--
			}
			return k
		}
		return r.Range(-30, 30)
	}
	handles := 1
	n := r.Range(25, 70)
	for i := 0; i < n; i++ {
		h := r.Intn(handles)
		k := key()
		switch r.Intn(12) {
		case 0, 1, 2, 3, 4:
			lines = append(lines, fmt.Sprintf("ins %d %d 0", h, k))
		case 5, 6:
			lines = append(lines, fmt.Sprintf("del %d %d", h, k))
		case 7:
			lines = append(lines, fmt.Sprintf("get %d %d", h, k), fmt.Sprintf("has %d %d", h, k))
		case 8:
			lines = append(lines, fmt.Sprintf("min %d", h), fmt.Sprintf("max %d", h), fmt.Sprintf("scan %d asc - - all", h))
		case 9:
			if handles < 3 {
				lines = append(lines, fmt.Sprintf("clone %d", h))
				handles++
			} else {
				lines = append(lines, fmt.Sprintf("delmin %d", h), fmt.Sprintf("delmax %d", h))
			}
		default:
			name := scanNames[r.Intn(len(scanNames))]
			lines = append(lines, scanLine(h, name, k, key(), r.Pick("all", "all", "ne:0", "lt:1", "gt:-1")))
		}
	}
	for h := 0; h < handles; h++ {
		lines = append(lines, fmt.Sprintf("chk %d", h), fmt.Sprintf("len %d", h), fmt.Sprintf("scan %d asc - - all", h), fmt.Sprintf("scan %d desc - - all", h))
	}
	return corr.Case{Tag: "int-extreme", Lines: lines}
}

// genHugeDegree: degrees 33…128 (nodes of up to 255 items: element moves of more than 64 cells, searches in nodes of
// more than 70 items), bulk fills in both directions, then work on existing keys.
func genHugeDegree(r *rng.R, tier string) corr.Case {
	d := r.PickInt(33, 40, 48, 64, 64, 100, 128)
	K := r.PickInt(200, 300, 500, 800)
	kind := "new "
	if r.Chance(1, 4) {
		kind = "newi "
	}
	lines := []string{kind + strconv.Itoa(d)}
	if r.Chance(1, 2) {
		lines = append(lines, fmt.Sprintf("fill 0 %d 1", K))
	} else {
		lines = append(lines, fmt.Sprintf("fill 0 1 %d", K))
	}
	lines = append(lines, "chk 0", "scan 0 asc - - all", "min 0", "max 0")
	ver := 0
	n := r.Range(40, 120)
	for i := 0; i < n; i++ {
		k := r.Range(1, K)
		switch r.Intn(10) {
		case 0, 1, 2:
			ver++
			v := ver
			if kind == "newi " {
				v = 0
			}
			lines = append(lines, fmt.Sprintf("ins 0 %d %d", k, v), "len 0")
		case 3, 4:
			lines = append(lines, fmt.Sprintf("get 0 %d", k), fmt.Sprintf("has 0 %d", k))
		case 5, 6:
			lines = append(lines, fmt.Sprintf("del 0 %d", k), "chk 0")
		case 7:
			lines = append(lines, scanLine(0, r.Pick("ascgt", "desclt", "ascge", "descle"), k, 0, "all"))
		case 8:
			lines = append(lines, fmt.Sprintf("fill 0 %d %d", k, k+r.Range(-90, 90)), "chk 0")
		default:
			lines = append(lines, "delmin 0", "delmax 0")
		}
	}
	lines = append(lines, "chk 0", "len 0", "scan 0 desc - - all", "owned 0", "cons 0")
	return corr.Case{Tag: "huge-degree", Lines: lines}
}

// genBigScan: scans that hand the callback (or return) many hundreds of items: a small-degree tree of 600…2000 keys
// read through all ten entry points, and the wrapper with limits above and below the size.
func genBigScan(r *rng.R, tier string) corr.Case {
	N := r.PickInt(600, 600, 800, 1100)
	if tier != "quick" {
		N = r.PickInt(600, 800, 1100, 1500, 2000)
	}
	if r.Chance(1, 2) {
		lines := []string{"new " + strconv.Itoa(r.PickInt(2, 3, 5, 16)), fmt.Sprintf("fill 0 1 %d", N), "chk 0"}
		for i := 0; i < 5; i++ {
			name := scanNames[r.Intn(len(scanNames))]
			lines = append(lines, scanLine(0, name, r.Range(-2, N/3), r.Range(N/2, N+2), r.Pick("all", "all", "ne:"+strconv.Itoa(r.Range(520, N)))))
		}
		lines = append(lines, "scan 0 asc - - all", "scan 0 desc - - all", "len 0")
		return corr.Case{Tag: "big-scan", Lines: lines}
	}
	lines := []string{"neww", fmt.Sprintf("wfill 1 %d", N), "wchk", "wlen"}
	for i := 0; i < 5; i++ {
		lim := r.PickInt(513, 600, 1000, 5000, N, N-1, N+1, 100000)
		lines = append(lines, fmt.Sprintf("wscan %s %d %s %d", r.Pick("gte", "gt", "lte", "lt"), r.PickInt(-1, 0, 1, N/2, N, N+1), r.Pick("all", "all", "mod3", "odd"), lim))
	}
	lines = append(lines, "wscan gte 0 all 9223372036854775807", fmt.Sprintf("wscan lte %d all 9223372036854775807", N))
	return corr.Case{Tag: "big-scan", Lines: lines}
}

// genMalformed: a valid prefix with ill-formed lines mixed in (both sides must answer bad-op and keep their state).
func genMalformed(r *rng.R) corr.Case {
	lines := []string{r.Pick("new 2", "new 3", "neww")}
	bad := []string{"", "foo", "ins", "ins 0", "ins 0 x 1", "ins 0 1 -1", "ins 9 1 1", "del 0", "del 0 1 2", "scan 0 ascgt - - all",
		"scan 0 asc 1 - all", "scan 0 nope 1 - all", "scan 0 ascgt 1 - maybe", "scan 0 ascrange 1 - all", "get 0 1234567890", "clone 7",
		"clear 0 2", "owned 9", "cons x", "wins 1", "wscan ge 1 all 1", "wscan gte 1 all x", "wscan gte 1 some 1", "wupd 1 2", "new 1", "new 65", "new x", "neww 2",
		"len", "chk -1", "wget 00000000001", "wdel --1", "has 0 1 1", "min 0 0", "wconc 5 1", "wconc 1 1000", "wrace 0 del 1 / del 1", "wrace 1 del 1 del 1", "wrace 1 upd 1 / del 1", "wrace x del 1 / del 1", "fill 0 1 99999", "fill 0 x 3", "wfill 1", "wfill 5 90000", "newi 1", "new 257", "parend", "parbegin", "free 9", "wscan gte 1 all 99999999999999999999", "ins 0 9223372036854775808 1", "clone 0"}
	good := []string{"parbegin", "parend", "ins 0 1 1", "ins 0 2 2", "ins 0 3 3", "del 0 2", "scan 0 asc - - all", "len 0", "wins 1 1", "wins 2 2", "wdel 1", "wscan gte 0 all 5", "wlen", "get 0 1", "wget 2", "clone 0"}
	n := r.Range(6, 20)
	for i := 0; i < n; i++ {
		if r.Chance(1, 2) {
			lines = append(lines, bad[r.Intn(len(bad))])
		} else {
			lines = append(lines, good[r.Intn(len(good))])
		}
	}
	return corr.Case{Tag: "malformed", Lines: lines}
}

func fixedCases() []corr.Case {
	var cs []corr.Case
	// boundary: empty tree, limit 0, pivots below/above, single item — for every degree 2..5 and the wrapper
	for d := 2; d <= 5; d++ {
		l := []string{"new " + strconv.Itoa(d), "len 0", "chk 0", "min 0", "max 0", "get 0 1", "del 0 1", "delmin 0", "delmax 0"}
		for _, n := range scanNames {
			l = append(l, scanLine(0, n, 1, 5, "all"))
		}
		l = append(l, "ins 0 5 1", "chk 0")
		for _, n := range scanNames {
			for _, p := range []int{4, 5, 6} {
				l = append(l, scanLine(0, n, p, p+1, "all"), scanLine(0, n, p, p-1, "none"))
			}
		}
		l = append(l, "del 0 5", "len 0", "chk 0", "scan 0 asc - - all", "ins 0 7 2", "ins 0 7 3", "get 0 7", "len 0", "clear 0 1", "len 0", "ins 0 1 4", "scan 0 desc - - all")
		cs = append(cs, corr.Case{Tag: "fixed-boundary", Lines: l})
	}
	w := []string{"neww", "wlen", "wchk", "wget 1", "wdel 1", "wupd 1 2 1", "wlen", "wups 1 2 2", "wlen"}
	for _, n := range []string{"gte", "gt", "lte", "lt"} {
		for _, p := range []int{1, 2, 3} {
			for _, lim := range []int{0, 1, 1000} {
				w = append(w, fmt.Sprintf("wscan %s %d all %d", n, p, lim))
			}
		}
	}
	for _, lim := range []string{"17592186044417", "9223372036854775806", "9223372036854775807"} {
		w = append(w, "wscan gte 0 all "+lim, "wscan lt 3 all "+lim)
	}
	if !eagerPrealloc() {
		w = append(w, "wscan gt 0 all 2147483647", "wscan lte 3 all 1099511627776")
	}
	w = append(w, "wupd 2 2 3", "wget 2", "wupd 2 9 4", "wget 2", "wget 9", "wins 5 5", "wupd 5 9 6", "wlen", "wscan gte 0 all 10", "wscan gt 9 all 10", "wscan lt 5 all 10", "wscan lte 9 none 3")
	cs = append(cs, corr.Case{Tag: "fixed-boundary", Lines: w})
	// full sweeps on dense trees: every degree, every scan, every pivot, three callbacks
	for d := 2; d <= 5; d++ {
		K := 8 * d
		l := []string{"new " + strconv.Itoa(d)}
		for k := 1; k <= K; k++ {
			l = append(l, fmt.Sprintf("ins 0 %d %d", (k*7)%K+1, k))
		}
		l = append(l, "chk 0", "len 0")
		for p := -1; p <= K+2; p++ {
			for _, n := range scanNames {
				l = append(l, scanLine(0, n, p, p+d+1, "all"), scanLine(0, n, p, p-d-1, "ne:"+strconv.Itoa((p+3)%K)))
			}
		}
		cs = append(cs, corr.Case{Tag: "fixed-sweep", Lines: l})
	}
	// clone isolation, both directions, with free-list reuse
	c := []string{"new 2"}
	for k := 1; k <= 12; k++ {
		c = append(c, fmt.Sprintf("ins 0 %d %d", k, k))
	}
	c = append(c, "clone 0", "ins 1 6 100", "del 1 1", "get 0 6", "get 0 1", "get 1 6", "get 1 1", "ins 0 13 200", "del 0 12", "scan 1 asc - - all", "scan 0 asc - - all",
		"owned 0", "owned 1", "cons 0", "cons 1",
		"clone 1", "clear 1 1", "scan 2 asc - - all", "len 2", "len 1", "ins 1 3 300", "scan 2 asc - - all", "scan 0 desc - - all", "chk 0", "chk 1", "chk 2",
		"owned 0", "owned 1", "owned 2", "cons 0", "cons 1", "cons 2")
	for k := 1; k <= 13; k++ {
		c = append(c, fmt.Sprintf("del 0 %d", k), "chk 0", "scan 2 asc - - all")
	}
	cs = append(cs, corr.Case{Tag: "fixed-clone", Lines: c})
	// minimised replays of the mutation runs (docs/C03.md): kept as regression scripts
	cs = append(cs,
		corr.Case{Tag: "fixed-regress", Lines: []string{"new 2", "ins 0 12 12", "clone 0", "ins 1 6 100", "scan 0 asc - - all", "scan 1 asc - - all", "owned 0", "owned 1"}},
		corr.Case{Tag: "fixed-regress", Lines: []string{"new 2", "ins 0 5 1", "scan 0 ascgt 5 - none", "scan 0 desclt 5 - none", "scan 0 descrange 5 4 none", "scan 0 descle 5 - all"}},
		corr.Case{Tag: "fixed-regress", Lines: []string{"neww", "wins 3 31", "wins 4 30", "wins 5 24", "wins 7 23", "wscan lte 9 all 3", "wscan gt 2 mod3 1", "wscan lte 2 all 1000", "wupd 9 9 4", "wlen", "wscan gte 0 all 10"}},
		corr.Case{Tag: "fixed-regress", Lines: []string{"new 2", "ins 0 1 1", "ins 0 2 2", "ins 0 3 3", "ins 0 4 4", "chk 0", "ins 0 5 5", "ins 0 6 6", "chk 0", "clone 0", "del 1 3", "chk 0", "chk 1", "scan 0 asc - - all", "del 0 1", "del 0 2", "chk 0", "len 0", "scan 1 asc - - all"}},
		// red-team inputs: btree.Int at the ends of the range; degree 64 filled downwards; a scan of 2000 items through the wrapper
		corr.Case{Tag: "fixed-redteam", Lines: []string{"newi 2", "ins 0 -9223372036854775808 0", "ins 0 -5 0", "ins 0 0 0", "ins 0 7 0", "ins 0 9223372036854775807 0",
			"scan 0 asc - - all", "scan 0 desc - - all", "min 0", "max 0", "get 0 9223372036854775807", "get 0 -9223372036854775808",
			"scan 0 ascgt -9223372036854775808 - all", "scan 0 desclt 9223372036854775807 - all", "del 0 -9223372036854775808", "chk 0", "scan 0 asc - - all"}},
		corr.Case{Tag: "fixed-redteam", Lines: []string{"new 64", "fill 0 200 1", "chk 0", "len 0", "scan 0 asc - - all", "ins 0 127 5", "get 0 127", "get 0 200", "del 0 1", "chk 0"}},
		corr.Case{Tag: "fixed-redteam", Lines: []string{"new 128", "fill 0 1 600", "chk 0", "ins 0 255 1", "ins 0 600 2", "len 0", "get 0 255", "scan 0 descle 300 - ne:100", "fill 0 700 550", "chk 0", "len 0"}},
		corr.Case{Tag: "fixed-redteam", Lines: []string{"neww", "wfill 0 1999", "wlen", "wscan gte 0 all 5000", "wscan lt 2000 all 513", "wscan gt 1000 mod3 600", "wchk"}},
		// "no limit" passed as the largest int (audit finding 1)
		corr.Case{Tag: "fixed-limit", Lines: []string{"neww", "wins 1 1", "wins 2 2", "wins 3 3", "wins 4 4", "wins 5 5",
			"wscan gte 0 all 9223372036854775807", "wscan lte 4 mod3 9223372036854775806", "wscan gt 2 all 17592186044417", "wlen", "wchk"}},
		// the interleaving of seeded change C03-4: Update parked in its lookup, Delete of the same key queued behind it
		corr.Case{Tag: "fixed-race", Lines: []string{"neww", "wins 1 1", "wins 2 2", "wins 3 3", "wrace 1 upd 2 20 7 / del 2", "wchk", "wlen",
			"wrace 1 upd 1 21 8 / upd 1 22 9", "wchk", "wrace 2 del 3 / ups 3 5 10", "wrace 1 get 5 / del 5", "wrace 9 upd 21 4 11 / ins 21 12", "wlen"}},
	)
	return cs
}

func spec() corr.Spec {
	return corr.Spec{
		Property: "C03",
		Fixed:    fixedCases,
		Count: func(tier string) int {
			switch tier {
			case "quick":
				return 5000
			case "thorough":
				return 60000
			}
			return 7000
		},
		Gen: func(r *rng.R, tier string, i int) corr.Case {
			if only := os.Getenv("C03_ONLY"); only != "" { // development aid: one generator class
				switch only {
				case "wide":
					return genWide(r, tier)
				case "par":
					return genPar(r, tier)
				case "race":
					return genRace(r, tier)
				case "wrapper":
					return genWrapper(r, tier)
				case "direct":
					return genDirect(r, tier, true)
				case "int":
					return genIntExtreme(r, tier)
				case "huge":
					return genHugeDegree(r, tier)
				case "bigscan":
					return genBigScan(r, tier)
				}
			}
			switch y := r.Intn(40); {
			case y == 0:
				return genIntExtreme(r, tier)
			case y == 1 && r.Chance(1, 2):
				return genHugeDegree(r, tier)
			case y == 2 && r.Chance(1, 5):
				return genBigScan(r, tier)
			}
			switch x := r.Intn(25); {
			case x == 24:
				return genPar(r, tier)
			case x >= 22:
				return genWide(r, tier)
			case x >= 20:
				return genRace(r, tier)
			case x < 6:
				return genDirect(r, tier, false)
			case x < 10:
				return genDirect(r, tier, true)
			case x < 13:
				return genGrowShrink(r, tier)
			case x < 19:
				return genWrapper(r, tier)
			}
			return genMalformed(r)
		},
		Run: runIsolated,
		TOnly: func(line string) bool {
			return strings.HasPrefix(line, "owned ") || strings.HasPrefix(line, "cons ")
		},
		NonTrivial: func(c corr.Case, res corr.Result) bool {
			// at least three stored items at some point and a non-empty scan result
			ins, scans := 0, 0
			for i, l := range c.Lines {
				if strings.HasPrefix(l, "wrace ") && strings.HasPrefix(res.Outs[i], "a=") {
					scans++
				}
				if (strings.HasPrefix(l, "fill ") || strings.HasPrefix(l, "wfill ")) && res.Outs[i] != "bad-op" {
				ins += 3
			}
			if (strings.HasPrefix(l, "ins ") || strings.HasPrefix(l, "wins ")) && res.Outs[i] != "bad-op" {
					ins++
				}
				if (strings.HasPrefix(l, "scan ") || strings.HasPrefix(l, "wscan ")) && len(res.Outs[i]) > 2 && res.Outs[i][0] == '[' {
					scans++
				}
			}
			return ins >= 3 && scans >= 1
		},
		Classify: func(c corr.Case, line int, want, got string) string {
			f := strings.Fields(c.Lines[line])
			if len(f) == 0 {
				return "C03:corr:empty-line"
			}
			switch f[0] {
			case "scan":
				if len(f) > 2 {
					return "C03:corr:scan:" + f[2]
				}
			case "wscan":
				if len(f) > 1 {
					return "C03:corr:wscan:" + f[1]
				}
			}
			return "C03:corr:" + f[0]
		},
		Rule: "histories of insert/delete/deleteMin/deleteMax/get/min/max/len on btree.BTree (degrees 2..9, dense keys 1..K, K in 8..40) with all ten scan entry points at pivots -2..K+2 and early-stopping callbacks, clone programs (up to 5 handles, writes to either side, Clear with free-list reuse), grow-then-shrink runs with a structural check after every step, histories on the locked wrapper tree.BTree (Insert/Update/UpdateOrInsert/Delete/Get and the four limited, filtered scans with limits 0,1,2,3,5,1000 and negative), plus a malformed stream; a case is non-trivial when >= 3 inserts were accepted and >= 1 scan returned a non-empty list; distinct = distinct script text",
		Assumptions: []string{
			"items are ordered by an integer key (Less is a strict total order on keys); values only tell stored versions apart",
			"sync.RWMutex gives the wrapper's methods mutual exclusion (lock coverage is a regenerated fact); the theorems are about the sequential object",
			"copy-on-write contexts are compared by pointer identity; distinct allocations of the one-field struct have distinct addresses",
			"a negative limit passed to the wrapper's scans panics in make() — modelled as coded, outside the property's domain",
		},
		Trusted: []string{
			"modelled, not verified: sort.Search (as first index with key >= k on a strictly sorted list), Go slices (append/copy/truncate as list operations), sync.RWMutex, sync.Mutex of the free list",
			"hook (*btree.BTree).VerifCheck — the structural checker is itself hand-written Go",
		},
	}
}
