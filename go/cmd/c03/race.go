package main

import (
	"fmt"
	"os"
	"strconv"
	"strings"
	"sync"

	"github.com/pinealctx/neptune/ds/tree"
	"github.com/pinealctx/neptune/ds/tree/btree"

	"nvharness/lib/sched"
)

// Deterministic two-caller interleavings on the locked wrapper (`wrace <pos> <A> / <B>`).
//
// Items are user-defined (the tree only calls Less), so the item(s) handed to call A can park inside their pos-th
// comparison: A is then stopped in the middle of its work, holding whatever lock it took. B is started, the process
// is brought to quiescence (lib/sched: goroutine states, no sleeps deciding anything), A is released, quiescence
// again. Every method of the wrapper must be one critical section, so (result A, result B, contents) has to be what
// the sorted-set reference gives for A;B or for B;A.

type keyer interface{ key() int }

func (a kv) key() int { return a.k }

type gate struct {
	pos     int
	n       int
	release chan struct{}
	once    sync.Once
}

func (g *gate) open() { g.once.Do(func() { close(g.release) }) }

// gkv is a kv whose comparisons count on a gate; the pos-th one waits until the gate is opened.
type gkv struct {
	kv
	g *gate
}

func (a gkv) Less(b tree.Node) bool {
	if a.g != nil {
		a.g.n++
		if a.g.n == a.g.pos {
			<-a.g.release
		}
	}
	return a.k < b.(keyer).key()
}

type wrOp struct {
	kind string
	old  int
	x    kv
}

func parseWrOp(f []string) (wrOp, bool) {
	switch {
	case len(f) == 4 && (f[0] == "upd" || f[0] == "ups"):
		old, ok0 := pInt(f[1])
		k, ok1 := pInt(f[2])
		v, ok2 := pNat(f[3])
		return wrOp{kind: f[0], old: old, x: kv{k, v}}, ok0 && ok1 && ok2
	case len(f) == 2 && (f[0] == "del" || f[0] == "get"):
		k, ok := pInt(f[1])
		return wrOp{kind: f[0], old: k}, ok
	case len(f) == 3 && f[0] == "ins":
		k, ok1 := pInt(f[1])
		v, ok2 := pNat(f[2])
		return wrOp{kind: "ins", x: kv{k, v}}, ok1 && ok2
	}
	return wrOp{}, false
}

// item wraps a value for the implementation: gated when the call is the one to be parked. Only lookup keys are gated,
// except for a parked Insert, whose (gated) item is what gets stored — every read-back goes through plain().
func item(x kv, g *gate) tree.Node {
	if g == nil {
		return x
	}
	return gkv{x, g}
}

func plain(n tree.Node) (kv, bool) {
	switch y := n.(type) {
	case kv:
		return y, true
	case gkv:
		return y.kv, true
	case btree.Int:
		return kv{int(y), 0}, true
	}
	return kv{}, false
}

func (o wrOp) run(b *tree.BTree, g *gate) string {
	switch o.kind {
	case "upd":
		return strconv.FormatBool(b.Update(item(kv{k: o.old}, g), o.x))
	case "ups":
		return strconv.FormatBool(b.UpdateOrInsert(item(kv{k: o.old}, g), o.x))
	case "del":
		return strconv.FormatBool(b.Delete(item(kv{k: o.old}, g)))
	case "ins":
		b.Insert(item(o.x, g))
		return "ok"
	case "get":
		n := b.Get(item(kv{k: o.old}, g))
		if n == nil {
			return "nil"
		}
		y, _ := plain(n)
		return showKV(y)
	}
	return "?"
}

// on the sorted-set reference
func (o wrOp) spec(r *ref) string {
	switch o.kind {
	case "upd":
		if _, had := r.get(o.old); had {
			r.del(o.old)
			r.put(o.x)
			return "true"
		}
		return "false"
	case "ups":
		_, had := r.del(o.old)
		r.put(o.x)
		return strconv.FormatBool(had)
	case "del":
		_, had := r.del(o.old)
		return strconv.FormatBool(had)
	case "ins":
		r.put(o.x)
		return "ok"
	case "get":
		return optItem(r.get(o.old))
	}
	return "?"
}

func (o wrOp) name() string {
	return map[string]string{"upd": "Update", "ups": "UpdateOrInsert", "del": "Delete", "ins": "Insert", "get": "Get"}[o.kind]
}

type harnessFatal struct{ msg string }

func (w *world) race(f []string) string {
	if !w.wrapper || w.w == nil || len(f) < 5 {
		return "bad-op"
	}
	pos, ok := pNat(f[1])
	sep := -1
	for i, t := range f {
		if t == "/" && sep < 0 {
			sep = i
		}
	}
	if !ok || pos < 1 || pos > 50 || sep < 3 {
		return "bad-op"
	}
	a, oka := parseWrOp(f[2:sep])
	b, okb := parseWrOp(f[sep+1:])
	if !oka || !okb {
		return "bad-op"
	}
	r := w.refs[0]
	// the two sequential histories, from the reference
	ab, ba := r.clone(), r.clone()
	abA := a.spec(ab)
	abB := b.spec(ab)
	baB := b.spec(ba)
	baA := a.spec(ba)

	s := sched.New()
	s.Ignore = append(s.Ignore, "main.hangWatchdog") // the worker's watchdog sleeps in a loop; it never touches the tree
	g := &gate{pos: pos, release: make(chan struct{})}
	ta := s.Go("A", func() string { return a.run(w.w, g) })
	if err := s.Settle(); err != nil {
		g.open()
		panic(harnessFatal{err.Error()})
	}
	tb := s.Go("B", func() string { return b.run(w.w, nil) })
	if err := s.Settle(); err != nil {
		g.open()
		panic(harnessFatal{err.Error()})
	}
	midA, midB := ta.State(), tb.State()
	g.open()
	if err := s.Settle(); err != nil {
		panic(harnessFatal{err.Error()})
	}
	if len(s.Leaked()) > 0 {
		w.dead = true
		w.hit("tree:concurrent:stuck-caller", fmt.Sprintf("%s: after the parked call was released, %d caller(s) never returned (A %s, B %s)",
			strings.Join(f, " "), len(s.Leaked()), ta.State(), tb.State()))
		return "stuck"
	}
	_, resA := ta.Done()
	_, resB := tb.Done()
	var got []kv
	w.w.VerifInner().Ascend(func(i btreeItem) bool {
		if y, ok := plain(i); ok {
			got = append(got, y)
		}
		return true
	})
	okAB := resA == abA && resB == abB && eqKVs(got, ab.items)
	okBA := resA == baA && resB == baB && eqKVs(got, ba.items)
	if !okAB && !okBA {
		w.hit("tree:"+a.name()+":not-atomic-with-concurrent-caller", fmt.Sprintf(
			"%s on %s: A parked in its comparison #%d (then A %s, B %s), released: A=%s B=%s contents=%s — neither A;B (A=%s B=%s %s) nor B;A (A=%s B=%s %s)",
			strings.Join(f[2:], " "), showKVs(r.items), pos, midA, midB, resA, resB, showKVs(got),
			abA, abB, showKVs(ab.items), baA, baB, showKVs(ba.items)))
	}
	r.items = append([]kv(nil), got...)
	if err := w.w.VerifInner().VerifCheck(); err != nil {
		w.hit("tree:VerifCheck:"+errKind(err)[4:], fmt.Sprintf("after %s: %v", strings.Join(f, " "), err))
	}
	return fmt.Sprintf("a=%s b=%s items=%s", resA, resB, showKVs(got))
}

// fatalExit ends the process with a harness error. In the worker process the exit status is 3 (the Go runtime's own
// fatal errors use 2, which must stay distinguishable: those are the implementation's crashes); the parent turns 3
// into the harness-error status 2 of the runner.
func fatalExit(msg string) {
	fmt.Fprintln(os.Stderr, "harness error:", msg)
	if isWorker {
		os.Exit(3)
	}
	os.Exit(2)
}
