package main

import (
	"bufio"
	"bytes"
	"encoding/json"
	"fmt"
	"io"
	"os"
	"os/exec"
	"runtime"
	"runtime/debug"
	"strings"
	"sync"
	"sync/atomic"
	"time"

	"nvharness/lib/corr"
)

// A fatal runtime error of the implementation (stack overflow on a structure that is no longer a tree) cannot be
// recovered in-process. Scripts are therefore executed in a worker process (`c03 worker`): one JSON request line
// per script, one JSON reply line. If the worker dies or does not answer, the script is reported as a crash with
// the runtime's message, and a new worker is started.

type wreq struct {
	Lines []string `json:"lines"`
}

type wrep struct {
	Outs    []string   `json:"outs"`
	Hits    []corr.Hit `json:"hits"`
	Recycle bool       `json:"recycle,omitempty"` // the worker ends after this reply; start a new one
}

var recycleWorker bool
var isWorker bool

// The line being executed (worker side), for the watchdog below.
var curLine atomic.Value // string
var curLineStart atomic.Int64

func lineBegin(l string) { curLine.Store(strings.TrimSpace(l)); curLineStart.Store(time.Now().UnixNano()) }
func lineEnd()           { curLineStart.Store(0) }

// hangWatchdog: an API call that never returns (a mutex left locked, a lost wake-up) must become a verdict with the
// script as replay, not a dead or stuck harness. Wall-clock time alone is never evidence; the scheduler state is: once
// a line has been running for `after`, three goroutine dumps taken `gap` apart in which EVERY goroutine (other than
// this one) is parked on a lock / channel / wait group / condition, in the same state each time, and none is running,
// runnable, sleeping on a timer, or in a system call or I/O, show that nothing in the process can make progress any
// more. The worker then names the line on stderr (`C03-HANG <line>`) and ends with exit code 4; the parent reports
// `C03:impl:api-call-never-returns` for the script.
func hangWatchdog() {
	after, gap := time.Second, 200*time.Millisecond
	if os.Getenv("C03_HANGFAST") != "" { // the parent has already seen a confirmed hang of this implementation
		after, gap = 60*time.Millisecond, 25*time.Millisecond
	}
	buf := make([]byte, 1<<20)
	snapshot := func() (string, bool) { // (states, nothing can run)
		n := runtime.Stack(buf, true)
		var st []string
		for i, g := range strings.Split(string(buf[:n]), "\n\n") {
			h := g
			if k := strings.IndexByte(h, '\n'); k >= 0 {
				h = h[:k]
			}
			if i == 0 || !strings.HasPrefix(h, "goroutine ") {
				continue // the first block is this goroutine
			}
			a, b := strings.IndexByte(h, '['), strings.LastIndexByte(h, ']')
			if a < 0 || b < a {
				return "", false
			}
			state := h[a+1 : b]
			if k := strings.IndexByte(state, ','); k >= 0 {
				state = state[:k] // drop ", 2 minutes", ", locked to thread"
			}
			switch state {
			case "chan receive", "chan send", "select", "select (no cases)", "semacquire", "sync.Mutex.Lock",
				"sync.RWMutex.Lock", "sync.RWMutex.RLock", "sync.WaitGroup.Wait", "sync.Cond.Wait",
				"chan receive (nil chan)", "chan send (nil chan)":
			default:
				return "", false // running, runnable, sleep, syscall, IO wait, GC …: progress is possible
			}
			if state == "semacquire" {
				// only inside package sync: a goroutine that allocates during this dump's own stop-the-world also
				// shows as [semacquire], with a user frame on top — it is running
				ls := strings.SplitN(g, "\n", 3)
				if len(ls) < 2 || !strings.HasPrefix(ls[1], "sync.") {
					return "", false
				}
			}
			st = append(st, h[:a]+state)
		}
		return strings.Join(st, ";"), len(st) > 0
	}
	for {
		time.Sleep(gap)
		t0 := curLineStart.Load()
		if t0 == 0 || time.Since(time.Unix(0, t0)) < after {
			continue
		}
		s1, ok := snapshot()
		same := ok
		for k := 0; k < 2 && same; k++ {
			time.Sleep(gap)
			s2, ok2 := snapshot()
			same = ok2 && s2 == s1 && curLineStart.Load() == t0
		}
		if !same {
			continue
		}
		l, _ := curLine.Load().(string)
		n := runtime.Stack(buf, true)
		where := ""
		for _, g := range strings.Split(string(buf[:n]), "\n\n") {
			if strings.Contains(g, "github.com/pinealctx/neptune/") {
				ls := strings.Split(g, "\n")
				for i := 1; i < len(ls) && i < 8; i++ {
					if !strings.HasPrefix(ls[i], "\t") && strings.Contains(ls[i], "neptune/") {
						where = strings.TrimSpace(ls[i])
						break
					}
				}
				if k := strings.IndexByte(ls[0], '['); k >= 0 && where != "" {
					where = strings.TrimSuffix(strings.TrimSpace(ls[0][k:]), ":") + " in " + where
				}
				break
			}
		}
		fmt.Fprintf(os.Stderr, "C03-HANG %s | every goroutine is parked and none can run: %s\n", l, where)
		os.Exit(4)
	}
}

func workerMain() {
	isWorker = true
	debug.SetMaxStack(48 << 20) // fail fast on runaway recursion
	go hangWatchdog()
	in := bufio.NewReaderSize(os.Stdin, 1<<20)
	out := bufio.NewWriter(os.Stdout)
	for {
		line, err := in.ReadBytes('\n')
		if len(line) > 0 {
			var rq wreq
			if json.Unmarshal(line, &rq) == nil {
				res := runCase(corr.Case{Lines: rq.Lines})
				b, _ := json.Marshal(wrep{Outs: res.Outs, Hits: res.Hits, Recycle: recycleWorker})
				out.Write(b)
				out.WriteByte('\n')
				out.Flush()
				if recycleWorker {
					return
				}
			}
		}
		if err != nil {
			return
		}
	}
}

type tailBuf struct {
	mu sync.Mutex
	b  bytes.Buffer
}

func (t *tailBuf) Write(p []byte) (int, error) {
	t.mu.Lock()
	defer t.mu.Unlock()
	if t.b.Len() < 1<<16 {
		t.b.Write(p)
	}
	return len(p), nil
}

func (t *tailBuf) reset() {
	t.mu.Lock()
	t.b.Reset()
	t.mu.Unlock()
}

// pending returns the argument of the last `marker` line that was not followed by its `-DONE` line.
func (t *tailBuf) pending(marker string) (string, bool) {
	t.mu.Lock()
	defer t.mu.Unlock()
	open, arg := false, ""
	for _, l := range strings.Split(t.b.String(), "\n") {
		switch {
		case strings.HasPrefix(l, marker+"-DONE"):
			open = false
		case strings.HasPrefix(l, marker+" "):
			open, arg = true, strings.TrimPrefix(l, marker+" ")
		}
	}
	return arg, open
}

func (t *tailBuf) head() string {
	t.mu.Lock()
	defer t.mu.Unlock()
	s := t.b.String()
	for _, l := range strings.Split(s, "\n") {
		if strings.HasPrefix(l, "fatal error:") || strings.HasPrefix(l, "panic:") || strings.HasPrefix(l, "runtime:") {
			return l
		}
	}
	if len(s) > 200 {
		s = s[:200]
	}
	return s
}

type worker struct {
	cmd  *exec.Cmd
	in   io.WriteCloser
	out  *bufio.Reader
	errb *tailBuf
}

var curWorker *worker
var hangSeen bool // a hang of this implementation has been confirmed: later workers confirm faster

func startWorker() (*worker, error) {
	cmd := exec.Command(os.Args[0], "worker")
	if hangSeen {
		cmd.Env = append(os.Environ(), "C03_HANGFAST=1")
	}
	in, err := cmd.StdinPipe()
	if err != nil {
		return nil, err
	}
	outp, err := cmd.StdoutPipe()
	if err != nil {
		return nil, err
	}
	eb := &tailBuf{}
	cmd.Stderr = eb
	if err := cmd.Start(); err != nil {
		return nil, err
	}
	return &worker{cmd: cmd, in: in, out: bufio.NewReaderSize(outp, 1<<20), errb: eb}, nil
}

func (w *worker) kill() {
	_ = w.in.Close()
	_ = w.cmd.Process.Kill()
	_, _ = w.cmd.Process.Wait()
}

// harnessDied: the worker stopped itself with a harness error (exit 3) — pass it on instead of blaming the implementation.
func (w *worker) harnessDied() (string, bool) {
	_ = w.in.Close()
	done := make(chan error, 1)
	go func() { done <- w.cmd.Wait() }()
	select {
	case err := <-done:
		if ee, ok := err.(*exec.ExitError); ok && ee.ExitCode() == 3 {
			w.errb.mu.Lock()
			defer w.errb.mu.Unlock()
			return w.errb.b.String(), true
		}
	case <-time.After(2 * time.Second):
	}
	return "", false
}

// runIsolated executes a script in the worker process.
func runIsolated(c corr.Case) corr.Result {
	var eb *tailBuf
	crash := func(msg string) corr.Result {
		outs := make([]string, len(c.Lines))
		for i := range outs {
			outs[i] = "crash"
		}
		key, what := "C03:impl:fatal-runtime-error", "the implementation brought the process down while executing the script: "+msg
		if eb != nil {
			if call, hung := eb.pending("C03-HANG"); hung {
				hangSeen = true
				key = "C03:impl:api-call-never-returns"
				what = "the call never returns (deadlock): `" + strings.Replace(call, " | ", "` — ", 1)
			} else if call, open := eb.pending("C03-BIGLIMIT"); open {
				key = "C03:tree:iterWalk:limit-panics-or-exhausts-memory"
				what = "`" + call + "` brought the process down (" + msg + ") — the first n matching items exist and are few"
			} else if _, open := eb.pending("C03-PAR"); open {
				key = "C03:concurrency:clone-writers:crash"
				what = "writers on a tree and its clones running concurrently brought the process down: " + msg
			}
		}
		return corr.Result{Outs: outs, Hits: []corr.Hit{{Key: key, What: what}}}
	}
	if os.Getenv("C03_INPROC") != "" {
		return runCase(c) // e.g. a `-race` build, whose reports must reach this process's stderr
	}
	if curWorker == nil {
		w, err := startWorker()
		if err != nil {
			return runCase(c) // no isolation available: run in-process
		}
		curWorker = w
	}
	w := curWorker
	eb = w.errb
	eb.reset()
	b, _ := json.Marshal(wreq{Lines: c.Lines})
	if _, err := w.in.Write(append(b, '\n')); err != nil {
		msg := w.errb.head()
		w.kill()
		curWorker = nil
		return crash(msg)
	}
	type reply struct {
		line []byte
		err  error
	}
	ch := make(chan reply, 1)
	go func() {
		l, err := w.out.ReadBytes('\n')
		ch <- reply{l, err}
	}()
	select {
	case r := <-ch:
		var rp wrep
		if r.err != nil || json.Unmarshal(r.line, &rp) != nil || len(rp.Outs) != len(c.Lines) {
			if msg, yes := w.harnessDied(); yes {
				fmt.Fprintln(os.Stderr, msg)
				os.Exit(2)
			}
			time.Sleep(20 * time.Millisecond) // let stderr arrive
			msg := w.errb.head()
			w.kill()
			curWorker = nil
			return crash(msg)
		}
		if rp.Recycle {
			w.kill()
			curWorker = nil
		}
		return corr.Result{Outs: rp.Outs, Hits: rp.Hits}
	case <-time.After(300 * time.Second):
		w.kill()
		fmt.Fprintln(os.Stderr, "harness error: worker gave no answer within 300 s (wall clock): no verdict")
		os.Exit(2)
		return corr.Result{}
	}
}
