// Command surface computes the "declaration surface" of the Go code a property is anchored in: everything that can
// change its behaviour WITHOUT touching a function body pinned by the property's own facts.
//
//	surface <repo> <arg>...      arg = "dir" (whole package) or "dir=a.go,b.go" (anchored files of that package)
//
// Output: JSON {"<arg>": {item: digest}, "closure:<dir>": {…}, "module": {…}}.
//
//   - anchored files: every type / var / const declaration, every function signature (receiver kind and parameter TYPES,
//     not names), every function body (`:ctorbody` for constructors / option functions New*, new*, build*, default*,
//     setup*, init*, With*, Use*, Range*; `:body` for the rest), the file's build constraints, package clause and
//     imports, and the number of `/` and `%` operations with a non-literal divisor (a new division is a new way to
//     panic that a total Lean model cannot see);
//   - every other non-test file of the same package: a digest of the whole file (tokens, comments dropped);
//   - hook files (verif_hooks.go, `//go:build verif`): a digest of the whole file — they are part of the harness build
//     and must not be able to mask a defect;
//   - any top-level declaration, in any file of these packages, whose name is a predeclared identifier (len, copy,
//     append, recover, false, …): reported as `shadow:<name>`;
//   - "closure": every package of this module imported (transitively) by the anchored packages — one digest per file;
//   - "module": go.mod's require / replace / exclude directives, the presence of any go.work / go.work.sum / vendor
//     directory / nested go.mod anywhere in the tree (they redirect dependencies, or carve packages out of the module,
//     for builds made inside the repository only), every write to (or address-of) a package-level
//     variable of an anchored or closure package from any other package of the module (`extwrite:`), and every string
//     literal elsewhere in the module that names an exported type of an anchored package as "pkg.Type" (`extname:` —
//     registries keyed by type name re-bind a type's codec without importing it).
//
// bin/check compares this with the committed expectation meta/surface/<Cxx>.json on every run.
package main

import (
	"bytes"
	"crypto/sha1"
	"encoding/hex"
	"encoding/json"
	"fmt"
	"go/ast"
	"go/parser"
	"go/printer"
	"go/scanner"
	"go/token"
	"os"
	"path/filepath"
	"regexp"
	"sort"
	"strconv"
	"strings"
)

const modPath = "github.com/pinealctx/neptune"

var universe = map[string]bool{}

func init() {
	for _, n := range strings.Fields(`append cap clear close complex copy delete imag len make max min new panic print println real recover
		bool byte comparable complex64 complex128 error float32 float64 int int8 int16 int32 int64 rune string uint uint8
		uint16 uint32 uint64 uintptr any true false iota nil`) {
		universe[n] = true
	}
}

// tokens renders source as its token stream (comments dropped, literals verbatim), one blank between tokens.
func tokens(src []byte) string {
	var sc scanner.Scanner
	fs := token.NewFileSet()
	file := fs.AddFile("", fs.Base(), len(src))
	sc.Init(file, src, nil, 0)
	var out []string
	for {
		_, tok, lit := sc.Scan()
		if tok == token.EOF {
			break
		}
		switch {
		case tok == token.SEMICOLON && lit == "\n":
			out = append(out, ";")
		case lit != "":
			out = append(out, lit)
		default:
			out = append(out, tok.String())
		}
	}
	return strings.Join(out, " ")
}

func norm(fset *token.FileSet, n ast.Node) string {
	var b bytes.Buffer
	_ = printer.Fprint(&b, fset, n)
	return tokens(b.Bytes())
}

func sha(s string) string {
	h := sha1.Sum([]byte(s))
	return hex.EncodeToString(h[:6])
}

func recvOf(fd *ast.FuncDecl, fset *token.FileSet) string {
	if fd.Recv == nil || len(fd.Recv.List) == 0 {
		return ""
	}
	return "(" + norm(fset, fd.Recv.List[0].Type) + ")."
}

func isCtor(name string) bool {
	l := strings.ToLower(name)
	for _, p := range []string{"new", "build", "default", "setup", "init", "with", "use", "range"} {
		if strings.HasPrefix(l, p) {
			return true
		}
	}
	return false
}

// sigTypes renders a function type by its parameter and result types, without names.
func sigTypes(fset *token.FileSet, ft *ast.FuncType) string {
	list := func(fl *ast.FieldList) string {
		if fl == nil {
			return ""
		}
		var parts []string
		for _, f := range fl.List {
			n := len(f.Names)
			if n == 0 {
				n = 1
			}
			for i := 0; i < n; i++ {
				parts = append(parts, norm(fset, f.Type))
			}
		}
		return strings.Join(parts, ",")
	}
	tp := ""
	if ft.TypeParams != nil {
		tp = "[" + list(ft.TypeParams) + "]"
	}
	return "func" + tp + "(" + list(ft.Params) + ")(" + list(ft.Results) + ")"
}

func constraints(f *ast.File) []string {
	var cons []string
	for _, cg := range f.Comments {
		if cg.Pos() > f.Package {
			break
		}
		for _, c := range cg.List {
			if strings.HasPrefix(c.Text, "//go:build") || strings.HasPrefix(c.Text, "// +build") {
				cons = append(cons, strings.TrimSpace(c.Text))
			}
		}
	}
	return cons
}

func goFiles(repo, dir string) []string {
	ents, err := os.ReadDir(filepath.Join(repo, dir))
	if err != nil {
		return nil
	}
	var files []string
	for _, e := range ents {
		n := e.Name()
		if e.IsDir() || !strings.HasSuffix(n, ".go") || strings.HasSuffix(n, "_test.go") {
			continue
		}
		files = append(files, n)
	}
	sort.Strings(files)
	return files
}

// shadows adds an item for every top-level declaration named like a predeclared identifier.
func shadows(items map[string]string, fset *token.FileSet, f *ast.File, file string) {
	add := func(name string, n ast.Node) {
		if universe[name] {
			items["shadow:"+name+"@"+file] = sha(norm(fset, n))
		}
	}
	for _, d := range f.Decls {
		switch x := d.(type) {
		case *ast.FuncDecl:
			if x.Recv == nil {
				add(x.Name.Name, x)
			}
		case *ast.GenDecl:
			for _, sp := range x.Specs {
				switch s := sp.(type) {
				case *ast.TypeSpec:
					add(s.Name.Name, s)
				case *ast.ValueSpec:
					for _, id := range s.Names {
						add(id.Name, s)
					}
				}
			}
		}
	}
}

func divmods(n ast.Node) int {
	c := 0
	ast.Inspect(n, func(x ast.Node) bool {
		switch e := x.(type) {
		case *ast.BinaryExpr:
			if e.Op == token.QUO || e.Op == token.REM {
				if _, lit := e.Y.(*ast.BasicLit); !lit {
					c++
				}
			}
		case *ast.AssignStmt:
			if e.Tok == token.QUO_ASSIGN || e.Tok == token.REM_ASSIGN {
				c++
			}
		}
		return true
	})
	return c
}

// pkgItems computes the items of one package. anchored == nil: every file in full detail.
func pkgItems(repo, dir string, anchored map[string]bool, digestOnly bool) (map[string]string, []string) {
	items := map[string]string{}
	var imports []string
	files := goFiles(repo, dir)
	if files == nil {
		items["!error"] = "cannot read " + dir
		return items, nil
	}
	for _, n := range files {
		path := filepath.Join(repo, dir, n)
		src, err := os.ReadFile(path)
		if err != nil {
			items["file:"+n] = "read-error"
			continue
		}
		fset := token.NewFileSet()
		f, err := parser.ParseFile(fset, path, src, parser.ParseComments)
		if err != nil {
			items["file:"+n] = "parse-error"
			continue
		}
		for _, im := range f.Imports {
			if p, err := strconv.Unquote(im.Path.Value); err == nil {
				imports = append(imports, p)
			}
		}
		cons := constraints(f)
		shadows(items, fset, f, n)
		isHook := n == "verif_hooks.go"
		full := !digestOnly && !isHook && (anchored == nil || anchored[n])
		if !full {
			kind := "digest:"
			if isHook {
				kind = "hook:"
			}
			items[kind+n] = sha(strings.Join(cons, ";") + "|" + tokens(src))
			continue
		}
		var imps []string
		for _, im := range f.Imports {
			imps = append(imps, norm(fset, im))
		}
		sort.Strings(imps)
		items["file:"+n] = sha(strings.Join(cons, ";") + "|" + f.Name.Name + "|" + strings.Join(imps, ","))
		items["divmod:"+n] = strconv.Itoa(divmods(f))
		blank, inits := 0, 0
		for _, d := range f.Decls {
			switch x := d.(type) {
			case *ast.GenDecl:
				if x.Tok == token.IMPORT {
					continue
				}
				for _, sp := range x.Specs {
					switch s := sp.(type) {
					case *ast.TypeSpec:
						items["type:"+s.Name.Name] = sha(norm(fset, s))
					case *ast.ValueSpec:
						var names []string
						for _, id := range s.Names {
							names = append(names, id.Name)
						}
						key := strings.Join(names, ",")
						if key == "_" {
							blank++
							key = fmt.Sprintf("_#%d@%s", blank, n)
						}
						txt := norm(fset, s)
						if x.Tok == token.CONST {
							txt = norm(fset, x) // iota-based constants depend on their position in the group
						}
						items[x.Tok.String()+":"+key] = sha(txt)
					}
				}
			case *ast.FuncDecl:
				key := "func:" + recvOf(x, fset) + x.Name.Name
				if x.Name.Name == "init" && x.Recv == nil {
					inits++
					key = fmt.Sprintf("func:init#%d@%s", inits, n)
				}
				items[key+":sig"] = sha(recvOf(x, fset) + sigTypes(fset, x.Type))
				if x.Body != nil {
					kind := ":body"
					if isCtor(x.Name.Name) {
						kind = ":ctorbody"
					}
					items[key+kind] = sha(norm(fset, x.Body))
				}
			}
		}
	}
	return items, imports
}

var writeRe = regexp.MustCompile(`^\w+$`)

// extWrites finds writes to (or address-of) package-level variables of the target packages from other packages.
func extWrites(repo string, targets map[string]bool, typeNames map[string]string) map[string]string {
	items := map[string]string{}
	_ = filepath.Walk(repo, func(path string, info os.FileInfo, err error) error {
		if err != nil {
			return nil
		}
		if info.IsDir() {
			if info.Name() == ".git" || info.Name() == "vendor" || info.Name() == "testdata" {
				return filepath.SkipDir
			}
			return nil
		}
		if !strings.HasSuffix(path, ".go") || strings.HasSuffix(path, "_test.go") {
			return nil
		}
		rel, _ := filepath.Rel(repo, path)
		dir := filepath.ToSlash(filepath.Dir(rel))
		fset := token.NewFileSet()
		f, err := parser.ParseFile(fset, path, nil, parser.SkipObjectResolution)
		if err != nil {
			return nil
		}
		// a registry keyed by type NAME (jsoniter.RegisterTypeDecoder("tex.JsInt64", …), gob, reflection tables) re-binds
		// the behaviour of an anchored type without importing its package: any string literal naming one, outside its package
		ast.Inspect(f, func(n ast.Node) bool {
			if bl, ok := n.(*ast.BasicLit); ok && bl.Kind == token.STRING {
				if v, err := strconv.Unquote(bl.Value); err == nil {
					if d, ok := typeNames[strings.TrimPrefix(v, "*")]; ok && d != dir {
						items["extname:"+filepath.ToSlash(rel)+":"+v] = "1"
					}
				}
			}
			return true
		})
		alias := map[string]string{}
		for _, im := range f.Imports {
			p, _ := strconv.Unquote(im.Path.Value)
			if !strings.HasPrefix(p, modPath+"/") {
				continue
			}
			d := strings.TrimPrefix(p, modPath+"/")
			if !targets[d] || d == dir {
				continue
			}
			name := d[strings.LastIndex(d, "/")+1:]
			if im.Name != nil {
				name = im.Name.Name
			}
			alias[name] = d
		}
		if len(alias) == 0 {
			return nil
		}
		note := func(e ast.Expr, how string) {
			if s, ok := e.(*ast.SelectorExpr); ok {
				if id, ok := s.X.(*ast.Ident); ok && alias[id.Name] != "" && writeRe.MatchString(s.Sel.Name) {
					items["extwrite:"+filepath.ToSlash(rel)+":"+alias[id.Name]+"."+s.Sel.Name+":"+how] = "1"
				}
			}
		}
		ast.Inspect(f, func(n ast.Node) bool {
			switch x := n.(type) {
			case *ast.AssignStmt:
				for _, l := range x.Lhs {
					note(l, "assign")
				}
			case *ast.IncDecStmt:
				note(x.X, "incdec")
			case *ast.UnaryExpr:
				if x.Op == token.AND {
					note(x.X, "addr")
				}
			}
			return true
		})
		return nil
	})
	return items
}

func main() {
	if len(os.Args) < 3 {
		fmt.Fprintln(os.Stderr, "usage: surface <repo> <pkgdir>...")
		os.Exit(2)
	}
	repo := os.Args[1]
	out := map[string]map[string]string{}
	anchoredDirs := map[string]bool{}
	var queue []string
	for _, arg := range os.Args[2:] {
		dir, anchored := arg, map[string]bool(nil)
		if i := strings.Index(arg, "="); i >= 0 {
			dir = arg[:i]
			anchored = map[string]bool{}
			for _, f := range strings.Split(arg[i+1:], ",") {
				anchored[f] = true
			}
		}
		items, imports := pkgItems(repo, dir, anchored, false)
		out[arg] = items
		anchoredDirs[dir] = true
		queue = append(queue, imports...)
	}
	// import closure inside the module
	seen := map[string]bool{}
	for len(queue) > 0 {
		p := queue[0]
		queue = queue[1:]
		if !strings.HasPrefix(p, modPath+"/") {
			continue
		}
		d := strings.TrimPrefix(p, modPath+"/")
		if seen[d] || anchoredDirs[d] {
			continue
		}
		seen[d] = true
		items, imports := pkgItems(repo, d, nil, true)
		out["closure:"+d] = items
		queue = append(queue, imports...)
	}
	// module level
	mod := map[string]string{}
	if b, err := os.ReadFile(filepath.Join(repo, "go.mod")); err == nil {
		var keep []string
		for _, l := range strings.Split(string(b), "\n") {
			l = strings.TrimSpace(l)
			if i := strings.Index(l, "//"); i >= 0 {
				l = strings.TrimSpace(l[:i])
			}
			if l == "" || strings.HasPrefix(l, "go ") || strings.HasPrefix(l, "module ") || strings.HasPrefix(l, "toolchain ") {
				continue
			}
			keep = append(keep, strings.Join(strings.Fields(l), " "))
		}
		mod["gomod:require-replace-exclude"] = sha(strings.Join(keep, "\n"))
	}
	// files that change which code a build INSIDE the repository links, without touching go.mod (the harness builds with
	// its own modfile and -mod=mod, so it would never see them)
	_ = filepath.Walk(repo, func(path string, info os.FileInfo, err error) error {
		if err != nil {
			return nil
		}
		rel, _ := filepath.Rel(repo, path)
		rel = filepath.ToSlash(rel)
		if info.IsDir() {
			if info.Name() == ".git" {
				return filepath.SkipDir
			}
			if info.Name() == "vendor" {
				mod["buildfile:"+rel+"/"] = "present"
				return filepath.SkipDir
			}
			return nil
		}
		switch info.Name() {
		case "go.work", "go.work.sum":
			// the go command uses the NEAREST go.work above the working directory: one in a sub-directory counts too
			b, _ := os.ReadFile(path)
			mod["buildfile:"+rel] = sha(string(b))
		case "go.mod":
			if rel != "go.mod" { // a nested module carves its directory out of this one
				b, _ := os.ReadFile(path)
				mod["buildfile:"+rel] = sha(string(b))
			}
		}
		return nil
	})
	targets := map[string]bool{}
	for d := range anchoredDirs {
		targets[d] = true
	}
	for d := range seen {
		targets[d] = true
	}
	typeNames := map[string]string{}
	for d := range anchoredDirs {
		for _, n := range goFiles(repo, d) {
			fset := token.NewFileSet()
			f, err := parser.ParseFile(fset, filepath.Join(repo, d, n), nil, parser.SkipObjectResolution)
			if err != nil {
				continue
			}
			for _, dc := range f.Decls {
				if gd, ok := dc.(*ast.GenDecl); ok && gd.Tok == token.TYPE {
					for _, sp := range gd.Specs {
						if ts := sp.(*ast.TypeSpec); ts.Name.IsExported() {
							typeNames[f.Name.Name+"."+ts.Name.Name] = d
						}
					}
				}
			}
		}
	}
	for k, v := range extWrites(repo, targets, typeNames) {
		mod[k] = v
	}
	out["module"] = mod
	b, _ := json.MarshalIndent(out, "", " ")
	fmt.Println(string(b))
}
