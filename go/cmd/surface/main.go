// Command surface computes the "declaration surface" of Go packages of the repository: everything that can change
// the behaviour of the code a property is anchored in WITHOUT touching a function body pinned by that property's own
// facts — the file set and build constraints, imports, every top-level type/var/const declaration (struct field types,
// variable initialisers, constants), every function signature (receiver kind included), and the full bodies of
// init functions and of constructors (New*/new*/build*/default*). bin/check compares it with the committed
// expectation meta/surface/<Cxx>.json on every run; a difference is a broken tie obligation `Cxx:tie:surface:…`.
//
//	surface <repo> <pkgdir>...   prints JSON {"<pkgdir>": {"<item>": "<sha1 of normalised source>"}}
package main

import (
	"bytes"
	"crypto/sha1"
	"encoding/hex"
	"encoding/json"
	"fmt"
	"go/ast"
	"go/parser"
	"go/printer"
	"go/token"
	"os"
	"path/filepath"
	"sort"
	"strings"
)

func norm(fset *token.FileSet, n ast.Node) string {
	var b bytes.Buffer
	_ = printer.Fprint(&b, fset, n)
	return strings.Join(strings.Fields(b.String()), " ")
}

func sha(s string) string {
	h := sha1.Sum([]byte(s))
	return hex.EncodeToString(h[:6])
}

func recvOf(fd *ast.FuncDecl, fset *token.FileSet) string {
	if fd.Recv == nil || len(fd.Recv.List) == 0 {
		return ""
	}
	return "(" + norm(fset, fd.Recv.List[0].Type) + ")."
}

func isCtor(name string) bool {
	l := strings.ToLower(name)
	return name == "init" || strings.HasPrefix(l, "new") || strings.HasPrefix(l, "build") || strings.HasPrefix(l, "default") || strings.HasPrefix(l, "setup") ||
		strings.HasPrefix(l, "with") || strings.HasPrefix(l, "use") || strings.HasPrefix(l, "range")
}

func main() {
	if len(os.Args) < 3 {
		fmt.Fprintln(os.Stderr, "usage: surface <repo> <pkgdir>...")
		os.Exit(2)
	}
	repo := os.Args[1]
	out := map[string]map[string]string{}
	for _, arg := range os.Args[2:] {
		// "dir" = whole package; "dir=a.go,b.go" = full surface of the listed (anchored) files, and for the other
		// files of the package only their presence, build constraints and init functions
		dir, anchored := arg, map[string]bool(nil)
		if i := strings.Index(arg, "="); i >= 0 {
			dir = arg[:i]
			anchored = map[string]bool{}
			for _, f := range strings.Split(arg[i+1:], ",") {
				anchored[f] = true
			}
		}
		items := map[string]string{}
		ents, err := os.ReadDir(filepath.Join(repo, dir))
		if err != nil {
			items["!error"] = err.Error()
			out[arg] = items
			continue
		}
		var files []string
		for _, e := range ents {
			n := e.Name()
			if e.IsDir() || !strings.HasSuffix(n, ".go") || strings.HasSuffix(n, "_test.go") {
				continue
			}
			files = append(files, n)
		}
		sort.Strings(files)
		for _, n := range files {
			fset := token.NewFileSet()
			f, err := parser.ParseFile(fset, filepath.Join(repo, dir, n), nil, parser.ParseComments)
			if err != nil {
				items["file:"+n] = "parse-error"
				continue
			}
			// build constraints (comments before the package clause)
			var cons []string
			for _, cg := range f.Comments {
				if cg.Pos() > f.Package {
					break
				}
				for _, c := range cg.List {
					if strings.HasPrefix(c.Text, "//go:build") || strings.HasPrefix(c.Text, "// +build") {
						cons = append(cons, strings.TrimSpace(c.Text))
					}
				}
			}
			hook := n == "verif_hooks.go" && len(cons) == 1 && cons[0] == "//go:build verif"
			if hook {
				continue // the machinery's own add-only hook file, compiled only with the tag
			}
			var imps []string
			for _, im := range f.Imports {
				imps = append(imps, norm(fset, im))
			}
			sort.Strings(imps)
			full := anchored == nil || anchored[n]
			if full {
				items["file:"+n] = sha(strings.Join(cons, ";") + "|" + f.Name.Name + "|" + strings.Join(imps, ","))
			} else {
				items["file:"+n] = sha(strings.Join(cons, ";") + "|" + f.Name.Name)
			}
			for _, d := range f.Decls {
				if fd, ok := d.(*ast.FuncDecl); !full && !(ok && fd.Name.Name == "init" && fd.Recv == nil) {
					continue
				}
				switch x := d.(type) {
				case *ast.GenDecl:
					if x.Tok == token.IMPORT {
						continue
					}
					for _, sp := range x.Specs {
						switch s := sp.(type) {
						case *ast.TypeSpec:
							items["type:"+s.Name.Name] = sha(norm(fset, s))
						case *ast.ValueSpec:
							var names []string
							for _, id := range s.Names {
								names = append(names, id.Name)
							}
							// iota-based constants depend on their position: include the whole group text
							txt := norm(fset, s)
							if x.Tok == token.CONST {
								txt = norm(fset, x)
							}
							items[x.Tok.String()+":"+strings.Join(names, ",")] = sha(txt)
						}
					}
				case *ast.FuncDecl:
					key := "func:" + recvOf(x, fset) + x.Name.Name
					sig := sigTypes(fset, x.Type) // parameter and result TYPES only: renaming a parameter is not a surface change
					if x.Name.Name == "init" {
						key = fmt.Sprintf("func:init@%s", n)
					}
					items[key+":sig"] = sha(recvOf(x, fset) + sig)
					if isCtor(x.Name.Name) && x.Body != nil {
						cf := *x
						cf.Doc = nil
						stripped := stripComments(fset, &cf)
						items[key+":body"] = sha(stripped)
					}
				}
			}
		}
		out[arg] = items
	}
	b, _ := json.MarshalIndent(out, "", " ")
	fmt.Println(string(b))
}

// sigTypes renders a function type by its parameter and result types, without names.
func sigTypes(fset *token.FileSet, ft *ast.FuncType) string {
	list := func(fl *ast.FieldList) string {
		if fl == nil {
			return ""
		}
		var parts []string
		for _, f := range fl.List {
			n := len(f.Names)
			if n == 0 {
				n = 1
			}
			for i := 0; i < n; i++ {
				parts = append(parts, norm(fset, f.Type))
			}
		}
		return strings.Join(parts, ",")
	}
	tp := ""
	if ft.TypeParams != nil {
		tp = "[" + list(ft.TypeParams) + "]"
	}
	return "func" + tp + "(" + list(ft.Params) + ")(" + list(ft.Results) + ")"
}

// stripComments prints a function without comments (go/printer only prints comments attached to the file).
func stripComments(fset *token.FileSet, fd *ast.FuncDecl) string {
	return norm(fset, fd.Body)
}
