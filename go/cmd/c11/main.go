// Command c11: extractor and correspondence runner for property C11 (tex.Buffer ≡ bytes.Buffer).
//
// Every script line is executed on the real tex.Buffer AND on the standard bytes.Buffer; the output line has two
// halves (`T … ## B …`) that the oracle reproduces from the implementation-shaped model resp. the abstract buffer.
// The property monitor is the property itself: same results, errors, panics and unread contents on both buffers.
package main

import (
	"bytes"
	"context"
	"errors"
	"fmt"
	"io"
	"os"
	"os/exec"
	"runtime"
	"strconv"
	"strings"
	"sync"
	"sync/atomic"
	"syscall"
	"time"

	// every package of the module that imports tex is linked in, so that whatever their init functions do to tex's exported
	// variables (tex.ErrTooLarge is assignable) also happens in the harness
	_ "github.com/pinealctx/neptune/dl"
	_ "github.com/pinealctx/neptune/idgen/snowflake"
	_ "github.com/pinealctx/neptune/mpb"
	"github.com/pinealctx/neptune/tex"
	_ "github.com/pinealctx/neptune/vcode"

	"nvharness/lib/corr"
	_ "nvharness/lib/quiet"
)

func main() {
	if len(os.Args) < 2 {
		fmt.Fprintln(os.Stderr, "usage: c11 extract|corr|dump …")
		os.Exit(2)
	}
	switch os.Args[1] {
	case "extract":
		extract(os.Args[2], os.Args[3])
	case "dump":
		dump(os.Args[2])
	case "memprobe": // child process of the `memprobe` operation: Grow(n) on a zero buffer under a memory cap
		memprobeChild(os.Args[2], os.Args[3])
	case "corr":
		corr.Main(spec(), os.Args[2:])
	default:
		os.Exit(2)
	}
}

// ---------------------------------------------------------------- canonical text

const allocLimit = int64(1) << 48 // runtime maxAlloc on linux/amd64: make([]byte, n) panics beyond it
const execLimit = 1 << 27         // sizes the runner is willing to really allocate (128 MiB)

func fnv(d []byte) uint64 {
	h := uint64(0xcbf29ce484222325)
	for _, b := range d {
		h = (h ^ uint64(b)) * 0x100000001b3
	}
	return h
}

func showBytes(d []byte) string {
	switch {
	case len(d) == 0:
		return "-"
	case len(d) <= 24:
		return fmt.Sprintf("%x", d)
	}
	return fmt.Sprintf("#%d:%016x", len(d), fnv(d))
}

func parseBytes(s string) ([]byte, bool) {
	if s == "-" {
		return nil, true
	}
	if strings.HasPrefix(s, "x") {
		p := strings.Split(s[1:], ":")
		if len(p) != 2 {
			return nil, false
		}
		a, ok1 := parseNat(p[0])
		n, ok2 := parseNat(p[1])
		if !ok1 || !ok2 || n > 1000000 {
			return nil, false
		}
		out := make([]byte, n)
		for i := range out {
			out[i] = byte((a + 13*int64(i)) % 256)
		}
		return out, true
	}
	if len(s)%2 != 0 {
		return nil, false
	}
	out := make([]byte, 0, len(s)/2)
	for i := 0; i < len(s); i += 2 {
		hi, lo := hexVal(s[i]), hexVal(s[i+1])
		if hi < 0 || lo < 0 {
			return nil, false
		}
		out = append(out, byte(hi*16+lo))
	}
	return out, true
}

func hexVal(c byte) int {
	switch {
	case c >= '0' && c <= '9':
		return int(c - '0')
	case c >= 'a' && c <= 'f':
		return int(c-'a') + 10
	}
	return -1
}

func parseNat(s string) (int64, bool) {
	if s == "" {
		return 0, false
	}
	for _, c := range s {
		if c < '0' || c > '9' {
			return 0, false
		}
	}
	v, err := strconv.ParseInt(s, 10, 64)
	return v, err == nil
}

func parseInt(s string) (int64, bool) {
	if strings.HasPrefix(s, "-") {
		v, ok := parseNat(s[1:])
		if !ok {
			// MinInt64
			if s == "-9223372036854775808" {
				return -9223372036854775808, true
			}
			return 0, false
		}
		return -v, true
	}
	return parseNat(s)
}

var errRd = errors.New("scripted reader error")
var errWr = errors.New("scripted writer error")

func showErr(e error) string {
	switch {
	case e == nil:
		return "nil"
	case e == io.EOF:
		return "EOF"
	case e == io.ErrShortWrite:
		return "short"
	case e == errRd:
		return "rerr"
	case e == errWr:
		return "werr"
	// the error TEXT is part of "the same errors": only the exact message of the reference maps to the short name
	case e.Error() == "bytes.Buffer: UnreadByte: previous operation was not a successful read":
		return "unreadbyte"
	case e.Error() == "bytes.Buffer: UnreadRune: previous operation was not a successful ReadRune":
		return "unreadrune"
	}
	return "other:" + e.Error()
}

func showPanic(v interface{}) string {
	if e, ok := v.(runtime.Error); ok {
		msg := e.Error()
		switch {
		case strings.Contains(msg, "slice bounds out of range"):
			return "panic:slice-bounds"
		case strings.Contains(msg, "makeslice"):
			return "panic:makeslice"
		}
		return "panic:runtime:" + msg
	}
	var msg string
	switch x := v.(type) {
	case error:
		msg = x.Error()
	case string:
		msg = x
	default:
		msg = fmt.Sprint(v)
	}
	switch msg {
	case "bytes.Buffer: truncation out of range":
		return "panic:truncate-range"
	case "bytes.Buffer.Grow: negative count":
		return "panic:grow-negative"
	case "bytes.Buffer: too large":
		return "panic:too-large"
	case "bytes.Buffer: reader returned negative count from Read":
		return "panic:negative-read"
	case "bytes.Buffer.WriteTo: invalid Write count":
		return "panic:invalid-write-count"
	}
	return "panic:other:" + msg
}

// ---------------------------------------------------------------- the two buffers behind one interface

type bufAPI interface {
	Write(p []byte) (int, error)
	WriteString(s string) (int, error)
	WriteByte(c byte) error
	WriteRune(r rune) (int, error)
	Read(p []byte) (int, error)
	ReadByte() (byte, error)
	ReadRune() (rune, int, error)
	UnreadByte() error
	UnreadRune() error
	Next(n int) []byte
	Truncate(n int)
	Reset()
	Grow(n int)
	ReadFrom(r io.Reader) (int64, error)
	WriteTo(w io.Writer) (int64, error)
	Len() int
	Bytes() []byte
	String() string
	Cap() int
}

var _ bufAPI = (*tex.Buffer)(nil)
var _ bufAPI = (*bytes.Buffer)(nil)

type scriptReader struct {
	data   []byte
	sizes  []int
	tail   int
	term   string
	greedy bool // after the chunk list: fill whatever is offered until the data is used up (like bytes.Reader)
	i      int
}

func min3(a, b, c int) int {
	if b < a {
		a = b
	}
	if c < a {
		a = c
	}
	return a
}

func (r *scriptReader) Read(p []byte) (int, error) {
	if r.i < len(r.sizes) {
		k := min3(r.sizes[r.i], len(p), len(r.data))
		r.i++
		copy(p, r.data[:k])
		r.data = r.data[k:]
		return k, nil
	}
	if r.greedy && len(r.data) > 0 {
		k := copy(p, r.data)
		r.data = r.data[k:]
		return k, nil
	}
	switch r.term {
	case "neg":
		return -1, nil
	case "over":
		return len(p) + 1, nil
	}
	k := min3(r.tail, len(p), len(r.data))
	copy(p, r.data[:k])
	r.data = r.data[k:]
	if r.term == "eof" {
		return k, io.EOF
	}
	return k, errRd
}

type scriptWriter struct {
	mode   string
	k      int
	called bool
	got    []byte
}

func (w *scriptWriter) Write(p []byte) (int, error) {
	w.called = true
	w.got = append([]byte(nil), p...)
	switch w.mode {
	case "over":
		return len(p) + 1, nil
	case "short":
		if w.k < len(p) {
			return w.k, nil
		}
	case "err":
		if w.k < len(p) {
			return w.k, errWr
		}
		return len(p), errWr
	}
	return len(p), nil
}

type op struct {
	name   string
	alias  []byte // rewriteself: the payload really passed (a sub-slice of the buffer's own storage); data = its old contents
	data   []byte
	n      int64
	term   string
	greedy bool
	tail   int
	ks     []int
}

// parseOp mirrors the oracle's parser; ok=false means `bad-op`.
func parseOp(f []string) (op, bool) {
	var o op
	if len(f) == 0 {
		return o, false
	}
	o.name = f[0]
	oneData := func() bool {
		if len(f) != 2 {
			return false
		}
		d, ok := parseBytes(f[1])
		o.data = d
		return ok
	}
	oneInt := func() bool {
		if len(f) != 2 {
			return false
		}
		n, ok := parseInt(f[1])
		o.n = n
		return ok
	}
	switch f[0] {
	case "write", "writestr":
		return o, oneData()
	case "writebyte":
		return o, oneData() && len(o.data) == 1
	case "writerune":
		return o, oneInt() && o.n >= -2147483648 && o.n <= 2147483647
	case "read":
		if len(f) != 2 {
			return o, false
		}
		n, ok := parseNat(f[1])
		o.n = n
		return o, ok && n <= execLimit
	case "next", "truncate", "grow":
		return o, oneInt()
	case "readbyte", "readrune", "unreadbyte", "unreadrune", "reset", "len", "bytes", "string", "cap", "off":
		return o, len(f) == 1
	case "readfrom":
		if len(f) < 4 {
			return o, false
		}
		d, ok := parseBytes(f[1])
		if !ok {
			return o, false
		}
		o.data = d
		o.term = f[2]
		if strings.HasSuffix(o.term, "+") {
			o.term, o.greedy = o.term[:len(o.term)-1], true
		}
		if o.term != "eof" && o.term != "err" && o.term != "neg" && o.term != "over" {
			return o, false
		}
		t, ok := parseNat(f[3])
		if !ok {
			return o, false
		}
		o.tail = int(t)
		for _, s := range f[4:] {
			// chunk token `<k>` or `<k>*<n>`: n consecutive calls delivering up to k bytes each (`0*100` = 100 empty reads)
			parts := strings.Split(s, "*")
			if len(parts) > 2 {
				return o, false
			}
			k, ok := parseNat(parts[0])
			if !ok {
				return o, false
			}
			rep := int64(1)
			if len(parts) == 2 {
				if rep, ok = parseNat(parts[1]); !ok || rep > 1000 {
					return o, false
				}
			}
			for j := int64(0); j < rep; j++ {
				o.ks = append(o.ks, int(k))
			}
		}
		return o, true
	case "writeto":
		switch {
		case len(f) == 2 && (f[1] == "all" || f[1] == "over"):
			o.term = f[1]
			return o, true
		case len(f) == 3 && (f[1] == "short" || f[1] == "err"):
			o.term = f[1]
			k, ok := parseNat(f[2])
			o.n = k
			return o, ok
		}
		return o, false
	case "rewrite":
		if len(f) != 3 {
			return o, false
		}
		n, ok1 := parseInt(f[1])
		d, ok2 := parseBytes(f[2])
		o.n, o.data = n, d
		return o, ok1 && ok2
	}
	return o, false
}

// spaceDependent: a scripted reader that may hand over more than MinRead bytes in one call — how much it delivers then
// depends on the size of the slice it is offered, i.e. on the capacity policy (outside the compared domain, like Cap()).
func spaceDependent(o op) bool {
	if o.name != "readfrom" {
		return false
	}
	for _, k := range o.ks {
		if k > tex.MinRead {
			return true
		}
	}
	return o.tail > tex.MinRead
}

const memprobeCapMiB = 3072

// memprobe runs Grow(n) on a zero buffer of the given kind in a child process whose address space is capped, and
// classifies the outcome: ok | too-large (recoverable panic ErrTooLarge) | fatal (the runtime aborted: out of memory).
func memprobe(kind string, n int64) string {
	ctx, cancel := context.WithTimeout(context.Background(), 8*time.Second)
	defer cancel()
	cmd := exec.CommandContext(ctx, os.Args[0], "memprobe", kind, strconv.FormatInt(n, 10))
	var out, errb bytes.Buffer
	cmd.Stdout, cmd.Stderr = &out, &errb
	err := cmd.Run()
	res := strings.TrimSpace(out.String())
	switch {
	case err == nil && (res == "ok" || res == "too-large"):
		return res
	case strings.Contains(errb.String(), "out of memory") || strings.Contains(errb.String(), "cannot allocate"):
		return "fatal"
	}
	return "probe-error:" + strings.ReplaceAll(strings.TrimSpace(res+" "+firstLine(errb.String())), " ", "_")
}

func firstLine(s string) string {
	if i := strings.IndexByte(s, '\n'); i >= 0 {
		return s[:i]
	}
	return s
}

func memprobeChild(kind, ns string) {
	n, _ := strconv.ParseInt(ns, 10, 64)
	lim := syscall.Rlimit{Cur: memprobeCapMiB << 20, Max: memprobeCapMiB << 20}
	if err := syscall.Setrlimit(syscall.RLIMIT_AS, &lim); err != nil {
		fmt.Println("setrlimit-failed")
		os.Exit(3)
	}
	var b bufAPI = new(tex.Buffer)
	if kind == "bytes" {
		b = new(bytes.Buffer)
	}
	res := "ok"
	func() {
		defer func() {
			if r := recover(); r != nil {
				res = strings.TrimPrefix(showPanic(r), "panic:")
			}
		}()
		b.Grow(int(n))
	}()
	fmt.Println(res)
}

func offOf(b bufAPI) int { return b.Cap() - cap(b.Bytes()) }

// apply executes one operation; never panics.
func apply(b bufAPI, o op) (res string) {
	defer func() {
		if r := recover(); r != nil {
			res = showPanic(r)
		}
	}()
	switch o.name {
	case "write":
		n, err := b.Write(o.data)
		return fmt.Sprintf("n=%d err=%s", n, showErr(err))
	case "writestr":
		n, err := b.WriteString(string(o.data))
		return fmt.Sprintf("n=%d err=%s", n, showErr(err))
	case "writebyte":
		return "err=" + showErr(b.WriteByte(o.data[0]))
	case "writerune":
		n, err := b.WriteRune(rune(o.n))
		return fmt.Sprintf("n=%d err=%s", n, showErr(err))
	case "read":
		p := make([]byte, o.n)
		n, err := b.Read(p)
		return fmt.Sprintf("n=%d d=%s err=%s", n, showBytes(p[:n]), showErr(err))
	case "readbyte":
		c, err := b.ReadByte()
		return fmt.Sprintf("b=%02x err=%s", c, showErr(err))
	case "readrune":
		r, sz, err := b.ReadRune()
		return fmt.Sprintf("r=%d size=%d err=%s", r, sz, showErr(err))
	case "unreadbyte":
		return "err=" + showErr(b.UnreadByte())
	case "unreadrune":
		return "err=" + showErr(b.UnreadRune())
	case "next":
		return "d=" + showBytes(b.Next(int(o.n)))
	case "truncate":
		b.Truncate(int(o.n))
		return "ok"
	case "reset":
		b.Reset()
		return "ok"
	case "grow":
		if o.n > execLimit && o.n <= allocLimit {
			return "refused" // would really allocate; never generated
		}
		b.Grow(int(o.n))
		return "ok"
	case "readfrom":
		r := &scriptReader{data: append([]byte(nil), o.data...), sizes: o.ks, tail: o.tail, term: o.term, greedy: o.greedy}
		n, err := b.ReadFrom(r)
		return fmt.Sprintf("n=%d err=%s", n, showErr(err))
	case "writeto":
		w := &scriptWriter{mode: o.term, k: int(o.n)}
		n, err := b.WriteTo(w)
		got := "none"
		if w.called {
			got = showBytes(w.got)
		}
		return fmt.Sprintf("n=%d got=%s err=%s", n, got, showErr(err))
	case "len":
		return strconv.Itoa(b.Len())
	case "bytes":
		return "d=" + showBytes(b.Bytes())
	case "string":
		return "d=" + showBytes([]byte(b.String()))
	case "cap":
		return strconv.Itoa(b.Cap())
	case "off":
		return strconv.Itoa(offOf(b))
	}
	return "bad-op"
}

func view(b bufAPI) (s string) {
	defer func() {
		if r := recover(); r != nil {
			s = "view-" + showPanic(r)
		}
	}()
	return fmt.Sprintf("len=%d d=%s", b.Len(), showBytes(b.Bytes()))
}

var methodOf = map[string]string{"write": "Write", "writestr": "WriteString", "writebyte": "WriteByte", "writerune": "WriteRune",
	"read": "Read", "readbyte": "ReadByte", "readrune": "ReadRune", "unreadbyte": "UnreadByte", "unreadrune": "UnreadRune",
	"next": "Next", "truncate": "Truncate", "reset": "Reset", "grow": "Grow", "readfrom": "ReadFrom", "writeto": "WriteTo",
	"len": "Len", "bytes": "Bytes", "string": "String"}

// session is the state of one script.
type session struct {
	t        *tex.Buffer
	b        *bytes.Buffer
	taint    bool // a Grow happened and nothing since has (re)assigned lastRead
	desync   bool // left the domain compared with bytes.Buffer (the property's exclusion, or ReWrite)
	diverged bool // a monitor already fired in this script: later differences are consequences
	started  bool
	pristine bool     // nothing was read since the buffer was created / Reset / Truncate(0) / completely drained by WriteTo
	dead     bool     // an operation of this script never returned: the buffers are abandoned
	stage    atomic.Value // "tex" | "bytes": which buffer the current operation runs on (for the watchdog's report)
	hl       *hitList
}

// hitList survives re-initialisation of the session and is shared with a watchdog
type hitList struct {
	mu   sync.Mutex
	hits []corr.Hit
}

func (s *session) hit(site, what, detail string) {
	if s.hl == nil {
		s.hl = &hitList{}
	}
	s.hl.mu.Lock()
	s.hl.hits = append(s.hl.hits, corr.Hit{Key: "C11:" + site + ":" + what, What: detail})
	s.hl.mu.Unlock()
}

func (s *session) hits() []corr.Hit {
	if s.hl == nil {
		return nil
	}
	s.hl.mu.Lock()
	defer s.hl.mu.Unlock()
	return append([]corr.Hit(nil), s.hl.hits...)
}

// ---- watchdog: an operation of the code under test that does not return is a monitor hit, never a hang of the harness.
// The call runs in its own goroutine; when it misses the deadline the script is abandoned (the goroutine cannot be killed and
// keeps spinning until the process exits), so an operation name that hung 3 times is not executed any more.
var (
	hangMu    sync.Mutex
	hangCount = map[string]int{}
)

const opDeadline, opDeadlineAfterHang, maxHangsPerOp = 20 * time.Second, 3 * time.Second, 3

func (s *session) safeLine(l string) string {
	if s.dead {
		return "skipped-after-hang"
	}
	opn := strings.Fields(l + " ?")[0]
	hangMu.Lock()
	h := hangCount[opn]
	hangMu.Unlock()
	if h >= maxHangsPerOp {
		s.dead = true
		return "not-run:" + opn + "-hung-" + strconv.Itoa(h) + "-times"
	}
	deadline := opDeadline
	if h > 0 {
		deadline = opDeadlineAfterHang
	}
	if s.hl == nil {
		s.hl = &hitList{}
	}
	s.stage.Store("tex")
	done := make(chan string, 1)
	go func() {
		defer func() {
			if r := recover(); r != nil {
				done <- "runner-" + showPanic(r)
			}
		}()
		done <- s.line(l)
	}()
	select {
	case out := <-done:
		return out
	case <-time.After(deadline):
		s.dead = true
		hangMu.Lock()
		hangCount[opn]++
		hangMu.Unlock()
		m := methodOf[opn]
		if m == "" {
			m = opn
		}
		st, _ := s.stage.Load().(string)
		if st == "bytes" {
			s.hit(m, "reference-never-returns", fmt.Sprintf("op `%s` on bytes.Buffer did not return within %v", l, deadline))
			return "T ? ## B never-returns"
		}
		s.hit(m, "never-returns", fmt.Sprintf("op `%s` on tex.Buffer did not return within %v (CPU-bound or blocked inside the call); bytes.Buffer is not asked any more", l, deadline))
		return "T never-returns ## B *"
	}
}

func (s *session) init(f []string) (string, bool) {
	fresh := func(t *tex.Buffer, b *bytes.Buffer) {
		hl := s.hl
		*s = session{t: t, b: b, started: true, pristine: true, hl: hl}
	}
	switch f[0] {
	case "new":
		if len(f) != 1 {
			return "bad-op", true
		}
		fresh(new(tex.Buffer), new(bytes.Buffer))
		return "T ok " + view(s.t) + " ## B ok " + view(s.b), true
	case "news":
		if len(f) != 2 {
			return "bad-op", true
		}
		n, ok := parseInt(f[1])
		if !ok || (n > execLimit && n <= allocLimit) {
			return "bad-op", true
		}
		var t *tex.Buffer
		res := "ok"
		func() {
			defer func() {
				if r := recover(); r != nil {
					res = showPanic(r)
				}
			}()
			t = tex.NewSizedBuffer(int(n))
		}()
		if t == nil {
			fresh(new(tex.Buffer), new(bytes.Buffer))
			if n >= 0 && n <= allocLimit {
				s.hit("NewSizedBuffer", "panics", fmt.Sprintf("NewSizedBuffer(%d) panicked: %s", n, res))
			}
		} else {
			fresh(t, new(bytes.Buffer))
			// the clause "NewSizedBuffer yields an empty buffer of at least the requested capacity", directly on the real code
			if t.Len() != 0 || len(t.Bytes()) != 0 {
				s.hit("NewSizedBuffer", "not-empty", fmt.Sprintf("NewSizedBuffer(%d): Len=%d", n, t.Len()))
				s.diverged = true // later differences from bytes.Buffer are consequences of this one
			}
			if t.Cap() < int(n) {
				s.hit("NewSizedBuffer", "capacity-below-request", fmt.Sprintf("NewSizedBuffer(%d): Cap=%d < %d requested", n, t.Cap(), n))
			}
		}
		return "T " + res + " " + view(s.t) + " ## B ok " + view(s.b), true
	case "newb":
		if len(f) != 3 {
			return "bad-op", true
		}
		d, ok1 := parseBytes(f[1])
		e, ok2 := parseNat(f[2])
		if !ok1 || !ok2 || e > execLimit {
			return "bad-op", true
		}
		mk := func() []byte { return append(make([]byte, 0, len(d)+int(e)), d...) }
		fresh(tex.NewBuffer(mk()), bytes.NewBuffer(mk()))
		return "T ok " + view(s.t) + " ## B ok " + view(s.b), true
	}
	return "", false
}

func (s *session) line(l string) string {
	f := strings.Fields(l)
	if len(f) == 0 {
		return "bad-op"
	}
	if out, ok := s.init(f); ok {
		return out
	}
	if !s.started {
		return "bad-op"
	}
	if f[0] == "memprobe" {
		if len(f) != 2 {
			return "bad-op"
		}
		n, ok := parseNat(f[1])
		if !ok {
			return "bad-op"
		}
		t, b := memprobe("tex", n), memprobe("bytes", n)
		if t != b && !s.diverged {
			s.hit("Grow", "allocation-failure-differs-from-bytes.Buffer", fmt.Sprintf("Grow(%d) on a zero buffer under a %d MiB address-space cap: tex.Buffer -> %s, bytes.Buffer -> %s", n, memprobeCapMiB, t, b))
		}
		return "T " + t + " ## B " + b
	}
	if f[0] == "big" {
		return s.big(f)
	}
	var o op
	var ok bool
	if f[0] == "rewriteself" {
		if len(f) != 4 {
			return "bad-op"
		}
		pos, ok1 := parseInt(f[1])
		from, ok2 := parseNat(f[2])
		to, ok3 := parseNat(f[3])
		if !ok1 || !ok2 || !ok3 {
			return "bad-op"
		}
		cur := s.t.Bytes()
		ln := int64(len(cur))
		if from > ln {
			from = ln
		}
		if to < from {
			to = from
		}
		if to > ln {
			to = ln
		}
		al := cur[from:to:to]
		o, ok = op{name: "rewrite", n: pos, data: append([]byte{}, al...), alias: al}, true
		if o.alias == nil {
			o.alias = []byte{}
		}
	} else {
		o, ok = parseOp(f)
	}
	if !ok {
		return "bad-op"
	}
	isUnread := o.name == "unreadbyte" || o.name == "unreadrune"
	keeps := o.name == "len" || o.name == "bytes" || o.name == "string" || o.name == "cap" || o.name == "off" || o.name == "rewrite"
	desync := s.desync || (s.taint && isUnread) || o.name == "rewrite" || spaceDependent(o)
	var tres string
	if o.name == "rewrite" {
		tres = s.rewrite(o)
	} else {
		tres = apply(s.t, o)
	}
	if tres == "refused" {
		return "bad-op"
	}
	switch {
	case o.name == "grow":
		s.taint = true
	case !keeps:
		s.taint = false
	}
	switch o.name {
	case "reset":
		s.pristine = true
	case "truncate":
		if o.n == 0 {
			s.pristine = true
		}
	case "writeto":
		s.pristine = strings.HasSuffix(tres, "err=nil") // completely drained: "Buffer is now empty; reset"
	case "read", "readbyte", "readrune", "next", "unreadbyte", "unreadrune":
		s.pristine = false
	}
	s.desync = desync
	tl := "T " + tres + " " + view(s.t)
	if desync {
		return tl + " ## B *"
	}
	if o.name == "cap" || o.name == "off" {
		return tl + " ## B -"
	}
	s.stage.Store("bytes")
	bres := apply(s.b, o)
	bl := bres + " " + view(s.b)
	// ---- the property monitor: tex.Buffer and bytes.Buffer answer alike and hold the same unread contents
	if !s.diverged && tres+" "+view(s.t) != bl {
		s.diverged = true
		what := "differs-from-bytes.Buffer"
		if o.name == "writerune" && o.n < 0 {
			what = "negative-rune-differs-from-bytes.Buffer"
		}
		s.hit(methodOf[o.name], what, fmt.Sprintf("op `%s`: tex.Buffer -> %s %s; bytes.Buffer -> %s", l, tres, view(s.t), bl))
	}
	return tl + " ## B " + bl
}

// big: one payload far above anything the other classes write, on FRESH buffers: Write(pat a n); Next(r); Write(pat (a+1) n).
// The second Write has to move n-r unread bytes (slide or reallocate). Results, length and FNV digest of the contents.
func (s *session) big(f []string) string {
	if len(f) != 4 {
		return "bad-op"
	}
	a, ok1 := parseNat(f[1])
	n, ok2 := parseNat(f[2])
	r, ok3 := parseNat(f[3])
	if !ok1 || !ok2 || !ok3 || n > 1<<26 || r > n {
		return "bad-op"
	}
	pat := func(a int64) []byte {
		p := make([]byte, n)
		for i := range p {
			p[i] = byte((a + 13*int64(i)) % 256)
		}
		return p
	}
	run := func(b bufAPI) (res string) {
		defer func() {
			if x := recover(); x != nil {
				res = showPanic(x)
			}
		}()
		n1, e1 := b.Write(pat(a))
		got := len(b.Next(int(r)))
		n2, e2 := b.Write(pat(a + 1))
		if e1 != nil || e2 != nil {
			return fmt.Sprintf("err=%s,%s n=%d,%d", showErr(e1), showErr(e2), n1, n2)
		}
		return fmt.Sprintf("n=%d,%d next=%d len=%d h=%016x", n1, n2, got, b.Len(), fnv(b.Bytes()))
	}
	t, b := run(new(tex.Buffer)), run(new(bytes.Buffer))
	if t != b && !s.diverged {
		s.hit("Write", "large-payload-differs-from-bytes.Buffer", fmt.Sprintf("fresh buffers, Write(%d bytes); Next(%d); Write(%d bytes): tex.Buffer -> %s; bytes.Buffer -> %s", n, r, n, t, b))
	}
	return "T " + t + " ## B " + b
}

// rewrite runs ReWrite and checks directly that exactly the addressed bytes of the storage changed.
func (s *session) rewrite(o op) (res string) {
	before := append([]byte(nil), s.t.Bytes()...)
	off, capBefore := offOf(s.t), s.t.Cap()
	res = "ok"
	func() {
		defer func() {
			if r := recover(); r != nil {
				res = showPanic(r)
			}
		}()
		if o.alias != nil {
			s.t.ReWrite(int(o.n), o.alias) // source and destination may overlap: copy must behave like memmove
		} else {
			s.t.ReWrite(int(o.n), o.data)
		}
	}()
	if s.pristine && off != 0 {
		// API-level reading of "the addressed bytes": nothing was read since the buffer was created / reset / drained, so the
		// pos-th byte written since then is storage byte pos
		s.hit("ReWrite", "addresses-stale-offset", fmt.Sprintf("ReWrite(%d, %s): nothing was read since the buffer was last emptied (Reset / Truncate(0) / WriteTo drained it), yet the storage offset is %d, so position %d is not the %d-th byte written since", o.n, showBytes(o.data), off, o.n, o.n))
	}
	after := s.t.Bytes()
	wantPanic := o.n < 0 || o.n > int64(off+len(before))
	bad := ""
	switch {
	case wantPanic != (res != "ok"):
		bad = fmt.Sprintf("pos=%d with %d stored bytes: result %s", o.n, off+len(before), res)
	case len(after) != len(before) || offOf(s.t) != off || s.t.Cap() != capBefore:
		bad = fmt.Sprintf("length/offset/capacity changed: len %d->%d off %d->%d cap %d->%d", len(before), len(after), off, offOf(s.t), capBefore, s.t.Cap())
	default:
		for j := range before {
			want := before[j]
			if idx := int64(off + j); !wantPanic && idx >= o.n && idx < o.n+int64(len(o.data)) {
				want = o.data[idx-o.n]
			}
			if after[j] != want {
				bad = fmt.Sprintf("unread byte %d (storage index %d) is %02x, expected %02x", j, off+j, after[j], want)
				break
			}
		}
	}
	if bad != "" {
		how := ""
		if o.alias != nil {
			how = " (payload = a sub-slice of the buffer's own Bytes())"
		}
		s.hit("ReWrite", "not-exact", fmt.Sprintf("ReWrite(%d, %s)%s: %s", o.n, showBytes(o.data), how, bad))
	}
	return res
}

func runCase(c corr.Case) corr.Result {
	var res corr.Result
	s := &session{}
	for _, l := range c.Lines {
		var out string
		func() {
			defer func() {
				if r := recover(); r != nil {
					out = "runner-" + showPanic(r)
				}
			}()
			out = s.safeLine(l)
		}()
		res.Outs = append(res.Outs, out)
	}
	res.Hits = s.hits()
	return res
}

func spec() corr.Spec {
	return corr.Spec{
		Property: "C11",
		Fixed:    fixedCases,
		Count: func(tier string) int {
			switch tier {
			case "quick":
				return 3000
			case "thorough":
				return 50000
			}
			return 8000 // search tier (S7, after a broken tie): a whole run through S7 stays under 2 min also on a loaded machine
		},
		Gen: genCase,
		Run: runCase,
		NonTrivial: func(c corr.Case, r corr.Result) bool {
			w, rd := 0, 0
			for _, l := range c.Lines {
				switch strings.Fields(l + " x")[0] {
				case "write", "writestr", "writebyte", "writerune", "readfrom", "newb":
					w++
				case "read", "readbyte", "readrune", "next", "writeto", "truncate", "unreadbyte", "unreadrune":
					rd++
				}
			}
			return len(c.Lines) >= 4 && w >= 1 && rd >= 1
		},
		Rule: "scripts of 1..60 buffer operations run on tex.Buffer and bytes.Buffer; classes: mixed (all operations, sizes biased to the free space, c/2-m and 2c+n boundaries read from a shadow buffer), utf8 (runes incl. negative, surrogates, > 0x10FFFF; invalid byte sequences; ReadRune/Unread*), growth, io (scripted readers/writers), hazard (Unread* after Grow: tex half only), rewrite/sized, invalid arguments, malformed lines; non-trivial = >= 4 lines with at least one write-type and one read-type operation; distinct = distinct script text",
		TOnly: func(line string) bool {
			f := strings.Fields(line)
			return len(f) > 0 && (f[0] == "cap" || f[0] == "off" || f[0] == "memprobe")
		},
		Classify: func(c corr.Case, line int, want, got string) string {
			opn := strings.Fields(c.Lines[line] + " ?")[0]
			w, g := strings.SplitN(want, " ## ", 2), strings.SplitN(got, " ## ", 2)
			if len(w) == 2 && len(g) == 2 {
				if w[0] != g[0] {
					return "C11:corr:tex.Buffer-vs-model:" + opn
				}
				return "C11:corr:reference-moved:bytes.Buffer-vs-spec:" + opn // the reference (Go release) no longer matches Nv/Spec/C11
			}
			return "C11:corr:" + opn
		},
		Assumptions: []string{
			"bytes.Buffer of the sandbox's Go release (" + runtime.Version() + ") is the reference, the abstract buffer Nv/Spec/C11 is validated against it by the B half of every line, not proved; its answers after Unread* that follows a Grow, and Cap(), are outside the property",
			"KNOWN OBSERVABLE DIFFERENCE outside the contract: a reader whose output depends on the size of the slice it is offered (e.g. min(600, len(p)) bytes per call: tex.Buffer n=1112, bytes.Buffer n=1024 on Go 1.23.5) sees the capacity policy (tex offers 512 then 1024 bytes, bytes.Buffer 512 and 512), which the property leaves open like Cap(); the same bytes delivered always give the same contents and results. Compared readers deliver at most MinRead bytes per call or fill whatever they are offered until their data is used up",
			"readers return m <= len(p)+1; writers return 0 <= m",
			"allocation rule of the model (MemOk): requests beyond the runtime's maxAlloc (2^48) end in ErrTooLarge, smaller ones are granted when memory suffices. No run validates the model on real allocations above 128 MiB; `memprobe` checks Grow(2^40) and Grow(2^62) in a child process with a 3 GiB address-space cap (both buffers: fatal out-of-memory resp. ErrTooLarge). Between physical memory and 2^48 the Go runtime aborts both buffers, at sizes that differ with the capacity policy (2c+n vs growSlice)",
			"bytes between len and cap of the storage are not modelled (never observable through the API)",
		},
		Trusted: []string{"modelled, not verified: unicode/utf8 EncodeRune/DecodeRune (Lean transcription validated on both buffers), Go slice/copy/make semantics, bytes.Buffer as the reference"},
	}
}
