package main

import (
	"fmt"
	"go/ast"
	"go/token"
	"os"
	"path/filepath"
	"strconv"
	"strings"

	"nvharness/lib/gofacts"
)

// constInt returns the value of an untyped/typed integer constant declared with a literal (or a unary minus literal).
func constInt(f *gofacts.File, name string) (int, bool) {
	for _, d := range f.AST.Decls {
		gd, ok := d.(*ast.GenDecl)
		if !ok || gd.Tok != token.CONST {
			continue
		}
		for _, sp := range gd.Specs {
			vs := sp.(*ast.ValueSpec)
			for i, n := range vs.Names {
				if n.Name != name || i >= len(vs.Values) {
					continue
				}
				src := f.Src(vs.Values[i])
				v, err := strconv.Atoi(strings.ReplaceAll(src, " ", ""))
				if err != nil {
					return 0, false
				}
				return v, true
			}
		}
	}
	return 0, false
}

type factTable struct {
	names []string
	vals  []bool
}

func (t *factTable) add(name string, v bool) { t.names = append(t.names, name); t.vals = append(t.vals, v) }

func bodies(repo string) (*gofacts.File, map[string]string) {
	f := gofacts.MustLoad(repo, "tex/buffer.go")
	m := map[string]string{}
	for _, n := range []string{"Truncate", "Reset", "tryGrowByReslice", "grow", "Grow", "ReWrite", "Write", "WriteString",
		"ReadFrom", "WriteTo", "WriteByte", "WriteRune", "Read", "Next", "ReadByte", "ReadRune", "UnreadRune", "UnreadByte",
		"Bytes", "String", "Len", "Cap", "empty"} {
		m[n] = f.Body("Buffer", n)
	}
	m["NewSizedBuffer"] = f.Body("", "NewSizedBuffer")
	m["makeSlice"] = f.Body("", "makeSlice")
	return f, m
}

func dump(repo string) {
	_, m := bodies(repo)
	for k, v := range m {
		fmt.Printf("%s: %s\n\n", k, v)
	}
}

func extract(repo, leanDir string) {
	f, b := bodies(repo)
	has := gofacts.Has

	// WriteRune: how the rune is compared with utf8.RuneSelf
	runeCmp := "unknown"
	wr := b["WriteRune"]
	tail := `{ _ = b.WriteByte(byte(r)) return 1, nil }`
	tail2 := `{ b.WriteByte(byte(r)) return 1, nil }`
	rest := `b.lastRead = opInvalid m, ok := b.tryGrowByReslice(utf8.UTFMax) if !ok { m = b.grow(utf8.UTFMax) } n = utf8.EncodeRune(b.buf[m:m+utf8.UTFMax], r) b.buf = b.buf[:m+n] return n, nil }`
	switch {
	case !has(wr, rest):
	case strings.HasPrefix(wr, gofacts.Norm(`{ if r < utf8.RuneSelf `+tail)) || strings.HasPrefix(wr, gofacts.Norm(`{ if r < utf8.RuneSelf `+tail2)):
		runeCmp = "signed"
	case strings.HasPrefix(wr, gofacts.Norm(`{ if uint32(r) < utf8.RuneSelf `+tail)) || strings.HasPrefix(wr, gofacts.Norm(`{ if uint32(r) < utf8.RuneSelf `+tail2)):
		runeCmp = "unsigned"
	}

	// grow: the slide-down guard
	g := b["grow"]
	slide := "unknown"
	slideBody := `{ copy(b.buf, b.buf[b.off:]) } else if c > maxInt-c-n { panic(ErrTooLarge) } else {`
	switch {
	case has(g, `c := cap(b.buf) if n <= c/2-m `+slideBody):
		slide = "half"
	case has(g, `c := cap(b.buf) if n <= c-m `+slideBody):
		slide = "full"
	}
	small, okS := constInt(f, "smallBufferSize")
	minRead, okM := constInt(f, "MinRead")
	if !okS || small < 0 {
		small = 0
		slide = "unknown" // a constant the extractor cannot read breaks the tie instead of being guessed
	}
	if !okM || minRead < 0 {
		minRead = 0
	}

	var t factTable
	t.add("growResetIfEmpty", strings.HasPrefix(g, gofacts.Norm(`{ m := b.Len() if m == 0 && b.off != 0 { b.Reset() } if i, ok := b.tryGrowByReslice(n); ok { return i }`)))
	t.add("growSmallAlloc", has(g, `return i } if b.buf == nil && n <= smallBufferSize { b.buf = make([]byte, n, smallBufferSize) return 0 } c := cap(b.buf)`))
	maxIntOK := has(f.Src(f.AST), `const maxInt = int(^uint(0) >> 1)`)
	t.add("growRealloc", maxIntOK && has(g, `else if c > maxInt-c-n { panic(ErrTooLarge) } else { buf := makeSlice(2*c + n) copy(buf, b.buf[b.off:]) b.buf = buf }`) &&
		has(b["makeSlice"], `defer func() { if recover() != nil { panic(ErrTooLarge) } }() return make([]byte, n)`))
	t.add("growTail", strings.HasSuffix(g, gofacts.Norm(`b.buf = buf } b.off = 0 b.buf = b.buf[:m+n] return m }`)))
	t.add("resliceGuard", b["tryGrowByReslice"] == gofacts.Norm(`{ if l := len(b.buf); n <= cap(b.buf)-l { b.buf = b.buf[:l+n] return l, true } return 0, false }`))
	t.add("truncateShape", b["Truncate"] == gofacts.Norm(`{ if n == 0 { b.Reset() return } b.lastRead = opInvalid if n < 0 || n > b.Len() { panic("bytes.Buffer: truncation out of range") } b.buf = b.buf[:b.off+n] }`))
	t.add("resetShape", b["Reset"] == gofacts.Norm(`{ b.buf = b.buf[:0] b.off = 0 b.lastRead = opInvalid }`))
	t.add("growKeepsLastRead", b["Grow"] == gofacts.Norm(`{ if n < 0 { panic("bytes.Buffer.Grow: negative count") } m := b.grow(n) b.buf = b.buf[:m] }`) && !has(g, "lastRead"))
	wShape := func(body, arg, tailSrc string) bool {
		return body == gofacts.Norm(`{ b.lastRead = opInvalid m, ok := b.tryGrowByReslice(`+arg+`) if !ok { m = b.grow(`+arg+`) } `+tailSrc+` }`)
	}
	t.add("writersInvalidate", wShape(b["Write"], "len(p)", "return copy(b.buf[m:], p), nil") &&
		wShape(b["WriteString"], "len(s)", "return copy(b.buf[m:], s), nil") &&
		wShape(b["WriteByte"], "1", "b.buf[m] = c return nil") &&
		b["ReadFrom"] == gofacts.Norm(`{ b.lastRead = opInvalid for { i := b.grow(MinRead) b.buf = b.buf[:i] m, e := r.Read(b.buf[i:cap(b.buf)]) if m < 0 { panic(errNegativeRead) } b.buf = b.buf[:i+m] n += int64(m) if e == io.EOF { return n, nil } if e != nil { return n, e } } }`) &&
		b["WriteTo"] == gofacts.Norm(`{ b.lastRead = opInvalid if nBytes := b.Len(); nBytes > 0 { m, e := w.Write(b.buf[b.off:]) if m > nBytes { panic("bytes.Buffer.WriteTo: invalid Write count") } b.off += m n = int64(m) if e != nil { return n, e } if m != nBytes { return n, io.ErrShortWrite } } b.Reset() return n, nil }`))
	t.add("readShape", b["Read"] == gofacts.Norm(`{ b.lastRead = opInvalid if b.empty() { b.Reset() if len(p) == 0 { return 0, nil } return 0, io.EOF } n = copy(p, b.buf[b.off:]) b.off += n if n > 0 { b.lastRead = opRead } return n, nil }`) &&
		b["Next"] == gofacts.Norm(`{ b.lastRead = opInvalid m := b.Len() if n > m { n = m } data := b.buf[b.off : b.off+n] b.off += n if n > 0 { b.lastRead = opRead } return data }`) &&
		b["ReadByte"] == gofacts.Norm(`{ if b.empty() { b.Reset() return 0, io.EOF } c := b.buf[b.off] b.off++ b.lastRead = opRead return c, nil }`) &&
		b["empty"] == gofacts.Norm(`{ return len(b.buf) <= b.off }`) && b["Len"] == gofacts.Norm(`{ return len(b.buf) - b.off }`) &&
		b["Bytes"] == gofacts.Norm(`{ return b.buf[b.off:] }`) && b["Cap"] == gofacts.Norm(`{ return cap(b.buf) }`) &&
		strings.HasSuffix(b["String"], gofacts.Norm(`return string(b.buf[b.off:]) }`)))
	t.add("readRuneShape", b["ReadRune"] == gofacts.Norm(`{ if b.empty() { b.Reset() return 0, 0, io.EOF } c := b.buf[b.off] if c < utf8.RuneSelf { b.off++ b.lastRead = opReadRune1 return rune(c), 1, nil } r, n := utf8.DecodeRune(b.buf[b.off:]) b.off += n b.lastRead = readOp(n) return r, n, nil }`))
	t.add("unreadRuneShape", strings.HasPrefix(b["UnreadRune"], gofacts.Norm(`{ if b.lastRead <= opInvalid { return errors.New(`)) &&
		strings.HasSuffix(b["UnreadRune"], gofacts.Norm(`) } if b.off >= int(b.lastRead) { b.off -= int(b.lastRead) } b.lastRead = opInvalid return nil }`)))
	t.add("unreadByteShape", b["UnreadByte"] == gofacts.Norm(`{ if b.lastRead == opInvalid { return errUnreadByte } b.lastRead = opInvalid if b.off > 0 { b.off-- } return nil }`))
	t.add("rewriteShape", b["ReWrite"] == gofacts.Norm(`{ copy(b.buf[pos:], p) }`))
	t.add("sizedShape", b["NewSizedBuffer"] == gofacts.Norm(`{ var buf = make([]byte, size) var b = &Buffer{buf: buf} b.Reset() return b }`))
	opc := func(n string, v int) bool { x, ok := constInt(f, n); return ok && x == v }
	t.add("readOpConsts", opc("opRead", -1) && opc("opInvalid", 0) && opc("opReadRune1", 1) && opc("opReadRune2", 2) && opc("opReadRune3", 3) && opc("opReadRune4", 4) &&
		has(f.Src(f.AST), "type readOp int8"))

	var lb []string
	for _, v := range t.vals {
		lb = append(lb, gofacts.LeanBool(v))
	}
	out := fmt.Sprintf(`import Nv.Model.C11
/-! GENERATED by `+"`c11 extract`"+` from tex/buffer.go — do not edit. -/
namespace Nv.Gen.C11
def cfg : Nv.C11.Cfg := ⟨.%s, .%s, %d, %d⟩
-- facts: %s
def facts : Nv.C11.Facts := ⟨%s⟩
end Nv.Gen.C11
`, runeCmp, slide, small, minRead, strings.Join(t.names, ", "), strings.Join(lb, ", "))
	if err := gofacts.WriteIfChanged(filepath.Join(leanDir, "Nv/Gen/C11.lean"), out); err != nil {
		fmt.Fprintln(os.Stderr, err)
		os.Exit(2)
	}
	var bad []string
	for i, v := range t.vals {
		if !v {
			bad = append(bad, t.names[i])
		}
	}
	fmt.Printf("extract C11: runeSelfCompare=%s slideGuard=%s smallBufferSize=%d MinRead=%d facts_false=%v\n", runeCmp, slide, small, minRead, bad)
}
