package main

import (
	"fmt"
	"os"
	"path/filepath"
	"strconv"
	"strings"

	"nvharness/lib/go2lean"
	"nvharness/lib/gofacts"
)

// constInt returns the value of a package-level integer constant of package tex, folded by go/types
// (so `1 << 9`, `0x40` or `smallBufferSize * 8` are read like the literal they denote).
func constInt(p *go2lean.Pkg, name string) (int, bool) {
	if p == nil {
		return 0, false
	}
	v, ok := p.ConstValue(name)
	if !ok {
		return 0, false
	}
	n, err := strconv.Atoi(v)
	if err != nil {
		return 0, false
	}
	return n, true
}

type factTable struct {
	names []string
	vals  []bool
}

func (t *factTable) add(name string, v bool) { t.names = append(t.names, name); t.vals = append(t.vals, v) }

func bodies(repo string) (*gofacts.File, map[string]string) {
	f := gofacts.MustLoad(repo, "tex/buffer.go")
	m := map[string]string{}
	for _, n := range []string{"Truncate", "Reset", "tryGrowByReslice", "grow", "Grow", "ReWrite", "Write", "WriteString",
		"ReadFrom", "WriteTo", "WriteByte", "WriteRune", "Read", "Next", "ReadByte", "ReadRune", "UnreadRune", "UnreadByte",
		"Bytes", "String", "Len", "Cap", "empty"} {
		m[n] = f.Body("Buffer", n)
	}
	m["NewSizedBuffer"] = f.Body("", "NewSizedBuffer")
	m["NewBuffer"] = f.Body("", "NewBuffer")
	m["NewBufferString"] = f.Body("", "NewBufferString")
	m["makeSlice"] = f.Body("", "makeSlice")
	return f, m
}

func dump(repo string) {
	_, m := bodies(repo)
	for k, v := range m {
		fmt.Printf("%s: %s\n\n", k, v)
	}
}

func extract(repo, leanDir string) {
	f, b := bodies(repo)
	has := gofacts.Has

	pkg, _ := go2lean.LoadPkg(repo, "tex")
	eq := func(name, want string) bool { return b[name] == gofacts.Norm(want) }

	// WriteRune: the WHOLE body must be one of the recognised shapes; they differ only in how the rune is compared
	// with utf8.RuneSelf (and in the blank assignment of WriteByte's result).
	runeCmp := "unknown"
	wrRest := ` return 1, nil } b.lastRead = opInvalid m, ok := b.tryGrowByReslice(utf8.UTFMax) if !ok { m = b.grow(utf8.UTFMax) } n = utf8.EncodeRune(b.buf[m:m+utf8.UTFMax], r) b.buf = b.buf[:m+n] return n, nil }`
	for _, call := range []string{`_ = b.WriteByte(byte(r))`, `b.WriteByte(byte(r))`} {
		if eq("WriteRune", `{ if r < utf8.RuneSelf { `+call+wrRest) {
			runeCmp = "signed"
		}
		if eq("WriteRune", `{ if uint32(r) < utf8.RuneSelf { `+call+wrRest) {
			runeCmp = "unsigned"
		}
	}

	// grow: the WHOLE body, with the slide-down guard as the only recognised variation
	g := b["grow"]
	slide := "unknown"
	growShape := func(guard string) string {
		return `{ m := b.Len() if m == 0 && b.off != 0 { b.Reset() } if i, ok := b.tryGrowByReslice(n); ok { return i } if b.buf == nil && n <= smallBufferSize { b.buf = make([]byte, n, smallBufferSize) return 0 } c := cap(b.buf) if ` + guard + ` { copy(b.buf, b.buf[b.off:]) } else if c > maxInt-c-n { panic(ErrTooLarge) } else { buf := makeSlice(2*c + n) copy(buf, b.buf[b.off:]) b.buf = buf } b.off = 0 b.buf = b.buf[:m+n] return m }`
	}
	switch {
	case eq("grow", growShape(`n <= c/2-m`)):
		slide = "half"
	case eq("grow", growShape(`n <= c-m`)):
		slide = "full"
	}
	growWhole := slide != "unknown"
	small, okS := constInt(pkg, "smallBufferSize")
	minRead, okM := constInt(pkg, "MinRead")
	if !okS || small < 0 {
		small = 0
		slide = "unknown" // a constant the extractor cannot read breaks the tie instead of being guessed
	}
	if !okM || minRead < 0 {
		minRead = 0
	}

	var t factTable
	maxIntV, okMax := pkg.ConstValue("maxInt")
	maxIntOK := okMax && maxIntV == "9223372036854775807"
	t.add("growResetIfEmpty", growWhole)
	t.add("growSmallAlloc", growWhole)
	t.add("growRealloc", growWhole && maxIntOK &&
		eq("makeSlice", `{ defer func() { if recover() != nil { panic(ErrTooLarge) } }() return make([]byte, n) }`))
	t.add("growTail", growWhole)
	t.add("resliceGuard", b["tryGrowByReslice"] == gofacts.Norm(`{ if l := len(b.buf); n <= cap(b.buf)-l { b.buf = b.buf[:l+n] return l, true } return 0, false }`))
	t.add("truncateShape", b["Truncate"] == gofacts.Norm(`{ if n == 0 { b.Reset() return } b.lastRead = opInvalid if n < 0 || n > b.Len() { panic("bytes.Buffer: truncation out of range") } b.buf = b.buf[:b.off+n] }`))
	t.add("resetShape", b["Reset"] == gofacts.Norm(`{ b.buf = b.buf[:0] b.off = 0 b.lastRead = opInvalid }`))
	t.add("growKeepsLastRead", b["Grow"] == gofacts.Norm(`{ if n < 0 { panic("bytes.Buffer.Grow: negative count") } m := b.grow(n) b.buf = b.buf[:m] }`) && !has(g, "lastRead"))
	wShape := func(body, arg, tailSrc string) bool {
		return body == gofacts.Norm(`{ b.lastRead = opInvalid m, ok := b.tryGrowByReslice(`+arg+`) if !ok { m = b.grow(`+arg+`) } `+tailSrc+` }`)
	}
	t.add("writersInvalidate", wShape(b["Write"], "len(p)", "return copy(b.buf[m:], p), nil") &&
		wShape(b["WriteString"], "len(s)", "return copy(b.buf[m:], s), nil") &&
		wShape(b["WriteByte"], "1", "b.buf[m] = c return nil") &&
		b["ReadFrom"] == gofacts.Norm(`{ b.lastRead = opInvalid for { i := b.grow(MinRead) b.buf = b.buf[:i] m, e := r.Read(b.buf[i:cap(b.buf)]) if m < 0 { panic(errNegativeRead) } b.buf = b.buf[:i+m] n += int64(m) if e == io.EOF { return n, nil } if e != nil { return n, e } } }`) &&
		b["WriteTo"] == gofacts.Norm(`{ b.lastRead = opInvalid if nBytes := b.Len(); nBytes > 0 { m, e := w.Write(b.buf[b.off:]) if m > nBytes { panic("bytes.Buffer.WriteTo: invalid Write count") } b.off += m n = int64(m) if e != nil { return n, e } if m != nBytes { return n, io.ErrShortWrite } } b.Reset() return n, nil }`))
	t.add("readShape", b["Read"] == gofacts.Norm(`{ b.lastRead = opInvalid if b.empty() { b.Reset() if len(p) == 0 { return 0, nil } return 0, io.EOF } n = copy(p, b.buf[b.off:]) b.off += n if n > 0 { b.lastRead = opRead } return n, nil }`) &&
		b["Next"] == gofacts.Norm(`{ b.lastRead = opInvalid m := b.Len() if n > m { n = m } data := b.buf[b.off : b.off+n] b.off += n if n > 0 { b.lastRead = opRead } return data }`) &&
		b["ReadByte"] == gofacts.Norm(`{ if b.empty() { b.Reset() return 0, io.EOF } c := b.buf[b.off] b.off++ b.lastRead = opRead return c, nil }`) &&
		b["empty"] == gofacts.Norm(`{ return len(b.buf) <= b.off }`) && b["Len"] == gofacts.Norm(`{ return len(b.buf) - b.off }`) &&
		b["Bytes"] == gofacts.Norm(`{ return b.buf[b.off:] }`) && b["Cap"] == gofacts.Norm(`{ return cap(b.buf) }`) &&
		eq("String", `{ if b == nil { return "<nil>" } return string(b.buf[b.off:]) }`))
	t.add("readRuneShape", b["ReadRune"] == gofacts.Norm(`{ if b.empty() { b.Reset() return 0, 0, io.EOF } c := b.buf[b.off] if c < utf8.RuneSelf { b.off++ b.lastRead = opReadRune1 return rune(c), 1, nil } r, n := utf8.DecodeRune(b.buf[b.off:]) b.off += n b.lastRead = readOp(n) return r, n, nil }`))
	t.add("unreadRuneShape", eq("UnreadRune", `{ if b.lastRead <= opInvalid { return errors.New("bytes.Buffer: UnreadRune: previous operation was not a successful ReadRune") } if b.off >= int(b.lastRead) { b.off -= int(b.lastRead) } b.lastRead = opInvalid return nil }`))
	t.add("unreadByteShape", b["UnreadByte"] == gofacts.Norm(`{ if b.lastRead == opInvalid { return errUnreadByte } b.lastRead = opInvalid if b.off > 0 { b.off-- } return nil }`))
	t.add("rewriteShape", b["ReWrite"] == gofacts.Norm(`{ copy(b.buf[pos:], p) }`))
	t.add("sizedShape", eq("NewSizedBuffer", `{ var buf = make([]byte, size) var b = &Buffer{buf: buf} b.Reset() return b }`) &&
		eq("NewBuffer", `{ return &Buffer{buf: buf} }`) && eq("NewBufferString", `{ return &Buffer{buf: []byte(s)} }`))
	opc := func(n string, v int) bool { x, ok := constInt(pkg, n); return ok && x == v }
	t.add("readOpConsts", opc("opRead", -1) && opc("opInvalid", 0) && opc("opReadRune1", 1) && opc("opReadRune2", 2) && opc("opReadRune3", 3) && opc("opReadRune4", 4) &&
		has(f.Src(f.AST), "type readOp int8"))

	var lb []string
	for _, v := range t.vals {
		lb = append(lb, gofacts.LeanBool(v))
	}
	out := fmt.Sprintf(`import Nv.Model.C11
/-! GENERATED by `+"`c11 extract`"+` from tex/buffer.go — do not edit. -/
namespace Nv.Gen.C11
def cfg : Nv.C11.Cfg := ⟨.%s, .%s, %d, %d⟩
-- facts: %s
def facts : Nv.C11.Facts := ⟨%s⟩
end Nv.Gen.C11
`, runeCmp, slide, small, minRead, strings.Join(t.names, ", "), strings.Join(lb, ", "))
	if err := gofacts.WriteIfChanged(filepath.Join(leanDir, "Nv/Gen/C11.lean"), out); err != nil {
		fmt.Fprintln(os.Stderr, err)
		os.Exit(2)
	}
	var bad []string
	for i, v := range t.vals {
		if !v {
			bad = append(bad, t.names[i])
		}
	}
	fmt.Printf("extract C11: runeSelfCompare=%s slideGuard=%s smallBufferSize=%d MinRead=%d facts_false=%v\n", runeCmp, slide, small, minRead, bad)
}
