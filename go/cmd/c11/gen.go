package main

import (
	"fmt"
	"strconv"
	"strings"
	"unicode/utf8"

	"github.com/pinealctx/neptune/tex"

	"nvharness/lib/corr"
	"nvharness/lib/rng"
)

func fixedCases() []corr.Case {
	mk := func(tag string, lines ...string) corr.Case { return corr.Case{Tag: tag, Lines: lines} }
	cs := []corr.Case{
		// F11: WriteRune of a negative rune
		mk("fixed-negative-rune", "new", "writerune -1", "bytes", "readrune"),
		mk("fixed-negative-rune", "new", "write 6162", "writerune -2147483648", "writerune -129", "bytes"),
		// rune boundaries
		mk("fixed-runes", "new", "writerune 0", "writerune 127", "writerune 128", "writerune 2047", "writerune 2048", "writerune 55295",
			"writerune 55296", "writerune 57343", "writerune 57344", "writerune 65533", "writerune 65535", "writerune 65536",
			"writerune 1114111", "writerune 1114112", "writerune 2147483647", "bytes",
			"readrune", "readrune", "readrune", "unreadrune", "unreadrune", "readrune", "unreadbyte", "readrune", "readrune", "readrune", "readrune",
			"readrune", "readrune", "readrune", "readrune", "readrune", "readrune", "readrune", "readrune", "readrune", "readrune", "readrune", "unreadrune", "bytes"),
		// every rune with a special role somewhere (BOM, replacement char, noncharacters, separators, surrogate / plane edges)
		mk("fixed-runes", "new", "writerune 65279", "writerune 65533", "writerune 65534", "writerune 65535", "writerune 1114111", "writerune 1114110", "bytes",
			"writerune 55295", "writerune 55296", "writerune 56319", "writerune 56320", "writerune 57343", "writerune 57344", "bytes",
			"writerune 133", "writerune 160", "writerune 173", "writerune 8203", "writerune 8232", "writerune 8233", "writerune 12288", "writerune 9", "writerune 10", "writerune 13", "bytes",
			"readrune", "readrune", "readrune", "readrune", "readrune", "readrune", "readrune", "unreadrune", "readrune", "readrune", "readrune", "readrune", "readrune", "readrune", "len"),
		// invalid encodings under ReadRune
		mk("fixed-bad-utf8", "new", "write c0afe080afeda080f4908080f08080", "readrune", "readrune", "readrune", "unreadrune", "readrune", "readrune", "readrune",
			"readrune", "readrune", "readrune", "readrune", "readrune", "readrune", "readrune", "readrune", "readrune", "readrune", "readrune"),
		mk("fixed-bad-utf8", "new", "write e282", "readrune", "unreadrune", "write ac", "readrune", "unreadbyte", "bytes"),
		// growth paths: small alloc, reslice, slide down, reallocate
		mk("fixed-growth", "new", "cap", "write x0:10", "cap", "write x1:54", "cap", "write 01", "cap", "read 40", "write x2:30", "cap", "off", "write x3:200", "cap", "off", "bytes"),
		mk("fixed-growth", "new", "grow 65", "cap", "write x0:65", "read 64", "grow 32", "cap", "off", "grow 33", "cap", "off", "bytes"),
		mk("fixed-growth", "news 0", "cap", "writebyte 41", "cap", "writebyte 42", "cap", "writebyte 43", "cap", "bytes"),
		mk("fixed-growth", "new", "write x0:64", "read 64", "writebyte 07", "off", "cap", "bytes"),
		mk("fixed-growth", "newb 010203 0", "cap", "writebyte 04", "cap", "readbyte", "readbyte", "write x0:5", "cap", "off", "bytes"),
		// Unread* rules
		mk("fixed-unread", "new", "write 616263", "unreadbyte", "readbyte", "unreadbyte", "unreadbyte", "read 2", "unreadrune", "unreadbyte", "unreadbyte", "bytes"),
		mk("fixed-unread", "new", "write 61e282ac62", "readrune", "readrune", "unreadbyte", "bytes", "readrune", "truncate 1", "unreadbyte", "unreadrune", "next 1", "unreadbyte", "bytes"),
		mk("fixed-unread", "new", "write 6162", "readbyte", "truncate 1", "unreadbyte", "readbyte", "len", "unreadbyte", "readbyte", "readbyte", "unreadbyte", "read 0", "unreadbyte"),
		mk("fixed-unread", "new", "write 616263", "readbyte", "writeto short 1", "unreadbyte", "readfrom - eof 0", "unreadbyte", "read 0", "next 0", "unreadbyte"),
		// the excluded corner: Unread* after Grow (tex half only)
		mk("fixed-hazard", "new", "write x0:64", "read 60", "grow 40", "unreadbyte", "bytes", "off"),
		mk("fixed-hazard", "new", "write e282ac", "readrune", "grow 100", "len", "unreadrune", "bytes"),
		// invalid arguments; the buffer stays usable after a recovered panic
		mk("fixed-invalid", "new", "write 616263", "truncate -1", "truncate 4", "truncate 3", "grow -1", "next -1", "readbyte", "next -5", "unreadbyte", "bytes",
			"grow 9223372036854775807", "bytes", "write 64", "grow 4611686018427387904", "bytes"),
		mk("fixed-invalid", "new", "readbyte", "grow 9223372036854775807", "writebyte 01", "read 5", "read 0", "read 3", "readrune", "next 3", "writeto all", "truncate 0"),
		mk("fixed-invalid", "news -1", "writebyte 01", "bytes"),
		// ReadFrom / WriteTo
		mk("fixed-io", "new", "readfrom x0:1300 eof 0 512 512 512", "cap", "readfrom 6162 err 2", "readfrom 6162 neg 0 1", "readfrom 6162 over 0 1 0", "bytes",
			"writeto short 5", "writeto err 3", "writeto over", "writeto err 100000", "len", "writeto all", "writeto all", "writeto over"),
		mk("fixed-io", "new", "readfrom x9:3000 eof+ 0", "len", "cap", "readfrom x1:600 err+ 7 1 0 512", "len", "readfrom 616263 neg+ 0", "readfrom - over+ 3", "bytes", "cap"),
		mk("fixed-io", "new", "write 6162", "readfrom x5:700 eof 100 0 0 300 0 300", "bytes", "cap", "off", "writeto short 702", "len"),
		// stalling readers: k consecutive (0, nil) reads before / between / after data chunks — ReadFrom keeps reading to EOF
		mk("fixed-empty-reads", "new", "readfrom 616263 eof 0 0*0 1", "readfrom 616263 eof 0 0*1 1 0*2 1", "bytes",
			"readfrom 616263 eof 1 0*99 1 1", "readfrom 616263 eof 0 0*100 3", "bytes", "readfrom 616263 eof 0 1 0*101 1 0*250 1", "bytes", "len"),
		mk("fixed-empty-reads", "new", "write 78", "readfrom x3:700 err 5 300 0*100 300 0*99 95", "bytes", "readfrom 6162 eof+ 0 0*250", "readfrom 6162 eof 2 0*1000", "bytes",
			"readfrom - eof 0 0*101", "readfrom 6162 neg 0 1 0*100", "readfrom 6162 over 0 0*100 1", "bytes"),
		// outside the contract (tex half only): a reader delivering min(600, len(p)) per call sees the capacity policy
		mk("fixed-space-dependent-reader", "new", "readfrom x0:2000 eof 0 600 600", "len", "cap"),
		// allocation rule (T-observable, child process with capped address space)
		mk("fixed-memprobe", "new", "memprobe 1099511627776", "memprobe 4611686018427387904", "writebyte 01", "bytes"),
		// ReWrite / NewSizedBuffer
		mk("fixed-rewrite", "news 16", "cap", "len", "write 0000000068656c6c6f", "rewrite 0 00000005", "bytes", "rewrite 7 ffffffffff", "bytes", "rewrite 9 aa", "rewrite 10 aa", "rewrite -1 aa", "bytes"),
		mk("fixed-rewrite", "new", "write 0102030405", "read 2", "rewrite 1 aabb", "bytes", "unreadbyte", "bytes", "rewrite 0 -", "rewrite 5 -", "rewrite 6 -"),
		// NewSizedBuffer size classes (Len()==0, Cap() >= requested; the model gives Cap exactly); large Grow across 4 MiB: see largeCases
		mk("fixed-sized", "news 0", "cap", "len", "news 1", "cap", "news 63", "cap", "news 64", "cap", "news 65", "cap", "news 4095", "cap", "news 4096", "cap", "len"),
		mk("fixed-sized", "news 1048576", "cap", "len", "write 0102", "cap", "news 4194303", "cap", "news 4194304", "cap", "len", "writebyte 01", "cap", "bytes"),
		mk("fixed-sized", "news 4194305", "cap", "len", "write x0:100", "cap", "readbyte", "unreadbyte", "len"),
		mk("fixed-sized", "news 16777216", "cap", "len", "writebyte 07", "cap", "news 67108864", "cap", "len", "writerune 8364", "cap", "bytes"),
		// a buffer drained by WriteTo / Truncate(0) / Reset is reused: ReWrite addresses the bytes written since
		mk("fixed-rewrite-reuse", "news 32", "write 0000616263", "writeto all", "off", "write 0000646566", "rewrite 0 0003", "bytes", "off",
			"truncate 0", "write 00006768", "rewrite 0 0002", "bytes", "reset", "write 000069", "rewrite 0 0001", "bytes", "writeto short 100", "write 00006a", "rewrite 0 0001", "bytes"),
		// payload aliasing the buffer (memmove semantics of copy), overlapping forwards and backwards
		mk("fixed-rewrite-self", "news 16", "write 0102030405060708", "rewriteself 2 0 6", "bytes", "rewriteself 0 2 8", "bytes", "rewriteself 3 3 6", "bytes",
			"readbyte", "rewriteself 2 0 5", "bytes", "rewriteself 1 0 7", "bytes", "rewriteself 8 0 4", "rewriteself 9 0 4", "rewriteself -1 0 4", "rewriteself 0 9 3", "bytes"),
		mk("fixed-rewrite-self", "new", "write x0:300", "read 40", "rewriteself 41 0 259", "bytes", "rewriteself 40 1 260", "bytes", "rewriteself 100 0 200", "bytes"),
		// single payloads above 1 MiB and above 16 MiB (fresh buffers; digest only)
		mk("fixed-big", "new", "big 7 1048577 5", "big 3 16777217 1", "big 9 16777216 16777216", "big 1 0 0", "big 2 70 64", "writebyte 01", "bytes"),
		// malformed
		mk("fixed-malformed", "new", "write 0", "write zz", "writebyte 0102", "writerune 2147483648", "read -1", "frobnicate", "readfrom 00 maybe 0", "writeto short", "new 1", "rewrite 1", "len 3", "len"),
	}
	return cs
}

type gen struct {
	r     *rng.R
	sh    *session // shadow run on the real buffers: lets the generator aim at the capacity boundaries
	lines []string
	taint bool
}

func (g *gen) emit(l string) {
	g.lines = append(g.lines, l)
	func() {
		defer func() { _ = recover() }()
		g.sh.safeLine(l)
	}()
	f := strings.Fields(l + " ?")
	switch f[0] {
	case "grow":
		g.taint = true
	case "len", "bytes", "string", "cap", "off", "rewrite", "rewriteself", "memprobe", "big":
	default:
		g.taint = false
	}
}

func (g *gen) dims() (ln, off, cp int) {
	defer func() { _ = recover() }()
	t := g.sh.t
	return t.Len(), offOf(t), t.Cap()
}

// size picks a payload / growth size, mostly at the boundaries of grow()'s five paths.
func (g *gen) size() int {
	ln, off, cp := g.dims()
	free := cp - off - ln
	var c []int
	switch g.r.Intn(10) {
	case 0, 1, 2:
		return g.r.Intn(9)
	case 3:
		c = []int{63, 64, 65, 1, 0}
	case 4:
		c = []int{free - 1, free, free + 1}
	case 5:
		c = []int{cp/2 - ln - 1, cp/2 - ln, cp/2 - ln + 1, cp - ln, cp - ln + 1}
	case 6:
		c = []int{tex.MinRead - 1, tex.MinRead, tex.MinRead + 1, 2*cp + 1}
	case 7:
		return g.r.Intn(40)
	case 8:
		return g.r.Intn(300)
	default:
		return g.r.Intn(3000)
	}
	v := c[g.r.Intn(len(c))]
	if v < 0 {
		v = 0
	}
	if v > 5000 {
		v = 5000
	}
	return v
}

func hexOf(d []byte) string {
	if len(d) == 0 {
		return "-"
	}
	return fmt.Sprintf("%x", d)
}

var interestingRunes = []int64{0, 1, 0x41, 0x7f, 0x80, 0x7ff, 0x800, 0xd7ff, 0xd800, 0xdbff, 0xdfff, 0xe000, 0xfffd, 0xffff, 0x10000, 0x10ffff,
	0x110000, 0x7fffffff, 0x20ac, 0x1f600, 0xe9,
	0xfeff, 0xfffe, 0xfffc, 0xd7fe, 0xdc00, 0xe001, 0x10fffe, 0x10000 + 1, 0x7fe, 0x801, 0x7e, 0x81, 0x85, 0xa0, 0xad, 0x2028, 0x2029, 0x200b, 0x200d, 0x202e, 0x3000, 0x1f, 0x9, 0xa, 0xd}
var negativeRunes = []int64{-1, -2, -128, -129, -256, -65536, -2147483648, -2147483521}

func (g *gen) runeVal(negOK bool) int64 {
	switch g.r.Intn(10) {
	case 0:
		if negOK {
			return negativeRunes[g.r.Intn(len(negativeRunes))]
		}
		return 0x80
	case 1, 2, 3, 4:
		return interestingRunes[g.r.Intn(len(interestingRunes))]
	case 5:
		return int64(g.r.Intn(0x80))
	case 6:
		return int64(g.r.Intn(0x800))
	case 7:
		return int64(g.r.Intn(0x10000))
	case 8:
		return int64(g.r.Intn(0x120000))
	}
	return int64(g.r.U64() & 0x7fffffff) // any non-negative int32
}

// payload of n bytes: random, text-like, or a pattern token for bulk
func (g *gen) payload(n int) string {
	if n == 0 {
		return "-"
	}
	if n > 40 {
		return "x" + strconv.Itoa(g.r.Intn(256)) + ":" + strconv.Itoa(n)
	}
	d := make([]byte, 0, n+4)
	switch g.r.Intn(3) {
	case 0:
		for len(d) < n {
			d = append(d, byte(g.r.Intn(256)))
		}
	case 1: // valid UTF-8 of mixed widths, cut at n (so possibly a truncated tail)
		for len(d) < n {
			var tmp [4]byte
			k := utf8.EncodeRune(tmp[:], rune(g.runeVal(false)))
			d = append(d, tmp[:k]...)
		}
		d = d[:n]
	default: // lead/continuation soup
		soup := []byte{0x80, 0xbf, 0xc0, 0xc1, 0xc2, 0xdf, 0xe0, 0xa0, 0x9f, 0xed, 0xef, 0xf0, 0x90, 0x8f, 0xf4, 0xf5, 0xff, 0x41, 0x00, 0x7f}
		for len(d) < n {
			d = append(d, soup[g.r.Intn(len(soup))])
		}
	}
	return hexOf(d)
}

func (g *gen) readfrom() string {
	total := g.size()
	term := g.r.Pick("eof", "eof", "eof", "err", "neg", "over")
	if g.r.Chance(2, 5) {
		term += "+"
	}
	tail := g.r.PickInt(0, 0, 1, 7, tex.MinRead)
	var ks []string
	for i, n := 0, g.r.Intn(5); i < n; i++ {
		if g.r.Chance(1, 5) { // a run of empty reads before / between / after the data chunks
			ks = append(ks, "0*"+strconv.Itoa(g.r.PickInt(0, 1, 2, 99, 100, 101, 250, g.r.Intn(300))))
			continue
		}
		ks = append(ks, strconv.Itoa(g.r.PickInt(0, 1, 2, 100, tex.MinRead-1, tex.MinRead, g.r.Intn(tex.MinRead+1))))
	}
	return strings.TrimSpace("readfrom " + g.payload(total) + " " + term + " " + strconv.Itoa(tail) + " " + strings.Join(ks, " "))
}

func (g *gen) writeto() string {
	ln, _, _ := g.dims()
	switch g.r.Intn(6) {
	case 0, 1:
		return "writeto all"
	case 2:
		return "writeto over"
	case 3:
		return "writeto short " + strconv.Itoa(nonNeg(g.r.PickInt(0, 1, ln-1, ln, ln+1, g.r.Intn(ln+2))))
	case 4:
		return "writeto err " + strconv.Itoa(nonNeg(g.r.PickInt(0, 1, ln-1, ln, ln+1, g.r.Intn(ln+2))))
	}
	return "writeto short " + strconv.Itoa(g.r.Intn(10))
}

func nonNeg(v int) int {
	if v < 0 {
		return 0
	}
	return v
}

// one operation of the given kind
func (g *gen) op(kind string) string {
	ln, off, _ := g.dims()
	switch kind {
	case "write", "writestr":
		return kind + " " + g.payload(g.size())
	case "writebyte":
		return fmt.Sprintf("writebyte %02x", g.r.Intn(256))
	case "writerune":
		return "writerune " + strconv.FormatInt(g.runeVal(true), 10)
	case "read":
		return "read " + strconv.Itoa(nonNeg(g.r.PickInt(0, 1, 2, 4, ln-1, ln, ln+1, g.r.Intn(ln+3), g.size())))
	case "next":
		return "next " + strconv.Itoa(g.r.PickInt(0, 1, 2, 4, ln-1, ln, ln+1, g.r.Intn(ln+3), -1, g.size()))
	case "truncate":
		return "truncate " + strconv.Itoa(g.r.PickInt(0, 1, ln-1, ln, ln, ln+1, g.r.Intn(ln+2), -1, ln/2))
	case "grow":
		if g.r.Chance(1, 25) {
			return "grow " + g.r.Pick("-1", "9223372036854775807", "4611686018427387904", "281474976710657", "-9223372036854775808")
		}
		return "grow " + strconv.Itoa(g.size())
	case "readfrom":
		return g.readfrom()
	case "writeto":
		return g.writeto()
	case "rewriteself":
		st := off + ln
		from := g.r.Intn(ln + 2)
		return "rewriteself " + strconv.Itoa(g.r.PickInt(off, off+from, off+from+1, nonNeg(off+from-1), off+1, st-1, st, st+1, g.r.Intn(st+2))) + " " +
			strconv.Itoa(from) + " " + strconv.Itoa(from+g.r.PickInt(0, 1, 2, 8, ln, g.r.Intn(ln+2)))
	case "rewrite":
		st := off + ln
		pos := g.r.PickInt(0, off, off+1, st-1, st, st+1, -1, g.r.Intn(st+2), off-1)
		return "rewrite " + strconv.Itoa(pos) + " " + g.payload(g.r.PickInt(0, 1, 2, 4, 8, ln, ln+3))
	}
	return kind
}

type weighted struct {
	kind string
	w    int
}

func (g *gen) pick(ws []weighted) string {
	total := 0
	for _, w := range ws {
		total += w.w
	}
	x := g.r.Intn(total)
	for _, w := range ws {
		if x < w.w {
			return w.kind
		}
		x -= w.w
	}
	return ws[0].kind
}

var wMixed = []weighted{{"write", 16}, {"writestr", 5}, {"writebyte", 6}, {"writerune", 8}, {"read", 10}, {"readbyte", 7}, {"readrune", 9},
	{"unreadbyte", 6}, {"unreadrune", 6}, {"next", 6}, {"truncate", 4}, {"reset", 2}, {"grow", 6}, {"readfrom", 4}, {"writeto", 3},
	{"len", 2}, {"bytes", 3}, {"string", 1}, {"cap", 2}, {"off", 1}}
var wUTF8 = []weighted{{"writerune", 20}, {"write", 10}, {"writestr", 3}, {"readrune", 25}, {"unreadrune", 12}, {"unreadbyte", 8}, {"readbyte", 6},
	{"read", 4}, {"next", 3}, {"bytes", 3}, {"truncate", 2}, {"grow", 1}}
var wGrowth = []weighted{{"write", 25}, {"writebyte", 6}, {"read", 14}, {"next", 8}, {"grow", 14}, {"readbyte", 4}, {"truncate", 4}, {"reset", 2},
	{"cap", 8}, {"off", 5}, {"bytes", 4}, {"len", 2}, {"readfrom", 4}, {"writerune", 3}}
var wIO = []weighted{{"readfrom", 25}, {"writeto", 20}, {"write", 12}, {"read", 10}, {"readbyte", 4}, {"unreadbyte", 4}, {"unreadrune", 2}, {"grow", 4},
	{"cap", 5}, {"off", 3}, {"bytes", 4}, {"truncate", 3}}
var wHazard = []weighted{{"write", 14}, {"readbyte", 10}, {"readrune", 10}, {"read", 8}, {"next", 5}, {"grow", 20}, {"unreadbyte", 12}, {"unreadrune", 10},
	{"len", 3}, {"bytes", 4}, {"cap", 3}, {"off", 3}}
var wRewrite = []weighted{{"rewrite", 22}, {"rewriteself", 14}, {"write", 20}, {"writebyte", 5}, {"read", 8}, {"readbyte", 5}, {"unreadbyte", 4}, {"grow", 5}, {"bytes", 8},
	{"off", 4}, {"cap", 3}, {"truncate", 3}, {"reset", 1}, {"next", 3}}

var malformed = []string{"nop", "write", "write 0", "write 0g", "write AB", "writebyte", "writebyte 0102", "writebyte -", "writerune", "writerune 2147483648",
	"writerune x", "read", "read -1", "read 1 2", "readbyte 1", "next", "next 1 2", "truncate", "grow", "grow 1 2", "readfrom", "readfrom 00", "readfrom 00 eof",
	"readfrom 00 nope 0", "readfrom 00 eof x", "readfrom 00 eof 0 -1", "readfrom 00 eof++ 0", "readfrom 00 eof 0 0*1001", "readfrom 00 eof 0 1*2*3", "readfrom 00 eof 0 *3", "readfrom 00 eof 0 3*", "readfrom 00 + 0", "writeto", "writeto short", "writeto all 1", "writeto some 1", "rewrite", "rewrite 1",
	"rewrite x 00", "rewriteself", "rewriteself 1 2", "rewriteself 1 -2 3", "big", "big 1 2", "big 1 2 3", "big 1 67108865 0", "memprobe", "memprobe x", "memprobe 1 2", "len 1", "cap 1", "newb", "newb 00", "news", "news x", "new 1", "write x1", "write x1:2:3", "write x1:2000000"}

// largeCases: Grow across the 4 MiB / 16 MiB boundaries and contents above 4 MiB. The oracle materialises byte lists of that
// size (seconds, hundreds of MB), so they run as the first cases of the thorough and search tiers only.
var largeCases = [][]string{
	{"new", "grow 4194303", "cap", "writebyte 01", "grow 4194304", "cap", "off", "bytes"},
	{"new", "write 6162", "readbyte", "grow 4194305", "cap", "off", "write x1:70", "cap", "bytes"},
	{"news 4194304", "grow 4194304", "cap", "grow 4194305", "cap", "writebyte 01", "grow 16777216", "cap", "bytes"},
}

func genCase(r *rng.R, tier string, i int) corr.Case {
	if tier != "quick" && i >= 1 && i <= len(largeCases) {
		return corr.Case{Tag: "large-grow", Lines: largeCases[i-1]}
	}
	if tier != "quick" && i == 0 {
		// contents above 4 MiB, observed through String/Bytes/Read/WriteTo (too slow in the oracle for the quick tier: ~9 s)
		return corr.Case{Tag: "large-contents", Lines: []string{"new", "write x1:1000000", "write x2:1000000", "write x3:1000000", "write x4:1000000",
			"write x5:1000000", "string", "bytes", "read 3", "unreadbyte", "len", "writeto short 4500000", "string", "writeto all", "len"}}
	}
	g := &gen{r: r, sh: &session{}}
	class := []string{"mixed", "mixed", "mixed", "mixed", "utf8", "utf8", "growth", "growth", "io", "hazard", "rewrite", "invalid", "malformed"}[r.Intn(13)]
	maxOps := 60
	if tier != "quick" && r.Chance(1, 20) {
		maxOps = 200
	}
	n := r.Range(1, maxOps)
	// init
	switch {
	case r.Chance(1, 60): // large pre-sizing across the 4 MiB boundary (allocation only; contents stay small)
		g.emit("news " + strconv.Itoa(r.PickInt(1<<20, (4<<20)-1, 4<<20, (4<<20)+1, (4<<20)+r.Intn(1<<20), 16<<20, 64<<20)))
	case class == "rewrite" && r.Chance(2, 3):
		g.emit("news " + strconv.Itoa(r.PickInt(0, 1, 4, 16, 64, 100, r.Intn(200))))
	case r.Chance(1, 8):
		g.emit("news " + strconv.Itoa(r.PickInt(0, 1, 63, 64, 65, 4095, 4096, r.Intn(300), r.Intn(10000), -1)))
	case r.Chance(1, 7):
		k := r.PickInt(0, 1, 3, 10, 64, r.Intn(100))
		g.emit("newb " + g.payload(k) + " " + strconv.Itoa(r.PickInt(0, 0, 1, 5, 64, r.Intn(100))))
	default:
		g.emit("new")
	}
	ws := map[string][]weighted{"mixed": wMixed, "utf8": wUTF8, "growth": wGrowth, "io": wIO, "hazard": wHazard, "rewrite": wRewrite,
		"invalid": wMixed, "malformed": wMixed}[class]
	for len(g.lines) < n+1 {
		kind := g.pick(ws)
		if (kind == "unreadbyte" || kind == "unreadrune") && g.taint && class != "hazard" && !r.Chance(1, 30) {
			continue // the property's exclusion: kept for the hazard class (tex half only)
		}
		if class == "malformed" && r.Chance(1, 4) {
			g.emit(malformed[r.Intn(len(malformed))])
			continue
		}
		if class == "invalid" && r.Chance(1, 4) {
			g.emit(r.Pick("truncate -1", "truncate 1000000", "grow -1", "grow -9223372036854775808", "next -1", "next -9223372036854775808",
				"grow 9223372036854775807", "grow 4611686018427387904", "readfrom 00 neg 0", "readfrom 00 over 0 1", "writeto over",
				"truncate 9223372036854775807", "next 9223372036854775807", "writerune -1", "writerune 2147483647", "read 0", "truncate "+strconv.Itoa(g.sh.t.Len()+1)))
			continue
		}
		g.emit(g.op(kind))
	}
	return corr.Case{Tag: class, Lines: g.lines}
}
