// Command c09: extractor and correspondence runner for property C09
// (bitmap1024: serialization and block-integer mapping round-trip).
package main

import (
	"encoding/hex"
	"fmt"
	"os"
	"strconv"
	"strings"

	"github.com/pinealctx/neptune/bitmap1024"

	"nvharness/lib/c08x"
	"nvharness/lib/corr"
	"nvharness/lib/rng"
)

func main() {
	if len(os.Args) < 2 {
		fmt.Fprintln(os.Stderr, "usage: c09 extract <repo> <leanDir> | corr …")
		os.Exit(2)
	}
	switch os.Args[1] {
	case "extract":
		// Nv.Tie.C09 also imports Nv.Gen.C08: regenerate it too (never read a stale file of another run)
		c08x.ExtractC08Quiet(os.Args[2], os.Args[3])
		c08x.ExtractC09(os.Args[2], os.Args[3])
	case "corr":
		corr.Main(spec(), os.Args[2:])
	default:
		os.Exit(2)
	}
}

// ---------------------------------------------------------------- state

const maxInRange = int64(4294967295)*1024 - 1 // largest int64 a BigU32 accepts (documented: 2^32*1024-1025)

// refBlock is the monitors' own view of a block: the start it must have and the offsets (0..1023) it must contain.
type refBlock struct {
	start uint32
	set   [1024]bool
}

type state struct {
	a, b       bitmap1024.Bit1024
	refA, refB [1024]bool
	bigs       bitmap1024.BigU32s
	tips       bitmap1024.U32BitTips
	refBigs    []*refBlock
	refTips    []*refBlock
	hits       []corr.Hit
	hitSeen    map[string]bool
	held       []c08x.Held // slices returned by earlier GetN calls, re-checked after later calls
}

func newState() *state {
	c08x.SetMagic(int64(c08x.DefaultMagic))
	return &state{a: bitmap1024.NewBit1024(), b: bitmap1024.NewBit1024(), hitSeen: map[string]bool{}}
}

func (st *state) hit(site, what, detail string) {
	key := "C09:" + site + ":" + what
	if st.hitSeen[key] {
		return
	}
	st.hitSeen[key] = true
	st.hits = append(st.hits, corr.Hit{Key: key, What: detail})
}

func (st *state) recheckHeld() {
	for _, h := range st.held {
		if ok, what := h.Recheck(); !ok {
			st.hit(h.Site, "result-overwritten", "a later call rewrote an earlier result: "+what)
		}
	}
}

func (st *state) hold(h c08x.Held) {
	st.held = append(st.held, h)
	if len(st.held) > 24 {
		st.held = st.held[len(st.held)-24:]
	}
}

func (st *state) reg(r string) (*bitmap1024.Bit1024, *[1024]bool, bool) {
	switch r {
	case "a":
		return &st.a, &st.refA, true
	case "b":
		return &st.b, &st.refB, true
	}
	return nil, nil, false
}

func setOf(b bitmap1024.Bit1024) (s [1024]bool) {
	for _, i := range c08x.Members1024(b) {
		if i < 1024 {
			s[i] = true
		}
	}
	return s
}

func members(ref *[1024]bool) []int {
	var out []int
	for i, v := range ref {
		if v {
			out = append(out, i)
		}
	}
	return out
}

func parseBytes(s string) ([]byte, bool) {
	if s == "-" {
		return []byte{}, true
	}
	if s == "" || strings.ToLower(s) != s || len(s) > 800 {
		return nil, false
	}
	b, err := hex.DecodeString(s)
	return b, err == nil
}

func showBytes(b []byte) string {
	if len(b) == 0 {
		return "-"
	}
	return hex.EncodeToString(b)
}

func errClass(err error) string {
	msg := err.Error()
	for _, p := range [][2]string{{"bit.1024.out.of.range:", "err:range:"}, {"bit.1024.invalid.length:", "err:length:"}, {"bit.1024.invalid.element:", "err:element:"}} {
		if strings.HasPrefix(msg, p[0]) {
			return p[1] + msg[len(p[0]):]
		}
	}
	switch {
	case strings.HasPrefix(msg, "big.u32.unsupport.i64:"):
		return "err"
	case strings.HasPrefix(msg, "big.u32.set.unsupport.i64:"):
		return "err:unsupported"
	case strings.HasPrefix(msg, "big.u32.set.invalid.start:"), strings.HasPrefix(msg, "u32.set.invalid.start:"):
		return "err:start"
	case strings.HasPrefix(msg, "u32.unsupport.start:"):
		return "err:start"
	}
	return "err:other:" + msg
}

// denoted is the set a byte string stands for, written from the property text: fewer than 128 bytes = 2-byte
// little-endian members in 0..1023; exactly 128 bytes = 16 little-endian words; everything else is invalid.
func denoted(buf []byte) (set [1024]bool, valid bool) {
	n := len(buf)
	if n == 0 {
		return set, true
	}
	if n > 128 || n%2 != 0 {
		return set, false
	}
	if n < 128 {
		for i := 0; i+1 < n; i += 2 {
			v := int(buf[i]) | int(buf[i+1])<<8
			if v > 1023 {
				return set, false
			}
			set[v] = true
		}
		return set, true
	}
	for i := 0; i < 1024; i++ {
		if buf[i/8]>>(uint(i)%8)&1 == 1 {
			set[i] = true
		}
	}
	return set, true
}

func (st *state) monitorUnmarshal(site string, wasEmpty bool, prev *[1024]bool, buf []byte, got bitmap1024.Bit1024, err error, panicked bool) {
	if panicked {
		st.hit(site, "panic", fmt.Sprintf("Unmarshal panicked on %d bytes %s", len(buf), showBytes(buf)))
		return
	}
	if !wasEmpty {
		// the receiver is not cleared (C09 theorem `unmarshal_into_any`; the sparse form is a sequence of SetI16 calls, each
		// of which changes membership of exactly its index — C08): no bytes leave it alone, sparse adds, dense replaces
		if prev == nil {
			return
		}
		want, valid := denoted(buf)
		if !valid || err != nil {
			return
		}
		if len(buf) > 0 && len(buf) < 128 {
			for i := range want {
				want[i] = want[i] || prev[i]
			}
		} else if len(buf) == 0 {
			want = *prev
		}
		if setOf(got) != want {
			var lost, extra []int
			g := setOf(got)
			for i := range want {
				if want[i] && !g[i] {
					lost = append(lost, i)
				}
				if !want[i] && g[i] {
					extra = append(extra, i)
				}
			}
			st.hit(site, "into-nonempty", fmt.Sprintf("Unmarshal of %s into a bitmap with %d members: members lost %v, spurious %v", showBytes(buf), len(members(prev)), lost, extra))
		}
		return
	}
	want, valid := denoted(buf)
	switch {
	case !valid && err == nil:
		st.hit(site, "accepts-invalid", fmt.Sprintf("ill-formed bytes %s accepted", showBytes(buf)))
	case valid && err != nil:
		st.hit(site, "rejects-valid", fmt.Sprintf("well-formed bytes %s rejected: %v", showBytes(buf), err))
	case valid && setOf(got) != want:
		st.hit(site, "wrong-set", fmt.Sprintf("bytes %s decoded to %v, they denote %v", showBytes(buf), c08x.Members1024(got), members(&want)))
	}
}

func safeUnmarshal(b bitmap1024.Bit1024, buf []byte) (err error, panicked bool) {
	defer func() {
		if r := recover(); r != nil {
			panicked = true
		}
	}()
	return b.Unmarshal(buf), false
}

func safeMarshal(b bitmap1024.Bit1024) (out []byte, panicked bool) {
	defer func() {
		if r := recover(); r != nil {
			panicked = true
		}
	}()
	return b.Marshal(), false
}

// roundTrip: Unmarshal(Marshal(b)) into a fresh bitmap; also checks the encoding chosen.
func (st *state) roundTrip(b bitmap1024.Bit1024, ref *[1024]bool) string {
	buf, p := safeMarshal(b)
	if p {
		st.hit("Bit1024.Marshal", "panic", "Marshal panicked")
		return "panic"
	}
	cnt := len(members(ref))
	wantLen := 128
	if cnt == 0 {
		wantLen = 0
	} else if cnt < 64 {
		wantLen = 2 * cnt
	}
	if len(buf) != wantLen {
		st.hit("Bit1024.Marshal", "encoding", fmt.Sprintf("%d members encoded in %d bytes, expected %d", cnt, len(buf), wantLen))
	}
	fresh := bitmap1024.NewBit1024()
	err, p2 := safeUnmarshal(fresh, buf)
	if p2 {
		st.hit("Bit1024.Marshal", "roundtrip", fmt.Sprintf("Unmarshal of Marshal's own output panicked (%d members)", cnt))
		return "panic"
	}
	if err != nil || setOf(fresh) != *ref || !fresh.Equal(b) {
		st.hit("Bit1024.Marshal", "roundtrip", fmt.Sprintf("Unmarshal(Marshal(b)) != b for a bitmap with %d members (err=%v, %d bytes)", cnt, err, len(buf)))
		return "false"
	}
	return "true"
}

// expectBlock: what a block must iterate to — (start*1024 + offset) for its offsets, in order.
func expectBlock(rb *refBlock, rev bool, n int) []int64 {
	ms := members(&rb.set)
	if rev {
		ms = c08x.Reversed(ms)
	}
	if n > len(ms) {
		n = len(ms)
	}
	var out []int64
	for j := 0; j < n; j++ {
		out = append(out, int64(rb.start)*1024+int64(ms[j]))
	}
	return out
}

func eqI64(a []int64, b []int64) bool {
	if len(a) != len(b) {
		return false
	}
	for i := range a {
		if a[i] != b[i] {
			return false
		}
	}
	return true
}

func toI64[T c08x.Elem](s []T) []int64 {
	out := make([]int64, len(s))
	for i, v := range s {
		out[i] = int64(v)
	}
	return out
}

func monotone(xs []int64, rev bool) bool {
	for i := 1; i < len(xs); i++ {
		if (!rev && xs[i-1] >= xs[i]) || (rev && xs[i-1] <= xs[i]) {
			return false
		}
	}
	return true
}

// bigIterSite tells which single-block iterator of a BigU32 disagrees with the reference ("" if none).
func (st *state) bigRootCause(k int) string {
	rb, b := st.refBigs[k], st.bigs[k]
	for _, rev := range []bool{false, true} {
		want := expectBlock(rb, rev, 1024)
		s := make([]int64, 1024)
		var c int
		func() {
			defer func() { _ = recover() }()
			if rev {
				c = b.RIterAsI64(s, 0, 1024)
			} else {
				c = b.IterAsI64(s, 0, 1024)
			}
		}()
		if !eqI64(s[:c], want) {
			if rev {
				return "BigU32.RIterAsI64"
			}
			return "BigU32.IterAsI64"
		}
	}
	return ""
}

func (st *state) checkBlockBits(site string, bits bitmap1024.Bit1024, start uint32, rb *refBlock) {
	if start != rb.start {
		st.hit(site, "start", fmt.Sprintf("block start %d, expected %d", start, rb.start))
	}
	if setOf(bits) != rb.set {
		st.hit(site, "membership", fmt.Sprintf("block offsets %v, expected %v", c08x.Members1024(bits), members(&rb.set)))
		rb.set = setOf(bits) // resynchronise, so that one root cause is not reported again by later operations
	}
}

const maxSlice = 100000

func (st *state) run(line string) string {
	f := strings.Fields(line)
	if len(f) == 0 {
		return "bad-op"
	}
	switch {
	case f[0] == "new" && len(f) == 1:
		*st = *newState()
		return "ok"
	case f[0] == "probe-api" && len(f) == 1:
		// monitor-only: every exported method of the package's types, called once on throw-away values, must leave the
		// process-wide mask table intact (methods the scripts do not know about included)
		for _, bad := range c08x.ProbeAPI() {
			st.hit("api-probe", "corrupts-mask-table", "after calling "+bad)
		}
		return "ok"
	case f[0] == "magic" && len(f) == 2:
		m, ok := c08x.ParseInt(f[1], -2147483648, 2147483647)
		if !ok {
			return "bad-op"
		}
		c08x.SetMagic(m)
		// T-observable: the threshold as read back through the hook (a no-op setter would silently collapse the
		// dense/sparse branch coverage — results do not depend on the threshold)
		return fmt.Sprintf("magic=%d", bitmap1024.VerifSparseMagic())
	case f[0] == "load" && len(f) == 3:
		b, ref, ok := st.reg(f[1])
		m, ok2 := c08x.ParseMap(f[2])
		if !ok || !ok2 {
			return "bad-op"
		}
		*b = m
		*ref = setOf(m)
		return "ok"
	case f[0] == "dump" && len(f) == 2:
		b, _, ok := st.reg(f[1])
		if !ok {
			return "bad-op"
		}
		return c08x.ShowMap(*b)
	case f[0] == "marshal" && len(f) == 2:
		b, ref, ok := st.reg(f[1])
		if !ok {
			return "bad-op"
		}
		buf, p := safeMarshal(*b)
		if p {
			st.hit("Bit1024.Marshal", "panic", "Marshal panicked")
			return "panic"
		}
		st.roundTrip(*b, ref)
		return showBytes(buf)
	case f[0] == "marshal-mutate" && len(f) == 2:
		// Marshal's result must be detached from the bitmap: scribble over the returned bytes, then look at the bitmap
		b, ref, ok := st.reg(f[1])
		if !ok {
			return "bad-op"
		}
		buf, p := safeMarshal(*b)
		if p {
			st.hit("Bit1024.Marshal", "panic", "Marshal panicked")
			return "panic"
		}
		orig := append([]byte(nil), buf...)
		for i := range buf {
			buf[i] ^= 0xa5
		}
		if setOf(*b) != *ref {
			st.hit("Bit1024.Marshal", "aliases-receiver", fmt.Sprintf("writing to the %d bytes Marshal returned changed the bitmap: members now %d, before %d", len(buf), len(c08x.Members1024(*b)), len(members(ref))))
			for i := 0; i < 1024; i++ { // put it back: one root cause, one report
				if ref[i] {
					(*b)[i/64] |= 1 << uint(i%64)
				} else {
					(*b)[i/64] &^= 1 << uint(i%64)
				}
			}
		}
		// and a second Marshal is not disturbed by what was done to the first result
		if again, p2 := safeMarshal(*b); !p2 && string(again) != string(orig) {
			st.hit("Bit1024.Marshal", "aliases-receiver", "a second Marshal of the unchanged bitmap differs after the first result was overwritten")
		}
		return showBytes(orig) + " " + c08x.ShowMap(*b)
	case f[0] == "unmarshal" && len(f) == 3:
		b, ref, ok := st.reg(f[1])
		buf, ok2 := parseBytes(f[2])
		if !ok || !ok2 || len(buf) > 400 {
			return "bad-op"
		}
		wasEmpty := len(members(ref)) == 0
		prev := *ref
		err, p := safeUnmarshal(*b, buf)
		st.monitorUnmarshal("Bit1024.Unmarshal", wasEmpty, &prev, buf, *b, err, p)
		*ref = setOf(*b)
		if p {
			return "panic"
		}
		if err != nil {
			return errClass(err)
		}
		return "ok"
	case f[0] == "roundtrip" && len(f) == 2:
		b, ref, ok := st.reg(f[1])
		if !ok {
			return "bad-op"
		}
		return st.roundTrip(*b, ref)
	case f[0] == "big.fromi64" && len(f) == 2:
		v, ok := c08x.ParseInt(f[1], -1<<63, 1<<63-1)
		if !ok {
			return "bad-op"
		}
		b, err := bitmap1024.NewBigU32FromI64(v)
		in := v >= 0 && v <= maxInRange
		if in != (err == nil) {
			st.hit("NewBigU32FromI64", "range", fmt.Sprintf("v=%d accepted=%v, documented range is [0, %d]", v, err == nil, maxInRange))
		}
		if err != nil {
			return errClass(err)
		}
		rb := &refBlock{start: uint32(v / 1024)}
		rb.set[v%1024] = true
		st.bigs = append(st.bigs, b)
		st.refBigs = append(st.refBigs, rb)
		if in {
			st.checkBlockBits("NewBigU32FromI64", b.B1024, b.Start, rb)
			// the block built from v iterates back to precisely v, both directions
			if got := b.GetNAsI64(4); !eqI64(got, []int64{v}) {
				st.hit("BigU32.IterAsI64", "offset", fmt.Sprintf("NewBigU32FromI64(%d).GetNAsI64(4) = %v, expected [%d]", v, got, v))
			}
			if got := b.RGetNAsI64(4); !eqI64(got, []int64{v}) {
				st.hit("BigU32.RIterAsI64", "offset", fmt.Sprintf("NewBigU32FromI64(%d).RGetNAsI64(4) = %v, expected [%d]", v, got, v))
			}
		}
		return "ok"
	case (f[0] == "big.fromdata" || f[0] == "tip.fromdata") && len(f) == 3:
		s, ok := c08x.ParseInt(f[1], 0, 4294967295)
		buf, ok2 := parseBytes(f[2])
		if !ok || !ok2 || len(buf) > 400 {
			return "bad-op"
		}
		var bits bitmap1024.Bit1024
		var err error
		panicked := false
		func() {
			defer func() {
				if r := recover(); r != nil {
					panicked = true
				}
			}()
			if f[0] == "big.fromdata" {
				var b *bitmap1024.BigU32
				if b, err = bitmap1024.NewBigU32FromData(uint32(s), buf); err == nil {
					bits = b.B1024
					st.bigs = append(st.bigs, b)
				}
			} else {
				var b *bitmap1024.U32BitTip
				if b, err = bitmap1024.NewU32BitTipFromData(uint32(s), buf); err == nil {
					bits = b.B1024
					st.tips = append(st.tips, b)
				}
			}
		}()
		site := "NewBigU32FromData"
		if f[0] == "tip.fromdata" {
			site = "NewU32BitTipFromData"
		}
		if panicked {
			st.hit(site, "panic", fmt.Sprintf("panicked on %d bytes", len(buf)))
			return "panic"
		}
		if f[0] == "tip.fromdata" && s > 4194303 {
			if err == nil {
				st.hit(site, "start-range", fmt.Sprintf("start %d accepted although start*1024 exceeds uint32", s))
			}
		} else {
			st.monitorUnmarshal(site, true, nil, buf, bits, err, false)
		}
		if err != nil {
			return errClass(err)
		}
		rb := &refBlock{start: uint32(s), set: setOf(bits)}
		if f[0] == "big.fromdata" {
			st.refBigs = append(st.refBigs, rb)
		} else {
			st.refTips = append(st.refTips, rb)
		}
		return "ok"
	case f[0] == "big.set" && len(f) == 3:
		k, ok := c08x.ParseInt(f[1], 0, 1<<30)
		v, ok2 := c08x.ParseInt(f[2], -1<<63, 1<<63-1)
		if !ok || !ok2 || int(k) >= len(st.bigs) || strings.HasPrefix(f[1], "-") {
			return "bad-op"
		}
		b, rb := st.bigs[k], st.refBigs[k]
		err := b.SetI64(v)
		belongs := v >= 0 && v <= maxInRange && uint32(v/1024) == rb.start
		if belongs != (err == nil) {
			st.hit("BigU32.SetI64", "accepts", fmt.Sprintf("block start %d: SetI64(%d) accepted=%v, belongs to the block=%v", rb.start, v, err == nil, belongs))
		}
		if belongs {
			rb.set[v%1024] = true
		}
		st.checkBlockBits("BigU32.SetI64", b.B1024, b.Start, rb)
		if err != nil {
			return errClass(err)
		}
		return "ok"
	case f[0] == "tip.set" && len(f) == 3:
		k, ok := c08x.ParseInt(f[1], 0, 1<<30)
		v, ok2 := c08x.ParseInt(f[2], 0, 4294967295)
		if !ok || !ok2 || int(k) >= len(st.tips) || strings.HasPrefix(f[1], "-") {
			return "bad-op"
		}
		b, rb := st.tips[k], st.refTips[k]
		err := b.SetU32(uint32(v))
		belongs := uint32(v/1024) == rb.start
		if belongs != (err == nil) {
			st.hit("U32BitTip.SetU32", "accepts", fmt.Sprintf("block start %d: SetU32(%d) accepted=%v, belongs to the block=%v", rb.start, v, err == nil, belongs))
		}
		if belongs {
			rb.set[v%1024] = true
		}
		st.checkBlockBits("U32BitTip.SetU32", b.B1024, b.Start, rb)
		if err != nil {
			return errClass(err)
		}
		return "ok"
	case f[0] == "tip.fromu32" && len(f) == 2:
		u, ok := c08x.ParseInt(f[1], 0, 4294967295)
		if !ok {
			return "bad-op"
		}
		b := bitmap1024.NewU32BitTipFromU32(uint32(u))
		rb := &refBlock{start: uint32(u / 1024)}
		rb.set[u%1024] = true
		st.tips = append(st.tips, b)
		st.refTips = append(st.refTips, rb)
		st.checkBlockBits("NewU32BitTipFromU32", b.B1024, b.Start, rb)
		for _, rev := range []bool{false, true} {
			got := b.GetNAsU32(4)
			if rev {
				got = b.RGetNAsU32(4)
			}
			if !eqI64(toI64(got), []int64{u}) {
				st.hit("U32BitTip.IterAsU32", "offset", fmt.Sprintf("NewU32BitTipFromU32(%d) iterates (rev=%v) to %v, expected [%d]", u, rev, got, u))
			}
		}
		return "ok"
	case (f[0] == "bigs.rev" || f[0] == "tips.rev") && len(f) == 1:
		if f[0] == "bigs.rev" {
			st.bigs = st.bigs.Reverse()
			for _, rb := range st.refBigs {
				for i := range rb.set {
					rb.set[i] = !rb.set[i]
				}
			}
			for k, b := range st.bigs {
				st.checkBlockBits("BigU32s.Reverse", b.B1024, b.Start, st.refBigs[k])
			}
			if len(st.bigs) != len(st.refBigs) {
				st.hit("BigU32s.Reverse", "length", "list length changed")
			}
		} else {
			st.tips = st.tips.Reverse()
			for _, rb := range st.refTips {
				for i := range rb.set {
					rb.set[i] = !rb.set[i]
				}
			}
			for k, b := range st.tips {
				st.checkBlockBits("U32BitTips.Reverse", b.B1024, b.Start, st.refTips[k])
			}
			if len(st.tips) != len(st.refTips) {
				st.hit("U32BitTips.Reverse", "length", "list length changed")
			}
		}
		return "ok"
	case (f[0] == "big.rev" || f[0] == "tip.rev" || f[0] == "big.show" || f[0] == "tip.show") && len(f) == 2:
		k, ok := c08x.ParseInt(f[1], 0, 1<<30)
		if !ok || strings.HasPrefix(f[1], "-") {
			return "bad-op"
		}
		big := strings.HasPrefix(f[0], "big")
		if (big && int(k) >= len(st.bigs)) || (!big && int(k) >= len(st.tips)) {
			return "bad-op"
		}
		switch f[0] {
		case "big.rev":
			st.bigs[k] = st.bigs[k].Reverse()
			for i := range st.refBigs[k].set {
				st.refBigs[k].set[i] = !st.refBigs[k].set[i]
			}
			st.checkBlockBits("BigU32.Reverse", st.bigs[k].B1024, st.bigs[k].Start, st.refBigs[k])
			return "ok"
		case "tip.rev":
			st.tips[k] = st.tips[k].Reverse()
			for i := range st.refTips[k].set {
				st.refTips[k].set[i] = !st.refTips[k].set[i]
			}
			st.checkBlockBits("U32BitTip.Reverse", st.tips[k].B1024, st.tips[k].Start, st.refTips[k])
			return "ok"
		case "big.show":
			return fmt.Sprintf("start=%d bits=%s", st.bigs[k].Start, c08x.ShowMap(st.bigs[k].B1024))
		default:
			return fmt.Sprintf("start=%d bits=%s", st.tips[k].Start, c08x.ShowMap(st.tips[k].B1024))
		}
	case (f[0] == "big.getn" || f[0] == "tip.getn") && len(f) == 4:
		k, ok := c08x.ParseInt(f[1], 0, 1<<30)
		rev, ok1 := c08x.ParseDir(f[2])
		n, ok2 := c08x.ParseInt(f[3], -1<<62, maxSlice)
		if !ok || !ok1 || !ok2 || strings.HasPrefix(f[1], "-") {
			return "bad-op"
		}
		if f[0] == "big.getn" {
			if int(k) >= len(st.bigs) {
				return "bad-op"
			}
			b, rb := st.bigs[k], st.refBigs[k]
			fn := b.GetNAsI64
			site := "BigU32.IterAsI64"
			if rev {
				fn, site = b.RGetNAsI64, "BigU32.RIterAsI64"
			}
			s, okc := c08x.GetNCall(int(n), fn)
			st.recheckHeld()
			if okc && len(s) > 0 {
				st.hold(c08x.Hold(site, s))
			}
			if n >= 0 {
				want := expectBlock(rb, rev, int(n))
				switch {
				case !okc:
					st.hit(site, "panic", fmt.Sprintf("GetN(%d) panicked", n))
				case !eqI64(s, want) || (s == nil) != (want == nil):
					st.hit(site, "offset", fmt.Sprintf("block start=%d offsets=%v rev=%v n=%d: got %s, expected %s", rb.start, members(&rb.set), rev, n, c08x.ShowGetN(s, okc), c08x.ShowGetN(want, true)))
				}
				if okc && !monotone(s, rev) {
					st.hit(site, "order", fmt.Sprintf("rev=%v result not strictly monotone: %v", rev, s))
				}
			}
			return c08x.ShowGetN(s, okc)
		}
		if int(k) >= len(st.tips) {
			return "bad-op"
		}
		b, rb := st.tips[k], st.refTips[k]
		fn := b.GetNAsU32
		if rev {
			fn = b.RGetNAsU32
		}
		s, okc := c08x.GetNCall(int(n), fn)
		st.recheckHeld()
		if okc && len(s) > 0 {
			st.hold(c08x.Hold("U32BitTip.getNAsU32", s))
		}
		if n >= 0 && rb.start <= 4194303 {
			want := expectBlock(rb, rev, int(n))
			got := toI64(s)
			switch {
			case !okc:
				st.hit("U32BitTip.getNAsU32", "panic", fmt.Sprintf("GetN(%d) panicked", n))
			case eqI64(got, want) && (s == nil) == (want == nil):
			case eqI64(got, expectBlock(rb, !rev, int(n))):
				name := "GetNAsU32 returned the members in descending order"
				if rev {
					name = "RGetNAsU32 returned the members in ascending order"
				}
				st.hit("U32BitTip.getNAsU32", "direction", fmt.Sprintf("%s: block start=%d offsets=%v n=%d: got %v, expected %v", name, rb.start, members(&rb.set), n, got, want))
			default:
				st.hit("U32BitTip.getNAsU32", "content", fmt.Sprintf("block start=%d offsets=%v rev=%v n=%d: got %v, expected %v", rb.start, members(&rb.set), rev, n, got, want))
			}
		}
		return c08x.ShowGetN(s, okc)
	case (f[0] == "big.iter" || f[0] == "tip.iter") && len(f) == 6:
		k, ok := c08x.ParseInt(f[1], 0, 1<<30)
		rev, ok1 := c08x.ParseDir(f[2])
		slen, ok2 := c08x.ParseInt(f[3], 0, maxSlice)
		pos, ok3 := c08x.ParseInt(f[4], -1<<62, 1<<62)
		n, ok4 := c08x.ParseInt(f[5], -1<<62, 1<<62)
		if !ok || !ok1 || !ok2 || !ok3 || !ok4 || strings.HasPrefix(f[1], "-") || strings.HasPrefix(f[3], "-") {
			return "bad-op"
		}
		if f[0] == "big.iter" {
			if int(k) >= len(st.bigs) {
				return "bad-op"
			}
			b, rb := st.bigs[k], st.refBigs[k]
			it, site := b.IterAsI64, "BigU32.IterAsI64"
			if rev {
				it, site = b.RIterAsI64, "BigU32.RIterAsI64"
			}
			s, c, okc := c08x.IterCall(int(slen), int(pos), 0, int(n), func(s []int64, pos int, _ int64, n int) int { return it(s, pos, n) })
			want, cnt, applicable := c08x.ExpectIter[int64](members(&rb.set), rev, int(slen), int(pos), int64(rb.start)*1024, int(n))
			if applicable && (!okc || c != cnt || !c08x.EqualVals(s, want)) {
				st.hit(site, "offset", fmt.Sprintf("block start=%d offsets=%v rev=%v pos=%d n=%d: got %s, expected c=%d s=%s", rb.start, members(&rb.set), rev, pos, n, c08x.ShowIter(s, c, okc), cnt, c08x.ShowVals(want)))
			}
			return c08x.ShowIter(s, c, okc)
		}
		if int(k) >= len(st.tips) {
			return "bad-op"
		}
		b, rb := st.tips[k], st.refTips[k]
		it, site := b.IterAsU32, "U32BitTip.IterAsU32"
		if rev {
			it, site = b.RIterAsU32, "U32BitTip.RIterAsU32"
		}
		s, c, okc := c08x.IterCall(int(slen), int(pos), 0, int(n), func(s []uint32, pos int, _ uint32, n int) int { return it(s, pos, n) })
		if rb.start <= 4194303 {
			want, cnt, applicable := c08x.ExpectIter[uint32](members(&rb.set), rev, int(slen), int(pos), int64(rb.start)*1024, int(n))
			if applicable && (!okc || c != cnt || !c08x.EqualVals(s, want)) {
				st.hit(site, "content", fmt.Sprintf("block start=%d offsets=%v rev=%v pos=%d n=%d: got %s, expected c=%d s=%s", rb.start, members(&rb.set), rev, pos, n, c08x.ShowIter(s, c, okc), cnt, c08x.ShowVals(want)))
			}
		}
		return c08x.ShowIter(s, c, okc)
	case f[0] == "stress" && len(f) == 4:
		// monitor-only operation (the oracle answers `ok` without evaluating the model, whose list writes are quadratic):
		// many FULL blocks and a count far beyond what the scripts otherwise use; the list forms and the single-block
		// forms are compared with the set-level expectation computed here
		nb, ok1 := c08x.ParseInt(f[2], 1, 100)
		n, ok2 := c08x.ParseInt(f[3], -200000, 200000)
		if (f[1] != "big" && f[1] != "tip") || !ok1 || !ok2 || strings.HasPrefix(f[2], "-") {
			return "bad-op"
		}
		st.stress(f[1], int(nb), int(n))
		return "ok"
	case f[0] == "stress" && len(f) == 3 && (f[1] == "unm" || f[1] == "many"):
		// monitor-only: a payload of n bytes (far beyond 128) must be rejected without touching the bitmap; a list of n
		// single-member blocks iterates to n values
		n, ok := c08x.ParseInt(f[2], 0, 200000)
		if !ok || strings.HasPrefix(f[2], "-") {
			return "bad-op"
		}
		st.stressLong(f[1], int(n))
		return "ok"
	case (f[0] == "bigs.getn" || f[0] == "tips.getn") && len(f) == 3:
		rev, ok1 := c08x.ParseDir(f[1])
		n, ok2 := c08x.ParseInt(f[2], -1<<62, maxSlice)
		if !ok1 || !ok2 {
			return "bad-op"
		}
		if f[0] == "bigs.getn" {
			fn := st.bigs.GetNAsI64
			if rev {
				fn = st.bigs.RGetNAsI64
			}
			s, okc := c08x.GetNCall(int(n), fn)
			st.recheckHeld()
			if okc && len(s) > 0 {
				st.hold(c08x.Hold("BigU32s.getNAsI64", s))
			}
			if n >= 0 || len(st.bigs) == 0 {
				// as coded and documented in DESIGN: blocks in index order for both directions
				var want []int64
				for _, rb := range st.refBigs {
					want = append(want, expectBlock(rb, rev, 1024)...)
				}
				if int(n) < len(want) {
					if n < 0 {
						n = 0
					}
					want = want[:n]
				}
				if !okc {
					st.hit("BigU32s.getNAsI64", "panic", fmt.Sprintf("panicked for n=%d", n))
				} else if !eqI64(s, want) {
					site, what := "BigU32s.getNAsI64", "concat"
					for k := range st.bigs {
						if rc := st.bigRootCause(k); rc != "" {
							site, what = rc, "offset"
							break
						}
					}
					st.hit(site, what, fmt.Sprintf("list form (rev=%v, n=%d) over %d blocks: got %v, expected %v", rev, n, len(st.bigs), s, want))
				}
			}
			return c08x.ShowGetN(s, okc)
		}
		fn := st.tips.GetNAsU32
		if rev {
			fn = st.tips.RGetNAsU32
		}
		s, okc := c08x.GetNCall(int(n), fn)
		st.recheckHeld()
		if okc && len(s) > 0 {
			st.hold(c08x.Hold("U32BitTips.GetNAsU32", s))
		}
		if n >= 0 || len(st.tips) == 0 {
			var want []int64
			order := st.refTips
			if rev {
				order = nil
				for i := len(st.refTips) - 1; i >= 0; i-- {
					order = append(order, st.refTips[i])
				}
			}
			wrap := false
			for _, rb := range order {
				want = append(want, expectBlock(rb, rev, 1024)...)
				wrap = wrap || rb.start > 4194303
			}
			if int(n) < len(want) {
				if n < 0 {
					n = 0
				}
				want = want[:n]
			}
			if !okc {
				st.hit("U32BitTips.GetNAsU32", "panic", fmt.Sprintf("panicked for n=%d", n))
			} else if !wrap && !eqI64(toI64(s), want) {
				st.hit("U32BitTips.GetNAsU32", "concat", fmt.Sprintf("list form (rev=%v, n=%d) over %d blocks: got %v, expected %v", rev, n, len(st.tips), s, want))
			}
		}
		return c08x.ShowGetN(s, okc)
	}
	return "bad-op"
}

// stress: nb full blocks with consecutive starts; GetN / RGetN of the list and of the first block with count n.
func (st *state) stress(kind string, nb, n int) {
	ff := make([]byte, 128)
	for i := range ff {
		ff[i] = 0xff
	}
	base := uint32(4194303 - nb) // the last tip block is the topmost one; for BigU32 an arbitrary region
	expect := func(listRev, rev bool) []int64 {
		var out []int64
		for k := 0; k < nb; k++ {
			kk := k
			if listRev {
				kk = nb - 1 - k
			}
			start := int64(base) + int64(kk)
			for m := 0; m < 1024; m++ {
				mm := m
				if rev {
					mm = 1023 - m
				}
				out = append(out, start*1024+int64(mm))
			}
		}
		if n < len(out) {
			if n < 0 {
				return nil
			}
			out = out[:n]
		}
		return out
	}
	if kind == "big" {
		var bs bitmap1024.BigU32s
		for k := 0; k < nb; k++ {
			b, err := bitmap1024.NewBigU32FromData(base+uint32(k), ff)
			if err != nil {
				st.hit("NewBigU32FromData", "rejects-valid", "128 x ff rejected: "+err.Error())
				return
			}
			bs = append(bs, b)
		}
		for _, rev := range []bool{false, true} {
			fn := bs.GetNAsI64
			if rev {
				fn = bs.RGetNAsI64
			}
			got, ok := c08x.GetNCall(n, fn)
			if n < 0 {
				continue
			}
			want := expect(false, rev) // BigU32s: index order in both directions
			if !ok || !eqI64(got, want) {
				st.hit("BigU32s.getNAsI64", "concat", fmt.Sprintf("%d full blocks, rev=%v, n=%d: %d values returned (panic=%v), expected %d; first difference at %d", nb, rev, n, len(got), !ok, len(want), firstDiff(got, want)))
			}
			one, ok1 := c08x.GetNCall(n, map[bool]func(int) []int64{false: bs[0].GetNAsI64, true: bs[0].RGetNAsI64}[rev])
			w1 := want
			if len(w1) > 1024 {
				w1 = w1[:1024]
			}
			if rev && nb > 0 {
				w1 = nil
				for m := 1023; m >= 0 && len(w1) < n; m-- {
					w1 = append(w1, int64(base)*1024+int64(m))
				}
			}
			if !ok1 || !eqI64(one, w1) {
				st.hit("BigU32.IterAsI64", "offset", fmt.Sprintf("full block, rev=%v, n=%d: %d values returned, expected %d", rev, n, len(one), len(w1)))
			}
		}
		return
	}
	var ts bitmap1024.U32BitTips
	for k := 0; k < nb; k++ {
		b, err := bitmap1024.NewU32BitTipFromData(base+uint32(k), ff)
		if err != nil {
			st.hit("NewU32BitTipFromData", "rejects-valid", "128 x ff rejected: "+err.Error())
			return
		}
		ts = append(ts, b)
	}
	for _, rev := range []bool{false, true} {
		fn := ts.GetNAsU32
		if rev {
			fn = ts.RGetNAsU32
		}
		got, ok := c08x.GetNCall(n, fn)
		if n < 0 {
			continue
		}
		want := expect(rev, rev) // U32BitTips: reverse visits the blocks in reverse order
		if !ok || !eqI64(toI64(got), want) {
			st.hit("U32BitTips.GetNAsU32", "concat", fmt.Sprintf("%d full blocks, rev=%v, n=%d: %d values returned (panic=%v), expected %d; first difference at %d", nb, rev, n, len(got), !ok, len(want), firstDiff(toI64(got), want)))
		}
	}
}

func (st *state) stressLong(kind string, n int) {
	if kind == "unm" {
		buf := make([]byte, n)
		for i := 0; i+1 < n; i += 2 {
			buf[i] = byte(7 + i/2%200) // elements 7, 8, … all in range
		}
		fresh := bitmap1024.NewBit1024()
		err, p := safeUnmarshal(fresh, buf)
		_, valid := denoted(buf)
		switch {
		case p:
			st.hit("Bit1024.Unmarshal", "panic", fmt.Sprintf("Unmarshal panicked on %d bytes", n))
		case !valid && err == nil:
			st.hit("Bit1024.Unmarshal", "accepts-invalid", fmt.Sprintf("a payload of %d bytes (more than 128 / odd) was accepted; members afterwards %v", n, c08x.Members1024(fresh)))
		case !valid && len(c08x.Members1024(fresh)) != 0 && (n > 128 || n%2 == 1):
			st.hit("Bit1024.Unmarshal", "wrong-set", fmt.Sprintf("a rejected payload of %d bytes left members %v behind", n, c08x.Members1024(fresh)))
		}
		return
	}
	var bs bitmap1024.BigU32s
	var ts bitmap1024.U32BitTips
	var want []int64
	for k := 0; k < n; k++ {
		v := int64(k)*1024 + int64(k%1024)
		b, err := bitmap1024.NewBigU32FromI64(v)
		if err != nil {
			st.hit("NewBigU32FromI64", "range", fmt.Sprintf("v=%d rejected", v))
			return
		}
		bs = append(bs, b)
		ts = append(ts, bitmap1024.NewU32BitTipFromU32(uint32(v)))
		want = append(want, v)
	}
	got, ok := c08x.GetNCall(n+10, bs.GetNAsI64)
	if !ok || !eqI64(got, want) {
		st.hit("BigU32s.getNAsI64", "concat", fmt.Sprintf("%d single-member blocks, n=%d: %d values returned (panic=%v), first difference at %d", n, n+10, len(got), !ok, firstDiff(got, want)))
	}
	gotU, okU := c08x.GetNCall(n+10, ts.GetNAsU32)
	if !okU || !eqI64(toI64(gotU), want) {
		st.hit("U32BitTips.GetNAsU32", "concat", fmt.Sprintf("%d single-member blocks, n=%d: %d values returned (panic=%v), first difference at %d", n, n+10, len(gotU), !okU, firstDiff(toI64(gotU), want)))
	}
}

func firstDiff(a, b []int64) int {
	for i := 0; i < len(a) && i < len(b); i++ {
		if a[i] != b[i] {
			return i
		}
	}
	if len(a) != len(b) {
		if len(a) < len(b) {
			return len(a)
		}
		return len(b)
	}
	return -1
}

func runCase(c corr.Case) (res corr.Result) {
	st := newState()
	defer c08x.SetMagic(int64(c08x.DefaultMagic))
	for _, l := range c.Lines {
		out := func() (o string) {
			defer func() {
				if r := recover(); r != nil {
					o = "panic"
				}
			}()
			return st.run(l)
		}()
		res.Outs = append(res.Outs, out)
	}
	// end of every script: earlier results still intact, process-wide mask table still intact
	st.recheckHeld()
	if ok, what := c08x.MaskTableIntact(); !ok {
		st.hit("u64Tab", "corrupted", what)
	}
	res.Hits = st.hits
	return res
}

// ---------------------------------------------------------------- generators

func mapWithCount(r *rng.R, k int) [16]uint64 {
	var m [16]uint64
	if k >= 1024 {
		for i := range m {
			m[i] = ^uint64(0)
		}
		return m
	}
	if k > 512 {
		for i := range m {
			m[i] = ^uint64(0)
		}
		for c := 1024; c > k; {
			i := r.Intn(1024)
			if m[i/64]&(1<<uint(i%64)) != 0 {
				m[i/64] &^= 1 << uint(i%64)
				c--
			}
		}
		return m
	}
	for c := 0; c < k; {
		i := r.Intn(1024)
		if m[i/64]&(1<<uint(i%64)) == 0 {
			m[i/64] |= 1 << uint(i%64)
			c++
		}
	}
	return m
}

func showMapU(m [16]uint64) string {
	parts := make([]string, 16)
	for i, w := range m {
		parts[i] = strconv.FormatUint(w, 16)
	}
	return strings.Join(parts, ",")
}

func pickCount(r *rng.R) int {
	return r.PickInt(0, 1, 2, 62, 63, 64, 65, 66, 127, 128, 1023, 1024, r.Range(0, 70), r.Range(0, 1024))
}

func pickMagicLine(r *rng.R) []string {
	switch r.Intn(6) {
	case 0:
		return []string{"magic -1"}
	case 1:
		return []string{"magic 64"}
	case 2:
		return []string{"magic " + strconv.Itoa(r.Range(0, 64))}
	}
	return nil
}

func genMarshal(r *rng.R) corr.Case {
	lines := append([]string{"new"}, pickMagicLine(r)...)
	k := pickCount(r)
	m := mapWithCount(r, k)
	if r.Chance(1, 8) {
		// members at the ends of the range and of the words
		m[0] |= 1
		m[15] |= 1 << 63
		m[r.Intn(16)] |= 1<<63 | 1
	}
	lines = append(lines, "load a "+showMapU(m), "marshal a", "roundtrip a")
	if r.Chance(1, 3) {
		lines = append(lines, "marshal-mutate a", "dump a", "marshal a")
	}
	if r.Chance(1, 3) {
		m2 := mapWithCount(r, pickCount(r))
		lines = append(lines, "load b "+showMapU(m2), "marshal b", "roundtrip b")
	}
	return corr.Case{Tag: fmt.Sprintf("marshal:count-class-%s", countClass(k)), Lines: lines}
}

func countClass(k int) string {
	switch {
	case k == 0:
		return "0"
	case k == 1:
		return "1"
	case k == 63:
		return "63"
	case k == 64:
		return "64"
	case k == 65:
		return "65"
	case k == 1024:
		return "1024"
	case k < 64:
		return "sparse"
	}
	return "dense"
}

func le16(v int) string { return fmt.Sprintf("%02x%02x", v&0xff, (v>>8)&0xff) }

// genUnmarshal: structured byte strings of length 0..130 (valid sparse, bad parity, element 1024 / negative, dense,
// 129/130 bytes) plus random bytes; sometimes into a non-empty register (mutation in place is modelled too).
func genUnmarshal(r *rng.R) corr.Case {
	lines := []string{"new"}
	rounds := r.Range(1, 4)
	for ; rounds > 0; rounds-- {
		reg := r.Pick("a", "a", "b")
		var hx string
		tag := r.Intn(10)
		switch tag {
		case 0: // valid sparse
			var sb strings.Builder
			for k := r.PickInt(1, 2, 31, 62, 63, r.Range(1, 63)); k > 0; k-- {
				sb.WriteString(le16(r.PickInt(0, 1023, 63, 64, r.Intn(1024))))
			}
			hx = sb.String()
		case 1: // one bad element somewhere
			var sb strings.Builder
			n := r.Range(1, 63)
			bad := r.Intn(n)
			for k := 0; k < n; k++ {
				if k == bad {
					sb.WriteString(le16(r.PickInt(1024, 1025, 32767, 32768, 65535, 0x8000|r.Intn(1024), r.Range(1024, 65535))))
				} else {
					sb.WriteString(le16(r.Intn(1024)))
				}
			}
			hx = sb.String()
		case 2: // odd length
			n := r.PickInt(1, 3, 63, 127, 129, r.Range(0, 64)*2+1)
			b := make([]byte, n)
			for i := range b {
				b[i] = byte(r.U64())
			}
			hx = hex.EncodeToString(b)
		case 3: // too long
			n := r.PickInt(129, 130, 131, 132, 256)
			hx = strings.Repeat("00", n)
		case 4, 5: // dense
			b := make([]byte, 128)
			for i := range b {
				b[i] = byte(r.U64())
				if r.Chance(1, 3) {
					b[i] &= byte(r.U64())
				}
			}
			hx = hex.EncodeToString(b)
		case 6: // 126 bytes: the longest sparse form
			var sb strings.Builder
			for k := 0; k < 63; k++ {
				sb.WriteString(le16(r.Intn(1024)))
			}
			hx = sb.String()
		case 7:
			hx = "-"
		default: // random bytes of random length 0..130
			n := r.Range(0, 130)
			b := make([]byte, n)
			for i := range b {
				b[i] = byte(r.U64())
				if r.Chance(1, 2) && i%2 == 1 {
					b[i] &= 3 // keep many elements in range so that decoding proceeds
				}
			}
			hx = showBytes(b)
		}
		lines = append(lines, "unmarshal "+reg+" "+hx, "dump "+reg)
	}
	if r.Chance(1, 2) {
		lines = append(lines, "roundtrip a", "marshal a")
	}
	return corr.Case{Tag: "unmarshal", Lines: lines}
}

var i64Edges = []int64{0, 1, 1023, 1024, 1025, 1<<22*1024 - 1, 1 << 32, 1<<32 + 1, 1<<32 - 1, 1<<33 + 5, 1<<32 + 1023, maxInRange, maxInRange - 1, maxInRange - 1023,
	maxInRange - 1024, maxInRange + 1, maxInRange + 2, maxInRange + 1025, 1 << 42, 1<<42 + 7, 1<<63 - 1, -1, -1024, -1 << 63, -1 << 32}

func pickI64(r *rng.R) int64 {
	switch r.Intn(6) {
	case 0:
		return i64Edges[r.Intn(len(i64Edges))]
	case 1:
		return int64(r.U64() % uint64(maxInRange+1))
	case 2:
		return int64(r.U64() % (1 << 32)) // below the overflow boundary of the uint32 multiplication
	case 3:
		return (1 << 32) + int64(r.U64()%(1<<40))
	case 4:
		return maxInRange - int64(r.Intn(5000)) + 2500
	default:
		return r.I64()
	}
}

func genBig(r *rng.R) corr.Case {
	lines := append([]string{"new"}, pickMagicLine(r)...)
	nb := r.Range(1, 3)
	var starts []int64
	for k := 0; k < nb; k++ {
		v := pickI64(r)
		lines = append(lines, fmt.Sprintf("big.fromi64 %d", v))
		if v >= 0 && v <= maxInRange {
			idx := len(starts)
			starts = append(starts, v/1024)
			lines = append(lines, fmt.Sprintf("big.getn %d %s %d", idx, r.Pick("f", "r"), r.PickInt(1, 1, 2, 0, 5)))
			// further integers: same block (accepted), neighbours and far away (rejected)
			for j := r.Intn(6); j > 0; j-- {
				var w int64
				switch r.Intn(6) {
				case 0, 1, 2:
					w = (v/1024)*1024 + int64(r.Intn(1024))
				case 3:
					w = (v/1024)*1024 + int64(r.PickInt(-1, 1024, -1024, 2047))
				case 4:
					w = pickI64(r)
				default:
					w = (v/1024)*1024 + int64(r.PickInt(0, 1023))
				}
				lines = append(lines, fmt.Sprintf("big.set %d %d", idx, w))
			}
			if r.Chance(1, 6) {
				lines = append(lines, fmt.Sprintf("big.rev %d", idx))
			}
			lines = append(lines, fmt.Sprintf("big.show %d", idx))
			for j := r.Range(1, 3); j > 0; j-- {
				n := r.PickInt(-1, 0, 1, 2, 3, 7, 1024, 1025, r.Intn(12))
				if r.Chance(1, 3) {
					pos := r.PickInt(0, 1, 2)
					k := n
					if k < 0 {
						k = 0
					}
					if k > 8 {
						k = 8
					}
					lines = append(lines, fmt.Sprintf("big.iter %d %s %d %d %d", idx, r.Pick("f", "r"), pos+k+r.Intn(2), pos, n))
				} else {
					lines = append(lines, fmt.Sprintf("big.getn %d %s %d", idx, r.Pick("f", "r"), n))
				}
			}
		}
	}
	if len(starts) > 0 {
		if r.Chance(1, 8) {
			lines = append(lines, "bigs.rev")
		}
		lines = append(lines, fmt.Sprintf("bigs.getn %s %d", r.Pick("f", "r"), r.PickInt(-1, 0, 1, 3, 10, 3000, r.Intn(8))))
	} else if r.Chance(1, 2) {
		lines = append(lines, fmt.Sprintf("bigs.getn %s %d", r.Pick("f", "r"), r.PickInt(-1, 0, 3)))
	}
	return corr.Case{Tag: "big", Lines: lines}
}

var u32Edges = []int64{0, 1, 1023, 1024, 1025, 4294967295, 4294967294, 4294966272, 4294966271, 1 << 31, 1<<31 - 1, 1 << 22, 1<<22*1024 - 1 + 0, 65535, 65536}

func pickU32(r *rng.R) int64 {
	if r.Chance(1, 3) {
		return u32Edges[r.Intn(len(u32Edges))] & 0xffffffff
	}
	return int64(r.U64() & 0xffffffff)
}

func genTip(r *rng.R) corr.Case {
	lines := append([]string{"new"}, pickMagicLine(r)...)
	nb := r.Range(1, 3)
	for idx := 0; idx < nb; idx++ {
		u := pickU32(r)
		lines = append(lines, fmt.Sprintf("tip.fromu32 %d", u))
		for j := r.Intn(7); j > 0; j-- {
			var w int64
			switch r.Intn(6) {
			case 0, 1, 2, 3:
				w = (u/1024)*1024 + int64(r.Intn(1024))
			case 4:
				w = (u/1024)*1024 + int64(r.PickInt(-1, 1024, -1024, 2047))
			default:
				w = pickU32(r)
			}
			if w < 0 || w > 4294967295 {
				w = pickU32(r)
			}
			lines = append(lines, fmt.Sprintf("tip.set %d %d", idx, w))
		}
		if r.Chance(1, 6) {
			lines = append(lines, fmt.Sprintf("tip.rev %d", idx))
		}
		lines = append(lines, fmt.Sprintf("tip.show %d", idx))
		for j := r.Range(1, 3); j > 0; j-- {
			n := r.PickInt(-1, 0, 1, 2, 3, 7, 1024, 1025, r.Intn(12))
			if r.Chance(1, 3) {
				pos := r.PickInt(0, 1, 2)
				k := n
				if k < 0 {
					k = 0
				}
				if k > 8 {
					k = 8
				}
				lines = append(lines, fmt.Sprintf("tip.iter %d %s %d %d %d", idx, r.Pick("f", "r"), pos+k+r.Intn(2), pos, n))
			} else {
				lines = append(lines, fmt.Sprintf("tip.getn %d %s %d", idx, r.Pick("f", "r"), n))
			}
		}
	}
	if r.Chance(1, 8) {
		lines = append(lines, "tips.rev")
	}
	lines = append(lines, fmt.Sprintf("tips.getn %s %d", r.Pick("f", "r"), r.PickInt(-1, 0, 1, 3, 10, 3000, r.Intn(8))))
	return corr.Case{Tag: "tip", Lines: lines}
}

func genFromData(r *rng.R) corr.Case {
	lines := []string{"new"}
	for k := r.Range(1, 3); k > 0; k-- {
		u := genUnmarshal(r)
		var hx string
		for _, l := range u.Lines {
			if strings.HasPrefix(l, "unmarshal ") {
				hx = strings.Fields(l)[2]
			}
		}
		if hx == "" {
			hx = "-"
		}
		if r.Bool() {
			start := r.PickI64(0, 1, 4194303, 4194304, 4294967295, int64(r.U64()&0xffffffff), int64(r.U64()&0x3fffff))
			lines = append(lines, fmt.Sprintf("big.fromdata %d %s", start, hx))
		} else {
			start := r.PickI64(0, 1, 4194303, 4194304, 4294967295, int64(r.U64()&0x3fffff), int64(r.U64()&0x3fffff))
			lines = append(lines, fmt.Sprintf("tip.fromdata %d %s", start, hx))
		}
	}
	lines = append(lines, "bigs.getn f 5", "tips.getn r 5", "bigs.getn r 2000", "tips.getn f 2000")
	return corr.Case{Tag: "fromdata", Lines: lines}
}

// genFullBlocks: blocks with all 1024 members or all but a few, asked for n around the block size.
func genFullBlocks(r *rng.R) corr.Case {
	lines := append([]string{"new"}, pickMagicLine(r)...)
	kind := r.Pick("big", "tip")
	nb := r.Range(1, 2)
	for idx := 0; idx < nb; idx++ {
		var start int64
		if kind == "big" {
			start = r.PickI64(0, 1, 4194303, 4194304, 8388608, 4294967294, int64(r.U64()&0xffffffff))
		} else {
			start = r.PickI64(0, 1, 4194303, 4194302, int64(r.U64()&0x3fffff))
		}
		switch r.Intn(3) {
		case 0:
			lines = append(lines, fmt.Sprintf("%s.fromdata %d %s", kind, start, strings.Repeat("ff", 128)))
		case 1:
			lines = append(lines, fmt.Sprintf("%s.fromdata %d -", kind, start), fmt.Sprintf("%s.rev %d", kind, idx))
		default:
			// all but 1..3 members: complement of a sparse block
			var sb strings.Builder
			for k := r.Range(1, 3); k > 0; k-- {
				sb.WriteString(le16(r.PickInt(0, 1023, 63, 64, r.Intn(1024))))
			}
			lines = append(lines, fmt.Sprintf("%s.fromdata %d %s", kind, start, sb.String()), fmt.Sprintf("%s.rev %d", kind, idx))
		}
		for j := r.Range(1, 2); j > 0; j-- {
			n := r.PickInt(1021, 1022, 1023, 1024, 1025, 1026, 2000, 3000, r.Range(1000, 1030))
			if r.Chance(1, 4) {
				pos := r.PickInt(0, 1, 2)
				lines = append(lines, fmt.Sprintf("%s.iter %d %s %d %d %d", kind, idx, r.Pick("f", "r"), pos+1024+r.Intn(2), pos, n))
			} else {
				lines = append(lines, fmt.Sprintf("%s.getn %d %s %d", kind, idx, r.Pick("f", "r"), n))
			}
		}
	}
	for j := 1; j > 0; j-- {
		lines = append(lines, fmt.Sprintf("%ss.getn %s %d", kind, r.Pick("f", "r"), r.PickInt(1023, 1024, 1025, 2047, 2048, 2049, 3072, 3073, r.Range(1000, 3100))))
	}
	return corr.Case{Tag: "full-blocks", Lines: lines}
}

// genManyBlocks: lists of 10…60 small blocks (1…4 members each), list forms with n around the total and far beyond.
func genManyBlocks(r *rng.R) corr.Case {
	lines := append([]string{"new"}, pickMagicLine(r)...)
	kind := r.Pick("big", "tip")
	nb := r.Range(10, 60)
	total := 0
	for idx := 0; idx < nb; idx++ {
		if kind == "big" {
			v := pickI64(r)
			if v < 0 || v > maxInRange {
				v = int64(r.U64() % uint64(maxInRange+1))
			}
			lines = append(lines, fmt.Sprintf("big.fromi64 %d", v))
			total++
			for j := r.Intn(4); j > 0; j-- {
				lines = append(lines, fmt.Sprintf("big.set %d %d", idx, (v/1024)*1024+int64(r.Intn(1024))))
				total++
			}
		} else {
			u := pickU32(r)
			lines = append(lines, fmt.Sprintf("tip.fromu32 %d", u))
			total++
			for j := r.Intn(4); j > 0; j-- {
				lines = append(lines, fmt.Sprintf("tip.set %d %d", idx, (u/1024)*1024+int64(r.Intn(1024))))
				total++
			}
		}
	}
	for j := r.Range(2, 4); j > 0; j-- {
		n := r.PickInt(-1, 0, 1, nb-1, nb, nb+1, total-1, total, total+1, 3001, 65537, 100000, r.Intn(total+2))
		lines = append(lines, fmt.Sprintf("%ss.getn %s %d", kind, r.Pick("f", "r"), n))
	}
	lines = append(lines, fmt.Sprintf("%s.getn %d %s %d", kind, r.Intn(nb), r.Pick("f", "r"), r.PickInt(3001, 4097, 65537, 100000)))
	return corr.Case{Tag: "many-blocks", Lines: lines}
}

// genBlockWalk: one block filled in random order up to a random height through set / sparse unmarshal.
func genBlockWalk(r *rng.R) corr.Case {
	perm := make([]int, 1024)
	for i := range perm {
		perm[i] = i
	}
	for i := len(perm) - 1; i > 0; i-- {
		j := r.Intn(i + 1)
		perm[i], perm[j] = perm[j], perm[i]
	}
	height := r.PickInt(1024, 1000, 1001, 900, 901, r.Range(2, 1024))
	kind := r.Pick("big", "tip", "unm")
	var lines []string
	switch kind {
	case "big":
		base := int64(r.PickI64(0, 7, 4194303, 8388608, int64(r.U64()%4294967295))) * 1024
		lines = []string{"new", fmt.Sprintf("big.fromi64 %d", base+int64(perm[0]))}
		for k := 1; k < height; k++ {
			lines = append(lines, fmt.Sprintf("big.set 0 %d", base+int64(perm[k])))
		}
		lines = append(lines, "big.show 0", fmt.Sprintf("big.getn 0 %s %d", r.Pick("f", "r"), r.PickInt(height, height+1, 1024, 2000)))
	case "tip":
		base := int64(r.PickI64(0, 7, 4194303, int64(r.U64()&0x3fffff))) * 1024
		lines = []string{"new", fmt.Sprintf("tip.fromu32 %d", base+int64(perm[0]))}
		for k := 1; k < height; k++ {
			lines = append(lines, fmt.Sprintf("tip.set 0 %d", base+int64(perm[k])))
		}
		lines = append(lines, "tip.show 0", fmt.Sprintf("tip.getn 0 %s %d", r.Pick("f", "r"), r.PickInt(height, height+1, 1024, 2000)))
	default:
		lines = []string{"new"}
		for k := 0; k < height; {
			// 1…8 elements per call, into the bitmap built so far
			var sb strings.Builder
			for c := r.Range(1, 8); c > 0 && k < height; c-- {
				sb.WriteString(le16(perm[k]))
				k++
			}
			lines = append(lines, "unmarshal a "+sb.String())
		}
		lines = append(lines, "dump a", "roundtrip a", "marshal a")
	}
	return corr.Case{Tag: "block-walk:" + kind, Lines: lines}
}

func genMalformed(r *rng.R) corr.Case {
	bad := []string{"", "nope", "marshal", "marshal c", "unmarshal a", "unmarshal a 0", "unmarshal a zz", "unmarshal c 00", "unmarshal a 0G", "roundtrip", "roundtrip c", "marshal-mutate", "marshal-mutate c",
		"big.fromi64", "big.fromi64 x", "big.fromi64 9223372036854775808", "big.set 0 1", "big.set x 1", "big.getn 0 f 1", "big.getn 9 f 1", "big.iter 0 f 3 0", "big.show 5", "big.rev 1",
		"tip.fromu32 -1", "tip.fromu32 4294967296", "tip.set 0 5", "tip.getn 0 x 1", "tip.getn 3 f 1", "tip.iter 0 f 1 0 1", "tips.getn q 1", "bigs.getn f", "bigs.getn f x",
		"big.fromdata -1 00", "tip.fromdata 4294967296 -", "big.fromdata 1", "tip.fromdata 1 0", "BIG.FROMI64 1", "magic", "load a 0", "dump c"}
	lines := []string{"new"}
	for k := r.Range(3, 8); k > 0; k-- {
		if r.Chance(1, 3) {
			lines = append(lines, r.Pick("big.fromi64 5", "tip.fromu32 5", "marshal a", "dump a", "unmarshal a 0100"))
		} else {
			lines = append(lines, bad[r.Intn(len(bad))])
		}
	}
	return corr.Case{Tag: "malformed", Lines: lines}
}

func fixedCases() []corr.Case {
	var cs []corr.Case
	// witnesses of the two defects confirmed on the unchanged tree (DESIGN section 6, F07 and F08)
	cs = append(cs, corr.Case{Tag: "fixed:F07-witness", Lines: []string{"new", "big.fromi64 8589934597", "big.getn 0 f 1", "big.getn 0 r 1", "big.iter 0 f 1 0 1", "bigs.getn f 1"}})
	cs = append(cs, corr.Case{Tag: "fixed:F08-witness", Lines: []string{"new", "tip.fromu32 7", "tip.set 0 9", "tip.getn 0 f 2", "tip.getn 0 r 2", "tip.iter 0 f 2 0 2", "tip.iter 0 r 2 0 2", "tips.getn f 2", "tips.getn r 2"}})
	// member-count boundaries of the two encodings, each under dense-only and sparse-only traversal
	for _, magic := range []string{"", "magic -1", "magic 64"} {
		for _, k := range []int{0, 1, 2, 62, 63, 64, 65, 1023, 1024} {
			lines := []string{"new"}
			if magic != "" {
				lines = append(lines, magic)
			}
			var m [16]uint64
			for i := 0; i < k; i++ {
				j := (i * 17) % 1024 // 17 is coprime with 1024: k distinct members spread over all words
				if k >= 1023 {
					j = i
				}
				m[j/64] |= 1 << uint(j%64)
			}
			lines = append(lines, "load a "+showMapU(m), "marshal a", "roundtrip a", "marshal-mutate a", "dump a", "marshal a")
			cs = append(cs, corr.Case{Tag: "fixed:marshal-boundaries", Lines: lines})
		}
	}
	// byte strings of every length 0..130 (all zero, and all 0x01 0x00 pairs)
	{
		lines := []string{"new"}
		for n := 0; n <= 130; n++ {
			hx := strings.Repeat("00", n)
			if n == 0 {
				hx = "-"
			}
			lines = append(lines, "load a 0,0,0,0,0,0,0,0,0,0,0,0,0,0,0,0", "unmarshal a "+hx, "dump a")
		}
		cs = append(cs, corr.Case{Tag: "fixed:unmarshal-all-lengths", Lines: lines})
	}
	cs = append(cs, corr.Case{Tag: "fixed:unmarshal-elements", Lines: []string{"new", "unmarshal a ff03", "dump a", "unmarshal a 0004", "dump a", "unmarshal a ffff", "unmarshal a 0080",
		"unmarshal a 00000100ff030004", "dump a", "unmarshal b 0000", "dump b"}})
	// int64 boundaries of BigU32
	{
		lines := []string{"new"}
		idx := 0
		for _, v := range i64Edges {
			lines = append(lines, fmt.Sprintf("big.fromi64 %d", v))
			if v >= 0 && v <= maxInRange {
				lines = append(lines, fmt.Sprintf("big.getn %d f 2", idx), fmt.Sprintf("big.getn %d r 2", idx), fmt.Sprintf("big.set %d %d", idx, v/1024*1024), fmt.Sprintf("big.set %d %d", idx, v/1024*1024+1023),
					fmt.Sprintf("big.set %d %d", idx, v/1024*1024+1024), fmt.Sprintf("big.set %d %d", idx, v/1024*1024-1), fmt.Sprintf("big.getn %d f 5", idx), fmt.Sprintf("big.getn %d r 5", idx))
				idx++
			}
		}
		lines = append(lines, "bigs.getn f 1000", "bigs.getn r 1000", "bigs.getn f 0", "bigs.getn f -1")
		cs = append(cs, corr.Case{Tag: "fixed:bigu32-boundaries", Lines: lines})
	}
	// uint32 boundaries of U32BitTip
	{
		lines := []string{"new"}
		for idx, u := range u32Edges {
			lines = append(lines, fmt.Sprintf("tip.fromu32 %d", u), fmt.Sprintf("tip.getn %d f 2", idx), fmt.Sprintf("tip.getn %d r 2", idx),
				fmt.Sprintf("tip.set %d %d", idx, u/1024*1024), fmt.Sprintf("tip.set %d %d", idx, u/1024*1024+1023), fmt.Sprintf("tip.getn %d f 5", idx), fmt.Sprintf("tip.getn %d r 5", idx))
		}
		lines = append(lines, "tips.getn f 1000", "tips.getn r 1000", "tips.getn r -1")
		cs = append(cs, corr.Case{Tag: "fixed:u32tip-boundaries", Lines: lines})
	}
	// FULL blocks (all 1024 members), 1023 members, and n around 1024: built from 128 x ff, and as the complement of an
	// empty block / of a single-member block; single-block and list forms, both directions
	{
		ff := strings.Repeat("ff", 128)
		for _, kind := range []string{"big", "tip"} {
			start := "8388608" // 2^23: beyond the uint32 product's range for BigU32
			if kind == "tip" {
				start = "4194303" // MaxU32TipStart
			}
			lines := []string{"new",
				kind + ".fromdata " + start + " " + ff,  // block 0: full
				kind + ".fromdata 5 -", kind + ".rev 1", // block 1: complement of the empty block = full
			}
			if kind == "big" {
				lines = append(lines, "big.fromi64 3000", "big.rev 2") // block 2: 1023 members (all but 3000 % 1024)
			} else {
				lines = append(lines, "tip.fromu32 3000", "tip.rev 2")
			}
			lines = append(lines, kind+".show 0", kind+".show 1", kind+".show 2")
			for blk := 0; blk < 3; blk++ {
				for _, d := range []string{"f", "r"} {
					for _, n := range []int{1, 1023, 1024, 1025} {
						lines = append(lines, fmt.Sprintf("%s.getn %d %s %d", kind, blk, d, n))
					}
					lines = append(lines, fmt.Sprintf("%s.iter %d %s 1030 2 1025", kind, blk, d))
				}
			}
			for _, d := range []string{"f", "r"} {
				for _, n := range []int{1024, 2047, 2048, 3071, 4000} {
					lines = append(lines, fmt.Sprintf("%ss.getn %s %d", kind, d, n))
				}
			}
			cs = append(cs, corr.Case{Tag: "fixed:full-blocks", Lines: lines})
		}
	}
	// many full blocks and counts far beyond the usual ones (monitor-only op), single blocks with large n
	cs = append(cs, corr.Case{Tag: "fixed:stress", Lines: []string{"new", "stress tip 70 100000", "stress big 70 100000", "stress tip 3 65537", "stress big 64 65536",
		"stress tip 100 200000", "stress big 2 -1", "stress unm 129", "stress unm 256", "stress unm 257", "stress unm 65538", "stress unm 65664", "stress unm 131074",
		"stress many 300", "stress many 65546", "big.fromi64 5", "big.getn 0 f 100000", "big.getn 0 r 65537", "tip.fromu32 5", "tip.getn 0 f 100000", "tip.getn 0 r 4097",
		"bigs.getn f 100000", "tips.getn r 70000"}})
	// a block grows one member at a time until it is full (Len through every value 1…1024), through SetI64 / SetU32 / sparse
	// Unmarshal into the non-empty bitmap; membership is checked after every step. Orders: word 0 last, word 0 first, scattered
	for _, order := range []string{"desc", "asc", "perm"} {
		offs := make([]int, 1024)
		for i := range offs {
			switch order {
			case "desc":
				offs[i] = 1023 - i
			case "asc":
				offs[i] = i
			default:
				offs[i] = (i*397 + 11) % 1024
			}
		}
		big := []string{"new", fmt.Sprintf("big.fromi64 %d", 7*1024+offs[0])}
		tip := []string{"new", fmt.Sprintf("tip.fromu32 %d", 4194303*1024+offs[0])}
		unm := []string{"new"}
		for k, o := range offs {
			if k > 0 {
				big = append(big, fmt.Sprintf("big.set 0 %d", 7*1024+o))
				tip = append(tip, fmt.Sprintf("tip.set 0 %d", 4194303*1024+o))
			}
			unm = append(unm, "unmarshal a "+le16(o))
			if (k+1)%64 == 0 || k == 898 || k == 899 || k == 999 || k == 1000 {
				big = append(big, "big.show 0")
				tip = append(tip, "tip.show 0")
				unm = append(unm, "dump a")
			}
		}
		big = append(big, "big.show 0", "big.getn 0 f 1025", "big.getn 0 r 1024")
		tip = append(tip, "tip.show 0", "tip.getn 0 f 1025", "tip.getn 0 r 1024")
		unm = append(unm, "dump a", "roundtrip a")
		cs = append(cs, corr.Case{Tag: "fixed:block-walk-" + order, Lines: big}, corr.Case{Tag: "fixed:block-walk-" + order, Lines: tip},
			corr.Case{Tag: "fixed:unmarshal-walk-" + order, Lines: unm})
	}
	cs = append(cs, corr.Case{Tag: "fixed:empty-lists", Lines: []string{"new", "bigs.getn f -1", "bigs.getn r 5", "tips.getn f -1", "tips.getn r 0", "bigs.rev", "tips.rev"}})
	return cs
}

// lastUnknownCfg: the oracle answered `unknown-cfg` on the line compared last — it refuses to predict an operation whose
// behaviour depends on a fact the extractor could not classify. That is a broken tie (T), never a P-disagreement.
var lastUnknownCfg bool

func accept(oracle, impl string) bool {
	lastUnknownCfg = oracle == "unknown-cfg"
	if lastUnknownCfg {
		return false
	}
	return corr.DefaultAccept(oracle, impl)
}

func tOnly(line string) bool { return lastUnknownCfg || strings.HasPrefix(line, "magic ") }

// probeAt: index of the last generated case of each tier (see Count), which is the API probe
var probeAt = map[string]int{"quick": 4999, "thorough": 99999, "search": 14999}

func spec() corr.Spec {
	return corr.Spec{
		Property: "C09",
		Fixed:    fixedCases,
		Count: func(tier string) int {
			switch tier {
			case "quick":
				return 5000
			case "thorough":
				return 100000
			}
			return 15000 // search: after a broken tie; a run through S7 stays well under 2 minutes
		},
		Gen: func(r *rng.R, tier string, i int) corr.Case {
			if i == probeAt[tier] {
				// last case of the run: if a method damages shared state, nothing after it is affected
				return corr.Case{Tag: "api-probe", Lines: []string{"new", "probe-api"}}
			}
			// full blocks are expensive on the oracle side (1024 list writes per call): a small share; the fixed
			// `full-blocks` scripts cover every n class on every run
			if r.Chance(1, 60) {
				return genFullBlocks(r)
			}
			if r.Chance(1, 60) {
				return genBlockWalk(r)
			}
			if r.Chance(1, 40) {
				return genManyBlocks(r)
			}
			switch x := r.Intn(20); {
			case x < 5:
				return genMarshal(r)
			case x < 10:
				return genUnmarshal(r)
			case x < 14:
				return genBig(r)
			case x < 17:
				return genTip(r)
			case x < 19:
				return genFromData(r)
			default:
				return genMalformed(r)
			}
		},
		Run:    runCase,
		TOnly:  tOnly,
		Accept: accept,
		NonTrivial: func(c corr.Case, res corr.Result) bool {
			for i, l := range c.Lines {
				switch {
				case strings.HasPrefix(l, "marshal") && res.Outs[i] != "-":
					return true
				case strings.HasPrefix(l, "unmarshal") && !strings.HasSuffix(l, " -"):
					return true
				case (strings.HasPrefix(l, "big.") || strings.HasPrefix(l, "tip.")) && (res.Outs[i] == "ok" || strings.HasPrefix(res.Outs[i], "[")):
					return true
				}
			}
			return false
		},
		Classify: func(c corr.Case, line int, want, got string) string {
			f := strings.Fields(c.Lines[line])
			if want == "unknown-cfg" {
				return "C09:corr:unknown-cfg"
			}
			if len(f) == 0 {
				return "C09:corr:empty-line"
			}
			return "C09:corr:" + f[0]
		},
		Rule: "scripts over two bitmap registers and two block lists: Marshal/round trip of bitmaps with 0,1,2,62..66,127,128,1023,1024 and random member counts under dense-only / sparse-only / default traversal; Unmarshal of byte strings of every length 0..130 and structured classes (valid sparse, one bad element incl. 1024 and negative, odd length, too long, dense, 126 bytes, random) into empty and non-empty bitmaps; BigU32 from int64 at 0, 2^32, 2^33+5, (2^32-1)*1024 +-1, negatives, random in and out of range, then SetI64 of same-block / neighbouring / far integers; U32BitTip over all-range uint32; single-block and list iteration in both directions with n in {-1,0,1,..,1025}; FromData constructors; FULL blocks (128 x ff, complement of an empty / sparse block) with n in {1021..1026, 2000, 3000} and list forms at multiples of 1024 +-1; a block / bitmap grown one member at a time to every size 1…1024 through SetI64 / SetU32 / sparse Unmarshal into the non-empty target (three fixed orders + random); lists of 10…60 blocks; counts up to 100000; monitor-only `stress` (70–100 full blocks, n up to 200000); malformed lines. Non-trivial: a non-empty marshal, an unmarshal of at least one byte, or a block operation that succeeded; distinct = distinct script text",
		Assumptions: []string{
			"as C08: slices shorter than 2^63, bitmaps of 16 words",
			"U32BitTip values are built through the package's constructors (Start <= MaxU32TipStart); BigU32 Start is any uint32 (NewBigU32FromData)",
			"list forms as coded: BigU32s visits blocks in index order in both directions, U32BitTips.RGetNAsU32 visits them in reverse order (recorded as an observation, the property speaks of single blocks)",
		},
		Trusted: []string{
			"encoding/binary little-endian Put/Uint16/Uint64 modelled in Lean (le16/le64/rd16/rd64), validated by the correspondence only",
			"math/bits and the C08 bitmap model (see C08)",
			"synthetic kernels: go/lib/c08x cuts the offset / division / remainder expressions out of the constructors and iterators and hands them to go2lean",
		},
	}
}
