// Command c13: extractor and correspondence runner for property C13 (queues: no lost wake-ups; close releases
// every blocked consumer; PriQueue wait channel readable beside a non-empty queue).
package main

import (
	"context"
	"fmt"
	"os"
	"path/filepath"
	"reflect"
	"runtime"
	"sort"
	"strconv"
	"strings"
	"sync"
	"time"
	"unsafe"

	"github.com/pinealctx/neptune/queue/priq"
	"github.com/pinealctx/neptune/queue/syncq"
	"github.com/pinealctx/neptune/syncx/pipe/async"
	"github.com/pinealctx/neptune/syncx/pipe/mq"
	"github.com/pinealctx/neptune/syncx/pipe/mux"
	pq "github.com/pinealctx/neptune/syncx/pipe/q"

	"nvharness/lib/c12facts"
	"nvharness/lib/c12sched"
	"nvharness/lib/corr"
	"nvharness/lib/gofacts"
	_ "nvharness/lib/quiet"
	"nvharness/lib/rng"
	"nvharness/lib/sched"
)

func main() {
	if len(os.Args) < 2 {
		fmt.Fprintln(os.Stderr, "usage: c13 extract|corr …")
		os.Exit(2)
	}
	switch os.Args[1] {
	case "extract":
		extract(os.Args[2], os.Args[3])
	case "corr":
		corr.Main(spec(), os.Args[2:])
	case "stress":
		stress(os.Args[2:])
	default:
		os.Exit(2)
	}
}

// stress runs one script file n times in this process and reports every distinct output vector; with an oracle path it
// also checks every run against the oracle's answer (sets accepted) and counts disagreements and monitor hits — the
// diagnostic used to show that scheduling can never produce a disagreement or a hit on the unchanged tree.
func stress(args []string) {
	file := args[0]
	n, _ := strconv.Atoi(args[1])
	raw, err := os.ReadFile(file)
	if err != nil {
		fmt.Fprintln(os.Stderr, err)
		os.Exit(2)
	}
	var lines []string
	for _, l := range strings.Split(string(raw), "\n") {
		if strings.TrimSpace(l) != "" {
			lines = append(lines, l)
		}
	}
	var want []string
	if len(args) > 2 {
		want, err = corr.RunOracle(args[2], lines)
		if err != nil {
			fmt.Fprintln(os.Stderr, err)
			os.Exit(2)
		}
	}
	seen := map[string]int{}
	dis, hits := 0, 0
	for i := 0; i < n; i++ {
		res := runCase(corr.Case{Lines: lines})
		seen[strings.Join(res.Outs, " | ")]++
		hits += len(res.Hits)
		for j := range want {
			if !corr.DefaultAccept(want[j], res.Outs[j]) {
				dis++
				break
			}
		}
	}
	for k, v := range seen {
		fmt.Printf("%6d  %s\n", v, k)
	}
	fmt.Printf("runs=%d distinct=%d disagreements=%d monitor_hits=%d\n", n, len(seen), dis, hits)
	if dis+hits > 0 || (want == nil && len(seen) != 1) {
		os.Exit(1)
	}
}

// ---------------------------------------------------------------- extract

func extract(repo, leanDir string) {
	text, summary := c12facts.GenC13(repo)
	if err := gofacts.WriteIfChanged(filepath.Join(leanDir, "Nv/Gen/C13.lean"), text); err != nil {
		fmt.Fprintln(os.Stderr, err)
		os.Exit(2)
	}
	// the oracle of C13 also runs the C12 shapes: regenerate them here too (same text as `c12 extract` writes)
	text12, _ := c12facts.GenC12(repo)
	if err := gofacts.WriteIfChanged(filepath.Join(leanDir, "Nv/Gen/C12.lean"), text12); err != nil {
		fmt.Fprintln(os.Stderr, err)
		os.Exit(2)
	}
	fmt.Println(summary)
}

// ---------------------------------------------------------------- the real queues

type listQ interface {
	add(x int) string
	prior(x int) (string, bool)
	addc(x int) (string, bool)
	priorc(x int) (string, bool)
	pop() string
	popany() (string, bool)
	close()
}

func errName(err error, closed, full, ctrlFull error) string {
	switch {
	case err == nil:
		return "ok"
	case err == closed:
		return "closed"
	case err == full:
		return "full"
	case ctrlFull != nil && err == ctrlFull:
		return "ctrl-full"
	}
	return "err:" + err.Error()
}

func valName(v interface{}, err error, closed error) string {
	if err != nil {
		if err == closed {
			return "closed"
		}
		return "err:" + err.Error()
	}
	if i, ok := v.(int); ok {
		return "v:" + strconv.Itoa(i)
	}
	return fmt.Sprintf("v?%v", v)
}

type qQ struct{ q *pq.Q }

func (a qQ) add(x int) string { return errName(a.q.AddReq(x), pq.ErrClosed, pq.ErrReqQFull, nil) }
func (a qQ) prior(x int) (string, bool) {
	return errName(a.q.AddPriorReq(x), pq.ErrClosed, pq.ErrReqQFull, nil), true
}
func (a qQ) addc(int) (string, bool)   { return "", false }
func (a qQ) priorc(int) (string, bool) { return "", false }
func (a qQ) pop() string               { v, e := a.q.Pop(); return valName(v, e, pq.ErrClosed) }
func (a qQ) popany() (string, bool) {
	v, e := a.q.PopAnyway()
	return valName(v, e, pq.ErrClosed), true
}
func (a qQ) close() { a.q.Close() }

type asyncQ struct{ q *async.Q }

func (a asyncQ) add(x int) string { return errName(a.q.Add(x), async.ErrClosed, async.ErrFull, nil) }
func (a asyncQ) prior(x int) (string, bool) {
	return errName(a.q.AddPrior(x), async.ErrClosed, async.ErrFull, nil), true
}
func (a asyncQ) addc(int) (string, bool)   { return "", false }
func (a asyncQ) priorc(int) (string, bool) { return "", false }
func (a asyncQ) pop() string               { v, e := a.q.Pop(); return valName(v, e, async.ErrClosed) }
func (a asyncQ) popany() (string, bool) {
	v, e := a.q.PopAnyway()
	return valName(v, e, async.ErrClosed), true
}
func (a asyncQ) close() { a.q.Close() }

type muxQ struct{ q *mux.Q }

func (a muxQ) add(x int) string { return errName(a.q.AddReq(x), mux.ErrClosed, mux.ErrQFull, nil) }
func (a muxQ) prior(x int) (string, bool) {
	return errName(a.q.AddPriorReq(x), mux.ErrClosed, mux.ErrQFull, nil), true
}
func (a muxQ) addc(int) (string, bool)   { return "", false }
func (a muxQ) priorc(int) (string, bool) { return "", false }
func (a muxQ) pop() string               { v, e := a.q.Pop(); return valName(v, e, mux.ErrClosed) }
func (a muxQ) popany() (string, bool) {
	v, e := a.q.PopAnyway()
	return valName(v, e, mux.ErrClosed), true
}
func (a muxQ) close() { a.q.Close() }

type mqQ struct{ q *mq.MQ }

func (a mqQ) add(x int) string {
	return errName(a.q.AddReq(x), mq.ErrClosed, mq.ErrReqQFull, mq.ErrCtrlQFull)
}
func (a mqQ) prior(x int) (string, bool) {
	return errName(a.q.AddPriorReq(x), mq.ErrClosed, mq.ErrReqQFull, mq.ErrCtrlQFull), true
}
func (a mqQ) addc(x int) (string, bool) {
	return errName(a.q.AddCtrl(x), mq.ErrClosed, mq.ErrReqQFull, mq.ErrCtrlQFull), true
}
func (a mqQ) priorc(x int) (string, bool) {
	return errName(a.q.AddPriorCtrl(x), mq.ErrClosed, mq.ErrReqQFull, mq.ErrCtrlQFull), true
}
func (a mqQ) pop() string { v, e := a.q.Pop(); return valName(v, e, mq.ErrClosed) }
func (a mqQ) popany() (string, bool) {
	v, e := a.q.PopAnyway()
	return valName(v, e, mq.ErrClosed), true
}
func (a mqQ) close() { a.q.Close() }

type syncQ struct{ q *syncq.SyncQueue }

func (a syncQ) add(x int) string          { a.q.Push(x); return "ok" }
func (a syncQ) prior(int) (string, bool)  { return "", false }
func (a syncQ) addc(int) (string, bool)   { return "", false }
func (a syncQ) priorc(int) (string, bool) { return "", false }
func (a syncQ) pop() string {
	v := a.q.Pop()
	if v == nil {
		return "nil"
	}
	return valName(v, nil, nil)
}
func (a syncQ) popany() (string, bool) { return "", false }
func (a syncQ) close()                 { a.q.Close() }

// wakeAllForCleanup releases consumers a defective Close left behind, AFTER all observations of the script were made
// (only so that goroutines do not accumulate over thousands of scripts). It reaches the queue's unexported condition
// variable (`popable *sync.Cond` in SyncQueue, `cond sync.Cond` in the pipe queues) through reflect/unsafe.
func wakeAllForCleanup(adapter interface{}) {
	q := reflect.ValueOf(adapter).Field(0) // the adapters are one-field structs holding the queue pointer
	if q.Kind() != reflect.Ptr || q.IsNil() {
		return
	}
	v := q.Elem()
	if f := v.FieldByName("popable"); f.IsValid() && f.Kind() == reflect.Ptr && !f.IsNil() {
		if c := *(**sync.Cond)(unsafe.Pointer(f.UnsafeAddr())); c != nil {
			c.Broadcast()
		}
	}
	if f := v.FieldByName("cond"); f.IsValid() && f.Kind() == reflect.Struct && f.Type() == reflect.TypeOf(sync.Cond{}) {
		(*sync.Cond)(unsafe.Pointer(f.UnsafeAddr())).Broadcast()
	}
}

type entry struct{ item, prio int }

func (e entry) GetPriority() int { return e.prio }

// ---------------------------------------------------------------- running a script, with the monitors

type runner struct {
	kind    string
	lq      listQ
	pq      *priq.PriQueue
	s       *sched.S
	tasks   []*sched.Task
	seenRet map[*sched.Task]bool
	waiter  map[*sched.Task]string // tasks blocked in WaitClose / WaitClear ("close" / "clear")
	cleared bool
	ctx     context.Context
	cancel  context.CancelFunc
	quit    chan struct{}
	hits    []corr.Hit
	seen    map[string]bool
	dead    string
	// what the monitors need, all taken from results of the real calls
	closed   bool
	accepted map[int]int // how often each item value was accepted by an add (scripts may repeat a value)
	handed   map[int]int // how often it was handed out
	holders  int         // priq: successful `recv`s not yet followed by a `pop`
}

func (r *runner) hit(site, what, detail string) {
	key := "C13:" + r.kind + "." + site + ":" + what
	if r.seen[key] {
		return
	}
	r.seen[key] = true
	r.hits = append(r.hits, corr.Hit{Key: key, What: detail})
}

func atoiStrict(s string, neg bool) (int, bool) {
	// digits only (optional leading '-' when neg); the whole int64 range is accepted (extreme priorities), nothing beyond
	if s == "" || len(s) > 20 {
		return 0, false
	}
	t := s
	if neg && t[0] == '-' {
		t = t[1:]
	}
	if t == "" {
		return 0, false
	}
	for _, c := range t {
		if c < '0' || c > '9' {
			return 0, false
		}
	}
	n, err := strconv.ParseInt(s, 10, 64)
	return int(n), err == nil
}

func (r *runner) create(f []string) string {
	r.lq, r.pq, r.kind = nil, nil, "none"
	switch {
	case len(f) == 4 && f[1] == "mq":
		a, ok1 := atoiStrict(f[2], true)
		c, ok2 := atoiStrict(f[3], true)
		if !ok1 || !ok2 {
			return "bad-op"
		}
		r.kind, r.lq = "mq", mqQ{mq.NewMQ(mq.WithQCtrlSize(a), mq.WithQReqSize(c))}
	case len(f) == 2 && f[1] == "syncq":
		r.kind, r.lq = "syncq", syncQ{syncq.NewSyncQueue()}
	case len(f) == 3 && (f[1] == "q" || f[1] == "async" || f[1] == "mux" || f[1] == "priq"):
		a, ok := atoiStrict(f[2], true)
		if !ok {
			return "bad-op"
		}
		r.kind = f[1]
		switch f[1] {
		case "q":
			r.lq = qQ{pq.NewQ(pq.WithSize(a))}
		case "async":
			r.lq = asyncQ{async.NewQ(a)}
		case "mux":
			r.lq = muxQ{mux.NewQ(a)}
		case "priq":
			r.pq = priq.NewPriQueue(a)
		}
	default:
		return "bad-op"
	}
	return "ok"
}

// quiesce waits until every consumer goroutine has returned or is parked, and reports the results of the consumers
// that returned since the last call (except `skip`) and the number still parked.
func (r *runner) quiesce(skip *sched.Task) (rets []string, parked int, ok bool) {
	live := false
	for _, t := range r.tasks {
		if !r.seenRet[t] {
			live = true
		}
	}
	if live {
		if err := c12sched.Settle(10 * time.Second); err != nil {
			r.dead = "harness:" + strings.SplitN(err.Error(), "\n", 2)[0]
			return nil, 0, false
		}
	}
	for _, t := range r.tasks {
		if r.seenRet[t] {
			continue
		}
		if d, res := t.Done(); d {
			r.seenRet[t] = true
			r.noteHanded(res)
			if t != skip {
				rets = append(rets, res)
			}
		} else {
			parked++
		}
	}
	sort.Strings(rets)
	return rets, parked, true
}

func (r *runner) noteHanded(res string) {
	if !strings.HasPrefix(res, "v:") {
		return
	}
	v, err := strconv.Atoi(res[2:])
	if err != nil {
		return
	}
	if r.handed[v] >= r.accepted[v] {
		r.hit("Pop", "item-duplicated-or-invented", fmt.Sprintf("a consumer returned item %d (accepted %d time(s), already handed out %d time(s))", v, r.accepted[v], r.handed[v]))
	}
	r.handed[v]++
}

func (r *runner) outstanding() int {
	n := 0
	for v, a := range r.accepted {
		if a > r.handed[v] {
			n += a - r.handed[v]
		}
	}
	return n
}

func suffix(rets []string, parked int) string {
	return " ret=[" + strings.Join(rets, ",") + "] parked=" + strconv.Itoa(parked)
}

// monitorQuiescent: the property on the observable state at a quiescent point of a list queue
func (r *runner) monitorQuiescent(op string, _ int) {
	consumers, wclose, wclear := 0, 0, 0
	for _, t := range r.tasks {
		if d, _ := t.Done(); d {
			continue
		}
		switch r.waiter[t] {
		case "close":
			wclose++
		case "clear":
			wclear++
		default:
			consumers++
		}
	}
	if r.closed && wclose > 0 {
		r.hit("Close", "WaitClose-not-released", fmt.Sprintf("after `%s`: the queue is closed and %d caller(s) are still blocked in WaitClose", op, wclose))
	}
	if r.cleared && wclear > 0 {
		r.hit("TryClear", "WaitClear-not-released", fmt.Sprintf("after `%s`: the queue is cleared and %d caller(s) are still blocked in WaitClear", op, wclear))
	}
	if consumers == 0 {
		return
	}
	if r.closed {
		r.hit("Close", "blocked-consumer-not-released", fmt.Sprintf("after `%s`: the queue is closed and %d consumer(s) are still parked in Pop", op, consumers))
	} else if n := r.outstanding(); n > 0 {
		r.hit("Pop", "consumer-parked-beside-item", fmt.Sprintf("after `%s`: %d consumer(s) parked in Pop while %d accepted item(s) have not been handed out", op, consumers, n))
	}
}

func (r *runner) line(l string) string {
	f := strings.Fields(l)
	if len(f) == 0 {
		return "bad-op"
	}
	if f[0] == "new" {
		return r.create(f)
	}
	if r.lq == nil && r.pq == nil {
		return "bad-op"
	}
	if r.dead != "" {
		return "aborted:" + r.dead
	}
	if r.pq != nil {
		return r.priLine(f, l)
	}
	isMQ, isSync := r.kind == "mq", r.kind == "syncq"
	finish := func(res string) string {
		rets, parked, ok := r.quiesce(nil)
		if !ok {
			return "harness-error"
		}
		r.monitorQuiescent(l, parked)
		return res + suffix(rets, parked)
	}
	// producer-side events usable inside an `atomic` burst: validated first, executed by the returned closure
	burstEv := func(ev []string) func() string {
		if len(ev) == 0 {
			return nil
		}
		switch ev[0] {
		case "add", "prior", "addc", "priorc":
			if len(ev) != 2 {
				return nil
			}
			x, ok := atoiStrict(ev[1], false)
			if !ok || (ev[0] == "prior" && isSync) || ((ev[0] == "addc" || ev[0] == "priorc") && !isMQ) {
				return nil
			}
			op := ev[0]
			return func() string {
				var res string
				switch op {
				case "add":
					res = r.lq.add(x)
				case "prior":
					res, _ = r.lq.prior(x)
				case "addc":
					res, _ = r.lq.addc(x)
				default:
					res, _ = r.lq.priorc(x)
				}
				if res == "ok" && !(isSync && r.closed) {
					r.accepted[x]++
				}
				return res
			}
		case "close":
			if len(ev) != 1 {
				return nil
			}
			return func() string { r.lq.close(); r.closed = true; return "ok" }
		case "tryclose":
			if len(ev) != 1 || !isMQ {
				return nil
			}
			return func() string {
				got := r.lq.(mqQ).q.TryClose()
				if got {
					r.closed = true
				}
				return strconv.FormatBool(got)
			}
		}
		return nil
	}
	switch f[0] {
	case "atomic":
		// The events run back to back on a single P so that consumers woken by one of them USUALLY cannot resume before
		// the last one returned — this makes the window between a wake-up and the woken consumer's re-acquisition of the
		// lock likely to be hit on the real code. Nothing depends on it being hit: the oracle answers a burst with the set
		// of outcomes of all placements of the resumes, and window defects are reported by the quiescence monitors.
		var segs [][]string
		cur := []string{}
		for _, w := range f[1:] {
			if w == ";" {
				segs = append(segs, cur)
				cur = []string{}
			} else {
				cur = append(cur, w)
			}
		}
		segs = append(segs, cur)
		var fns []func() string
		for _, ev := range segs {
			fn := burstEv(ev)
			if fn == nil {
				return "bad-op"
			}
			fns = append(fns, fn)
		}
		var outs []string
		prev := runtime.GOMAXPROCS(1)
		// one trip through the scheduler on the P we ended up on: sysmon's record of that P may be stale (it was idle
		// while we ran elsewhere) and would otherwise let it preempt us at once, resuming a woken consumer mid-burst
		runtime.Gosched()
		for _, fn := range fns {
			outs = append(outs, fn())
		}
		runtime.GOMAXPROCS(prev)
		return finish(strings.Join(outs, ";"))
	case "pop", "popany":
		if len(f) != 1 || (f[0] == "popany" && isSync) {
			return "bad-op"
		}
		var t *sched.Task
		if f[0] == "pop" {
			t = r.s.Go("pop", r.lq.pop)
		} else {
			t = r.s.Go("popany", func() string { s, _ := r.lq.popany(); return s })
		}
		r.tasks = append(r.tasks, t)
		rets, parked, ok := r.quiesce(t)
		if !ok {
			return "harness-error"
		}
		r.monitorQuiescent(l, parked)
		return t.State() + suffix(rets, parked)
	case "add", "prior", "addc", "priorc":
		if len(f) != 2 {
			return "bad-op"
		}
		x, ok := atoiStrict(f[1], false)
		if !ok {
			return "bad-op"
		}
		var res string
		has := true
		switch f[0] {
		case "add":
			res = r.lq.add(x)
		case "prior":
			res, has = r.lq.prior(x)
		case "addc":
			res, has = r.lq.addc(x)
		case "priorc":
			res, has = r.lq.priorc(x)
		}
		if !has {
			return "bad-op"
		}
		if res == "ok" && !(isSync && r.closed) {
			r.accepted[x]++
		}
		return finish(res)
	case "close":
		if len(f) != 1 {
			return "bad-op"
		}
		r.lq.close()
		r.closed = true
		return finish("ok")
	case "tryclose", "tryclear":
		if len(f) != 1 || !isMQ {
			return "bad-op"
		}
		m := r.lq.(mqQ).q
		var got bool
		if f[0] == "tryclose" {
			got = m.TryClose()
			if got {
				r.closed = true
			}
		} else {
			got = m.TryClear()
			if got {
				r.cleared = true
			}
		}
		return finish(strconv.FormatBool(got))
	case "waitclose", "waitclear":
		if len(f) != 1 {
			return "bad-op"
		}
		var call func(context.Context) error
		switch q := r.lq.(type) {
		case muxQ:
			if f[0] == "waitclose" {
				call = q.q.WaitClose
			}
		case mqQ:
			call = q.q.WaitClose
			if f[0] == "waitclear" {
				call = q.q.WaitClear
			}
		}
		if call == nil {
			return "bad-op"
		}
		ctx := r.ctx
		t := r.s.Go(f[0], func() string {
			if err := call(ctx); err != nil {
				return "err:" + err.Error()
			}
			return "ok"
		})
		r.tasks = append(r.tasks, t)
		r.waiter[t] = strings.TrimPrefix(f[0], "wait")
		rets, parked, ok := r.quiesce(t)
		if !ok {
			return "harness-error"
		}
		r.monitorQuiescent(l, parked)
		return t.State() + suffix(rets, parked)
	case "trypop":
		if len(f) != 1 || !isSync {
			return "bad-op"
		}
		v, ok := r.lq.(syncQ).q.TryPop()
		res := "none"
		if ok && v == nil {
			res = "closed"
		} else if ok {
			res = valName(v, nil, nil)
			r.noteHanded(res)
		}
		return finish(res)
	}
	return "bad-op"
}

func (r *runner) priLine(f []string, l string) string {
	finish := func(res string, skip *sched.Task) string {
		rets, parked, ok := r.quiesce(skip)
		if !ok {
			return "harness-error"
		}
		// the property at a quiescent point: no Push/Pop in progress (calls are sequential), no unfollowed signal held
		n, w := r.pq.Len(), len(r.pq.WaitCh())
		if n > 0 && r.holders == 0 && w == 0 {
			r.hit("WaitCh", "not-readable-beside-items", fmt.Sprintf("after `%s`: %d entries queued, nobody holds a signal, yet len(WaitCh())=0", l, n))
		}
		if n > 0 && parked > 0 && r.holders == 0 {
			r.hit("WaitCh", "consumer-sleeps-beside-items", fmt.Sprintf("after `%s`: %d consumer(s) blocked on WaitCh() while %d entries are queued", l, parked, n))
		}
		if skip != nil {
			res = skip.State() // read only after quiescence
		}
		return res + suffix(rets, parked)
	}
	switch f[0] {
	case "push":
		if len(f) != 3 {
			return "bad-op"
		}
		x, ok1 := atoiStrict(f[1], false)
		p, ok2 := atoiStrict(f[2], true)
		if !ok1 || !ok2 {
			return "bad-op"
		}
		err := r.pq.Push(entry{x, p})
		res := "ok"
		if err == priq.ErrQueueIsFull {
			res = "full"
		} else if err != nil {
			res = "err:" + err.Error()
		} else {
			r.accepted[x]++
		}
		return finish(res, nil)
	case "pop":
		if len(f) != 1 {
			return "bad-op"
		}
		e := r.pq.Pop()
		if r.holders > 0 {
			r.holders--
		}
		res := "nil"
		if e != nil {
			res = "v:" + strconv.Itoa(e.(entry).item)
			r.noteHanded(res)
		}
		return finish(res, nil)
	case "recv":
		if len(f) != 1 {
			return "bad-op"
		}
		res := "empty"
		select {
		case <-r.pq.WaitCh():
			res = "got"
			r.holders++
		default:
		}
		return finish(res, nil)
	case "waitlen":
		if len(f) != 1 {
			return "bad-op"
		}
		return finish(strconv.Itoa(len(r.pq.WaitCh())), nil)
	case "len":
		if len(f) != 1 {
			return "bad-op"
		}
		return finish(strconv.Itoa(r.pq.Len()), nil)
	case "consume":
		if len(f) != 1 {
			return "bad-op"
		}
		q, quit := r.pq, r.quit
		t := r.s.Go("consume", func() string {
			select {
			case <-q.WaitCh():
				e := q.Pop()
				if e == nil {
					return "nil"
				}
				return "v:" + strconv.Itoa(e.(entry).item)
			case <-quit:
				return "quit"
			}
		})
		r.tasks = append(r.tasks, t)
		return finish("", t)
	}
	return "bad-op"
}

func runCase(c corr.Case) (res corr.Result) {
	r := &runner{s: sched.New(), seen: map[string]bool{}, seenRet: map[*sched.Task]bool{}, waiter: map[*sched.Task]string{}, accepted: map[int]int{}, handed: map[int]int{},
		quit: make(chan struct{})}
	r.ctx, r.cancel = context.WithCancel(context.Background())
	reset := func() {
		r.cleanup()
		r.tasks, r.seenRet, r.accepted, r.handed = nil, map[*sched.Task]bool{}, map[int]int{}, map[int]int{}
		r.waiter, r.cleared = map[*sched.Task]string{}, false
		r.ctx, r.cancel = context.WithCancel(context.Background())
		r.closed, r.holders, r.dead, r.quit = false, 0, "", make(chan struct{})
	}
	defer func() {
		if p := recover(); p != nil {
			for len(res.Outs) < len(c.Lines) {
				res.Outs = append(res.Outs, fmt.Sprintf("panic:%v", p))
			}
			res.Hits = append(r.hits, corr.Hit{Key: "C13:" + r.kind + ":panic", What: fmt.Sprint(p)})
		}
		r.cleanup()
	}()
	for _, l := range c.Lines {
		if strings.HasPrefix(l, "new") {
			reset()
		}
		out := r.line(l)
		if strings.HasPrefix(out, "aborted:harness") || out == "harness-error" {
			fmt.Fprintln(os.Stderr, "harness error:", r.dead, "in", c.Lines)
			os.Exit(2)
		}
		res.Outs = append(res.Outs, out)
	}
	res.Hits = r.hits
	return res
}

// cleanup releases whatever is still parked, after all observations: close the queue, and for a consumer a defective
// SyncQueue.Close left behind, broadcast on its condition variable.
func (r *runner) cleanup() {
	pending := false
	for _, t := range r.tasks {
		if d, _ := t.Done(); !d {
			pending = true
		}
	}
	if !pending {
		return
	}
	if r.cancel != nil {
		r.cancel() // WaitClose / WaitClear callers a defective Close left behind
	}
	if r.lq != nil {
		r.lq.close()
		_ = c12sched.Settle(10 * time.Second)
		for _, t := range r.tasks {
			if d, _ := t.Done(); !d { // somebody is still parked beside a closed queue (already reported by the monitor)
				wakeAllForCleanup(r.lq)
				break
			}
		}
	}
	if r.pq != nil {
		close(r.quit)
	}
	_ = c12sched.Settle(10 * time.Second)
}

// ---------------------------------------------------------------- generators

var kinds = []string{"q", "async", "mux", "mq", "syncq", "priq", "syncq", "priq"}

func newLine(r *rng.R, kind string) string {
	cp := func() int { return r.PickInt(0, 0, 0, 1, 2, 3, 5) }
	switch kind {
	case "mq":
		return fmt.Sprintf("new mq %d %d", cp(), cp())
	case "syncq":
		return "new syncq"
	case "priq":
		return fmt.Sprintf("new priq %d", r.PickInt(1, 2, 3, 4, 6, 0))
	}
	return fmt.Sprintf("new %s %d", kind, cp())
}

func genList(r *rng.R, kind string, n int) corr.Case {
	lines := []string{newLine(r, kind)}
	next := 1
	item := func() string { next++; return strconv.Itoa(next - 1) }
	consumers := 0
	closeAt := -1
	if r.Chance(2, 3) {
		closeAt = r.Range(n/2, n)
	}
	for i := 0; i < n; i++ {
		k := r.Intn(100)
		var l string
		switch {
		case i == closeAt:
			l = "close"
			if kind == "mq" && r.Chance(1, 3) {
				l = "tryclose"
			}
		case k < 6 && (kind == "mux" || kind == "mq") && consumers < 6:
			l = "waitclose"
			if kind == "mq" && r.Chance(1, 3) {
				l = "waitclear"
			}
			consumers++
		case k < 38 && consumers < 6:
			l = "pop"
			if kind != "syncq" && r.Chance(1, 3) {
				l = "popany"
			}
			consumers++
		case k < 70:
			l = "add " + item()
		case k < 78 && kind != "syncq":
			l = "prior " + item()
		case k < 88 && kind == "mq":
			l = r.Pick("addc ", "priorc ") + item()
		case k < 84 && kind == "syncq":
			l = "trypop"
		case k < 92 && kind == "mq":
			l = r.Pick("tryclose", "tryclear")
		default:
			l = "add " + item()
		}
		lines = append(lines, l)
	}
	return corr.Case{Tag: "sched-" + kind, Lines: lines}
}

// k consumers park, then k items / a close arrive
func genBurst(r *rng.R, kind string) corr.Case {
	lines := []string{newLine(r, kind)}
	k := r.Range(1, 4)
	for i := 0; i < k; i++ {
		if kind != "syncq" && r.Chance(1, 3) {
			lines = append(lines, "popany")
		} else {
			lines = append(lines, "pop")
		}
	}
	m := r.Range(0, k)
	for i := 1; i <= m; i++ {
		op := "add"
		if kind == "mq" && r.Chance(1, 3) {
			op = "addc"
		} else if kind != "syncq" && r.Chance(1, 4) {
			op = "prior"
		}
		lines = append(lines, fmt.Sprintf("%s %d", op, i))
	}
	lines = append(lines, "close")
	if r.Bool() {
		lines = append(lines, "pop", fmt.Sprintf("add %d", m+1))
	}
	return corr.Case{Tag: "burst-" + kind, Lines: lines}
}

// consumers park, then a burst of producer events runs before any woken consumer resumes, then more events
func genAtomic(r *rng.R, kind string) corr.Case {
	lines := []string{newLine(r, kind)}
	next := 1
	item := func() string { next++; return strconv.Itoa(next - 1) }
	ev := func(allowClose bool) string {
		k := r.Intn(10)
		switch {
		case k < 5:
			return "add " + item()
		case k < 6 && kind != "syncq":
			return "prior " + item()
		case k < 7 && kind == "mq":
			return r.Pick("addc ", "priorc ") + item()
		case k < 9 && allowClose:
			if kind == "mq" && r.Chance(1, 3) {
				return "tryclose"
			}
			return "close"
		}
		return "add " + item()
	}
	for round := 0; round < r.Range(1, 3); round++ {
		for i := 0; i < r.Range(1, 3); i++ {
			if kind != "syncq" && r.Chance(1, 3) {
				lines = append(lines, "popany")
			} else {
				lines = append(lines, "pop")
			}
		}
		var evs []string
		for i := 0; i < r.Range(2, 4); i++ {
			evs = append(evs, ev(i > 0))
		}
		lines = append(lines, "atomic "+strings.Join(evs, " ; "))
		if r.Chance(1, 3) {
			lines = append(lines, ev(true))
		}
	}
	return corr.Case{Tag: "atomic-" + kind, Lines: lines}
}

func genPri(r *rng.R, n int) corr.Case {
	lines := []string{newLine(r, "priq")}
	next := 1
	waiting := 0
	for i := 0; i < n; i++ {
		k := r.Intn(100)
		var l string
		switch {
		case k < 35:
			l = fmt.Sprintf("push %d %d", next, r.PickInt(0, 1, 1, 2, 5))
			next++
		case k < 55:
			l = "pop"
		case k < 70:
			l = "recv"
		case k < 82 && waiting < 4:
			l = "consume"
			waiting++
		case k < 92:
			l = "waitlen"
		default:
			l = "len"
		}
		lines = append(lines, l)
	}
	return corr.Case{Tag: "sched-priq", Lines: lines}
}

var junk = []string{"waitclose", "waitclear", "waitclose 1", "atomic", "atomic add 1 ;", "atomic pop", "atomic ; close", "atomic add 1 ; trypop", "atomic close ; close", "add", "add x", "pop 1", "popany x", "close now", "foo", "push 1", "push 1 x", "recv 1", "consume now", "waitlen 2",
	"trypop", "tryclose", "tryclear", "addc 1", "priorc 2", "push 3 1", "popany", "prior 4", "recv", "consume", "waitlen", "len"}

func genMalformed(r *rng.R) corr.Case {
	var lines []string
	if r.Chance(2, 3) {
		lines = append(lines, newLine(r, r.Pick(kinds...)))
	} else {
		lines = append(lines, r.Pick("new", "new q", "new q x", "new mq 1", "new priq", "new syncq 3", "new heap 3"))
	}
	for i := 0; i < r.Range(3, 10); i++ {
		if r.Chance(1, 3) {
			lines = append(lines, "add "+strconv.Itoa(i+1))
		} else {
			lines = append(lines, r.Pick(junk...))
		}
	}
	return corr.Case{Tag: "malformed", Lines: lines}
}

func fixedCases() []corr.Case {
	mk := func(tag string, ls ...string) corr.Case { return corr.Case{Tag: tag, Lines: ls} }
	return []corr.Case{
		// F12: two consumers parked in SyncQueue.Pop, Close — both must return
		mk("witness-F12", "new syncq", "pop", "pop", "close"),
		mk("fixed", "new syncq", "pop", "pop", "pop", "add 1", "add 2", "close", "pop", "add 3"),
		mk("fixed", "new q 0", "pop", "popany", "pop", "add 1", "prior 2", "close", "pop", "popany"),
		mk("fixed", "new async 1", "pop", "pop", "add 1", "add 2", "add 3", "close"),
		mk("fixed", "new mux 2", "popany", "popany", "close", "add 1"),
		mk("fixed", "new mq 1 1", "pop", "popany", "pop", "addc 1", "add 2", "tryclose", "priorc 3", "tryclose", "tryclear", "pop"),
		mk("fixed", "new mq 0 0", "pop", "pop", "tryclose", "tryclear"),
		// callers blocked in WaitClose / WaitClear are released by Close / TryClose / TryClear too
		mk("fixed", "new mux 0", "waitclose", "pop", "waitclose", "close", "waitclose"),
		mk("fixed", "new mq 0 0", "waitclose", "waitclear", "pop", "add 1", "tryclose", "pop", "tryclose", "waitclear", "tryclear", "waitclear", "waitclose"),
		mk("fixed", "new mq 1 1", "waitclear", "waitclose", "atomic add 1 ; close", "tryclear", "popany", "tryclear"),
		// the window between a wake-up and the woken consumer's re-acquisition of the lock: the next producer event
		// arrives while a consumer is woken but has not resumed
		mk("window", "new syncq", "pop", "pop", "atomic add 1 ; close"),
		mk("window", "new syncq", "pop", "pop", "pop", "atomic add 1 ; add 2 ; close"),
		mk("window", "new async 0", "pop", "pop", "atomic add 1 ; add 2"),
		mk("window", "new q 0", "pop", "popany", "pop", "atomic add 1 ; prior 2 ; add 3"),
		mk("window", "new mux 2", "pop", "pop", "atomic add 1 ; add 2 ; close", "pop"),
		mk("window", "new mq 0 0", "pop", "pop", "popany", "atomic addc 1 ; add 2 ; tryclose", "atomic close ; add 3"),
		mk("fixed", "new priq 3", "waitlen", "push 1 1", "waitlen", "push 2 2", "recv", "waitlen", "pop", "waitlen", "recv", "pop", "waitlen", "pop", "recv"),
		mk("fixed", "new priq 4", "consume", "consume", "push 1 1", "push 2 1", "push 3 1", "consume", "waitlen", "len", "pop", "consume"),
		mk("fixed", "new priq 2", "push 1 0", "push 2 0", "pop", "waitlen", "pop", "waitlen", "consume", "push 3 0"),
	}
}

// enumerate: every script over {pop, popany, add, prior/addc, close} with at most 3 consumers, 3 items, one close and
// 6 events, for each list queue; and every PriQueue script of at most 5 events over {push p0, push p1, pop, recv, consume}.
func enumerate() []corr.Case {
	var out []corr.Case
	for _, kind := range []string{"q", "async", "mux", "mq", "syncq"} {
		first := "new " + kind + " 0"
		if kind == "mq" {
			first = "new mq 0 0"
		} else if kind == "syncq" {
			first = "new syncq"
		}
		alpha := []string{"pop", "popany", "add", "prior", "close"}
		if kind == "mq" {
			alpha = []string{"pop", "popany", "add", "addc", "close", "waitclose"}
		} else if kind == "mux" {
			alpha = []string{"pop", "popany", "add", "prior", "close", "waitclose"}
		} else if kind == "syncq" {
			alpha = []string{"pop", "add", "close", "trypop"}
		}
		var rec func(lines []string, consumers, items, closes int)
		rec = func(lines []string, consumers, items, closes int) {
			if len(lines) > 1 {
				out = append(out, corr.Case{Tag: "enum-" + kind, Lines: append([]string{}, lines...)})
			}
			if len(lines) > 6 {
				return
			}
			for _, a := range alpha {
				switch a {
				case "pop", "popany", "waitclose":
					if consumers < 3 {
						rec(append(lines, a), consumers+1, items, closes)
					}
				case "add", "prior", "addc":
					if items < 3 {
						rec(append(lines, a+" "+strconv.Itoa(items+1)), consumers, items+1, closes)
					}
				case "close":
					if closes < 1 {
						rec(append(lines, a), consumers, items, closes+1)
					}
				case "trypop":
					if items > 0 && closes < 1 && len(lines) < 5 {
						rec(append(lines, a), consumers, items, closes)
					}
				}
			}
		}
		rec([]string{first}, 0, 0, 0)
	}
	// k consumers (1..3), then every burst of 2..3 producer events over {add, prior/addc, close}
	for _, kind := range []string{"q", "async", "mux", "mq", "syncq"} {
		first := "new " + kind + " 0"
		if kind == "mq" {
			first = "new mq 0 0"
		} else if kind == "syncq" {
			first = "new syncq"
		}
		alpha := []string{"add", "prior", "close"}
		if kind == "mq" {
			alpha = []string{"add", "addc", "close", "tryclose"}
		} else if kind == "syncq" {
			alpha = []string{"add", "close"}
		}
		for k := 1; k <= 3; k++ {
			var rec func(evs []string, items int)
			rec = func(evs []string, items int) {
				if len(evs) >= 2 {
					lines := []string{first}
					for i := 0; i < k; i++ {
						if i == 1 && kind != "syncq" {
							lines = append(lines, "popany")
						} else {
							lines = append(lines, "pop")
						}
					}
					lines = append(lines, "atomic "+strings.Join(evs, " ; "), "close")
					out = append(out, corr.Case{Tag: "enum-atomic-" + kind, Lines: lines})
				}
				if len(evs) >= 3 {
					return
				}
				for _, a := range alpha {
					if a == "close" || a == "tryclose" {
						rec(append(append([]string{}, evs...), a), items)
					} else {
						rec(append(append([]string{}, evs...), a+" "+strconv.Itoa(items+1)), items+1)
					}
				}
			}
			rec(nil, 0)
		}
	}
	var recP func(lines []string, items int)
	recP = func(lines []string, items int) {
		if len(lines) > 1 {
			out = append(out, corr.Case{Tag: "enum-priq", Lines: append([]string{}, lines...)})
		}
		if len(lines) > 5 {
			return
		}
		for _, a := range []string{"push0", "push1", "pop", "recv", "consume"} {
			switch a {
			case "push0", "push1":
				recP(append(lines, fmt.Sprintf("push %d %s", items+1, a[4:])), items+1)
			default:
				recP(append(lines, a), items)
			}
		}
	}
	recP([]string{"new priq 2"}, 0)
	return out
}

var enumCases []corr.Case

func spec() corr.Spec {
	return corr.Spec{
		Property: "C13",
		Fixed:    fixedCases,
		Count: func(tier string) int {
			switch tier {
			case "quick":
				return 1600
			case "thorough":
				if enumCases == nil {
					enumCases = enumerate()
				}
				return len(enumCases) + 24000
			}
			return 40000
		},
		Shards: func(tier string) int {
			if tier == "quick" {
				return 8
			}
			return 14
		},
		Gen: func(r *rng.R, tier string, i int) corr.Case {
			if tier == "thorough" {
				if enumCases == nil {
					enumCases = enumerate()
				}
				if i < len(enumCases) {
					return enumCases[i]
				}
			}
			kind := kinds[i%len(kinds)]
			k := r.Intn(20)
			if k == 0 {
				return genMalformed(r)
			}
			if kind == "priq" {
				return genPri(r, r.Range(4, 26))
			}
			if k < 5 {
				return genBurst(r, kind)
			}
			if k < 10 {
				return genAtomic(r, kind)
			}
			return genList(r, kind, r.Range(3, 22))
		},
		Run: runCase,
		NonTrivial: func(c corr.Case, r corr.Result) bool {
			// some consumer was parked at some point and some consumer returned
			parked, ret := false, false
			for _, o := range r.Outs {
				if strings.HasPrefix(o, "parked") || (strings.Contains(o, "parked=") && !strings.HasSuffix(o, "parked=0")) {
					parked = true
				}
				if strings.HasPrefix(o, "ret:") || (strings.Contains(o, "ret=[") && !strings.Contains(o, "ret=[]")) {
					ret = true
				}
			}
			return parked && ret
		},
		Rule: "scripts of blocking consumers (each `pop`/`popany`/`consume` is a new goroutine calling the real method) and producer events on one queue of each type; after every event the process is brought to quiescence (goroutine-state snapshots) and the results of returned consumers (multiset) and the number still parked are compared; classes: random schedules of 3..26 events, k-consumers-then-items-then-close bursts, PriQueue push/recv/pop/consume scripts, malformed lines; non-trivial = a consumer parked and a consumer returned; distinct = distinct script text",
		Assumptions: []string{
			"sync.Cond as documented: no spurious wake-ups, Signal wakes one waiter if any, Broadcast all; channels as specified (1-buffered, non-blocking send)",
			"a runnable goroutine eventually runs (progress of woken consumers)",
			"the unlocked gap between mu.Unlock() and tyrSignal() inside PriQueue.Push/Pop cannot be stepped from outside: its interleavings are covered by the theorem and the regenerated shape facts only",
		},
		Trusted: []string{"go/lib/sched quiescence detection (goroutine states of go1.23)", "go/lib/c12facts shape classifier"},
	}
}
