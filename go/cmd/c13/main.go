// Command c13: extractor and correspondence runner for property C13 (queues: no lost wake-ups; close releases
// every blocked consumer; PriQueue wait channel readable beside a non-empty queue).
package main

import (
	"fmt"
	"os"
	"path/filepath"
	"strconv"
	"strings"

	"nvharness/lib/c12facts"
	"nvharness/lib/c12stress"
	"nvharness/lib/c12worker"
	"nvharness/lib/c13run"
	"nvharness/lib/corr"
	"nvharness/lib/gofacts"
	_ "nvharness/lib/quiet"
	"nvharness/lib/rng"
)

func main() {
	if len(os.Args) < 2 {
		fmt.Fprintln(os.Stderr, "usage: c13 extract|corr …")
		os.Exit(2)
	}
	switch os.Args[1] {
	case "extract":
		extract(os.Args[2], os.Args[3])
	case "corr":
		corr.Main(spec(), os.Args[2:])
	case "stressrun":
		c12stress.ChildMain(os.Args[2:])
	case "runworker":
		c12worker.Serve(func(c corr.Case) corr.Result { return c13run.RunCase("C13", c) })
	case "stress":
		stress(os.Args[2:])
	default:
		os.Exit(2)
	}
}

// stress runs one script file n times in this process and reports every distinct output vector; with an oracle path it
// also checks every run against the oracle's answer (sets accepted) and counts disagreements and monitor hits — the
// diagnostic used to show that scheduling can never produce a disagreement or a hit on the unchanged tree.
func stress(args []string) {
	file := args[0]
	n, _ := strconv.Atoi(args[1])
	raw, err := os.ReadFile(file)
	if err != nil {
		fmt.Fprintln(os.Stderr, err)
		os.Exit(2)
	}
	var lines []string
	for _, l := range strings.Split(string(raw), "\n") {
		if strings.TrimSpace(l) != "" {
			lines = append(lines, l)
		}
	}
	var want []string
	if len(args) > 2 {
		want, err = corr.RunOracle(args[2], lines)
		if err != nil {
			fmt.Fprintln(os.Stderr, err)
			os.Exit(2)
		}
	}
	seen := map[string]int{}
	dis, hits := 0, 0
	for i := 0; i < n; i++ {
		res := c13run.RunCase("C13", corr.Case{Lines: lines})
		seen[strings.Join(res.Outs, " | ")]++
		hits += len(res.Hits)
		for j := range want {
			if !corr.DefaultAccept(want[j], res.Outs[j]) {
				dis++
				if dis <= 3 {
					fmt.Printf("DISAGREE line %d `%s`: impl=%s\n   oracle=%s\n   run=%s\n", j, lines[j], res.Outs[j], want[j], strings.Join(res.Outs, " | "))
				}
				break
			}
		}
	}
	for k, v := range seen {
		fmt.Printf("%6d  %s\n", v, k)
	}
	fmt.Printf("runs=%d distinct=%d disagreements=%d monitor_hits=%d\n", n, len(seen), dis, hits)
	if dis+hits > 0 || (want == nil && len(seen) != 1) {
		os.Exit(1)
	}
}

// ---------------------------------------------------------------- extract

func extract(repo, leanDir string) {
	text, summary := c12facts.GenC13(repo)
	if err := gofacts.WriteIfChanged(filepath.Join(leanDir, "Nv/Gen/C13.lean"), text); err != nil {
		fmt.Fprintln(os.Stderr, err)
		os.Exit(2)
	}
	// the oracle of C13 also runs the C12 shapes: regenerate them here too (same text as `c12 extract` writes)
	text12, _ := c12facts.GenC12(repo)
	if err := gofacts.WriteIfChanged(filepath.Join(leanDir, "Nv/Gen/C12.lean"), text12); err != nil {
		fmt.Fprintln(os.Stderr, err)
		os.Exit(2)
	}
	fmt.Println(summary)
}

// ---------------------------------------------------------------- generators

var kinds = []string{"q", "async", "mux", "mq", "syncq", "priq", "syncq", "priq"}

func newLine(r *rng.R, kind string) string {
	cp := func() int { return r.PickInt(0, 0, 0, 1, 2, 3, 5) }
	switch kind {
	case "mq":
		return fmt.Sprintf("new mq %d %d", cp(), cp())
	case "syncq":
		return "new syncq"
	case "priq":
		return fmt.Sprintf("new priq %d", r.PickInt(1, 2, 3, 4, 6, 0))
	}
	return fmt.Sprintf("new %s %d", kind, cp())
}

func genList(r *rng.R, kind string, n int) corr.Case {
	lines := []string{newLine(r, kind)}
	next := 1
	item := func() string {
		if kind != "syncq" && r.Chance(1, 12) {
			return "nil"
		}
		next++
		return strconv.Itoa(next - 1)
	}
	consumers := 0
	closeAt := -1
	if r.Chance(2, 3) {
		closeAt = r.Range(n/2, n)
	}
	for i := 0; i < n; i++ {
		k := r.Intn(100)
		var l string
		switch {
		case i == closeAt:
			l = "close"
			if kind == "mq" && r.Chance(1, 3) {
				l = "tryclose"
			}
		case k < 6 && (kind == "mux" || kind == "mq") && consumers < 6:
			l = "waitclose"
			if kind == "mq" && r.Chance(1, 3) {
				l = "waitclear"
			}
			consumers++
		case k < 10 && kind != "syncq" && consumers < 6:
			l = "addany " + item() // waits only when the queue is bounded and full
			consumers++
		case k < 13 && kind != "syncq":
			l = "settle"
		case k < 38 && consumers < 6:
			l = "pop"
			if kind != "syncq" && r.Chance(1, 3) {
				l = "popany"
			}
			consumers++
		case k < 70:
			l = "add " + item()
		case k < 78 && kind != "syncq":
			l = "prior " + item()
		case k < 88 && kind == "mq":
			l = r.Pick("addc ", "priorc ") + item()
		case k < 84 && kind == "syncq":
			l = "trypop"
		case k < 92 && kind == "mq":
			l = r.Pick("tryclose", "tryclear")
		default:
			l = "add " + item()
		}
		lines = append(lines, l)
	}
	return corr.Case{Tag: "sched-" + kind, Lines: lines}
}

// k consumers park, then k items / a close arrive
func genBurst(r *rng.R, kind string) corr.Case {
	lines := []string{newLine(r, kind)}
	k := r.Range(1, 4)
	for i := 0; i < k; i++ {
		if kind != "syncq" && r.Chance(1, 3) {
			lines = append(lines, "popany")
		} else {
			lines = append(lines, "pop")
		}
	}
	m := r.Range(0, k)
	for i := 1; i <= m; i++ {
		op := "add"
		if kind == "mq" && r.Chance(1, 3) {
			op = "addc"
		} else if kind != "syncq" && r.Chance(1, 4) {
			op = "prior"
		}
		lines = append(lines, fmt.Sprintf("%s %d", op, i))
	}
	lines = append(lines, "close")
	if r.Bool() {
		lines = append(lines, "pop", fmt.Sprintf("add %d", m+1))
	}
	return corr.Case{Tag: "burst-" + kind, Lines: lines}
}

// consumers park, then a burst of producer events runs before any woken consumer resumes, then more events
func genAtomic(r *rng.R, kind string) corr.Case {
	lines := []string{newLine(r, kind)}
	next := 1
	item := func() string { next++; return strconv.Itoa(next - 1) }
	ev := func(allowClose bool) string {
		k := r.Intn(10)
		switch {
		case k < 5:
			return "add " + item()
		case k < 6 && kind != "syncq":
			return "prior " + item()
		case k < 7 && kind == "mq":
			return r.Pick("addc ", "priorc ") + item()
		case k < 8 && kind == "syncq" && allowClose:
			return "trypop"
		case k < 9 && allowClose:
			if kind == "mq" && r.Chance(1, 3) {
				return "tryclose"
			}
			return "close"
		}
		return "add " + item()
	}
	for round := 0; round < r.Range(1, 3); round++ {
		for i := 0; i < r.Range(1, 3); i++ {
			if kind != "syncq" && r.Chance(1, 3) {
				lines = append(lines, "popany")
			} else {
				lines = append(lines, "pop")
			}
		}
		var evs []string
		for i := 0; i < r.Range(2, 4); i++ {
			evs = append(evs, ev(i > 0))
		}
		lines = append(lines, "atomic "+strings.Join(evs, " ; "))
		if r.Chance(1, 3) {
			lines = append(lines, ev(true))
		}
	}
	return corr.Case{Tag: "atomic-" + kind, Lines: lines}
}

func genPri(r *rng.R, n int) corr.Case {
	lines := []string{newLine(r, "priq")}
	next := 1
	waiting := 0
	for i := 0; i < n; i++ {
		k := r.Intn(100)
		var l string
		switch {
		case k < 35:
			l = fmt.Sprintf("push %d %d", next, r.PickInt(0, 1, 1, 2, 5))
			next++
		case k < 55:
			l = "pop"
		case k < 70:
			l = "recv"
		case k < 82 && waiting < 4:
			l = "consume"
			waiting++
		case k < 92:
			l = "waitlen"
		default:
			l = "len"
		}
		lines = append(lines, l)
	}
	return corr.Case{Tag: "sched-priq", Lines: lines}
}

var junk = []string{"addany", "addany x", "settle now", "addn 3", "addn x 1", "drain", "addn 2 0", "add 0", "addany 0", "waitclose", "waitclear", "waitclose 1", "atomic", "atomic add 1 ;", "atomic pop", "atomic ; close", "atomic add 1 ; trypop", "atomic close ; close", "add", "add x", "pop 1", "popany x", "close now", "foo", "push 1", "push 1 x", "recv 1", "consume now", "waitlen 2",
	"trypop", "tryclose", "tryclear", "addc 1", "priorc 2", "push 3 1", "popany", "prior 4", "recv", "consume", "waitlen", "len"}

func genMalformed(r *rng.R) corr.Case {
	var lines []string
	if r.Chance(2, 3) {
		lines = append(lines, newLine(r, r.Pick(kinds...)))
	} else {
		lines = append(lines, r.Pick("new", "new q", "new q x", "new mq 1", "new priq", "new syncq 3", "new heap 3"))
	}
	for i := 0; i < r.Range(3, 10); i++ {
		if r.Chance(1, 3) {
			lines = append(lines, "add "+strconv.Itoa(i+1))
		} else {
			lines = append(lines, r.Pick(junk...))
		}
	}
	return corr.Case{Tag: "malformed", Lines: lines}
}

func fixedCases() []corr.Case {
	mk := func(tag string, ls ...string) corr.Case { return corr.Case{Tag: tag, Lines: ls} }
	return []corr.Case{
		// F12: two consumers parked in SyncQueue.Pop, Close — both must return
		mk("witness-F12", "new syncq", "pop", "pop", "close"),
		mk("fixed", "new syncq", "pop", "pop", "pop", "add 1", "add 2", "close", "pop", "add 3"),
		mk("fixed", "new q 0", "pop", "popany", "pop", "add 1", "prior 2", "close", "pop", "popany"),
		mk("fixed", "new async 1", "pop", "pop", "add 1", "add 2", "add 3", "close"),
		mk("fixed", "new mux 2", "popany", "popany", "close", "add 1"),
		mk("fixed", "new mq 1 1", "pop", "popany", "pop", "addc 1", "add 2", "tryclose", "priorc 3", "tryclose", "tryclear", "pop"),
		mk("fixed", "new mq 0 0", "pop", "pop", "tryclose", "tryclear"),
		// callers blocked in WaitClose / WaitClear are released by Close / TryClose / TryClear too
		mk("fixed", "new mux 0", "waitclose", "pop", "waitclose", "close", "waitclose"),
		mk("fixed", "new mq 0 0", "waitclose", "waitclear", "pop", "add 1", "tryclose", "pop", "tryclose", "waitclear", "tryclear", "waitclear", "waitclose"),
		mk("fixed", "new mq 1 1", "waitclear", "waitclose", "atomic add 1 ; close", "tryclear", "popany", "tryclear"),
		// the window between a wake-up and the woken consumer's re-acquisition of the lock: the next producer event
		// arrives while a consumer is woken but has not resumed
		// barging: the consumer is signalled, a TryPop takes the item before it runs, it parks again — the next push must
		// still wake it
		mk("barge", "new syncq", "pop", "atomic add 1 ; trypop", "add 2", "pop", "atomic add 3 ; trypop", "add 4", "close"),
		mk("barge", "new syncq", "pop", "pop", "atomic add 1 ; add 2 ; trypop ; trypop", "add 3", "add 4"),
		mk("barge", "new syncq", "pop", "atomic add 1 ; trypop ; add 2 ; trypop ; add 3"),
		mk("window", "new syncq", "pop", "pop", "atomic add 1 ; add 2"),
		mk("window", "new syncq", "pop", "pop", "pop", "atomic add 1 ; add 2 ; add 3", "pop", "add 4"),
		// a Pop that was already blocked must fail when it wakes up after a Close, even though an item is there
		mk("window", "new q 0", "pop", "atomic add 1 ; close", "popany"),
		mk("window", "new async 2", "pop", "pop", "atomic add 1 ; add 2 ; close"),
		mk("window", "new mq 0 0", "pop", "popany", "atomic addc 1 ; add 2 ; close"),
		// a long backlog, fully drained, then a consumer parks and one more item arrives
		mk("bulk", "new syncq", "addn 4200 1000", "drain", "pop", "add 7", "pop", "add 8", "close"),
		// a consumer arriving at a ring buffer that is exactly full (2^k items), one below, one above
		mk("ring", "new syncq", "addn 15 1", "pop", "pop", "trypop", "close"),
		mk("ring", "new syncq", "addn 16 1", "pop", "pop", "trypop", "close"),
		mk("ring", "new syncq", "addn 17 1", "pop", "pop", "trypop", "close"),
		mk("ring", "new syncq", "addn 31 1", "pop", "pop", "trypop", "close"),
		mk("ring", "new syncq", "addn 32 1", "pop", "pop", "trypop", "close"),
		mk("ring", "new syncq", "addn 33 1", "pop", "pop", "trypop", "close"),
		mk("ring", "new syncq", "addn 64 1", "pop", "pop", "trypop", "close"),
		mk("ring", "new syncq", "addn 128 1", "pop", "pop", "trypop", "close"),
		mk("ring", "new syncq", "pop", "addn 16 1", "pop", "addn 15 100", "pop", "pop"),
		mk("bulk", "new syncq", "pop", "addn 3 1", "addn 5000 10", "drain", "pop", "pop", "addn 2 9000"),
		// an *Anyway add waiting for room while consumers empty the queue and park: its retry must wake them
		mk("anyway", "new mux 1", "add 1", "addany 2", "pop", "pop", "settle", "settle", "close"),
		mk("anyway", "new q 2", "add 1", "add 2", "addany 3", "addany 4", "pop", "pop", "pop", "pop", "settle", "settle", "pop", "close"),
		mk("anyway", "new async 1", "add 1", "addany 2", "close", "settle", "popany"),
		mk("anyway", "new mq 0 1", "add 1", "addany 2", "popany", "popany", "settle", "tryclose"),
		// nil is a legal item
		mk("nil", "new q 0", "pop", "add nil", "add nil", "add 1", "pop", "pop", "pop"),
		mk("nil", "new mq 1 1", "addc nil", "add nil", "pop", "pop", "pop", "atomic add nil ; close"),
		mk("window", "new syncq", "pop", "pop", "atomic add 1 ; close"),
		mk("window", "new syncq", "pop", "pop", "pop", "atomic add 1 ; add 2 ; close"),
		mk("window", "new async 0", "pop", "pop", "atomic add 1 ; add 2"),
		mk("window", "new q 0", "pop", "popany", "pop", "atomic add 1 ; prior 2 ; add 3"),
		mk("window", "new mux 2", "pop", "pop", "atomic add 1 ; add 2 ; close", "pop"),
		mk("window", "new mq 0 0", "pop", "pop", "popany", "atomic addc 1 ; add 2 ; tryclose", "atomic close ; add 3"),
		mk("fixed", "new priq 3", "waitlen", "push 1 1", "waitlen", "push 2 2", "recv", "waitlen", "pop", "waitlen", "recv", "pop", "waitlen", "pop", "recv"),
		mk("fixed", "new priq 4", "consume", "consume", "push 1 1", "push 2 1", "push 3 1", "consume", "waitlen", "len", "pop", "consume"),
		mk("fixed", "new priq 2", "push 1 0", "push 2 0", "pop", "waitlen", "pop", "waitlen", "consume", "push 3 0"),
	}
}

// enumerate: every script over {pop, popany, add, prior/addc, close} with at most 3 consumers, 3 items, one close and
// 6 events, for each list queue; and every PriQueue script of at most 5 events over {push p0, push p1, pop, recv, consume}.
func enumerate() []corr.Case {
	var out []corr.Case
	for _, kind := range []string{"q", "async", "mux", "mq", "syncq"} {
		first := "new " + kind + " 0"
		if kind == "mq" {
			first = "new mq 0 0"
		} else if kind == "syncq" {
			first = "new syncq"
		}
		alpha := []string{"pop", "popany", "add", "prior", "close"}
		if kind == "mq" {
			alpha = []string{"pop", "popany", "add", "addc", "close", "waitclose"}
		} else if kind == "mux" {
			alpha = []string{"pop", "popany", "add", "prior", "close", "waitclose"}
		} else if kind == "syncq" {
			alpha = []string{"pop", "add", "close", "trypop"}
		}
		var rec func(lines []string, consumers, items, closes int)
		rec = func(lines []string, consumers, items, closes int) {
			if len(lines) > 1 {
				out = append(out, corr.Case{Tag: "enum-" + kind, Lines: append([]string{}, lines...)})
			}
			if len(lines) > 6 {
				return
			}
			for _, a := range alpha {
				switch a {
				case "pop", "popany", "waitclose":
					if consumers < 3 {
						rec(append(lines, a), consumers+1, items, closes)
					}
				case "add", "prior", "addc":
					if items < 3 {
						rec(append(lines, a+" "+strconv.Itoa(items+1)), consumers, items+1, closes)
					}
				case "close":
					if closes < 1 {
						rec(append(lines, a), consumers, items, closes+1)
					}
				case "trypop":
					if items > 0 && closes < 1 && len(lines) < 5 {
						rec(append(lines, a), consumers, items, closes)
					}
				}
			}
		}
		rec([]string{first}, 0, 0, 0)
	}
	// k consumers (1..3), then every burst of 2..3 producer events over {add, prior/addc, close}
	for _, kind := range []string{"q", "async", "mux", "mq", "syncq"} {
		first := "new " + kind + " 0"
		if kind == "mq" {
			first = "new mq 0 0"
		} else if kind == "syncq" {
			first = "new syncq"
		}
		alpha := []string{"add", "prior", "close"}
		if kind == "mq" {
			alpha = []string{"add", "addc", "close", "tryclose"}
		} else if kind == "syncq" {
			alpha = []string{"add", "close"}
		}
		for k := 1; k <= 3; k++ {
			var rec func(evs []string, items int)
			rec = func(evs []string, items int) {
				if len(evs) >= 2 {
					lines := []string{first}
					for i := 0; i < k; i++ {
						if i == 1 && kind != "syncq" {
							lines = append(lines, "popany")
						} else {
							lines = append(lines, "pop")
						}
					}
					lines = append(lines, "atomic "+strings.Join(evs, " ; "), "close")
					out = append(out, corr.Case{Tag: "enum-atomic-" + kind, Lines: lines})
				}
				if len(evs) >= 3 {
					return
				}
				for _, a := range alpha {
					if a == "close" || a == "tryclose" {
						rec(append(append([]string{}, evs...), a), items)
					} else {
						rec(append(append([]string{}, evs...), a+" "+strconv.Itoa(items+1)), items+1)
					}
				}
			}
			rec(nil, 0)
		}
	}
	var recP func(lines []string, items int)
	recP = func(lines []string, items int) {
		if len(lines) > 1 {
			out = append(out, corr.Case{Tag: "enum-priq", Lines: append([]string{}, lines...)})
		}
		if len(lines) > 5 {
			return
		}
		for _, a := range []string{"push0", "push1", "pop", "recv", "consume"} {
			switch a {
			case "push0", "push1":
				recP(append(lines, fmt.Sprintf("push %d %s", items+1, a[4:])), items+1)
			default:
				recP(append(lines, a), items)
			}
		}
	}
	recP([]string{"new priq 2"}, 0)
	return out
}

var enumCases []corr.Case

func baseCount(tier string) int {
	switch tier {
	case "quick":
		return 1600
	case "thorough":
		if enumCases == nil {
			enumCases = enumerate()
		}
		return len(enumCases) + 24000
	}
	return 40000
}

func spec() corr.Spec {
	return corr.Spec{
		Property: "C13",
		Fixed:    fixedCases,
		Count:    func(tier string) int { return baseCount(tier) + len(c12stress.Cases(tier, false)) },
		Shards: func(tier string) int {
			if tier == "quick" {
				return 8
			}
			return 14
		},
		Gen: func(r *rng.R, tier string, i int) corr.Case {
			if i >= baseCount(tier) { // the parallel stress class (child processes)
				return c12stress.Cases(tier, false)[i-baseCount(tier)]
			}
			if tier == "thorough" {
				if enumCases == nil {
					enumCases = enumerate()
				}
				if i < len(enumCases) {
					return enumCases[i]
				}
			}
			kind := kinds[i%len(kinds)]
			k := r.Intn(20)
			if k == 0 {
				return genMalformed(r)
			}
			if kind == "priq" {
				return genPri(r, r.Range(4, 26))
			}
			if k < 5 {
				return genBurst(r, kind)
			}
			if k < 10 {
				return genAtomic(r, kind)
			}
			return genList(r, kind, r.Range(3, 22))
		},
		// every script runs in a worker child process: a fatal error or a call that never returns is a hit, not a dead runner
		Run: func(c corr.Case) corr.Result {
			if len(c.Lines) == 1 && strings.HasPrefix(c.Lines[0], "stress ") {
				return c13run.RunCase("C13", c) // already a child process of its own
			}
			return c12worker.Run("C13", c)
		},
		NonTrivial: func(c corr.Case, r corr.Result) bool {
			// some consumer was parked at some point and some consumer returned
			parked, ret := false, false
			for _, o := range r.Outs {
				if strings.HasPrefix(o, "parked") || (strings.Contains(o, "parked=") && !strings.HasSuffix(o, "parked=0")) {
					parked = true
				}
				if strings.HasPrefix(o, "ret:") || (strings.Contains(o, "ret=[") && !strings.Contains(o, "ret=[]")) {
					ret = true
				}
			}
			return parked && ret
		},
		Rule: "scripts of blocking consumers (each `pop`/`popany`/`consume` is a new goroutine calling the real method) and producer events on one queue of each type; after every event the process is brought to quiescence (goroutine-state snapshots) and the results of returned consumers (multiset) and the number still parked are compared; classes: random schedules of 3..26 events, k-consumers-then-items-then-close bursts, PriQueue push/recv/pop/consume scripts, malformed lines; non-trivial = a consumer parked and a consumer returned; distinct = distinct script text",
		Assumptions: []string{
			"sync.Cond as documented: no spurious wake-ups, Signal wakes one waiter if any, Broadcast all; channels as specified (1-buffered, non-blocking send)",
			"a runnable goroutine eventually runs (progress of woken consumers)",
			"the unlocked gap between mu.Unlock() and tyrSignal() inside PriQueue.Push/Pop cannot be stepped from outside: its interleavings are covered by the theorem and the regenerated shape facts only",
		},
		Trusted: []string{"go/lib/sched quiescence detection (goroutine states of go1.23)", "go/lib/c12facts shape classifier"},
	}
}
