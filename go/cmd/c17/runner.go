package main

import (
	"bytes"
	"context"
	"encoding/hex"
	"fmt"
	"math"
	"os"
	"os/exec"
	"runtime"
	"strconv"
	"strings"
	"sync"
	"time"

	"github.com/pinealctx/neptune/cache"
	"github.com/pinealctx/neptune/cache/tiny"
	"github.com/pinealctx/neptune/remap"
	"github.com/pinealctx/neptune/syncx/keylock"
	"github.com/pinealctx/neptune/syncx/semap"

	"nvharness/lib/corr"
	"nvharness/lib/sched"
)

// key types of the harness that implement the two remap interfaces
type hitKey uint64

func (h hitKey) Hit() uint64 { return uint64(h) }

type bsKey struct{ s string }

func (b bsKey) ToBytes() []byte { return []byte(b.s) }

type lval struct{ id int }

func (v *lval) Size() int { return 1 }

// ---------------------------------------------------------------- key tokens  <ty>:<value>:<hash>

type key struct {
	hash uint64 // the xxhash the script states for this key
	ty   string
	v    interface{} // the Go key
	ok   bool
	text string
}

var intRange = map[string][2]string{
	"u8": {"0", "255"}, "i8": {"-128", "127"}, "i16": {"-32768", "32767"}, "u16": {"0", "65535"},
	"i32": {"-2147483648", "2147483647"}, "u32": {"0", "4294967295"},
}

func decimal(s string, signed bool) bool {
	t := s
	if signed {
		t = strings.TrimPrefix(s, "-")
	}
	if t == "" || len(t) > 20 {
		return false
	}
	for _, c := range t {
		if c < '0' || c > '9' {
			return false
		}
	}
	return true
}

func parseKey(tok string) (key, bool) {
	p := strings.Split(tok, ":")
	if len(p) != 3 || !decimal(p[2], false) {
		return key{}, false
	}
	hv, err := strconv.ParseUint(p[2], 10, 64)
	if err != nil {
		return key{}, false
	}
	k := key{ty: p[0], text: p[1], hash: hv}
	switch p[0] {
	case "u8", "u16", "u32", "u64", "uint", "hit":
		if !decimal(p[1], false) {
			return key{}, false
		}
		bits := map[string]int{"u8": 8, "u16": 16, "u32": 32, "u64": 64, "uint": 64, "hit": 64}[p[0]]
		u, err := strconv.ParseUint(p[1], 10, bits)
		if err != nil {
			return key{}, false
		}
		switch p[0] {
		case "u8":
			k.v = byte(u)
		case "u16":
			k.v = uint16(u)
		case "u32":
			k.v = uint32(u)
		case "u64":
			k.v = u
		case "uint":
			k.v = uint(u)
		case "hit":
			k.v = hitKey(u)
		}
	case "i8", "i16", "i32", "i64", "int":
		if !decimal(p[1], true) || p[1] == "-0" {
			return key{}, false
		}
		bits := map[string]int{"i8": 8, "i16": 16, "i32": 32, "i64": 64, "int": 64}[p[0]]
		i, err := strconv.ParseInt(p[1], 10, bits)
		if err != nil {
			return key{}, false
		}
		switch p[0] {
		case "i8":
			k.v = int8(i)
		case "i16":
			k.v = int16(i)
		case "i32":
			k.v = int32(i)
		case "i64":
			k.v = i
		case "int":
			k.v = int(i)
		}
	case "str", "bytes", "bs":
		if len(p[1])%2 != 0 || strings.ToLower(p[1]) != p[1] {
			return key{}, false
		}
		b, err := hex.DecodeString(p[1])
		if err != nil {
			return key{}, false
		}
		switch p[0] {
		case "str":
			k.v = string(b)
		case "bytes":
			k.v = b
		case "bs":
			k.v = bsKey{string(b)}
		}
	case "other":
		if p[1] != "0" {
			return key{}, false
		}
		k.v = float64(0)
	default:
		return key{}, false
	}
	return k, true
}

// keyToken renders a Go key with its real xxhash (used by the generator).
func keyToken(ty, val string) string {
	k, ok := parseKey(ty + ":" + val + ":0")
	if !ok {
		return ty + ":" + val + ":0"
	}
	h := uint64(0)
	func() {
		defer func() { _ = recover() }()
		h = remap.XXHash(k.v)
	}()
	return ty + ":" + val + ":" + strconv.FormatUint(h, 10)
}

// ---------------------------------------------------------------- runner

type container interface {
	Set(k interface{}, v int) string
	Get(k interface{}) string
	Peek(k interface{}) string
	Exist(k interface{}) string
	Delete(k interface{}) string
}

type mapC struct{ m cache.MapFacade }

func (c mapC) Set(k interface{}, v int) string { c.m.Set(k, v); return "ok" }
func (c mapC) Get(k interface{}) string {
	v, ok := c.m.Get(k)
	if !ok {
		return "miss"
	}
	return "v=" + strconv.Itoa(v.(int))
}
func (c mapC) Peek(k interface{}) string   { return "bad-op" }
func (c mapC) Exist(k interface{}) string  { return strconv.FormatBool(c.m.Exist(k)) }
func (c mapC) Delete(k interface{}) string { c.m.Delete(k); return "ok" }

type lruC struct{ m cache.LRUFacade }

func (c lruC) Set(k interface{}, v int) string { c.m.Set(k, &lval{v}); return "ok" }
func (c lruC) Get(k interface{}) string {
	v, ok := c.m.Get(k)
	if !ok {
		return "miss"
	}
	return "v=" + strconv.Itoa(v.(*lval).id)
}
func (c lruC) Peek(k interface{}) string {
	v, ok := c.m.Peek(k)
	if !ok {
		return "miss"
	}
	return "v=" + strconv.Itoa(v.(*lval).id)
}
func (c lruC) Exist(k interface{}) string  { return strconv.FormatBool(c.m.Exist(k)) }
func (c lruC) Delete(k interface{}) string { return strconv.FormatBool(c.m.Delete(k)) }

type tlruC struct{ m tiny.LRU }

func (c tlruC) Set(k interface{}, v int) string { c.m.Set(k, v); return "ok" }
func (c tlruC) Get(k interface{}) string {
	v, ok := c.m.Get(k)
	if !ok {
		return "miss"
	}
	return "v=" + strconv.Itoa(v.(int))
}
func (c tlruC) Peek(k interface{}) string {
	v, ok := c.m.Peek(k)
	if !ok {
		return "miss"
	}
	return "v=" + strconv.Itoa(v.(int))
}
func (c tlruC) Exist(k interface{}) string  { return strconv.FormatBool(c.m.Exist(k)) }
func (c tlruC) Delete(k interface{}) string { return strconv.FormatBool(c.m.Delete(k)) }

type runner struct {
	mode       string // "", "remap", "cont", "lock"
	n          uint64
	rm, rm2    *remap.ReMap
	lastX      []uint64
	lastI      []int
	kind       string
	xhash      bool
	wide, twin container
	lk         keylock.Locker
	tlkI       keylock.TLocker[int64]
	tlkS       keylock.TLocker[string]
	sm         semap.SemMapper
	hits       []corr.Hit
	seen       map[string]bool
	wl         *wlState
	ls         *locksState
	lockBroken bool // a lock script's group already misbehaved: issue nothing further to it
}

func (r *runner) hit(key, what string) {
	if r.seen[key] {
		return
	}
	r.seen[key] = true
	r.hits = append(r.hits, corr.Hit{Key: key, What: what})
}

func guardS(f func() string) (out string, panicked bool) {
	defer func() {
		if x := recover(); x != nil {
			out, panicked = "panic", true
		}
	}()
	return f(), false
}

const maxN = 1 << 20

func parseN(s string) (uint64, bool) {
	if !decimal(s, false) || len(s) > 9 {
		return 0, false
	}
	n, err := strconv.ParseUint(s, 10, 64)
	return n, err == nil && n <= maxN
}

// boundary i of the partition, computed independently of the package (for the monitors)
func boundary(n uint64, i uint64) uint64 {
	if i+1 == n {
		return math.MaxUint64
	}
	return (math.MaxUint64 / n) * (i + 1)
}

func (r *runner) checkIdx(fn string, idx int, what string) {
	if idx < 0 || uint64(idx) >= r.n {
		r.hit("C17:remap."+fn+":out-of-range", fmt.Sprintf("%s -> %d with %d shards", what, idx, r.n))
	}
}

func (r *runner) line(line string) string {
	f := strings.Fields(line)
	if len(f) == 0 {
		return "bad-op"
	}
	switch f[0] {
	case "reset":
		if len(f) != 1 {
			return "bad-op"
		}
		r.mode = ""
		return "ok"
	case "remap":
		if len(f) != 2 {
			return "bad-op"
		}
		n, ok := parseN(f[1])
		def := f[1] == "d" // `remap d`: NewReMap() with no option — 73 shards, whoever used WithPrime before in this process
		if def {
			n, ok = 73, true
		}
		if !ok {
			return "bad-op"
		}
		r.mode = ""
		out, p := guardS(func() string {
			if def {
				r.rm, r.rm2 = remap.NewReMap(), remap.NewReMap()
				return "ok"
			}
			r.rm = remap.NewReMap(remap.WithPrime(n))
			r.rm2 = remap.NewReMap(remap.WithPrime(n))
			return "ok"
		})
		if !p {
			r.mode, r.n, r.lastX, r.lastI = "remap", n, nil, nil
			if r.rm.Numbs() != n {
				r.hit("C17:remap.NewReMap:shard-count", fmt.Sprintf("%s: a ReMap for %d shards (`d` = no option, default) reports Numbs()=%d", strings.Join(f, " "), n, r.rm.Numbs()))
			}
		}
		return out
	case "search":
		if len(f) != 2 || r.mode != "remap" || !decimal(f[1], false) {
			return "bad-op"
		}
		x, err := strconv.ParseUint(f[1], 10, 64)
		if err != nil {
			return "bad-op"
		}
		out, p := guardS(func() string { return strconv.Itoa(r.rm.SearchIndex(x)) })
		if p {
			r.hit("C17:remap.SearchIndex:panics", fmt.Sprintf("SearchIndex(%d), %d shards", x, r.n))
			return out
		}
		idx, _ := strconv.Atoi(out)
		r.checkIdx("SearchIndex", idx, fmt.Sprintf("SearchIndex(%d)", x))
		if r.rm.SearchIndex(x) != idx || r.rm2.SearchIndex(x) != idx {
			r.hit("C17:remap.SearchIndex:nondeterministic", fmt.Sprintf("SearchIndex(%d), %d shards", x, r.n))
		}
		if idx >= 0 && uint64(idx) < r.n {
			// the shard's interval (lo, hi] must contain x: every hash lies in exactly one interval
			hi := boundary(r.n, uint64(idx))
			if x > hi || (idx > 0 && x <= boundary(r.n, uint64(idx-1))) {
				r.hit("C17:remap.SearchIndex:wrong-interval", fmt.Sprintf("SearchIndex(%d)=%d with %d shards, but shard %d covers (%v, %d]", x, idx, r.n, idx,
					func() interface{} {
						if idx == 0 {
							return "-"
						}
						return boundary(r.n, uint64(idx-1))
					}(), hi))
			}
		}
		for j, px := range r.lastX {
			if (px <= x && r.lastI[j] > idx) || (px >= x && r.lastI[j] < idx) {
				r.hit("C17:remap.SearchIndex:not-monotone", fmt.Sprintf("SearchIndex(%d)=%d but SearchIndex(%d)=%d, %d shards", px, r.lastI[j], x, idx, r.n))
			}
		}
		if len(r.lastX) < 64 {
			r.lastX, r.lastI = append(r.lastX, x), append(r.lastI, idx)
		}
		return out
	case "simple", "xhash":
		if len(f) != 2 || r.mode != "remap" {
			return "bad-op"
		}
		k, ok := parseKey(f[1])
		if !ok {
			return "bad-op"
		}
		fn := map[string]string{"simple": "SimpleIndex", "xhash": "XHashIndex"}[f[0]]
		call := func(m *remap.ReMap) int {
			if f[0] == "simple" {
				return m.SimpleIndex(k.v)
			}
			return m.XHashIndex(k.v)
		}
		out, p := guardS(func() string { return strconv.Itoa(call(r.rm)) })
		if p {
			switch {
			case k.ty == "hit" && f[0] == "xhash":
				r.hitGroupUnsupported(fmt.Sprintf("XHashIndex(HitGroup implementer with Hit()=%s), %d shards", k.text, r.n))
			case k.ty != "other":
				r.hit("C17:remap."+fn+":panics", fmt.Sprintf("%s(%s %v), %d shards", fn, k.ty, k.text, r.n))
			}
			return out
		}
		idx, _ := strconv.Atoi(out)
		r.checkIdx(fn, idx, fmt.Sprintf("%s(%s %s)", fn, k.ty, k.text))
		if call(r.rm) != idx || call(r.rm2) != idx {
			r.hit("C17:remap."+fn+":nondeterministic", fmt.Sprintf("%s(%s %s), %d shards", fn, k.ty, k.text, r.n))
		}
		if f[0] == "xhash" {
			// known-answer check: the hash the script states (fixed scripts carry the reference XXH64 values; generated ones the
			// value computed when the script was made) must be what the package computes now, in this process
			if real, p2 := guardS(func() string { return strconv.FormatUint(remap.XXHash(k.v), 10) }); !p2 && real != strconv.FormatUint(k.hash, 10) {
				r.hit("C17:remap.XXHash:not-the-stated-hash", fmt.Sprintf("XXHash(%s %s) = %s, the script states %d (XXH64 reference value / value at generation time): the hash is not a fixed function of the key", k.ty, k.text, real, k.hash))
			}
		}
		if f[0] == "xhash" && r.rm.SearchIndex(remap.XXHash(k.v)) != idx {
			r.hit("C17:remap.XHashIndex:not-the-shard-of-its-hash", fmt.Sprintf("XHashIndex(%s %s)=%d, SearchIndex(XXHash)=%d", k.ty, k.text, idx, r.rm.SearchIndex(remap.XXHash(k.v))))
		}
		return out
	case "firstuse":
		return r.firstUse(f)
	case "cont":
		return r.construct(f, r.newCont)
	case "lock":
		return r.construct(f, r.newLock)
	case "wl":
		return r.construct(f, r.newWL)
	case "locks":
		return r.construct(f, r.newLocks)
	case "acq", "rel", "acqx", "acqd":
		return r.locksOp(f)
	case "bset", "bdel", "bprobe":
		return r.bulkOp(f)
	case "set", "get", "peek", "exist", "del":
		if r.mode == "wl" {
			return r.wlOp(f)
		}
		return r.contOp(f)
	case "lk", "rlk":
		return r.lockOp(f)
	}
	return "bad-op"
}

func (r *runner) newCont(f []string) string {
	if len(f) != 4 || (f[3] != "simple" && f[3] != "xhash") {
		return "bad-op"
	}
	n, ok := parseN(f[2])
	if !ok || n == 0 || n > 4096 {
		return "bad-op"
	}
	opt := remap.WithPrime(n)
	x := f[3] == "xhash"
	const big = int64(1) << 40
	switch f[1] {
	case "map":
		r.twin = mapC{cache.NewSingleMap()}
		if x {
			r.wide = mapC{cache.NewWideXHashMap(opt)}
		} else {
			r.wide = mapC{cache.NewWideMap(opt)}
		}
	case "lru":
		r.twin = lruC{cache.NewSingleLRUCache(big)}
		if x {
			r.wide = lruC{cache.NewWideXHashLRUCache(big, opt)}
		} else {
			r.wide = lruC{cache.NeWideLRUCache(big, opt)}
		}
	case "tlru":
		r.twin = tlruC{tiny.NewSingleLRUCache(big)}
		if x {
			r.wide = tlruC{tiny.NewWideXHashLRU(big, opt)}
		} else {
			r.wide = tlruC{tiny.NeWideLRU(big, opt)}
		}
	default:
		return "bad-op"
	}
	r.mode, r.kind, r.n, r.xhash = "cont", f[1], n, x
	return "ok"
}

var contName = map[string]string{"map": "cache.WideMap", "lru": "cache.WideLRUCache", "tlru": "tiny.WideLRUCache"}

func (r *runner) contOp(f []string) string {
	if r.mode != "cont" {
		return "bad-op"
	}
	want := 2
	if f[0] == "set" {
		want = 3
	}
	if len(f) != want || (f[0] == "peek" && r.kind == "map") {
		return "bad-op"
	}
	k, ok := parseKey(f[1])
	if !ok || k.ty == "bytes" || k.ty == "other" { // []byte is not a legal Go map key; `other` has no route
		return "bad-op"
	}
	v := 0
	if f[0] == "set" {
		if !decimal(f[2], false) || len(f[2]) > 9 {
			return "bad-op"
		}
		v, _ = strconv.Atoi(f[2])
	}
	do := func(c container) string {
		switch f[0] {
		case "set":
			return c.Set(k.v, v)
		case "get":
			return c.Get(k.v)
		case "peek":
			return c.Peek(k.v)
		case "exist":
			return c.Exist(k.v)
		}
		return c.Delete(k.v)
	}
	out, p := guardS(func() string { return do(r.wide) })
	name := contName[r.kind]
	if p {
		if k.ty == "hit" && r.xhash {
			r.hitGroupUnsupported(fmt.Sprintf("%s %s on %s with xxhash routing, %d shards", f[0], f[1], name, r.n))
		} else {
			r.hit("C17:"+name+":panics", fmt.Sprintf("%s %s on %d shards (xhash=%v)", f[0], f[1], r.n, r.xhash))
		}
		return out
	}
	tw, _ := guardS(func() string { return do(r.twin) })
	if tw != out {
		r.hit("C17:"+name+":differs-from-unsharded", fmt.Sprintf("%s %s: sharded (%d shards, xhash=%v) answers %s, unsharded answers %s", f[0], f[1], r.n, r.xhash, out, tw))
	}
	return out
}

// bulkOp: `bset a n` / `bdel a n` / `bprobe a n` on a container with modulo routing: the int keys a … a+n-1 (value key+1)
// are stored / deleted / looked up in one line, on the sharded container and its unsharded twin (thousands of keys,
// mass deletion, then a probe: state that only shows far beyond a dozen keys).
func (r *runner) bulkOp(f []string) string {
	if r.mode != "cont" || len(f) != 3 || r.xhash {
		return "bad-op"
	}
	a, ok1 := parseNatTok(f[1])
	n, ok2 := parseNatTok(f[2])
	if !ok1 || !ok2 || n == 0 || n > 20000 || a > 1000000 {
		return "bad-op"
	}
	do := func(c container) string {
		present, sum := 0, 0
		for k := a; k < a+n; k++ {
			switch f[0] {
			case "bset":
				c.Set(k, k+1)
			case "bdel":
				c.Delete(k)
			default:
				if res := c.Get(k); strings.HasPrefix(res, "v=") {
					v, _ := strconv.Atoi(res[2:])
					present++
					sum += v
				}
			}
		}
		if f[0] == "bprobe" {
			return fmt.Sprintf("present=%d sum=%d", present, sum)
		}
		return "ok"
	}
	name := contName[r.kind]
	out, p := guardS(func() string { return do(r.wide) })
	if p {
		r.hit("C17:"+name+":panics", fmt.Sprintf("%s on %d shards", strings.Join(f, " "), r.n))
		return out
	}
	tw, _ := guardS(func() string { return do(r.twin) })
	if tw != out {
		r.hit("C17:"+name+":differs-from-unsharded", fmt.Sprintf("%s: sharded (%d shards) answers `%s`, unsharded answers `%s`", strings.Join(f, " "), r.n, out, tw))
	}
	return out
}

func (r *runner) newLock(f []string) string {
	if len(f) != 4 || (f[3] != "simple" && f[3] != "xhash") {
		return "bad-op"
	}
	n, ok := parseN(f[2])
	if !ok || n == 0 || n > 4096 {
		return "bad-op"
	}
	opt := remap.WithPrime(n)
	x := f[3] == "xhash"
	r.lk, r.tlkI, r.tlkS, r.sm = nil, nil, nil, nil
	switch f[1] {
	case "klock":
		if x {
			r.lk = keylock.NewXHashKeyLockeGrp(opt)
		} else {
			r.lk = keylock.NewKeyLockeGrp(opt)
		}
	case "tklock-i64":
		if x {
			r.tlkI = keylock.NewTXHashTKeyLockeGrp[int64](opt)
		} else {
			r.tlkI = keylock.NewTKeyLockeGrp[int64](opt)
		}
	case "tklock-str":
		if x {
			r.tlkS = keylock.NewTXHashTKeyLockeGrp[string](opt)
		} else {
			r.tlkS = keylock.NewTKeyLockeGrp[string](opt)
		}
	case "semap":
		if x {
			r.sm = semap.NewWideXHashSemMap(semap.WithPrime(n))
		} else {
			r.sm = semap.NewWideSemMap(semap.WithPrime(n))
		}
	default:
		return "bad-op"
	}
	r.mode, r.kind, r.n, r.xhash = "lock", f[1], n, x
	return "ok"
}

var lockName = map[string]string{"klock": "keylock.KeyLockerGrp", "tklock-i64": "keylock.TKeyLockerGrp", "tklock-str": "keylock.TKeyLockerGrp", "semap": "semap.WideSemMap"}

// lockOp: acquire and release through the group; both calls must reach the same shard (a release routed elsewhere
// panics or leaves the key locked — the second acquire below would then never return).
func (r *runner) lockOp(f []string) string {
	if r.mode != "lock" || len(f) != 2 {
		return "bad-op"
	}
	k, ok := parseKey(f[1])
	if !ok || k.ty == "bytes" || k.ty == "other" {
		return "bad-op"
	}
	if (r.kind == "tklock-i64" && k.ty != "i64") || (r.kind == "tklock-str" && k.ty != "str") {
		return "bad-op"
	}
	write := f[0] == "lk"
	once := func() {
		switch {
		case r.lk != nil && write:
			r.lk.Lock(k.v)
			r.lk.Unlock(k.v)
		case r.lk != nil:
			r.lk.RLock(k.v)
			r.lk.RUnlock(k.v)
		case r.tlkI != nil && write:
			r.tlkI.Lock(k.v.(int64))
			r.tlkI.Unlock(k.v.(int64))
		case r.tlkI != nil:
			r.tlkI.RLock(k.v.(int64))
			r.tlkI.RUnlock(k.v.(int64))
		case r.tlkS != nil && write:
			r.tlkS.Lock(k.v.(string))
			r.tlkS.Unlock(k.v.(string))
		case r.tlkS != nil:
			r.tlkS.RLock(k.v.(string))
			r.tlkS.RUnlock(k.v.(string))
		case r.sm != nil && write:
			w, err := r.sm.AcquireWrite(context.Background(), k.v)
			if err != nil {
				panic(err)
			}
			r.sm.ReleaseWrite(k.v, w)
		case r.sm != nil:
			w, err := r.sm.AcquireRead(context.Background(), k.v)
			if err != nil {
				panic(err)
			}
			r.sm.ReleaseRead(k.v, w)
		}
	}
	// no real time decides anything: the two rounds run in their own goroutine and the harness waits for quiescence
	name := lockName[r.kind]
	sc := sched.New()
	t := sc.Go("lk", func() string { once(); once(); return "ok" })
	if err := sc.Settle(); err != nil {
		fmt.Fprintln(os.Stderr, "c17: no quiescent state while waiting for a lock call:", err)
		os.Exit(2) // harness error, never a verdict
	}
	switch st := t.State(); {
	case st == "ret:ok":
		return "ok"
	case st == "parked":
		r.hit("C17:"+name+":stuck", fmt.Sprintf("%s %s twice on %d shards (xhash=%v): the second acquire is parked — acquire and release were routed differently", f[0], f[1], r.n, r.xhash))
		r.mode = ""
		return "stuck"
	default:
		if k.ty == "hit" && r.xhash {
			r.hitGroupUnsupported(fmt.Sprintf("%s %s on %s with xxhash routing, %d shards", f[0], f[1], name, r.n))
		} else {
			r.hit("C17:"+name+":panics", fmt.Sprintf("%s %s on %d shards (xhash=%v): %s", f[0], f[1], r.n, r.xhash, st))
		}
		return "panic"
	}
}

// ---------------------------------------------------------------- concurrent FIRST users of a fresh router / container
//
// `firstuse <n> <rounds> <threads>` starts a CHILD PROCESS (`c17 firstuse …`, GOMAXPROCS >= 4): in every round a fresh ReMap
// and a fresh xxhash-routed WideMap of n shards are created and <threads> goroutines released together immediately
// route hashes / store keys through them. Every index obtained must be the one the (independently computed) boundary
// table gives, every key stored must be found again afterwards. Routing must not depend on who uses the router first.
// A wrong answer or a crash of the child is a hit; exceeding the time limit is a harness error (exit 2).

func (r *runner) firstUse(f []string) string {
	if len(f) != 4 {
		return "bad-op"
	}
	n, ok1 := parseN(f[1])
	rounds, ok2 := parseNatTok(f[2])
	threads, ok3 := parseNatTok(f[3])
	if !ok1 || !ok2 || !ok3 || n == 0 || rounds < 1 || rounds > 200 || threads < 2 || threads > 16 {
		return "bad-op"
	}
	exe, err := os.Executable()
	if err != nil {
		fmt.Fprintln(os.Stderr, "c17: cannot locate own executable:", err)
		os.Exit(2)
	}
	cmd := exec.Command(exe, "firstuse", f[1], f[2], f[3])
	var out, errb bytes.Buffer
	cmd.Stdout, cmd.Stderr = &out, &errb
	if err := cmd.Start(); err != nil {
		fmt.Fprintln(os.Stderr, "c17: cannot start the first-use child:", err)
		os.Exit(2)
	}
	done := make(chan error, 1)
	go func() { done <- cmd.Wait() }()
	var werr error
	select {
	case werr = <-done:
	case <-time.After(120 * time.Second):
		_ = cmd.Process.Kill()
		fmt.Fprintln(os.Stderr, "c17: first-use child did not finish within 120 s — harness error, no verdict")
		os.Exit(2)
	}
	res := strings.TrimSpace(out.String())
	what := fmt.Sprintf("%s goroutines using a fresh ReMap / xxhash WideMap of %s shards at the same time (%s rounds)", f[3], f[1], f[2])
	switch {
	case werr != nil:
		tail := errb.String()
		if len(tail) > 500 {
			tail = tail[:500]
		}
		r.hit("C17:remap.SearchIndex:first-use-race", what+": the process died: "+strings.ReplaceAll(tail, "\n", " | "))
		return "crashed"
	case res == "ok":
		return "ok"
	default:
		r.hit("C17:remap.SearchIndex:first-use-race", what+": "+res)
		return "wrong"
	}
}

func firstUseChild(args []string) {
	if len(args) != 3 {
		os.Exit(3)
	}
	n, _ := strconv.ParseUint(args[0], 10, 64)
	rounds, _ := strconv.Atoi(args[1])
	threads, _ := strconv.Atoi(args[2])
	if runtime.GOMAXPROCS(0) < 4 {
		runtime.GOMAXPROCS(4)
	}
	var mu sync.Mutex
	bad := ""
	fail := func(s string) {
		mu.Lock()
		if bad == "" {
			bad = s
		}
		mu.Unlock()
	}
	y := uint64(math.MaxUint64) / n
	for round := 0; round < rounds && bad == ""; round++ {
		rm := remap.NewReMap(remap.WithPrime(n))
		var wm cache.MapFacade
		if n <= 4096 {
			wm = cache.NewWideXHashMap(remap.WithPrime(n))
		}
		start := make(chan struct{})
		var wg sync.WaitGroup
		for t := 0; t < threads; t++ {
			wg.Add(1)
			go func(t int) {
				defer wg.Done()
				defer func() {
					if x := recover(); x != nil {
						fail(fmt.Sprintf("panic in a first user: %v", x))
					}
				}()
				<-start
				for j := 0; j < 40; j++ {
					// hashes spread over the whole range, boundaries included
					sh := (uint64(t)*7919 + uint64(j)*104729 + uint64(round)*13) % n
					x := y*(sh+1) - uint64(j%3)
					got := rm.SearchIndex(x)
					if got < 0 || uint64(got) >= n || x > boundary(n, uint64(got)) || (got > 0 && x <= boundary(n, uint64(got-1))) {
						fail(fmt.Sprintf("SearchIndex(%d) = %d on a ReMap of %d shards while other goroutines use it for the first time; shard %d does not cover that hash", x, got, n, got))
						return
					}
					if wm != nil {
						k := t*1000 + j
						wm.Set(k, k)
					}
				}
			}(t)
		}
		close(start)
		wg.Wait()
		if wm != nil && bad == "" {
			for t := 0; t < threads; t++ {
				for j := 0; j < 40; j++ {
					if v, ok := wm.Get(t*1000 + j); !ok || v.(int) != t*1000+j {
						fail(fmt.Sprintf("key %d stored by a first user of a fresh xxhash WideMap (%d shards) is not found afterwards", t*1000+j, n))
					}
				}
			}
		}
	}
	if bad != "" {
		fmt.Println("wrong: " + bad)
		return
	}
	fmt.Println("ok")
}

// construct: building a sharded container with a legal shard count must not panic (the constructors index their shard slice)
func (r *runner) construct(f []string, mk func([]string) string) string {
	out, p := guardS(func() string { return mk(f) })
	if p {
		name := "container"
		if len(f) > 1 {
			kind := f[1]
			if strings.HasPrefix(kind, "semap") {
				kind = "semap"
			}
			switch {
			case f[0] == "cont":
				name = contName[kind]
			case f[0] == "wl":
				name = map[string]string{"lru": "cache.WideLRUCache", "tlru": "tiny.WideLRUCache"}[kind]
			default:
				name = lockName[kind]
			}
		}
		r.mode = ""
		r.hit("C17:"+name+":constructor-panics", fmt.Sprintf("`%s`: the constructor panicked for a legal shard count", strings.Join(f, " ")))
	}
	return out
}

// hitGroupUnsupported: one root cause (ToBytes has no HitGroup arm), one key, whichever entry point shows it
func (r *runner) hitGroupUnsupported(what string) {
	r.hit("C17:XHashIndex:HitGroup-key-unsupported", what+": panics `unsupported.type.for.slot` — a key type that implements only remap.HitGroup cannot be routed by xxhash although the property lists HitGroup implementers under both routings")
}

func runCase(c corr.Case) corr.Result {
	r := &runner{seen: map[string]bool{}}
	var res corr.Result
	trace := os.Getenv("NV_TRACE") != ""
	for _, l := range c.Lines {
		if trace {
			fmt.Fprintln(os.Stderr, "TRACE", l)
		}
		out, _ := guardS(func() string { return r.line(l) })
		if trace {
			fmt.Fprintln(os.Stderr, "TRACE  ->", out)
		}
		res.Outs = append(res.Outs, out)
	}
	r.locksCleanup()
	res.Hits = r.hits
	return res
}
