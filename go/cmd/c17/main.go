// Command c17: extractor and correspondence runner for property C17 (shard routing, sharded containers).
package main

import (
	"fmt"
	"go/ast"
	"os"
	"path/filepath"
	"strings"

	"nvharness/lib/c17syn"
	"nvharness/lib/corr"
	"nvharness/lib/gofacts"
	_ "nvharness/lib/quiet"
)

func main() {
	if len(os.Args) < 2 {
		fmt.Fprintln(os.Stderr, "usage: c17 extract|corr …")
		os.Exit(2)
	}
	switch os.Args[1] {
	case "extract":
		extract(os.Args[2], os.Args[3])
	case "corr":
		corr.Main(spec(), os.Args[2:])
	case "firstuse":
		firstUseChild(os.Args[2:])
	default:
		os.Exit(2)
	}
}

// ---------------------------------------------------------------- extract

// Go type name of a SimpleIndex arm -> (Lean KType constructor, bit width of the BitVec the kernel takes)
var armTypes = map[string]struct {
	kt string
	w  int
}{
	"byte": {"u8", 8}, "uint8": {"u8", 8}, "int8": {"i8", 8}, "int16": {"i16", 16}, "uint16": {"u16", 16},
	"int32": {"i32", 32}, "uint32": {"u32", 32}, "int64": {"i64", 64}, "uint64": {"u64", 64}, "int": {"int", 64},
	"uint": {"uint", 64}, "HitGroup": {"hit", 64},
}

// armFallsThrough: every statement is `it = <expr>` / `it <op>= <expr>`, or an if/else (without init) whose blocks are such.
func armFallsThrough(list []ast.Stmt) bool {
	for _, st := range list {
		switch x := st.(type) {
		case *ast.AssignStmt:
			if len(x.Lhs) != 1 || x.Tok.String() == ":=" {
				return false
			}
			if id, ok := x.Lhs[0].(*ast.Ident); !ok || id.Name != "it" {
				return false
			}
			bad := false
			for _, rhs := range x.Rhs {
				ast.Inspect(rhs, func(n ast.Node) bool {
					if _, isLit := n.(*ast.FuncLit); isLit {
						bad = true
					}
					return true
				})
			}
			if bad {
				return false
			}
		case *ast.IfStmt:
			if x.Init != nil || !armFallsThrough(x.Body.List) {
				return false
			}
			switch e := x.Else.(type) {
			case nil:
			case *ast.BlockStmt:
				if !armFallsThrough(e.List) {
					return false
				}
			case *ast.IfStmt:
				if !armFallsThrough([]ast.Stmt{e}) {
					return false
				}
			default:
				return false
			}
		default:
			return false
		}
	}
	return true
}

func unReceiver(s string) string { return strings.ReplaceAll(s, "r.numbs", "numbs") }

func extract(repo, leanDir string) {
	f := gofacts.MustLoad(repo, "remap/remap.go")
	var notes []string
	note := func(ok bool, what string) bool {
		if !ok {
			notes = append(notes, what)
		}
		return ok
	}
	var funcs []c17syn.Func

	// ---- NewReMap
	lastForced := false
	newShape := false
	if fd := f.Func("", "NewReMap"); fd != nil && fd.Body != nil {
		var loopExpr, loopVarT string
		var shape []string
		for _, st := range fd.Body.List {
			src := f.Src(st)
			if fs, ok := st.(*ast.ForStmt); ok && len(fs.Body.List) == 1 {
				if as, ok := fs.Body.List[0].(*ast.AssignStmt); ok && len(as.Lhs) == 1 && len(as.Rhs) == 1 && f.Src(as.Lhs[0]) == "r.nps[i]" && as.Tok.String() == "=" {
					loopExpr = c17syn.Print(f.Fset, as.Rhs[0])
					head := strings.TrimSuffix(f.Src(&ast.ForStmt{Init: fs.Init, Cond: fs.Cond, Post: fs.Post, Body: &ast.BlockStmt{}}), "{ }")
					head = strings.TrimSpace(head)
					if head == "for i := uint64(0); i < r.numbs; i++" {
						loopVarT = "uint64"
					}
					src = head + " { r.nps[i] = <kernel> }"
				}
			}
			shape = append(shape, src)
		}
		want := []string{"var r = &ReMap{}", "var o = &_Option{prime: DefaultPrime}", "for _, opt := range opts { opt(o) }", "r.numbs = o.prime",
			"var x uint64 = math.MaxUint64", "var y = x / r.numbs", "r.nps = make([]uint64, r.numbs)",
			"for i := uint64(0); i < r.numbs; i++ { r.nps[i] = <kernel> }"}
		tail := shape
		if len(shape) >= len(want) {
			tail = shape[len(want):]
		}
		okPrefix := len(shape) >= len(want) && strings.Join(shape[:len(want)], "\n") == strings.Join(want, "\n")
		switch strings.Join(tail, "\n") {
		case "r.nps[r.numbs-1] = math.MaxUint64\nreturn r":
			lastForced = true
			newShape = okPrefix
		case "return r":
			newShape = okPrefix
		}
		note(newShape, "NewReMap")
		if loopExpr != "" && loopVarT != "" {
			funcs = append(funcs,
				c17syn.Func{Name: "npsY", Params: "numbs uint64", Result: "uint64", Body: "var x uint64 = math.MaxUint64\nvar y = x / numbs\nreturn y"},
				c17syn.Func{Name: "npsAt", Params: "y uint64, i " + loopVarT + ", numbs uint64", Result: "uint64", Body: "return " + unReceiver(loopExpr)})
		}
	}

	// the ReMap is immutable after construction: no other function assigns numbs / nps (routing has no hidden state)
	for _, d := range f.AST.Decls {
		if fd, ok := d.(*ast.FuncDecl); ok && fd.Body != nil && fd.Name.Name != "NewReMap" {
			ast.Inspect(fd.Body, func(n ast.Node) bool {
				switch x := n.(type) {
				case *ast.AssignStmt:
					for _, l := range x.Lhs {
						if ls := f.Src(l); strings.HasPrefix(ls, "r.nps") || strings.HasPrefix(ls, "r.numbs") {
							newShape = note(false, "ReMap mutated in "+fd.Name.Name)
						}
					}
				case *ast.IncDecStmt:
					if ls := f.Src(x.X); strings.HasPrefix(ls, "r.nps") || strings.HasPrefix(ls, "r.numbs") {
						newShape = note(false, "ReMap mutated in "+fd.Name.Name)
					}
				}
				return true
			})
		}
	}

	// ---- SearchIndex / SearchUInt64s
	pred := "unknown"
	switch f.Body("", "SearchUInt64s") {
	case "{ return sort.Search(len(a), func(i int) bool { return a[i] >= x }) }":
		pred = "ge"
	case "{ return sort.Search(len(a), func(i int) bool { return a[i] > x }) }":
		pred = "gt"
	}
	searchShape := false
	if fd := f.Func("ReMap", "SearchIndex"); fd != nil && fd.Body != nil && len(fd.Body.List) >= 2 {
		if f.Src(fd.Body.List[0]) == "var i = SearchUInt64s(r.nps, x)" && pred != "unknown" &&
			f.Src(fd.Type) == "func(x uint64) int" {
			searchShape = true
			var rest []string
			for _, st := range fd.Body.List[1:] {
				rest = append(rest, unReceiver(c17syn.Print(f.Fset, st)))
			}
			funcs = append(funcs, c17syn.Func{Name: "searchClamp", Params: "i int, numbs uint64", Result: "int", Body: strings.Join(rest, "\n")})
		}
	}
	note(searchShape, "SearchIndex")

	// ---- SimpleIndex
	var arms []string // Lean KType constructors, in source order
	type armK struct {
		kt, name string
		w        int
	}
	var armKernels []armK
	simpleShape := false
	if fd := f.Func("ReMap", "SimpleIndex"); fd != nil && fd.Body != nil && len(fd.Body.List) == 3 {
		ts, isTS := fd.Body.List[1].(*ast.TypeSwitchStmt)
		okHead := f.Src(fd.Body.List[0]) == "var it uint64" && isTS && f.Src(ts.Assign) == "v := i.(type)"
		okTail := false
		if rs, ok := fd.Body.List[2].(*ast.ReturnStmt); ok && len(rs.Results) == 1 {
			funcs = append(funcs, c17syn.Func{Name: "simpleTail", Params: "it uint64, numbs uint64", Result: "int", Body: unReceiver(c17syn.Print(f.Fset, rs))})
			okTail = true
		}
		okDefault := false
		if isTS {
			for _, cl := range ts.Body.List {
				cc := cl.(*ast.CaseClause)
				if cc.List == nil {
					okDefault = len(cc.Body) == 1 && f.Src(cc.Body[0]) == "return r.XHashIndex(i)"
					continue
				}
				for _, te := range cc.List {
					tn := f.Src(te)
					at, known := armTypes[tn]
					if !known || len(cc.List) != 1 {
						arms = append(arms, "other")
						continue
					}
					// The arm is lifted into `func arm_T(v T) uint64 { var it uint64; <arm>; return it }`. That is faithful only if
					// the arm falls through to the code after the switch: it may assign to `it` (also under if/else) and nothing
					// else — a `return`, `panic`, `goto`, `break`, `fallthrough`, a call statement, a write to anything but `it`
					// would mean something else inside the kernel than inside SimpleIndex. Such an arm is unclassified.
					if !armFallsThrough(cc.Body) {
						arms = append(arms, "other")
						notes = append(notes, "SimpleIndex arm "+tn+": a statement other than an assignment to `it`")
						continue
					}
					arms = append(arms, at.kt)
					var body []string
					for _, st := range cc.Body {
						body = append(body, c17syn.Print(f.Fset, st))
					}
					name := "arm_" + at.kt
					funcs = append(funcs, c17syn.Func{Name: name, Params: "v " + tn, Result: "uint64", Body: "var it uint64\n" + strings.Join(body, "\n") + "\nreturn it"})
					armKernels = append(armKernels, armK{at.kt, name, at.w})
				}
			}
		}
		simpleShape = okHead && okTail && okDefault
	}
	note(simpleShape, "SimpleIndex")

	// ---- XHashIndex / XXHash
	xhashShape := note(f.Body("ReMap", "XHashIndex") == "{ return r.SearchIndex(XXHash(i)) }", "XHashIndex") &&
		note(f.Body("", "XXHash") == "{ switch v := i.(type) { case string: return xxhash.Sum64String(v) default: return xxhash.Sum64(ToBytes(i)) } }", "XXHash") &&
		note(f.Body("ReMap", "Numbs") == "{ return r.numbs }", "Numbs")

	// ---- ToBytes: the WHOLE canonical body must be one of the two known shapes
	hitHashable := false
	toBytesShape := false
	switch f.Canon(f.Func("", "ToBytes")) {
	case toBytesToday:
		toBytesShape = true
	case toBytesWithHitGroup:
		toBytesShape, hitHashable = true, true
	}
	note(toBytesShape, "ToBytes: unclassified body")

	// ---- containers
	containers := true
	type cont struct{ file, recv, ctor, field, elem string }
	for _, c := range []cont{
		{"cache/wmap.go", "WideMap", "newWideMap", "ms", "[]*Map"},
		{"cache/wlru.go", "WideLRUCache", "newWideLRUCache", "ls", "[]*LRUCache"},
		{"cache/tiny/wlru.go", "WideLRUCache", "newWideLRUCache", "ls", "[]*LRUCache"},
		{"syncx/keylock/group.go", "KeyLockerGrp", "newKeyLockeGrp", "ls", "[]*KeyLocker"},
		{"syncx/keylock/tgroup.go", "TKeyLockerGrp", "newTKeyLockeGrp", "ls", "[]*TKeyLocker[T]"},
		{"syncx/semap/wmap.go", "WideSemMap", "newWideSemMap", "ms", "[]*SemMap"},
	} {
		cf := gofacts.MustLoad(repo, c.file)
		ck := cf.Body(c.recv, "calculateKey")
		rv := "w"
		if c.recv == "WideSemMap" {
			rv = "s"
		}
		ok := ck == "{ var i = "+rv+".calKeyFn(key) return "+rv+"."+c.field+"[i] }"
		ctor := cf.Body("", c.ctor)
		ok = ok && gofacts.Has(ctor, "var numbs = w.rehash.Numbs() w."+c.field+" = make("+c.elem+", numbs) ") &&
			gofacts.Has(ctor, " for i := uint64(0); i < numbs; i++ { w."+c.field+"[i] = ") &&
			gofacts.Has(ctor, "if useXHash { w.calKeyFn = w.rehash.XHashIndex } else { w.calKeyFn = w.rehash.SimpleIndex } return w }")
		if c.recv == "WideSemMap" {
			ok = ok && gofacts.Has(ctor, "if prime > 0 { w.rehash = remap.NewReMap(remap.WithPrime(prime)) } else { w.rehash = remap.NewReMap() }")
		} else {
			ok = ok && gofacts.Has(ctor, "w.rehash = remap.NewReMap(opts...)")
		}
		// every method of the sharded type: (1) no routing call of its own — `rehash` is touched only by the constructor;
		// (2) keyed methods are pure delegations `shard(key).SameMethod(args…)`; (3) the multi-key paths of tgroup have the
		// exact shape the model was written against (indices only from calKeyFn via calculateSortedMultiKeys).
		multi := map[string]string{
			"Locks":                    "{ var ms = w.calculateSortedMultiKeys(keys) var ws = make([]*wrapLocker, 0, len(keys)) for _, ks := range ms { ws = append(ws, w.ls[ks.index].getWriteLocks(ks.ks)...) } for _, wr := range ws { wr.rwLocker.Lock() } }",
			"RLocks":                   "{ var ms = w.calculateSortedMultiKeys(keys) var ws = make([]*wrapLocker, 0, len(keys)) for _, ks := range ms { ws = append(ws, w.ls[ks.index].getReadLocks(ks.ks)...) } for _, wr := range ws { wr.rwLocker.RLock() } }",
			"Unlocks":                  "{ var m = w.calculateSortedMultiKeys(keys) for _, ks := range m { w.ls[ks.index].Unlocks(ks.ks) } }",
			"RUnlocks":                 "{ var m = w.calculateSortedMultiKeys(keys) for _, ks := range m { w.ls[ks.index].RUnlocks(ks.ks) } }",
			"calculateSortedMultiKeys": "{ var m = make(map[int][]T) for _, key := range keys { var i = w.calKeyFn(key) m[i] = append(m[i], key) } var ms = make([]multiKeyT[T], 0, len(m)) for i, ks := range m { ms = append(ms, multiKeyT[T]{index: i, ks: ks}) } slices.SortFunc[multiKeyT[T]](ms, func(a, b multiKeyT[T]) bool { return a.index < b.index }) return ms }",
		}
		for _, d := range cf.AST.Decls {
			fd, isF := d.(*ast.FuncDecl)
			if !isF || fd.Body == nil {
				continue
			}
			body := cf.Src(fd.Body)
			if fd.Name.Name == c.ctor {
				// the only uses of the ReMap: construction, Numbs(), and handing ONE index function to calKeyFn
				rest := body
				for _, allowed := range []string{"w.rehash = remap.NewReMap(remap.WithPrime(prime))", "w.rehash = remap.NewReMap(opts...)", "w.rehash = remap.NewReMap()",
					"w.rehash.Numbs()", "w.calKeyFn = w.rehash.XHashIndex", "w.calKeyFn = w.rehash.SimpleIndex"} {
					rest = strings.ReplaceAll(rest, allowed, "")
				}
				if strings.Contains(rest, "rehash") || strings.Contains(rest, "calKeyFn") || strings.Contains(rest, "remap.") {
					ok = note(false, "container:"+c.file+":"+fd.Name.Name+":routing outside the configured index function")
				}
				continue
			}
			if strings.Contains(body, "rehash") || strings.Contains(body, "remap.") || strings.Contains(body, "SimpleIndex") || strings.Contains(body, "XHashIndex") || strings.Contains(body, "SearchIndex") {
				ok = note(false, "container:"+c.file+":"+fd.Name.Name+":routing outside the configured index function")
			}
			if fd.Recv == nil || !strings.Contains(cf.Src(fd.Recv.List[0].Type), c.recv) || fd.Name.Name == "calculateKey" {
				continue
			}
			if want, isMulti := multi[fd.Name.Name]; isMulti && c.recv == "TKeyLockerGrp" {
				if body != want {
					ok = note(false, "container:"+c.file+":"+fd.Name.Name+":shape")
				}
				continue
			}
			// pure delegation to the same method of the key's shard, arguments passed through in order
			var args []string
			for _, fl := range fd.Type.Params.List {
				for _, nm := range fl.Names {
					args = append(args, nm.Name)
				}
			}
			call := rv + ".calculateKey(key)." + fd.Name.Name + "(" + strings.Join(args, ", ") + ")"
			if body != "{ "+call+" }" && body != "{ return "+call+" }" {
				ok = note(false, "container:"+c.file+":"+fd.Name.Name+":not a delegation to the shard's "+fd.Name.Name)
			}
		}
		containers = note(ok, "container:"+c.file) && containers
	}

	// ---- cache/map.go: the shard type of WideMap and the unsharded map — every function by whole canonical text
	{
		mf := gofacts.MustLoad(repo, "cache/map.go")
		got := map[string]string{}
		for _, d := range mf.AST.Decls {
			if fd, ok := d.(*ast.FuncDecl); ok {
				nm := fd.Name.Name
				if fd.Recv != nil {
					nm = "." + nm
				}
				got[nm] = mf.Canon(fd)
			}
		}
		okMap := true
		for nm, want := range mapShapes {
			if got[nm] != want {
				okMap = note(false, "cache/map.go:"+strings.TrimPrefix(nm, ".")+": unclassified body")
			}
		}
		for nm := range got {
			if _, known := mapShapes[nm]; !known {
				okMap = note(false, "cache/map.go:"+strings.TrimPrefix(nm, ".")+": function the model does not know")
			}
		}
		containers = okMap && containers
	}

	// ---- kernels
	lean, errs := c17syn.Translate([]string{"math"}, funcs, "type HitGroup interface{ Hit() uint64 }")
	translated := len(errs) == 0 && len(funcs) > 0
	have := map[string]bool{}
	for _, fn := range funcs {
		if errs[fn.Name] == nil {
			have[fn.Name] = true
		}
	}
	for _, need := range []string{"npsY", "npsAt", "searchClamp", "simpleTail"} {
		if !have[need] {
			translated = false
		}
	}
	var b strings.Builder
	b.WriteString("import Nv.Model.C17\nset_option linter.unusedVariables false\n")
	b.WriteString("/-! GENERATED by `c17 extract` from remap/remap.go and the six sharded containers — do not edit. -/\nnamespace Nv.Gen.C17\n")
	fmt.Fprintf(&b, "def cfg : Nv.C17.Cfg := ⟨%s, .%s⟩\n", gofacts.LeanBool(lastForced), pred)
	var armList []string
	for _, a := range arms {
		armList = append(armList, "."+a)
	}
	fmt.Fprintf(&b, "/-- `ToBytes` has a `HitGroup` arm: a HitGroup-only key can be hashed (xxhash routing) -/\ndef hitHashable : Bool := %s\n", gofacts.LeanBool(hitHashable))
	fmt.Fprintf(&b, "def facts : Nv.C17.Facts := ⟨%s, %s, [%s], %s, %s, %s, %s, %s⟩\n\n", gofacts.LeanBool(newShape), gofacts.LeanBool(searchShape),
		strings.Join(armList, ", "), gofacts.LeanBool(simpleShape), gofacts.LeanBool(xhashShape), gofacts.LeanBool(toBytesShape), gofacts.LeanBool(containers), gofacts.LeanBool(translated))
	b.WriteString(lean)
	// fall-backs keep the oracle compiling when a kernel left the translatable subset (kernelsTranslated = false breaks the tie)
	fallback := map[string]string{
		"npsY":        "def npsY (numbs : BitVec 64) : BitVec 64 := 0#64\n",
		"npsAt":       "def npsAt (y : BitVec 64) (i : BitVec 64) (numbs : BitVec 64) : BitVec 64 := 0#64\n",
		"searchClamp": "def searchClamp (i : BitVec 64) (numbs : BitVec 64) : BitVec 64 := 0#64\n",
		"simpleTail":  "def simpleTail (it : BitVec 64) (numbs : BitVec 64) : BitVec 64 := 0#64\n",
	}
	for _, need := range []string{"npsY", "npsAt", "searchClamp", "simpleTail"} {
		if !have[need] {
			b.WriteString(fallback[need])
		}
	}
	b.WriteString("/-- the arms of `SimpleIndex`'s type switch: conversion of the key's bits to `uint64`; `none` = `default:` -/\n")
	b.WriteString("def simpleArm : Nv.C17.KType → Nat → Option (BitVec 64)\n")
	seen := map[string]bool{}
	for _, a := range armKernels {
		if !have[a.name] || seen[a.kt] {
			continue
		}
		seen[a.kt] = true
		fmt.Fprintf(&b, "  | .%s, b => some (%s (BitVec.ofNat %d b))\n", a.kt, a.name, a.w)
	}
	b.WriteString("  | _, _ => none\n\nend Nv.Gen.C17\n")
	if err := gofacts.WriteIfChanged(filepath.Join(leanDir, "Nv/Gen/C17.lean"), b.String()); err != nil {
		fmt.Fprintln(os.Stderr, err)
		os.Exit(2)
	}
	fmt.Printf("extract C17: cfg=⟨lastForcedMax=%v, pred=%s⟩ hitHashable="+gofacts.LeanBool(hitHashable)+" toBytes="+gofacts.LeanBool(toBytesShape)+" arms=%v shapes(new,search,simple,xhash,containers)=%v,%v,%v,%v,%v kernels=%v errs=%v unclassified=%v\n",
		lastForced, pred, arms, newShape, searchShape, simpleShape, xhashShape, containers, translated, errs, notes)
}
