package main

import (
	"encoding/hex"
	"fmt"
	"go/ast"
	"go/parser"
	"go/token"
	"math"
	"os"
	"path/filepath"
	"reflect"
	"runtime"
	"sort"
	"strconv"
	"strings"
	"sync"

	"github.com/pinealctx/neptune/remap"

	"nvharness/lib/corr"
	"nvharness/lib/rng"
)

var shardCounts = []uint64{1, 2, 3, 4, 6, 9, 10, 64, 73, 211, 1000}

var intTypes = []struct {
	ty     string
	lo, hi int64
	umax   uint64
}{
	{"u8", 0, 255, 0}, {"i8", -128, 127, 0}, {"i16", -32768, 32767, 0}, {"u16", 0, 65535, 0},
	{"i32", math.MinInt32, math.MaxInt32, 0}, {"u32", 0, math.MaxUint32, 0},
	{"i64", math.MinInt64, math.MaxInt64, 0}, {"int", math.MinInt64, math.MaxInt64, 0},
	{"u64", 0, 0, math.MaxUint64}, {"uint", 0, 0, math.MaxUint64}, {"hit", 0, 0, math.MaxUint64},
}

func randKey(r *rng.R, allowBytes bool) string {
	x := r.Intn(100)
	switch {
	case x < 70:
		t := intTypes[r.Intn(len(intTypes))]
		if mc := minedConstants(); len(mc) > 0 && r.Chance(1, 5) {
			// a constant written into the source of remap / the wrappers (±1, also negated): thresholds and "reserved" values
			c := mc[r.Intn(len(mc))]
			if t.umax != 0 {
				return keyToken(t.ty, strconv.FormatUint(c+uint64(r.Intn(3))-1, 10))
			}
			v := int64(c) + int64(r.Intn(3)) - 1
			if r.Chance(1, 4) {
				v = -v
			}
			if c <= uint64(t.hi) && v >= t.lo && v <= t.hi {
				return keyToken(t.ty, strconv.FormatInt(v, 10))
			}
		}
		if t.umax != 0 {
			var v uint64
			switch r.Intn(6) {
			case 0:
				v = 0
			case 1:
				v = t.umax
			case 2:
				v = t.umax - uint64(r.Intn(3))
			case 3:
				v = uint64(r.Intn(2000))
			case 4:
				v = 1<<63 + uint64(r.Intn(3)) - 1
			default:
				v = r.U64()
			}
			return keyToken(t.ty, strconv.FormatUint(v, 10))
		}
		var v int64
		switch r.Intn(7) {
		case 0:
			v = t.lo
		case 1:
			v = t.hi
		case 2:
			v = -1
		case 3:
			v = 0
		case 4:
			v = int64(r.Intn(2000)) - 1000
		case 5:
			v = t.lo + int64(r.Intn(3))
		default:
			span := uint64(t.hi-t.lo) + 1
			if span == 0 {
				v = r.I64()
			} else {
				v = t.lo + int64(r.U64()%span)
			}
		}
		if v < t.lo {
			v = t.lo
		}
		if v > t.hi {
			v = t.hi
		}
		return keyToken(t.ty, strconv.FormatInt(v, 10))
	case x < 97:
		ty := r.Pick("str", "str", "bs", "bytes")
		if ty == "bytes" && !allowBytes {
			ty = "str"
		}
		n := r.PickInt(0, 1, 3, 8, 17, 40, 64, 65, 300, 4096)
		b := make([]byte, n)
		for i := range b {
			b[i] = byte(r.Intn(256))
		}
		if r.Chance(1, 3) {
			b = []byte(fmt.Sprintf("user:%d", r.Intn(50)))
		}
		return keyToken(ty, hex.EncodeToString(b))
	default:
		if allowBytes {
			return "other:0:0"
		}
		return keyToken("str", "")
	}
}

func fixedCases() []corr.Case {
	mk := func(tag string, lines ...string) corr.Case { return corr.Case{Tag: tag, Lines: lines} }
	var out []corr.Case
	// the whole partition of the default 73 shards and of small / non-prime counts: every boundary and its neighbours
	for _, n := range []uint64{1, 2, 3, 7, 64, 73, 211, 1000} {
		lines := []string{fmt.Sprintf("remap %d", n), "search 0", "search 1", fmt.Sprintf("search %d", uint64(math.MaxUint64)), fmt.Sprintf("search %d", uint64(math.MaxUint64-1))}
		y := uint64(math.MaxUint64) / n
		for i := uint64(0); i < n; i++ {
			b := y * (i + 1)
			lines = append(lines, fmt.Sprintf("search %d", b-1), fmt.Sprintf("search %d", b))
			if b != math.MaxUint64 {
				lines = append(lines, fmt.Sprintf("search %d", b+1))
			}
		}
		out = append(out, mk("fixed-partition", lines...))
	}
	// extreme integer keys of every width
	for _, n := range []uint64{1, 2, 73, 1000} {
		lines := []string{fmt.Sprintf("remap %d", n)}
		for _, t := range intTypes {
			if t.umax != 0 {
				for _, v := range []uint64{0, 1, t.umax, t.umax - 1, 1 << 63, 1<<63 - 1} {
					lines = append(lines, "simple "+keyToken(t.ty, strconv.FormatUint(v, 10)), "xhash "+keyToken(t.ty, strconv.FormatUint(v, 10)))
				}
				continue
			}
			for _, v := range []int64{t.lo, t.lo + 1, -1, 0, 1, t.hi - 1, t.hi} {
				lines = append(lines, "simple "+keyToken(t.ty, strconv.FormatInt(v, 10)), "xhash "+keyToken(t.ty, strconv.FormatInt(v, 10)))
			}
		}
		for _, s := range []string{"", "61", "68656c6c6f", "00ff"} {
			for _, ty := range []string{"str", "bytes", "bs"} {
				lines = append(lines, "simple "+keyToken(ty, s), "xhash "+keyToken(ty, s))
			}
		}
		lines = append(lines, "simple other:0:0", "xhash other:0:0")
		out = append(out, mk("fixed-keys", lines...))
	}
	// known answers of XXH64 (reference implementation): "", "a", and three keys as the package hashes them today
	out = append(out, mk("fixed-xxhash-known-answers", "remap 73", "xhash str::17241709254077376921", "xhash str:61:15154266338359012955",
		"xhash str:757365723a3432:15861654238046376386", "xhash i64:-1:9642548396912002761", "xhash u8:7:12208272383309036471", "xhash bytes:61:15154266338359012955"))
	out = append(out, mk("fixed-default-after-configured", "remap 5", "search 7", "remap d", "search 0", "search 18446744073709551615", "simple "+keyToken("int", "74"), "xhash "+keyToken("str", "61"), "remap 2", "remap d", "search 252695124297391419"))
	out = append(out, mk("fixed-bulk", "cont map 73 simple", "bset 0 2000", "bdel 0 1600", "bprobe 1600 400", "bprobe 0 2000", "bset 1 1", "bprobe 0 3", "cont map 3 xhash", "bset 0 5", "bdel 0 0"))
	out = append(out,
		mk("fixed-malformed", "reset", "search 1", "remap", "remap x", "remap 0", "search 1", "remap 3", "search", "search -1", "search 18446744073709551616",
			"simple u8:256:0", "simple i8:-129:0", "simple i8:-0:0", "simple str:6:0", "simple str:6G:0", "simple u8:1", "simple q:1:0", "xhash other:1:0", "frob",
			"set u8:1:0 1", "lk u8:1:0", "cont map 0 simple", "cont heap 3 simple", "cont map 3 mod", "cont map 3 simple", "peek u8:1:0", "set bytes:00:0 1", "set u8:1:0", "search 5", "lock semap 3 simple", "lk bytes:00:0", "get u8:1:0"),
		mk("fixed-container", "cont map 3 simple", "set i8:-1:0 1", "set i16:-1:0 2", "get i8:-1:0", "get i16:-1:0", "exist u8:255:0", "del i8:-1:0", "get i8:-1:0", "del i8:-1:0"),
	)
	// the same key through every API of a typed locker group, xxhash routing (single-key and one-element multi-key calls
	// must meet on the same shard); a wide LRU whose Exist/Peek must not refresh recency
	for _, rt := range []string{"simple", "xhash"} {
		k5, k9 := keyToken("i64", "5"), keyToken("i64", "-9")
		out = append(out,
			mk("fixed-locks", "locks tklock-i64 73 "+rt, "acq 0 ws "+k5, "acq 1 w "+k5, "rel 0 w "+k5, "rel 1 ws "+k5, "acq 2 rs "+k5+","+k9, "acq 3 r "+k9, "acq 0 w "+k9, "rel 2 r "+k9, "rel 3 rs "+k9, "rel 2 rs "+k5, "rel 0 ws "+k9),
			mk("fixed-locks", "locks tklock-i64 6 "+rt, "acq 0 rs "+k5+","+k9+","+k5, "rel 0 r "+k5, "acq 1 w "+k5, "rel 0 rs "+k5+","+k9, "rel 1 w "+k5, "acq 2 ws "+k5+","+k5, "acq 2 rs "+k9+","+k9, "rel 2 rs "+k9+","+k9),
			mk("fixed-locks", "locks tklock-str 3 "+rt, "acq 0 w "+keyToken("str", "61"), "acq 1 rs "+keyToken("str", "61")+","+keyToken("str", "62"), "rel 0 ws "+keyToken("str", "61"), "rel 1 r "+keyToken("str", "61"), "rel 1 r "+keyToken("str", "62")),
			mk("fixed-locks", "locks klock 2 "+rt, "acq 0 r "+keyToken("int", "7"), "acq 1 r "+keyToken("int", "7"), "acq 2 w "+keyToken("int", "7"), "rel 0 r "+keyToken("int", "7"), "rel 1 r "+keyToken("int", "7"), "rel 2 w "+keyToken("int", "7")),
			mk("fixed-locks", "locks semap 73 "+rt, "acqx 0 w "+keyToken("str", "6b"), "acqd 1 r "+keyToken("str", "6b"), "acqx 1 r "+keyToken("str", "6a"), "acqd 2 r "+keyToken("str", "6a"), "acqx 3 w "+keyToken("str", "6a"),
				"rel 0 w "+keyToken("str", "6b"), "acqd 3 r "+keyToken("str", "6b"), "rel 1 r "+keyToken("str", "6a"), "rel 2 r "+keyToken("str", "6a"), "rel 3 r "+keyToken("str", "6b"), "locks klock 3 "+rt, "acqx 0 w "+keyToken("int", "1")),
			mk("fixed-locks", "locks semap-r2 73 "+rt, "acq 0 r "+keyToken("str", "6b"), "acq 1 r "+keyToken("str", "6b"), "acq 2 r "+keyToken("str", "6a"), "acq 3 r "+keyToken("str", "6b"), "rel 2 r "+keyToken("str", "6a"), "rel 0 r "+keyToken("str", "6b"), "rel 1 r "+keyToken("str", "6b"), "rel 3 r "+keyToken("str", "6b")),
			mk("fixed-locks", "locks semap-r1 3 "+rt, "acq 0 r "+keyToken("int", "7"), "acq 1 r "+keyToken("int", "7"), "rel 0 r "+keyToken("int", "7"), "acq 2 w "+keyToken("int", "7"), "rel 1 r "+keyToken("int", "7"), "rel 2 w "+keyToken("int", "7")),
			mk("fixed-locks", "locks semap 73 "+rt, "acq 0 w "+keyToken("str", "6b"), "acq 1 r "+keyToken("str", "6b"), "rel 0 w "+keyToken("str", "6b"), "acq 2 r "+keyToken("str", "6b"), "acq 3 w "+keyToken("str", "6b"), "rel 1 r "+keyToken("str", "6b"), "rel 2 r "+keyToken("str", "6b"), "rel 3 w "+keyToken("str", "6b")),
		)
		a, b, c := keyToken("int", "1"), keyToken("int", "2"), keyToken("int", "3")
		for _, kd := range []string{"lru", "tlru"} {
			for _, sh := range []string{"1", "2", "3"} {
				out = append(out, mk("fixed-wide-maxcap", "wl "+kd+" 9223372036854775807 "+sh+" "+rt, "set "+a+" 1 1", "set "+b+" 2 1", "get "+a, "exist "+b))
			}
			out = append(out, mk("fixed-wide-lru", "wl "+kd+" 1 1 "+rt, "set "+a+" 1 1", "set "+b+" 2 1", "exist "+a, "peek "+a, "set "+c+" 3 1", "get "+a, "get "+b, "exist "+c, "del "+b, "del "+c, "get "+c))
		}
	}
	return out
}

// ---- generators of the sharded-vs-unsharded classes

var primes = []uint64{1, 2, 3, 73, 4, 6, 9} // 1, primes, and composite counts (a shard count need not be prime)

// collidingInts returns integer keys that share shards under the given routing (a few shards, several keys each).
func collidingInts(r *rng.R, n uint64, xhash bool) []int {
	rm := remap.NewReMap(remap.WithPrime(n))
	by := map[int][]int{}
	start := r.Intn(1000)
	for k := start; k < start+40*int(n) && k < start+3000; k++ {
		i := rm.SimpleIndex(k)
		if xhash {
			i = rm.XHashIndex(k)
		}
		if len(by[i]) < 5 {
			by[i] = append(by[i], k)
		}
	}
	var out []int
	taken := 0
	for i := 0; i < int(n) && taken < 2; i++ {
		if len(by[i]) >= 4 || n <= 3 {
			out = append(out, by[i]...)
			taken++
		}
	}
	if len(out) == 0 {
		for _, ks := range by {
			out = append(out, ks...)
			if len(out) > 8 {
				break
			}
		}
	}
	return out
}

func genWideLRU(r *rng.R, m int) corr.Case {
	n := primes[r.Intn(len(primes))]
	xhash := r.Bool()
	rt := "simple"
	if xhash {
		rt = "xhash"
	}
	kd := r.Pick("lru", "lru", "tlru")
	if r.Chance(1, 3) {
		// per-shard capacities 10…64 with overflow, overwrites of the same size, few shards, many keys per shard
		n = uint64(r.PickInt(1, 2, 3))
		per := r.Range(10, 64)
		capacity := int64(n)*int64(per-1) + int64(r.Intn(int(n)))
		lines := []string{fmt.Sprintf("wl %s %d %d %s", kd, capacity, n, rt)}
		universe := per*int(n) + r.Range(4, 30)
		for j := 0; j < per*int(n)+m; j++ {
			k := keyToken("int", strconv.Itoa(r.Intn(universe)))
			switch x := r.Intn(100); {
			case x < 55:
				lines = append(lines, fmt.Sprintf("set %s %d %d", k, j+1, r.PickInt(1, 1, 1, 1, 2)))
			case x < 70:
				lines = append(lines, "get "+k)
			case x < 80:
				lines = append(lines, "exist "+k)
			case x < 90:
				lines = append(lines, "peek "+k)
			default:
				lines = append(lines, "del "+k)
			}
		}
		return corr.Case{Tag: "wide-" + kd + "-" + rt + "-cap10+", Lines: lines}
	}
	per := r.Range(1, 3)
	capacity := int64(n)*int64(per-1) + int64(r.Intn(int(n)))
	if r.Chance(1, 8) {
		// capacities next to MaxInt64: the per-shard share must not wrap around
		capacity = math.MaxInt64 - int64(r.Intn(4))
	}
	keys := collidingInts(r, n, xhash)
	lines := []string{fmt.Sprintf("wl %s %d %d %s", kd, capacity, n, rt)}
	for j := 0; j < m; j++ {
		k := keyToken("int", strconv.Itoa(keys[r.Intn(len(keys))]))
		switch x := r.Intn(100); {
		case x < 38:
			sz := 1
			if kd == "lru" {
				sz = r.PickInt(0, 1, 1, 1, 2, per, per+1)
			}
			lines = append(lines, fmt.Sprintf("set %s %d %d", k, j+1, sz))
		case x < 52:
			lines = append(lines, "get "+k)
		case x < 64:
			lines = append(lines, "peek "+k)
		case x < 88:
			lines = append(lines, "exist "+k)
		default:
			lines = append(lines, "del "+k)
		}
	}
	return corr.Case{Tag: "wide-" + kd + "-" + rt, Lines: lines}
}

func genLocks(r *rng.R, m int) corr.Case {
	n := primes[r.Intn(len(primes))]
	rt := r.Pick("simple", "xhash")
	kind := r.Pick("klock", "semap", "semap-r1", "semap-r2", "semap-r3", "tklock-i64", "tklock-i64", "tklock-str")
	capR := map[string]int{"semap": 10, "semap-r1": 1, "semap-r2": 2, "semap-r3": 3}[kind]
	var pool []string
	switch kind {
	case "tklock-i64":
		for _, v := range []int64{int64(r.Intn(1000)), -int64(r.Intn(1000)) - 1, r.I64()} {
			pool = append(pool, keyToken("i64", strconv.FormatInt(v, 10)))
		}
	case "tklock-str":
		for j := 0; j < 3; j++ {
			pool = append(pool, keyToken("str", hex.EncodeToString([]byte(fmt.Sprintf("k%d", r.Intn(500))))))
		}
	default:
		pool = []string{keyToken("int", strconv.Itoa(r.Intn(1000))), keyToken("str", hex.EncodeToString([]byte(fmt.Sprintf("u%d", r.Intn(500))))), keyToken("u8", strconv.Itoa(r.Intn(256)))}
	}
	if pool[0] == pool[1] || pool[1] == pool[2] || pool[0] == pool[2] {
		pool = pool[:1]
	}
	multiOK := strings.HasPrefix(kind, "tklock")
	type h struct {
		t     int
		k     string
		write bool
	}
	var holds []h
	var wait *struct {
		t     int
		ks    []string
		write bool
	}
	free := func(k string, write bool) bool {
		readers := 0
		for _, x := range holds {
			if x.k == k && (write || x.write) {
				return false
			}
			if x.k == k {
				readers++
			}
		}
		return write || capR == 0 || readers < capR
	}
	api := func(write, multi bool) string {
		s := "r"
		if write {
			s = "w"
		}
		if multi {
			s += "s"
		}
		return s
	}
	lines := []string{fmt.Sprintf("locks %s %d %s", kind, n, rt)}
	for j := 0; j < m; j++ {
		if (r.Chance(1, 2) || wait != nil) && len(holds) > 0 {
			// release: one hold, or (typed groups) all holds of a thread in one mode through the multi-key API
			x := holds[r.Intn(len(holds))]
			if wait != nil && wait.t == x.t {
				continue
			}
			ks := []string{x.k}
			multi := multiOK && r.Chance(1, 2)
			if multi && r.Chance(1, 2) {
				for _, y := range holds {
					if y.t == x.t && y.write == x.write && y.k != x.k {
						ks = append(ks, y.k)
					}
				}
			}
			lines = append(lines, fmt.Sprintf("rel %d %s %s", x.t, api(x.write, multi), strings.Join(ks, ",")))
			var rest []h
			left := map[string]int{}
			for _, k := range ks {
				left[k]++
			}
			for _, y := range holds {
				if y.t == x.t && y.write == x.write && left[y.k] > 0 {
					left[y.k]-- // one hold per mention
					continue
				}
				rest = append(rest, y)
			}
			holds = rest
			if wait != nil {
				ok := true
				for _, k := range wait.ks {
					if !free(k, wait.write) {
						ok = false
					}
				}
				if ok {
					for _, k := range wait.ks {
						holds = append(holds, h{wait.t, k, wait.write})
					}
					wait = nil
				}
			}
			continue
		}
		if wait != nil {
			continue
		}
		t := r.Intn(4)
		write := r.Chance(1, 2)
		if capR > 0 && capR < 10 {
			write = r.Chance(1, 4) // mostly readers: the ratio is reached
		}
		multi := multiOK && r.Chance(1, 2)
		ks := []string{pool[r.Intn(len(pool))]}
		if multi && r.Chance(1, 2) {
			ks = append([]string{}, pool[:r.Range(1, len(pool))]...)
		}
		if multi && !write && r.Chance(1, 3) {
			ks = append(ks, ks[r.Intn(len(ks))]) // a READ list may name a key twice: it is then held twice
		}
		bad := false
		for _, x := range holds {
			for _, k := range ks {
				if x.t == t && x.k == k {
					bad = true
				}
			}
		}
		if bad {
			continue
		}
		if capR > 0 && r.Chance(1, 5) {
			// semaphore maps: the request carries a context that is already cancelled / expired — a free key is granted all the
			// same, a held one refused without queueing
			okx := free(ks[0], write)
			lines = append(lines, fmt.Sprintf("%s %d %s %s", r.Pick("acqx", "acqd"), t, api(write, false), ks[0]))
			if okx {
				holds = append(holds, h{t, ks[0], write})
			}
			continue
		}
		lines = append(lines, fmt.Sprintf("acq %d %s %s", t, api(write, multi), strings.Join(ks, ",")))
		ok := true
		for _, k := range ks {
			if !free(k, write) {
				ok = false
			}
		}
		if ok {
			for _, k := range ks {
				holds = append(holds, h{t, k, write})
			}
		} else {
			wait = &struct {
				t     int
				ks    []string
				write bool
			}{t, ks, write}
		}
	}
	return corr.Case{Tag: "locks-" + kind + "-" + rt, Lines: lines}
}

func genCase(r *rng.R, tier string, i int) corr.Case {
	n := shardCounts[r.Intn(len(shardCounts))]
	if r.Chance(1, 4) {
		n = uint64(r.Range(1, 5000))
	}
	m := r.Range(20, 60)
	cls := r.Intn(100)
	if tier != "quick" && (cls == 92 || cls == 93) && !r.Chance(1, 6) {
		cls = 0 // the two expensive classes (child processes, thousands of keys) keep their absolute number in the big tiers
	}
	switch {
	case cls >= 64 && cls < 76: // wide LRU against one plain LRU per shard (small per-shard capacity, colliding keys)
		return genWideLRU(r, m)
	case cls >= 76 && cls < 92: // lock groups against one unsharded locker, all APIs mixed on the same keys
		return genLocks(r, m)
	case cls == 93: // thousands of keys on a sharded container and its unsharded twin: mass insertion, mass deletion, probes
		kind := r.Pick("map", "map", "lru", "tlru")
		cn := []uint64{1, 3, 64, 73, 211}[r.Intn(5)]
		total := r.Range(1500, 3000)
		for _, c := range minedConstants() {
			if c >= 64 && c <= 6000 && r.Chance(1, 3) {
				total = int(c)*2 - r.Intn(3) // twice a threshold written into the source: grow past it, shrink far below it
			}
		}
		lines := []string{fmt.Sprintf("cont %s %d simple", kind, cn), fmt.Sprintf("bset 0 %d", total), fmt.Sprintf("bprobe 0 %d", total+5)}
		gone := total * r.Range(70, 95) / 100
		lines = append(lines, fmt.Sprintf("bdel 0 %d", gone), fmt.Sprintf("bprobe 0 %d", total+5), fmt.Sprintf("bprobe %d %d", gone, total-gone),
			fmt.Sprintf("bset %d %d", gone/2, 50), fmt.Sprintf("bprobe 0 %d", total), fmt.Sprintf("bdel 0 %d", total+5), fmt.Sprintf("bprobe 0 %d", total))
		return corr.Case{Tag: "bulk-" + kind, Lines: lines}
	case cls == 92: // concurrent first users of a fresh router / xxhash container (child process)
		big := []uint64{73, 1000, 4096, 50000, 200000, 1 << 20}
		return corr.Case{Tag: "first-use", Lines: []string{"reset", fmt.Sprintf("firstuse %d %d %d", big[r.Intn(len(big))], r.Range(5, 30), r.Range(2, 8))}}
	case cls < 25: // routing of keys of every type
		lines := []string{fmt.Sprintf("remap %d", n)}
		if r.Chance(1, 4) {
			lines = append(lines, "search 12345", "remap d") // a router built with NO option after a configured one: 73 shards all the same
		}
		for j := 0; j < m; j++ {
			lines = append(lines, r.Pick("simple", "simple", "xhash")+" "+randKey(r, true))
		}
		return corr.Case{Tag: "route-keys", Lines: lines}
	case cls < 40: // the partition: boundaries and random hashes
		lines := []string{fmt.Sprintf("remap %d", n)}
		y := uint64(math.MaxUint64) / n
		for j := 0; j < m; j++ {
			var x uint64
			switch r.Intn(6) {
			case 0, 1:
				x = y*(uint64(r.Intn(int(n)))+1) + uint64(r.Intn(3)) - 1
			case 2:
				x = uint64(math.MaxUint64) - uint64(r.Intn(4))
			case 3:
				x = uint64(r.Intn(4))
			case 4:
				x = y*n + uint64(r.Intn(int(n)+1)) // between the last computed boundary and MaxUint64
				if mc := minedConstants(); len(mc) > 0 && r.Chance(1, 3) {
					x = mc[r.Intn(len(mc))] + uint64(r.Intn(3)) - 1
				}
			default:
				x = r.U64()
			}
			lines = append(lines, fmt.Sprintf("search %d", x))
		}
		return corr.Case{Tag: "partition", Lines: lines}
	case cls < 56: // sharded container against its unsharded twin
		kind := r.Pick("map", "map", "lru", "tlru")
		cn := n
		if cn > 4096 {
			cn = 73
		}
		lines := []string{fmt.Sprintf("cont %s %d %s", kind, cn, r.Pick("simple", "xhash"))}
		var pool []string
		for j := 0; j < 8; j++ {
			pool = append(pool, randKey(r, false))
		}
		// the same numeric value under different types must stay different keys
		pool = append(pool, keyToken("i8", "-1"), keyToken("i64", "-1"), keyToken("u8", "255"), keyToken("int", "-1"))
		for j := 0; j < m; j++ {
			k := pool[r.Intn(len(pool))]
			switch x := r.Intn(10); {
			case x < 4:
				lines = append(lines, fmt.Sprintf("set %s %d", k, j+1))
			case x < 6:
				lines = append(lines, "get "+k)
			case x < 7:
				if kind == "map" {
					lines = append(lines, "get "+k)
				} else {
					lines = append(lines, "peek "+k)
				}
			case x < 8:
				lines = append(lines, "exist "+k)
			default:
				lines = append(lines, "del "+k)
			}
		}
		return corr.Case{Tag: "container-" + kind, Lines: lines}
	case cls < 64: // key lockers and semaphore maps: one key of ANY type (extremes included), acquire+release twice through the group
		kind := r.Pick("klock", "semap", "tklock-i64", "tklock-str")
		cn := n
		if cn > 4096 {
			cn = 73
		}
		lines := []string{fmt.Sprintf("lock %s %d %s", kind, cn, r.Pick("simple", "xhash"))}
		for j := 0; j < m/3; j++ {
			k := randKey(r, false)
			switch kind {
			case "tklock-i64":
				k = keyToken("i64", strconv.FormatInt(r.PickI64(math.MinInt64, -1, 0, 1, math.MaxInt64, r.I64()), 10))
			case "tklock-str":
				k = keyToken("str", hex.EncodeToString([]byte(fmt.Sprintf("k%d", r.Intn(100)))))
			}
			lines = append(lines, r.Pick("lk", "rlk")+" "+k)
		}
		return corr.Case{Tag: "single-lock-" + kind, Lines: lines}
	default:
		lines := []string{fmt.Sprintf("remap %d", r.Range(0, 4))}
		for j := 0; j < m/2; j++ {
			lines = append(lines, r.Pick("search x", "search", "simple u8:300:0", "simple i16:-40000:1", "xhash str:zz:0", "simple u64:18446744073709551616:0",
				"search 7", "simple "+randKey(r, true), "xhash "+randKey(r, true), "get u8:1:0", "remap 2 2", "simple u8:1:0:0", "lk str::0"))
		}
		return corr.Case{Tag: "malformed", Lines: lines}
	}
}

func spec() corr.Spec {
	return corr.Spec{
		Property: "C17",
		Fixed:    fixedCases,
		Count: func(tier string) int {
			switch tier {
			case "quick":
				return 1500
			case "thorough":
				return 30000
			}
			return 40000
		},
		// independent scripts: spread them over child processes (the lock scripts of C17 are scheduler-driven and cannot
		// share a process; for both properties it keeps a run through the failing-input search well under two minutes)
		Shards: func(tier string) int {
			if tier == "quick" {
				return 4
			}
			return 10
		},
		Gen: genCase,
		Run: runCase,
		NonTrivial: func(c corr.Case, r corr.Result) bool {
			idx := 0
			for _, o := range r.Outs {
				if o != "bad-op" && o != "panic" {
					idx++
				}
			}
			return idx > 3 && !strings.HasPrefix(c.Lines[0], "remap 1 ") && c.Lines[0] != "remap 1"
		},
		Rule: "route-keys: SimpleIndex/XHashIndex on keys of every supported type (all integer widths with min/max/-1/0, HitGroup and Bs implementers, strings and byte slices of 0..4096 bytes, one unsupported type); partition: SearchIndex on boundary hashes y(i+1)-1, y(i+1), y(i+1)+1, 0, MaxUint64, above y*n and random ones; shard counts {1,2,3,64,73,211,1000} and random counts <= 5000; container-*: the same Set/Get/Peek/Exist/Delete sequence on a sharded map / LRU / tiny LRU and its unsharded twin; single-lock-*: one key of any type, acquire+release twice through KeyLockerGrp, TKeyLockerGrp, WideSemMap; wide-*: wide LRU (both packages) against one plain LRU per shard, colliding integer keys, per-shard capacity 1..3; locks-*: scheduler-driven scripts mixing Lock/RLock/Locks/RLocks (one- and multi-element) and releases through another API on group and unsharded locker, primes {1,2,3,73}, both routings; malformed: ill-formed lines; non-trivial = more than 3 answered operations and more than one shard",
		Assumptions: []string{
			"xxhash is a deterministic function of the key's bytes (its value is read from the real package into the script; not modelled)",
			"sort.Search is the binary search of the Go library (modelled); slices of 2^63 or more shards cannot be allocated, so n < 2^63",
			"semap / keylock per-key semantics are the subject of C01/C02; here only that acquire and release of a key reach the same, existing shard",
		},
		Trusted: []string{"sort.Search, xxhash, Go type switches (modelled, not verified)", "go/lib/c17syn (kernel fragments lifted from NewReMap / SearchIndex / SimpleIndex)"},
		Classify: func(c corr.Case, line int, want, got string) string {
			f := strings.Fields(c.Lines[line])
			head := strings.Fields(c.Lines[0])
			op := "?"
			if len(f) > 0 {
				op = f[0]
			}
			switch op {
			case "search":
				return "C17:remap.SearchIndex:differs-from-model"
			case "simple":
				return "C17:remap.SimpleIndex:differs-from-model"
			case "xhash":
				return "C17:remap.XHashIndex:differs-from-model"
			case "remap":
				return "C17:remap.NewReMap:differs-from-model"
			}
			if len(head) > 1 {
				return "C17:" + head[0] + "-" + head[1] + ":" + op + ":differs-from-model"
			}
			return "C17:" + op + ":differs-from-model"
		},
	}
}

// minedConstants: the integer literals (and `a << b` forms) in the source of remap and of the sharded wrappers, found
// through the file path the compiler recorded for remap.NewReMap. A dictionary for the generator, as fuzzers use: a
// value an edit singles out ("reserved id 0xCAFEBABE", "tables above 1<<20") becomes a value the scripts try.
var minedOnce sync.Once
var mined []uint64

func minedConstants() []uint64 {
	minedOnce.Do(func() {
		file, _ := runtime.FuncForPC(reflect.ValueOf(remap.NewReMap).Pointer()).FileLine(0)
		root := filepath.Dir(filepath.Dir(file))
		seen := map[uint64]bool{}
		add := func(v uint64) {
			if v >= 2 && !seen[v] {
				seen[v] = true
				mined = append(mined, v)
			}
		}
		for _, d := range []string{"remap", "cache", "cache/tiny", "syncx/keylock", "syncx/semap"} {
			ents, _ := os.ReadDir(filepath.Join(root, d))
			for _, e := range ents {
				if e.IsDir() || !strings.HasSuffix(e.Name(), ".go") || strings.HasSuffix(e.Name(), "_test.go") {
					continue
				}
				f, err := parser.ParseFile(token.NewFileSet(), filepath.Join(root, d, e.Name()), nil, 0)
				if err != nil {
					continue
				}
				ast.Inspect(f, func(n ast.Node) bool {
					if bl, ok := n.(*ast.BasicLit); ok && bl.Kind == token.INT {
						if v, err := strconv.ParseUint(bl.Value, 0, 64); err == nil {
							add(v)
						}
					}
					if be, ok := n.(*ast.BinaryExpr); ok && be.Op == token.SHL {
						a, ok1 := be.X.(*ast.BasicLit)
						b, ok2 := be.Y.(*ast.BasicLit)
						if ok1 && ok2 {
							x, e1 := strconv.ParseUint(a.Value, 0, 64)
							y, e2 := strconv.ParseUint(b.Value, 0, 64)
							if e1 == nil && e2 == nil && y < 64 && x > 0 && x < 16 {
								add(x << y)
							}
						}
					}
					return true
				})
			}
		}
		sort.Slice(mined, func(i, j int) bool { return mined[i] < mined[j] })
	})
	return mined
}
