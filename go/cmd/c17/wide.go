package main

import (
	"context"
	"fmt"
	"math"
	"os"
	"sort"
	"strconv"
	"strings"
	"time"

	"github.com/pinealctx/neptune/cache"
	"github.com/pinealctx/neptune/cache/tiny"
	"github.com/pinealctx/neptune/remap"
	"github.com/pinealctx/neptune/syncx/keylock"
	"github.com/pinealctx/neptune/syncx/semap"

	"nvharness/lib/sched"
)

// ---------------------------------------------------------------- wide LRU against one unsharded LRU per shard

type szval struct{ id, size int }

func (v *szval) Size() int { return v.size }

// lruOne is the five-method facade over either package, values as ints
type lruOne interface {
	Set(k, v, sz int)
	Get(k int) (int, bool)
	Peek(k int) (int, bool)
	Exist(k int) bool
	Delete(k int) bool
}

type sizedOne struct{ c cache.LRUFacade }

func (a sizedOne) Set(k, v, sz int)  { a.c.Set(k, &szval{v, sz}) }
func (a sizedOne) Exist(k int) bool  { return a.c.Exist(k) }
func (a sizedOne) Delete(k int) bool { return a.c.Delete(k) }
func (a sizedOne) Get(k int) (int, bool) {
	v, ok := a.c.Get(k)
	if !ok {
		return 0, false
	}
	return v.(*szval).id, true
}
func (a sizedOne) Peek(k int) (int, bool) {
	v, ok := a.c.Peek(k)
	if !ok {
		return 0, false
	}
	return v.(*szval).id, true
}

type tinyOne struct{ c tiny.LRU }

func (a tinyOne) Set(k, v, sz int)  { a.c.Set(k, v) }
func (a tinyOne) Exist(k int) bool  { return a.c.Exist(k) }
func (a tinyOne) Delete(k int) bool { return a.c.Delete(k) }
func (a tinyOne) Get(k int) (int, bool) {
	v, ok := a.c.Get(k)
	if !ok {
		return 0, false
	}
	return v.(int), true
}
func (a tinyOne) Peek(k int) (int, bool) {
	v, ok := a.c.Peek(k)
	if !ok {
		return 0, false
	}
	return v.(int), true
}

type idealEntry struct{ k, v, sz int }

type wlState struct {
	name   string
	n      uint64
	xhash  bool
	rm     *remap.ReMap
	wide   lruOne
	shards []lruOne // the unsharded reference: one plain LRU of capacity cap/n+1 per shard
	seen   map[int]bool
	// the IDEAL LRU of every shard, kept by the harness from the calls alone (wide cache and plain LRUs share their
	// building block, so a defect of the LRU itself shows only against this): entries most recently used first
	ideal [][]idealEntry
	per   int64
	tiny  bool
}

func (r *runner) newWL(f []string) string {
	if len(f) != 5 || (f[1] != "lru" && f[1] != "tlru") || (f[4] != "simple" && f[4] != "xhash") {
		return "bad-op"
	}
	if !decimal(f[2], false) || len(f[2]) > 19 {
		return "bad-op"
	}
	capacity, perr := strconv.ParseInt(f[2], 10, 64)
	if perr != nil {
		return "bad-op"
	}
	n, ok := parseN(f[3])
	if !ok || n == 0 || n > 4096 {
		return "bad-op"
	}
	opt := remap.WithPrime(n)
	w := &wlState{n: n, xhash: f[4] == "xhash", rm: remap.NewReMap(opt), seen: map[int]bool{}}
	per := capacity / int64(n) // the intended per-shard capacity capacity/n + 1, without int64 wrap-around
	if per < math.MaxInt64 {
		per++
	}
	switch {
	case f[1] == "lru" && w.xhash:
		w.name, w.wide = "cache.WideLRUCache", sizedOne{cache.NewWideXHashLRUCache(capacity, opt)}
	case f[1] == "lru":
		w.name, w.wide = "cache.WideLRUCache", sizedOne{cache.NeWideLRUCache(capacity, opt)}
	case w.xhash:
		w.name, w.wide = "tiny.WideLRUCache", tinyOne{tiny.NewWideXHashLRU(capacity, opt)}
	default:
		w.name, w.wide = "tiny.WideLRUCache", tinyOne{tiny.NeWideLRU(capacity, opt)}
	}
	for i := uint64(0); i < n; i++ {
		if f[1] == "lru" {
			w.shards = append(w.shards, sizedOne{cache.NewSingleLRUCache(per)})
		} else {
			w.shards = append(w.shards, tinyOne{tiny.NewSingleLRUCache(per)})
		}
	}
	w.ideal, w.per, w.tiny = make([][]idealEntry, n), per, f[1] == "tlru"
	r.mode, r.wl, r.n = "wl", w, n
	return "ok"
}

func (w *wlState) shardOf(k int) int {
	if w.xhash {
		return w.rm.XHashIndex(k)
	}
	return w.rm.SimpleIndex(k)
}

func (w *wlState) dump(c func(k int) (int, bool)) string {
	var ks []int
	for k := range w.seen {
		ks = append(ks, k)
	}
	sort.Ints(ks)
	var cells []string
	for _, k := range ks {
		if v, ok := c(k); ok {
			cells = append(cells, fmt.Sprintf("%d:%d", k, v))
		}
	}
	return "[" + strings.Join(cells, ",") + "]"
}

func (r *runner) wlOp(f []string) string {
	w := r.wl
	want := 2
	if f[0] == "set" {
		want = 4
	}
	if len(f) != want {
		return "bad-op"
	}
	k, ok := parseKey(f[1])
	if !ok || k.ty != "int" {
		return "bad-op"
	}
	key := k.v.(int)
	if key < 0 || key >= 1<<62 {
		return "bad-op"
	}
	v, sz := 0, 0
	if f[0] == "set" {
		if !decimal(f[2], false) || len(f[2]) > 9 || !decimal(f[3], false) || len(f[3]) > 4 {
			return "bad-op"
		}
		v, _ = strconv.Atoi(f[2])
		sz, _ = strconv.Atoi(f[3])
	}
	do := func(c lruOne) string {
		switch f[0] {
		case "set":
			c.Set(key, v, sz)
			return "ok"
		case "get", "peek":
			var x int
			var ok bool
			if f[0] == "get" {
				x, ok = c.Get(key)
			} else {
				x, ok = c.Peek(key)
			}
			if !ok {
				return "miss"
			}
			return "v=" + strconv.Itoa(x)
		case "exist":
			return strconv.FormatBool(c.Exist(key))
		}
		return strconv.FormatBool(c.Delete(key))
	}
	w.seen[key] = true
	out, p := guardS(func() string { return do(w.wide) + " | P=" + w.dump(w.wide.Peek) })
	if p {
		r.hit("C17:"+w.name+":panics", fmt.Sprintf("%s %v on %d shards (xhash=%v)", f[0], f[1:], w.n, w.xhash))
		return "panic"
	}
	// the same request on the plain LRU that stands for the key's shard; then the whole content, shard by shard
	ref, _ := guardS(func() string {
		return do(w.shards[w.shardOf(key)]) + " | P=" + w.dump(func(q int) (int, bool) { return w.shards[w.shardOf(q)].Peek(q) })
	})
	// the ideal LRU of the key's shard: Set/Get refresh, Peek/Exist do not, the coldest go while the sizes exceed the capacity
	sh := w.shardOf(key)
	if sh >= 0 && sh < len(w.ideal) {
		l := w.ideal[sh]
		pos := -1
		for i, e := range l {
			if e.k == key {
				pos = i
			}
		}
		without := func() []idealEntry {
			var o []idealEntry
			for i, e := range l {
				if i != pos {
					o = append(o, e)
				}
			}
			return o
		}
		switch f[0] {
		case "set":
			size := sz
			if w.tiny {
				size = 1
			}
			l = append([]idealEntry{{key, v, size}}, without()...)
			var total int64
			keep := 0
			for keep < len(l) && total+int64(l[keep].sz) <= w.per {
				total += int64(l[keep].sz)
				keep++
			}
			l = l[:keep]
		case "get":
			if pos >= 0 {
				l = append([]idealEntry{l[pos]}, without()...)
			}
		case "del":
			if pos >= 0 {
				l = without()
			}
		}
		w.ideal[sh] = l
		want := map[int]int{}
		for _, sl := range w.ideal {
			for _, e := range sl {
				want[e.k] = e.v
			}
		}
		got := w.dump(w.wide.Peek)
		exp := w.dump(func(q int) (int, bool) { v, ok := want[q]; return v, ok })
		if got != exp {
			r.hit("C17:"+w.name+":differs-from-ideal-lru-per-shard", fmt.Sprintf("%s %s on %d shards (xhash=%v, per-shard capacity %d): the wide cache holds %s, ideal LRUs per shard hold %s (order of use of shard %d, most recent first: %v)", f[0], strings.Join(f[1:], " "), w.n, w.xhash, w.per, got, exp, sh, w.ideal[sh]))
		}
	}
	if ref != out {
		r.hit("C17:"+w.name+":differs-from-unsharded-per-shard", fmt.Sprintf("%s %s on %d shards (xhash=%v): the wide cache answers `%s`, plain LRUs of the per-shard capacity answer `%s` (P = Peek of every key used so far)", f[0], strings.Join(f[1:], " "), w.n, w.xhash, out, ref))
	}
	return out
}

// ---------------------------------------------------------------- lock groups against one unsharded locker

type hold struct {
	t     int
	key   string // key token without hash
	write bool
	multi bool // acquired through the multi-key API
}

type pending struct {
	t     int
	keys  []string
	write bool
	multi bool
	wide  *sched.Task
	ref   *sched.Task
}

// lockAPI is the union of what the four group types offer; acquire/release take the API kind (single or multi-key)
type lockAPI interface {
	acquire(keys []key, write, multi bool, tok map[string]*semap.Weighted)
	release(keys []key, write, multi bool, tok map[string]*semap.Weighted)
	// counts: (readers, writers) registered for the key's entry, read through the package's verif hook at quiescence
	// (ok=false: not available)
	counts(k key) (r, w int, ok bool)
}

type klockAPI struct{ l keylock.Locker }

func (a klockAPI) acquire(keys []key, write, multi bool, _ map[string]*semap.Weighted) {
	if write {
		a.l.Lock(keys[0].v)
	} else {
		a.l.RLock(keys[0].v)
	}
}
func (a klockAPI) release(keys []key, write, multi bool, _ map[string]*semap.Weighted) {
	if write {
		a.l.Unlock(keys[0].v)
	} else {
		a.l.RUnlock(keys[0].v)
	}
}

func (a klockAPI) counts(k key) (int, int, bool) {
	r, w, _ := keylock.VerifKeyCounts(a.l, k.v)
	return r, w, r >= 0
}

type tlockAPI[T comparable] struct{ l keylock.TLocker[T] }

func (a tlockAPI[T]) counts(k key) (int, int, bool) {
	r, w, _ := keylock.VerifTKeyCounts(a.l, k.v.(T))
	return r, w, r >= 0
}

func (a tlockAPI[T]) ks(keys []key) []T {
	var out []T
	for _, k := range keys {
		out = append(out, k.v.(T))
	}
	return out
}
func (a tlockAPI[T]) acquire(keys []key, write, multi bool, _ map[string]*semap.Weighted) {
	switch {
	case multi && write:
		a.l.Locks(a.ks(keys))
	case multi:
		a.l.RLocks(a.ks(keys))
	case write:
		a.l.Lock(keys[0].v.(T))
	default:
		a.l.RLock(keys[0].v.(T))
	}
}
func (a tlockAPI[T]) release(keys []key, write, multi bool, _ map[string]*semap.Weighted) {
	switch {
	case multi && write:
		a.l.Unlocks(a.ks(keys))
	case multi:
		a.l.RUnlocks(a.ks(keys))
	case write:
		a.l.Unlock(keys[0].v.(T))
	default:
		a.l.RUnlock(keys[0].v.(T))
	}
}

type semapAPI struct{ m semap.SemMapper }

func (a semapAPI) counts(k key) (int, int, bool) { return 0, 0, false }

func (a semapAPI) acquire(keys []key, write, multi bool, tok map[string]*semap.Weighted) {
	var w *semap.Weighted
	var err error
	if write {
		w, err = a.m.AcquireWrite(context.Background(), keys[0].v)
	} else {
		w, err = a.m.AcquireRead(context.Background(), keys[0].v)
	}
	if err != nil {
		panic(err)
	}
	tok[keys[0].ty+":"+keys[0].text] = w
}

// acquireDone: the same call with a context that is already cancelled ("acqx") or whose deadline has passed ("acqd")
func (a semapAPI) acquireDone(mode string, keys []key, write bool, tok map[string]*semap.Weighted) string {
	ctx, cancel := context.WithCancel(context.Background())
	if mode == "acqd" {
		cancel()
		ctx, cancel = context.WithDeadline(context.Background(), time.Unix(1, 0))
	}
	cancel()
	var w *semap.Weighted
	var err error
	if write {
		w, err = a.m.AcquireWrite(ctx, keys[0].v)
	} else {
		w, err = a.m.AcquireRead(ctx, keys[0].v)
	}
	if err != nil {
		return "err"
	}
	tok[keys[0].ty+":"+keys[0].text] = w
	return "ret"
}

func (a semapAPI) release(keys []key, write, multi bool, tok map[string]*semap.Weighted) {
	w := tok[keys[0].ty+":"+keys[0].text]
	if write {
		a.m.ReleaseWrite(keys[0].v, w)
	} else {
		a.m.ReleaseRead(keys[0].v, w)
	}
}

type locksState struct {
	name, kind string
	n          uint64
	xhash      bool
	s          *sched.S
	rm         *remap.ReMap
	cap        int // readers admitted per key at a time (0: unlimited)
	wide, ref  lockAPI
	// semaphore tokens per (thread, side): thread -> key -> *Weighted
	tokW, tokR map[int]map[string]*semap.Weighted
	holds      []hold
	wait       *pending
}

func (r *runner) newLocks(f []string) string {
	if len(f) != 4 || (f[3] != "simple" && f[3] != "xhash") {
		return "bad-op"
	}
	n, ok := parseN(f[2])
	if !ok || n == 0 || n > 4096 {
		return "bad-op"
	}
	r.locksCleanup()
	opt := remap.WithPrime(n)
	x := f[3] == "xhash"
	ls := &locksState{kind: f[1], n: n, xhash: x, s: sched.New(), rm: remap.NewReMap(opt), tokW: map[int]map[string]*semap.Weighted{}, tokR: map[int]map[string]*semap.Weighted{}}
	switch f[1] {
	case "klock":
		ls.name, ls.ref = "keylock.KeyLockerGrp", klockAPI{keylock.NewKeyLocker()}
		if x {
			ls.wide = klockAPI{keylock.NewXHashKeyLockeGrp(opt)}
		} else {
			ls.wide = klockAPI{keylock.NewKeyLockeGrp(opt)}
		}
	case "tklock-i64":
		ls.name, ls.ref = "keylock.TKeyLockerGrp", tlockAPI[int64]{keylock.NewTKeyLocker[int64]()}
		if x {
			ls.wide = tlockAPI[int64]{keylock.NewTXHashTKeyLockeGrp[int64](opt)}
		} else {
			ls.wide = tlockAPI[int64]{keylock.NewTKeyLockeGrp[int64](opt)}
		}
	case "tklock-str":
		ls.name, ls.ref = "keylock.TKeyLockerGrp", tlockAPI[string]{keylock.NewTKeyLocker[string]()}
		if x {
			ls.wide = tlockAPI[string]{keylock.NewTXHashTKeyLockeGrp[string](opt)}
		} else {
			ls.wide = tlockAPI[string]{keylock.NewTKeyLockeGrp[string](opt)}
		}
	case "semap", "semap-r1", "semap-r2", "semap-r3":
		// both maps are built with the SAME read/write ratio (default 10, or WithRwRatio(1|2|3)): at most that many readers of a key
		ls.cap = 10
		opts := []semap.Option{semap.WithPrime(n)}
		var refOpts []semap.Option
		if f[1] != "semap" {
			ls.cap = int(f[1][len(f[1])-1] - '0')
			opts = append(opts, semap.WithRwRatio(ls.cap))
			refOpts = append(refOpts, semap.WithRwRatio(ls.cap))
		}
		ls.name, ls.ref = "semap.WideSemMap", semapAPI{semap.NewSemMap(refOpts...)}
		if x {
			ls.wide = semapAPI{semap.NewWideXHashSemMap(opts...)}
		} else {
			ls.wide = semapAPI{semap.NewWideSemMap(opts...)}
		}
	default:
		return "bad-op"
	}
	r.mode, r.ls, r.n = "locks", ls, n
	return "ok"
}

func (ls *locksState) tok(m map[int]map[string]*semap.Weighted, t int) map[string]*semap.Weighted {
	if m[t] == nil {
		m[t] = map[string]*semap.Weighted{}
	}
	return m[t]
}

// free: may key k be taken in this mode given the harness's own table of holders?
func (ls *locksState) free(k string, write bool) bool {
	readers := 0
	for _, h := range ls.holds {
		if h.key == k && (write || h.write) {
			return false
		}
		if h.key == k {
			readers++
		}
	}
	return write || ls.cap == 0 || readers < ls.cap
}

func (r *runner) locksOp(f []string) string {
	ls := r.ls
	if r.mode != "locks" || len(f) != 4 {
		return "bad-op"
	}
	t, ok := parseNatTok(f[1])
	if !ok || t > 3 {
		return "bad-op"
	}
	var write, multi bool
	switch f[2] {
	case "w":
		write = true
	case "r":
	case "ws":
		write, multi = true, true
	case "rs":
		multi = true
	default:
		return "bad-op"
	}
	var keys []key
	var names []string
	for _, tokn := range strings.Split(f[3], ",") {
		k, ok := parseKey(tokn)
		if !ok || k.ty == "bytes" || k.ty == "other" || (ls.kind == "tklock-i64" && k.ty != "i64") || (ls.kind == "tklock-str" && k.ty != "str") {
			return "bad-op"
		}
		keys = append(keys, k)
		names = append(names, k.ty+":"+k.text)
	}
	if (!multi && len(keys) != 1) || (multi && !strings.HasPrefix(ls.kind, "tklock")) {
		return "bad-op"
	}
	for _, k := range keys {
		if k.ty == "hit" && ls.xhash {
			// can the key be routed at all? (ToBytes without a HitGroup arm panics before any lock is touched)
			if _, p := guardS(func() string { return strconv.Itoa(ls.rm.XHashIndex(k.v)) }); p {
				r.hitGroupUnsupported(fmt.Sprintf("%s on %s with xxhash routing, %d shards", strings.Join(f, " "), ls.name, ls.n))
				return "panic"
			}
		}
	}
	// a WRITE list must not repeat a key (self-deadlock); a READ list may, and then takes the key once per mention
	dup := map[string]bool{}
	cnt := map[string]int{}
	for _, nm := range names {
		if dup[nm] && write {
			return "bad-op"
		}
		dup[nm] = true
		cnt[nm]++
	}
	if r.lockBroken {
		// the group already misbehaved in this script: its internal state no longer matches the table of holders, and
		// releasing a sync.RWMutex that is not held is a fatal (unrecoverable) runtime error — issue nothing further
		return "skipped"
	}
	ctx := fmt.Sprintf("%s on %s, %d shards (xhash=%v); holders %v", strings.Join(f, " "), ls.name, ls.n, ls.xhash, ls.holds)
	if f[0] == "acqx" || f[0] == "acqd" {
		// acquire with a context that is already done: a free key is granted all the same, a held key is refused at once
		// (nothing queues) — by the sharded map exactly as by the single one
		sw, okW := ls.wide.(semapAPI)
		sr, okR := ls.ref.(semapAPI)
		if !okW || !okR || ls.wait != nil {
			return "bad-op"
		}
		for _, h := range ls.holds {
			if h.t == t && dup[h.key] {
				return "bad-op"
			}
		}
		conflict := !ls.free(names[0], write)
		tw := ls.s.Go("wide", func() string { return sw.acquireDone(f[0], keys, write, ls.tok(ls.tokW, t)) })
		tr := ls.s.Go("ref", func() string { return sr.acquireDone(f[0], keys, write, ls.tok(ls.tokR, t)) })
		if err := ls.s.Settle(); err != nil {
			fmt.Fprintln(os.Stderr, "c17: no quiescent state in a lock script:", err)
			os.Exit(2) // harness error, never a verdict
		}
		a, b := statusOf(tw), statusOf(tr)
		switch {
		case strings.HasPrefix(a, "panic"):
			r.lockHit("C17:"+ls.name+":panics", a+": "+ctx)
			return "panic"
		case a != b:
			r.lockHit("C17:"+ls.name+":differs-from-unsharded", fmt.Sprintf("context already done: group: %s, single map: %s; %s", a, b, ctx))
		case a == "ret" && conflict:
			r.lockHit("C17:"+ls.name+":exclusion-lost", "the call returned although the key is held: "+ctx)
		case a == "err" && !conflict:
			r.lockHit("C17:"+ls.name+":done-context-refused-on-free-key", ctx)
		case a == "parked":
			r.lockHit("C17:"+ls.name+":done-context-call-blocks", ctx)
		}
		if a == "ret" {
			ls.holds = append(ls.holds, hold{t, names[0], write, false})
		}
		return a
	}
	if f[0] == "acq" {
		if ls.wait != nil {
			return "bad-op"
		}
		for _, h := range ls.holds {
			if h.t == t && dup[h.key] {
				return "bad-op"
			}
		}
		conflict := false
		for _, nm := range names {
			if !ls.free(nm, write) {
				conflict = true
			}
		}
		tw := ls.s.Go("wide", func() string { ls.wide.acquire(keys, write, multi, ls.tok(ls.tokW, t)); return "ret" })
		tr := ls.s.Go("ref", func() string { ls.ref.acquire(keys, write, multi, ls.tok(ls.tokR, t)); return "ret" })
		if err := ls.s.Settle(); err != nil {
			fmt.Fprintln(os.Stderr, "c17: no quiescent state in a lock script:", err)
			os.Exit(2) // harness error, never a verdict
		}
		sw, sr := statusOf(tw), statusOf(tr)
		switch {
		case strings.HasPrefix(sw, "panic"):
			r.lockHit("C17:"+ls.name+":panics", sw+": "+ctx)
		case sw == "ret" && conflict:
			r.lockHit("C17:"+ls.name+":exclusion-lost", "the call returned although the key is held through another call: "+ctx)
		case sw == "parked" && !conflict:
			r.lockHit("C17:"+ls.name+":blocks-without-conflict", ctx)
		}
		if sw != sr && !r.lockBroken {
			r.lockHit("C17:"+ls.name+":differs-from-unsharded", fmt.Sprintf("group: %s, single locker: %s; %s", sw, sr, ctx))
		}
		ls.compareCounts(r, keys, ctx)
		switch sw {
		case "ret":
			for _, nm := range names {
				ls.holds = append(ls.holds, hold{t, nm, write, multi})
			}
		case "parked":
			ls.wait = &pending{t: t, keys: names, write: write, multi: multi, wide: tw, ref: tr}
		default:
			return "panic"
		}
		return sw
	}
	// release
	if ls.wait != nil && ls.wait.t == t {
		return "bad-op"
	}
	for nm, c := range cnt {
		have := 0
		for _, h := range ls.holds {
			if h.t == t && h.key == nm && h.write == write {
				have++
			}
		}
		if have < c {
			return "bad-op"
		}
	}
	tw := ls.s.Go("wide", func() string { ls.wide.release(keys, write, multi, ls.tok(ls.tokW, t)); return "ret" })
	tr := ls.s.Go("ref", func() string { ls.ref.release(keys, write, multi, ls.tok(ls.tokR, t)); return "ret" })
	if err := ls.s.Settle(); err != nil {
		fmt.Fprintln(os.Stderr, "c17: no quiescent state in a lock script:", err)
		os.Exit(2) // harness error, never a verdict
	}
	sw, sr := statusOf(tw), statusOf(tr)
	if sw != "ret" {
		key := "panics"
		if sw == "parked" {
			key = "release-blocks"
		}
		r.lockHit("C17:"+ls.name+":"+key, sw+": "+ctx)
		if sw != "parked" {
			sw = "panic"
		}
		return sw
	}
	if sr != "ret" {
		r.lockHit("C17:"+ls.name+":differs-from-unsharded", fmt.Sprintf("group: %s, single locker: %s; %s", sw, sr, ctx))
	}
	ls.compareCounts(r, keys, ctx)
	var rest []hold
	left := map[string]int{}
	for nm, c := range cnt {
		left[nm] = c
	}
	for _, h := range ls.holds {
		if h.t == t && h.write == write && left[h.key] > 0 {
			left[h.key]-- // one hold given back per mention of the key
			continue
		}
		rest = append(rest, h)
	}
	ls.holds = rest
	out := "ret"
	if p := ls.wait; p != nil {
		should := true
		for _, nm := range p.keys {
			if !ls.free(nm, p.write) {
				should = false
			}
		}
		woke, wokeRef := statusOf(p.wide) == "ret", statusOf(p.ref) == "ret"
		switch {
		case woke && !should:
			r.lockHit("C17:"+ls.name+":exclusion-lost", fmt.Sprintf("the blocked call of thread %d on %v returned although a key is still held: %s", p.t, p.keys, ctx))
		case !woke && should:
			r.lockHit("C17:"+ls.name+":blocked-call-not-released", fmt.Sprintf("thread %d still blocked on %v although nothing conflicts any more: %s", p.t, p.keys, ctx))
		}
		if woke != wokeRef && !r.lockBroken {
			r.lockHit("C17:"+ls.name+":differs-from-unsharded", fmt.Sprintf("blocked call of thread %d: group returned=%v, single locker returned=%v; %s", p.t, woke, wokeRef, ctx))
		}
		if woke {
			for _, nm := range p.keys {
				ls.holds = append(ls.holds, hold{p.t, nm, p.write, p.multi})
			}
			out = "ret wake:" + strconv.Itoa(p.t)
			ls.wait = nil
		}
	}
	return out
}

// compareCounts: at quiescence the key's entry in its shard must register as many readers and writers (holding or
// waiting) as the single locker's entry does — read through the keylock verif hooks. A multi-key call that takes a key
// fewer times, or in another shard, shows here before any later release could hit a mutex that is not held.
func (ls *locksState) compareCounts(r *runner, keys []key, ctx string) {
	if r.lockBroken {
		return
	}
	for _, k := range keys {
		rw, ww, ok1 := ls.wide.counts(k)
		rr, wr, ok2 := ls.ref.counts(k)
		if ok1 && ok2 && (rw != rr || ww != wr) {
			r.lockHit("C17:"+ls.name+":holds-differ-from-unsharded", fmt.Sprintf("key %s:%s: the group's shard registers %d reader(s) / %d writer(s), the single locker %d / %d; %s", k.ty, k.text, rw, ww, rr, wr, ctx))
			return
		}
	}
}

func (r *runner) lockHit(key, what string) {
	r.lockBroken = true
	r.hit(key, what)
}

func statusOf(t *sched.Task) string {
	st := t.State()
	switch {
	case st == "parked":
		return "parked"
	case strings.HasPrefix(st, "ret:panic"):
		return "panic" + strings.TrimPrefix(st, "ret:panic")
	case st == "ret:err":
		return "err"
	}
	return "ret"
}

func parseNatTok(s string) (int, bool) {
	if !decimal(s, false) || len(s) > 9 {
		return 0, false
	}
	n, err := strconv.Atoi(s)
	return n, err == nil
}

// locksCleanup releases what the script left held, so that blocked goroutines of this script end (thousands of parked
// goroutines would make every later quiescence snapshot slower). Only when group and reference never diverged
// (`lockBroken` false: every call answered alike and, for the key lockers, registered the same readers/writers), and
// never on the harness goroutine: on a defective group one release too many of a sync.RWMutex is a FATAL runtime error.
func (r *runner) locksCleanup() {
	ls := r.ls
	r.ls = nil
	if ls == nil || r.lockBroken {
		return
	}
	for _, h := range ls.holds {
		k, ok := parseKey(h.key + ":0")
		if !ok {
			continue
		}
		h := h
		for _, side := range []struct {
			api lockAPI
			tok map[int]map[string]*semap.Weighted
		}{{ls.ref, ls.tokR}, {ls.wide, ls.tokW}} {
			side := side
			t := ls.s.Go("cleanup", func() string { side.api.release([]key{k}, h.write, h.multi, ls.tok(side.tok, h.t)); return "ret" })
			_ = ls.s.Settle()
			if t.State() != "ret:ret" {
				return
			}
		}
		cw, ww, ok1 := ls.wide.counts(k)
		cr, wr, ok2 := ls.ref.counts(k)
		if ok1 && ok2 && (cw != cr || ww != wr) {
			return
		}
	}
}
