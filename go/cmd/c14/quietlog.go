package main

import (
	"io"
	"os"

	"github.com/pinealctx/neptune/ulog"
	"go.uber.org/zap"
	"go.uber.org/zap/zapcore"
)

// The harness process keeps neptune's default logger out of its output the way lib/quiet does (same level, encoder and
// options, the sink discards the bytes; every log statement of the code under test still evaluates its fields and runs
// the encoder) — except in a process started with C14_STOCK_LOGGER set: that one keeps the logger ulog's own init()
// installed and never calls SetDefaultLogger, like a program or test that simply imports the library. The `stocklog`
// class runs there (its stdout is /dev/null at the file-descriptor level).
func init() {
	if os.Getenv("C14_STOCK_LOGGER") != "" {
		return
	}
	enc := zap.NewProductionEncoderConfig()
	enc.EncodeTime = zapcore.ISO8601TimeEncoder
	sink := zap.WrapCore(func(zapcore.Core) zapcore.Core {
		return zapcore.NewCore(zapcore.NewJSONEncoder(enc), zapcore.AddSync(io.Discard), zapcore.DebugLevel)
	})
	// ulog's own init uses AddCaller + AddCallerSkip(2) and stores the logger directly; SetDefaultLogger adds one skip.
	ulog.SetDefaultLogger(ulog.NewSimpleLogger(ulog.DebugLevelStr, zap.AddCaller(), zap.AddCallerSkip(1), sink))
}
