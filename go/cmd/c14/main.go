// Command c14: extractor and correspondence runner for property C14 (actor lanes:
// line.Line, mline.MultiLine, async.RunnerQ, async.ProcChan, pipe.NormalizeSlotIndex).
package main

import (
	"bufio"
	"bytes"
	"context"
	"crypto/sha1"
	"encoding/hex"
	"encoding/json"
	"errors"
	"fmt"
	"math"
	"os"
	osexec "os/exec"
	"path/filepath"
	"reflect"
	"runtime"
	"sort"
	"strconv"
	"strings"
	"sync"
	"sync/atomic"
	"time"

	"github.com/pinealctx/neptune/syncx/pipe"
	"github.com/pinealctx/neptune/syncx/pipe/async"
	"github.com/pinealctx/neptune/syncx/pipe/line"
	"github.com/pinealctx/neptune/syncx/pipe/mline"

	"nvharness/lib/c14q"
	"nvharness/lib/corr"
	"nvharness/lib/go2lean"
	"nvharness/lib/gofacts"
	"nvharness/lib/rng"
	"nvharness/lib/sched"
)

func main() {
	if len(os.Args) < 2 {
		fmt.Fprintln(os.Stderr, "usage: c14 extract|corr …")
		os.Exit(2)
	}
	switch os.Args[1] {
	case "extract":
		extract(os.Args[2], os.Args[3])
	case "corr":
		corr.Main(spec(), os.Args[2:])
	case "runscript":
		runScriptChild()
	case "stocklog":
		stockChild(os.Args[2], os.Args[3])
	case "shapes":
		printShapes(os.Args[2])
	default:
		os.Exit(2)
	}
}

// ---------------------------------------------------------------- extract

func all(bs ...bool) bool {
	for _, b := range bs {
		if !b {
			return false
		}
	}
	return true
}

// Whole-body shape facts: every function the model is written against is pinned by the hash of its canonical text
// (gofacts.Canon: locals renamed, `var x = e` ≡ `x := e`, white space collapsed), so a renamed local does not alarm and
// any other edit inside a pinned body breaks the tie. `c14 shapes <repo>` prints the table for a tree.
type fnRef struct{ file, recv, name string }

func (r fnRef) key() string { return r.file + "|" + r.recv + "." + r.name }

var shapeFiles = map[string]*gofacts.File{}

func shapeOf(repo string, r fnRef) string {
	f := shapeFiles[repo+"|"+r.file]
	if f == nil {
		f = gofacts.MustLoad(repo, r.file)
		shapeFiles[repo+"|"+r.file] = f
	}
	fd := f.Func(r.recv, r.name)
	if fd == nil {
		return "absent"
	}
	sum := sha1.Sum([]byte(f.Canon(fd)))
	return hex.EncodeToString(sum[:])[:12]
}

func refs(file string, names ...string) []fnRef {
	var out []fnRef
	for _, n := range names {
		recv, name := "", n
		if i := strings.Index(n, "."); i >= 0 {
			recv, name = n[:i], n[i+1:]
		}
		out = append(out, fnRef{file, recv, name})
	}
	return out
}

func cat(ls ...[]fnRef) []fnRef {
	var out []fnRef
	for _, l := range ls {
		out = append(out, l...)
	}
	return out
}

const (
	fLine, fLineCtx   = "syncx/pipe/line/line.go", "syncx/pipe/line/ctx.go"
	fMline, fMlineCtx = "syncx/pipe/mline/mline.go", "syncx/pipe/mline/ctx.go"
	fRunner, fCtx     = "syncx/pipe/async/runner.go", "syncx/pipe/async/ctx.go"
	fPchan, fReflect  = "syncx/pipe/async/procchan.go", "syncx/pipe/async/ctxreflect.go"
	fQ, fAQ           = "syncx/pipe/q/q.go", "syncx/pipe/async/q.go"
	fUtil, fOpt       = "syncx/pipe/util.go", "syncx/pipe/option.go"
)

// the groups of pinned functions, one Lean fact each (order = field order of Nv.C14.Facts)
var factGroups = []struct {
	name string
	fns  []fnRef
}{
	{"popLoops", cat(refs(fLine, "Line.popLoop"), refs(fMline, "MultiLine.popLoop"), refs(fRunner, "RunnerQ.popLoop"), refs(fPchan, "ProcChan.popLoop"))},
	{"runGuards", cat(refs(fLine, "NewLine", "newLine", "Line.Run"), refs(fRunner, "NewRunnerQ", "RunnerQ.Run"), refs(fPchan, "NewProcChan", "ProcChan.Run"))},
	{"resultCells", cat(refs(fLineCtx, "newAsyncCtx", "AsyncCtx.SetR", "AsyncCtx.R"), refs(fMlineCtx, "newAsyncCtx", "AsyncCtx.SetR", "AsyncCtx.R"),
		refs(fCtx, "callCtxT.r", "delegateCtxT.r", "procCtxT.r"), refs(fPchan, "procChanCtxT.r"))},
	{"runBodies", cat(refs(fCtx, "callCtxT.run", "delegateCtxT.run", "procCtxT.run"), refs(fPchan, "procChanCtxT.run"))},
	{"stopBodies", cat(refs(fLine, "Line.Stop"), refs(fMline, "MultiLine.Stop", "MultiLine.stop", "MultiLine.signalDone", "MultiLine.WaitStop"),
		refs(fRunner, "RunnerQ.Stop", "RunnerQ.WaitStop"), refs(fPchan, "ProcChan.Stop", "ProcChan.WaitStop"))},
	{"entryPoints", cat(refs(fLine, "Line.AsyncCall", "Line.addCallCtx"), refs(fLineCtx, "NewCallCtx"), refs(fMline, "MultiLine.AsyncCall"), refs(fMlineCtx, "NewCallCtx"),
		refs(fRunner, "RunnerQ.AsyncCall", "RunnerQ.AsyncDelegate", "RunnerQ.AsyncProc", "RunnerQ.addCallCtx", "RunnerQ.addDelegateCtx", "RunnerQ.addProcCtx"),
		refs(fCtx, "newCallCtx", "newDelegateCtx", "newProcCtx"), refs(fPchan, "newProcChanCtx", "ProcChan.AsyncProc"),
		refs(fReflect, "validateFn", "inValidateCache", "addType2Validation"), refs(fUtil, "ConvertQueueErr"))},
	{"laneIsSlot", cat(refs(fMline, "NewMultiLine", "newMux", "MultiLine.IndexOf", "MultiLine.addCallCtx"), refs(fOpt, "GetOption", "WithSlotSize", "WithQSize"))},
	{"queueBodies", cat(refs(fQ, "NewQ", "WithSize", "Q.AddReqAnyway", "Q.AddReq", "Q.AddPriorReq", "Q.Pop", "Q.PopAnyway", "Q.Close", "Q.pop"),
		refs(fAQ, "NewQ", "Q.IsClosed", "Q.Size", "Q.AddAnyway", "Q.Add", "Q.AddPrior", "Q.Pop", "Q.PopAnyway", "Q.Close", "Q.pop"))},
}

// configuration-selecting functions: shape -> value
var cfgShapes = map[string]map[string]string{
	fPchan + "|ProcChan.addCallCtx": {"e6addb24eee3": "racyThreeWaySelect", "f87669119610": "stopFirst"},
	fMline + "|MultiLine.Run":       {"724e83e64409": "unguarded", "bbf7cdfd0d1d": "once"},
}

// methods of the two queue types that touch the queue state: each must take the lock first and release it by defer
var lockedQ = cat(refs(fQ, "Q.AddReq", "Q.AddPriorReq", "Q.Close", "Q.pop"), refs(fAQ, "Q.IsClosed", "Q.Add", "Q.AddPrior", "Q.Close", "Q.pop"))

func printShapes(repo string) {
	for _, g := range factGroups {
		for _, r := range g.fns {
			fmt.Printf("\t%q: %q,\n", r.key(), shapeOf(repo, r))
		}
	}
	for k := range cfgShapes {
		parts := strings.SplitN(k, "|", 2)
		recv, name := "", parts[1]
		if i := strings.Index(name, "."); i >= 0 {
			recv, name = name[:i], name[i+1:]
		}
		fmt.Printf("cfg %s: %s\n", k, shapeOf(repo, fnRef{parts[0], recv, name}))
	}
}

func extract(repo, leanDir string) {
	// kernel
	p, err := go2lean.LoadPkg(repo, "syncx/pipe")
	if err != nil {
		fmt.Fprintln(os.Stderr, "extract:", err)
		os.Exit(2)
	}
	kernel := ""
	kmsg := "translated"
	if errs := p.TranslateAll("NormalizeSlotIndex"); len(errs) > 0 {
		// untranslatable: no definition is emitted, so the tie (and the oracle) break instead of guessing
		kmsg = "UNTRANSLATABLE " + strings.Join(go2lean.SortedErrs(errs), "; ")
		kernel = "-- NormalizeSlotIndex left the translatable subset: " + strings.ReplaceAll(kmsg, "\n", " ") + "\n"
	} else {
		kernel = p.Emit()
		ks := p.Kernels()
		if len(ks) != 1 || ks[0].Lean != "normalizeSlotIndex" || len(ks[0].Params) != 2 || len(ks[0].Exts)+len(ks[0].Fields)+len(ks[0].Globals) != 0 {
			kmsg = "UNEXPECTED-SIGNATURE"
			kernel = "-- NormalizeSlotIndex: unexpected signature after translation\n"
		}
	}

	var fs, changed []string
	for _, g := range factGroups {
		ok := true
		for _, r := range g.fns {
			if got := shapeOf(repo, r); got != expectedShapes[r.key()] {
				ok = false
				changed = append(changed, r.key())
			}
		}
		fs = append(fs, gofacts.LeanBool(ok))
	}
	locks := true
	for _, r := range lockedQ {
		f := shapeFiles[repo+"|"+r.file]
		if f == nil {
			f = gofacts.MustLoad(repo, r.file)
		}
		if f.LockCovered(f.Func(r.recv, r.name), "a.lock.Lock()", "a.lock.Unlock()") != "defer" {
			locks = false
			changed = append(changed, r.key()+":lock")
		}
	}
	fs = append(fs, gofacts.LeanBool(locks))

	cfgOf := func(key string) string {
		parts := strings.SplitN(key, "|", 2)
		recv, name := "", parts[1]
		if i := strings.Index(name, "."); i >= 0 {
			recv, name = name[:i], name[i+1:]
		}
		if v, ok := cfgShapes[key][shapeOf(repo, fnRef{parts[0], recv, name})]; ok {
			return v
		}
		return "unknown"
	}
	accept := cfgOf(fPchan + "|ProcChan.addCallCtx")
	runGuard := cfgOf(fMline + "|MultiLine.Run")

	out := "import Nv.Model.C14\nset_option linter.unusedVariables false\n" +
		"/-! GENERATED by `c14 extract` from syncx/pipe/{util.go,option.go,line,mline,async,q} — do not edit. -/\n" +
		"namespace Nv.Gen.C14\n" + kernel +
		"def cfg : Nv.C14.Cfg := ⟨." + accept + ", ." + runGuard + "⟩\n" +
		"def facts : Nv.C14.Facts := ⟨" + strings.Join(fs, ", ") + "⟩\n" +
		"end Nv.Gen.C14\n"
	if err := gofacts.WriteIfChanged(filepath.Join(leanDir, "Nv/Gen/C14.lean"), out); err != nil {
		fmt.Fprintln(os.Stderr, err)
		os.Exit(2)
	}
	fmt.Printf("extract C14: kernel NormalizeSlotIndex %s; pchanAccept=%s mlineRun=%s facts=%s changed=%v\n", kmsg, accept, runGuard, strings.Join(fs, ","), changed)
}

// ---------------------------------------------------------------- the real executors under a scheduler

type calleeErr struct{ v int }

func (e calleeErr) Error() string { return "callee-error-" + strconv.Itoa(e.v) }

type finVal struct {
	ok   bool
	v    int
	boom bool // the callee panics instead of returning
}

type call struct {
	id        int
	hash      int
	gate      chan finVal
	cancel    context.CancelFunc
	cancelled bool // cancel issued by the script
	cancelAt  int  // number of starts of this call seen when cancel was issued
	task      *sched.Task
	reported  bool
	ret       string // canonical result the caller got ("" while parked)
	postStop  bool   // submitted after Stop returned
	starts    int
	lane      int
	running   bool
	fin       *finVal // what the callee returned
	seq       int     // order of submission among calls accepted (for order monitor)
	twice     bool    // the callee was entered a second time (it is parked for good)
	obj       *callerObj
}

type exec struct {
	variant       int // RunnerQ context kind: -1 alternate by call id, 0 reflective call, 1 delegate, 2 proc
	kind          string
	lanes         int
	capQ          int
	s             *sched.S
	ln            *line.Line
	ml            *mline.MultiLine
	rq            *async.RunnerQ
	pc            *async.ProcChan
	exit          *sched.Task
	exited        bool
	stopped       bool
	mu            sync.Mutex
	events        []string
	calls         []*call
	hits          map[string]string
	laneRun       map[int]int // lane -> id of the call running there (monitor)
	laneSeq       map[int]int // lane -> id of the last call started there
	hold          chan struct{}
	runFn, waitFn func()
	loopName      string
	rerunning     bool // inside a Run() call after the first
	runs, extra   int  // Run() calls so far; consumer goroutines added by calls after the first
}

var currentScript []string

// set in the child process: streams every op's output / every monitor hit as soon as it exists
var progress func(i int, out string)
var hitSink func(key, what string)

func harnessFail(err error) {
	fmt.Fprintln(os.Stderr, "harness error while running script", currentScript, ":", err)
	os.Exit(2)
}

func (e *exec) hit(key, what string) {
	if (e.extra > 0 || e.rerunning) && !strings.HasSuffix(key, ".Run:second-call-adds-consumer") {
		// whatever else goes wrong on a lane with two consumers is a consequence of that one root cause
		key, what = "C14:"+kindName(e.kind)+".Run:two-consumers-on-one-lane", "with the extra consumer(s) running: "+what
	}
	if e.hits == nil {
		e.hits = map[string]string{}
	}
	if _, ok := e.hits[key]; !ok {
		e.hits[key] = what
		if hitSink != nil {
			hitSink(key, what)
		}
	}
}

func kindName(k string) string {
	switch k {
	case "line":
		return "Line"
	case "mline":
		return "MultiLine"
	case "runner":
		return "RunnerQ"
	}
	return "ProcChan"
}

var runnerVariants = map[string]int{"runner": -1, "runner-call": 0, "runner-delegate": 1, "runner-proc": 2}

func newExec(kind string, lanes, capQ int) *exec {
	variant := -1
	if v, ok := runnerVariants[kind]; ok {
		kind, variant = "runner", v
	}
	e := &exec{hold: make(chan struct{}), variant: variant, kind: kind, lanes: lanes, capQ: capQ, s: sched.New(), laneRun: map[int]int{}, laneSeq: map[int]int{}}
	switch kind {
	case "line":
		wg := &sync.WaitGroup{}
		e.ln = line.NewLine(wg, line.WithQSize(capQ), line.WithName("verif"))
		e.runFn, e.waitFn, e.loopName = e.ln.Run, wg.Wait, "line.(*Line).popLoop"
	case "mline":
		e.ml = mline.NewMultiLine(pipe.WithSlotSize(lanes), pipe.WithQSize(capQ))
		e.runFn, e.waitFn, e.loopName = e.ml.Run, func() { _ = e.ml.WaitStop(context.Background()) }, "mline.(*MultiLine).popLoop"
	case "runner":
		if capQ%2 == 0 {
			// with the optional caller-supplied wait group: the lane has terminated when WaitStop AND wg.Wait return
			wg := &sync.WaitGroup{}
			e.rq = async.NewRunnerQ(async.WithQSize(capQ), async.WithName("verif"), async.WithWaitGroup(wg))
			e.runFn, e.waitFn, e.loopName = e.rq.Run, func() { e.rq.WaitStop(); wg.Wait() }, "async.(*RunnerQ).popLoop"
		} else {
			e.rq = async.NewRunnerQ(async.WithQSize(capQ), async.WithName("verif"))
			e.runFn, e.waitFn, e.loopName = e.rq.Run, e.rq.WaitStop, "async.(*RunnerQ).popLoop"
		}
	case "pchan":
		wg := &sync.WaitGroup{}
		e.pc = async.NewProcChan(async.WithQSize(capQ), async.WithWaitGroup(wg), async.WithName("verif"))
		e.runFn, e.waitFn, e.loopName = e.pc.Run, wg.Wait, "async.(*ProcChan).popLoop"
	}
	e.settle()
	return e
}

// run calls Run(); the exit waiter starts with the first call. A later call must not add consumers:
// the number of goroutines inside this executor's popLoop is counted before and after.
func (e *exec) run() {
	before := c14q.CountIn(e.loopName)
	e.mu.Lock()
	e.rerunning = e.runs > 0
	e.mu.Unlock()
	e.runFn()
	e.runs++
	if e.runs == 1 {
		wait := e.waitFn
		e.exit = e.s.Go("exit", func() string { wait(); return "exited" })
	}
	e.settle()
	e.mu.Lock()
	e.rerunning = false
	e.mu.Unlock()
	if e.runs > 1 {
		if after := c14q.CountIn(e.loopName); after > before {
			e.extra += after - before
			e.hit("C14:"+kindName(e.kind)+".Run:second-call-adds-consumer", fmt.Sprintf("Run() call no. %d started %d more consumer goroutine(s) on %d lane(s)", e.runs, after-before, e.lanes))
		}
	}
}

func (e *exec) settle() {
	if err := c14q.Quiesce(10 * time.Second); err != nil {
		harnessFail(err)
	}
}

// body of every callee: record start (with the lane index it was given), wait for the script, record end.
type ctxKey struct{}

// what the lane handed the callee must be what the caller gave: its context (identity via a value, and Done state)
// and its argument
func (e *exec) checkHanded(c *call, ctx context.Context, arg interface{}, hasArg bool) {
	name := kindName(e.kind)
	if ctx == nil || ctx.Value(ctxKey{}) != c.id {
		var got interface{}
		if ctx != nil {
			got = ctx.Value(ctxKey{})
		}
		e.hit("C14:"+name+":wrong-context", fmt.Sprintf("the callee of call %d was handed a context that is not its caller's (tag %v)", c.id, got))
	} else if (ctx.Err() != nil) != c.cancelled {
		e.hit("C14:"+name+":wrong-context", fmt.Sprintf("the callee of call %d sees ctx.Err()=%v, the caller's context cancelled=%v", c.id, ctx.Err(), c.cancelled))
	}
	if hasArg && arg != c.id {
		e.hit("C14:"+name+":wrong-argument", fmt.Sprintf("the callee of call %d was handed argument %v", c.id, arg))
	}
}

func (e *exec) body(c *call, lane int, ctx context.Context, arg interface{}, hasArg bool) (interface{}, error) {
	e.mu.Lock()
	e.checkHanded(c, ctx, arg, hasArg)
	e.events = append(e.events, fmt.Sprintf("start:%d@%d", c.id, lane))
	c.starts++
	c.lane = lane
	c.running = true
	if e.kind != "pchan" && (c.ret == "closed" || c.ret == "full") {
		// line, mline, RunnerQ turn a caller away only when the call was not queued; a queued call's caller waits for its result
		e.hit("C14:"+kindName(e.kind)+":accepted-call-answered-as-rejected", fmt.Sprintf("call %d is executed although its caller had already been sent away with %s", c.id, c.ret))
	}
	if c.starts > 1 {
		e.hit("C14:"+kindName(e.kind)+":call-executed-twice", fmt.Sprintf("call %d was started %d times", c.id, c.starts))
		c.twice = true
		e.laneRun[lane] = c.id
		e.mu.Unlock()
		<-e.hold // park for good: letting the callee return a second time would double-close channels inside the library
	}
	if other, busy := e.laneRun[lane]; busy {
		e.hit("C14:"+kindName(e.kind)+":calls-overlap-on-lane", fmt.Sprintf("call %d started on lane %d while call %d was still running there", c.id, lane, other))
	}
	e.laneRun[lane] = c.id
	if last, ok := e.laneSeq[lane]; ok && last > c.id {
		e.hit("C14:"+kindName(e.kind)+":start-order", fmt.Sprintf("lane %d started call %d after call %d although it was accepted earlier", lane, c.id, last))
	}
	e.laneSeq[lane] = c.id
	if e.kind == "mline" {
		if want := safeSlot(c.hash, e.lanes); want >= 0 && lane != want {
			e.hit("C14:MultiLine:wrong-lane-for-hash", fmt.Sprintf("call %d (hash %d) ran in lane %d, its hash selects lane %d of %d: equal hashes no longer share a lane", c.id, c.hash, lane, want, e.lanes))
		}
	}
	if lane < 0 || lane >= e.lanes {
		e.hit("C14:NormalizeSlotIndex:out-of-range", fmt.Sprintf("callee of call %d (hash %d) was given lane index %d, lanes=%d", c.id, c.hash, lane, e.lanes))
	}
	if c.postStop {
		e.hit("C14:"+kindName(e.kind)+".addCallCtx:accepts-after-Stop", fmt.Sprintf("call %d was submitted after Stop had returned and was executed", c.id))
	}
	e.mu.Unlock()
	fv := <-c.gate
	if fv.boom {
		panic("boom-" + strconv.Itoa(c.id))
	}
	e.mu.Lock()
	e.events = append(e.events, fmt.Sprintf("end:%d", c.id))
	c.running = false
	c.fin = &fv
	delete(e.laneRun, lane)
	e.mu.Unlock()
	if fv.ok {
		return fv.v, nil
	}
	return nil, calleeErr{fv.v}
}

type procT struct {
	e *exec
	c *call
}

func (p procT) Do(ctx context.Context) (interface{}, error) { return p.e.body(p.c, 0, ctx, nil, false) }

func canon(r interface{}, err error) string {
	if err == nil {
		if v, ok := r.(int); ok {
			return "ok" + strconv.Itoa(v)
		}
		return fmt.Sprintf("ok?%v", r)
	}
	var ce calleeErr
	switch {
	case errors.As(err, &ce):
		return "err" + strconv.Itoa(ce.v)
	case errors.Is(err, context.Canceled):
		return "ctx"
	case err == pipe.ErrQueueClosed || err == async.ErrClosed:
		return "closed"
	case err == pipe.ErrQueueFull || err == async.ErrFull:
		return "full"
	}
	return "other:" + err.Error()
}

// callerObj: what a caller hands to AsyncCall/AsyncProc. A caller may use the same object again for its next call
// (`recall`), mutating it where the API lets it (line.CallCtx has exported fields): what an accepted call runs with
// must be what was passed at ACCEPT time.
type callerObj struct {
	lineCC *line.CallCtx
	mlCC   *mline.CallCtx
	proc   async.Proc
	deleg  async.Delegate
	fn     interface{}
}

// byCtx finds the call a callee invocation belongs to through the context it was handed (every submission has its own)
func (e *exec) byCtx(ctx context.Context, dflt *call) *call {
	if ctx != nil {
		if id, ok := ctx.Value(ctxKey{}).(int); ok && id >= 0 && id < len(e.calls) {
			return e.calls[id]
		}
	}
	return dflt
}

type procShared struct {
	e *exec
	c *call
}

func (p *procShared) Do(ctx context.Context) (interface{}, error) {
	return p.e.body(p.e.byCtx(ctx, p.c), 0, ctx, nil, false)
}

func (e *exec) submit(id, hash int, reuse *call) {
	cctx, cancel := context.WithCancel(context.Background())
	ctx := context.WithValue(cctx, ctxKey{}, id)
	c := &call{id: id, hash: hash, gate: make(chan finVal, 1), cancel: cancel, postStop: e.stopped}
	e.calls = append(e.calls, c)
	if reuse != nil && reuse.obj != nil {
		c.obj = reuse.obj
		if c.obj.lineCC != nil { // the caller re-fills its CallCtx for the new call
			c.obj.lineCC.Param = id
			c.obj.lineCC.Call = func(ctx context.Context, req interface{}) (interface{}, error) { return e.body(c, 0, ctx, req, true) }
		}
	} else {
		c.obj = &callerObj{}
		switch {
		case e.kind == "line":
			c.obj.lineCC = line.NewCallCtx(func(ctx context.Context, req interface{}) (interface{}, error) {
				return e.body(c, 0, ctx, req, true)
			}, id)
		case e.kind == "mline":
			first := c
			c.obj.mlCC = mline.NewCallCtx(hash, func(ctx context.Context, sIndex int, req interface{}) (interface{}, error) {
				t := e.byCtx(ctx, first)
				return e.body(t, sIndex, ctx, req, t == first)
			}, id)
		default:
			first := c
			c.obj.proc = &procShared{e, c}
			c.obj.deleg = func(ctx context.Context) (interface{}, error) { return e.body(e.byCtx(ctx, first), 0, ctx, nil, false) }
			c.obj.fn = func(ctx context.Context, a int) (interface{}, error) {
				t := e.byCtx(ctx, first)
				return e.body(t, 0, ctx, a, true)
			}
		}
	}
	obj := c.obj
	c.task = e.s.Go("call"+strconv.Itoa(id), func() string {
		switch e.kind {
		case "line":
			return canon(e.ln.AsyncCall(ctx, obj.lineCC))
		case "mline":
			return canon(e.ml.AsyncCall(ctx, obj.mlCC))
		case "runner":
			v := e.variant
			if v < 0 {
				v = id % 3
			}
			switch v {
			case 0:
				return canon(e.rq.AsyncCall(obj.fn, ctx, id))
			case 1:
				return canon(e.rq.AsyncDelegate(ctx, obj.deleg))
			default:
				return canon(e.rq.AsyncProc(ctx, obj.proc))
			}
		default:
			return canon(e.pc.AsyncProc(ctx, obj.proc))
		}
	})
}

// collect the new observable events after quiescence
func (e *exec) drain() string {
	e.settle()
	e.mu.Lock()
	evs := append([]string{}, e.events...)
	e.events = e.events[:0]
	e.mu.Unlock()
	for _, c := range e.calls {
		if c.task == nil || c.reported {
			continue
		}
		if done, r := c.task.Done(); done {
			c.reported = true
			if strings.HasPrefix(r, "panic:") {
				if strings.Contains(r, "index out of range") {
					e.hit("C14:NormalizeSlotIndex:out-of-range", fmt.Sprintf("call %d with hash %d on %d lanes: %s", c.id, c.hash, e.lanes, r))
				} else {
					e.hit("C14:"+kindName(e.kind)+":caller-panic", r)
				}
				r = "panic"
			}
			c.ret = r
			e.checkRouting(c)
			evs = append(evs, fmt.Sprintf("ret:%d:%s", c.id, r))
		}
	}
	if !e.exited && e.exit != nil {
		if done, _ := e.exit.Done(); done {
			e.exited = true
			evs = append(evs, "exited")
			if !e.stopped {
				e.hit("C14:"+kindName(e.kind)+":lane-exited-without-Stop", "lane goroutines terminated although Stop was never called")
			}
		}
	}
	e.checkStuck()
	if len(evs) == 0 {
		return "-"
	}
	sort.Strings(evs)
	return strings.Join(evs, ",")
}

// the value a caller got must be its own call's result, or its own context's error, or a rejection
func (e *exec) checkRouting(c *call) {
	e.mu.Lock()
	defer e.mu.Unlock()
	k := "C14:" + kindName(e.kind) + ":misrouted-result"
	switch {
	case strings.HasPrefix(c.ret, "ok") || strings.HasPrefix(c.ret, "err"):
		want := ""
		if c.fin != nil {
			if c.fin.ok {
				want = "ok" + strconv.Itoa(c.fin.v)
			} else {
				want = "err" + strconv.Itoa(c.fin.v)
			}
		}
		if c.ret != want {
			e.hit(k, fmt.Sprintf("caller of call %d received %s, its own callee returned %q", c.id, c.ret, want))
		}
	case c.ret == "ctx":
		if !c.cancelled {
			e.hit(k, fmt.Sprintf("caller of call %d received a context error although its context was never cancelled", c.id))
		}
	case c.ret == "closed":
		if !e.stopped {
			e.hit(k, fmt.Sprintf("caller of call %d received closed before Stop", c.id))
		} else if e.kind != "pchan" && c.starts > 0 {
			e.hit("C14:"+kindName(e.kind)+":accepted-call-answered-as-rejected", fmt.Sprintf("caller of call %d received closed although its call had been accepted and its callee had started: it gets neither its own result nor its own context's error", c.id))
		}
	case c.ret == "full":
		if e.capQ == 0 && e.kind != "pchan" {
			e.hit(k, fmt.Sprintf("caller of call %d received full from an unbounded queue", c.id))
		} else if e.kind != "pchan" {
			// a bounded queue turns a call away only when it HOLDS capacity-many calls; the call being executed has left it
			lane := 0
			if e.kind == "mline" {
				lane = safeSlot(c.hash, e.lanes)
			}
			queued := 0
			for _, o := range e.calls {
				ol := 0
				if e.kind == "mline" {
					ol = safeSlot(o.hash, e.lanes)
				}
				if o != c && o.task != nil && ol == lane && o.starts == 0 && o.ret != "closed" && o.ret != "full" && o.ret != "panic" {
					queued++
				}
			}
			if queued < e.capQ {
				e.hit("C14:"+kindName(e.kind)+":full-below-capacity", fmt.Sprintf("caller of call %d received full although its lane's queue (capacity %d) holds only %d call(s) that have not started", c.id, e.capQ, queued))
			}
		}
	case c.ret == "panic":
	default:
		e.hit(k, fmt.Sprintf("caller of call %d received %s", c.id, c.ret))
	}
}

// accepted reports whether the call was taken into a queue (observable: the caller was not turned away)
func (c *call) accepted() bool {
	return c.ret != "closed" && c.ret != "full" && c.ret != "panic" || c.starts > 0
}

// at quiescence a lane with an accepted, never started call and nothing running is stuck
func (e *exec) checkStuck() {
	if e.exited || e.runs == 0 {
		return
	}
	e.mu.Lock()
	defer e.mu.Unlock()
	busy := map[int]bool{}
	for l := range e.laneRun {
		busy[l] = true
	}
	for _, c := range e.calls {
		if c.starts > 0 || !c.accepted() || c.ret == "closed" {
			continue
		}
		if (e.kind == "runner" || e.kind == "pchan") && c.cancelled {
			continue
		}
		lane := 0
		if e.kind == "mline" {
			lane = safeSlot(c.hash, e.lanes)
		}
		if lane >= 0 && !busy[lane] {
			e.hit("C14:"+kindName(e.kind)+":lane-stuck", fmt.Sprintf("call %d waits in lane %d although nothing runs there (quiescent)", c.id, lane))
		}
	}
}

func safeSlot(hash, lanes int) (r int) {
	defer func() {
		if recover() != nil {
			r = -1
		}
	}()
	r = pipe.NormalizeSlotIndex(hash, lanes)
	if r < 0 || r >= lanes {
		return -1
	}
	return r
}

func (e *exec) stop() {
	switch e.kind {
	case "line":
		e.ln.Stop()
	case "mline":
		e.ml.Stop()
	case "runner":
		e.rq.Stop()
	default:
		e.pc.Stop()
	}
	e.stopped = true
}

// finish the script: Stop, let every running callee return, then check drain / termination on the real code.
func (e *exec) cleanup() {
	if e.extra > 0 {
		// extra consumers: Stop would drive the wait group negative inside the library; leave the goroutines behind
		e.mu.Lock()
		for _, c := range e.calls {
			select {
			case c.gate <- finVal{ok: true, v: 900 + c.id}:
			default:
			}
			c.cancel()
		}
		e.mu.Unlock()
		e.settle()
		return
	}
	if !e.stopped {
		e.stop()
	}
	neverRun := e.runs == 0
	if neverRun {
		e.run() // Run after Stop: the consumers drain the closed queues and leave
	}
	for round := 0; round < 10000; round++ {
		e.drain()
		any := false
		e.mu.Lock()
		for _, c := range e.calls {
			if c.running && !c.twice {
				any = true
				select {
				case c.gate <- finVal{ok: true, v: 900 + c.id}:
				default:
				}
			}
		}
		e.mu.Unlock()
		if !any {
			break
		}
	}
	e.drain()
	name := kindName(e.kind)
	for _, c := range e.calls {
		if c.twice { // the lane is blocked by the parked second execution: everything below would be a consequence
			for _, c := range e.calls {
				c.cancel()
			}
			e.settle()
			return
		}
	}
	if neverRun {
		for _, c := range e.calls {
			c.cancel()
		}
		e.settle()
		return
	}
	if !e.exited {
		e.hit("C14:"+name+":lane-not-terminated", "after Stop and after every running call returned, the lane goroutines are still alive")
	}
	if e.kind != "pchan" {
		for _, c := range e.calls {
			if !c.accepted() || c.postStop {
				continue
			}
			if c.starts == 0 && !(e.kind == "runner" && c.cancelled && c.cancelAt == 0) {
				e.hit("C14:"+name+":accepted-call-dropped", fmt.Sprintf("call %d was accepted before Stop but never executed", c.id))
			}
		}
	}
	for _, c := range e.calls {
		c.cancel()
	}
	e.settle()
}

// ---------------------------------------------------------------- parallel stress (real concurrency, child process)

// hx is one executor under parallel load: callees return at once, every caller checks that it got its own value.
type hx struct {
	kind    string
	variant int
	call    func(ctx context.Context, id int, hash int, fn func(ctx context.Context, arg interface{}, hasArg bool) (interface{}, error)) (interface{}, error)
	run     func()
	stop    func()
	wait    func()
}

func newHx(kind string, lanes int) *hx { return newHxCap(kind, lanes, 64) }

var hxCount int

func newHxCap(kind string, lanes, chanCap int) *hx {
	h := &hx{kind: kind, variant: -1}
	if v, ok := runnerVariants[kind]; ok {
		h.kind, h.variant = "runner", v
	}
	switch h.kind {
	case "line":
		wg := &sync.WaitGroup{}
		ln := line.NewLine(wg, line.WithQSize(0))
		h.run, h.stop, h.wait = ln.Run, ln.Stop, wg.Wait
		h.call = func(ctx context.Context, id, hash int, fn func(context.Context, interface{}, bool) (interface{}, error)) (interface{}, error) {
			return ln.AsyncCall(ctx, line.NewCallCtx(func(c context.Context, req interface{}) (interface{}, error) { return fn(c, req, true) }, id))
		}
	case "mline":
		ml := mline.NewMultiLine(pipe.WithSlotSize(lanes), pipe.WithQSize(0))
		h.run, h.stop, h.wait = ml.Run, ml.Stop, func() { _ = ml.WaitStop(context.Background()) }
		h.call = func(ctx context.Context, id, hash int, fn func(context.Context, interface{}, bool) (interface{}, error)) (interface{}, error) {
			return ml.AsyncCall(ctx, mline.NewCallCtx(hash, func(c context.Context, i int, req interface{}) (interface{}, error) { return fn(c, req, true) }, id))
		}
	case "runner":
		rq := async.NewRunnerQ(async.WithQSize(0))
		h.run, h.stop, h.wait = rq.Run, rq.Stop, rq.WaitStop
		if hxCount++; hxCount%2 == 0 {
			wg := &sync.WaitGroup{} // the optional caller-supplied wait group must be released too
			rq = async.NewRunnerQ(async.WithQSize(0), async.WithWaitGroup(wg))
			h.run, h.stop, h.wait = rq.Run, rq.Stop, func() { rq.WaitStop(); wg.Wait() }
		}
		h.call = func(ctx context.Context, id, hash int, fn func(context.Context, interface{}, bool) (interface{}, error)) (interface{}, error) {
			v := h.variant
			if v < 0 {
				v = id % 3
			}
			switch v {
			case 0:
				// the reflective entry validates and caches every callee TYPE on first use: use many types
				f, arg := typedCallee(id, fn)
				return rq.AsyncCall(f, ctx, arg)
			case 1:
				return rq.AsyncDelegate(ctx, func(c context.Context) (interface{}, error) { return fn(c, nil, false) })
			}
			return rq.AsyncProc(ctx, procF(func(c context.Context) (interface{}, error) { return fn(c, nil, false) }))
		}
	default:
		wg := &sync.WaitGroup{}
		pc := async.NewProcChan(async.WithQSize(chanCap), async.WithWaitGroup(wg))
		h.run, h.stop, h.wait = pc.Run, pc.Stop, wg.Wait
		h.call = func(ctx context.Context, id, hash int, fn func(context.Context, interface{}, bool) (interface{}, error)) (interface{}, error) {
			return pc.AsyncProc(ctx, procF(func(c context.Context) (interface{}, error) { return fn(c, nil, false) }))
		}
	}
	return h
}

// typedCallee builds a callee of one of 64 function types `func(context.Context, [k]byte) (interface{}, error)` (fresh types
// for every hammer round: typeSalt) whose argument carries the call id
var typeSalt int

func typedCallee(id int, fn func(context.Context, interface{}, bool) (interface{}, error)) (interface{}, interface{}) {
	arrT := reflect.ArrayOf(8+id%64+64*typeSalt, reflect.TypeOf(byte(0)))
	ctxT := reflect.TypeOf((*context.Context)(nil)).Elem()
	ifT := reflect.TypeOf((*interface{})(nil)).Elem()
	errT := reflect.TypeOf((*error)(nil)).Elem()
	ft := reflect.FuncOf([]reflect.Type{ctxT, arrT}, []reflect.Type{ifT, errT}, false)
	f := reflect.MakeFunc(ft, func(args []reflect.Value) []reflect.Value {
		got := 0
		for i := 0; i < 8; i++ {
			got |= int(args[1].Index(i).Uint()) << (8 * i)
		}
		ctx, _ := args[0].Interface().(context.Context)
		r, err := fn(ctx, got, true)
		rv, ev := reflect.New(ifT).Elem(), reflect.New(errT).Elem()
		if r != nil {
			rv.Set(reflect.ValueOf(r))
		}
		if err != nil {
			ev.Set(reflect.ValueOf(err))
		}
		return []reflect.Value{rv, ev}
	})
	arg := reflect.New(arrT).Elem()
	for i := 0; i < 8; i++ {
		arg.Index(i).SetUint(uint64(id>>(8*i)) & 0xff)
	}
	return f.Interface(), arg.Interface()
}

type procF func(ctx context.Context) (interface{}, error)

func (f procF) Do(ctx context.Context) (interface{}, error) { return f(ctx) }

// hammer: (A) parallel callers with immediately returning callees — each caller must get exactly its own value and
// every accepted call must have run exactly once; (B) Stop racing with a consumer that is just going idle — the lane
// goroutines must terminate. Real parallelism (GOMAXPROCS 4), judged by monitors only.
func hammer(kind string, seed, n int) map[string]string {
	defer runtime.GOMAXPROCS(runtime.GOMAXPROCS(4))
	hits := map[string]string{}
	var mu sync.Mutex
	hit := func(k, v string) {
		mu.Lock()
		if _, ok := hits[k]; !ok {
			hits[k] = v
		}
		mu.Unlock()
	}
	name := kindName(strings.Split(kind, "-")[0])
	if strings.HasPrefix(kind, "runner") {
		name = "RunnerQ"
	}
	waitExit := func(h *hx, what string) bool {
		done := make(chan struct{})
		go func() { h.wait(); close(done) }()
		// no timeout: once every goroutine is parked or gone, a lane that has not left never will
		if err := c14q.Quiesce(10 * time.Second); err != nil {
			harnessFail(err)
		}
		select {
		case <-done:
			return true
		default:
			hit("C14:"+name+":lane-not-terminated", what)
			return false
		}
	}
	typeSalt++
	// ---- A: parallel callers
	{
		h := newHx(kind, 3)
		h.run()
		const G = 4
		per := 2000 * n
		ran := make([]int32, G*per)
		var wg sync.WaitGroup
		for g := 0; g < G; g++ {
			g := g
			wg.Add(1)
			go func() {
				defer wg.Done()
				for j := 0; j < per; j++ {
					id := g*per + j
					ctx := context.WithValue(context.Background(), ctxKey{}, id)
					r, err := h.call(ctx, id, id%7-3, func(c context.Context, arg interface{}, hasArg bool) (interface{}, error) {
						atomic.AddInt32(&ran[id], 1)
						if c == nil || c.Value(ctxKey{}) != id {
							hit("C14:"+name+":wrong-context", fmt.Sprintf("parallel load: the callee of call %d was handed another context", id))
						}
						if hasArg && arg != id {
							hit("C14:"+name+":wrong-argument", fmt.Sprintf("parallel load: the callee of call %d was handed argument %v", id, arg))
						}
						if id%5 == 0 {
							return nil, calleeErr{id}
						}
						return id, nil
					})
					want := "ok" + strconv.Itoa(id)
					if id%5 == 0 {
						want = "err" + strconv.Itoa(id)
					}
					if got := canon(r, err); got != want {
						hit("C14:"+name+":misrouted-result", fmt.Sprintf("parallel load (%d callers): caller of call %d received %s, its own callee returned %s", G, id, got, want))
					}
				}
			}()
		}
		wg.Wait()
		for id, c := range ran {
			if c != 1 {
				hit("C14:"+name+":call-executed-twice", fmt.Sprintf("parallel load: call %d was executed %d times", id, c))
				break
			}
		}
		h.stop()
		waitExit(h, "after parallel load and Stop the lane goroutines are still alive")
	}
	// ---- B: Stop racing with the consumer going idle
	for round := 0; round < 500*n; round++ {
		h := newHx(kind, 1)
		h.run()
		for j := 0; j <= round%3; j++ {
			_, _ = h.call(context.WithValue(context.Background(), ctxKey{}, j), j, 0, func(context.Context, interface{}, bool) (interface{}, error) { return j, nil })
		}
		h.stop()
		if !waitExit(h, fmt.Sprintf("Stop right after the last result (round %d): the lane goroutine never terminated", round)) {
			break
		}
	}
	// ---- C: Stop racing with callers that are submitting: whatever a caller was told, it is told — a call is either
	// turned away or runs once and its caller gets the result; after Stop and quiescence no caller is left waiting
	for round := 0; round < 60*n; round++ {
		h := newHx(kind, 2)
		h.run()
		const G = 8
		var left, accepted, rejected int32 = G, 0, 0
		start := make(chan struct{})
		for g := 0; g < G; g++ {
			g := g
			go func() {
				defer atomic.AddInt32(&left, -1)
				<-start
				for j := 0; ; j++ {
					id := g*1000000 + j
					var ran int32
					r, err := h.call(context.WithValue(context.Background(), ctxKey{}, id), id, g, func(context.Context, interface{}, bool) (interface{}, error) {
						atomic.AddInt32(&ran, 1)
						return id, nil
					})
					got := canon(r, err)
					switch {
					case got == "ok"+strconv.Itoa(id):
						atomic.AddInt32(&accepted, 1)
					case got == "closed":
						atomic.AddInt32(&rejected, 1)
						if kind != "pchan" && atomic.LoadInt32(&ran) > 0 {
							hit("C14:"+name+":accepted-call-answered-as-rejected", fmt.Sprintf("Stop racing with %d callers (round %d): call %d was executed although its caller was sent away with closed", G, round, id))
						}
						return
					default:
						hit("C14:"+name+":misrouted-result", fmt.Sprintf("Stop racing with %d callers (round %d): caller of call %d received %s", G, round, id, got))
						return
					}
				}
			}()
		}
		close(start)
		for i := 0; i < round%7; i++ {
			runtime.Gosched()
		}
		h.stop()
		ok := waitExit(h, fmt.Sprintf("Stop racing with %d callers (round %d): the lane goroutines never terminated", G, round))
		if l := atomic.LoadInt32(&left); l > 0 {
			hit("C14:"+name+":accepted-call-dropped", fmt.Sprintf("Stop racing with %d callers (round %d): everything is parked, the lanes have %s, and %d caller(s) still wait for a result: their calls were accepted around Stop and are neither executed nor answered", G, round, map[bool]string{true: "exited", false: "not exited"}[ok], l))
			break
		}
		if !ok {
			break
		}
	}
	return hits
}

// stocklog: the executors in a process that uses the library as shipped — the default logger installed by ulog's own
// init(), SetDefaultLogger never called — with enough of them (n lanes of one MultiLine; n lines / runners / proc chans)
// that whatever the lane goroutines do on their way out (they log) happens hundreds of times in one process. The harness
// processes replace the logger, so this runs in a process of its own with stdout on /dev/null; it reports on stderr.
func stocklog(kind string, n int) map[string]string {
	hits := map[string]string{}
	null, err := os.OpenFile(os.DevNull, os.O_WRONLY, 0)
	if err != nil {
		harnessFail(err)
	}
	defer null.Close()
	cmd := osexec.Command(os.Args[0], "stocklog", kind, strconv.Itoa(n))
	cmd.Env = append(os.Environ(), "C14_STOCK_LOGGER=1")
	cmd.Stdout = null
	errb := &bytes.Buffer{}
	cmd.Stderr = errb
	if err := cmd.Start(); err != nil {
		harnessFail(err)
	}
	done := make(chan error, 1)
	go func() { done <- cmd.Wait() }()
	name := kindName(strings.Split(kind, "-")[0])
	if strings.HasPrefix(kind, "runner") {
		name = "RunnerQ"
	}
	select {
	case err = <-done:
	case <-time.After(30 * time.Second):
		_ = cmd.Process.Kill()
		<-done
		hits["C14:"+name+":operation-never-completes"] = fmt.Sprintf("stock logger, %d executors/lanes: the process did not finish within 30 s", n)
		return hits
	}
	msg := errb.String()
	for _, l := range strings.Split(msg, "\n") {
		if f := strings.SplitN(l, "\t", 3); len(f) == 3 && f[0] == "HIT" {
			if _, ok := hits[f[1]]; !ok {
				hits[f[1]] = f[2]
			}
		}
	}
	if err != nil && len(hits) == 0 {
		i := strings.Index(msg, "panic:")
		if j := strings.Index(msg, "fatal error:"); i < 0 || (j >= 0 && j < i) {
			i = j
		}
		if i < 0 || strings.Contains(msg, "harness error") {
			fmt.Fprintln(os.Stderr, msg)
			harnessFail(fmt.Errorf("stocklog child failed: %v", err))
		}
		first := strings.SplitN(msg[i:], "\n", 2)[0]
		hits["C14:"+name+":lane-goroutine-panic"] = "stock logger: the process died: " + first
	}
	return hits
}

// stockChild: `c14 stocklog <kind> <n>`, started with C14_STOCK_LOGGER=1 (see quietlog.go)
func stockChild(kind, ns string) {
	n, _ := strconv.Atoi(ns)
	name := kindName(strings.Split(kind, "-")[0])
	if strings.HasPrefix(kind, "runner") {
		name = "RunnerQ"
	}
	settle := func() {
		if err := c14q.Quiesce(10 * time.Second); err != nil {
			fmt.Fprintln(os.Stderr, "harness error:", err)
			os.Exit(2)
		}
	}
	var hs []*hx
	if kind == "mline" {
		hs = []*hx{newHxCap(kind, n, 4)}
	} else {
		for i := 0; i < n; i++ {
			hs = append(hs, newHxCap(kind, 1, 4))
		}
	}
	for i, h := range hs {
		h.run()
		id := i
		r, err := h.call(context.WithValue(context.Background(), ctxKey{}, id), id, id, func(context.Context, interface{}, bool) (interface{}, error) { return id, nil })
		if got := canon(r, err); got != "ok"+strconv.Itoa(id) {
			fmt.Fprintf(os.Stderr, "HIT\tC14:%s:misrouted-result\tstock logger: caller of call %d received %s\n", name, id, got)
		}
	}
	for _, h := range hs {
		h.stop()
	}
	left := int32(len(hs))
	for _, h := range hs {
		h := h
		go func() { h.wait(); atomic.AddInt32(&left, -1) }()
	}
	settle()
	if l := atomic.LoadInt32(&left); l > 0 {
		fmt.Fprintf(os.Stderr, "HIT\tC14:%s:lane-not-terminated\tprocess with the library's built-in default logger (SetDefaultLogger never called): after Stop of %d executor(s) with %d lane(s) in all, %d never finished stopping although every goroutine is parked; %d goroutine(s) are parked inside ulog, %d inside a lane loop\n",
			name, len(hs), n, l, c14q.CountIn("neptune/ulog."), c14q.CountIn("popLoop"))
	}
}

// backlog: one callee is held, n further calls are accepted behind it (line / multi-line: from one goroutine, in a known
// order, with contexts that are already done — the caller leaves at once, the call stays queued and must still run;
// runner / pchan: n parallel callers), then the callee is released. Every accepted call runs exactly once (line /
// multi-line: in acceptance order), every caller that waits gets its own value, the lane lives until Stop.
func backlog(kind string, n int) map[string]string {
	defer runtime.GOMAXPROCS(runtime.GOMAXPROCS(4))
	hits := map[string]string{}
	var mu sync.Mutex
	hit := func(k, v string) {
		mu.Lock()
		if _, ok := hits[k]; !ok {
			hits[k] = v
		}
		mu.Unlock()
	}
	name := kindName(strings.Split(kind, "-")[0])
	if strings.HasPrefix(kind, "runner") {
		name = "RunnerQ"
	}
	settle := func() {
		if err := c14q.Quiesce(10 * time.Second); err != nil {
			harnessFail(err)
		}
	}
	typeSalt++
	h := newHxCap(kind, 1, n+2)
	h.run()
	gate := make(chan struct{})
	var order []int // ids in execution order
	ran := make([]int32, n+2)
	callee := func(id int) func(context.Context, interface{}, bool) (interface{}, error) {
		return func(c context.Context, arg interface{}, hasArg bool) (interface{}, error) {
			if id == 0 {
				<-gate
			}
			atomic.AddInt32(&ran[id], 1)
			mu.Lock()
			order = append(order, id)
			mu.Unlock()
			if hasArg && arg != id {
				hit("C14:"+name+":wrong-argument", fmt.Sprintf("backlog of %d: the callee of call %d was handed argument %v", n, id, arg))
			}
			return id, nil
		}
	}
	tag := func(id int) context.Context { return context.WithValue(context.Background(), ctxKey{}, id) }
	first := make(chan string, 1)
	go func() { r, err := h.call(tag(0), 0, 0, callee(0)); first <- canon(r, err) }()
	settle()
	sequential := h.kind == "line" || h.kind == "mline"
	// runner and pchan skip a call whose context is done, so their callers must stay: up to 150 calls they are submitted
	// one at a time (known acceptance order), above that in parallel (order unknown, everything else still checked)
	ordered := sequential || n <= 150
	var wg sync.WaitGroup
	if sequential {
		for id := 1; id <= n; id++ {
			ctx, cancel := context.WithCancel(tag(id))
			cancel()
			if _, err := h.call(ctx, id, 0, callee(id)); err != context.Canceled {
				hit("C14:"+name+":misrouted-result", fmt.Sprintf("backlog: a caller whose context was done got %v", err))
			}
		}
	} else {
		for id := 1; id <= n; id++ {
			id := id
			wg.Add(1)
			go func() {
				defer wg.Done()
				r, err := h.call(tag(id), id, 0, callee(id))
				if got := canon(r, err); got != "ok"+strconv.Itoa(id) {
					hit("C14:"+name+":misrouted-result", fmt.Sprintf("backlog of %d: caller of call %d received %s", n, id, got))
				}
			}()
			if ordered {
				settle() // the caller is parked waiting for its result: the call is accepted before the next one is submitted
			}
		}
		settle()
	}
	close(gate)
	if got := <-first; got != "ok0" {
		hit("C14:"+name+":misrouted-result", "backlog: the caller of the held call received "+got)
	}
	// a sentinel behind everything: when it has run, every call accepted before it has been handled
	sent := make(chan string, 1)
	go func() { r, err := h.call(tag(n+1), n+1, 0, callee(n+1)); sent <- canon(r, err) }()
	settle()
	select {
	case got := <-sent:
		if got != "ok"+strconv.Itoa(n+1) {
			hit("C14:"+name+":misrouted-result", "backlog: the sentinel's caller received "+got)
		}
	default:
		hit("C14:"+name+":lane-stuck", fmt.Sprintf("backlog of %d: a call submitted behind the backlog never returned although everything is parked", n))
	}
	if !sequential {
		fin := make(chan struct{})
		go func() { wg.Wait(); close(fin) }()
		settle()
		select {
		case <-fin:
		default:
			hit("C14:"+name+":accepted-call-dropped", fmt.Sprintf("backlog of %d: some callers never got their result although everything is parked", n))
		}
	}
	mu.Lock()
	got := append([]int{}, order...)
	mu.Unlock()
	for id := 0; id <= n+1; id++ {
		switch c := atomic.LoadInt32(&ran[id]); {
		case c == 0:
			hit("C14:"+name+":accepted-call-dropped", fmt.Sprintf("backlog of %d: accepted call %d was never executed (%d of %d ran)", n, id, len(got), n+2))
		case c > 1:
			hit("C14:"+name+":call-executed-twice", fmt.Sprintf("backlog of %d: call %d was executed %d times", n, id, c))
		}
		if c := atomic.LoadInt32(&ran[id]); c != 1 {
			break
		}
	}
	if ordered {
		for i := 1; i < len(got); i++ {
			if got[i] < got[i-1] {
				hit("C14:"+name+":start-order", fmt.Sprintf("backlog of %d: call %d ran after call %d although it was accepted earlier", n, got[i], got[i-1]))
				break
			}
		}
	}
	done := make(chan struct{})
	go func() { h.wait(); close(done) }()
	settle()
	select {
	case <-done:
		hit("C14:"+name+":lane-exited-without-Stop", fmt.Sprintf("backlog of %d: the lane goroutine left although Stop was never called", n))
	default:
	}
	h.stop()
	settle()
	select {
	case <-done:
	default:
		hit("C14:"+name+":lane-not-terminated", fmt.Sprintf("backlog of %d: after Stop the lane goroutine is still alive", n))
	}
	return hits
}

// ---------------------------------------------------------------- script runner

func parseInt64(s string) (int, bool) {
	v, err := strconv.ParseInt(s, 10, 64)
	if err != nil {
		return 0, false
	}
	if strings.HasPrefix(s, "+") {
		return 0, false
	}
	return int(v), true
}

func parseNat(s string) (int, bool) {
	if s == "" || len(s) > 9 {
		return 0, false
	}
	for _, ch := range s {
		if ch < '0' || ch > '9' {
			return 0, false
		}
	}
	v, _ := strconv.Atoi(s)
	return v, true
}

func runScript(lines []string) ([]string, map[string]string) {
	currentScript = lines
	var e *exec
	hits := map[string]string{}
	merge := func() {
		if e != nil {
			e.cleanup()
			for k, v := range e.hits {
				if _, ok := hits[k]; !ok {
					hits[k] = v
				}
			}
			e = nil
		}
	}
	var outs []string
	for _, l := range lines {
		f := strings.Split(l, " ")
		var w []string
		for _, x := range f {
			if x != "" {
				w = append(w, x)
			}
		}
		out := "bad-op"
		switch {
		case len(w) == 4 && w[0] == "new":
			merge()
			n, ok1 := parseNat(w[2])
			c, ok2 := parseNat(w[3])
			kinds := map[string]bool{"line": true, "mline": true, "runner": true, "pchan": true,
				"runner-call": true, "runner-delegate": true, "runner-proc": true}
			if kinds[w[1]] && ok1 && ok2 && n >= 1 && n <= 1024 && c <= 1024 && (w[1] == "mline" || n == 1) {
				e = newExec(w[1], n, c)
				out = "ok"
			}
		case len(w) == 3 && w[0] == "slot":
			h, ok1 := parseInt64(w[1])
			s, ok2 := parseInt64(w[2])
			if ok1 && ok2 && s > 0 {
				r := pipe.NormalizeSlotIndex(h, s)
				out = strconv.Itoa(r)
				if r < 0 || r >= s {
					if _, ok := hits["C14:NormalizeSlotIndex:out-of-range"]; !ok {
						hits["C14:NormalizeSlotIndex:out-of-range"] = fmt.Sprintf("NormalizeSlotIndex(%d, %d) = %d", h, s, r)
					}
				}
				if s <= 1024 {
					ix := mline.NewMultiLine(pipe.WithSlotSize(s), pipe.WithQSize(1))
					if ix.IndexOf(h) != r {
						hits["C14:MultiLine.IndexOf:differs-from-NormalizeSlotIndex"] = fmt.Sprintf("IndexOf(%d) on %d slots = %d, NormalizeSlotIndex = %d", h, s, ix.IndexOf(h), r)
					}
				}
			}
		case len(w) == 3 && w[0] == "call" && e != nil:
			id, ok1 := parseNat(w[1])
			h, ok2 := parseInt64(w[2])
			if ok1 && ok2 && id == len(e.calls) {
				e.submit(id, h, nil)
				out = e.drain()
			}
		case len(w) == 3 && w[0] == "recall" && e != nil:
			id, ok1 := parseNat(w[1])
			old, ok2 := parseNat(w[2])
			if ok1 && ok2 && id == len(e.calls) && old < id {
				e.submit(id, e.calls[old].hash, e.calls[old])
				out = e.drain()
			}
		case len(w) == 4 && w[0] == "fin" && e != nil:
			id, ok1 := parseNat(w[1])
			v, ok2 := parseNat(w[3])
			if ok1 && ok2 && (w[2] == "ok" || w[2] == "err") && id < len(e.calls) {
				c := e.calls[id]
				e.mu.Lock()
				running := c.running && !c.twice
				e.mu.Unlock()
				if running {
					c.gate <- finVal{ok: w[2] == "ok", v: v}
					out = e.drain()
				} else {
					out = "not-running"
				}
			}
		case len(w) == 2 && w[0] == "cancel" && e != nil:
			id, ok1 := parseNat(w[1])
			if ok1 && id < len(e.calls) {
				c := e.calls[id]
				if !c.cancelled {
					c.cancelled = true
					e.mu.Lock()
					c.cancelAt = c.starts
					e.mu.Unlock()
				}
				c.cancel()
				out = e.drain()
			}
		case len(w) == 1 && w[0] == "stop" && e != nil:
			e.stop()
			out = e.drain()
		case len(w) == 4 && w[0] == "hammer":
			_, okk := runnerVariants[w[1]]
			seed, ok1 := parseNat(w[2])
			n, ok2 := parseNat(w[3])
			if (okk || w[1] == "line" || w[1] == "mline" || w[1] == "pchan") && ok1 && ok2 && n <= 64 {
				for k, v := range hammer(w[1], seed, n) {
					if _, ok := hits[k]; !ok {
						hits[k] = v
						if hitSink != nil {
							hitSink(k, v)
						}
					}
				}
				out = "done"
			}
		case len(w) == 3 && w[0] == "stocklog":
			_, okk := runnerVariants[w[1]]
			n, ok1 := parseNat(w[2])
			if (okk || w[1] == "line" || w[1] == "mline" || w[1] == "pchan") && ok1 && n >= 1 && n <= 2000 {
				for k, v := range stocklog(w[1], n) {
					if _, ok := hits[k]; !ok {
						hits[k] = v
						if hitSink != nil {
							hitSink(k, v)
						}
					}
				}
				out = "done"
			}
		case len(w) == 3 && w[0] == "backlog":
			_, okk := runnerVariants[w[1]]
			n, ok1 := parseNat(w[2])
			if (okk || w[1] == "line" || w[1] == "mline" || w[1] == "pchan") && ok1 && n >= 1 && n <= 5000 {
				for k, v := range backlog(w[1], n) {
					if _, ok := hits[k]; !ok {
						hits[k] = v
						if hitSink != nil {
							hitSink(k, v)
						}
					}
				}
				out = "done"
			}
		case len(w) == 1 && w[0] == "run" && e != nil:
			e.run()
			out = e.drain()
		case len(w) == 2 && w[0] == "boom" && e != nil:
			id, ok1 := parseNat(w[1])
			if ok1 && id < len(e.calls) {
				c := e.calls[id]
				e.mu.Lock()
				running := c.running && !c.twice
				e.mu.Unlock()
				out = "not-running"
				if running {
					// no executor recovers a callee's panic: the process is expected to die here (child process)
					c.gate <- finVal{boom: true}
					e.settle()
					time.Sleep(50 * time.Millisecond)
					out = "survived-callee-panic:" + e.drain()
					e.hit("C14:"+kindName(e.kind)+":callee-panic-swallowed", fmt.Sprintf("the callee of call %d panicked, the process went on: %s", id, out))
				}
			}
		}
		if progress != nil {
			progress(len(outs), out)
		}
		outs = append(outs, out)
	}
	merge()
	return outs, hits
}

// Scripts whose outcome depends on something the script cannot fix are executed several times on the real code so
// that the monitors see every resolution with high probability:
//   - Go's random `select` (ProcChan, a call submitted after Stop);
//   - object reuse between calls (a caller gives up while its call is still queued, then more calls are submitted):
//     whether a recycled object (sync.Pool and the like) is handed to the next call depends on the P the goroutines
//     run on, so these scripts run with GOMAXPROCS(1), where a per-P free slot is reused almost surely.
func amplify(tag string, lines []string) (n int, oneP bool) {
	many := tag == "replay" || tag == "corpus" || strings.HasPrefix(tag, "witness")
	pchan, stopped, cancelled := false, false, false
	runs := 0
	for _, l := range lines {
		switch {
		case strings.HasPrefix(l, "boom "):
			return 1, true // the process is expected to die: child process
		case l == "run":
			if runs++; runs > 1 {
				n, oneP = 2, true // a second consumer would make Stop crash inside the library: child process
			}
		case strings.HasPrefix(l, "hammer "), strings.HasPrefix(l, "backlog "), strings.HasPrefix(l, "stocklog "):
			return 1, false
		case strings.HasPrefix(l, "new "):
			pchan, stopped, cancelled, runs = strings.HasPrefix(l, "new pchan "), false, false, 0
		case l == "stop":
			stopped = true
		case strings.HasPrefix(l, "cancel "):
			cancelled = true
		case strings.HasPrefix(l, "call ") && pchan && stopped:
			if many {
				return 64, oneP
			}
			return 6, oneP
		case (strings.HasPrefix(l, "call ") || strings.HasPrefix(l, "recall ")) && cancelled && !stopped:
			switch {
			case strings.HasPrefix(tag, "witness"):
				n, oneP = 12, true
			case many:
				n, oneP = 32, true
			case strings.HasPrefix(tag, "giveup"):
				n, oneP = 6, true
			case strings.HasSuffix(tag, "+giveup"):
				n, oneP = 3, true
			case strings.HasPrefix(l, "recall "):
				n, oneP = 2, true
			}
		}
	}
	if n == 0 {
		n = 1
	}
	return n, oneP
}

type childReq struct {
	Lines []string `json:"lines"`
	N     int      `json:"n"`
	OneP  bool     `json:"onep"`
}

// runScriptChild: `c14 runscript` — a server loop: one JSON request per input line; executes the script N times with
// GOMAXPROCS(1) in this (child) process and streams `O <json outs>` (first execution), `H <json hit>` lines and a final
// `E`. A panic inside a library goroutine kills only this child; the parent turns that into an observation.
func runScriptChild() {
	procs := runtime.GOMAXPROCS(0)
	in := bufio.NewScanner(os.Stdin)
	in.Buffer(make([]byte, 1<<20), 1<<26)
	w := bufio.NewWriter(os.Stdout)
	for in.Scan() {
		var req childReq
		if err := json.Unmarshal(in.Bytes(), &req); err != nil {
			fmt.Fprintln(os.Stderr, "harness error: runscript:", err)
			os.Exit(2)
		}
		if req.OneP {
			runtime.GOMAXPROCS(1)
		} else {
			runtime.GOMAXPROCS(procs)
		}
		seen := map[string]bool{}
		hitSink = func(key, what string) {
			if !seen[key] {
				seen[key] = true
				b, _ := json.Marshal(corr.Hit{Key: key, What: what})
				fmt.Fprintf(w, "H %s\n", b)
				w.Flush()
			}
		}
		for i := 0; i < req.N; i++ {
			progress = nil
			if i == 0 {
				progress = func(j int, out string) {
					b, _ := json.Marshal(out)
					fmt.Fprintf(w, "o %s\n", b)
					w.Flush()
				}
			}
			outs, hits := runScript(req.Lines)
			if i == 0 {
				b, _ := json.Marshal(outs)
				fmt.Fprintf(w, "O %s\n", b)
			}
			var keys []string
			for k := range hits {
				keys = append(keys, k)
			}
			sort.Strings(keys)
			for _, k := range keys {
				if !seen[k] {
					seen[k] = true
					b, _ := json.Marshal(corr.Hit{Key: k, What: hits[k]})
					fmt.Fprintf(w, "H %s\n", b)
				}
			}
			w.Flush()
			if len(seen) > 0 && i >= 2 {
				break
			}
		}
		fmt.Fprintln(w, "E")
		w.Flush()
	}
}

func scriptKind(lines []string) string {
	k := "Line"
	for _, l := range lines {
		if f := strings.Fields(l); len(f) >= 2 && (f[0] == "new" || f[0] == "hammer" || f[0] == "backlog" || f[0] == "stocklog") {
			name := f[1]
			if strings.HasPrefix(name, "runner") {
				name = "runner"
			}
			k = kindName(name)
		}
	}
	return k
}

type childProc struct {
	cmd   *osexec.Cmd
	in    *bufio.Writer
	out   *bufio.Scanner
	errb  *bytes.Buffer
	stdin interface{ Close() error }
}

var child *childProc

// a script that does not finish in this time hangs inside the code under test (ordinary scripts take milliseconds)
const childTimeout = 45 * time.Second

func startChild() *childProc {
	cmd := osexec.Command(os.Args[0], "runscript")
	stdin, err := cmd.StdinPipe()
	if err != nil {
		harnessFail(err)
	}
	stdout, err := cmd.StdoutPipe()
	if err != nil {
		harnessFail(err)
	}
	errb := &bytes.Buffer{}
	cmd.Stderr = errb
	if err := cmd.Start(); err != nil {
		harnessFail(err)
	}
	sc := bufio.NewScanner(stdout)
	sc.Buffer(make([]byte, 1<<20), 1<<26)
	return &childProc{cmd: cmd, in: bufio.NewWriter(stdin), out: sc, errb: errb, stdin: stdin}
}

func (c *childProc) stop() {
	_ = c.stdin.Close()
	_ = c.cmd.Process.Kill()
	_ = c.cmd.Wait()
}

// runInChild runs the script in the child process (GOMAXPROCS 1); a crash of the child is an observation, not a harness error.
func runInChild(lines []string, n int, oneP bool) corr.Result {
	var res corr.Result
	if child == nil {
		child = startChild()
	}
	c := child
	b, _ := json.Marshal(childReq{Lines: lines, N: n, OneP: oneP})
	c.in.Write(b)
	c.in.WriteByte('\n')
	c.in.Flush()
	ended := false
	var partial []string
	timer := time.AfterFunc(childTimeout, func() { _ = c.cmd.Process.Kill() })
	for c.out.Scan() {
		l := c.out.Text()
		if l == "E" {
			ended = true
			break
		}
		switch {
		case strings.HasPrefix(l, "o ") && res.Outs == nil:
			var o string
			if json.Unmarshal([]byte(l[2:]), &o) == nil {
				partial = append(partial, o)
			}
		case strings.HasPrefix(l, "O "):
			_ = json.Unmarshal([]byte(l[2:]), &res.Outs)
		case strings.HasPrefix(l, "H "):
			var h corr.Hit
			if json.Unmarshal([]byte(l[2:]), &h) == nil {
				dup := false
				for _, old := range res.Hits {
					dup = dup || old.Key == h.Key
				}
				if !dup {
					res.Hits = append(res.Hits, h)
				}
			}
		}
	}
	killed := !timer.Stop()
	if !ended {
		_ = c.stdin.Close()
		_ = c.cmd.Wait()
		child = nil
		msg := c.errb.String()
		fill := func() {
			if len(res.Outs) != len(lines) {
				res.Outs = append([]string{}, partial...)
				for len(res.Outs) < len(lines) {
					res.Outs = append(res.Outs, "crashed")
				}
			}
		}
		if killed {
			// the code under test hangs (e.g. a spinning lock): an observation, with the script as replay
			res.Hits = append(res.Hits, corr.Hit{Key: "C14:" + scriptKind(lines) + ":operation-never-completes",
				What: fmt.Sprintf("the script did not finish within %v (stopped at op %d of %d); the process was killed", childTimeout, len(partial)+1, len(lines))})
			fill()
			return res
		}
		if strings.Contains(msg, "no quiescent snapshot within") {
			// goroutines of the code under test keep running without any stimulus
			at := msg[strings.Index(msg, "no quiescent snapshot within"):]
			if len(at) > 600 {
				at = at[:600]
			}
			res.Hits = append(res.Hits, corr.Hit{Key: "C14:" + scriptKind(lines) + ":goroutines-never-quiesce", What: strings.ReplaceAll(at, "\n", " | ")})
			fill()
			return res
		}
		if strings.Contains(msg, "harness error") || !(strings.Contains(msg, "panic:") || strings.Contains(msg, "fatal error:")) {
			fmt.Fprintln(os.Stderr, msg)
			harnessFail(fmt.Errorf("child failed while running %v", lines))
		}
		// a callee that panics takes the process down in every executor: expected where the script says `boom`
		if res.Outs == nil && len(partial) < len(lines) && strings.HasPrefix(lines[len(partial)], "boom ") &&
			strings.Contains(msg, "panic: boom-"+strings.TrimPrefix(lines[len(partial)], "boom ")) {
			res.Outs = append([]string{}, partial...)
			for len(res.Outs) < len(lines) {
				res.Outs = append(res.Outs, "crash")
			}
			return res
		}
		first, where := "panic", ""
		for _, l := range strings.Split(msg, "\n") {
			if first == "panic" && (strings.HasPrefix(l, "panic:") || strings.HasPrefix(l, "fatal error:")) {
				first = l
			}
			if where == "" && strings.Contains(l, "github.com/pinealctx/neptune/syncx/pipe/") && strings.Contains(l, "(") {
				where = strings.TrimSpace(l)
				if i := strings.LastIndex(where, "("); i > 0 {
					where = where[:i]
				}
			}
		}
		res.Hits = append(res.Hits, corr.Hit{Key: "C14:" + scriptKind(lines) + ":lane-goroutine-panic",
			What: fmt.Sprintf("the process died while running the script: %s (in %s)", first, where)})
	} else if len(res.Hits) > 0 {
		// goroutines parked by a misbehaving run would slow every later snapshot: continue in a fresh process
		c.stop()
		child = nil
	}
	if len(res.Outs) != len(lines) {
		res.Outs = append([]string{}, partial...)
		for len(res.Outs) < len(lines) {
			res.Outs = append(res.Outs, "crashed")
		}
	}
	return res
}

func runCase(c corr.Case) corr.Result {
	// every script runs in the child process: a panic in a goroutine of the code under test, a runtime fatal error or a
	// hang then is an observation (monitor hit with the script as replay), never a failure of this process
	n, oneP := amplify(c.Tag, c.Lines)
	return runInChild(c.Lines, n, oneP)
}

// ---------------------------------------------------------------- generator

var hashPool = []int{0, 1, 2, 3, 4, 5, 7, 508, 509, 510, 1018, -1, -2, -3, -5, -509, -510, math.MinInt64, math.MinInt64 + 1, math.MinInt64 + 2,
	math.MaxInt64, math.MaxInt64 - 1, math.MinInt32, math.MaxInt32, -(1 << 62), 1 << 62}

func pickHash(r *rng.R) int {
	switch r.Intn(10) {
	case 0, 1, 2, 3:
		return r.Range(0, 6)
	case 4, 5:
		return -r.Range(1, 6)
	case 6:
		return int(r.I64())
	default:
		return hashPool[r.Intn(len(hashPool))]
	}
}

// genScript builds one mostly-valid script, using a light simulation only to pick useful operations.
func genScript(r *rng.R, tier string) (script []string, giveUp bool) {
	kind := r.Pick("line", "mline", "mline", "runner", "runner", "runner-call", "pchan", "pchan")
	lanes := 1
	if kind == "mline" {
		lanes = r.PickInt(1, 2, 2, 3, 3, 5, 7)
		if r.Chance(1, 60) {
			lanes = 509
		}
	}
	capQ := r.PickInt(0, 0, 1, 1, 2, 3)
	lines := []string{fmt.Sprintf("new %s %d %d", kind, lanes, capQ)}
	nops := r.Range(5, 14)
	if tier != "quick" {
		nops = r.Range(5, 22)
	}
	type lane struct {
		q       []int
		running int
	}
	ls := map[int]*lane{}
	get := func(i int) *lane {
		if ls[i] == nil {
			ls[i] = &lane{running: -1}
		}
		return ls[i]
	}
	cancelled := map[int]bool{}
	queuedCancel := false // a caller gave up while its call was still queued
	skipKind := strings.HasPrefix(kind, "runner") || kind == "pchan"
	next, stopped, postStop := 0, false, 0
	stopAt := -1
	if r.Chance(7, 10) {
		stopAt = r.Range(1, nops)
	}
	var advance func(l *lane)
	advance = func(l *lane) {
		for l.running < 0 && len(l.q) > 0 {
			c := l.q[0]
			l.q = l.q[1:]
			if skipKind && cancelled[c] {
				continue
			}
			l.running = c
		}
	}
	for i := 0; i < nops; i++ {
		if i == stopAt {
			lines = append(lines, "stop")
			stopped = true
			continue
		}
		var runningIDs []int
		for _, l := range ls {
			if l.running >= 0 {
				runningIDs = append(runningIDs, l.running)
			}
		}
		sort.Ints(runningIDs)
		choice := r.Intn(10)
		switch {
		case choice < 4 || next == 0:
			if stopped && kind == "pchan" && postStop >= 4 {
				continue
			}
			h := pickHash(r)
			lines = append(lines, fmt.Sprintf("call %d %d", next, h))
			if queuedCancel && !stopped {
				giveUp = true
			}
			li := 0
			if kind == "mline" {
				li = safeSlot(h, lanes)
			}
			if stopped {
				postStop++
			}
			if li >= 0 && !stopped {
				l := get(li)
				room := capQ == 0 || len(l.q) < capQ
				if kind == "pchan" {
					room = len(l.q) < capQ || (l.running < 0 && len(l.q) == 0)
				}
				if room {
					l.q = append(l.q, next)
					advance(l)
				}
			}
			next++
		case choice < 8 && len(runningIDs) > 0:
			id := runningIDs[r.Intn(len(runningIDs))]
			lines = append(lines, fmt.Sprintf("fin %d %s %d", id, r.Pick("ok", "ok", "err"), r.Range(0, 99)))
			for _, l := range ls {
				if l.running == id {
					l.running = -1
					advance(l)
				}
			}
		case choice < 9:
			id := r.Intn(next)
			lines = append(lines, fmt.Sprintf("cancel %d", id))
			cancelled[id] = true
			for _, l := range ls {
				for _, q := range l.q {
					if q == id {
						queuedCancel = true
					}
				}
			}
		default:
			if r.Bool() {
				lines = append(lines, fmt.Sprintf("fin %d ok %d", r.Intn(next), r.Range(0, 99))) // often not running
			} else {
				lines = append(lines, "stop")
				stopped = true
			}
		}
	}
	return lines, giveUp
}

var giveupKinds = []string{"line", "mline", "runner", "runner-call", "runner-call", "runner-delegate", "runner-proc", "pchan"}

// genGiveUp: the lane is busy, callers give up while their calls are still queued, more calls are submitted,
// then the lane drains (every call that runs is finished in order).
func genGiveUp(r *rng.R, kind string) []string {
	capQ := r.PickInt(0, 0, 8, 16)
	if kind == "pchan" {
		capQ = r.PickInt(8, 16)
	}
	lines := []string{fmt.Sprintf("new %s 1 %d", kind, capQ)}
	h := r.Range(0, 5)
	next := 0
	call := func() {
		lines = append(lines, fmt.Sprintf("call %d %d", next, h))
		next++
	}
	call() // occupies the lane
	rounds := r.Range(1, 3)
	for k := 0; k < rounds; k++ {
		first := next
		for i, m := 0, r.Range(1, 3); i < m; i++ {
			call()
		}
		for id := first; id < next; id++ {
			if id == first || r.Bool() {
				lines = append(lines, fmt.Sprintf("cancel %d", id))
			}
		}
		for i, m := 0, r.Range(1, 3); i < m; i++ {
			if r.Bool() { // the caller that gave up re-uses its call object for the next call
				lines = append(lines, fmt.Sprintf("recall %d %d", next, first))
				next++
			} else {
				call()
			}
		}
	}
	stopAt := -1
	if r.Chance(1, 3) {
		stopAt = r.Intn(next)
	}
	for id := 0; id < next; id++ {
		if id == stopAt {
			lines = append(lines, "stop")
		}
		lines = append(lines, fmt.Sprintf("fin %d %s %d", id, r.Pick("ok", "ok", "err"), r.Range(0, 99)))
	}
	return lines
}

// withRun inserts `run` after every `new` line (mode 0), or later / never for the first executor (modes 1, 2).
func withRun(lines []string, mode int) []string {
	var out []string
	first := true
	for i, l := range lines {
		out = append(out, l)
		if strings.HasPrefix(l, "new ") {
			switch {
			case mode == 0 || !first:
				out = append(out, "run")
			case mode == 1: // later: after about a third of the script
				at := i + 1 + (len(lines)-i)/3
				rest := append([]string{}, lines[i+1:]...)
				if at-i-1 > len(rest) {
					at = i + 1 + len(rest)
				}
				out = append(out, rest[:at-i-1]...)
				out = append(out, "run")
				out = append(out, rest[at-i-1:]...)
				return out
			}
			first = false
		}
	}
	return out
}

func genRunTwice(r *rng.R, kind string) []string {
	lanes := 1
	if kind == "mline" {
		lanes = r.PickInt(1, 2, 3)
	}
	lines := []string{fmt.Sprintf("new %s %d %d", kind, lanes, r.PickInt(0, 4, 8)), "run"}
	next := 0
	second := r.Range(0, 3)
	n := r.Range(3, 6)
	for i := 0; i < n; i++ {
		if i == second {
			lines = append(lines, "run")
		}
		lines = append(lines, fmt.Sprintf("call %d %d", next, r.Range(0, 2)))
		next++
	}
	for id := 0; id < next; id++ {
		lines = append(lines, fmt.Sprintf("fin %d ok %d", id, r.Range(0, 99)))
	}
	return lines
}

func genBoom(r *rng.R, kind string) []string {
	lines := []string{fmt.Sprintf("new %s 1 %d", kind, r.PickInt(0, 4, 8)), "run"}
	n := r.Range(1, 4)
	for id := 0; id < n; id++ {
		lines = append(lines, fmt.Sprintf("call %d 1", id))
	}
	victim := r.Intn(n)
	for id := 0; id < victim; id++ {
		lines = append(lines, fmt.Sprintf("fin %d %s %d", id, r.Pick("ok", "err"), r.Range(0, 99)))
	}
	lines = append(lines, fmt.Sprintf("boom %d", victim))
	for id := victim + 1; id < n; id++ {
		lines = append(lines, fmt.Sprintf("fin %d ok %d", id, r.Range(0, 99)))
	}
	return lines
}

// genSaturate: MultiLine with small queues, several calls with the same hash until the lane is full
func genSaturate(r *rng.R) []string {
	lanes, capQ := r.PickInt(2, 2, 3, 5), r.PickInt(1, 1, 2)
	lines := []string{fmt.Sprintf("new mline %d %d", lanes, capQ)}
	next := 0
	hs := []int{r.Range(-6, 6), r.Range(-6, 6)}
	var ids []int
	for i, n := 0, r.Range(4, 8); i < n; i++ {
		lines = append(lines, fmt.Sprintf("call %d %d", next, hs[r.Intn(2)]))
		ids = append(ids, next)
		next++
	}
	for _, id := range ids {
		lines = append(lines, fmt.Sprintf("fin %d ok %d", id, r.Range(0, 99)))
	}
	for _, id := range ids {
		lines = append(lines, fmt.Sprintf("fin %d ok %d", id, r.Range(0, 99)))
	}
	return lines
}

func genKernel(r *rng.R) []string {
	lines := []string{"new line 1 0"}
	for i := 0; i < 10; i++ {
		s := r.PickInt(1, 2, 3, 5, 7, 127, 509, 1024, 1<<31, math.MaxInt64, r.Range(1, 1000))
		h := hashPool[r.Intn(len(hashPool))]
		if r.Chance(1, 3) {
			h = int(r.I64())
		}
		if r.Chance(1, 4) {
			s = int(r.U64()>>1) | 1
		}
		lines = append(lines, fmt.Sprintf("slot %d %d", h, s))
	}
	return lines
}

func genGarbage(r *rng.R) []string {
	toks := []string{"backlog", "stocklog", "new", "call", "recall", "fin", "cancel", "stop", "run", "boom", "hammer", "slot", "line", "mline", "pchan", "runner", "runner-call", "runner-x", "ok", "err", "0", "1", "-1", "x",
		"99999999999999999999", "1e3", "+1", "", "  ", "0x10", "-9223372036854775809"}
	lines := []string{r.Pick("new line 1 1", "new mline 2 0", "new bogus 1 1", "new line 2 0", "new pchan 1 1", "new runner 0 0")}
	for i := 0; i < 8; i++ {
		n := r.Range(0, 5)
		var w []string
		for j := 0; j < n; j++ {
			w = append(w, toks[r.Intn(len(toks))])
		}
		lines = append(lines, strings.Join(w, " "))
	}
	return lines
}

func fixedCases() []corr.Case {
	var cs []corr.Case
	raw := func(tag string, lines ...string) { cs = append(cs, corr.Case{Tag: tag, Lines: lines}) }
	add := func(tag string, lines ...string) { raw(tag, withRun(lines, 0)...) }
	min := strconv.Itoa(math.MinInt64)
	// F13: MinInt on the default 509 lanes
	add("witness-F13", "new mline 509 0", "slot "+min+" 509", "call 0 "+min, "call 1 -151", "call 2 151", "fin 1 ok 5")
	add("witness-F13", "new mline 3 1", "call 0 "+min, "call 1 -2", "call 2 2", "call 3 5", "call 4 -1", "fin 1 ok 1", "stop", "fin 2 err 2")
	// F14: ProcChan, calls after Stop while the consumer is busy
	add("witness-F14", "new pchan 1 8", "call 0 0", "stop", "call 1 0", "call 2 0", "call 3 0", "call 4 0", "fin 0 ok 1", "fin 1 ok 2", "fin 2 ok 3", "fin 3 ok 4", "fin 4 ok 5")
	add("boundary", "new pchan 1 0", "call 0 0", "call 1 0", "fin 0 ok 1", "call 2 0", "cancel 2", "stop", "call 3 0", "fin 2 err 1")
	add("boundary", "new pchan 1 2", "call 0 0", "call 1 0", "call 2 0", "call 3 0", "cancel 1", "fin 0 ok 1", "fin 2 ok 2", "stop")
	// stop with a backlog: everything accepted still runs, in order
	for _, k := range []string{"line", "mline", "runner"} {
		add("boundary", "new "+k+" 1 0", "call 0 1", "call 1 1", "call 2 1", "call 3 1", "stop", "call 4 1", "fin 0 ok 10", "fin 1 err 11", "fin 2 ok 12", "fin 3 ok 13")
		add("boundary", "new "+k+" 1 2", "call 0 1", "call 1 1", "call 2 1", "call 3 1", "cancel 1", "cancel 0", "fin 0 ok 10", "fin 1 ok 11", "fin 2 ok 12", "stop", "stop")
		add("boundary", "new "+k+" 1 1", "stop", "call 0 0", "fin 0 ok 1", "cancel 0")
	}
	// a caller gives up while its call is queued; later calls must each run once and get their own result
	for _, k := range []string{"line", "mline", "runner", "runner-call", "runner-delegate", "runner-proc", "pchan"} {
		add("witness-giveup", "new "+k+" 1 8", "call 0 1", "call 1 1", "cancel 1", "call 2 1", "call 3 1", "fin 0 ok 10", "fin 1 ok 11", "fin 2 ok 12", "fin 3 err 13", "call 4 1", "fin 4 ok 14", "stop")
		add("witness-giveup", "new "+k+" 1 8", "call 0 1", "call 1 1", "call 2 1", "cancel 2", "cancel 1", "call 3 1", "call 4 1", "cancel 3", "call 5 1", "fin 0 ok 10", "fin 1 ok 11", "fin 2 ok 12", "fin 3 ok 13", "fin 4 ok 14", "fin 5 ok 15", "stop")
	}
	for _, k := range []string{"line", "mline", "runner-call", "runner-delegate", "runner-proc", "pchan"} {
		// the caller gives up while queued and re-uses (re-fills) the same call object for its next call
		add("witness-reuse", "new "+k+" 1 8", "call 0 1", "call 1 1", "cancel 1", "recall 2 1", "fin 0 ok 10", "fin 1 ok 11", "fin 2 ok 12", "stop")
		add("witness-reuse", "new "+k+" 1 8", "call 0 1", "call 1 1", "call 2 1", "cancel 1", "recall 3 1", "cancel 3", "recall 4 1", "fin 0 ok 10", "fin 1 err 11", "fin 2 ok 12", "fin 3 ok 13", "fin 4 ok 14")
	}
	// a full lane rejects: a call never spills to another lane (equal hash → same lane, index = the hash's lane)
	add("witness-saturate", "new mline 2 1", "call 0 0", "call 1 0", "call 2 0", "call 3 2", "call 4 1", "fin 0 ok 1", "fin 1 ok 2", "fin 4 ok 3", "call 5 0", "stop")
	add("witness-saturate", "new mline 3 1", "call 0 -4", "call 1 2", "call 2 2", "call 3 2", "call 4 5", "fin 1 ok 1", "fin 2 ok 2", "fin 0 ok 3")
	add("boundary", "new mline 2 0", "call 0 0", "call 1 1", "call 2 2", "call 3 3", "call 4 -1", "call 5 -2", "fin 1 ok 1", "fin 0 ok 0", "stop", "fin 2 ok 2", "fin 3 ok 3", "fin 4 ok 4", "fin 5 ok 5")
	for _, k := range []string{"line", "mline", "runner-call", "runner-delegate", "runner-proc", "pchan"} {
		// Run twice: still one consumer per lane, calls on one lane never overlap
		raw("witness-runtwice", "new "+k+" 1 4", "run", "run", "call 0 1", "call 1 1", "fin 0 ok 1", "fin 1 ok 2")
		raw("witness-runtwice", "new "+k+" 1 4", "run", "call 0 1", "run", "call 1 1", "call 2 1", "fin 0 ok 1", "fin 1 ok 2", "run", "fin 2 ok 3")
		// calls before Run wait; Run after Stop drains; Stop without Run
		raw("boundary-run", "new "+k+" 1 4", "call 0 1", "call 1 1", "run", "fin 0 ok 1", "fin 1 err 2", "stop")
		raw("boundary-run", "new "+k+" 1 4", "call 0 1", "stop", "call 1 1", "run", "fin 0 ok 1")
		raw("boundary-run", "new "+k+" 1 4", "stop", "run", "call 0 1")
		raw("boundary-run", "new "+k+" 1 4", "call 0 1", "cancel 0", "stop")
		// a callee that panics: no executor recovers it (the process dies); it must not be run a second time
		raw("witness-boom", "new "+k+" 1 4", "run", "call 0 1", "call 1 1", "boom 0", "fin 1 ok 1")
		raw("witness-boom", "new "+k+" 1 4", "run", "call 0 1", "fin 0 ok 1", "call 1 1", "boom 1")
		raw("hammer", "new line 1 0", "hammer "+k+" 1 4")
		raw("backlog", "new line 1 0", "backlog "+k+" 70", "backlog "+k+" 300")
		raw("stocklog", "stocklog "+k+" 300")
	}
	raw("stocklog", "stocklog mline 509") // the default slot count
	return cs
}

func spec() corr.Spec {
	return corr.Spec{
		Property: "C14",
		Fixed:    fixedCases,
		Count: func(tier string) int {
			switch tier {
			case "quick":
				return 2400
			case "thorough":
				return 60000
			}
			return 5000 // search (S7, after a broken tie): the fixed witnesses come first; keep a run through S7 short
		},
		Shards: func(tier string) int {
			if tier == "quick" {
				return 4
			}
			return 10
		},
		Gen: func(r *rng.R, tier string, i int) corr.Case {
			switch {
			case i%25 == 7:
				return corr.Case{Tag: "kernel", Lines: genKernel(r)}
			case i%40 == 11:
				return corr.Case{Tag: "malformed", Lines: genGarbage(r)}
			case i%16 == 5:
				k := giveupKinds[(i/16)%len(giveupKinds)]
				return corr.Case{Tag: "giveup-" + k, Lines: withRun(genGiveUp(r, k), 0)}
			case i%50 == 19:
				return corr.Case{Tag: "saturate", Lines: withRun(genSaturate(r), 0)}
			case i%50 == 9:
				k := giveupKinds[(i/50)%len(giveupKinds)]
				return corr.Case{Tag: "runtwice-" + k, Lines: genRunTwice(r, k)}
			case i%50 == 29:
				k := giveupKinds[(i/50)%len(giveupKinds)]
				return corr.Case{Tag: "boom-" + k, Lines: genBoom(r, k)}
			case i%307 == 83 || (tier != "quick" && i%101 == 83): // prime moduli: the heavy classes spread over all shards
				k := giveupKinds[(i/101)%len(giveupKinds)]
				return corr.Case{Tag: "backlog", Lines: []string{"new line 1 0", fmt.Sprintf("backlog %s %d", k, r.PickInt(65, 130, 300, 1000, 3000))}}
			case i%409 == 201 || (tier != "quick" && i%211 == 201):
				k := giveupKinds[(i/211)%len(giveupKinds)]
				return corr.Case{Tag: "stocklog", Lines: []string{fmt.Sprintf("stocklog %s %d", r.Pick(k, "mline"), r.PickInt(300, 509, 700))}}
			case i%401 == 63 || (tier != "quick" && i%103 == 63):
				k := giveupKinds[(i/103)%len(giveupKinds)]
				return corr.Case{Tag: "hammer", Lines: []string{"new line 1 0", fmt.Sprintf("hammer %s %d %d", k, r.Range(0, 1<<20), r.Range(2, 6))}}
			}
			ls, giveUp := genScript(r, tier)
			mode := 0
			switch {
			case i%12 == 1:
				mode = 1 // Run later: calls before Run wait in the queue
			case i%40 == 3:
				mode = 2 // never Run
			}
			ls = withRun(ls, mode)
			tag := "script-" + strings.Fields(ls[0])[1]
			if giveUp {
				tag += "+giveup"
			}
			return corr.Case{Tag: tag, Lines: ls}
		},
		Run: runCase,
		NonTrivial: func(c corr.Case, r corr.Result) bool {
			starts := 0
			for _, o := range r.Outs {
				starts += strings.Count(o, "start:")
			}
			return len(c.Lines) >= 4 && (starts >= 1 || c.Tag == "kernel")
		},
		Rule: "scripts of call/fin/cancel/stop over one executor (line, mline with 1..7 or 509 lanes, runner with its three context kinds, pchan), queue bounds 0..3, hashes incl. negatives, MinInt, MaxInt; kernel cases evaluate NormalizeSlotIndex on boundary/random pairs; a case is non-trivial when it has >= 3 ops and at least one call was executed (or it is a kernel case); distinct = distinct script text",
		Assumptions: []string{
			"Go runtime: a runnable goroutine eventually runs; sync.Mutex/Cond, channels, select and context behave as documented (modelled, not verified)",
			"each script step is observed at quiescence (every goroutine with a neptune or harness frame parked or gone), so a script is a path of the model's transition system; interleavings inside ProcChan's select are covered by the theorems and the shape facts only",
			"progress clauses are proved as bounded remaining steps of the consumer plus no-stuck-state; fairness of the scheduler is assumed",
		},
		Trusted: []string{"go/lib/go2lean (kernel translator), go/lib/sched (quiescence detection on goroutine states of go1.23)"},
	}
}
