// Command c14: extractor and correspondence runner for property C14 (actor lanes:
// line.Line, mline.MultiLine, async.RunnerQ, async.ProcChan, pipe.NormalizeSlotIndex).
package main

import (
	"bufio"
	"bytes"
	"context"
	"encoding/json"
	"errors"
	"fmt"
	"math"
	"os"
	osexec "os/exec"
	"path/filepath"
	"runtime"
	"sort"
	"strconv"
	"strings"
	"sync"
	"time"

	"github.com/pinealctx/neptune/syncx/pipe"
	"github.com/pinealctx/neptune/syncx/pipe/async"
	"github.com/pinealctx/neptune/syncx/pipe/line"
	"github.com/pinealctx/neptune/syncx/pipe/mline"

	"nvharness/lib/c14q"
	"nvharness/lib/corr"
	"nvharness/lib/go2lean"
	"nvharness/lib/gofacts"
	_ "nvharness/lib/quiet"
	"nvharness/lib/rng"
	"nvharness/lib/sched"
)

func main() {
	if len(os.Args) < 2 {
		fmt.Fprintln(os.Stderr, "usage: c14 extract|corr …")
		os.Exit(2)
	}
	switch os.Args[1] {
	case "extract":
		extract(os.Args[2], os.Args[3])
	case "corr":
		corr.Main(spec(), os.Args[2:])
	case "runscript":
		runScriptChild()
	default:
		os.Exit(2)
	}
}

// ---------------------------------------------------------------- extract

func all(bs ...bool) bool {
	for _, b := range bs {
		if !b {
			return false
		}
	}
	return true
}

func extract(repo, leanDir string) {
	// kernel
	p, err := go2lean.LoadPkg(repo, "syncx/pipe")
	if err != nil {
		fmt.Fprintln(os.Stderr, "extract:", err)
		os.Exit(2)
	}
	kernel := ""
	kmsg := "translated"
	if errs := p.TranslateAll("NormalizeSlotIndex"); len(errs) > 0 {
		// untranslatable: no definition is emitted, so the tie (and the oracle) break instead of guessing
		kmsg = "UNTRANSLATABLE " + strings.Join(go2lean.SortedErrs(errs), "; ")
		kernel = "-- NormalizeSlotIndex left the translatable subset: " + strings.ReplaceAll(kmsg, "\n", " ") + "\n"
	} else {
		kernel = p.Emit()
		ks := p.Kernels()
		if len(ks) != 1 || ks[0].Lean != "normalizeSlotIndex" || len(ks[0].Params) != 2 || len(ks[0].Exts)+len(ks[0].Fields)+len(ks[0].Globals) != 0 {
			kmsg = "UNEXPECTED-SIGNATURE"
			kernel = "-- NormalizeSlotIndex: unexpected signature after translation\n"
		}
	}

	ln := gofacts.MustLoad(repo, "syncx/pipe/line/line.go")
	lnc := gofacts.MustLoad(repo, "syncx/pipe/line/ctx.go")
	ml := gofacts.MustLoad(repo, "syncx/pipe/mline/mline.go")
	mlc := gofacts.MustLoad(repo, "syncx/pipe/mline/ctx.go")
	rn := gofacts.MustLoad(repo, "syncx/pipe/async/runner.go")
	rc := gofacts.MustLoad(repo, "syncx/pipe/async/ctx.go")
	pc := gofacts.MustLoad(repo, "syncx/pipe/async/procchan.go")
	pq := gofacts.MustLoad(repo, "syncx/pipe/q/q.go")
	aq := gofacts.MustLoad(repo, "syncx/pipe/async/q.go")

	popAnyway := func(body, recv string) bool {
		return gofacts.Has(body, recv+".PopAnyway()") && !gofacts.Has(body, recv+".Pop()")
	}
	linePop := popAnyway(ln.Body("Line", "popLoop"), "c.q")
	mlinePop := popAnyway(ml.Body("MultiLine", "popLoop"), "mq") && gofacts.Has(ml.Body("MultiLine", "popLoop"), "mq = c.qs[index]")
	runnerPop := popAnyway(rn.Body("RunnerQ", "popLoop"), "c.q")

	lineOne := gofacts.Has(ln.Body("Line", "Run"), "{ c.startOnce.Do(func() { c.wg.Add(1) go c.popLoop() }) }")
	mlinePer := gofacts.Has(ml.Body("MultiLine", "Run"), "{ for i := 0; i < c.slotSize; i++ { go c.popLoop(i) } }")
	onceRun := "{ c.startOnce.Do(func() { if c.wg != nil { c.wg.Add(1) } go c.popLoop() }) }"
	runnerOne := gofacts.Has(rn.Body("RunnerQ", "Run"), onceRun)
	pchanOne := gofacts.Has(pc.Body("ProcChan", "Run"), onceRun)

	resBuffered := func(f *gofacts.File) bool {
		return all(gofacts.Has(f.Body("", "newAsyncCtx"), "rChan: make(chan AsyncR, 1)"),
			gofacts.Has(f.Body("AsyncCtx", "SetR"), "{ m.rChan <- AsyncR{ r: r, err: err, } }"),
			gofacts.Has(f.Body("AsyncCtx", "R"), "{ select { case <-m.ctx.Done(): return nil, m.ctx.Err() case rc := <-m.rChan: return rc.r, rc.err } }"))
	}
	lineBuf := resBuffered(lnc) && gofacts.Has(ln.Body("Line", "popLoop"), "r, err = ac.call(ac.ctx, ac.param) if err != nil { ac.SetR(nil, err) } else { ac.SetR(r, nil) }")
	mlineBuf := resBuffered(mlc) && gofacts.Has(ml.Body("MultiLine", "popLoop"), "r, err = ac.call(ac.ctx, index, ac.param) if err != nil { ac.SetR(nil, err) } else { ac.SetR(r, nil) }")

	twoWay := "{ select { case <-c.ctx.Done(): return nil, c.ctx.Err() case <-c.wait: return c.result, c.err } }"
	threeWay := "{ select { case <-c.ctx.Done(): return nil, c.ctx.Err() case <-stopChan: return nil, ErrClosed case <-c.wait: return c.result, c.err } }"
	skip := "select { case <-c.ctx.Done(): c.err = c.ctx.Err() return default: }"
	runnerWait, skips := true, true
	for _, t := range []string{"callCtxT", "delegateCtxT", "procCtxT"} {
		run := rc.Body(t, "run")
		runnerWait = runnerWait && gofacts.Has(run, "defer close(c.wait)") && gofacts.Has(rc.Body(t, "r"), twoWay)
		skips = skips && gofacts.Has(run, skip) && gofacts.Before(run, "defer close(c.wait)", skip)
	}
	runnerWait = runnerWait && gofacts.Has(rn.Body("RunnerQ", "popLoop"), "cc.run()")
	prun := pc.Body("procChanCtxT", "run")
	pchanWait := gofacts.Has(prun, "defer close(c.wait)") && gofacts.Has(pc.Body("procChanCtxT", "r"), threeWay) &&
		gofacts.Has(pc.Body("ProcChan", "popLoop"), "select { case cc = <-c.ch: cc.run() case <-c.stopChan:")
	skips = skips && gofacts.Has(prun, skip) && gofacts.Before(prun, "defer close(c.wait)", skip)

	stopOnce := all(gofacts.Has(ln.Body("Line", "Stop"), "{ c.stopOnce.Do(func() { c.q.Close() }) }"),
		gofacts.Has(ml.Body("MultiLine", "Stop"), "{ c.stopOnce.Do(c.stop) }"),
		gofacts.Has(ml.Body("MultiLine", "stop"), "for i := 0; i < c.slotSize; i++ { c.qs[i].Close() }"),
		gofacts.Has(rn.Body("RunnerQ", "Stop"), "{ c.stopOnce.Do(func() { c.q.Close() }) }"),
		gofacts.Has(pc.Body("ProcChan", "Stop"), "{ c.stopOnce.Do(func() { close(c.stopChan) }) }"))

	mlAdd := ml.Body("MultiLine", "addCallCtx")
	laneIsSlot := all(gofacts.Has(mlAdd, "var slotIndex = pipe.NormalizeSlotIndex(callCtx.hashIndex, c.slotSize)"),
		gofacts.Has(mlAdd, "c.qs[slotIndex].AddReq(proc)"),
		gofacts.Has(ml.Body("MultiLine", "IndexOf"), "{ return pipe.NormalizeSlotIndex(i, c.slotSize) }"),
		gofacts.Has(ln.Body("Line", "addCallCtx"), "c.q.AddReq(proc)"),
		gofacts.Has(rn.Body("RunnerQ", "addCallCtx"), "c.q.Add(callCtx)"),
		gofacts.Has(rn.Body("RunnerQ", "addDelegateCtx"), "c.q.Add(delegateCtx)"),
		gofacts.Has(rn.Body("RunnerQ", "addProcCtx"), "c.q.Add(procCtx)"))

	fifo := func(f *gofacts.File, add, fullErr, max string) bool {
		a := f.Body("Q", add)
		po := f.Body("Q", "pop")
		return all(gofacts.Has(a, "{ a.lock.Lock() defer a.lock.Unlock() if a.closed { return ErrClosed } if a."+max+" > 0 { if a.reqList.Len() >= a."+max+" { return "+fullErr+" } } a.reqList.PushBack(req) a.cond.Broadcast() return nil }"),
			gofacts.Has(po, "{ a.lock.Lock() defer a.lock.Unlock() for a.reqList.Len() == 0 { if a.closed { return nil, ErrClosed } a.cond.Wait() } if checkClose { if a.closed { return nil, ErrClosed } }"),
			gofacts.Has(po, "var front = a.reqList.Front() if front != nil { a.reqList.Remove(front) return front.Value, nil }"),
			gofacts.Has(f.Body("Q", "PopAnyway"), "{ return a.pop(false) }"),
			gofacts.Has(f.Body("Q", "Close"), "a.closed = true a.cond.Broadcast()"))
	}
	qFifo := fifo(pq, "AddReq", "ErrReqQFull", "reqMaxNum") && fifo(aq, "Add", "ErrFull", "size")

	// every accepted call owns a freshly allocated context object; the entry points only add it and wait on it
	lit := func(f *gofacts.File, fn, want string) bool { return gofacts.Norm(f.Body("", fn)) == gofacts.Norm(want) }
	meth := func(f *gofacts.File, recv, fn, want string) bool {
		return gofacts.Norm(f.Body(recv, fn)) == gofacts.Norm(want)
	}
	asyncCtx := "{ return &AsyncCtx{ ctx: ctx, call: call, param: param, rChan: make(chan AsyncR, 1), } }"
	fresh := all(
		lit(lnc, "newAsyncCtx", asyncCtx), lit(mlc, "newAsyncCtx", asyncCtx),
		lit(rc, "newCallCtx", `{ var fnType, valid = validateFn(fn) if !valid { panic("new async call in case function is nil") } return &callCtxT{ ctx: ctx, functionType: fnType, functionValue: reflect.ValueOf(fn), arg: arg, wait: make(chan struct{}), } }`),
		lit(rc, "newDelegateCtx", "{ return &delegateCtxT{ ctx: ctx, delegate: delegate, wait: make(chan struct{}), } }"),
		lit(rc, "newProcCtx", "{ return &procCtxT{ ctx: ctx, proc: proc, wait: make(chan struct{}), } }"),
		lit(pc, "newProcChanCtx", "{ return &procChanCtxT{ ctx: ctx, proc: proc, wait: make(chan struct{}), } }"),
		meth(ln, "Line", "AsyncCall", "{ var proc, err = c.addCallCtx(ctx, callCtx) if err != nil { return nil, err } return proc.R() }"),
		meth(ml, "MultiLine", "AsyncCall", "{ var proc, err = c.addCallCtx(ctx, callCtx) if err != nil { return nil, err } return proc.R() }"),
		meth(ln, "Line", "addCallCtx", "{ var proc = newAsyncCtx(ctx, callCtx.Call, callCtx.Param) var err = pipe.ConvertQueueErr(c.q.AddReq(proc)) return proc, err }"),
		meth(ml, "MultiLine", "addCallCtx", "{ var slotIndex = pipe.NormalizeSlotIndex(callCtx.hashIndex, c.slotSize) var proc = newAsyncCtx(ctx, callCtx.call, callCtx.param) var err = pipe.ConvertQueueErr(c.qs[slotIndex].AddReq(proc)) return proc, err }"),
		meth(rn, "RunnerQ", "AsyncCall", "{ var proc, err = c.addCallCtx(ctx, fn, arg) if err != nil { return nil, err } return proc.r() }"),
		meth(rn, "RunnerQ", "AsyncDelegate", "{ var procCtx, err = c.addDelegateCtx(ctx, delegate) if err != nil { return nil, err } return procCtx.r() }"),
		meth(rn, "RunnerQ", "AsyncProc", "{ var procCtx, err = c.addProcCtx(ctx, proc) if err != nil { return nil, err } return procCtx.r() }"),
		meth(rn, "RunnerQ", "addCallCtx", "{ var callCtx = newCallCtx(ctx, fn, arg) var err = c.q.Add(callCtx) return callCtx, err }"),
		meth(rn, "RunnerQ", "addDelegateCtx", "{ var delegateCtx = newDelegateCtx(ctx, delegate) var err = c.q.Add(delegateCtx) return delegateCtx, err }"),
		meth(rn, "RunnerQ", "addProcCtx", "{ var procCtx = newProcCtx(ctx, proc) var err = c.q.Add(procCtx) return procCtx, err }"),
		meth(pc, "ProcChan", "AsyncProc", "{ var procCtx, err = c.addCallCtx(ctx, proc) if err != nil { return nil, err } return procCtx.r(c.stopChan) }"),
		gofacts.Has(pc.Body("ProcChan", "addCallCtx"), "{ var procCtx = newProcChanCtx(ctx, proc) select {"),
		lit(lnc, "NewCallCtx", "{ return &CallCtx{ Call: call, Param: param, } }"),
		lit(mlc, "NewCallCtx", "{ return &CallCtx{ call: call, param: param, hashIndex: hashIndex, } }"))

	// ProcChan accept path
	accept := "unknown"
	padd := pc.Body("ProcChan", "addCallCtx")
	three := "select { case c.ch <- procCtx: return procCtx, nil case <-c.stopChan: return procCtx, ErrClosed default: return procCtx, ErrFull }"
	pre := "select { case <-c.stopChan: return procCtx, ErrClosed default: }"
	switch {
	case gofacts.Has(padd, pre) && gofacts.Has(padd, three) && gofacts.Before(padd, pre, three):
		accept = "stopFirst"
	case gofacts.Has(padd, "{ var procCtx = newProcChanCtx(ctx, proc) "+three+" }"):
		accept = "racyThreeWaySelect"
	}

	facts := []bool{linePop, mlinePop, runnerPop, lineOne, mlinePer, runnerOne, pchanOne, lineBuf, mlineBuf, runnerWait, pchanWait,
		skips, stopOnce, laneIsSlot, qFifo, fresh}
	var fs []string
	for _, b := range facts {
		fs = append(fs, gofacts.LeanBool(b))
	}
	out := "import Nv.Model.C14\nset_option linter.unusedVariables false\n" +
		"/-! GENERATED by `c14 extract` from syncx/pipe/{util.go,line,mline,async,q} — do not edit. -/\n" +
		"namespace Nv.Gen.C14\n" + kernel +
		"def cfg : Nv.C14.Cfg := ⟨." + accept + "⟩\n" +
		"def facts : Nv.C14.Facts := ⟨" + strings.Join(fs, ", ") + "⟩\n" +
		"end Nv.Gen.C14\n"
	if err := gofacts.WriteIfChanged(filepath.Join(leanDir, "Nv/Gen/C14.lean"), out); err != nil {
		fmt.Fprintln(os.Stderr, err)
		os.Exit(2)
	}
	fmt.Printf("extract C14: kernel NormalizeSlotIndex %s; pchanAccept=%s facts=%s\n", kmsg, accept, strings.Join(fs, ","))
}

// ---------------------------------------------------------------- the real executors under a scheduler

type calleeErr struct{ v int }

func (e calleeErr) Error() string { return "callee-error-" + strconv.Itoa(e.v) }

type finVal struct {
	ok bool
	v  int
}

type call struct {
	id        int
	hash      int
	gate      chan finVal
	cancel    context.CancelFunc
	cancelled bool // cancel issued by the script
	cancelAt  int  // number of starts of this call seen when cancel was issued
	task      *sched.Task
	reported  bool
	ret       string // canonical result the caller got ("" while parked)
	postStop  bool   // submitted after Stop returned
	starts    int
	lane      int
	running   bool
	fin       *finVal // what the callee returned
	seq       int     // order of submission among calls accepted (for order monitor)
	twice     bool    // the callee was entered a second time (it is parked for good)
}

type exec struct {
	variant int // RunnerQ context kind: -1 alternate by call id, 0 reflective call, 1 delegate, 2 proc
	kind    string
	lanes   int
	capQ    int
	s       *sched.S
	ln      *line.Line
	ml      *mline.MultiLine
	rq      *async.RunnerQ
	pc      *async.ProcChan
	exit    *sched.Task
	exited  bool
	stopped bool
	mu      sync.Mutex
	events  []string
	calls   []*call
	hits    map[string]string
	laneRun map[int]int // lane -> id of the call running there (monitor)
	laneSeq map[int]int // lane -> id of the last call started there
	hold    chan struct{}
}

var currentScript []string

func harnessFail(err error) {
	fmt.Fprintln(os.Stderr, "harness error while running script", currentScript, ":", err)
	os.Exit(2)
}

func (e *exec) hit(key, what string) {
	if e.hits == nil {
		e.hits = map[string]string{}
	}
	if _, ok := e.hits[key]; !ok {
		e.hits[key] = what
	}
}

func kindName(k string) string {
	switch k {
	case "line":
		return "Line"
	case "mline":
		return "MultiLine"
	case "runner":
		return "RunnerQ"
	}
	return "ProcChan"
}

var runnerVariants = map[string]int{"runner": -1, "runner-call": 0, "runner-delegate": 1, "runner-proc": 2}

func newExec(kind string, lanes, capQ int) *exec {
	variant := -1
	if v, ok := runnerVariants[kind]; ok {
		kind, variant = "runner", v
	}
	e := &exec{hold: make(chan struct{}), variant: variant, kind: kind, lanes: lanes, capQ: capQ, s: sched.New(), laneRun: map[int]int{}, laneSeq: map[int]int{}}
	switch kind {
	case "line":
		wg := &sync.WaitGroup{}
		e.ln = line.NewLine(wg, line.WithQSize(capQ), line.WithName("verif"))
		e.ln.Run()
		e.exit = e.s.Go("exit", func() string { wg.Wait(); return "exited" })
	case "mline":
		e.ml = mline.NewMultiLine(pipe.WithSlotSize(lanes), pipe.WithQSize(capQ))
		e.ml.Run()
		e.exit = e.s.Go("exit", func() string { _ = e.ml.WaitStop(context.Background()); return "exited" })
	case "runner":
		e.rq = async.NewRunnerQ(async.WithQSize(capQ), async.WithName("verif"))
		e.rq.Run()
		e.exit = e.s.Go("exit", func() string { e.rq.WaitStop(); return "exited" })
	case "pchan":
		wg := &sync.WaitGroup{}
		e.pc = async.NewProcChan(async.WithQSize(capQ), async.WithWaitGroup(wg), async.WithName("verif"))
		e.pc.Run()
		e.exit = e.s.Go("exit", func() string { wg.Wait(); return "exited" })
	}
	e.settle()
	return e
}

func (e *exec) settle() {
	if err := c14q.Quiesce(20 * time.Second); err != nil {
		harnessFail(err)
	}
}

// body of every callee: record start (with the lane index it was given), wait for the script, record end.
func (e *exec) body(c *call, lane int) (interface{}, error) {
	e.mu.Lock()
	e.events = append(e.events, fmt.Sprintf("start:%d@%d", c.id, lane))
	c.starts++
	c.lane = lane
	c.running = true
	if c.starts > 1 {
		e.hit("C14:"+kindName(e.kind)+":call-executed-twice", fmt.Sprintf("call %d was started %d times", c.id, c.starts))
		c.twice = true
		e.laneRun[lane] = c.id
		e.mu.Unlock()
		<-e.hold // park for good: letting the callee return a second time would double-close channels inside the library
	}
	if other, busy := e.laneRun[lane]; busy {
		e.hit("C14:"+kindName(e.kind)+":calls-overlap-on-lane", fmt.Sprintf("call %d started on lane %d while call %d was still running there", c.id, lane, other))
	}
	e.laneRun[lane] = c.id
	if last, ok := e.laneSeq[lane]; ok && last > c.id {
		e.hit("C14:"+kindName(e.kind)+":start-order", fmt.Sprintf("lane %d started call %d after call %d although it was accepted earlier", lane, c.id, last))
	}
	e.laneSeq[lane] = c.id
	if lane < 0 || lane >= e.lanes {
		e.hit("C14:NormalizeSlotIndex:out-of-range", fmt.Sprintf("callee of call %d (hash %d) was given lane index %d, lanes=%d", c.id, c.hash, lane, e.lanes))
	}
	if c.postStop {
		e.hit("C14:"+kindName(e.kind)+".addCallCtx:accepts-after-Stop", fmt.Sprintf("call %d was submitted after Stop had returned and was executed", c.id))
	}
	e.mu.Unlock()
	fv := <-c.gate
	e.mu.Lock()
	e.events = append(e.events, fmt.Sprintf("end:%d", c.id))
	c.running = false
	c.fin = &fv
	delete(e.laneRun, lane)
	e.mu.Unlock()
	if fv.ok {
		return fv.v, nil
	}
	return nil, calleeErr{fv.v}
}

type procT struct {
	e *exec
	c *call
}

func (p procT) Do(ctx context.Context) (interface{}, error) { return p.e.body(p.c, 0) }

func canon(r interface{}, err error) string {
	if err == nil {
		if v, ok := r.(int); ok {
			return "ok" + strconv.Itoa(v)
		}
		return fmt.Sprintf("ok?%v", r)
	}
	var ce calleeErr
	switch {
	case errors.As(err, &ce):
		return "err" + strconv.Itoa(ce.v)
	case errors.Is(err, context.Canceled):
		return "ctx"
	case err == pipe.ErrQueueClosed || err == async.ErrClosed:
		return "closed"
	case err == pipe.ErrQueueFull || err == async.ErrFull:
		return "full"
	}
	return "other:" + err.Error()
}

func (e *exec) submit(id, hash int) {
	ctx, cancel := context.WithCancel(context.Background())
	c := &call{id: id, hash: hash, gate: make(chan finVal, 1), cancel: cancel, postStop: e.stopped}
	e.calls = append(e.calls, c)
	c.task = e.s.Go("call"+strconv.Itoa(id), func() string {
		switch e.kind {
		case "line":
			return canon(e.ln.AsyncCall(ctx, line.NewCallCtx(func(ctx context.Context, req interface{}) (interface{}, error) {
				return e.body(c, 0)
			}, id)))
		case "mline":
			return canon(e.ml.AsyncCall(ctx, mline.NewCallCtx(hash, func(ctx context.Context, sIndex int, req interface{}) (interface{}, error) {
				return e.body(c, sIndex)
			}, id)))
		case "runner":
			v := e.variant
			if v < 0 {
				v = id % 3
			}
			switch v {
			case 0:
				return canon(e.rq.AsyncCall(func(ctx context.Context, a int) (interface{}, error) { return e.body(c, 0) }, ctx, id))
			case 1:
				return canon(e.rq.AsyncDelegate(ctx, func(ctx context.Context) (interface{}, error) { return e.body(c, 0) }))
			default:
				return canon(e.rq.AsyncProc(ctx, procT{e, c}))
			}
		default:
			return canon(e.pc.AsyncProc(ctx, procT{e, c}))
		}
	})
}

// collect the new observable events after quiescence
func (e *exec) drain() string {
	e.settle()
	e.mu.Lock()
	evs := append([]string{}, e.events...)
	e.events = e.events[:0]
	e.mu.Unlock()
	for _, c := range e.calls {
		if c.task == nil || c.reported {
			continue
		}
		if done, r := c.task.Done(); done {
			c.reported = true
			if strings.HasPrefix(r, "panic:") {
				if strings.Contains(r, "index out of range") {
					e.hit("C14:NormalizeSlotIndex:out-of-range", fmt.Sprintf("call %d with hash %d on %d lanes: %s", c.id, c.hash, e.lanes, r))
				} else {
					e.hit("C14:"+kindName(e.kind)+":caller-panic", r)
				}
				r = "panic"
			}
			c.ret = r
			e.checkRouting(c)
			evs = append(evs, fmt.Sprintf("ret:%d:%s", c.id, r))
		}
	}
	if !e.exited {
		if done, _ := e.exit.Done(); done {
			e.exited = true
			evs = append(evs, "exited")
			if !e.stopped {
				e.hit("C14:"+kindName(e.kind)+":lane-exited-without-Stop", "lane goroutines terminated although Stop was never called")
			}
		}
	}
	e.checkStuck()
	if len(evs) == 0 {
		return "-"
	}
	sort.Strings(evs)
	return strings.Join(evs, ",")
}

// the value a caller got must be its own call's result, or its own context's error, or a rejection
func (e *exec) checkRouting(c *call) {
	e.mu.Lock()
	defer e.mu.Unlock()
	k := "C14:" + kindName(e.kind) + ":misrouted-result"
	switch {
	case strings.HasPrefix(c.ret, "ok") || strings.HasPrefix(c.ret, "err"):
		want := ""
		if c.fin != nil {
			if c.fin.ok {
				want = "ok" + strconv.Itoa(c.fin.v)
			} else {
				want = "err" + strconv.Itoa(c.fin.v)
			}
		}
		if c.ret != want {
			e.hit(k, fmt.Sprintf("caller of call %d received %s, its own callee returned %q", c.id, c.ret, want))
		}
	case c.ret == "ctx":
		if !c.cancelled {
			e.hit(k, fmt.Sprintf("caller of call %d received a context error although its context was never cancelled", c.id))
		}
	case c.ret == "closed":
		if !e.stopped {
			e.hit(k, fmt.Sprintf("caller of call %d received closed before Stop", c.id))
		}
	case c.ret == "full":
		if e.capQ == 0 && e.kind != "pchan" {
			e.hit(k, fmt.Sprintf("caller of call %d received full from an unbounded queue", c.id))
		}
	case c.ret == "panic":
	default:
		e.hit(k, fmt.Sprintf("caller of call %d received %s", c.id, c.ret))
	}
}

// accepted reports whether the call was taken into a queue (observable: the caller was not turned away)
func (c *call) accepted() bool {
	return c.ret != "closed" && c.ret != "full" && c.ret != "panic" || c.starts > 0
}

// at quiescence a lane with an accepted, never started call and nothing running is stuck
func (e *exec) checkStuck() {
	if e.exited {
		return
	}
	e.mu.Lock()
	defer e.mu.Unlock()
	busy := map[int]bool{}
	for l := range e.laneRun {
		busy[l] = true
	}
	for _, c := range e.calls {
		if c.starts > 0 || !c.accepted() || c.ret == "closed" {
			continue
		}
		if (e.kind == "runner" || e.kind == "pchan") && c.cancelled {
			continue
		}
		lane := 0
		if e.kind == "mline" {
			lane = safeSlot(c.hash, e.lanes)
		}
		if lane >= 0 && !busy[lane] {
			e.hit("C14:"+kindName(e.kind)+":lane-stuck", fmt.Sprintf("call %d waits in lane %d although nothing runs there (quiescent)", c.id, lane))
		}
	}
}

func safeSlot(hash, lanes int) (r int) {
	defer func() {
		if recover() != nil {
			r = -1
		}
	}()
	r = pipe.NormalizeSlotIndex(hash, lanes)
	if r < 0 || r >= lanes {
		return -1
	}
	return r
}

func (e *exec) stop() {
	switch e.kind {
	case "line":
		e.ln.Stop()
	case "mline":
		e.ml.Stop()
	case "runner":
		e.rq.Stop()
	default:
		e.pc.Stop()
	}
	e.stopped = true
}

// finish the script: Stop, let every running callee return, then check drain / termination on the real code.
func (e *exec) cleanup() {
	if !e.stopped {
		e.stop()
	}
	for round := 0; round < 10000; round++ {
		e.drain()
		any := false
		e.mu.Lock()
		for _, c := range e.calls {
			if c.running && !c.twice {
				any = true
				select {
				case c.gate <- finVal{true, 900 + c.id}:
				default:
				}
			}
		}
		e.mu.Unlock()
		if !any {
			break
		}
	}
	e.drain()
	name := kindName(e.kind)
	for _, c := range e.calls {
		if c.twice { // the lane is blocked by the parked second execution: everything below would be a consequence
			for _, c := range e.calls {
				c.cancel()
			}
			e.settle()
			return
		}
	}
	if !e.exited {
		e.hit("C14:"+name+":lane-not-terminated", "after Stop and after every running call returned, the lane goroutines are still alive")
	}
	if e.kind != "pchan" {
		for _, c := range e.calls {
			if !c.accepted() || c.postStop {
				continue
			}
			if c.starts == 0 && !(e.kind == "runner" && c.cancelled && c.cancelAt == 0) {
				e.hit("C14:"+name+":accepted-call-dropped", fmt.Sprintf("call %d was accepted before Stop but never executed", c.id))
			}
		}
	}
	for _, c := range e.calls {
		c.cancel()
	}
	e.settle()
}

// ---------------------------------------------------------------- script runner

func parseInt64(s string) (int, bool) {
	v, err := strconv.ParseInt(s, 10, 64)
	if err != nil {
		return 0, false
	}
	if strings.HasPrefix(s, "+") {
		return 0, false
	}
	return int(v), true
}

func parseNat(s string) (int, bool) {
	if s == "" || len(s) > 9 {
		return 0, false
	}
	for _, ch := range s {
		if ch < '0' || ch > '9' {
			return 0, false
		}
	}
	v, _ := strconv.Atoi(s)
	return v, true
}

func runScript(lines []string) ([]string, map[string]string) {
	currentScript = lines
	var e *exec
	hits := map[string]string{}
	merge := func() {
		if e != nil {
			e.cleanup()
			for k, v := range e.hits {
				if _, ok := hits[k]; !ok {
					hits[k] = v
				}
			}
			e = nil
		}
	}
	var outs []string
	for _, l := range lines {
		f := strings.Split(l, " ")
		var w []string
		for _, x := range f {
			if x != "" {
				w = append(w, x)
			}
		}
		out := "bad-op"
		switch {
		case len(w) == 4 && w[0] == "new":
			merge()
			n, ok1 := parseNat(w[2])
			c, ok2 := parseNat(w[3])
			kinds := map[string]bool{"line": true, "mline": true, "runner": true, "pchan": true,
				"runner-call": true, "runner-delegate": true, "runner-proc": true}
			if kinds[w[1]] && ok1 && ok2 && n >= 1 && n <= 1024 && c <= 1024 && (w[1] == "mline" || n == 1) {
				e = newExec(w[1], n, c)
				out = "ok"
			}
		case len(w) == 3 && w[0] == "slot":
			h, ok1 := parseInt64(w[1])
			s, ok2 := parseInt64(w[2])
			if ok1 && ok2 && s > 0 {
				r := pipe.NormalizeSlotIndex(h, s)
				out = strconv.Itoa(r)
				if r < 0 || r >= s {
					if _, ok := hits["C14:NormalizeSlotIndex:out-of-range"]; !ok {
						hits["C14:NormalizeSlotIndex:out-of-range"] = fmt.Sprintf("NormalizeSlotIndex(%d, %d) = %d", h, s, r)
					}
				}
				if s <= 1024 {
					ix := mline.NewMultiLine(pipe.WithSlotSize(s), pipe.WithQSize(1))
					if ix.IndexOf(h) != r {
						hits["C14:MultiLine.IndexOf:differs-from-NormalizeSlotIndex"] = fmt.Sprintf("IndexOf(%d) on %d slots = %d, NormalizeSlotIndex = %d", h, s, ix.IndexOf(h), r)
					}
				}
			}
		case len(w) == 3 && w[0] == "call" && e != nil:
			id, ok1 := parseNat(w[1])
			h, ok2 := parseInt64(w[2])
			if ok1 && ok2 && id == len(e.calls) {
				e.submit(id, h)
				out = e.drain()
			}
		case len(w) == 4 && w[0] == "fin" && e != nil:
			id, ok1 := parseNat(w[1])
			v, ok2 := parseNat(w[3])
			if ok1 && ok2 && (w[2] == "ok" || w[2] == "err") && id < len(e.calls) {
				c := e.calls[id]
				e.mu.Lock()
				running := c.running && !c.twice
				e.mu.Unlock()
				if running {
					c.gate <- finVal{w[2] == "ok", v}
					out = e.drain()
				} else {
					out = "not-running"
				}
			}
		case len(w) == 2 && w[0] == "cancel" && e != nil:
			id, ok1 := parseNat(w[1])
			if ok1 && id < len(e.calls) {
				c := e.calls[id]
				if !c.cancelled {
					c.cancelled = true
					e.mu.Lock()
					c.cancelAt = c.starts
					e.mu.Unlock()
				}
				c.cancel()
				out = e.drain()
			}
		case len(w) == 1 && w[0] == "stop" && e != nil:
			e.stop()
			out = e.drain()
		}
		outs = append(outs, out)
	}
	merge()
	return outs, hits
}

// Scripts whose outcome depends on something the script cannot fix are executed several times on the real code so
// that the monitors see every resolution with high probability:
//   - Go's random `select` (ProcChan, a call submitted after Stop);
//   - object reuse between calls (a caller gives up while its call is still queued, then more calls are submitted):
//     whether a recycled object (sync.Pool and the like) is handed to the next call depends on the P the goroutines
//     run on, so these scripts run with GOMAXPROCS(1), where a per-P free slot is reused almost surely.
func amplify(tag string, lines []string) (n int, oneP bool) {
	many := tag == "replay" || tag == "corpus" || strings.HasPrefix(tag, "witness")
	pchan, stopped, cancelled := false, false, false
	for _, l := range lines {
		switch {
		case strings.HasPrefix(l, "new "):
			pchan, stopped, cancelled = strings.HasPrefix(l, "new pchan "), false, false
		case l == "stop":
			stopped = true
		case strings.HasPrefix(l, "cancel "):
			cancelled = true
		case strings.HasPrefix(l, "call ") && pchan && stopped:
			if many {
				return 64, oneP
			}
			return 6, oneP
		case strings.HasPrefix(l, "call ") && cancelled && !stopped:
			switch {
			case strings.HasPrefix(tag, "witness"):
				n, oneP = 12, true
			case many:
				n, oneP = 32, true
			case strings.HasPrefix(tag, "giveup"):
				n, oneP = 6, true
			case strings.HasSuffix(tag, "+giveup"):
				n, oneP = 3, true
			}
		}
	}
	if n == 0 {
		n = 1
	}
	return n, oneP
}

type childReq struct {
	Lines []string `json:"lines"`
	N     int      `json:"n"`
}

// runScriptChild: `c14 runscript` — a server loop: one JSON request per input line; executes the script N times with
// GOMAXPROCS(1) in this (child) process and streams `O <json outs>` (first execution), `H <json hit>` lines and a final
// `E`. A panic inside a library goroutine kills only this child; the parent turns that into an observation.
func runScriptChild() {
	runtime.GOMAXPROCS(1)
	in := bufio.NewScanner(os.Stdin)
	in.Buffer(make([]byte, 1<<20), 1<<26)
	w := bufio.NewWriter(os.Stdout)
	for in.Scan() {
		var req childReq
		if err := json.Unmarshal(in.Bytes(), &req); err != nil {
			fmt.Fprintln(os.Stderr, "harness error: runscript:", err)
			os.Exit(2)
		}
		seen := map[string]bool{}
		for i := 0; i < req.N; i++ {
			outs, hits := runScript(req.Lines)
			if i == 0 {
				b, _ := json.Marshal(outs)
				fmt.Fprintf(w, "O %s\n", b)
			}
			var keys []string
			for k := range hits {
				keys = append(keys, k)
			}
			sort.Strings(keys)
			for _, k := range keys {
				if !seen[k] {
					seen[k] = true
					b, _ := json.Marshal(corr.Hit{Key: k, What: hits[k]})
					fmt.Fprintf(w, "H %s\n", b)
				}
			}
			w.Flush()
			if len(seen) > 0 && i >= 2 {
				break
			}
		}
		fmt.Fprintln(w, "E")
		w.Flush()
	}
}

func scriptKind(lines []string) string {
	k := "Line"
	for _, l := range lines {
		if f := strings.Fields(l); len(f) >= 2 && f[0] == "new" {
			name := f[1]
			if strings.HasPrefix(name, "runner") {
				name = "runner"
			}
			k = kindName(name)
		}
	}
	return k
}

type childProc struct {
	cmd   *osexec.Cmd
	in    *bufio.Writer
	out   *bufio.Scanner
	errb  *bytes.Buffer
	stdin interface{ Close() error }
}

var child *childProc

func startChild() *childProc {
	cmd := osexec.Command(os.Args[0], "runscript")
	cmd.Env = append(os.Environ(), "GOMAXPROCS=1")
	stdin, err := cmd.StdinPipe()
	if err != nil {
		harnessFail(err)
	}
	stdout, err := cmd.StdoutPipe()
	if err != nil {
		harnessFail(err)
	}
	errb := &bytes.Buffer{}
	cmd.Stderr = errb
	if err := cmd.Start(); err != nil {
		harnessFail(err)
	}
	sc := bufio.NewScanner(stdout)
	sc.Buffer(make([]byte, 1<<20), 1<<26)
	return &childProc{cmd: cmd, in: bufio.NewWriter(stdin), out: sc, errb: errb, stdin: stdin}
}

func (c *childProc) stop() {
	_ = c.stdin.Close()
	_ = c.cmd.Process.Kill()
	_ = c.cmd.Wait()
}

// runInChild runs the script in the child process (GOMAXPROCS 1); a crash of the child is an observation, not a harness error.
func runInChild(lines []string, n int) corr.Result {
	var res corr.Result
	if child == nil {
		child = startChild()
	}
	c := child
	b, _ := json.Marshal(childReq{Lines: lines, N: n})
	c.in.Write(b)
	c.in.WriteByte('\n')
	c.in.Flush()
	ended := false
	timer := time.AfterFunc(120*time.Second, func() { _ = c.cmd.Process.Kill() })
	for c.out.Scan() {
		l := c.out.Text()
		if l == "E" {
			ended = true
			break
		}
		switch {
		case strings.HasPrefix(l, "O "):
			_ = json.Unmarshal([]byte(l[2:]), &res.Outs)
		case strings.HasPrefix(l, "H "):
			var h corr.Hit
			if json.Unmarshal([]byte(l[2:]), &h) == nil {
				res.Hits = append(res.Hits, h)
			}
		}
	}
	killed := !timer.Stop()
	if !ended {
		_ = c.stdin.Close()
		_ = c.cmd.Wait()
		child = nil
		msg := c.errb.String()
		if killed {
			harnessFail(fmt.Errorf("child running %v did not finish within 120 s", lines))
		}
		if strings.Contains(msg, "harness error") || !(strings.Contains(msg, "panic:") || strings.Contains(msg, "fatal error:")) {
			fmt.Fprintln(os.Stderr, msg)
			harnessFail(fmt.Errorf("child failed while running %v", lines))
		}
		first, where := "panic", ""
		for _, l := range strings.Split(msg, "\n") {
			if first == "panic" && (strings.HasPrefix(l, "panic:") || strings.HasPrefix(l, "fatal error:")) {
				first = l
			}
			if where == "" && strings.Contains(l, "github.com/pinealctx/neptune/syncx/pipe/") && strings.Contains(l, "(") {
				where = strings.TrimSpace(l)
				if i := strings.LastIndex(where, "("); i > 0 {
					where = where[:i]
				}
			}
		}
		res.Hits = append(res.Hits, corr.Hit{Key: "C14:" + scriptKind(lines) + ":lane-goroutine-panic",
			What: fmt.Sprintf("the process died while running the script: %s (in %s)", first, where)})
	} else if len(res.Hits) > 0 {
		// goroutines parked by a misbehaving run would slow every later snapshot: continue in a fresh process
		c.stop()
		child = nil
	}
	if len(res.Outs) != len(lines) {
		res.Outs = make([]string, len(lines))
		for i := range res.Outs {
			res.Outs[i] = "crashed"
		}
	}
	return res
}

func runCase(c corr.Case) corr.Result {
	var res corr.Result
	n, oneP := amplify(c.Tag, c.Lines)
	if oneP {
		return runInChild(c.Lines, n)
	}
	seen := map[string]bool{}
	for i := 0; i < n; i++ {
		outs, hits := runScript(c.Lines)
		if i == 0 {
			res.Outs = outs
		}
		var keys []string
		for k := range hits {
			keys = append(keys, k)
		}
		sort.Strings(keys)
		for _, k := range keys {
			if !seen[k] {
				seen[k] = true
				res.Hits = append(res.Hits, corr.Hit{Key: k, What: hits[k]})
			}
		}
	}
	return res
}

// ---------------------------------------------------------------- generator

var hashPool = []int{0, 1, 2, 3, 4, 5, 7, 508, 509, 510, 1018, -1, -2, -3, -5, -509, -510, math.MinInt64, math.MinInt64 + 1, math.MinInt64 + 2,
	math.MaxInt64, math.MaxInt64 - 1, math.MinInt32, math.MaxInt32, -(1 << 62), 1 << 62}

func pickHash(r *rng.R) int {
	switch r.Intn(10) {
	case 0, 1, 2, 3:
		return r.Range(0, 6)
	case 4, 5:
		return -r.Range(1, 6)
	case 6:
		return int(r.I64())
	default:
		return hashPool[r.Intn(len(hashPool))]
	}
}

// genScript builds one mostly-valid script, using a light simulation only to pick useful operations.
func genScript(r *rng.R, tier string) (script []string, giveUp bool) {
	kind := r.Pick("line", "mline", "mline", "runner", "runner", "runner-call", "pchan", "pchan")
	lanes := 1
	if kind == "mline" {
		lanes = r.PickInt(1, 2, 2, 3, 3, 5, 7)
		if r.Chance(1, 60) {
			lanes = 509
		}
	}
	capQ := r.PickInt(0, 0, 1, 1, 2, 3)
	lines := []string{fmt.Sprintf("new %s %d %d", kind, lanes, capQ)}
	nops := r.Range(5, 14)
	if tier != "quick" {
		nops = r.Range(5, 22)
	}
	type lane struct {
		q       []int
		running int
	}
	ls := map[int]*lane{}
	get := func(i int) *lane {
		if ls[i] == nil {
			ls[i] = &lane{running: -1}
		}
		return ls[i]
	}
	cancelled := map[int]bool{}
	queuedCancel := false // a caller gave up while its call was still queued
	skipKind := strings.HasPrefix(kind, "runner") || kind == "pchan"
	next, stopped, postStop := 0, false, 0
	stopAt := -1
	if r.Chance(7, 10) {
		stopAt = r.Range(1, nops)
	}
	var advance func(l *lane)
	advance = func(l *lane) {
		for l.running < 0 && len(l.q) > 0 {
			c := l.q[0]
			l.q = l.q[1:]
			if skipKind && cancelled[c] {
				continue
			}
			l.running = c
		}
	}
	for i := 0; i < nops; i++ {
		if i == stopAt {
			lines = append(lines, "stop")
			stopped = true
			continue
		}
		var runningIDs []int
		for _, l := range ls {
			if l.running >= 0 {
				runningIDs = append(runningIDs, l.running)
			}
		}
		sort.Ints(runningIDs)
		choice := r.Intn(10)
		switch {
		case choice < 4 || next == 0:
			if stopped && kind == "pchan" && postStop >= 4 {
				continue
			}
			h := pickHash(r)
			lines = append(lines, fmt.Sprintf("call %d %d", next, h))
			if queuedCancel && !stopped {
				giveUp = true
			}
			li := 0
			if kind == "mline" {
				li = safeSlot(h, lanes)
			}
			if stopped {
				postStop++
			}
			if li >= 0 && !stopped {
				l := get(li)
				room := capQ == 0 || len(l.q) < capQ
				if kind == "pchan" {
					room = len(l.q) < capQ || (l.running < 0 && len(l.q) == 0)
				}
				if room {
					l.q = append(l.q, next)
					advance(l)
				}
			}
			next++
		case choice < 8 && len(runningIDs) > 0:
			id := runningIDs[r.Intn(len(runningIDs))]
			lines = append(lines, fmt.Sprintf("fin %d %s %d", id, r.Pick("ok", "ok", "err"), r.Range(0, 99)))
			for _, l := range ls {
				if l.running == id {
					l.running = -1
					advance(l)
				}
			}
		case choice < 9:
			id := r.Intn(next)
			lines = append(lines, fmt.Sprintf("cancel %d", id))
			cancelled[id] = true
			for _, l := range ls {
				for _, q := range l.q {
					if q == id {
						queuedCancel = true
					}
				}
			}
		default:
			if r.Bool() {
				lines = append(lines, fmt.Sprintf("fin %d ok %d", r.Intn(next), r.Range(0, 99))) // often not running
			} else {
				lines = append(lines, "stop")
				stopped = true
			}
		}
	}
	return lines, giveUp
}

var giveupKinds = []string{"line", "mline", "runner", "runner-call", "runner-call", "runner-delegate", "runner-proc", "pchan"}

// genGiveUp: the lane is busy, callers give up while their calls are still queued, more calls are submitted,
// then the lane drains (every call that runs is finished in order).
func genGiveUp(r *rng.R, kind string) []string {
	capQ := r.PickInt(0, 0, 8, 16)
	if kind == "pchan" {
		capQ = r.PickInt(8, 16)
	}
	lines := []string{fmt.Sprintf("new %s 1 %d", kind, capQ)}
	h := r.Range(0, 5)
	next := 0
	call := func() {
		lines = append(lines, fmt.Sprintf("call %d %d", next, h))
		next++
	}
	call() // occupies the lane
	rounds := r.Range(1, 3)
	for k := 0; k < rounds; k++ {
		first := next
		for i, m := 0, r.Range(1, 3); i < m; i++ {
			call()
		}
		for id := first; id < next; id++ {
			if id == first || r.Bool() {
				lines = append(lines, fmt.Sprintf("cancel %d", id))
			}
		}
		for i, m := 0, r.Range(1, 3); i < m; i++ {
			call()
		}
	}
	stopAt := -1
	if r.Chance(1, 3) {
		stopAt = r.Intn(next)
	}
	for id := 0; id < next; id++ {
		if id == stopAt {
			lines = append(lines, "stop")
		}
		lines = append(lines, fmt.Sprintf("fin %d %s %d", id, r.Pick("ok", "ok", "err"), r.Range(0, 99)))
	}
	return lines
}

func genKernel(r *rng.R) []string {
	lines := []string{"new line 1 0"}
	for i := 0; i < 10; i++ {
		s := r.PickInt(1, 2, 3, 5, 7, 127, 509, 1024, 1<<31, math.MaxInt64, r.Range(1, 1000))
		h := hashPool[r.Intn(len(hashPool))]
		if r.Chance(1, 3) {
			h = int(r.I64())
		}
		if r.Chance(1, 4) {
			s = int(r.U64()>>1) | 1
		}
		lines = append(lines, fmt.Sprintf("slot %d %d", h, s))
	}
	return lines
}

func genGarbage(r *rng.R) []string {
	toks := []string{"new", "call", "fin", "cancel", "stop", "slot", "line", "mline", "pchan", "runner", "runner-call", "runner-x", "ok", "err", "0", "1", "-1", "x",
		"99999999999999999999", "1e3", "+1", "", "  ", "0x10", "-9223372036854775809"}
	lines := []string{r.Pick("new line 1 1", "new mline 2 0", "new bogus 1 1", "new line 2 0", "new pchan 1 1", "new runner 0 0")}
	for i := 0; i < 8; i++ {
		n := r.Range(0, 5)
		var w []string
		for j := 0; j < n; j++ {
			w = append(w, toks[r.Intn(len(toks))])
		}
		lines = append(lines, strings.Join(w, " "))
	}
	return lines
}

func fixedCases() []corr.Case {
	var cs []corr.Case
	add := func(tag string, lines ...string) { cs = append(cs, corr.Case{Tag: tag, Lines: lines}) }
	min := strconv.Itoa(math.MinInt64)
	// F13: MinInt on the default 509 lanes
	add("witness-F13", "new mline 509 0", "slot "+min+" 509", "call 0 "+min, "call 1 -151", "call 2 151", "fin 1 ok 5")
	add("witness-F13", "new mline 3 1", "call 0 "+min, "call 1 -2", "call 2 2", "call 3 5", "call 4 -1", "fin 1 ok 1", "stop", "fin 2 err 2")
	// F14: ProcChan, calls after Stop while the consumer is busy
	add("witness-F14", "new pchan 1 8", "call 0 0", "stop", "call 1 0", "call 2 0", "call 3 0", "call 4 0", "fin 0 ok 1", "fin 1 ok 2", "fin 2 ok 3", "fin 3 ok 4", "fin 4 ok 5")
	add("boundary", "new pchan 1 0", "call 0 0", "call 1 0", "fin 0 ok 1", "call 2 0", "cancel 2", "stop", "call 3 0", "fin 2 err 1")
	add("boundary", "new pchan 1 2", "call 0 0", "call 1 0", "call 2 0", "call 3 0", "cancel 1", "fin 0 ok 1", "fin 2 ok 2", "stop")
	// stop with a backlog: everything accepted still runs, in order
	for _, k := range []string{"line", "mline", "runner"} {
		add("boundary", "new "+k+" 1 0", "call 0 1", "call 1 1", "call 2 1", "call 3 1", "stop", "call 4 1", "fin 0 ok 10", "fin 1 err 11", "fin 2 ok 12", "fin 3 ok 13")
		add("boundary", "new "+k+" 1 2", "call 0 1", "call 1 1", "call 2 1", "call 3 1", "cancel 1", "cancel 0", "fin 0 ok 10", "fin 1 ok 11", "fin 2 ok 12", "stop", "stop")
		add("boundary", "new "+k+" 1 1", "stop", "call 0 0", "fin 0 ok 1", "cancel 0")
	}
	// a caller gives up while its call is queued; later calls must each run once and get their own result
	for _, k := range []string{"line", "mline", "runner", "runner-call", "runner-delegate", "runner-proc", "pchan"} {
		add("witness-giveup", "new "+k+" 1 8", "call 0 1", "call 1 1", "cancel 1", "call 2 1", "call 3 1", "fin 0 ok 10", "fin 1 ok 11", "fin 2 ok 12", "fin 3 err 13", "call 4 1", "fin 4 ok 14", "stop")
		add("witness-giveup", "new "+k+" 1 8", "call 0 1", "call 1 1", "call 2 1", "cancel 2", "cancel 1", "call 3 1", "call 4 1", "cancel 3", "call 5 1", "fin 0 ok 10", "fin 1 ok 11", "fin 2 ok 12", "fin 3 ok 13", "fin 4 ok 14", "fin 5 ok 15", "stop")
	}
	add("boundary", "new mline 2 0", "call 0 0", "call 1 1", "call 2 2", "call 3 3", "call 4 -1", "call 5 -2", "fin 1 ok 1", "fin 0 ok 0", "stop", "fin 2 ok 2", "fin 3 ok 3", "fin 4 ok 4", "fin 5 ok 5")
	return cs
}

func spec() corr.Spec {
	return corr.Spec{
		Property: "C14",
		Fixed:    fixedCases,
		Count: func(tier string) int {
			switch tier {
			case "quick":
				return 2400
			case "thorough":
				return 60000
			}
			return 60000
		},
		Shards: func(tier string) int {
			if tier == "quick" {
				return 4
			}
			return 10
		},
		Gen: func(r *rng.R, tier string, i int) corr.Case {
			switch {
			case i%25 == 7:
				return corr.Case{Tag: "kernel", Lines: genKernel(r)}
			case i%40 == 11:
				return corr.Case{Tag: "malformed", Lines: genGarbage(r)}
			case i%16 == 5:
				k := giveupKinds[(i/16)%len(giveupKinds)]
				return corr.Case{Tag: "giveup-" + k, Lines: genGiveUp(r, k)}
			}
			ls, giveUp := genScript(r, tier)
			tag := "script-" + strings.Fields(ls[0])[1]
			if giveUp {
				tag += "+giveup"
			}
			return corr.Case{Tag: tag, Lines: ls}
		},
		Run: runCase,
		NonTrivial: func(c corr.Case, r corr.Result) bool {
			starts := 0
			for _, o := range r.Outs {
				starts += strings.Count(o, "start:")
			}
			return len(c.Lines) >= 4 && (starts >= 1 || c.Tag == "kernel")
		},
		Rule: "scripts of call/fin/cancel/stop over one executor (line, mline with 1..7 or 509 lanes, runner with its three context kinds, pchan), queue bounds 0..3, hashes incl. negatives, MinInt, MaxInt; kernel cases evaluate NormalizeSlotIndex on boundary/random pairs; a case is non-trivial when it has >= 3 ops and at least one call was executed (or it is a kernel case); distinct = distinct script text",
		Assumptions: []string{
			"Go runtime: a runnable goroutine eventually runs; sync.Mutex/Cond, channels, select and context behave as documented (modelled, not verified)",
			"each script step is observed at quiescence (every goroutine with a neptune or harness frame parked or gone), so a script is a path of the model's transition system; interleavings inside ProcChan's select are covered by the theorems and the shape facts only",
			"progress clauses are proved as bounded remaining steps of the consumer plus no-stuck-state; fairness of the scheduler is assumed",
		},
		Trusted: []string{"go/lib/go2lean (kernel translator), go/lib/sched (quiescence detection on goroutine states of go1.23)"},
	}
}
