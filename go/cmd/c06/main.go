package main

import (
	"fmt"
	"nvharness/lib/go2lean"
)

func main() {
	p, err := go2lean.LoadPkg("/repo", "idgen/snowflake")
	if err != nil {
		panic(err)
	}
	errs := p.TranslateAll("figureShift", "IDFields", "IDParse", "TimeIDRange", "TimeBetweenID", "HardNode.Generate", "NewNode", "CnStyle", "FromChStyle", "MonoNode.Generate")
	fmt.Println(go2lean.SortedErrs(errs))
	fmt.Println(p.Emit())
	q, _ := go2lean.LoadPkg("/repo", "idgen/nano")
	errs = q.TranslateAll("UnixNanoID.GenIDByTS", "UnixNanoNoLockID.GenIDByTS")
	fmt.Println(go2lean.SortedErrs(errs))
	fmt.Println(q.Emit())
}
