// Command c06: extractor and correspondence runner for property C06
// (id generators: snowflake HardNode / MonoNode / NewNode, nano UnixNanoID).
package main

import (
	"bufio"
	"bytes"
	"encoding/json"
	"fmt"
	"io"
	"os"
	"os/exec"
	"path/filepath"
	"regexp"
	"runtime"
	"sort"
	"strconv"
	"strings"
	"sync"
	"sync/atomic"
	"time"

	"github.com/pinealctx/neptune/idgen/nano"
	"github.com/pinealctx/neptune/idgen/snowflake"

	"nvharness/lib/c06wrap"
	"nvharness/lib/corr"
	"nvharness/lib/go2lean"
	"nvharness/lib/gofacts"
	_ "nvharness/lib/quiet"
	"nvharness/lib/rng"
	"nvharness/lib/sched"
)

func main() {
	if len(os.Args) < 2 {
		fmt.Fprintln(os.Stderr, "usage: c06 extract|corr …")
		os.Exit(2)
	}
	switch os.Args[1] {
	case "extract":
		extract(os.Args[2], os.Args[3])
	case "corr":
		// remember the package's own default clock: every script starts from it (an option or constructor that replaces
		// the clock must show in the script that calls it, not in a later one)
		restoreOrigClock = snowflake.VerifSetNow(time.Now)
		restoreOrigClock()
		for i, a := range os.Args {
			if (a == "-oracle" || a == "--oracle") && i+1 < len(os.Args) {
				oraclePath = os.Args[i+1]
			}
		}
		corr.Main(spec(), os.Args[2:])
	case "worker":
		restoreOrigClock = snowflake.VerifSetNow(time.Now)
		restoreOrigClock()
		if len(os.Args) > 2 {
			oraclePath = os.Args[2]
		}
		workerLoop()
	default:
		os.Exit(2)
	}
}

// ---------------------------------------------------------------- extract

const monoBody = `{ n.mu.Lock() defer n.mu.Unlock() var stepMax int64 = (1 << StepBits) - 1 var now = time.Since(n.epoch).Nanoseconds() / MsDivNs if now == n.time { n.step = (n.step + 1) & stepMax if n.step == 0 { for now <= n.time { now = time.Since(n.epoch).Nanoseconds() / MsDivNs } } } else { n.step = 0 } n.time = now var timeShift, nodeShift, stepShift = figureShift() var r = now<<timeShift | n.node<<nodeShift | n.step<<stepShift return r }`

func accessorOf(goExpr string) string {
	switch {
	case strings.HasSuffix(goExpr, ".UnixNano()"):
		return "unixNano"
	case strings.HasSuffix(goExpr, ".UnixMilli()"):
		return "unixMilli"
	}
	return "unknown"
}

func extract(repo, leanDir string) {
	fail := func(err error) {
		fmt.Fprintln(os.Stderr, "extract:", err)
		os.Exit(2)
	}
	sf, err := go2lean.LoadPkg(repo, "idgen/snowflake")
	if err != nil {
		fail(err)
	}
	errs := sf.TranslateAll("figureShift", "IDFields", "HardNode.Generate")
	np, err := go2lean.LoadPkg(repo, "idgen/nano")
	if err != nil {
		fail(err)
	}
	nerrs := np.TranslateAll("UnixNanoID.GenIDByTS", "UnixNanoNoLockID.GenIDByTS")

	node := gofacts.MustLoad(repo, "idgen/snowflake/node.go")
	mono := gofacts.MustLoad(repo, "idgen/snowflake/mono.go")
	nn := gofacts.MustLoad(repo, "idgen/nano/nano.go")

	// accessor kinds
	nowAcc, hardLocked := "unknown", false
	if k, e := sf.Translate("HardNode.Generate"); e == nil {
		if len(k.Exts) == 1 {
			nowAcc = accessorOf(k.Exts[0].Go)
		}
		hardLocked = strings.Join(k.Locks, ",") == "n.mu.Lock,defer n.mu.Unlock"
	}
	// no other translated function of the package touches a lock (a callee that unlocks and relocks the node mutex would
	// split the critical section while Generate's own lock list stays the same)
	for _, k := range sf.Kernels() {
		if k != nil && k.Key != "HardNode.Generate" && len(k.Locks) > 0 {
			hardLocked = false
		}
	}
	genBody := node.Body("HardNode", "Generate")
	hardLocked = hardLocked && strings.HasPrefix(genBody, "{ n.mu.Lock() defer n.mu.Unlock() ") &&
		node.LockCovered(node.Func("HardNode", "Generate"), "n.mu.Lock()", "n.mu.Unlock()") == "defer"
	clockUnderLock := gofacts.Before(genBody, "n.mu.Lock()", "_HookNow()") && strings.Count(genBody, "_HookNow()") == 1

	// NewNode: the whole body must be one of the known forms (no free gaps)
	nnBody := node.Body("", "NewNode")
	nnForm := func(epochExpr string) string {
		return gofacts.Norm(`{ var nodeMax int64 = (1 << _nodeBits) - 1 if node < 0 || node > nodeMax { return nil, errors.New("node.number.must.be.between.0.and." + strconv.FormatInt(nodeMax, 10)) } var n = &HardNode{} n.node = node n.epoch = ` + epochExpr + ` n.time, _, n.step = IDFields(min) return n, nil }`)
	}
	epochAcc := "unknown"
	switch nnBody {
	case nnForm("time.Unix(_epoch/SDivMs, (_epoch%SDivMs)*MsDivNs).UnixNano() / MsDivNs"):
		epochAcc = "unixNano"
	case nnForm("time.Unix(_epoch/SDivMs, (_epoch%SDivMs)*MsDivNs).UnixMilli()"), nnForm("_epoch"):
		epochAcc = "unixMilli"
	}
	// UseEpoch: the option through which Setup receives the epoch
	sfFile := gofacts.MustLoad(repo, "idgen/snowflake/snowflake.go")
	setupAcc := "unknown"
	switch sfFile.Body("", "UseEpoch") {
	case gofacts.Norm("{ return func(o *_Option) { o.epoch = t.UnixNano() / int64(time.Millisecond) } }"):
		setupAcc = "unixNano"
	case gofacts.Norm("{ return func(o *_Option) { o.epoch = t.UnixMilli() } }"):
		setupAcc = "unixMilli"
	}
	// GenID of both nano types forwards the clock reading to GenIDByTS, nothing else
	genIDForm := gofacts.Norm("{ var ts = time.Now().UnixNano() return n.GenIDByTS(ts) }")
	genIDForwards := nn.Body("UnixNanoID", "GenID") == genIDForm && nn.Body("UnixNanoNoLockID", "GenID") == genIDForm
	const rangeCheck = "var nodeMax int64 = (1 << _nodeBits) - 1 if node < 0 || node > nodeMax { return nil,"
	newNodeRange := strings.HasPrefix(nnBody, "{ "+rangeCheck)
	newNodeSeeds := gofacts.Has(nnBody, "var n = &HardNode{} n.node = node") &&
		gofacts.Has(nnBody, "n.time, _, n.step = IDFields(min) return n, nil }")

	mBody := mono.Body("MonoNode", "Generate")
	monoLocked := strings.HasPrefix(mBody, "{ n.mu.Lock() defer n.mu.Unlock() ")
	monoShape := mBody == gofacts.Norm(monoBody)
	nmBody := mono.Body("", "NewMonoNode")
	monoRange := strings.HasPrefix(nmBody, "{ "+rangeCheck) && gofacts.Has(nmBody, "var n = &MonoNode{} n.node = node") &&
		!gofacts.Has(nmBody, "n.time") && !gofacts.Has(nmBody, "n.step")

	gBody := nn.Body("UnixNanoID", "GenIDByTS")
	nanoLocked := strings.HasPrefix(gBody, "{ n.Lock() if ts > n.current {") && strings.HasSuffix(gBody, "} n.Unlock() return ts }") &&
		strings.Count(gBody, "n.Lock()") == 1 && strings.Count(gBody, "n.Unlock()") == 1
	if a, e1 := np.Translate("UnixNanoID.GenIDByTS"); e1 == nil {
		// exactly one Lock first and one Unlock per path in the kernel's own list (the translator copies the tail after the
		// if/else into both branches, hence two entries) — not `n.Mutex.Unlock(); n.Mutex.Lock()` in between
		nanoLocked = nanoLocked && strings.Join(a.Locks, ",") == "n.Lock,n.Unlock,n.Unlock"
	} else {
		nanoLocked = false
	}
	nanoSame := false
	if a, e1 := np.Translate("UnixNanoID.GenIDByTS"); e1 == nil {
		if b, e2 := np.Translate("UnixNanoNoLockID.GenIDByTS"); e2 == nil {
			nanoSame = a.Body == b.Body && len(b.Locks) == 0
		}
	}
	stepBits, ok := sf.ConstValue("StepBits")
	if !ok {
		stepBits = "0"
	}

	var b strings.Builder
	b.WriteString("import Nv.Model.C06\nset_option linter.unusedVariables false\n")
	b.WriteString("/-! GENERATED by `c06 extract` from idgen/snowflake/{snowflake,node,mono}.go and idgen/nano/nano.go — do not edit. -/\n")
	b.WriteString("namespace Nv.Gen.C06\n")
	fmt.Fprintf(&b, "def cfg : Nv.C06.Cfg := ⟨.%s, .%s, .%s⟩\n", nowAcc, epochAcc, setupAcc)
	fmt.Fprintf(&b, "def facts : Nv.C06.Facts := ⟨%s, %s, %s, %s, %s, %s, %s, %s, %s, %s, %s⟩\n\n", stepBits,
		gofacts.LeanBool(hardLocked), gofacts.LeanBool(clockUnderLock), gofacts.LeanBool(newNodeRange), gofacts.LeanBool(newNodeSeeds),
		gofacts.LeanBool(monoLocked), gofacts.LeanBool(monoRange), gofacts.LeanBool(monoShape), gofacts.LeanBool(nanoLocked), gofacts.LeanBool(nanoSame), gofacts.LeanBool(genIDForwards))
	b.WriteString(sf.Emit())
	b.WriteString(np.Emit())
	all := append(go2lean.SortedErrs(errs), go2lean.SortedErrs(nerrs)...)
	// canonical signatures (robust against a reordering of statements in the source)
	bv64, bv8 := "BitVec 64", "BitVec 8"
	layout := []c06wrap.Param{{Lean: "nb", Type: bv8, Go: "_nodeBits"}, {Lean: "nal", Type: "Bool", Go: "_nodeAtLowest"}}
	wrap := func(p *go2lean.Pkg, key, name string, params []c06wrap.Param, outs []string) {
		k, e := p.Translate(key)
		if e != nil {
			return // already listed as untranslatable
		}
		w, e := c06wrap.Wrapper(k, name, params, outs)
		if e != nil {
			all = append(all, e.Error())
			return
		}
		b.WriteString(w)
	}
	wrap(sf, "figureShift", "figureShiftC", layout, nil)
	wrap(sf, "IDFields", "idFieldsC", append([]c06wrap.Param{{Lean: "id", Type: bv64, Go: "id"}}, layout...), nil)
	nowGo := "_HookNow().UnixNano()"
	if nowAcc == "unixMilli" {
		nowGo = "_HookNow().UnixMilli()"
	}
	wrap(sf, "HardNode.Generate", "hardGenerateC", append([]c06wrap.Param{{Lean: "epoch", Type: bv64, Go: "n.epoch"}, {Lean: "time", Type: bv64, Go: "n.time"},
		{Lean: "node", Type: bv64, Go: "n.node"}, {Lean: "step", Type: bv64, Go: "n.step"}, {Lean: "w", Type: bv64, Go: nowGo}}, layout...), []string{"n.time", "n.step"})
	nanoP := []c06wrap.Param{{Lean: "ts", Type: bv64, Go: "ts"}, {Lean: "cur", Type: bv64, Go: "n.current"}}
	wrap(np, "UnixNanoID.GenIDByTS", "nanoGenC", nanoP, []string{"n.current"})
	wrap(np, "UnixNanoNoLockID.GenIDByTS", "nanoNoLockGenC", nanoP, []string{"n.current"})
	for _, e := range all {
		fmt.Fprintf(&b, "-- UNTRANSLATABLE %s\n", strings.ReplaceAll(e, "\n", " "))
	}
	b.WriteString("end Nv.Gen.C06\n")
	if err := gofacts.WriteIfChanged(filepath.Join(leanDir, "Nv/Gen/C06.lean"), b.String()); err != nil {
		fail(err)
	}
	mined := c06wrap.MineConsts(repo, []string{"idgen/snowflake/snowflake.go", "idgen/snowflake/node.go", "idgen/snowflake/mono.go", "idgen/nano/nano.go"},
		[]uint64{1609430400000, 1000, 1000000})
	c06wrap.SaveConsts("C06", mined)
	fmt.Printf("extract C06: nowAcc=%s epochAcc=%s setupAcc=%s stepBits=%s facts=%v,%v,%v,%v,%v,%v,%v,%v,%v,%v untranslatable=%v\n", nowAcc, epochAcc, setupAcc, stepBits,
		hardLocked, clockUnderLock, newNodeRange, newNodeSeeds, monoLocked, monoRange, monoShape, nanoLocked, nanoSame, genIDForwards, all)
	if len(mined) > 0 {
		fmt.Printf("extract C06: integer literals not in the modelled code (boundary scripts are built around them): %v\n", mined)
	}
}

// ---------------------------------------------------------------- runner

var oraclePath string

var restoreOrigClock = func() {}

var decRe = regexp.MustCompile(`^-?[0-9]+$`)

func pI64(s string) (int64, bool) {
	if !decRe.MatchString(s) {
		return 0, false
	}
	v, err := strconv.ParseInt(s, 10, 64)
	return v, err == nil
}

func pCount(s string, max int) (int, bool) {
	if !decRe.MatchString(s) || s[0] == '-' || len(s) > 9 {
		return 0, false
	}
	v, err := strconv.Atoi(s)
	return v, err == nil && v >= 1 && v <= max
}

func clockOf(ms, sub int64) time.Time {
	return time.UnixMilli(ms).Add(time.Duration(sub))
}

type world struct {
	ready   bool
	epoch   int64
	nb      uint8
	nal     bool
	restore []func()

	hard     snowflake.Node
	hardNode int64
	last     int64 // `$last`
	hasLast  bool
	// monitor state for the current hard node
	prev     int64 // previous id of this node, or the seed
	hasPrev  bool
	lastT    int64 // largest timestamp field seen on this node (the seed's included)
	prevSeed bool  // prev is the seed given to NewNode (restart clause), not an id of this node
	beyond   bool  // a clock reading / the internal time left the timestamp width of the layout: violations from here on are
	// the known limit of the 41/42/43-bit format and are reported under one key (clock-beyond-timestamp-width)
	skip bool // the node was seeded with a negative number (not an id): outside the property altogether

	nanoL  *nano.UnixNanoID
	nanoN  *nano.UnixNanoNoLockID
	nprev  int64
	nprevS bool // nprev is the constructor argument
	ntaint bool

	hits []corr.Hit
}

func (w *world) hit(site, what, msg string) {
	key := "C06:" + site + ":" + what
	for _, h := range w.hits { // one report per key and script (a burst can repeat it thousands of times)
		if h.Key == key {
			return
		}
	}
	w.hits = append(w.hits, corr.Hit{Key: key, What: msg})
}

// unixNanoMaxMs: instants more than this many ms from 1970 do not fit int64 nanoseconds (year 2262 / 1677).
const unixNanoMaxMs = 9223372036854

// hardHit files a HardNode violation under one key per input region that shares a root cause: an epoch or a
// clock reading outside the int64-nanosecond range is the `UnixNano` conversion, whatever clause it breaks.
func (w *world) hardHit(site, what, msg string, ms int64) {
	if len(w.hits) >= 6 {
		return
	}
	switch {
	case w.beyond:
		w.hit("HardNode.Generate", "clock-beyond-timestamp-width", what+": "+msg+fmt.Sprintf(" [a clock reading or the node's time is at/after the end of the %d-bit timestamp width: `<<` drops the high bits]", w.width()))
	default:
		// (before fix f72a405 hits with an epoch / a clock reading outside the int64-nanosecond range were filed under the
		// root-cause keys NewNode:epoch-outside-unixnano-range / HardNode.Generate:clock-outside-unixnano-range; with the
		// UnixMilli conversion in place that region is ordinary and a hit there is reported under its clause)
		if w.epoch > unixNanoMaxMs || w.epoch < -unixNanoMaxMs || ms > unixNanoMaxMs || ms < -unixNanoMaxMs {
			msg += " [epoch or clock outside the int64-nanosecond range]"
		}
		w.hit(site, what, msg)
	}
}

func (w *world) close() {
	for i := len(w.restore) - 1; i >= 0; i-- {
		w.restore[i]()
	}
	w.restore = nil
}

func (w *world) width() uint { return uint(63 - 12 - int(w.nb)) }

// fieldsOf decodes an id with the monitor's own arithmetic under the configuration the package reports (never blocks,
// never panics, does not read any clock — whatever the code under test does, the harness must survive it).
func fieldsOf(id int64) (t, n, s int64) {
	_, nb, nal := snowflake.VerifConfig()
	if nb > 40 {
		return 0, 0, 0
	}
	sh := uint(nb) + 12
	t = id >> sh
	if nal {
		return t, id & (int64(1)<<nb - 1), (id >> nb) & 4095
	}
	return t, (id >> 12) & (int64(1)<<nb - 1), id & 4095
}

// pkgFields is the package's own IDFields, guarded: a panic or a result that differs from the plain decoding is a hit.
func (w *world) pkgFields(id int64) {
	defer func() {
		if r := recover(); r != nil {
			w.hit("IDFields", "panics", fmt.Sprintf("IDFields(%d) panicked: %v", id, r))
		}
	}()
	t, n, s := fieldsOf(id)
	if pt, pn, ps := snowflake.IDFields(id); id >= 0 && (pt != t || pn != n || ps != s) {
		w.hit("IDFields", "decode-differs", fmt.Sprintf("IDFields(%d) = (%d,%d,%d) but the id's fields are (%d,%d,%d)", id, pt, pn, ps, t, n, s))
	}
}

// checkHard: the property restated on one returned id (monitor; independent of the Lean model).
// rel = clock reading in ms relative to the configured epoch.
// preTaint: does the property's width hypothesis hold for the next ncalls calls at clock ms — the clock offset and the
// internal time (which runs ahead of the clock by one per 4096 calls in a millisecond) inside the timestamp width?
// If not, the node is marked `beyond`: the monitors stay on, their hits go to the one known-limit key.
func (w *world) preTaint(ms int64, ncalls int) {
	W := w.width()
	rel := ms - w.epoch
	top := w.lastT
	if rel > top {
		top = rel
	}
	if ms < -(1<<62) || ms > 1<<62 || top+int64(ncalls)/4096+2 >= int64(1)<<W {
		w.beyond = true
	}
}

func (w *world) checkHard(id, ms int64, site string) {
	W := w.width()
	rel := ms - w.epoch
	if rel >= int64(1)<<W || ms < -(1<<62) || ms > 1<<62 {
		w.beyond = true
	}
	if w.hasPrev {
		if pt, _, _ := fieldsOf(w.prev); w.prev < 0 || pt+1 >= int64(1)<<W {
			w.beyond = true
		}
	}
	t, n, _ := fieldsOf(id)
	if !w.skip && len(w.hits) < 6 {
		w.pkgFields(id)
	}
	if w.skip || len(w.hits) >= 6 { // outside the property / enough reported for this script: bookkeeping only
		if t > w.lastT {
			w.lastT = t
		}
		w.prev, w.prevSeed, w.hasPrev = id, false, true
		return
	}
	if w.hasPrev && id <= w.prev {
		if w.prevSeed {
			w.hardHit("NewNode", "restart-not-above", fmt.Sprintf("node restarted with last id %d returned %d (not above)", w.prev, id), ms)
		} else {
			w.hardHit(site, "not-increasing", fmt.Sprintf("id %d returned after %d", id, w.prev), ms)
		}
	}
	if n != w.hardNode {
		w.hardHit(site, "node-field", fmt.Sprintf("id %d carries node %d, configured node %d", id, n, w.hardNode), ms)
	}
	if rel >= 0 && t < rel {
		w.hardHit(site, "timestamp-before-clock", fmt.Sprintf("clock reads %d ms (epoch+%d) but id %d carries timestamp epoch+%d under layout nodeBits=%d", ms, rel, id, t, w.nb), ms)
	}
	if id < 0 || t >= int64(1)<<W-1 {
		w.beyond = true // the next call may carry out of the width
	}
	if t > w.lastT {
		w.lastT = t
	}
	w.prev, w.prevSeed, w.hasPrev = id, false, true
}

func (w *world) checkNano(id, ts int64, site string) {
	if w.nprev == 1<<63-1 || ts == 1<<63-1 {
		w.ntaint = true
	}
	if w.ntaint {
		w.nprev, w.nprevS = id, false
		return
	}
	if id <= w.nprev {
		w.hit(site, "not-increasing", fmt.Sprintf("id %d returned after %d (ts %d)", id, w.nprev, ts))
	}
	if id < ts {
		w.hit(site, "below-ts", fmt.Sprintf("id %d below the supplied ts %d", id, ts))
	}
	w.nprev, w.nprevS = id, false
}

func burstLine(ids []int64, prev int64, hasPrev bool) string {
	var sum int64
	inc := true
	p, hp := prev, hasPrev
	for _, id := range ids {
		sum += id
		if hp && !(p < id) {
			inc = false
		}
		p, hp = id, true
	}
	b := 0
	if inc {
		b = 1
	}
	return fmt.Sprintf("%d..%d sum=%d inc=%d", ids[0], ids[len(ids)-1], sum, b)
}

// parallel runs g goroutines × k calls of f, returns per-goroutine id lists; ok=false on timeout.
func parallel(g, k int, f func() int64) ([][]int64, bool) {
	res := make([][]int64, g)
	var wg sync.WaitGroup
	start := make(chan struct{})
	for i := 0; i < g; i++ {
		wg.Add(1)
		go func(i int) {
			defer wg.Done()
			ids := make([]int64, 0, k)
			<-start
			for j := 0; j < k; j++ {
				ids = append(ids, f())
			}
			res[i] = ids
		}(i)
	}
	close(start)
	done := make(chan struct{})
	go func() { wg.Wait(); close(done) }()
	select {
	case <-done:
		return res, true
	case <-time.After(60 * time.Second):
		return nil, false
	}
}

func mergeSorted(per [][]int64) []int64 {
	var all []int64
	for _, p := range per {
		all = append(all, p...)
	}
	sort.Slice(all, func(i, j int) bool { return all[i] < all[j] })
	return all
}

func perThreadIncreasing(per [][]int64) bool {
	for _, p := range per {
		for i := 1; i < len(p); i++ {
			if p[i] <= p[i-1] {
				return false
			}
		}
	}
	return true
}

func hasDup(sorted []int64) bool {
	for i := 1; i < len(sorted); i++ {
		if sorted[i] == sorted[i-1] {
			return true
		}
	}
	return false
}

// monoAcceptGo: Go-side restatement of "the ids are a trace of a fresh MonoNode(node) under a
// non-decreasing clock": each next (t, s) is (same t, s+1 < 4096) or (larger t, 0); node field fixed.
func monoAcceptGo(node int64, ids []int64) (int, string) {
	var pt, ps int64 = 0, 0
	for i, id := range ids {
		t, n, s := fieldsOf(id)
		if n != node {
			return i, "node-field"
		}
		if i > 0 && id <= ids[i-1] {
			return i, "not-increasing"
		}
		switch {
		case t == pt && s == ps+1 && s < 4096:
		case t > pt && s == 0:
		default:
			return i, "trace-not-accepted"
		}
		pt, ps = t, s
	}
	return -1, ""
}

func (w *world) run(line string) (out string) {
	defer func() {
		if r := recover(); r != nil {
			out = fmt.Sprintf("panic:%v", r)
			// a generator call that panics returns no id at all
			w.hit("generator", "panics", fmt.Sprintf("op `%s` panicked: %v", line, r))
		}
	}()
	f := strings.Fields(line)
	if len(f) == 0 {
		return "bad-op"
	}
	if f[0] != "cfg" && f[0] != "setup" && w.ready {
		// no call of the package's API other than Setup may change the configuration (observed through the hook)
		defer func() {
			if e, nb, nal := snowflake.VerifConfig(); e != w.epoch || nb != w.nb || nal != w.nal {
				w.hit("package-state", "config-changed-by-api-call", fmt.Sprintf("op `%s` left the configuration (epoch %d, nodeBits %d, nodeAtLowest %v), it was (%d, %d, %v)", line, e, nb, nal, w.epoch, w.nb, w.nal))
				snowflake.VerifSetConfig(w.epoch, w.nb, w.nal)
			}
		}()
	}
	if f[0] == "cfg" {
		if len(f) != 4 {
			return "bad-op"
		}
		e, ok := pI64(f[1])
		if !ok || (f[2] != "8" && f[2] != "9" && f[2] != "10") || (f[3] != "0" && f[3] != "1") {
			return "bad-op"
		}
		nb, _ := strconv.Atoi(f[2])
		w.close()
		hits := w.hits
		*w = world{ready: true, epoch: e, nb: uint8(nb), nal: f[3] == "1", hits: hits}
		w.restore = append(w.restore, snowflake.VerifSetConfig(e, uint8(nb), f[3] == "1"))
		return "ok"
	}
	if f[0] == "setup" {
		return w.setup(f)
	}
	if !w.ready {
		return "bad-op"
	}
	switch f[0] {
	case "gid":
		return w.gid(f)
	case "gidpar":
		return w.gidpar(f)
	case "hreal":
		return w.hreal(f)
	case "hard":
		if len(f) != 3 {
			return "bad-op"
		}
		node, ok1 := pI64(f[1])
		var min int64
		var ok2 bool
		if f[2] == "$last" {
			min, ok2 = w.last, w.hasLast
		} else {
			min, ok2 = pI64(f[2])
		}
		if !ok1 || !ok2 {
			return "bad-op"
		}
		n, err := snowflake.NewNode(node, min)
		if err != nil {
			if node >= 0 && node < int64(1)<<w.nb {
				w.hit("NewNode", "rejects-valid-node", fmt.Sprintf("node %d rejected under nodeBits=%d", node, w.nb))
			}
			return "err"
		}
		if node < 0 || node >= int64(1)<<w.nb {
			w.hit("NewNode", "accepts-invalid-node", fmt.Sprintf("node %d accepted under nodeBits=%d", node, w.nb))
		}
		w.hard, w.hardNode = n, node
		w.last, w.hasLast = min, true
		_, mn, _ := fieldsOf(min)
		// the restart clause speaks of a node restarted with the last id *it* issued: a non-negative id carrying its node
		// number. Any other seed only fixes where the node starts (when it is non-negative and inside the width).
		w.prev, w.prevSeed, w.hasPrev = min, true, min >= 0 && mn == node
		w.skip, w.beyond = min < 0, false
		w.lastT, _, _ = fieldsOf(min)
		return "ok"
	case "g", "burst", "par":
		want := map[string]int{"g": 3, "burst": 4, "par": 5}[f[0]]
		if len(f) != want || w.hard == nil {
			return "bad-op"
		}
		ms, ok1 := pI64(f[1])
		sub, ok2 := pI64(f[2])
		if !ok1 || !ok2 || sub < 0 || sub >= 1000000 || f[2][0] == '-' {
			return "bad-op"
		}
		now := clockOf(ms, sub)
		restore := snowflake.VerifSetNow(func() time.Time { return now })
		defer restore()
		switch f[0] {
		case "g":
			w.preTaint(ms, 1)
			id := w.hard.Generate()
			w.checkHard(id, ms, "HardNode.Generate")
			w.last, w.hasLast = id, true
			return strconv.FormatInt(id, 10)
		case "burst":
			n, ok := pCount(f[3], 100000)
			if !ok {
				return "bad-op"
			}
			w.preTaint(ms, n)
			ids := make([]int64, n)
			prev, hasPrev := w.last, w.hasLast
			for i := range ids {
				ids[i] = w.hard.Generate()
				w.checkHard(ids[i], ms, "HardNode.Generate")
			}
			w.last, w.hasLast = ids[n-1], true
			return burstLine(ids, prev, hasPrev)
		default:
			g, okg := pCount(f[3], 64)
			k, okk := pCount(f[4], 10000)
			if !okg || !okk {
				return "bad-op"
			}
			w.preTaint(ms, g*k)
			node := w.hard
			per, ok := parallel(g, k, func() int64 { return node.Generate() })
			if !ok {
				return "timeout"
			}
			all := mergeSorted(per)
			if !w.skip {
				if hasDup(all) {
					w.hardHit("HardNode.Generate", "duplicate-under-concurrency", fmt.Sprintf("%d goroutines × %d calls returned a duplicate id", g, k), ms)
				} else if !perThreadIncreasing(per) {
					w.hardHit("HardNode.Generate", "not-increasing", fmt.Sprintf("%d goroutines × %d calls: one goroutine saw a non-increasing pair", g, k), ms)
				}
			}
			prev, hasPrev := w.last, w.hasLast
			for _, id := range all {
				w.checkHard(id, ms, "HardNode.Generate")
			}
			w.last, w.hasLast = all[len(all)-1], true
			return burstLine(all, prev, hasPrev)
		}
	case "state":
		if len(f) != 1 || w.hard == nil {
			return "bad-op"
		}
		e, t, _, s, ok := snowflake.VerifNodeState(w.hard)
		if !ok {
			return "bad-op"
		}
		return fmt.Sprintf("e=%d t=%d s=%d", e, t, s)
	case "nano", "nanonl":
		if len(f) != 2 {
			return "bad-op"
		}
		cur, ok := pI64(f[1])
		if !ok {
			return "bad-op"
		}
		w.nanoL, w.nanoN = nil, nil
		if f[0] == "nano" {
			w.nanoL = nano.NewUnixNanoID(cur)
		} else {
			w.nanoN = nano.NewUnixNanoNoLockID(cur)
		}
		w.nprev, w.nprevS, w.ntaint = cur, true, false
		return "ok"
	case "n", "nburst", "npar":
		want := map[string]int{"n": 2, "nburst": 3, "npar": 4}[f[0]]
		if len(f) != want || (w.nanoL == nil && w.nanoN == nil) {
			return "bad-op"
		}
		ts, ok := pI64(f[1])
		if !ok {
			return "bad-op"
		}
		site := "UnixNanoID.GenIDByTS"
		gen := func() int64 { return w.nanoL.GenIDByTS(ts) }
		if w.nanoL == nil {
			site = "UnixNanoNoLockID.GenIDByTS"
			gen = func() int64 { return w.nanoN.GenIDByTS(ts) }
		}
		switch f[0] {
		case "n":
			id := gen()
			w.checkNano(id, ts, site)
			return strconv.FormatInt(id, 10)
		case "nburst":
			n, ok := pCount(f[2], 100000)
			if !ok {
				return "bad-op"
			}
			ids := make([]int64, n)
			prev := w.nprev
			for i := range ids {
				ids[i] = gen()
				w.checkNano(ids[i], ts, site)
			}
			return burstLine(ids, prev, true)
		default:
			g, okg := pCount(f[2], 64)
			k, okk := pCount(f[3], 10000)
			if !okg || !okk {
				return "bad-op"
			}
			var per [][]int64
			if w.nanoL != nil {
				var ok bool
				per, ok = parallel(g, k, gen)
				if !ok {
					return "timeout"
				}
			} else {
				// the lock-free variant is documented as "lock control by caller": calls are serialised here
				ids := make([]int64, 0, g*k)
				for i := 0; i < g*k; i++ {
					ids = append(ids, gen())
				}
				per = [][]int64{ids}
			}
			all := mergeSorted(per)
			if !w.ntaint {
				if hasDup(all) {
					w.hit(site, "duplicate-under-concurrency", fmt.Sprintf("%d goroutines × %d calls returned a duplicate id", g, k))
				} else if !perThreadIncreasing(per) {
					w.hit(site, "not-increasing", fmt.Sprintf("%d goroutines × %d calls: one goroutine saw a non-increasing pair", g, k))
				}
			}
			prev := w.nprev
			for _, id := range all {
				w.checkNano(id, ts, site)
			}
			return burstLine(all, prev, true)
		}
	case "mono":
		if len(f) != 4 {
			return "bad-op"
		}
		node, ok1 := pI64(f[1])
		n, ok2 := pCount(f[2], 100000)
		g, ok3 := pCount(f[3], 64)
		if !ok1 || !ok2 || !ok3 {
			return "bad-op"
		}
		m, err := snowflake.NewMonoNode(node)
		if err != nil {
			if node >= 0 && node < int64(1)<<w.nb {
				w.hit("NewMonoNode", "rejects-valid-node", fmt.Sprintf("node %d rejected under nodeBits=%d", node, w.nb))
			}
			return "err"
		}
		if node < 0 || node >= int64(1)<<w.nb {
			w.hit("NewMonoNode", "accepts-invalid-node", fmt.Sprintf("node %d accepted under nodeBits=%d", node, w.nb))
		}
		per, ok := parallel(g, n, func() int64 { return m.Generate() })
		if !ok {
			return "timeout"
		}
		all := mergeSorted(per)
		wraps := 0
		for _, id := range all {
			if _, _, st := fieldsOf(id); st == 4095 {
				wraps++
			}
		}
		monoHit := func(what, msg string) {
			// the real clock is beyond the timestamp width of the layout for this epoch (e.g. epoch 1970 + 41 bits ends in 2039)
			if rel := time.Now().UnixMilli() - w.epoch; rel+2 >= int64(1)<<w.width() || rel < 0 {
				w.hit("MonoNode.Generate", "clock-beyond-timestamp-width", what+": "+msg+fmt.Sprintf(" [the clock is %d ms from the epoch, outside the %d-bit timestamp width]", rel, w.width()))
				return
			}
			w.hit("MonoNode.Generate", what, msg)
		}
		if hasDup(all) {
			monoHit("duplicate-under-concurrency", fmt.Sprintf("%d goroutines × %d calls returned a duplicate id", g, n))
		} else if !perThreadIncreasing(per) {
			monoHit("not-increasing", fmt.Sprintf("%d goroutines × %d calls: one goroutine saw a non-increasing pair", g, n))
		} else if i, why := monoAcceptGo(node, all); i >= 0 {
			monoHit(why, fmt.Sprintf("id #%d (%d after %d) of the merged trace is not a step of any non-decreasing clock", i, all[i], all[max(i-1, 0)]))
		}
		if r := w.monoOracle(node, all); r != "accepted" {
			return r
		}
		if wraps > 0 {
			return "accepted-wrap" // the step counter reached 4095 inside one millisecond: the wrap-and-spin branch ran
		}
		return "accepted-nowrap"
	case "nheld":
		return w.nheld(f)
	case "hheld":
		return w.hheld(f)
	case "nstress":
		return w.nstress(f)
	case "hstress":
		return w.hstress(f)
	case "monocheck":
		if len(f) < 2 {
			return "bad-op"
		}
		node, ok := pI64(f[1])
		if !ok {
			return "bad-op"
		}
		var ids []int64
		for _, s := range f[2:] {
			v, ok := pI64(s)
			if !ok {
				return "bad-op"
			}
			ids = append(ids, v)
		}
		if node < 0 || node >= int64(1)<<w.nb {
			return "err"
		}
		// pure judgement; the implementation side is the Go restatement of acceptance
		if i, _ := monoAcceptGo(node, ids); i >= 0 {
			return fmt.Sprintf("rejected@%d", i)
		}
		return "accepted"
	}
	return "bad-op"
}

// setup: `setup <epochMs> <mode> <lowest>` — configuration through the package's own path. The globals are first put back
// to the package defaults (hook), then Setup(UseEpoch(t), UseNodeMode(mode), [NodeAtLowest()]) runs for real.
func (w *world) setup(f []string) string {
	if len(f) != 4 {
		return "bad-op"
	}
	e, ok := pI64(f[1])
	mode, ok2 := pI64(f[2])
	if !ok || !ok2 || f[2][0] == '-' || mode > 255 || (f[3] != "0" && f[3] != "1") {
		return "bad-op"
	}
	w.close()
	hits := w.hits
	*w = world{hits: hits}
	w.restore = append(w.restore, snowflake.VerifSetConfig(1609430400000, 10, false)) // the package defaults
	opts := []snowflake.Option{snowflake.UseEpoch(time.UnixMilli(e)), snowflake.UseNodeMode(snowflake.NodeBitsMode(mode))}
	if f[3] == "1" {
		opts = append(opts, snowflake.NodeAtLowest())
	}
	snowflake.Setup(opts...)
	ge, gnb, gnal := snowflake.VerifConfig()
	w.ready, w.epoch, w.nb, w.nal = true, ge, gnb, gnal
	// monitors: "any epoch", node widths 8/9/10, node-at-lowest on/off — as configured
	if ge != e {
		if e > unixNanoMaxMs || e < -unixNanoMaxMs {
			w.hit("UseEpoch", "epoch-outside-unixnano-range", fmt.Sprintf("Setup(UseEpoch(%d ms)) stored the epoch %d [outside the int64-nanosecond range]", e, ge))
		} else {
			w.hit("UseEpoch", "epoch-mismatch", fmt.Sprintf("Setup(UseEpoch(%d ms)) stored the epoch %d", e, ge))
		}
	}
	wantNb := uint8(10)
	if mode == 8 || mode == 9 {
		wantNb = uint8(mode)
	}
	if gnb != wantNb {
		w.hit("UseNodeMode", "width-not-clamped", fmt.Sprintf("Setup(UseNodeMode(%d)) left node width %d", mode, gnb))
	}
	if gnal != (f[3] == "1") {
		w.hit("NodeAtLowest", "flag", fmt.Sprintf("node-at-lowest asked %s, configured %v", f[3], gnal))
	}
	b := 0
	if gnal {
		b = 1
	}
	if gnb != 8 && gnb != 9 && gnb != 10 {
		w.ready = false // no layout of the package: nothing else is defined
		return fmt.Sprintf("epoch=%d nb=%d nal=%d", ge, gnb, b)
	}
	// the options configure the layout and nothing else: a node made right after Setup, under whatever clock the package
	// now uses, stamps its ids not earlier than a reading of the host clock taken before the call (millisecond granularity)
	if n, err := snowflake.NewNode(0, 0); err == nil {
		for i := 0; i < 40; i++ {
			before := time.Now().UnixMilli()
			id := n.Generate()
			rel := before - ge
			if rel < 0 || rel+2 >= int64(1)<<w.width() || ge != e {
				break
			}
			if t, nn, _ := fieldsOf(id); t < rel || nn != 0 {
				w.hit("HardNode.Generate", "timestamp-before-clock", fmt.Sprintf("after Setup(UseEpoch(%d), UseNodeMode(%d), lowest=%s) a fresh node stamped epoch+%d (node %d) while the host clock read epoch+%d before the call", e, mode, f[3], t, nn, rel))
				break
			}
			time.Sleep(time.Millisecond) // spread the 40 calls over different milliseconds of the second
		}
	}
	return fmt.Sprintf("epoch=%d nb=%d nal=%d", ge, gnb, b)
}

// gid: `gid <cur> <lock> <n>` — GenID (the public entry point: real clock → GenIDByTS) n times on a fresh generator.
// Trace acceptance: strictly increasing, above the start value, and not below a clock reading taken before the call.
func (w *world) gid(f []string) string {
	if len(f) != 4 || (f[2] != "0" && f[2] != "1") {
		return "bad-op"
	}
	cur, ok := pI64(f[1])
	n, ok2 := pCount(f[3], 100000)
	if !ok || !ok2 {
		return "bad-op"
	}
	gen := nano.NewUnixNanoID(cur).GenID
	site := "UnixNanoID.GenID"
	if f[2] == "0" {
		gen = nano.NewUnixNanoNoLockID(cur).GenID
		site = "UnixNanoNoLockID.GenID"
	}
	if cur > 1<<62 {
		return "accepted" // next to MaxInt64: outside the clause (counter wrap)
	}
	prev := cur
	for i := 0; i < n; i++ {
		before := time.Now().UnixNano()
		id := gen()
		if id <= prev {
			w.hit(site, "not-increasing", fmt.Sprintf("call #%d returned %d after %d", i, id, prev))
			break
		}
		if id < before {
			w.hit(site, "below-clock", fmt.Sprintf("call #%d returned %d, the clock read %d before the call", i, id, before))
			break
		}
		prev = id
	}
	return "accepted"
}

// atLeastProcs makes sure the concurrent real-clock classes really run in parallel (a loaded or restricted host may
// start the harness with GOMAXPROCS 1–2); the returned function restores the setting.
func atLeastProcs(n int) func() {
	old := runtime.GOMAXPROCS(0)
	if old >= n {
		return func() {}
	}
	runtime.GOMAXPROCS(n)
	return func() { runtime.GOMAXPROCS(old) }
}

// gidpar: `gidpar <cur> <g> <k>` — g goroutines × k calls of the public GenID (real clock → GenIDByTS) on a fresh
// UnixNanoID. With `cur` ahead of the clock every call takes the increment branch, the most contended path.
// Monitor: merged ids duplicate-free, each goroutine's own sequence strictly increasing, every id above `cur`.
func (w *world) gidpar(f []string) string {
	if len(f) != 4 {
		return "bad-op"
	}
	cur, ok1 := pI64(f[1])
	g, ok2 := pCount(f[2], 64)
	k, ok3 := pCount(f[3], 100000)
	if !ok1 || !ok2 || !ok3 {
		return "bad-op"
	}
	if cur > 1<<62 {
		return "ok" // next to MaxInt64: outside the clause (counter wrap)
	}
	defer atLeastProcs(4)()
	n := nano.NewUnixNanoID(cur)
	per, ok := parallel(g, k, func() int64 { return n.GenID() })
	if !ok {
		return "timeout"
	}
	all := mergeSorted(per)
	what := ""
	switch {
	case hasDup(all):
		what = "a duplicate id was returned"
	case !perThreadIncreasing(per):
		what = "one goroutine was handed an id not above the one it had received before"
	case all[0] <= cur:
		what = fmt.Sprintf("id %d is not above the start value", all[0])
	}
	if what != "" {
		w.hit("UnixNanoID.GenID", "concurrent-not-increasing", fmt.Sprintf("%d goroutines × %d calls of GenID on NewUnixNanoID(%d): %s", g, k, cur, what))
	}
	return "ok"
}

// hreal: `hreal <node> <g> <k>` — the same for HardNode.Generate under the package's default clock (no hook installed).
func (w *world) hreal(f []string) string {
	if len(f) != 4 {
		return "bad-op"
	}
	node, ok1 := pI64(f[1])
	g, ok2 := pCount(f[2], 64)
	k, ok3 := pCount(f[3], 100000)
	if !ok1 || !ok2 || !ok3 {
		return "bad-op"
	}
	n, err := snowflake.NewNode(node, 0)
	if err != nil {
		return "err"
	}
	defer atLeastProcs(4)()
	before := time.Now().UnixMilli()
	per, ok := parallel(g, k, func() int64 { return n.Generate() })
	if !ok {
		return "timeout"
	}
	rel := before - w.epoch
	if rel < 0 {
		return "ok"
	}
	saved := w.beyond
	w.beyond = rel+int64(g*k)/4096+3 >= int64(1)<<w.width()
	defer func() { w.beyond = saved }()
	all := mergeSorted(per)
	what := ""
	switch {
	case hasDup(all):
		what = "a duplicate id was returned"
	case !perThreadIncreasing(per):
		what = "one goroutine was handed an id not above the one it had received before"
	}
	for _, id := range all {
		if t, nn, _ := fieldsOf(id); nn != node || t < rel {
			what = fmt.Sprintf("id %d carries node %d / timestamp epoch+%d, the clock read epoch+%d before the calls", id, nn, t, rel)
			break
		}
	}
	if what != "" {
		w.hardHit("HardNode.Generate", "concurrent-not-increasing", fmt.Sprintf("%d goroutines × %d calls of Generate on NewNode(%d, 0) under the real clock: %s", g, k, node, what), before)
	}
	return "ok"
}

// ---------------------------------------------------------------- deterministic concurrency classes

func joinIDs(ids []int64) string {
	var p []string
	for _, id := range ids {
		p = append(p, strconv.FormatInt(id, 10))
	}
	return strings.Join(p, ",")
}

func allDistinct(ids []int64) bool {
	seen := map[int64]bool{}
	for _, id := range ids {
		if seen[id] {
			return false
		}
		seen[id] = true
	}
	return true
}

// nheld: `nheld <cur> <tsLast> <ts>+`. UnixNanoID embeds sync.Mutex: the harness holds it, starts one caller of
// GenIDByTS(ts_i) after the other (each runs until it is parked), releases the mutex (blocked lockers are served in
// arrival order), waits for quiescence and makes one more sequential call. No sleep decides anything.
func (w *world) nheld(f []string) string {
	if len(f) < 4 || len(f) > 19 {
		return "bad-op"
	}
	var v []int64
	for _, a := range f[1:] {
		x, ok := pI64(a)
		if !ok {
			return "bad-op"
		}
		v = append(v, x)
	}
	cur, tsLast, tss := v[0], v[1], v[2:]
	n := nano.NewUnixNanoID(cur)
	s := sched.New()
	n.Lock()
	locked := true
	defer func() {
		if locked {
			n.Unlock()
		}
	}()
	ids := make([]int64, len(tss))
	var tasks []*sched.Task
	for i, ts := range tss {
		i, ts := i, ts
		tasks = append(tasks, s.Go(fmt.Sprintf("GenIDByTS#%d", i), func() string { ids[i] = n.GenIDByTS(ts); return "" }))
		if err := s.Settle(); err != nil {
			return "sched-error"
		}
	}
	n.Unlock()
	locked = false
	if err := s.Settle(); err != nil {
		return "sched-error"
	}
	for _, t := range tasks {
		if d, _ := t.Done(); !d {
			w.hit("UnixNanoID.GenIDByTS", "caller-stuck", "a caller of GenIDByTS did not return after the mutex was released")
			return "stuck"
		}
	}
	last := n.GenIDByTS(tsLast)
	// monitor (order-independent): the concurrent callers got distinct ids, each above the start value and not below its
	// timestamp; the later sequential call is above every id returned before it
	ok := true
	for _, x := range append(append([]int64{}, tss...), tsLast, cur) {
		if x > 1<<62 {
			ok = false // close to MaxInt64: outside the clause (counter wrap)
		}
	}
	if ok {
		what := ""
		all := append(append([]int64{}, ids...), last)
		switch {
		case !allDistinct(all):
			what = "duplicate id"
		case last < tsLast:
			what = "id below its timestamp"
		}
		for i, id := range ids {
			if id <= cur || id < tss[i] {
				what = "id not above the start value / below its timestamp"
			}
			if last <= id {
				what = fmt.Sprintf("the later call returned %d, not above the earlier id %d", last, id)
			}
		}
		if what != "" {
			w.hit("UnixNanoID.GenIDByTS", "concurrent-not-increasing", fmt.Sprintf("start %d, callers queued with ts %v returned %v, then GenIDByTS(%d) returned %d: %s", cur, tss, ids, tsLast, last, what))
		}
	}
	return fmt.Sprintf("ids=%s last=%d", joinIDs(ids), last)
}

// hheld: `hheld <node> <min> <msLast> <ms>+`. Hook-free: the injected clock blocks until the harness hands it a reading.
// On code that reads the clock under the node mutex exactly one caller waits in the clock at a time, the others on the
// mutex in arrival order; each reading handed over completes exactly one call.
func (w *world) hheld(f []string) string {
	if len(f) < 5 || len(f) > 20 {
		return "bad-op"
	}
	var v []int64
	for _, a := range f[1:] {
		x, ok := pI64(a)
		if !ok {
			return "bad-op"
		}
		v = append(v, x)
	}
	node, min, msLast, mss := v[0], v[1], v[2], v[3:]
	n, err := snowflake.NewNode(node, min)
	if err != nil {
		return "err"
	}
	ch := make(chan time.Time)
	quit := make(chan struct{})
	restore := snowflake.VerifSetNow(func() time.Time {
		select {
		case t := <-ch:
			return t
		case <-quit:
			return clockOf(msLast, 0)
		}
	})
	defer restore()
	defer close(quit) // releases callers still waiting in the clock (only on misbehaving code)
	s := sched.New()
	ids := make([]int64, len(mss))
	var tasks []*sched.Task
	for i := range mss {
		i := i
		tasks = append(tasks, s.Go(fmt.Sprintf("Generate#%d", i), func() string { ids[i] = n.Generate(); return "" }))
		if err := s.Settle(); err != nil {
			return "sched-error"
		}
	}
	done := make([]bool, len(mss))
	var rounds [][]int64 // ids grouped by the hand-over after which their call had returned
	for _, ms := range mss {
		select {
		case ch <- clockOf(ms, 0):
		case <-time.After(5 * time.Second):
			w.hit("HardNode.Generate", "caller-stuck", "no caller was waiting for the clock")
			return "stuck"
		}
		if err := s.Settle(); err != nil {
			return "sched-error"
		}
		var round []int64
		for i, t := range tasks {
			if d, _ := t.Done(); d && !done[i] {
				done[i] = true
				round = append(round, ids[i])
			}
		}
		rounds = append(rounds, round)
	}
	for _, d := range done {
		if !d {
			w.hit("HardNode.Generate", "caller-stuck", "a caller of Generate had not returned after every queued clock reading was handed over")
			return "stuck"
		}
	}
	// from here on the clock never blocks again (the monitors below may call into the package)
	restore2 := snowflake.VerifSetNow(func() time.Time { return clockOf(msLast, 0) })
	defer restore2()
	last := n.Generate()
	// monitor: width hypothesis, then — ids returned after a later hand-over exceed those returned before; all distinct;
	// node field; the later sequential call above everything
	W := w.width()
	inw := min >= 0 && node >= 0
	mt, mn, _ := fieldsOf(min)
	top := mt
	for _, ms := range append(append([]int64{}, mss...), msLast) {
		if ms < -(1<<62) || ms > 1<<62 {
			inw = false
		} else if ms-w.epoch > top {
			top = ms - w.epoch
		}
	}
	if top+3 >= int64(1)<<W {
		inw = false
	}
	if min >= 0 && node >= 0 {
		saved := w.beyond
		w.beyond = !inw
		defer func() { w.beyond = saved }()
		what := ""
		all := append(append([]int64{}, ids...), last)
		if !allDistinct(all) {
			what = "duplicate id"
		}
		prevMax, has := int64(0), false
		if mn == node {
			prevMax, has = min, true // restarted with an id of its own
		}
		for _, r := range append(rounds, []int64{last}) {
			for _, id := range r {
				if has && id <= prevMax {
					what = fmt.Sprintf("id %d returned after id %d had been returned", id, prevMax)
				}
				if _, nn, _ := fieldsOf(id); nn != node {
					what = fmt.Sprintf("id %d carries node %d", id, nn)
				}
			}
			for _, id := range r {
				if !has || id > prevMax {
					prevMax, has = id, true
				}
			}
		}
		if what != "" {
			w.hardHit("HardNode.Generate", "concurrent-not-increasing", fmt.Sprintf("node %d seed %d, callers queued, clock answered %v one caller at a time → %v, then a call at %d → %d: %s", node, min, mss, ids, msLast, last, what), msLast)
		}
	}
	return fmt.Sprintf("ids=%s last=%d", joinIDs(ids), last)
}

// nstress: `nstress <cur> <g> <k>` — g goroutines × k calls on a fresh UnixNanoID, goroutine j asking with its own
// timestamp sequence (descending, ascending, constant, jittering around the others). Monitors only.
func (w *world) nstress(f []string) string {
	if len(f) != 4 {
		return "bad-op"
	}
	cur, ok1 := pI64(f[1])
	g, ok2 := pCount(f[2], 64)
	k, ok3 := pCount(f[3], 10000)
	if !ok1 || !ok2 || !ok3 {
		return "bad-op"
	}
	if cur > 1<<61 || cur < -(1<<61) {
		return "ok"
	}
	n := nano.NewUnixNanoID(cur)
	per := make([][]int64, g)
	tss := make([][]int64, g)
	var wg sync.WaitGroup
	start := make(chan struct{})
	for j := 0; j < g; j++ {
		wg.Add(1)
		go func(j int) {
			defer wg.Done()
			ids, ts := make([]int64, 0, k), make([]int64, 0, k)
			<-start
			for i := 0; i < k; i++ {
				var t int64
				switch j % 4 {
				case 0:
					t = cur + int64(k-i)*3 + int64(j) // descending
				case 1:
					t = cur + int64(i)*2 // ascending
				case 2:
					t = cur + int64(k) // constant
				default:
					t = cur + int64((i*7919+j*104729)%(3*k+1)) // jitter
				}
				ts = append(ts, t)
				ids = append(ids, n.GenIDByTS(t))
			}
			per[j], tss[j] = ids, ts
		}(j)
	}
	close(start)
	doneCh := make(chan struct{})
	go func() { wg.Wait(); close(doneCh) }()
	select {
	case <-doneCh:
	case <-time.After(60 * time.Second):
		return "timeout"
	}
	all := mergeSorted(per)
	site := "UnixNanoID.GenIDByTS"
	if hasDup(all) {
		w.hit(site, "duplicate-under-concurrency", fmt.Sprintf("%d goroutines × %d calls with different timestamp sequences returned a duplicate id", g, k))
	} else if !perThreadIncreasing(per) {
		w.hit(site, "not-increasing", fmt.Sprintf("%d goroutines × %d calls with different timestamp sequences: one goroutine saw a non-increasing pair", g, k))
	}
	for j := range per {
		for i, id := range per[j] {
			if id < tss[j][i] || id <= cur {
				w.hit(site, "below-ts", fmt.Sprintf("id %d below its timestamp %d (or the start value %d)", id, tss[j][i], cur))
			}
		}
	}
	return "ok"
}

// hstress: `hstress <node> <ms> <g> <k>` — g goroutines × k calls on a fresh HardNode while the clock moves (forward with
// backward jitter) at every reading. Monitors only.
func (w *world) hstress(f []string) string {
	if len(f) != 5 {
		return "bad-op"
	}
	node, ok1 := pI64(f[1])
	ms, ok2 := pI64(f[2])
	g, ok3 := pCount(f[3], 64)
	k, ok4 := pCount(f[4], 10000)
	if !ok1 || !ok2 || !ok3 || !ok4 {
		return "bad-op"
	}
	n, err := snowflake.NewNode(node, 0)
	if err != nil {
		return "err"
	}
	var c int64
	restore := snowflake.VerifSetNow(func() time.Time {
		x := atomic.AddInt64(&c, 1)
		return clockOf(ms+x/97-x%5, 0)
	})
	per, ok := parallel(g, k, func() int64 { return n.Generate() })
	restore()
	if !ok {
		return "timeout"
	}
	rel := ms - w.epoch
	if ms < -(1<<62) || ms > 1<<62 || rel < 8 {
		return "ok" // before the epoch: nothing to say about the timestamps
	}
	saved := w.beyond
	w.beyond = rel+int64(g*k) >= int64(1)<<w.width()
	defer func() { w.beyond = saved }()
	all := mergeSorted(per)
	if hasDup(all) {
		w.hardHit("HardNode.Generate", "duplicate-under-concurrency", fmt.Sprintf("%d goroutines × %d calls under a moving clock returned a duplicate id", g, k), ms)
	} else if !perThreadIncreasing(per) {
		w.hardHit("HardNode.Generate", "not-increasing", fmt.Sprintf("%d goroutines × %d calls under a moving clock: one goroutine saw a non-increasing pair", g, k), ms)
	}
	for _, id := range all {
		if t, nn, _ := fieldsOf(id); nn != node || t < rel-5 {
			w.hardHit("HardNode.Generate", "node-field", fmt.Sprintf("id %d carries node %d / timestamp %d under a clock ≥ epoch+%d", id, nn, t, rel-5), ms)
			break
		}
	}
	return "ok"
}

func max(a, b int) int {
	if a > b {
		return a
	}
	return b
}

// monoOracle asks the Lean model whether it accepts the observed MonoNode trace (the trace depends on
// real time, so it cannot be part of the script text). Without an oracle the Go restatement decides.
func (w *world) monoOracle(node int64, ids []int64) string {
	if oraclePath == "" {
		if i, _ := monoAcceptGo(node, ids); i >= 0 {
			return fmt.Sprintf("rejected@%d", i)
		}
		return "accepted"
	}
	nal := "0"
	if w.nal {
		nal = "1"
	}
	var sb strings.Builder
	fmt.Fprintf(&sb, "monocheck %d", node)
	for _, id := range ids {
		sb.WriteByte(' ')
		sb.WriteString(strconv.FormatInt(id, 10))
	}
	outs, err := corr.RunOracle(oraclePath, []string{fmt.Sprintf("cfg %d %d %s", w.epoch, w.nb, nal), sb.String()})
	if err != nil || len(outs) != 2 {
		return "oracle-error"
	}
	return outs[1]
}

// runLocal runs one script in this process.
func runLocal(c corr.Case) corr.Result {
	restoreOrigClock() // the package's own default clock
	w := &world{}
	defer w.close()
	var res corr.Result
	for _, l := range c.Lines {
		res.Outs = append(res.Outs, w.run(l))
	}
	res.Hits = w.hits
	return res
}

// ---- the code under test runs in a worker process: a Go *fatal error* (unlock of an unlocked mutex, concurrent map
// write, all goroutines asleep) or a hang cannot be recovered in-process, and the harness itself must never die. The
// parent sends one script per line (JSON), the worker answers with outputs and monitor hits; when the worker dies or
// does not answer in time the script gets the hit `…:fatal-error` / `…:hang`, and a fresh worker is started.

type wireCase struct {
	Lines []string `json:"lines"`
}
type wireResult struct {
	Outs []string   `json:"outs"`
	Hits []corr.Hit `json:"hits"`
}

func workerLoop() {
	in := bufio.NewReaderSize(os.Stdin, 1<<20)
	out := bufio.NewWriter(os.Stdout)
	for {
		line, err := in.ReadBytes('\n')
		if len(line) > 0 {
			var c wireCase
			if json.Unmarshal(line, &c) == nil {
				r := runLocal(corr.Case{Lines: c.Lines})
				b, _ := json.Marshal(wireResult{Outs: r.Outs, Hits: r.Hits})
				out.Write(b)
				out.WriteByte('\n')
				out.Flush()
			}
		}
		if err != nil {
			return
		}
	}
}

type workerProc struct {
	cmd    *exec.Cmd
	in     io.WriteCloser
	out    *bufio.Reader
	stderr *bytes.Buffer
}

var theWorker *workerProc

func startWorker() *workerProc {
	exe, err := os.Executable()
	if err != nil {
		return nil
	}
	cmd := exec.Command(exe, "worker", oraclePath)
	in, err1 := cmd.StdinPipe()
	outp, err2 := cmd.StdoutPipe()
	eb := &bytes.Buffer{}
	cmd.Stderr = eb
	if err1 != nil || err2 != nil || cmd.Start() != nil {
		return nil
	}
	return &workerProc{cmd: cmd, in: in, out: bufio.NewReaderSize(outp, 1<<20), stderr: eb}
}

// siteOf names the generator a script mainly exercises (for the key of a fatal error / hang).
func siteOf(lines []string) string {
	site := "generator"
	for _, l := range lines {
		f := strings.Fields(l)
		if len(f) == 0 {
			continue
		}
		switch f[0] {
		case "mono":
			return "MonoNode.Generate"
		case "g", "burst", "par", "hheld", "hstress", "hreal", "hard":
			site = "HardNode.Generate"
		case "n", "nburst", "npar", "nheld", "nstress", "gid", "gidpar", "nano", "nanonl":
			if site == "generator" {
				site = "UnixNanoID.GenIDByTS"
			}
		}
	}
	return site
}

func runOnce(c corr.Case) corr.Result {
	if theWorker == nil {
		theWorker = startWorker()
	}
	w := theWorker
	if w == nil {
		return runLocal(c) // no child process can be started on this host: in-process (no protection against fatal errors)
	}
	b, _ := json.Marshal(wireCase{Lines: c.Lines})
	type answer struct {
		line []byte
		err  error
	}
	ch := make(chan answer, 1)
	go func() {
		if _, err := w.in.Write(append(b, '\n')); err != nil {
			ch <- answer{nil, err}
			return
		}
		line, err := w.out.ReadBytes('\n')
		ch <- answer{line, err}
	}()
	fail := func(what, detail string) corr.Result {
		_ = w.cmd.Process.Kill()
		_ = w.cmd.Wait()
		theWorker = nil
		var res corr.Result
		for range c.Lines {
			res.Outs = append(res.Outs, what)
		}
		res.Hits = []corr.Hit{{Key: "C06:" + siteOf(c.Lines) + ":" + what, What: "the process running this script " + detail}}
		return res
	}
	select {
	case a := <-ch:
		var r wireResult
		if a.err == nil && json.Unmarshal(a.line, &r) == nil && len(r.Outs) == len(c.Lines) {
			return corr.Result{Outs: r.Outs, Hits: r.Hits}
		}
		time.Sleep(50 * time.Millisecond) // let the runtime finish writing its report
		msg := strings.TrimSpace(w.stderr.String())
		if i := strings.Index(msg, "\n"); i > 0 {
			msg = msg[:i]
		}
		if len(msg) > 200 {
			msg = msg[:200]
		}
		return fail("fatal-error", "died: "+msg)
	case <-time.After(150 * time.Second):
		return fail("hang", "did not finish within 150 s")
	}
}

// runCase: a monitor hit is reported as a concrete replay only after the same script, run again on its own from the
// default state, hits the same key; otherwise the hit is kept but filed as `…:unreproduced` (state leaked from an
// earlier script, or a rare schedule) so that nobody takes the script for a failing input.
func runCase(c corr.Case) corr.Result {
	res := runOnce(c)
	if len(res.Hits) == 0 {
		return res
	}
	again := runOnce(c)
	for i, h := range res.Hits {
		ok := false
		for _, h2 := range again.Hits {
			if h2.Key == h.Key {
				ok = true
			}
		}
		if !ok {
			res.Hits[i].Key = h.Key + ":unreproduced"
			res.Hits[i].What = h.What + " [NOT reproduced when this script was run again on its own: the cause may lie in an earlier script or in a rare schedule]"
		}
	}
	return res
}

// ---------------------------------------------------------------- generator

const (
	ms2021 = 1609430400000 // default epoch
	ms2000 = 946684800000
	ms2270 = 9467020800000 // 2270-01-01T00:00:00Z
)

func i64s(v int64) string { return strconv.FormatInt(v, 10) }

// minedCases: boundary scripts around the integer literals found in the source that the modelled code does not contain
// (none on the unchanged tree). v is used as a clock offset from the epoch, as a raw timestamp and as a nano ts.
func minedCases() []corr.Case {
	var out []corr.Case
	for _, v := range c06wrap.Patterns(c06wrap.LoadConsts("C06")) {
		if v < 2 {
			continue
		}
		for _, lay := range [][2]int{{10, 0}, {8, 1}} {
			if v+3 >= int64(1)<<uint(51-lay[0]) {
				continue
			}
			e := int64(ms2021)
			out = append(out, corr.Case{Tag: "mined-constant", Lines: []string{
				fmt.Sprintf("cfg %d %d %d", e, lay[0], lay[1]), "hard 5 0",
				fmt.Sprintf("g %d 0", e+v-1), fmt.Sprintf("g %d 0", e+v), fmt.Sprintf("g %d 0", e+v), "hard 5 $last", fmt.Sprintf("g %d 0", e+v),
				fmt.Sprintf("g %d 0", e+v+1), fmt.Sprintf("burst %d 0 3", e+v+1), "state"}})
		}
		out = append(out, corr.Case{Tag: "mined-constant", Lines: []string{"cfg 0 10 0", "nano 0", fmt.Sprintf("n %d", v-1), fmt.Sprintf("n %d", v), fmt.Sprintf("n %d", v),
			fmt.Sprintf("n %d", v+1), "nanonl 0", fmt.Sprintf("n %d", v-1), fmt.Sprintf("n %d", v), fmt.Sprintf("n %d", v+1)}})
	}
	return out
}

func fixedCases() []corr.Case {
	mk := func(tag string, lines ...string) corr.Case { return corr.Case{Tag: tag, Lines: lines} }
	return append(minedCases(), []corr.Case{
		// F06: Node256 layout, clock 2270-01-01 is inside the 43-bit width; UnixNano has overflowed
		mk("witness-F06", "cfg 1609430400000 8 0", "hard 3 0", "g 9467020800000 0"),
		mk("witness-F06-lowest", "cfg 1609430400000 8 1", "hard 255 0", "g 9467020800000 0", "g 9467020800001 0"),
		// epoch after 2262 (any epoch is allowed): NewNode's conversion of _epoch
		mk("epoch-2300", "cfg 10413792000000 8 0", "hard 1 0", "state", "g 10413792000005 0"),
		// > 4096 requests in one millisecond, stall, step back, restart
		mk("wrap", "cfg 1609430400000 10 0", "hard 1023 0", "g 1700000000000 0", "burst 1700000000000 999999 4095", "g 1700000000000 0", "state",
			"burst 1699999999000 0 8200", "g 1700000000001 0", "g 1700000000003 0", "state"),
		mk("restart", "cfg 1609430400000 9 1", "hard 511 0", "burst 1700000000000 0 5000", "hard 511 $last", "g 1600000000000 0", "g 1700000000001 0",
			"hard 511 $last", "burst 1700000000001 0 4097"),
		mk("node-range", "cfg 1609430400000 8 0", "hard 256 0", "hard -1 0", "hard 255 0", "g 1609430400000 0", "hard 0 0", "g 1609430400001 0"),
		mk("before-epoch", "cfg 1609430400000 10 0", "hard 5 0", "g 1609430399999 999999", "g 0 0", "g -5 0", "g 1609430400000 0"),
		mk("width-end-1024", "cfg 1609430400000 10 0", "hard 7 0", "g 3808453655550 0", "g 3808453655551 0", "burst 3808453655551 0 4095", "state"),
		mk("par", "cfg 1609430400000 10 0", "hard 9 0", "par 1700000000000 0 8 1200", "par 1700000000000 0 3 1", "state"),
		mk("nano", "cfg 0 10 0", "nano 100", "n 50", "n 100", "n 101", "n 103", "n 103", "n -9223372036854775808", "nburst 200 50", "npar 100 8 500", "nanonl 5", "n 9", "n 9", "npar 1 4 10"),
		mk("nano-max", "cfg 0 10 0", "nano 9223372036854775806", "n 9223372036854775807", "n 0"),
		mk("mono", "cfg 1609430400000 10 0", "mono 3 20000 1", "mono 3 3000 8"),
		mk("mono-lowest-256", "cfg 946684800000 8 1", "mono 255 9000 2"),
		// callers queued on the held mutex with descending timestamps, then a call between them (the interleaving a split
		// check-then-update would get wrong), and the same for a wall-clock node with the clock answering one caller at a time
		mk("held-nano", "cfg 0 10 0", "nheld 100 145 160 150 140 130", "nheld 0 7 5 6 7 8", "nheld 10 3 9 9 9", "nheld -5 0 1 -3 2"),
		mk("held-hard", "cfg 1609430400000 10 0", "hheld 3 0 1700000000001 1700000000005 1700000000003 1700000000001",
			"hheld 1023 0 1700000000000 1700000000000 1700000000000 1700000000000 1700000000000", "hheld 7 379876435579383811 1600000000000 1600000000001 1600000000000", "hheld 1024 0 5 5 5"),
		mk("stress", "cfg 1609430400000 10 0", "nstress 1000 8 400", "hstress 5 1700000000000 8 400", "hstress 1024 1700000000000 2 2"),
		// the known limit of the format: a far-future reading (epoch + 2^41 ms under Node1024) — later ids are lower
		mk("beyond-width", "cfg 1609430400000 10 0", "hard 1 0", "g 1700000000000 0", "g 3808453655552 0", "g 1700000000001 0"),
		mk("beyond-width-fresh", "cfg 1609430400000 10 0", "hard 1 0", "g 6007476911104 0"),
		mk("beyond-width-mono", "cfg -1000000000000 10 0", "mono 1 100 1"),
		// the package's own configuration path (not the hook): any epoch, node widths clamped to 8/9/10
		mk("setup", "setup 1609430400000 10 0", "hard 1 0", "g 1700000000000 0", "setup 946684800000 8 1", "hard 255 0", "g 1700000000000 5", "state",
			"setup 10413792000000 9 0", "hard 1 0", "g 10413792000005 0", "setup 0 11 0", "setup 5 0 1", "setup 5 255 0", "setup 5 256 0", "setup 5 9 2", "setup -9223372036855 10 0"),
		// concurrent callers of the public entry points on the real clock (generator started ahead of the clock: every call
		// takes the increment branch), and of HardNode / MonoNode Generate under the default clock
		mk("real-clock-concurrent", "cfg 1609430400000 10 0", "gidpar 4102444800000000000 8 20000", "gidpar 0 8 5000", "hreal 5 8 20000", "mono 7 20000 8", "hreal 1024 2 2"),
		// NodeAtLowest / UseNodeMode through the real Setup, then the default clock is looked at (millisecond granularity)
		mk("setup-lowest-clock", "setup 1609430400000 10 1", "hard 3 0", "g 1700000000000 0", "setup 1609430400000 9 0"),
		mk("genid", "cfg 0 10 0", "gid 0 1 5000", "gid 0 0 5000", "gid 4102444800000000000 1 3000", "gid 1 2 5", "gid 9223372036854775807 1 3"),
		mk("monocheck", "cfg 1609430400000 10 0", "monocheck 1 4194308096 4194308097 8388612096", "monocheck 1 4194308096 4194308098", "monocheck 1 8388612096 4194308096", "monocheck 1024"),
		mk("malformed", "cfg 1 10 0", "g 1 0", "cfg 1 7 0", "cfg 1 8 2", "g 1 0", "hard 1", "hard 1 $last", "hard 1_0 0", "hard +1 0", "hard 1 0", "g 1 1000000", "g 1 -1",
			"burst 1 0 0", "burst 1 0 100001", "par 1 0 65 1", "n 5", "nano 9223372036854775808", "state x", "", "xyzzy 1 2"),
	}...)
}

// clock script: stalls, small steps, steps back, jumps, bursts across the step-counter wrap
func genHard(r *rng.R, tier string) corr.Case {
	nb := r.PickInt(8, 9, 10)
	nal := r.PickInt(0, 1)
	W := uint(63 - 12 - nb)
	epoch := r.PickI64(ms2021, ms2000, 0, 1, ms2021+r.I64()%1000000000, 4102444800000 /*2100*/, 8000000000000 /*2223*/, 9214646400000 /*2262-01-01*/, 10413792000000 /*2300*/)
	if r.Chance(1, 8) {
		epoch = int64(r.U64() % (1 << 44)) // "any epoch"
	}
	node := int64(r.Intn(1 << nb))
	if r.Chance(1, 3) {
		node = r.PickI64(0, int64(1)<<nb-1)
	}
	lines := []string{fmt.Sprintf("cfg %d %d %d", epoch, nb, nal)}
	// seed id
	min := int64(0)
	if r.Chance(1, 3) {
		t := int64(r.U64() % (1 << W))
		if r.Chance(1, 2) {
			t = int64(r.U64() % (1 << 41))
		}
		step := int64(r.PickInt(0, 1, 4094, 4095, r.Intn(4096)))
		if nal == 1 {
			min = t<<(uint(nb)+12) | step<<uint(nb) | node
		} else {
			min = t<<(uint(nb)+12) | node<<12 | step
		}
	}
	lines = append(lines, fmt.Sprintf("hard %d %d", node, min))
	// clock trajectory, relative to the epoch
	maxRel := int64(1)<<W - 1
	rel := int64(r.U64() % (1 << 40))
	switch r.Intn(6) {
	case 0:
		rel = maxRel - int64(r.Intn(20000)) // close to the end of the width
	case 1:
		rel = int64(r.Intn(5))
	case 2:
		rel = int64(r.U64() % uint64(maxRel))
	}
	nOps := r.Range(4, 14)
	if tier != "quick" {
		nOps = r.Range(4, 24)
	}
	budget := 9000 // calls per case (the oracle costs ≈ 4 µs per modelled call)
	for i := 0; i < nOps; i++ {
		switch r.Intn(12) {
		case 0, 1, 2: // stall
		case 3, 4:
			rel += int64(r.Intn(3) + 1)
		case 5:
			rel -= int64(r.Intn(5) + 1) // step back
		case 6:
			rel -= int64(r.U64() % (1 << 33)) // jump back
		case 7:
			rel += int64(r.U64() % (1 << 33))
		case 8:
			rel = int64(r.U64() % uint64(maxRel)) // anywhere in the width (far future included)
		case 9:
			rel = maxRel - int64(r.Intn(3))
		case 10:
			rel = -int64(r.Intn(3)) // at/before the epoch
		case 11:
			rel += 1
		}
		if rel > maxRel {
			rel = maxRel
		}
		ms := epoch + rel
		sub := r.PickInt(0, 0, 999999, r.Intn(1000000))
		switch k := r.Intn(10); {
		case k < 4:
			lines = append(lines, fmt.Sprintf("g %d %d", ms, sub))
			budget--
		case k < 7 && budget < 8193:
			n := r.Range(1, 40)
			lines = append(lines, fmt.Sprintf("burst %d %d %d", ms, sub, n))
			budget -= n
		case k < 7:
			n := r.PickInt(4095, 4096, 4097, 8192, 8193, r.Range(1, 8193), r.Range(1, 50), r.Range(1, 50))
			lines = append(lines, fmt.Sprintf("burst %d %d %d", ms, sub, n))
			budget -= n
		case k < 8 && budget >= 8193:
			g := r.Range(2, 8)
			kk := r.PickInt(1, r.Range(1, 40), r.Range(500, 1100))
			lines = append(lines, fmt.Sprintf("par %d %d %d %d", ms, sub, g, kk))
			budget -= g * kk
		case k < 9:
			lines = append(lines, "state")
		default:
			// restart: with the last id issued (the clause of the property), or with an unrelated seed
			if r.Chance(4, 5) {
				lines = append(lines, fmt.Sprintf("hard %d $last", node))
			} else {
				lines = append(lines, fmt.Sprintf("hard %d %d", r.Intn(1<<nb), int64(r.U64()>>1)))
			}
		}
	}
	lines = append(lines, "state")
	return corr.Case{Tag: "hard-clock", Lines: lines}
}

func genNano(r *rng.R) corr.Case {
	lines := []string{"cfg 0 10 0"}
	cur := r.PickI64(0, 1, -1, 1<<62, -(1 << 62), int64(r.U64()>>2), time.Date(2024, 1, 1, 0, 0, 0, 0, time.UTC).UnixNano())
	lines = append(lines, r.Pick("nano ", "nano ", "nanonl ")+i64s(cur))
	ts := cur
	for i, n := 0, r.Range(3, 20); i < n; i++ {
		switch r.Intn(8) {
		case 0, 1:
			ts += int64(r.Intn(3))
		case 2:
			ts -= int64(r.Intn(1000))
		case 3:
			ts += int64(r.Intn(100000))
		case 4:
			ts = int64(r.U64() >> 2)
		case 5:
			ts = cur + int64(i)
		}
		switch r.Intn(6) {
		case 0:
			lines = append(lines, fmt.Sprintf("nburst %d %d", ts, r.Range(1, 300)))
		case 1:
			lines = append(lines, fmt.Sprintf("npar %d %d %d", ts, r.Range(2, 8), r.Range(1, 200)))
		default:
			lines = append(lines, "n "+i64s(ts))
		}
	}
	return corr.Case{Tag: "nano", Lines: lines}
}

func genMono(r *rng.R) corr.Case {
	nb := r.PickInt(8, 9, 10)
	// epochs a fixed distance in the past (script text depends on the seed only); a MonoNode whose clock is outside the
	// timestamp width of the layout (epoch + 2^41 ms ends in 2039 for epoch 1970) is the known limit, reported as such
	epoch := r.PickI64(ms2021, ms2000, 1500000000000)
	node := r.Intn(1 << nb)
	g := r.PickInt(1, 1, 2, 4, 8)
	n := r.PickInt(50, 5000, 12000) / g
	if n == 0 {
		n = 1
	}
	return corr.Case{Tag: "mono-real-clock", Lines: []string{fmt.Sprintf("cfg %d %d %d", epoch, nb, r.Intn(2)), fmt.Sprintf("mono %d %d %d", node, n, g)}}
}

// the package's own configuration path, then a short clock script under the configuration it produced
func genSetup(r *rng.R) corr.Case {
	epoch := r.PickI64(ms2021, ms2000, 0, 1, -1, 4102444800000, 9214646400000 /*2262-01-01*/, 9223372036854, 9223372036855, 10413792000000 /*2300*/, -9223372036855, int64(r.U64()%(1<<44)))
	mode := r.PickInt(8, 9, 10, 0, 7, 11, 12, 255, r.Intn(256))
	lines := []string{fmt.Sprintf("setup %d %d %d", epoch, mode, r.Intn(2))}
	if r.Chance(2, 3) {
		node := r.Intn(256)
		rel := int64(r.U64() % (1 << 40))
		lines = append(lines, fmt.Sprintf("hard %d 0", node), fmt.Sprintf("g %d 0", epoch+rel), fmt.Sprintf("burst %d 0 %d", epoch+rel, r.Range(1, 20)), "state")
	}
	return corr.Case{Tag: "setup-path", Lines: lines}
}

func genRealPar(r *rng.R) corr.Case {
	nb := r.PickInt(8, 9, 10)
	lines := []string{fmt.Sprintf("cfg %d %d %d", r.PickI64(ms2021, ms2000, 1500000000000), nb, r.Intn(2))}
	switch r.Intn(3) {
	case 0:
		lines = append(lines, fmt.Sprintf("gidpar %d %d %d", r.PickI64(4102444800000000000, 0, time.Date(2024, 1, 1, 0, 0, 0, 0, time.UTC).UnixNano()), r.Range(2, 16), r.Range(1000, 20000)))
	case 1:
		lines = append(lines, fmt.Sprintf("hreal %d %d %d", r.Intn(1<<nb), r.Range(2, 16), r.Range(1000, 20000)))
	default:
		lines = append(lines, fmt.Sprintf("mono %d %d %d", r.Intn(1<<nb), r.Range(1000, 10000), r.Range(2, 16)))
	}
	return corr.Case{Tag: "real-clock-concurrent", Lines: lines}
}

func genGenID(r *rng.R) corr.Case {
	cur := r.PickI64(0, time.Date(2024, 1, 1, 0, 0, 0, 0, time.UTC).UnixNano(), 1<<62, 4102444800000000000 /* 2100: ahead of the clock */)
	return corr.Case{Tag: "genid-real-clock", Lines: []string{"cfg 0 10 0", fmt.Sprintf("gid %d %d %d", cur, r.Intn(2), r.Range(100, 5000))}}
}

// deterministic concurrency scripts: callers queued on the generator's lock with chosen timestamps / clock readings
func genHeld(r *rng.R) corr.Case {
	nb := r.PickInt(8, 9, 10)
	epoch := r.PickI64(ms2021, ms2000, 0)
	lines := []string{fmt.Sprintf("cfg %d %d %d", epoch, nb, r.Intn(2))}
	for i, n := 0, r.Range(1, 3); i < n; i++ {
		k := r.Range(2, 8)
		pattern := r.Intn(4)
		if r.Chance(1, 2) {
			cur := r.PickI64(0, 100, -50, int64(r.U64()>>3), time.Date(2024, 1, 1, 0, 0, 0, 0, time.UTC).UnixNano())
			base := cur + int64(r.Intn(200)) - 20
			var ts []string
			lo, hi := int64(1<<62), int64(-(1 << 62))
			for j := 0; j < k; j++ {
				var t int64
				switch pattern {
				case 0:
					t = base + int64(k-j)*int64(r.Range(1, 20)) // descending
				case 1:
					t = base + int64(j) // ascending
				case 2:
					t = base // equal
				default:
					t = base + int64(r.Intn(100))
				}
				if t < lo {
					lo = t
				}
				if t > hi {
					hi = t
				}
				ts = append(ts, i64s(t))
			}
			tsLast := lo + int64(r.Intn(int(hi-lo)+2))
			lines = append(lines, fmt.Sprintf("nheld %d %d %s", cur, tsLast, strings.Join(ts, " ")))
		} else {
			node := r.Intn(1 << nb)
			base := epoch + int64(r.U64()%(1<<40)) + 100
			var ms []string
			lo := int64(1 << 62)
			for j := 0; j < k; j++ {
				var t int64
				switch pattern {
				case 0:
					t = base + int64(k-j)*int64(r.Range(1, 5))
				case 1:
					t = base + int64(j)
				case 2:
					t = base
				default:
					t = base + int64(r.Intn(50))
				}
				if t < lo {
					lo = t
				}
				ms = append(ms, i64s(t))
			}
			lines = append(lines, fmt.Sprintf("hheld %d 0 %d %s", node, lo+int64(r.Intn(3)), strings.Join(ms, " ")))
		}
	}
	return corr.Case{Tag: "held-lock", Lines: lines}
}

func genStress(r *rng.R) corr.Case {
	nb := r.PickInt(8, 9, 10)
	lines := []string{fmt.Sprintf("cfg %d %d %d", int64(ms2021), nb, r.Intn(2))}
	if r.Chance(1, 2) {
		lines = append(lines, fmt.Sprintf("nstress %d %d %d", r.PickI64(0, 1000000, time.Date(2024, 1, 1, 0, 0, 0, 0, time.UTC).UnixNano()), r.Range(2, 16), r.Range(50, 3000)))
	} else {
		lines = append(lines, fmt.Sprintf("hstress %d %d %d %d", r.Intn(1<<nb), int64(ms2021)+int64(r.U64()%(1<<39))+100, r.Range(2, 16), r.Range(50, 3000)))
	}
	return corr.Case{Tag: "stress", Lines: lines}
}

func genMalformed(r *rng.R) corr.Case {
	toks := []string{"cfg", "hard", "g", "burst", "par", "state", "nano", "n", "nburst", "npar", "mono", "monocheck", "nheld", "hheld", "nstress", "hstress", "setup", "gid", "gidpar", "hreal", "x", "$last", "0", "1", "-1", "8", "10", "11",
		"4096", "99999999999999999999", "1e3", "0x10", "+3", "", "1_0", "9223372036854775807", "-9223372036854775808"}
	lines := []string{"cfg 1609430400000 10 0", "hard 1 0", "nano 0"}
	for i, n := 0, r.Range(3, 10); i < n; i++ {
		k := r.Range(1, 5)
		var f []string
		for j := 0; j < k; j++ {
			f = append(f, toks[r.Intn(len(toks))])
		}
		if f[0] == "mono" || f[0] == "par" || f[0] == "burst" || f[0] == "nburst" || f[0] == "npar" || f[0] == "nstress" || f[0] == "hstress" || f[0] == "gidpar" || f[0] == "hreal" {
			f[0] = "g" // keep the malformed stream cheap
		}
		lines = append(lines, strings.Join(f, " "))
	}
	return corr.Case{Tag: "malformed", Lines: lines}
}

func spec() corr.Spec {
	return corr.Spec{
		Property: "C06",
		Fixed:    fixedCases,
		Count: func(tier string) int {
			switch tier {
			case "quick":
				return 600
			case "thorough":
				return 9000
			}
			return 800 // search (after a broken tie): ≈ 30 s — the oracle costs ≈ 4 µs per modelled call
		},
		Gen: func(r *rng.R, tier string, i int) corr.Case {
			// deterministic concurrency (held lock): a few in quick, every third case in the search after a broken tie;
			// the plain multi-goroutine stress in thorough and search
			switch {
			case i%20 == 3:
				return genSetup(r)
			case i%40 == 9:
				return genGenID(r)
			case i%40 == 29, tier == "search" && i%10 == 7:
				return genRealPar(r)
			case tier == "search" && i%3 == 0, tier != "search" && i%12 == 5:
				return genHeld(r)
			case tier == "search" && i%10 == 1, tier == "thorough" && i%25 == 7:
				return genStress(r)
			}
			switch k := r.Intn(20); {
			case k < 14:
				return genHard(r, tier)
			case k < 17:
				return genNano(r)
			case k < 18 && (tier != "quick" || i%4 == 0):
				return genMono(r)
			case k < 19:
				return genMalformed(r)
			}
			return genHard(r, tier)
		},
		Run: runCase,
		NonTrivial: func(c corr.Case, r corr.Result) bool {
			for _, l := range c.Lines {
				f := strings.Fields(l)
				if len(f) > 0 && (f[0] == "gidpar" || f[0] == "hreal" || f[0] == "gid" || f[0] == "nheld" || f[0] == "hheld" || f[0] == "nstress" || f[0] == "hstress" || f[0] == "g" || f[0] == "burst" || f[0] == "par" || f[0] == "n" || f[0] == "nburst" || f[0] == "npar" || f[0] == "mono") {
					return true
				}
			}
			return false
		},
		// `state` reads internals through a hook; for `nheld`/`hheld` the oracle predicts the ids under the assumption that
		// blocked lockers are served in arrival order (a property of sync.Mutex, not of the property under check) — the
		// property itself is judged there by the order-independent monitor
		TOnly: func(line string) bool {
			return strings.HasPrefix(line, "state") || strings.HasPrefix(line, "nheld") || strings.HasPrefix(line, "hheld")
		},
		Classify: func(c corr.Case, line int, want, got string) string {
			f := strings.Fields(c.Lines[line])
			op := "?"
			if len(f) > 0 {
				op = f[0]
			}
			switch op {
			case "g", "burst", "par":
				return "C06:corr:HardNode.Generate"
			case "hard":
				return "C06:corr:NewNode"
			case "setup":
				return "C06:corr:Setup"
			case "gid", "gidpar":
				return "C06:corr:UnixNanoID.GenID"
			case "hreal":
				return "C06:corr:HardNode.Generate:concurrent"
			case "hheld", "hstress":
				return "C06:corr:HardNode.Generate:concurrent"
			case "nheld", "nstress":
				return "C06:corr:UnixNanoID.GenIDByTS:concurrent"
			case "n", "nburst", "npar", "nano", "nanonl":
				return "C06:corr:UnixNanoID.GenIDByTS"
			case "mono", "monocheck":
				// a MonoNode whose (real) clock lies outside the timestamp width of the configured layout/epoch: the known limit
				if op == "mono" && strings.HasPrefix(got, "rejected") {
					for i := line - 1; i >= 0; i-- {
						g := strings.Fields(c.Lines[i])
						if len(g) == 4 && g[0] == "cfg" {
							e, ok := pI64(g[1])
							nb, _ := strconv.Atoi(g[2])
							if rel := time.Now().UnixMilli() - e; ok && nb >= 8 && nb <= 10 && (rel < 0 || rel+2 >= int64(1)<<uint(51-nb)) {
								return "C06:MonoNode.Generate:clock-beyond-timestamp-width"
							}
							break
						}
					}
				}
				return "C06:corr:MonoNode.Generate"
			}
			return "C06:corr:" + op
		},
		Rule: "clock scripts for HardNode (stall, small/large steps back and forth, jumps anywhere in the timestamp width incl. its end, bursts of 4095..8193 calls in one reading, g×k concurrent callers, restarts with $last or a foreign seed) over the 6 layouts × epochs 1970..2300; GenIDByTS scripts incl. MaxInt64 edge and concurrent callers; MonoNode traces under the real clock judged by the model (`monocheck`); a malformed stream. Non-trivial = the script makes at least one generate call; distinct = distinct script text",
		Assumptions: []string{
			"sync.Mutex makes each Generate / GenIDByTS body one atomic step (lock-coverage facts are regenerated)",
			"Go's monotonic clock never decreases (MonoNode is proved increasing only under non-decreasing readings; a counter-example for a decreasing reading is proved)",
			"time.Time.UnixNano wraps modulo 2^64 for instants outside 1678..2262; time.Time.UnixMilli is exact (both validated by the correspondence, not proved)",
			"MonoNode's clock cannot be injected: its runs are checked as traces accepted by the model, not compared value by value; whether the wrap-and-spin branch was reached in this run is recorded in output_kinds (accepted-wrap / accepted-nowrap)",
			"timestamp width: the theorems assume the clock offset and the node's time stay inside the 41/42/43-bit timestamp field (InWidth); beyond it the unchanged code returns lower ids — reported under the key C06:HardNode.Generate:clock-beyond-timestamp-width (witness_clock_beyond_width), not switched off",
			"GenID / mono run on the real clock of the host; atomicity of the critical sections rests on the lock facts plus the deterministic held-lock scripts (no transition system for sync.Mutex)",
		},
		Trusted: []string{"go/lib/go2lean (kernel translator: HardNode.Generate, figureShift, IDFields, GenIDByTS)", "time.Time arithmetic of the Go standard library (modelled)"},
	}
}
