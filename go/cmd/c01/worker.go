package main

import (
	"bufio"
	"bytes"
	"encoding/json"
	"io"
	"os"
	"os/exec"
	"strings"
	"sync"

	"nvharness/lib/corr"
)

// The scripts are executed in a WORKER child process (`c01 worker`: one JSON case per line in, one JSON result per line
// out). A Go `fatal error` (unlock of unlocked mutex, concurrent map writes, all goroutines asleep …) cannot be recovered
// in-process; when the worker dies on a script that is a monitor hit with the script as replay, and a new worker is
// started — the runner itself never dies. A worker that reports a harness error (quiescence timeout) stays a harness error.

type workerReq struct {
	Lines []string `json:"lines"`
}

type workerRes struct {
	Outs []string   `json:"outs"`
	Hits []corr.Hit `json:"hits"`
}

func workerMain() {
	in := bufio.NewReaderSize(os.Stdin, 1<<20)
	out := bufio.NewWriter(os.Stdout)
	for {
		line, err := in.ReadBytes('\n')
		if len(bytes.TrimSpace(line)) > 0 {
			var rq workerReq
			if json.Unmarshal(line, &rq) != nil {
				os.Exit(2)
			}
			r := runCaseLocal(corr.Case{Lines: rq.Lines})
			b, _ := json.Marshal(workerRes{Outs: r.Outs, Hits: r.Hits})
			out.Write(b)
			out.WriteByte('\n')
			out.Flush()
		}
		if err != nil {
			return
		}
	}
}

type workerProc struct {
	cmd    *exec.Cmd
	stdin  io.WriteCloser
	stdout *bufio.Reader
	stderr *bytes.Buffer
}

var (
	workerMu sync.Mutex
	worker   *workerProc
)

func startWorker() *workerProc {
	exe, err := os.Executable()
	if err != nil {
		harnessFatal(err.Error())
	}
	w := &workerProc{cmd: exec.Command(exe, "worker"), stderr: &bytes.Buffer{}}
	w.cmd.Stderr = w.stderr
	w.stdin, _ = w.cmd.StdinPipe()
	so, _ := w.cmd.StdoutPipe()
	w.stdout = bufio.NewReaderSize(so, 1<<20)
	if err := w.cmd.Start(); err != nil {
		harnessFatal("cannot start worker: " + err.Error())
	}
	return w
}

func firstLineWith(msg, marker string) string {
	i := strings.Index(msg, marker)
	if i < 0 {
		return ""
	}
	line := msg[i:]
	if j := strings.IndexByte(line, '\n'); j >= 0 {
		line = line[:j]
	}
	return line
}

// runCase executes one script in the worker process.
func runCase(c corr.Case) corr.Result {
	workerMu.Lock()
	defer workerMu.Unlock()
	if worker == nil {
		worker = startWorker()
	}
	w := worker
	b, _ := json.Marshal(workerReq{Lines: c.Lines})
	_, werr := w.stdin.Write(append(b, '\n'))
	var line []byte
	var rerr error
	if werr == nil {
		line, rerr = w.stdout.ReadBytes('\n')
	}
	if werr == nil && rerr == nil {
		var r workerRes
		if json.Unmarshal(line, &r) == nil && len(r.Outs) == len(c.Lines) {
			return corr.Result{Outs: r.Outs, Hits: r.Hits}
		}
		harnessFatal("worker: unreadable reply: " + string(line))
	}
	// the worker died while running this script
	w.stdin.Close()
	_ = w.cmd.Wait()
	worker = nil
	msg := w.stderr.String()
	if strings.Contains(msg, "c01 harness error:") {
		harnessFatal("worker: " + msg)
	}
	what := firstLineWith(msg, "fatal error:")
	key := "C01:SemMap:fatal-error"
	if what == "" {
		what = firstLineWith(msg, "panic:")
		key = "C01:SemMap:panic"
	}
	if what == "" {
		harnessFatal("worker died without a Go runtime error: " + msg)
	}
	outs := make([]string, len(c.Lines))
	for i := range outs {
		outs[i] = "process-aborted"
	}
	return corr.Result{Outs: outs, Hits: []corr.Hit{{Key: key,
		What: "the Go runtime aborted the process while the script ran (valid calls only): " + what}}}
}
