package main

import (
	"fmt"

	"nvharness/lib/gofacts"
)

// canonOf is the canonical text of a function (lib/gofacts Canon: every locally declared identifier — receiver,
// parameters, named results, :=/var/range bindings, func-literal parameters — renamed v1, v2, … in order of first
// appearance, `var x = e` ≡ `x := e`, white space collapsed, comments dropped). Two functions have the same canonical
// text iff they are the same statements up to local names: a harmless rename does not break the tie, any inserted,
// removed or changed statement does. "" = plain function.
func canonOf(f *gofacts.File, recv, name string) string {
	fd := f.Func(recv, name)
	if fd == nil {
		return ""
	}
	return f.Canon(fd)
}

var pinned = []struct{ file, recv, name string }{
	{"syncx/semap/semaphore.go", "", "newWeighted"},
	{"syncx/semap/semaphore.go", "Weighted", "acquire"},
	{"syncx/semap/semaphore.go", "Weighted", "release"},
	{"syncx/semap/semaphore.go", "Weighted", "notifyWaiters"},
	{"syncx/semap/map.go", "", "NewSemMap"},
	{"syncx/semap/map.go", "", "newSemMap"},
	{"syncx/semap/map.go", "SemMap", "AcquireRead"},
	{"syncx/semap/map.go", "SemMap", "ReleaseRead"},
	{"syncx/semap/map.go", "SemMap", "AcquireWrite"},
	{"syncx/semap/map.go", "SemMap", "ReleaseWrite"},
	{"syncx/semap/map.go", "SemMap", "acquire"},
	{"syncx/semap/map.go", "SemMap", "release"},
	{"syncx/semap/wmap.go", "", "NewWideSemMap"},
	{"syncx/semap/wmap.go", "", "NewWideXHashSemMap"},
	{"syncx/semap/wmap.go", "", "newWideSemMap"},
	{"syncx/semap/wmap.go", "WideSemMap", "AcquireRead"},
	{"syncx/semap/wmap.go", "WideSemMap", "ReleaseRead"},
	{"syncx/semap/wmap.go", "WideSemMap", "AcquireWrite"},
	{"syncx/semap/wmap.go", "WideSemMap", "ReleaseWrite"},
	{"syncx/semap/wmap.go", "WideSemMap", "calculateKey"},
	{"syncx/semap/option.go", "", "RangeOption"},
	{"syncx/semap/option.go", "", "WithRwRatio"},
	{"syncx/semap/option.go", "", "WithPrime"},
}

func dumpCanon(repo string) {
	files := map[string]*gofacts.File{}
	for _, p := range pinned {
		if files[p.file] == nil {
			files[p.file] = gofacts.MustLoad(repo, p.file)
		}
		fmt.Printf("\t%q: {%q},\n", p.recv+"."+p.name, canonOf(files[p.file], p.recv, p.name))
	}
}
