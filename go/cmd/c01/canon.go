package main

import (
	"fmt"
	"go/ast"
	"go/token"

	"nvharness/lib/gofacts"
)

// canonBody prints the body of a function with receiver, parameters, named results and local variables renamed to
// canonical names in order of first declaration (_r, _p0…, _o0…, _v0…) and white space collapsed. Two bodies are
// equal under canonBody iff they are the same statements up to renaming of local names — so a harmless rename does
// not break the tie, while any inserted, removed or changed statement does. Field and method names (selectors,
// struct-literal keys) are never renamed. The file's AST is modified in place.
func canonBody(f *gofacts.File, fd *ast.FuncDecl) string {
	if fd == nil || fd.Body == nil {
		return ""
	}
	names := map[string]string{}
	bind := func(id *ast.Ident, prefix string, n *int) {
		if id == nil || id.Name == "_" {
			return
		}
		if _, ok := names[id.Name]; !ok {
			names[id.Name] = fmt.Sprintf("%s%d", prefix, *n)
			*n++
		}
	}
	var np, no, nv int
	if fd.Recv != nil {
		for _, fl := range fd.Recv.List {
			for _, id := range fl.Names {
				if id.Name != "_" {
					names[id.Name] = "_r"
				}
			}
		}
	}
	if fd.Type.Params != nil {
		for _, fl := range fd.Type.Params.List {
			for _, id := range fl.Names {
				bind(id, "_p", &np)
			}
		}
	}
	if fd.Type.Results != nil {
		for _, fl := range fd.Type.Results.List {
			for _, id := range fl.Names {
				bind(id, "_o", &no)
			}
		}
	}
	skip := map[*ast.Ident]bool{}
	ast.Inspect(fd.Body, func(n ast.Node) bool {
		switch x := n.(type) {
		case *ast.SelectorExpr:
			skip[x.Sel] = true
		case *ast.KeyValueExpr:
			if id, ok := x.Key.(*ast.Ident); ok {
				skip[id] = true
			}
		case *ast.AssignStmt:
			if x.Tok == token.DEFINE {
				for _, l := range x.Lhs {
					if id, ok := l.(*ast.Ident); ok {
						bind(id, "_v", &nv)
					}
				}
			}
		case *ast.ValueSpec:
			for _, id := range x.Names {
				bind(id, "_v", &nv)
			}
		case *ast.RangeStmt:
			if x.Tok == token.DEFINE {
				if id, ok := x.Key.(*ast.Ident); ok {
					bind(id, "_v", &nv)
				}
				if id, ok := x.Value.(*ast.Ident); ok {
					bind(id, "_v", &nv)
				}
			}
		case *ast.FuncLit:
			if x.Type.Params != nil {
				for _, fl := range x.Type.Params.List {
					for _, id := range fl.Names {
						bind(id, "_v", &nv)
					}
				}
			}
		}
		return true
	})
	ast.Inspect(fd.Body, func(n ast.Node) bool {
		if id, ok := n.(*ast.Ident); ok && !skip[id] {
			if c, ok := names[id.Name]; ok {
				id.Name = c
			}
		}
		return true
	})
	return f.Src(fd.Body)
}

// canonOf loads nothing: convenience for "receiver type, function name" lookups ("" = plain function).
func canonOf(f *gofacts.File, recv, name string) string { return canonBody(f, f.Func(recv, name)) }

var pinned = []struct{ file, recv, name string }{
	{"syncx/semap/semaphore.go", "", "newWeighted"},
	{"syncx/semap/semaphore.go", "Weighted", "acquire"},
	{"syncx/semap/semaphore.go", "Weighted", "release"},
	{"syncx/semap/semaphore.go", "Weighted", "notifyWaiters"},
	{"syncx/semap/map.go", "", "NewSemMap"},
	{"syncx/semap/map.go", "", "newSemMap"},
	{"syncx/semap/map.go", "SemMap", "AcquireRead"},
	{"syncx/semap/map.go", "SemMap", "ReleaseRead"},
	{"syncx/semap/map.go", "SemMap", "AcquireWrite"},
	{"syncx/semap/map.go", "SemMap", "ReleaseWrite"},
	{"syncx/semap/map.go", "SemMap", "acquire"},
	{"syncx/semap/map.go", "SemMap", "release"},
	{"syncx/semap/wmap.go", "", "NewWideSemMap"},
	{"syncx/semap/wmap.go", "", "NewWideXHashSemMap"},
	{"syncx/semap/wmap.go", "", "newWideSemMap"},
	{"syncx/semap/wmap.go", "WideSemMap", "AcquireRead"},
	{"syncx/semap/wmap.go", "WideSemMap", "ReleaseRead"},
	{"syncx/semap/wmap.go", "WideSemMap", "AcquireWrite"},
	{"syncx/semap/wmap.go", "WideSemMap", "ReleaseWrite"},
	{"syncx/semap/wmap.go", "WideSemMap", "calculateKey"},
	{"syncx/semap/option.go", "", "RangeOption"},
	{"syncx/semap/option.go", "", "WithRwRatio"},
	{"syncx/semap/option.go", "", "WithPrime"},
}

func dumpCanon(repo string) {
	files := map[string]*gofacts.File{}
	for _, p := range pinned {
		if files[p.file] == nil {
			files[p.file] = gofacts.MustLoad(repo, p.file)
		}
		fmt.Printf("\t%q: {%q},\n", p.recv+"."+p.name, canonOf(files[p.file], p.recv, p.name))
	}
}
