package main

import (
	"context"
	"fmt"
	"math"
	"os"
	"sort"
	"strconv"
	"strings"
	"sync/atomic"
	"time"

	"github.com/pinealctx/neptune/syncx/semap"

	"nvharness/lib/corr"
	"nvharness/lib/sched"
)

// ---------------------------------------------------------------- the real implementation, driven event by event

const (
	stParked   = iota // Acquire* has not returned
	stInside          // Acquire* returned nil, not yet released
	stReleased        // released
	stFailed          // Acquire* returned the context's error
)

type call struct {
	tid        int
	tok        string
	key        interface{}
	write      bool
	seq        int  // arrival order
	shard      int  // sharded maps: where the key was routed when the caller arrived (-1: single map / not routable)
	unroutable bool // a key kind remap cannot route, on a sharded map: Acquire* panics before anything is locked
	task       *sched.Task
	cancel     context.CancelFunc
	w          atomic.Value // *semap.Weighted returned by Acquire*
	status     int
	since      int // index of the event after which it was first seen inside
}

// counters incremented by the callers themselves right after Acquire* returned nil (critical-section monitor)
type section struct {
	r, w   int32
	bad    int32 // set by a caller that found the section occupied incompatibly when it entered: 1 writer not alone, 2 readers over ratio
	nonNil int32 // an Acquire* returned an error together with a non-nil *Weighted
}

type world struct {
	m       semap.SemMapper
	variant string
	rw      int
	s       *sched.S
	calls   map[int]*call
	order   []*call
	keys    []string // tokens in order of first use
	sec     map[string]*section
	event   int
	hits    []corr.Hit
	hitSet  map[string]bool
	objs    map[int]*ptrObj   // pointees of the pointer keys of this script
	dead    bool              // the map's mutex was left locked: nothing more can be asked of it
	others  []semap.SemMapper // other containers created by `newmap` while this one is in use
}

func (w *world) hit(site, what string) {
	key := "C01:SemMap:" + site
	if w.hitSet[key] {
		return
	}
	w.hitSet[key] = true
	w.hits = append(w.hits, corr.Hit{Key: key, What: what})
}

func harnessFatal(msg string) {
	fmt.Fprintln(os.Stderr, "c01 harness error:", msg)
	os.Exit(2)
}

func (w *world) settle() {
	if err := w.s.Settle(); err != nil {
		harnessFatal(err.Error())
	}
}

func natCanon(s string, maxLen int) (int, bool) {
	if len(s) == 0 || len(s) > maxLen {
		return 0, false
	}
	for _, c := range s {
		if c < '0' || c > '9' {
			return 0, false
		}
	}
	n, err := strconv.Atoi(s)
	if err != nil || strconv.Itoa(n) != s {
		return 0, false
	}
	return n, true
}

// structKey is a comparable struct used as a key (single map only: remap cannot route it)
type structKey struct {
	A int
	B string
}

func intCanon(body string, bits int) (int64, bool) {
	if len(body) == 0 || len(body) > 20 {
		return 0, false
	}
	v, err := strconv.ParseInt(body, 10, bits)
	if err != nil || strconv.FormatInt(v, 10) != body {
		return 0, false
	}
	return v, true
}

// ptrObj is what pointer keys point to; `poke n` changes the pointee (the caller's work under the lock) — the key,
// a pointer, stays the same key.
type ptrObj struct{ N int }

// parseKey: `i<int>` int, `l<int64>` int64, `h<int32>` int32, `b<0..255>` uint8, `s<text>` string — routable by remap;
// `t<int>:<text>` struct{A int; B string}, `p<n>` pointer to object n of this script, `f<int -1000..1000>` / `f-0`
// float64 (`f-0` = negative zero: the SAME map key as `f0`) — valid Go map keys with reflexive equality that remap
// cannot route: on wide / xhash maps Acquire* panics in remap.ToBytes before anything is locked.
// Returns the key, the canonical token (identity of the key), whether remap can route it.
func (w *world) parseKey(tok string) (key interface{}, canon string, routable, ok bool) {
	if len(tok) == 0 {
		return nil, "", false, false
	}
	body := tok[1:]
	switch tok[0] {
	case 's':
		return body, tok, true, true
	case 'i':
		v, ok := intCanon(body, 64)
		return int(v), tok, true, ok
	case 'l':
		v, ok := intCanon(body, 64)
		return v, tok, true, ok
	case 'h':
		v, ok := intCanon(body, 32)
		return int32(v), tok, true, ok
	case 'b':
		v, ok := intCanon(body, 64)
		return uint8(v), tok, true, ok && v >= 0 && v <= 255
	case 't':
		i := strings.IndexByte(body, ':')
		if i < 0 {
			return nil, "", false, false
		}
		v, ok := intCanon(body[:i], 64)
		return structKey{A: int(v), B: body[i+1:]}, tok, false, ok
	case 'p':
		n, ok := natCanon(body, 3)
		if !ok {
			return nil, "", false, false
		}
		if w.objs[n] == nil {
			w.objs[n] = &ptrObj{N: n}
		}
		return w.objs[n], tok, false, true
	case 'f':
		if body == "-0" {
			return math.Copysign(0, -1), "f0", false, true
		}
		v, ok := intCanon(body, 64)
		return float64(v), tok, false, ok && v >= -1000 && v <= 1000
	}
	return nil, "", false, false
}

// rw < 0: no WithRwRatio option (the package default applies)
func newWorld(variant string, rw, prime int) *world {
	var m semap.SemMapper
	var opts []semap.Option
	if rw >= 0 {
		opts = append(opts, semap.WithRwRatio(rw))
	} else {
		rw = semap.DefaultRWRatio
	}
	if prime > 0 {
		opts = append(opts, semap.WithPrime(uint64(prime)))
	}
	switch variant {
	case "single":
		m = semap.NewSemMap(opts...)
	case "wide":
		m = semap.NewWideSemMap(opts...)
	case "xhash":
		m = semap.NewWideXHashSemMap(opts...)
	}
	w := &world{m: m, variant: variant, rw: rw, s: sched.New(), calls: map[int]*call{}, sec: map[string]*section{}, hitSet: map[string]bool{}, objs: map[int]*ptrObj{}}
	// a long deadline: under machine load quiescence may take long; running out of it is a harness error (exit 2), never a verdict
	w.s.Timeout = 90 * time.Second
	if rw < 1 {
		// only reachable through the package default: the property (and every monitor below) presupposes rwRatio >= 1
		w.hit("default-ratio-below-1", fmt.Sprintf("NewSemMap without WithRwRatio uses rwRatio %d: no reader can ever be admitted", rw))
	}
	return w
}

func (w *world) section(tok string) *section {
	s := w.sec[tok]
	if s == nil {
		s = &section{}
		w.sec[tok] = s
		w.keys = append(w.keys, tok)
	}
	return s
}

// refresh reads which calls have returned since the last event; returns the ids newly inside.
func (w *world) refresh() []int {
	var woke []int
	for _, c := range w.order {
		if c.status != stParked {
			continue
		}
		done, res := c.task.Done()
		if !done {
			continue
		}
		switch {
		case res == "nil":
			c.status = stInside
			c.since = w.event
			woke = append(woke, c.tid)
		case res == "ctx":
			c.status = stFailed
		default:
			c.status = stFailed
			w.hit("panic", fmt.Sprintf("Acquire of caller %d ended with %s", c.tid, res))
		}
	}
	sort.Ints(woke)
	return woke
}

func showIDs(ids []int) string {
	sort.Ints(ids)
	var ss []string
	for _, i := range ids {
		ss = append(ss, strconv.Itoa(i))
	}
	return "[" + strings.Join(ss, ",") + "]"
}

func without(ids []int, x int) []int {
	var out []int
	for _, i := range ids {
		if i != x {
			out = append(out, i)
		}
	}
	return out
}

func (w *world) acquire(tid int, tok string, key interface{}, routable, write, precancelled bool) string {
	ctx, cancel := context.WithCancel(context.Background())
	if precancelled {
		cancel()
	}
	c := &call{tid: tid, tok: tok, key: key, write: write, seq: len(w.order), cancel: cancel}
	c.unroutable = w.variant != "single" && !routable
	c.shard = -1
	// routing of the sharded variants: a function of the key, inside the shard array
	if !c.unroutable {
		i1, n1 := semap.VerifShardIndex(w.m, key)
		if w.variant != "single" {
			c.shard = i1
		}
		i2, n2 := semap.VerifShardIndex(w.m, key)
		if i1 != i2 || n1 != n2 || i1 < 0 || i1 >= n1 {
			w.hit("wide-routing", fmt.Sprintf("key %s routed to shard %d then %d of %d/%d", tok, i1, i2, n1, n2))
		}
	}
	sec := w.section(tok)
	rw := int32(w.rw)
	c.task = w.s.Go("acq"+strconv.Itoa(tid), func() string {
		var sw *semap.Weighted
		var err error
		if write {
			sw, err = w.m.AcquireWrite(ctx, key)
		} else {
			sw, err = w.m.AcquireRead(ctx, key)
		}
		if err != nil {
			if sw != nil {
				atomic.StoreInt32(&sec.nonNil, 1)
			}
			if err == context.Canceled {
				return "ctx"
			}
			return "err:" + err.Error()
		}
		// inside the critical section: look around
		c.w.Store(sw)
		var r, wr int32
		if write {
			wr = atomic.AddInt32(&sec.w, 1)
			r = atomic.LoadInt32(&sec.r)
		} else {
			r = atomic.AddInt32(&sec.r, 1)
			wr = atomic.LoadInt32(&sec.w)
		}
		if wr > 1 || (wr >= 1 && r > 0) {
			atomic.StoreInt32(&sec.bad, 1)
		} else if r > rw {
			atomic.StoreInt32(&sec.bad, 2)
		}
		return "nil"
	})
	w.calls[tid] = c
	w.order = append(w.order, c)
	w.settle()
	if c.unroutable {
		// today: panic `unsupported.type.for.slot` in remap.ToBytes, nothing locked, nothing stored
		if done, res := c.task.Done(); done && strings.HasPrefix(res, "panic:unsupported.type.for.slot") {
			c.status = stFailed
			w.refresh()
			return "panic:unroutable"
		}
	}
	woke := w.refresh()
	switch c.status {
	case stInside:
		return "granted"
	case stParked:
		return "parked"
	default:
		return "ctx woke=" + showIDs(without(woke, tid))
	}
}

func (w *world) release(c *call) string {
	sec := w.section(c.tok)
	sw, _ := c.w.Load().(*semap.Weighted)
	t := w.s.Go("rel"+strconv.Itoa(c.tid), func() string {
		// leave the critical section, then give the tokens back
		if c.write {
			atomic.AddInt32(&sec.w, -1)
			w.m.ReleaseWrite(c.key, sw)
		} else {
			atomic.AddInt32(&sec.r, -1)
			w.m.ReleaseRead(c.key, sw)
		}
		return "ok"
	})
	c.status = stReleased
	w.settle()
	woke := w.refresh()
	if done, res := t.Done(); !done {
		w.hit("release-blocked", fmt.Sprintf("Release of caller %d did not return", c.tid))
		return "blocked woke=" + showIDs(woke)
	} else if res != "ok" {
		w.hit("panic", fmt.Sprintf("Release of caller %d ended with %s", c.tid, res))
		return res + " woke=" + showIDs(woke)
	}
	return "ok woke=" + showIDs(woke)
}

func (w *world) doCancel(c *call) string {
	if c.status != stParked {
		c.cancel()
		w.settle()
		w.refresh()
		return "noop"
	}
	c.cancel()
	w.settle()
	woke := w.refresh()
	switch c.status {
	case stFailed:
		return "ctx woke=" + showIDs(woke)
	case stInside:
		// it had been granted before the cancellation was noticed: it holds
		return "granted-anyway woke=" + showIDs(without(woke, c.tid))
	default:
		w.hit("cancel-not-returned", fmt.Sprintf("caller %d: context cancelled, Acquire did not return", c.tid))
		return "still-parked woke=" + showIDs(woke)
	}
}

// relRace: caller u's context ends while the release by c is inside its critical section. The map mutex is held
// through the hook while first the releaser and then u's cancellation arm queue up on it, so the release runs
// first (sync.Mutex wakes blocked lockers in arrival order) and u finds its grant — or not — when it gets the lock.
func (w *world) relRace(c, u *call) string {
	sec := w.section(c.tok)
	sw, _ := c.w.Load().(*semap.Weighted)
	wasParked := u.status == stParked
	if !w.guarded("lock", func() { semap.VerifLock(w.m, c.key) }) {
		return "dead"
	}
	t := w.s.Go("rel"+strconv.Itoa(c.tid), func() string {
		if c.write {
			atomic.AddInt32(&sec.w, -1)
			w.m.ReleaseWrite(c.key, sw)
		} else {
			atomic.AddInt32(&sec.r, -1)
			w.m.ReleaseRead(c.key, sw)
		}
		return "ok"
	})
	c.status = stReleased
	w.settle()
	u.cancel()
	w.settle()
	semap.VerifUnlock(w.m, c.key)
	w.settle()
	woke := w.refresh()
	res := "ok"
	if done, r := t.Done(); !done {
		w.hit("release-blocked", fmt.Sprintf("Release of caller %d did not return", c.tid))
		res = "blocked"
	} else if r != "ok" {
		w.hit("panic", fmt.Sprintf("Release of caller %d ended with %s", c.tid, r))
		res = r
	}
	then := "noop"
	if wasParked {
		switch u.status {
		case stInside:
			then = "nil"
		case stFailed:
			then = "ctx"
		default:
			then = "still-parked"
			w.hit("cancel-not-returned", fmt.Sprintf("caller %d: context cancelled, Acquire did not return", u.tid))
		}
	}
	return res + " woke=" + showIDs(woke) + " then=" + then
}

// runBurst: `burst variant rw prime n` — n distinct keys (ints, strings, int64s) are acquired at once on a fresh map
// (one third as writers), all held together, then all released. Fresh keys must be granted at once, a held key must
// refuse a second writer, and after the releases the container must be empty however many entries it held.
func runBurst(variant string, rw, prime, n int) (string, []corr.Hit) {
	w := newWorld(variant, rw, prime)
	keys := make([]interface{}, n)
	sws := make([]*semap.Weighted, n)
	for i := range keys {
		switch i % 3 {
		case 0:
			keys[i] = 1000000 + i
		case 1:
			keys[i] = "burst-" + strconv.Itoa(i)
		default:
			keys[i] = int64(-i)
		}
	}
	isW := func(i int) bool { return i%3 == 0 }
	acq := w.s.Go("burst-acquire", func() string {
		for i, k := range keys {
			var err error
			if isW(i) {
				sws[i], err = w.m.AcquireWrite(context.Background(), k)
			} else {
				sws[i], err = w.m.AcquireRead(context.Background(), k)
			}
			if err != nil {
				return "err"
			}
		}
		return "ok"
	})
	w.settle()
	if done, res := acq.Done(); !done || res != "ok" {
		w.hit("burst-fresh-key-not-granted", fmt.Sprintf("%d fresh keys on a new map (rwRatio %d): an Acquire* on a key nobody holds did not return nil (%v %s)", n, rw, done, res))
		return "blocked", w.hits
	}
	live := w.entries()
	// a held key refuses a second writer (context already ended: the call must come back with the context's error)
	dead, cancel := context.WithCancel(context.Background())
	cancel()
	probe := w.s.Go("burst-probe", func() string {
		for i := 0; i < n; i += 1 + n/16 {
			if sw, err := w.m.AcquireWrite(dead, keys[i]); err == nil {
				w.m.ReleaseWrite(keys[i], sw)
				return "admitted:" + strconv.Itoa(i)
			}
		}
		return "ok"
	})
	w.settle()
	if done, res := probe.Done(); done && strings.HasPrefix(res, "panic:") {
		w.hit("panic", fmt.Sprintf("burst of %d held keys: AcquireWrite with an ended context on a held key ended with %s", n, res))
	} else if !done || res != "ok" {
		w.hit("excl-writer-not-alone", fmt.Sprintf("burst of %d held keys (rwRatio %d): a second writer was admitted on a held key (%v %s)", n, rw, done, res))
	}
	rel := w.s.Go("burst-release", func() string {
		for i, k := range keys {
			if isW(i) {
				w.m.ReleaseWrite(k, sws[i])
			} else {
				w.m.ReleaseRead(k, sws[i])
			}
		}
		return "ok"
	})
	w.settle()
	if done, _ := rel.Done(); !done {
		w.hit("release-blocked", fmt.Sprintf("burst of %d keys: the releases did not return", n))
	}
	after := w.entries()
	if after != 0 {
		w.hit("residue-entry-kept", fmt.Sprintf("%d distinct keys were held at once (%d entries) and all released, nobody waits, yet the container keeps %d entries", n, live, after))
	}
	return fmt.Sprintf("live=%d after=%d", live, after), w.hits
}

func (w *world) weight(c *call) int {
	if c.write {
		return w.rw
	}
	return 1
}

// monitors restates the property on what the callers themselves observe (who is inside, who is still blocked,
// in which order they arrived) plus the entry-present bit; independent of the Lean model. Called at quiescence.
func (w *world) monitors(line string) {
	if w.dead {
		return
	}
	for _, tok := range w.keys {
		var readers, writers, sum int
		var firstParked *call
		var ins, parked []int
		for _, c := range w.order {
			if c.tok != tok {
				continue
			}
			switch c.status {
			case stInside:
				ins = append(ins, c.tid)
				sum += w.weight(c)
				if c.write {
					writers++
				} else {
					readers++
				}
			case stParked:
				parked = append(parked, c.tid)
				if firstParked == nil {
					firstParked = c
				}
			}
		}
		sec := w.sec[tok]
		desc := fmt.Sprintf("key %s rwRatio %d after `%s`: inside=%v (readers=%d writers=%d) parked=%v", tok, w.rw, line, ins, readers, writers, parked)
		// exclusion: one writer alone, or at most rwRatio readers
		if writers > 1 || (writers == 1 && readers > 0) {
			w.hit("excl-writer-not-alone", desc)
		}
		if readers > w.rw {
			w.hit("excl-readers-over-ratio", desc)
		}
		// the callers' own view at the moment they entered (independent of the harness' bookkeeping)
		switch atomic.SwapInt32(&sec.bad, 0) {
		case 1:
			w.hit("excl-writer-not-alone", desc+"; seen by the entering caller itself")
		case 2:
			w.hit("excl-readers-over-ratio", desc+"; seen by the entering caller itself")
		}
		if atomic.SwapInt32(&sec.nonNil, 0) != 0 {
			w.hit("non-nil-on-error", desc+"; an Acquire* returned an error together with a non-nil *Weighted")
		}
		// the counters the callers maintain must agree with the harness' bookkeeping
		if int(atomic.LoadInt32(&sec.r)) != readers || int(atomic.LoadInt32(&sec.w)) != writers {
			w.hit("excl-section-counter", desc+fmt.Sprintf(" section counters r=%d w=%d", atomic.LoadInt32(&sec.r), atomic.LoadInt32(&sec.w)))
		}
		// arrival order: nobody is admitted while an earlier arrival of the same key is still blocked
		for _, c := range w.order {
			if c.tok != tok || c.status != stInside || c.since != w.event {
				continue
			}
			for _, e := range w.order {
				if e.tok == tok && e.seq < c.seq && e.status == stParked {
					w.hit("fifo-admitted-past-waiter", desc+fmt.Sprintf("; caller %d admitted while caller %d, which arrived earlier, is still blocked", c.tid, e.tid))
				}
			}
		}
		// hand-off: the oldest blocked caller does not fit (otherwise it must have been admitted at once)
		if firstParked != nil && w.rw-sum >= w.weight(firstParked) {
			w.hit("handoff-fitting-head-parked", desc+fmt.Sprintf("; caller %d (weight %d) is the oldest blocked caller and fits (%d of %d tokens in use)", firstParked.tid, w.weight(firstParked), sum, w.rw))
		}
		// no residue: nobody inside, nobody blocked => no entry
		if len(ins) == 0 && len(parked) == 0 {
			if k, _, routable, ok := w.parseKey(tok); ok && (routable || w.variant == "single") {
				if _, _, present := w.keyState(k); present {
					w.hit("residue-entry-kept", desc+"; the container still has an entry for the key")
				}
			}
		}
	}
}

// routingStable: routing is a pure function of the key — the shard of a key somebody holds or waits for never
// changes, whatever was looked up in between and whatever other containers were created or used in the process.
// Checked through the map's own routing function (hook), in arrival order and in reverse (a lookup may itself
// disturb a history-dependent router, so one order could hide what the other shows).
func (w *world) routingStable(line string) {
	if w.variant == "single" {
		return
	}
	check := func(c *call) {
		if c.shard < 0 || (c.status != stInside && c.status != stParked) {
			return
		}
		if i, n := semap.VerifShardIndex(w.m, c.key); i != c.shard {
			w.hit("wide-routing-changed", fmt.Sprintf("after `%s`: key %s of caller %d (still inside or blocked) was routed to shard %d when it arrived and is routed to shard %d of %d now", line, c.tok, c.tid, c.shard, i, n))
		}
	}
	for _, c := range w.order {
		check(c)
	}
	for i := len(w.order) - 1; i >= 0; i-- {
		check(w.order[i])
	}
}

// guarded runs a call that takes the map's mutex (the hooks) in its own goroutine: if a caller of the package left the
// mutex locked (panic between Lock and Unlock, forgotten Unlock) the call never comes back — that is a monitor hit, and the
// map is dead for the rest of the script (every later line answers `dead`); the harness itself never blocks on it.
func (w *world) guarded(what string, fn func()) bool {
	if w.dead {
		return false
	}
	t := w.s.Go("hook-"+what, func() string { fn(); return "ok" })
	w.settle()
	if done, _ := t.Done(); !done {
		w.dead = true
		w.hit("mutex-left-locked", fmt.Sprintf("%s: the container's mutex is held by nobody who will release it (a call of the package ended - by panic or return - with the mutex locked); every later Acquire*/Release* blocks for ever", what))
		return false
	}
	return true
}

func (w *world) entries() int {
	n := -1
	w.guarded("entry count", func() { n = semap.VerifEntries(w.m) })
	return n
}

func (w *world) keyState(k interface{}) (held, waiters int, present bool) {
	w.guarded("key state", func() { held, waiters, present = semap.VerifKeyState(w.m, k) })
	return
}

// idleEntries: when nobody is inside or blocked on any key, the container must be empty — whatever dynamic type or
// value the keys had when the entries were created (a per-key lookup would miss an entry stored under another key).
func (w *world) idleEntries(line string) {
	w.routingStable(line)
	for _, c := range w.order {
		if c.status == stInside || c.status == stParked {
			return
		}
	}
	if n := w.entries(); n > 0 {
		w.hit("residue-entry-kept", fmt.Sprintf("after `%s` nobody is inside or blocked on any key, yet the container keeps %d entries", line, n))
	}
}

func (w *world) cleanup() {
	for _, c := range w.order {
		c.cancel()
	}
	w.settle()
	for _, t := range w.s.Leaked() {
		// a caller whose context is cancelled must come back
		w.hit("cancel-not-returned", "at the end of the script every context was cancelled, yet "+t.Name+" is still blocked")
	}
}

func runCaseLocal(c corr.Case) (res corr.Result) {
	var w *world
	defer func() {
		if w != nil {
			w.cleanup()
			res.Hits = append(res.Hits, w.hits...)
		}
	}()
	for _, line := range c.Lines {
		out := func() (out string) {
			defer func() {
				if p := recover(); p != nil {
					out = fmt.Sprintf("panic:%v", p)
					if w != nil {
						w.hit("panic", fmt.Sprintf("`%s` panicked: %v", line, p))
					}
				}
			}()
			f := strings.Fields(line)
			if len(f) == 0 {
				return "bad-op"
			}
			if f[0] == "stress" { // genuinely parallel run in a child process; also ends the current map
				if !validStress(f) {
					return "bad-op"
				}
				if w != nil {
					w.cleanup()
					res.Hits = append(res.Hits, w.hits...)
					w = nil
				}
				o, hits := runStress(f)
				res.Hits = append(res.Hits, hits...)
				return o
			}
			if f[0] == "burst" { // many keys live at once on a fresh map; also ends the current map
				if len(f) != 5 || (f[1] != "single" && f[1] != "wide" && f[1] != "xhash") {
					return "bad-op"
				}
				rw, ok1 := natCanon(f[2], 6)
				prime, ok2 := natCanon(f[3], 4)
				n, ok3 := natCanon(f[4], 5)
				if !ok1 || !ok2 || !ok3 || rw == 0 || n == 0 || n > 20000 {
					return "bad-op"
				}
				if w != nil {
					w.cleanup()
					res.Hits = append(res.Hits, w.hits...)
					w = nil
				}
				o, hits := runBurst(f[1], rw, prime, n)
				res.Hits = append(res.Hits, hits...)
				return o
			}
			if f[0] == "new" {
				if len(f) != 4 || (f[1] != "single" && f[1] != "wide" && f[1] != "xhash") {
					return "bad-op"
				}
				rw, ok1 := natCanon(f[2], 6)
				if f[2] == "d" { // the package default
					rw, ok1 = -1, true
				}
				prime, ok2 := natCanon(f[3], 4)
				if !ok1 || !ok2 || rw == 0 {
					return "bad-op"
				}
				if w != nil {
					w.cleanup()
					res.Hits = append(res.Hits, w.hits...)
				}
				w = newWorld(f[1], rw, prime)
				return "ok"
			}
			if w == nil {
				return "bad-op"
			}
			w.event++
			if w.dead {
				return "dead"
			}
			switch {
			case len(f) == 3 && (f[0] == "acqR" || f[0] == "acqW" || f[0] == "acqRx" || f[0] == "acqWx"):
				tid, ok := natCanon(f[1], 9)
				key, ctok, routable, okk := w.parseKey(f[2])
				if !ok || !okk || w.calls[tid] != nil {
					return "bad-op"
				}
				o := w.acquire(tid, ctok, key, routable, f[0][3] == 'W', strings.HasSuffix(f[0], "x"))
				w.monitors(line)
				w.idleEntries(line)
				return o
			case len(f) == 4 && f[0] == "newmap": // ANOTHER container is created and used while this one is in use
				rw, ok1 := natCanon(f[2], 6)
				prime, ok2 := natCanon(f[3], 4)
				if (f[1] != "single" && f[1] != "wide" && f[1] != "xhash") || !ok1 || !ok2 || rw == 0 {
					return "bad-op"
				}
				o := newWorld(f[1], rw, prime)
				w.others = append(w.others, o.m)
				t := w.s.Go("newmap-use", func() string {
					for _, k := range []interface{}{"other", 7, "x"} {
						sw, err := o.m.AcquireWrite(context.Background(), k)
						if err != nil {
							return "err"
						}
						o.m.ReleaseWrite(k, sw)
					}
					return "ok"
				})
				w.settle()
				if done, res := t.Done(); !done || res != "ok" {
					w.hit("panic", fmt.Sprintf("`%s`: a fresh container could not be used (%v %s)", line, done, res))
				}
				w.monitors(line)
				w.idleEntries(line)
				return "ok"
			case len(f) == 2 && f[0] == "poke": // the pointee of pointer key p<n> changes (work done under the lock); the key does not
				n, ok := natCanon(f[1], 3)
				if !ok {
					return "bad-op"
				}
				if w.objs[n] == nil {
					w.objs[n] = &ptrObj{N: n}
				}
				w.objs[n].N += 1000
				return "ok"
			case len(f) == 2 && f[0] == "rel":
				tid, ok := natCanon(f[1], 9)
				if !ok || w.calls[tid] == nil || w.calls[tid].status != stInside {
					return "bad-op"
				}
				o := w.release(w.calls[tid])
				w.monitors(line)
				w.idleEntries(line)
				return o
			case len(f) == 3 && f[0] == "relx":
				tid, ok := natCanon(f[1], 9)
				uid, ok2 := natCanon(f[2], 9)
				if !ok || !ok2 || w.calls[tid] == nil || w.calls[uid] == nil || w.calls[tid].status != stInside {
					return "bad-op"
				}
				o := w.relRace(w.calls[tid], w.calls[uid])
				w.monitors(line)
				w.idleEntries(line)
				return o
			case len(f) == 2 && f[0] == "cancel":
				tid, ok := natCanon(f[1], 9)
				if !ok || w.calls[tid] == nil {
					return "bad-op"
				}
				o := w.doCancel(w.calls[tid])
				w.monitors(line)
				w.idleEntries(line)
				return o
			case len(f) == 2 && f[0] == "inside":
				_, ctok, _, ok := w.parseKey(f[1])
				if !ok {
					return "bad-op"
				}
				if s := w.sec[ctok]; s != nil {
					return fmt.Sprintf("r=%d w=%d", atomic.LoadInt32(&s.r), atomic.LoadInt32(&s.w))
				}
				return "r=0 w=0"
			case len(f) == 1 && f[0] == "who":
				var ins, parked []int
				for _, c := range w.order {
					if c.status == stInside {
						ins = append(ins, c.tid)
					} else if c.status == stParked {
						parked = append(parked, c.tid)
					}
				}
				return "in=" + showIDs(ins) + " parked=" + showIDs(parked)
			case len(f) == 1 && f[0] == "entries":
				return strconv.Itoa(w.entries())
			case len(f) == 2 && f[0] == "obj":
				tid, ok := natCanon(f[1], 9)
				if !ok || w.calls[tid] == nil || w.calls[tid].status != stInside {
					return "bad-op"
				}
				c := w.calls[tid]
				sw, _ := c.w.Load().(*semap.Weighted)
				var held, waiters int
				var inMap bool
				w.guarded("object state", func() { held, waiters, inMap = semap.VerifSemState(w.m, c.key, sw) })
				p := 0
				if inMap {
					p = 1
				}
				return fmt.Sprintf("cur=%d waiters=%d inmap=%d", held, waiters, p)
			case len(f) == 2 && f[0] == "state":
				k, _, routable, ok := w.parseKey(f[1])
				if !ok {
					return "bad-op"
				}
				if !routable && w.variant != "single" {
					return "cur=0 waiters=0 present=0" // never stored: the lookup itself would panic in remap
				}
				held, waiters, present := w.keyState(k)
				p := 0
				if present {
					p = 1
				}
				return fmt.Sprintf("cur=%d waiters=%d present=%d", held, waiters, p)
			}
			return "bad-op"
		}()
		res.Outs = append(res.Outs, out)
	}
	return res
}
