package main

// GENERATED with `c01 canon <repo>` from the tree the model was written against, plus reviewed variants; see extract.go.
// Canonical text (lib/gofacts Canon) of every pinned function of syncx/semap: a function may have several accepted
// texts (behaviour-preserving variants that were reviewed against the model). Anything else - an inserted, removed or
// changed statement anywhere - makes fact `wholeBodies` false. Refresh only after re-reading the model.
var expectedBodies = map[string][]string{
	".newWeighted": {
		"func newWeighted ( v1 int ) * Weighted { v2 := & Weighted { size : v1 } ; return v2 ; } ;",
		"func newWeighted ( v1 int ) * Weighted { return & Weighted { size : v1 } ; } ;",
	},
	"Weighted.acquire": {
		"func ( v1 * Weighted ) acquire ( v2 context . Context , v3 * sync . Mutex , v4 int ) error { if v1 . size - v1 . cur >= v4 && v1 . waiters . Len ( ) == 0 { v1 . cur += v4 ; v3 . Unlock ( ) ; return nil ; } ; if v4 > v1 . size { v3 . Unlock ( ) ; <- v2 . Done ( ) ; return v2 . Err ( ) ; } ; v5 := make ( chan struct { } ) ; v6 := waiter { v4 : v4 , v5 : v5 } ; v7 := v1 . waiters . PushBack ( v6 ) ; v3 . Unlock ( ) ; select { case <- v2 . Done ( ) : v8 := v2 . Err ( ) ; v3 . Lock ( ) ; select { case <- v5 : v8 = nil ; default : v9 := v1 . waiters . Front ( ) == v7 ; v1 . waiters . Remove ( v7 ) ; if v9 && v1 . size > v1 . cur { v1 . notifyWaiters ( ) ; } ; } ; v3 . Unlock ( ) ; return v8 ; case <- v5 : return nil ; } ; } ;",
	},
	"Weighted.release": {
		"func ( v1 * Weighted ) release ( v2 int ) bool { v1 . cur -= v2 ; if v1 . cur < 0 { panic ( \"semaphore: released more than held\" ) ; } ; return v1 . notifyWaiters ( ) ; } ;",
	},
	"Weighted.notifyWaiters": {
		"func ( v1 * Weighted ) notifyWaiters ( ) bool { for { v2 := v1 . waiters . Front ( ) ; if v2 == nil { return true ; } ; v3 := v2 . Value . ( waiter ) ; if v1 . size - v1 . cur < v3 . n { break ; } ; v1 . cur += v3 . n ; v1 . waiters . Remove ( v2 ) ; close ( v3 . ready ) ; } ; return false ; } ;",
	},
	".NewSemMap": {
		"func NewSemMap ( v1 ... Option ) SemMapper { v2 := RangeOption ( v1 ... ) ; return newSemMap ( v2 . rwRatio ) ; } ;",
	},
	".newSemMap": {
		"func newSemMap ( v1 int ) * SemMap { v2 := & SemMap { } ; v2 . mux = & sync . Mutex { } ; v2 . m = make ( map [ interface { } ] * Weighted ) ; v2 . rwRatio = v1 ; return v2 ; } ;",
	},
	"SemMap.AcquireRead": {
		"func ( v1 * SemMap ) AcquireRead ( v2 context . Context , v3 interface { } ) ( * Weighted , error ) { return v1 . acquire ( v2 , v3 , 1 ) ; } ;",
	},
	"SemMap.ReleaseRead": {
		"func ( v1 * SemMap ) ReleaseRead ( v2 interface { } , v3 * Weighted ) { v1 . release ( v2 , v3 , 1 ) ; } ;",
	},
	"SemMap.AcquireWrite": {
		"func ( v1 * SemMap ) AcquireWrite ( v2 context . Context , v3 interface { } ) ( * Weighted , error ) { return v1 . acquire ( v2 , v3 , v1 . rwRatio ) ; } ;",
	},
	"SemMap.ReleaseWrite": {
		"func ( v1 * SemMap ) ReleaseWrite ( v2 interface { } , v3 * Weighted ) { v1 . release ( v2 , v3 , v1 . rwRatio ) ; } ;",
	},
	"SemMap.acquire": {
		"func ( v1 * SemMap ) acquire ( v2 context . Context , v3 interface { } , v4 int ) ( * Weighted , error ) { var v5 error ; v1 . mux . Lock ( ) ; var v6 , v7 = v1 . m [ v3 ] ; if v7 { v5 = v6 . acquire ( v2 , v1 . mux , v4 ) ; if v5 != nil { return nil , v5 ; } ; return v6 , nil ; } ; v6 = newWeighted ( v1 . rwRatio ) ; v1 . m [ v3 ] = v6 ; v5 = v6 . acquire ( v2 , v1 . mux , v4 ) ; if v5 != nil { return nil , v5 ; } ; return v6 , nil ; } ;",
		"func ( v1 * SemMap ) acquire ( v2 context . Context , v3 interface { } , v4 int ) ( * Weighted , error ) { var v5 error ; v1 . mux . Lock ( ) ; var v6 , v7 = v1 . m [ v3 ] ; if ! v7 { v6 = newWeighted ( v1 . rwRatio ) ; v1 . m [ v3 ] = v6 ; } ; v5 = v6 . acquire ( v2 , v1 . mux , v4 ) ; if v5 != nil { return nil , v5 ; } ; return v6 , nil ; } ;",
	},
	".NewWideSemMap": {
		"func NewWideSemMap ( v1 ... Option ) SemMapper { v2 := RangeOption ( v1 ... ) ; return newWideSemMap ( v2 . rwRatio , v2 . prime , false ) ; } ;",
	},
	".NewWideXHashSemMap": {
		"func NewWideXHashSemMap ( v1 ... Option ) SemMapper { v2 := RangeOption ( v1 ... ) ; return newWideSemMap ( v2 . rwRatio , v2 . prime , true ) ; } ;",
	},
	".newWideSemMap": {
		"func newWideSemMap ( v1 int , v2 uint64 , v3 bool ) SemMapper { v4 := & WideSemMap { } ; if v2 > 0 { v4 . rehash = remap . NewReMap ( remap . WithPrime ( v2 ) ) ; } else { v4 . rehash = remap . NewReMap ( ) ; } ; v5 := v4 . rehash . Numbs ( ) ; v4 . ms = make ( [ ] * SemMap , v5 ) ; for v6 := uint64 ( 0 ) ; v6 < v5 ; v6 ++ { v4 . ms [ v6 ] = newSemMap ( v1 ) ; } ; if v3 { v4 . calKeyFn = v4 . rehash . XHashIndex ; } else { v4 . calKeyFn = v4 . rehash . SimpleIndex ; } ; return v4 ; } ;",
	},
	"WideSemMap.AcquireRead": {
		"func ( v1 * WideSemMap ) AcquireRead ( v2 context . Context , v3 interface { } ) ( * Weighted , error ) { return v1 . calculateKey ( v3 ) . AcquireRead ( v2 , v3 ) ; } ;",
	},
	"WideSemMap.ReleaseRead": {
		"func ( v1 * WideSemMap ) ReleaseRead ( v2 interface { } , v3 * Weighted ) { v1 . calculateKey ( v2 ) . ReleaseRead ( v2 , v3 ) ; } ;",
	},
	"WideSemMap.AcquireWrite": {
		"func ( v1 * WideSemMap ) AcquireWrite ( v2 context . Context , v3 interface { } ) ( * Weighted , error ) { return v1 . calculateKey ( v3 ) . AcquireWrite ( v2 , v3 ) ; } ;",
	},
	"WideSemMap.ReleaseWrite": {
		"func ( v1 * WideSemMap ) ReleaseWrite ( v2 interface { } , v3 * Weighted ) { v1 . calculateKey ( v2 ) . ReleaseWrite ( v2 , v3 ) ; } ;",
	},
	"WideSemMap.calculateKey": {
		"func ( v1 * WideSemMap ) calculateKey ( v2 interface { } ) * SemMap { v3 := v1 . calKeyFn ( v2 ) ; return v1 . ms [ v3 ] ; } ;",
	},
	".RangeOption": {
		"func RangeOption ( v1 ... Option ) * _Option { v2 := & _Option { rwRatio : DefaultRWRatio , } ; for _ , v3 := range v1 { v3 ( v2 ) ; } ; return v2 ; } ;",
	},
	".WithRwRatio": {
		"func WithRwRatio ( v1 int ) Option { return func ( v2 * _Option ) { v2 . rwRatio = v1 ; } ; } ;",
	},
	".WithPrime": {
		"func WithPrime ( v1 uint64 ) Option { return func ( v2 * _Option ) { v2 . prime = v1 ; } ; } ;",
	},
}

const releasePrefix = "func ( v1 * SemMap ) release ( v2 interface { } , v3 * Weighted , v4 int ) { v1 . mux . Lock ( ) ; defer v1 . mux . Unlock ( ) ; v5 := v3 . release ( v4 ) ; "
