// Command c01: extractor and correspondence runner for property C01 (syncx/semap).
package main

import (
	"fmt"
	"os"

	"nvharness/lib/corr"
	_ "nvharness/lib/quiet"
)

func main() {
	if len(os.Args) < 2 {
		fmt.Fprintln(os.Stderr, "usage: c01 extract <repo> <leanDir> | corr …")
		os.Exit(2)
	}
	switch os.Args[1] {
	case "extract":
		if len(os.Args) < 4 {
			os.Exit(2)
		}
		extract(os.Args[2], os.Args[3])
	case "worker": // executes scripts for the runner (see worker.go)
		workerMain()
	case "stress": // child process of a `stress …` script line
		stressMain(os.Args[2:])
	case "canon": // print the canonical bodies of the pinned functions (to refresh the expectations in extract.go)
		dumpCanon(os.Args[2])
	case "enumcount": // size of the exhaustive small-scope part of the thorough tier
		n, ops := 0, 0
		for _, c := range enumCases() {
			n++
			ops += len(c.Lines)
		}
		fmt.Println("exhaustive scripts:", n, "lines:", ops)
	case "corr":
		corr.Main(spec(), os.Args[2:])
	default:
		os.Exit(2)
	}
}
