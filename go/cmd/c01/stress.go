package main

import (
	"bytes"
	"context"
	"encoding/json"
	"fmt"
	"os"
	"os/exec"
	"runtime"
	"strconv"
	"strings"
	"sync"
	"sync/atomic"
	"time"

	"github.com/pinealctx/neptune/syncx/semap"

	"nvharness/lib/corr"
	"nvharness/lib/rng"
	"nvharness/lib/sched"
)

// ---------------------------------------------------------------- genuinely parallel stress (child process)
// `c01 stress <variant> <rw> <prime> <goroutines> <keys> <ms> <seed>`: N goroutines hammer a few keys with
// AcquireRead/AcquireWrite (some with contexts that are cancelled or time out) and the matching Release*, with NO
// scheduling by the harness: the critical sections of the package really overlap in time. What is checked does not
// depend on timing: the callers' own counters (readers/writers inside per key, taken right after Acquire* returned nil
// and given back right before Release*), nil result on error, termination (nobody stays blocked once everybody has
// released), and an empty container at the end. It runs in a child process so that a runtime `fatal error`
// (concurrent map writes …) becomes a reported hit instead of killing the runner.

type stressOut struct {
	Ops  int64      `json:"ops"`
	Hits []corr.Hit `json:"hits"`
}

type stressSec struct{ r, w int32 }

func stressMain(args []string) {
	if len(args) != 7 {
		fmt.Fprintln(os.Stderr, "usage: c01 stress variant rw prime goroutines keys ms seed")
		os.Exit(2)
	}
	variant := args[0]
	num := func(i int) int { n, _ := strconv.Atoi(args[i]); return n }
	rw, prime, ng, nk, ms, seed := num(1), num(2), num(3), num(4), num(5), num(6)
	w := newWorld(variant, rw, prime)
	m := w.m
	keys := make([]interface{}, nk)
	secs := make([]*stressSec, nk)
	for i := range keys {
		switch {
		case variant == "xhash":
			// short string keys, all different, of different lengths: every call hashes a string (xxhash.Sum64String)
			keys[i] = "k" + strings.Repeat(string(rune('a'+i)), i+1)
		case i%2 == 0:
			keys[i] = i * 7
		default:
			keys[i] = "k" + strconv.Itoa(i)
		}
		secs[i] = &stressSec{}
	}
	home := make([]int, nk) // where each key is routed while nobody else is running
	nshards := 0
	for i := range keys {
		home[i], nshards = semap.VerifShardIndex(m, keys[i])
	}
	var mu sync.Mutex
	out := stressOut{Hits: []corr.Hit{}}
	seen := map[string]bool{}
	hit := func(site, what string) {
		mu.Lock()
		defer mu.Unlock()
		k := "C01:concurrency:" + site
		if !seen[k] {
			seen[k] = true
			out.Hits = append(out.Hits, corr.Hit{Key: k, What: what})
		}
	}
	var stop int32
	var ops int64
	master, cancelAll := context.WithCancel(context.Background())
	defer cancelAll()
	done := make([]int32, ng)
	for g := 0; g < ng; g++ {
		g := g
		go func() {
			defer atomic.StoreInt32(&done[g], 1)
			defer func() {
				if p := recover(); p != nil {
					hit("panic", fmt.Sprintf("goroutine %d: %v", g, p))
				}
			}()
			r := rng.New(uint64(seed)*1000 + uint64(g))
			for atomic.LoadInt32(&stop) == 0 {
				ki := r.Intn(nk)
				key, sec := keys[ki], secs[ki]
				write := r.Intn(100) < 30
				// routing must be a function of the key also while other callers are routing (hook: the map's own calKeyFn)
				if i1, n1 := semap.VerifShardIndex(m, key); i1 != home[ki] || n1 != nshards {
					hit("routing-unstable", fmt.Sprintf("key %v is routed to shard %d of %d, earlier to shard %d of %d", key, i1, n1, home[ki], nshards))
				}
				ctx, cancel := context.WithCancel(master)
				switch r.Intn(8) {
				case 0:
					cancel() // already ended
				case 1:
					ctx, cancel = context.WithTimeout(master, time.Duration(20+r.Intn(400))*time.Microsecond)
				}
				var sw *semap.Weighted
				var err error
				if write {
					sw, err = m.AcquireWrite(ctx, key)
				} else {
					sw, err = m.AcquireRead(ctx, key)
				}
				cancel()
				atomic.AddInt64(&ops, 1)
				if err != nil {
					if sw != nil {
						hit("non-nil-on-error", "Acquire* returned an error and a non-nil *Weighted")
					}
					continue
				}
				var rd, wr int32
				if write {
					wr = atomic.AddInt32(&sec.w, 1)
					rd = atomic.LoadInt32(&sec.r)
				} else {
					rd = atomic.AddInt32(&sec.r, 1)
					wr = atomic.LoadInt32(&sec.w)
				}
				if wr > 1 || (wr >= 1 && rd > 0) || int(rd) > rw {
					hit("excl", fmt.Sprintf("key %v rwRatio %d: a caller entering its critical section (write=%v) saw readers=%d writers=%d inside", key, rw, write, rd, wr))
				}
				if r.Intn(3) == 0 {
					runtime.Gosched()
				}
				if write {
					atomic.AddInt32(&sec.w, -1)
					m.ReleaseWrite(key, sw)
				} else {
					atomic.AddInt32(&sec.r, -1)
					m.ReleaseRead(key, sw)
				}
			}
		}()
	}
	time.Sleep(time.Duration(ms) * time.Millisecond)
	atomic.StoreInt32(&stop, 1)
	allDone := func() bool {
		for i := range done {
			if atomic.LoadInt32(&done[i]) == 0 {
				return false
			}
		}
		return true
	}
	s := sched.New()
	s.Timeout = 120 * time.Second
	if err := s.Settle(); err != nil { // load, unknown goroutine state: a harness error, never a verdict
		fmt.Fprintln(os.Stderr, "c01 harness error:", err)
		os.Exit(2)
	}
	if !allDone() {
		// quiescent, yet somebody is still blocked although every holder has released: lost wake-up / leaked tokens / deadlock
		n := 0
		for i := range done {
			if atomic.LoadInt32(&done[i]) == 0 {
				n++
			}
		}
		hit("stuck", fmt.Sprintf("%d of %d goroutines are blocked for ever in Acquire*/Release* after every caller has released (rwRatio %d)", n, ng, rw))
	} else {
		for i, sec := range secs {
			if atomic.LoadInt32(&sec.r) != 0 || atomic.LoadInt32(&sec.w) != 0 {
				hit("counter", fmt.Sprintf("key %v: section counters not back to zero", keys[i]))
			}
		}
		if n := semap.VerifEntries(m); n != 0 {
			hit("residue", fmt.Sprintf("every caller has released and nobody waits, yet the container keeps %d entries", n))
		}
	}
	out.Ops = atomic.LoadInt64(&ops)
	b, _ := json.Marshal(out)
	fmt.Println(string(b))
	os.Exit(0)
}

// validStress checks a `stress …` script line; both sides (runner and oracle) apply the same rule.
func validStress(f []string) bool {
	if len(f) != 8 || (f[1] != "single" && f[1] != "wide" && f[1] != "xhash") {
		return false
	}
	lim := []struct{ maxLen, lo, hi int }{{6, 1, 999999}, {4, 0, 9999}, {2, 1, 64}, {1, 1, 8}, {4, 1, 5000}, {9, 0, 999999999}}
	for i, l := range lim {
		n, ok := natCanon(f[2+i], l.maxLen)
		if !ok || n < l.lo || n > l.hi {
			return false
		}
	}
	return true
}

// runStress executes one stress line in a child process and maps its outcome to a result line + hits.
func runStress(f []string) (string, []corr.Hit) {
	exe, err := os.Executable()
	if err != nil {
		harnessFatal(err.Error())
	}
	ms, _ := strconv.Atoi(f[6])
	ctx, cancel := context.WithTimeout(context.Background(), time.Duration(ms)*time.Millisecond+180*time.Second)
	defer cancel()
	cmd := exec.CommandContext(ctx, exe, append([]string{"stress"}, f[1:]...)...)
	var so, se bytes.Buffer
	cmd.Stdout, cmd.Stderr = &so, &se
	runErr := cmd.Run()
	if runErr == nil {
		var o stressOut
		if err := json.Unmarshal(bytes.TrimSpace(so.Bytes()), &o); err != nil {
			harnessFatal("stress child: unreadable output: " + so.String())
		}
		if len(o.Hits) == 0 {
			return "ok", nil
		}
		return "violation", o.Hits
	}
	if ctx.Err() != nil {
		harnessFatal("stress child did not finish: " + se.String())
	}
	msg := se.String()
	first := func(marker string) string {
		i := strings.Index(msg, marker)
		if i < 0 {
			return ""
		}
		line := msg[i:]
		if j := strings.IndexByte(line, '\n'); j >= 0 {
			line = line[:j]
		}
		return line
	}
	switch {
	case strings.Contains(msg, "c01 harness error:"):
		harnessFatal("stress child: " + msg)
	case first("fatal error: concurrent map") != "":
		return "violation", []corr.Hit{{Key: "C01:concurrency:fatal-concurrent-map-access",
			What: "the Go runtime aborted the process: " + first("fatal error: concurrent map") + " (the container's map was accessed by two callers at once)"}}
	case first("fatal error:") != "":
		return "violation", []corr.Hit{{Key: "C01:concurrency:fatal-error", What: "the Go runtime aborted the process: " + first("fatal error:")}}
	case first("panic:") != "":
		return "violation", []corr.Hit{{Key: "C01:concurrency:panic", What: first("panic:")}}
	}
	harnessFatal("stress child failed: " + runErr.Error() + ": " + msg)
	return "", nil
}
