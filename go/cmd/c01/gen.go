package main

import (
	"fmt"
	"strconv"
	"strings"
	"sync"

	"nvharness/lib/corr"
	"nvharness/lib/rng"
)

// ---------------------------------------------------------------- generator-side bookkeeping
// A tiny simulation of the *intended* behaviour, used only to bias generation towards enabled operations
// (who can be released, who is waiting). It decides nothing: every line is judged by oracle and implementation.

type simKey struct {
	cur     int
	holders []int
	queue   []int
}

type simCall struct {
	key   string
	write bool
	state int // stParked, stInside, stReleased, stFailed
}

type sim struct {
	rw    int
	keys  map[string]*simKey
	calls map[int]*simCall
	ids   []int
}

func newSim(rw int) *sim { return &sim{rw: rw, keys: map[string]*simKey{}, calls: map[int]*simCall{}} }

func (s *sim) w(t int) int {
	if s.calls[t].write {
		return s.rw
	}
	return 1
}

func (s *sim) notify(k *simKey) {
	for len(k.queue) > 0 && s.rw-k.cur >= s.w(k.queue[0]) {
		t := k.queue[0]
		k.queue = k.queue[1:]
		k.cur += s.w(t)
		k.holders = append(k.holders, t)
		s.calls[t].state = stInside
	}
}

func (s *sim) acquire(t int, key string, write bool) {
	k := s.keys[key]
	if k == nil {
		k = &simKey{}
		s.keys[key] = k
	}
	s.calls[t] = &simCall{key: key, write: write, state: stParked}
	s.ids = append(s.ids, t)
	if s.rw-k.cur >= s.w(t) && len(k.queue) == 0 {
		k.cur += s.w(t)
		k.holders = append(k.holders, t)
		s.calls[t].state = stInside
		return
	}
	k.queue = append(k.queue, t)
}

func del(l []int, x int) []int {
	var out []int
	for _, v := range l {
		if v != x {
			out = append(out, v)
		}
	}
	return out
}

func (s *sim) release(t int) {
	c := s.calls[t]
	k := s.keys[c.key]
	k.cur -= s.w(t)
	k.holders = del(k.holders, t)
	c.state = stReleased
	s.notify(k)
}

func (s *sim) cancel(t int) {
	c := s.calls[t]
	if c.state != stParked {
		return
	}
	k := s.keys[c.key]
	front := len(k.queue) > 0 && k.queue[0] == t
	k.queue = del(k.queue, t)
	c.state = stFailed
	if front {
		s.notify(k)
	}
}

func (s *sim) with(state int) []int {
	var out []int
	for _, t := range s.ids {
		if s.calls[t].state == state {
			out = append(out, t)
		}
	}
	return out
}

// ---------------------------------------------------------------- random structured scripts

var keyPools = [][]string{
	{"i7"}, {"i0", "i1"}, {"i-3", "sK", "i211"}, {"sa", "sb"}, {"i9223372036854775807", "i-9223372036854775808", "s"},
	{"i5", "s5"}, {"i73", "i146", "i0"},
	// the same number under different dynamic types: four different keys
	{"i5", "h5", "l5", "b5"}, {"h7"}, {"l-9223372036854775808", "h-2147483648", "b255"}, {"b0", "h0"},
	// struct keys (single map only)
	{"t1:a", "t1:b", "s"}, {"t-7:", "i-7"},
	// pointer keys (identity of the pointer; the pointee may change under the lock) and float keys (0.0 and -0.0 are ONE key):
	// valid map keys remap cannot route - on wide / xhash maps the call panics before anything is locked
	{"p1", "p2"}, {"f0", "f-0", "f1"}, {"p7", "f-0", "i0"},
}

func poolNeedsSingle(pool []string) bool {
	for _, k := range pool {
		if k[0] == 't' || k[0] == 'p' || k[0] == 'f' {
			return true
		}
	}
	return false
}

type class struct {
	name                           string
	acq, rel, cancel, obs, precanc int // relative weights
	writePct                       int
}

var classes = []class{
	{"rw-mix", 50, 30, 10, 15, 3, 35},
	{"reader-heavy", 55, 30, 8, 12, 2, 12},
	{"writer-heavy", 50, 30, 10, 12, 3, 70},
	{"cancel-heavy", 45, 15, 35, 12, 8, 45},
	{"drain", 45, 35, 12, 10, 2, 30},
}

func genScript(r *rng.R, tier string) corr.Case {
	cl := classes[r.Intn(len(classes))]
	rw := r.PickInt(1, 2, 2, 3, 3, 10, 4, 7, 64)
	variant := r.Pick("single", "single", "wide", "xhash")
	prime := r.PickInt(1, 2, 73, 0, 3)
	pool := keyPools[r.Intn(len(keyPools))]
	if poolNeedsSingle(pool) && r.Intn(4) != 0 {
		variant = "single" // on a sharded map these keys only panic (kept in 1/4 of the cases)
	}
	maxEv, maxActive := 14, 6
	if r.Intn(6) == 0 {
		maxEv, maxActive = 24, 12 // more simultaneous callers
	}
	if tier != "quick" {
		maxEv = r.Range(8, 30)
		maxActive = r.Range(3, 16)
	}
	if rw >= 7 {
		maxActive += rw + 2
		maxEv += rw + 6
	}
	lines := []string{fmt.Sprintf("new %s %d %d", variant, rw, prime)}
	if rw == 10 && r.Intn(3) == 0 {
		lines[0] = fmt.Sprintf("new %s d %d", variant, prime) // NewSemMap() without WithRwRatio: DefaultRWRatio
	}
	s := newSim(rw)
	used := map[int]bool{}
	fresh := func() int {
		for {
			t := r.Intn(400)
			if !used[t] {
				used[t] = true
				return t
			}
		}
	}
	obs := func() {
		switch r.Intn(5) {
		case 4:
			if hs := s.with(stInside); len(hs) > 0 {
				lines = append(lines, "obj "+strconv.Itoa(hs[r.Intn(len(hs))]))
			} else {
				lines = append(lines, "who")
			}
		case 0:
			lines = append(lines, "who")
		case 1:
			lines = append(lines, "entries")
		case 2:
			lines = append(lines, "state "+pool[r.Intn(len(pool))])
		default:
			lines = append(lines, "inside "+pool[r.Intn(len(pool))])
		}
	}
	n := r.Range(maxEv/2, maxEv)
	for ev := 0; ev < n; ev++ {
		holders, waiting := s.with(stInside), s.with(stParked)
		active := len(holders) + len(waiting)
		wa, wr, wc := cl.acq, cl.rel, cl.cancel
		if active >= maxActive {
			wa = 0
		}
		if len(holders) == 0 {
			wr = 0
		}
		if len(waiting) == 0 {
			wc = wc / 6
		}
		if len(s.ids) == 0 {
			wc = 0
		}
		if rw >= 7 && active < rw+1 {
			wa *= 6 // fill the ratio: the boundary is at rw readers
		}
		tot := wa + wr + wc
		if tot == 0 {
			break
		}
		x := r.Intn(tot)
		switch {
		case x < wa:
			t := fresh()
			key := pool[r.Intn(len(pool))]
			write := r.Intn(100) < cl.writePct
			op := "acqR"
			if write {
				op = "acqW"
			}
			if r.Intn(100) < cl.precanc {
				lines = append(lines, fmt.Sprintf("%sx %d %s", op, t, key))
				s.acquire(t, key, write)
				s.cancel(t)
			} else {
				lines = append(lines, fmt.Sprintf("%s %d %s", op, t, key))
				s.acquire(t, key, write)
			}
		case x < wa+wr:
			t := holders[r.Intn(len(holders))]
			if len(waiting) > 0 && r.Intn(5) == 0 {
				// the context of a waiting caller (mostly one of the same key) ends during this release
				u := waiting[r.Intn(len(waiting))]
				for try := 0; try < 4 && s.calls[u].key != s.calls[t].key; try++ {
					u = waiting[r.Intn(len(waiting))]
				}
				lines = append(lines, fmt.Sprintf("relx %d %d", t, u))
				s.release(t)
				s.cancel(u)
			} else if r.Intn(40) == 0 {
				u := s.ids[r.Intn(len(s.ids))]
				lines = append(lines, fmt.Sprintf("relx %d %d", t, u))
				s.release(t)
				s.cancel(u)
			} else {
				lines = append(lines, "rel "+strconv.Itoa(t))
				s.release(t)
			}
		default:
			var t int
			if len(waiting) > 0 && r.Intn(8) != 0 {
				t = waiting[r.Intn(len(waiting))]
			} else {
				t = s.ids[r.Intn(len(s.ids))]
			}
			lines = append(lines, "cancel "+strconv.Itoa(t))
			s.cancel(t)
		}
		if r.Intn(100) < cl.obs {
			obs()
		}
	}
	if cl.name == "drain" || r.Intn(4) == 0 {
		// everybody leaves: the container must end up empty
		for guard := 0; guard < 200; guard++ {
			holders, waiting := s.with(stInside), s.with(stParked)
			if len(holders)+len(waiting) == 0 {
				break
			}
			if len(holders) > 0 && (len(waiting) == 0 || r.Intn(3) != 0) {
				t := holders[r.Intn(len(holders))]
				lines = append(lines, "rel "+strconv.Itoa(t))
				s.release(t)
			} else {
				t := waiting[r.Intn(len(waiting))]
				lines = append(lines, "cancel "+strconv.Itoa(t))
				s.cancel(t)
			}
		}
	}
	lines = append(lines, "who", "entries")
	for _, k := range pool {
		lines = append(lines, "state "+k, "inside "+k)
	}
	return corr.Case{Tag: cl.name + "/" + variant, Lines: lines}
}

// long queues: one or a few holders, 20-40 (thorough: up to 60) blocked callers behind them, late arrivals that would
// fit if they were allowed to overtake, then releases / cancels at the head, in the middle and at the tail.
func genLongQueue(r *rng.R, tier string) corr.Case {
	rw := r.PickInt(1, 2, 3, 7)
	variant := r.Pick("single", "wide", "xhash")
	pool := [][]string{{"i7"}, {"sQ"}, {"h3"}, {"l9", "i9"}, {"b1"}}[r.Intn(5)]
	lines := []string{fmt.Sprintf("new %s %d %d", variant, rw, r.PickInt(1, 2, 73, 0))}
	s := newSim(rw)
	next := 0
	acq := func(key string, write bool) {
		op := "acqR"
		if write {
			op = "acqW"
		}
		lines = append(lines, fmt.Sprintf("%s %d %s", op, next, key))
		s.acquire(next, key, write)
		next++
	}
	key := pool[0]
	// blockers
	if rw == 1 || r.Intn(2) == 0 {
		acq(key, r.Intn(2) == 0)
	} else {
		for i, n := 0, r.Range(1, rw-1); i < n; i++ {
			acq(key, false)
		}
	}
	// the queue
	n := r.Range(20, 40)
	if tier != "quick" {
		n = r.Range(20, 60)
	}
	writePct := r.PickInt(100, 70, 40)
	acq(key, true) // a writer at the head: nothing behind it may pass
	for i := 1; i < n; i++ {
		acq(key, r.Intn(100) < writePct)
	}
	// late arrivals (readers fit numerically while the writers wait) and a mixed tail
	for i, k := 0, r.Range(2, 5); i < k; i++ {
		acq(pool[r.Intn(len(pool))], r.Intn(4) == 0)
	}
	lines = append(lines, "who", "inside "+key, "state "+key)
	for ev, m := 0, r.Range(8, 24); ev < m; ev++ {
		holders, waiting := s.with(stInside), s.with(stParked)
		switch x := r.Intn(10); {
		case x < 4 && len(holders) > 0:
			t := holders[r.Intn(len(holders))]
			if len(waiting) > 0 && r.Intn(4) == 0 {
				u := waiting[r.Intn(len(waiting))]
				lines = append(lines, fmt.Sprintf("relx %d %d", t, u))
				s.release(t)
				s.cancel(u)
			} else {
				lines = append(lines, "rel "+strconv.Itoa(t))
				s.release(t)
			}
		case x < 7 && len(waiting) > 0:
			// head, tail or anywhere
			t := waiting[r.Intn(len(waiting))]
			if k := s.keys[key]; k != nil && len(k.queue) > 0 {
				switch r.Intn(3) {
				case 0:
					t = k.queue[0]
				case 1:
					t = k.queue[len(k.queue)-1]
				}
			}
			lines = append(lines, "cancel "+strconv.Itoa(t))
			s.cancel(t)
		default:
			acq(pool[r.Intn(len(pool))], r.Intn(3) == 0)
		}
		if r.Intn(5) == 0 {
			lines = append(lines, "who")
		}
	}
	if r.Intn(3) == 0 {
		for guard := 0; guard < 400; guard++ {
			holders, waiting := s.with(stInside), s.with(stParked)
			if len(holders)+len(waiting) == 0 {
				break
			}
			if len(holders) > 0 {
				t := holders[r.Intn(len(holders))]
				lines = append(lines, "rel "+strconv.Itoa(t))
				s.release(t)
			} else {
				t := waiting[0]
				lines = append(lines, "cancel "+strconv.Itoa(t))
				s.cancel(t)
			}
		}
	}
	lines = append(lines, "who", "entries")
	for _, k := range pool {
		lines = append(lines, "state "+k, "inside "+k)
	}
	return corr.Case{Tag: "long-queue/" + variant, Lines: lines}
}

// int keys whose xxhash values agree in the low 32 bits but lie in different shards (A, B), and a key C sharing only
// the low byte with them — mined from remap.XXHash with the harness' own shard arithmetic; valid for the primes named.
var collide = map[int][][3]int{
	73:  {{90880, 73747, 508}, {102191, 96392, 109}, {122229, 98658, 118}, {136578, 387, 12}},
	211: {{90880, 73747, 508}, {102191, 96392, 109}, {122229, 98658, 118}, {136578, 387, 12}},
	2:   {{122229, 98658, 118}, {174529, 78820, 345}, {209040, 102028, 100}, {226985, 6567, 619}},
}

// routing history: keys are held on a sharded map while (a) other containers with other primes are created and used
// (`newmap`), (b) keys colliding in the low bits of the hash and keys evicting them are looked up; then the held keys
// are asked for again. Routing must be a pure function of the key: the second request meets the first.
func genRouteHistory(r *rng.R, tier string) corr.Case {
	rw := r.PickInt(1, 2, 3, 4)
	variant := r.Pick("xhash", "xhash", "wide")
	prime := r.PickInt(73, 211, 2, 0, 97)
	lines := []string{fmt.Sprintf("new %s %d %d", variant, rw, prime)}
	s := newSim(rw)
	next := 0
	acq := func(op, key string, write bool) int {
		lines = append(lines, fmt.Sprintf("%s %d %s", op, next, key))
		s.acquire(next, key, write)
		if strings.HasSuffix(op, "x") {
			s.cancel(next)
		}
		next++
		return next - 1
	}
	p := prime
	if p == 0 {
		p = 73
	}
	var held []string
	if trip, ok := collide[p]; ok && variant == "xhash" && r.Intn(2) == 0 {
		// memo history: touch B, hold A, touch C, ask for A again (both orders of A and B)
		t := trip[r.Intn(len(trip))]
		a, b, c := t[0], t[1], t[2]
		if r.Intn(2) == 0 {
			a, b = b, a
		}
		ka, kb, kc := "i"+strconv.Itoa(a), "i"+strconv.Itoa(b), "i"+strconv.Itoa(c)
		tb := acq("acqW", kb, true)
		if r.Intn(3) != 0 {
			lines = append(lines, "rel "+strconv.Itoa(tb))
			s.release(tb)
		}
		acq(r.Pick("acqW", "acqR"), ka, true)
		held = append(held, ka)
		tc := acq("acqW", kc, true)
		if r.Intn(3) != 0 {
			lines = append(lines, "rel "+strconv.Itoa(tc))
			s.release(tc)
		}
	} else {
		// shared tables: hold 6-14 keys (strings on wide maps are routed by xxhash as well), then other containers appear
		n := r.Range(6, 14)
		for i := 0; i < n; i++ {
			k := "s" + string(rune('a'+i)) + strings.Repeat("x", i%4)
			if variant == "xhash" && i%3 == 0 {
				k = "i" + strconv.Itoa(1000+37*i)
			}
			acq(r.Pick("acqW", "acqW", "acqR"), k, true)
			held = append(held, k)
		}
		for j, m := 0, r.Range(1, 3); j < m; j++ {
			lines = append(lines, fmt.Sprintf("newmap %s %d %d", r.Pick("xhash", "wide", "single"), r.PickInt(1, 2, 5), r.PickInt(13, 2, 7, 31, 1, 73, 0)))
		}
	}
	lines = append(lines, "who")
	// the held keys are requested again: writers with an ended context come back with `ctx` when routing is stable
	for _, k := range held {
		switch r.Intn(3) {
		case 0:
			acq("acqW", k, true)
		default:
			acq("acqWx", k, true)
		}
	}
	lines = append(lines, "who", "entries")
	for guard := 0; guard < 200; guard++ {
		holders, waiting := s.with(stInside), s.with(stParked)
		if len(holders)+len(waiting) == 0 {
			break
		}
		if len(holders) > 0 {
			t := holders[r.Intn(len(holders))]
			lines = append(lines, "rel "+strconv.Itoa(t))
			s.release(t)
		} else {
			lines = append(lines, "cancel "+strconv.Itoa(waiting[0]))
			s.cancel(waiting[0])
		}
	}
	lines = append(lines, "who", "entries")
	return corr.Case{Tag: "route-history/" + variant, Lines: lines}
}

// genuinely parallel stress (child process): goroutines x keys for a few hundred ms; the only correct outcome is `ok`
func genStress(r *rng.R, tier string) corr.Case {
	ms := r.Range(200, 350)
	g := r.PickInt(8, 16, 24)
	if tier != "quick" {
		ms = r.Range(600, 1500)
		g = r.PickInt(8, 16, 32, 48)
	}
	line := fmt.Sprintf("stress %s %d %d %d %d %d %d", r.Pick("single", "wide", "xhash"), r.PickInt(1, 2, 3, 7), r.PickInt(1, 2, 73, 0),
		g, r.PickInt(1, 2, 3, 5), ms, r.Intn(1000000))
	return corr.Case{Tag: "parallel-stress", Lines: []string{line}}
}

// malformed stream: ill-formed and not-enabled lines mixed into a valid skeleton
func genMalformed(r *rng.R) corr.Case {
	lines := []string{r.Pick("new single 2 0", "new wide 3 2", "new xhash 1 73")}
	junk := []string{"", "rel", "rel 99", "rel x", "rel 01", "cancel 77", "cancel -1", "acqR 1", "acqR 1 i5 extra", "acqR 01 i5",
		"acqR 1 x5", "acqR 1 i05", "acqR 1 i+5", "acqR 1 i", "acqW 1234567890 i1", "acqR 1 i9223372036854775808",
		"acqR -1 i5", "acqR 1 h2147483648", "acqR 1 b256", "acqR 1 b-1", "acqR 1 t5", "acqR 1 p", "acqR 1 p1000", "acqR 1 f1001", "acqR 1 f0.5", "acqR 1 f-00", "poke", "poke x", "poke 1000", "newmap", "newmap tri 2 2", "newmap wide 0 2", "newmap wide 2", "newmap xhash 2 13", "burst single 0 0 10", "burst single 2 0 0", "burst single 2 0 20001", "burst tri 2 0 10", "acqR 1 tx:a", "acqR 1 l", "stress single 0 0 8 2 100 1", "stress single 2 0 65 2 100 1", "stress single 2 0 8 9 100 1", "stress single 2 0 8 2", "new single 0 0", "new triple 2 0", "new single 2", "new single 02 0", "new single 2 12345",
		"new single 1234567 0", "state", "state k", "inside", "inside 5", "who now", "entries 1", "ACQR 1 i5", "acqRx 3",
		"acqZ 1 i5", "rel 1 2", "relx 1", "relx 1 x", "relx 99 1", "obj", "obj 99", "obj x", "state i05", "inside i--1", "new wide 2 -1"}
	n := r.Range(6, 16)
	next := 1
	var held []int
	for i := 0; i < n; i++ {
		switch r.Intn(5) {
		case 0, 1:
			lines = append(lines, junk[r.Intn(len(junk))])
		case 2:
			lines = append(lines, fmt.Sprintf("%s %d %s", r.Pick("acqR", "acqW", "acqRx"), next, r.Pick("i5", "s5", "s")))
			held = append(held, next)
			if r.Intn(3) == 0 {
				next-- // reuse of a caller id: not enabled
			}
			next++
		case 3:
			if len(held) > 0 {
				lines = append(lines, fmt.Sprintf("%s %d", r.Pick("rel", "rel", "cancel"), held[r.Intn(len(held))]))
			} else {
				lines = append(lines, "rel 0")
			}
		default:
			lines = append(lines, r.Pick("who", "entries", "state i5", "inside s5", "new single 3 0"))
		}
	}
	lines = append(lines, "who", "entries")
	return corr.Case{Tag: "malformed", Lines: lines}
}

// ---------------------------------------------------------------- exhaustive small scope (thorough tier)
// every maximal script of at most maxLen events over at most maxActive simultaneous callers and the given keys

func enumScripts(rw, maxLen, maxActive int, keys []string, withRelx bool) [][]string {
	var out [][]string
	type ev struct {
		line string
		do   func(s *sim)
	}
	var rec func(prefix []string, next int)
	replay := func(prefix []string) *sim {
		s := newSim(rw)
		for _, l := range prefix {
			f := strings.Fields(l)
			t, _ := strconv.Atoi(f[1])
			switch f[0] {
			case "acqR":
				s.acquire(t, f[2], false)
			case "acqW":
				s.acquire(t, f[2], true)
			case "rel":
				s.release(t)
			case "cancel":
				s.cancel(t)
			case "relx":
				u, _ := strconv.Atoi(f[2])
				s.release(t)
				s.cancel(u)
			}
		}
		return s
	}
	rec = func(prefix []string, next int) {
		if len(prefix) == maxLen {
			out = append(out, append([]string{}, prefix...))
			return
		}
		s := replay(prefix)
		holders, waiting := s.with(stInside), s.with(stParked)
		var opts []string
		if len(holders)+len(waiting) < maxActive {
			for _, k := range keys {
				opts = append(opts, fmt.Sprintf("acqR %d %s", next, k), fmt.Sprintf("acqW %d %s", next, k))
			}
		}
		for _, t := range holders {
			opts = append(opts, "rel "+strconv.Itoa(t))
		}
		for _, t := range waiting {
			opts = append(opts, "cancel "+strconv.Itoa(t))
		}
		if withRelx {
			// a waiter's context ends during a release of the same key
			for _, t := range holders {
				for _, u := range waiting {
					if s.calls[t].key == s.calls[u].key {
						opts = append(opts, fmt.Sprintf("relx %d %d", t, u))
					}
				}
			}
		}
		if len(opts) == 0 {
			out = append(out, append([]string{}, prefix...))
			return
		}
		for _, o := range opts {
			nn := next
			if strings.HasPrefix(o, "acq") {
				nn++
			}
			rec(append(append([]string{}, prefix...), o), nn)
		}
	}
	rec(nil, 1)
	return out
}

var (
	enumOnce sync.Once
	enumAll  []corr.Case
)

func enumCases() []corr.Case {
	enumOnce.Do(func() {
		add := func(rw, maxLen, maxActive int, keys []string, variant string, withRelx bool) {
			for _, sc := range enumScripts(rw, maxLen, maxActive, keys, withRelx) {
				lines := append([]string{fmt.Sprintf("new %s %d 2", variant, rw)}, sc...)
				lines = append(lines, "who", "entries")
				for _, k := range keys {
					lines = append(lines, "state "+k)
				}
				enumAll = append(enumAll, corr.Case{Tag: fmt.Sprintf("exhaustive-rw%d-len%d", rw, maxLen), Lines: lines})
			}
		}
		add(2, 7, 3, []string{"i0", "i1"}, "single", false)
		add(1, 6, 3, []string{"i0"}, "wide", true)
		add(3, 7, 4, []string{"sk"}, "xhash", false)
		add(2, 6, 3, []string{"i5"}, "single", true)
	})
	return enumAll
}

// ---------------------------------------------------------------- fixed cases

func fixedCases() []corr.Case {
	mk := func(tag string, lines ...string) corr.Case { return corr.Case{Tag: tag, Lines: lines} }
	return []corr.Case{
		// F01: two readers, one leaves, a writer is admitted beside the other reader
		mk("witness-F01", "new single 3 0", "acqR 1 i7", "acqR 2 i7", "state i7", "rel 1", "state i7", "acqW 9 i7", "inside i7", "obj 2", "obj 9", "who", "entries"),
		mk("witness-F01-wide", "new wide 2 2", "acqR 1 s", "acqR 2 s", "rel 2", "acqW 3 s", "inside s", "rel 1", "rel 3", "entries"),
		// F01, further consequences: more than rwRatio readers; an arrival overtakes a blocked caller of an orphaned object
		mk("witness-F01-readers", "new single 2 0", "acqR 1 i0", "acqR 2 i0", "rel 1", "acqR 3 i0", "acqR 4 i0", "inside i0", "who"),
		mk("witness-F01-overtake", "new single 3 0", "acqR 1 i0", "acqR 2 i0", "rel 1", "acqW 3 i0", "acqR 4 i0", "rel 2", "acqR 5 i0", "who", "state i0", "rel 3", "who", "rel 4", "rel 5", "entries"),
		// boundaries
		mk("ratio-1", "new single 1 0", "acqR 1 i0", "acqR 2 i0", "acqW 3 i0", "rel 1", "who", "rel 2", "who", "rel 3", "entries", "state i0"),
		mk("ratio-exact", "new single 3 0", "acqR 1 i0", "acqR 2 i0", "acqR 3 i0", "acqR 4 i0", "inside i0", "rel 2", "inside i0", "who"),
		mk("no-starvation", "new single 3 0", "acqR 1 i0", "acqW 2 i0", "acqR 3 i0", "acqR 4 i0", "who", "rel 1", "who", "rel 2", "who", "inside i0"),
		mk("cancel-head", "new single 3 0", "acqR 1 i0", "acqW 2 i0", "acqR 3 i0", "acqR 4 i0", "cancel 2", "who", "inside i0", "state i0"),
		mk("cancel-middle", "new single 3 0", "acqW 1 i0", "acqR 2 i0", "acqW 3 i0", "acqR 4 i0", "cancel 3", "who", "rel 1", "who", "state i0"),
		mk("cancel-last-waiter", "new single 2 0", "acqW 1 i0", "acqR 2 i0", "cancel 2", "state i0", "rel 1", "state i0", "entries"),
		mk("cancel-holder", "new single 2 0", "acqW 1 i0", "cancel 1", "who", "rel 1", "cancel 1", "entries"),
		// the context of a queued caller ends while the release that admits it is in its critical section: the grant wins
		mk("cancel-vs-grant", "new single 2 0", "acqW 1 i0", "acqR 2 i0", "acqR 3 i0", "acqW 4 i0", "relx 1 2", "who", "inside i0", "relx 2 4", "who", "rel 3", "who", "state i0"),
		mk("cancel-vs-grant-wide", "new xhash 3 2", "acqW 1 s", "acqW 2 s", "acqR 3 s", "acqR 4 i1", "relx 1 2", "who", "relx 2 4", "who", "relx 4 4", "relx 3 1", "entries"),
		mk("precancelled", "new single 2 0", "acqRx 1 i0", "acqWx 2 i0", "who", "state i0", "rel 1", "acqWx 3 i0", "who", "entries"),
		mk("keys-independent", "new xhash 2 73", "acqW 1 i5", "acqW 2 s5", "acqR 3 i5", "acqR 4 s5", "who", "entries", "rel 1", "rel 2", "who", "entries", "rel 3", "rel 4", "entries"),
		mk("wide-one-shard", "new wide 3 1", "acqR 1 i-3", "acqW 2 i-3", "acqR 3 i4", "rel 1", "who", "rel 2", "rel 3", "entries"),
		mk("default-prime", "new wide 10 0", "acqW 1 i211", "acqR 2 i0", "acqR 3 i211", "who", "entries", "rel 1", "who", "rel 2", "rel 3", "entries"),
		mk("reinit", "new single 2 0", "acqW 1 i0", "acqR 2 i0", "new single 2 0", "acqR 2 i0", "who", "entries"),
		mk("default-ratio", "new single d 0", "acqR 1 i0", "acqR 2 i0", "acqR 3 i0", "acqR 4 i0", "acqR 5 i0", "acqR 6 i0", "acqR 7 i0", "acqR 8 i0", "acqR 9 i0", "acqR 10 i0", "acqR 11 i0", "acqW 12 i0", "inside i0", "who", "state i0"),
		mk("key-types", "new wide 2 2", "acqW 1 i5", "acqW 2 h5", "acqW 3 l5", "acqW 4 b5", "acqW 5 s5", "who", "entries", "acqR 6 h5", "rel 2", "who", "rel 1", "rel 3", "rel 4", "rel 5", "rel 6", "entries"),
		mk("struct-keys", "new single 2 0", "acqW 1 t1:a", "acqW 2 t1:b", "acqW 3 t1:a", "who", "entries", "rel 1", "who", "rel 2", "rel 3", "entries", "state t1:a"),
		mk("struct-key-not-routable", "new wide 2 2", "acqW 1 t1:a", "who"),
		// key kinds outside remap's arms: ordinary keys on the single map, `panic:unroutable` (nothing locked, nothing stored) on sharded maps
		mk("pointer-key-single", "new single 2 0", "acqW 1 p1", "poke 1", "acqW 2 p1", "acqR 3 p2", "inside p1", "who", "rel 1", "who", "rel 2", "rel 3", "entries"),
		mk("pointer-key-wide", "new wide 2 2", "acqW 1 p1", "poke 1", "acqW 2 p1", "acqR 3 p1", "inside p1", "who", "entries", "state p1"),
		mk("pointer-key-xhash", "new xhash 3 73", "acqR 1 p1", "poke 1", "acqW 2 p1", "acqWx 3 p1", "inside p1", "who", "cancel 1", "entries"),
		mk("float-zeros-single", "new single 2 0", "acqW 1 f0", "acqW 2 f-0", "acqR 3 f1", "inside f0", "inside f-0", "who", "rel 1", "who", "rel 2", "rel 3", "entries"),
		mk("float-zeros-wide", "new wide 2 2", "acqW 1 f0", "acqW 2 f-0", "inside f0", "who", "entries"),
		mk("float-zeros-xhash", "new xhash 2 1", "acqW 1 f-0", "acqW 2 f0", "acqR 3 f1", "inside f0", "who", "entries"),
		mk("struct-key-xhash", "new xhash 2 2", "acqW 1 t1:a", "acqW 2 t1:a", "who", "entries"),
		// more than 4096 distinct keys live at once, then all released: the container must be empty again
		mk("burst-5000-single", "burst single 3 0 5000"),
		mk("burst-4500-one-shard", "burst wide 2 1 4500"),
		mk("burst-xhash", "burst xhash 1 73 6000"),
		// routing is a pure function of the key: other containers with other primes appear while keys are held …
		mk("other-containers-xhash", "new xhash 2 73", "acqW 1 sa", "acqW 2 sbx", "acqW 3 scxx", "acqR 4 i1000", "acqW 5 sd", "acqW 6 se", "acqW 7 i90880", "acqW 8 sf", "acqW 9 sg", "acqW 10 sh",
			"newmap xhash 2 13", "newmap wide 1 2", "who", "acqWx 11 sa", "acqWx 12 sbx", "acqWx 13 scxx", "acqWx 14 i1000", "acqWx 15 sd", "acqWx 16 se", "acqWx 17 i90880", "acqWx 18 sf", "acqWx 19 sg", "acqWx 20 sh",
			"who", "rel 1", "rel 2", "rel 3", "rel 4", "rel 5", "rel 6", "rel 7", "rel 8", "rel 9", "rel 10", "who", "entries"),
		mk("other-containers-wide-strings", "new wide 3 0", "acqW 1 sa", "acqW 2 sbb", "acqW 3 sccc", "acqW 4 sdddd", "acqW 5 se", "acqW 6 sf", "newmap xhash 1 7", "acqWx 7 sa", "acqWx 8 sbb", "acqWx 9 sccc", "acqWx 10 sdddd", "acqWx 11 se", "acqWx 12 sf",
			"who", "rel 1", "rel 2", "rel 3", "rel 4", "rel 5", "rel 6", "entries"),
		// … and lookup history: int keys 90880 / 73747 agree in the low 32 bits of their hash, 508 shares the low byte (73 and 211 shards)
		mk("lookup-history-73", "new xhash 4 0", "acqW 1 i73747", "rel 1", "acqW 2 i90880", "acqW 3 i508", "rel 3", "acqWx 4 i90880", "who", "inside i90880", "rel 2", "entries"),
		mk("lookup-history-211", "new xhash 2 211", "acqW 1 i90880", "rel 1", "acqW 2 i73747", "acqW 3 i508", "rel 3", "acqW 4 i73747", "who", "rel 2", "who", "rel 4", "entries"),
		mk("lookup-history-2", "new xhash 2 2", "acqW 1 i98658", "acqW 2 i122229", "acqW 3 i118", "rel 3", "acqWx 4 i122229", "acqWx 5 i98658", "who", "rel 1", "rel 2", "entries"),
		mk("parallel-stress", "stress single 3 0 16 2 250 1"),
		// sharded by xxhash, 8 short string keys of different lengths, three callers per key: every call hashes a string
		mk("parallel-stress-strings", "stress xhash 4 2 24 8 300 3"),
		mk("parallel-stress-wide", "stress xhash 1 2 12 3 250 2"),
		mk("drain", "new single 2 0", "acqR 1 i0", "acqR 2 i0", "acqW 3 i0", "rel 1", "rel 2", "rel 3", "entries", "state i0"),
	}
}

// ---------------------------------------------------------------- spec

func spec() corr.Spec {
	return corr.Spec{
		Property: "C01",
		Fixed:    fixedCases,
		Count: func(tier string) int {
			switch tier {
			case "quick":
				return 2400
			case "thorough":
				return 50000 + len(enumCases())
			default: // search
				return 20000
			}
		},
		Shards: func(tier string) int {
			if tier == "quick" {
				return 8
			}
			return 14
		},
		Gen: func(r *rng.R, tier string, i int) corr.Case {
			if tier == "thorough" && i < len(enumCases()) {
				return enumCases()[i]
			}
			stressEvery := 1200
			if tier != "quick" {
				stressEvery = 2500
			}
			if i%stressEvery == 7 {
				return genStress(r, tier)
			}
			if i%12 == 11 {
				return genMalformed(r)
			}
			if i%20 == 3 {
				return genLongQueue(r, tier)
			}
			if i%25 == 9 {
				return genRouteHistory(r, tier)
			}
			return genScript(r, tier)
		},
		Run: runCase,
		TOnly: func(line string) bool {
			return strings.HasPrefix(line, "state ") || strings.HasPrefix(line, "obj ")
		},
		NonTrivial: func(c corr.Case, r corr.Result) bool {
			// somebody had to wait, or a release/cancel admitted somebody
			for _, o := range r.Outs {
				if o == "parked" || (strings.Contains(o, "woke=[") && !strings.Contains(o, "woke=[]")) {
					return true
				}
			}
			return false
		},
		Classify: func(c corr.Case, line int, want, got string) string {
			f := strings.Fields(c.Lines[line])
			op := ""
			if len(f) > 0 {
				op = f[0]
			}
			return "C01:corr:" + op
		},
		Rule: "sequential class: scripts of acqR/acqW/acqRx/acqWx/rel/relx/cancel events (quiescence after each) over <= 12 (thorough <= 16; rwRatio+2 more for rwRatio >= 7) simultaneous callers, 1-4 keys of dynamic types int/int32/int64/uint8/string and - not routable by remap: `panic:unroutable` on sharded maps - struct/pointer (pointee poked under the lock)/float64 (0.0 and -0.0 one key) (incl. extreme values, the same number under four types), rwRatio in {1,2,3,4,7,10,64,default}, single/wide/xhash maps with prime in {1,2,3,73,default 211}; 5 generator classes (rw-mix, reader-heavy, writer-heavy, cancel-heavy, drain) + 1/20 long-queue (20-40, thorough 20-60 blocked callers behind a writer, late arrivals, cancels at head/middle/tail) + 1/12 malformed; route-history class (1/25): keys held on a sharded map while other containers with other primes are created (`newmap`) or keys colliding in the low 32 bits of the hash / evicting them are looked up, then the held keys are requested again; burst class: `burst` lines = 4500-6000 distinct keys held at once, probed with a second writer, all released, container must be empty; parallel class: `stress` lines = N goroutines x few keys for 0.2-1.5 s in a child process, no scheduling by the harness (callers' own section counters, termination, empty container, runtime fatal errors); thorough adds every maximal script <= 7 events over 3 callers x 2 keys (rw 2), <= 7 events over 4 callers (rw 3), <= 6 events incl. relx (rw 1, rw 2). A case is non-trivial when some caller had to wait or a release/cancel admitted a waiter; distinct = distinct script text",
		Assumptions: []string{
			"sync.Mutex makes each of the three critical sections (acquire up to Unlock, release, cancel fix-up) atomic; channels/select/context behave as documented",
			"caller discipline (hypothesis of every theorem, `KS.enabled` in the model; SemMap.release trusts key, w and n blindly): a caller releases only what it acquired, once, with the SAME key, the matching Release* (read/write) and the *Weighted it was given",
			"keys are valid Go map keys with reflexive equality (hashable, k == k): NaN keys (never found again, never deleted) and unhashable keys (s.m[key] panics with the mutex held) are outside the property's domain - Go map semantics; wide/xhash maps additionally need a key type remap can route (integers, strings, []byte, HitGroup/Bs)",
			"sequential scripts: an event runs until every goroutine is parked or finished (lib/sched quiescence), so a script is a path of the model's transition system; overlapping critical sections are exercised only by the `stress` lines (child process, callers' own counters), atomicity itself rests on sync.Mutex (declaration surface + whole-body facts pin that the sections are bracketed by it)",
			"progress is proved as safety only (no fitting waiter is ever parked; every waiter has a holder in front of it); fair scheduling by the Go runtime is assumed",
			"routing of the sharded variants is a function of the key with values inside the shard array (C17)",
			"rwRatio >= 1",
		},
		Trusted: []string{"modelled, not verified: sync.Mutex, container/list, channels and select, context cancellation, remap.SimpleIndex/XHashIndex (deterministic routing)",
			"verif hook syncx/semap/verif_hooks.go (VerifKeyState, VerifEntries) reads internal state under the map mutex"},
	}
}
