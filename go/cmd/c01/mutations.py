#!/usr/bin/env python3
"""Mutation catalogue used for the C01 self-test (docs/C01.md, "Mutations").

usage: mutations.py <name> <base-repo-copy> <dst>
  copies <base-repo-copy> (a scratch copy of /repo with fixes/C01-release-deletes-held-entry.diff applied)
  to <dst> and applies one edit; then run  NV_REPO=<dst> bin/check C01 quick.
  m*: breaking edits (each must end in VIOLATION with a concrete replay); n*: negative controls (must PASS).
"""
import sys, re, shutil, os, subprocess
name, base, dst = sys.argv[1], sys.argv[2], sys.argv[3]
if os.path.exists(dst): shutil.rmtree(dst)
subprocess.check_call(['rsync','-a','--exclude','.git',base+'/',dst+'/'])
def edit(rel, old, new, count=1):
    p = os.path.join(dst, rel); s = open(p).read()
    assert s.count(old) >= 1, (rel, old)
    s = s.replace(old, new, count); open(p,'w').write(s)
if name == 'm1-revert-f01':
    edit('syncx/semap/map.go', 'if empty && w.cur == 0 {', 'if empty {')
elif name == 'm2-barging-notify':
    edit('syncx/semap/semaphore.go', '''	for {
		next := s.waiters.Front()
		if next == nil {
			return true // No more waiters blocked.
		}

		w := next.Value.(waiter)
		if s.size-s.cur < w.n {''', '''	for next := s.waiters.Front(); next != nil; {
		w := next.Value.(waiter)
		if s.size-s.cur < w.n {
			next = next.Next()
			continue
		}
		if false {''')
    edit('syncx/semap/semaphore.go', '''		s.cur += w.n
		s.waiters.Remove(next)
		close(w.ready)
	}
	return false''', '''		s.cur += w.n
		rm := next
		next = next.Next()
		s.waiters.Remove(rm)
		close(w.ready)
	}
	return s.waiters.Len() == 0''')
elif name == 'm3-cancel-no-renotify':
    edit('syncx/semap/semaphore.go', '''			if isFront && s.size > s.cur {
				s.notifyWaiters()
			}''', '''			_ = isFront''')
elif name == 'm4-fastpath-ignores-queue':
    edit('syncx/semap/semaphore.go', 'if s.size-s.cur >= n && s.waiters.Len() == 0 {', 'if s.size-s.cur >= n {')
elif name == 'm5-releasewrite-weight-1':
    edit('syncx/semap/map.go', 's.release(key, w, s.rwRatio)', 's.release(key, w, 1)')
elif name == 'm6-wide-release-shard0':
    edit('syncx/semap/wmap.go', 's.calculateKey(key).ReleaseRead(key, w)', 's.ms[0].ReleaseRead(key, w)')
elif name == 'm7-pushfront':
    edit('syncx/semap/semaphore.go', 'elem := s.waiters.PushBack(w)', 'elem := s.waiters.PushFront(w)')
elif name == 'm8-cancel-ignores-ready':
    edit('syncx/semap/semaphore.go', '''		case <-ready:
			// Acquired the semaphore after we were canceled.  Rather than trying to
			// fix up the queue, just pretend we didn't notice the cancelation.
			err = nil
		default:''', '''		default:''')
elif name == 'm9-default-ratio-0':
    edit('syncx/semap/option.go', 'DefaultRWRatio = 10', 'DefaultRWRatio = 0')
elif name == 'a3-reader-barges-long-queue':   # audit E3: reader passes a queue longer than 20
    edit('syncx/semap/semaphore.go', '''	if n > s.size {
		// Don't make''', '''	if n == 1 && s.size-s.cur >= n && s.waiters.Len() > 20 {
		s.cur += n
		mu.Unlock()
		return nil
	}
	if n > s.size {
		// Don't make''')
elif name == 'a4-int32-key-rewritten':        # audit E4: int32 keys normalised in acquire only
    edit('syncx/semap/map.go', '''	var err error
	s.mux.Lock()''', '''	var err error
	if k32, ok := key.(int32); ok {
		key = int(k32)
	}
	s.mux.Lock()''')
elif name == 'a5-size-doubled-above-16':      # audit E5
    edit('syncx/semap/semaphore.go', '''	w := &Weighted{size: n}
''', '''	w := &Weighted{size: n}
	if n > 16 {
		w.size = 2 * n
	}
''')
elif name == 'a1-noop-lock':                  # audit E1: a lock type that does not lock
    edit('syncx/semap/map.go', 'mux     *sync.Mutex', 'mux     *spinLock')
    edit('syncx/semap/map.go', 'm.mux = &sync.Mutex{}', 'm.mux = &spinLock{}')
    open(os.path.join(dst, 'syncx/semap/map.go'), 'a').write('\ntype spinLock struct{}\n\nfunc (*spinLock) Lock()   {}\nfunc (*spinLock) Unlock() {}\n\nvar _ sync.Mutex\n')
    edit('syncx/semap/semaphore.go', 'mu *sync.Mutex', 'mu *spinLock')
    open(os.path.join(dst, 'syncx/semap/semaphore.go'), 'a').write('\nvar _ sync.Mutex\n')
elif name == 'h2-cas-spinlock':               # audit H2: a correct lock that never parks: must end as harness error (rc=2), not as a verdict
    edit('syncx/semap/map.go', 'mux     *sync.Mutex', 'mux     *spinLock')
    edit('syncx/semap/map.go', 'm.mux = &sync.Mutex{}', 'm.mux = &spinLock{}')
    open(os.path.join(dst, 'syncx/semap/map.go'), 'a').write('\ntype spinLock struct{ v int32 }\n\nfunc (l *spinLock) Lock() {\n\tfor !atomic.CompareAndSwapInt32(&l.v, 0, 1) {\n\t}\n}\nfunc (l *spinLock) Unlock() { atomic.StoreInt32(&l.v, 0) }\n\nvar _ sync.Mutex\n')
    edit('syncx/semap/map.go', '\t"sync"\n', '\t"sync"\n\t"sync/atomic"\n')
    edit('syncx/semap/semaphore.go', 'mu *sync.Mutex', 'mu *spinLock')
    open(os.path.join(dst, 'syncx/semap/semaphore.go'), 'a').write('\nvar _ sync.Mutex\n')
elif name == 'r-F1a-racy-xxhash':             # red team F1a: go.mod replace -> in-tree xxhash copy with a racy Sum64String
    src = subprocess.check_output(['go','env','GOMODCACHE'], text=True).strip() + '/github.com/cespare/xxhash/v2@v2.2.0'
    tp = os.path.join(dst, 'third_party/xxhash'); os.makedirs(tp, exist_ok=True)
    subprocess.check_call(['rsync','-a','--chmod=u+w','--exclude','dynamic','--exclude','xxhsum','--exclude','*_test.go',src+'/',tp+'/'])
    edit('third_party/xxhash/xxhash_unsafe.go', '''	b := *(*[]byte)(unsafe.Pointer(&sliceHeader{s, len(s)}))
	return Sum64(b)
}''', '''	strBuf = append(strBuf[:0], s...)
	return Sum64(strBuf)
}

var strBuf []byte''')
    open(os.path.join(dst,'go.mod'),'a').write('\nreplace github.com/cespare/xxhash/v2 => ./third_party/xxhash\n')
elif name == 'r-D-delete-noop-above-4096':    # red team D
    open(os.path.join(dst,'syncx/semap/wmap.go'),'a').write('\nfunc delete(m map[interface{}]*Weighted, key interface{}) {\n\tif len(m) > 4096 {\n\t\treturn\n\t}\n\tremap.Drop(m, key)\n}\n')
    open(os.path.join(dst,'remap/remap.go'),'a').write('\n// Drop deletes k from m.\nfunc Drop[V any](m map[interface{}]V, k interface{}) { delete(m, k) }\n')
elif name == 'r-A1-tobytes-sprintf':          # red team A1
    edit('remap/remap.go', 'panic(fmt.Sprintf("unsupported.type.for.slot:%+v", reflect.TypeOf(i)))', 'return []byte(fmt.Sprintf("%v:%v", reflect.TypeOf(i), i))')
elif name == 'r-A2-tobytes-floats':           # red team A2
    edit('remap/remap.go', '''	case string:
		return []byte(v)
	case []byte:''', '''	case float64:
		var buf [8]byte
		binary.LittleEndian.PutUint64(buf[:], math.Float64bits(v))
		return buf[:]
	case string:
		return []byte(v)
	case []byte:''')
elif name == 'r-H-hook-underreports':         # red team H
    open(os.path.join(dst,'syncx/semap/map.go'),'a').write('\nfunc delete(m map[interface{}]*Weighted, key interface{}) {}\n')
    edit('syncx/semap/verif_hooks.go', '''		return len(v.m)''', '''		n := 0
		for _, x := range v.m {
			if x.cur != 0 || x.waiters.Len() != 0 {
				n++
			}
		}
		return n''')
    edit('syncx/semap/verif_hooks.go', '''			n += len(s.m)''', '''			for _, x := range s.m {
				if x.cur != 0 || x.waiters.Len() != 0 {
					n++
				}
			}''')
    edit('syncx/semap/verif_hooks.go', '''	w, ok := s.m[key]
	if !ok {
		return 0, 0, false
	}''', '''	w, ok := s.m[key]
	if !ok || (w.cur == 0 && w.waiters.Len() == 0) {
		return 0, 0, false
	}''')
elif name == 'n3-rename-local':               # audit H1: harmless rename, must not alarm
    edit('syncx/semap/semaphore.go', 'next := s.waiters.Front()', 'head := s.waiters.Front()')
    edit('syncx/semap/semaphore.go', 'if next == nil {', 'if head == nil {')
    edit('syncx/semap/semaphore.go', 'w := next.Value.(waiter)', 'w := head.Value.(waiter)')
    edit('syncx/semap/semaphore.go', 's.waiters.Remove(next)', 's.waiters.Remove(head)')
elif name == 'n1-acquire-dedupe':   # negative control: same behaviour, branches merged
    edit('syncx/semap/map.go', '''	if ok {
		err = w.acquire(ctx, s.mux, n)
		if err != nil {
			return nil, err
		}
		return w, nil
	}
	w = newWeighted(s.rwRatio)
	s.m[key] = w
	err = w.acquire''', '''	if !ok {
		w = newWeighted(s.rwRatio)
		s.m[key] = w
	}
	err = w.acquire''')
elif name == 'n2-guard-reordered':  # negative control: same guard, operands swapped, no early return
    edit('syncx/semap/map.go', '''	if empty && w.cur == 0 {
		delete(s.m, key)
		return
	}''', '''	if w.cur == 0 && empty {
		delete(s.m, key)
	}''')
else:
    raise SystemExit('unknown ' + name)
print(dst)
