package main

import (
	"fmt"
	"os"
	"path/filepath"
	"regexp"
	"strings"

	"nvharness/lib/gofacts"
)

// Whole canonical bodies (see canonBody) the hand-written model was written against; a function may have several
// accepted texts (behaviour-preserving variants that were reviewed). Anything else — an inserted, removed or changed
// statement anywhere in a pinned function — makes fact `wholeBodies` false and breaks the tie. Refresh with
// `c01 canon <repo>` only after re-reading the model.
var expectedBodies = map[string][]string{
	".newWeighted":           {"{ _v0 := &Weighted{size: _p0} return _v0 }", "{ return &Weighted{size: _p0} }"},
	"Weighted.acquire":       {"{ if _r.size-_r.cur >= _p2 && _r.waiters.Len() == 0 { _r.cur += _p2 _p1.Unlock() return nil } if _p2 > _r.size { _p1.Unlock() <-_p0.Done() return _p0.Err() } _v0 := make(chan struct{}) _v1 := waiter{n: _p2, ready: _v0} _v2 := _r.waiters.PushBack(_v1) _p1.Unlock() select { case <-_p0.Done(): _v3 := _p0.Err() _p1.Lock() select { case <-_v0: _v3 = nil default: _v4 := _r.waiters.Front() == _v2 _r.waiters.Remove(_v2) if _v4 && _r.size > _r.cur { _r.notifyWaiters() } } _p1.Unlock() return _v3 case <-_v0: return nil } }"},
	"Weighted.release":       {"{ _r.cur -= _p0 if _r.cur < 0 { panic(\"semaphore: released more than held\") } return _r.notifyWaiters() }"},
	"Weighted.notifyWaiters": {"{ for { _v0 := _r.waiters.Front() if _v0 == nil { return true } _v1 := _v0.Value.(waiter) if _r.size-_r.cur < _v1.n { break } _r.cur += _v1.n _r.waiters.Remove(_v0) close(_v1.ready) } return false }"},
	".NewSemMap":             {"{ var _v0 = RangeOption(_p0...) return newSemMap(_v0.rwRatio) }"},
	".newSemMap":             {"{ var _v0 = &SemMap{} _v0.mux = &sync.Mutex{} _v0.m = make(map[interface{}]*Weighted) _v0.rwRatio = _p0 return _v0 }"},
	"SemMap.AcquireRead":     {"{ return _r.acquire(_p0, _p1, 1) }"},
	"SemMap.ReleaseRead":     {"{ _r.release(_p0, _p1, 1) }"},
	"SemMap.AcquireWrite":    {"{ return _r.acquire(_p0, _p1, _r.rwRatio) }"},
	"SemMap.ReleaseWrite":    {"{ _r.release(_p0, _p1, _r.rwRatio) }"},
	"SemMap.acquire": {
		"{ var _v0 error _r.mux.Lock() var _v1, _v2 = _r.m[_p1] if _v2 { _v0 = _v1.acquire(_p0, _r.mux, _p2) if _v0 != nil { return nil, _v0 } return _v1, nil } _v1 = newWeighted(_r.rwRatio) _r.m[_p1] = _v1 _v0 = _v1.acquire(_p0, _r.mux, _p2) if _v0 != nil { return nil, _v0 } return _v1, nil }",
		// the two branches merged (reviewed: same behaviour)
		"{ var _v0 error _r.mux.Lock() var _v1, _v2 = _r.m[_p1] if !_v2 { _v1 = newWeighted(_r.rwRatio) _r.m[_p1] = _v1 } _v0 = _v1.acquire(_p0, _r.mux, _p2) if _v0 != nil { return nil, _v0 } return _v1, nil }",
	},
	// SemMap.release: prefix + one of the guard forms below (see extract)
	".NewWideSemMap":          {"{ var _v0 = RangeOption(_p0...) return newWideSemMap(_v0.rwRatio, _v0.prime, false) }"},
	".NewWideXHashSemMap":     {"{ var _v0 = RangeOption(_p0...) return newWideSemMap(_v0.rwRatio, _v0.prime, true) }"},
	".newWideSemMap":          {"{ var _v0 = &WideSemMap{} if _p1 > 0 { _v0.rehash = remap.NewReMap(remap.WithPrime(_p1)) } else { _v0.rehash = remap.NewReMap() } var _v1 = _v0.rehash.Numbs() _v0.ms = make([]*SemMap, _v1) for _v2 := uint64(0); _v2 < _v1; _v2++ { _v0.ms[_v2] = newSemMap(_p0) } if _p2 { _v0.calKeyFn = _v0.rehash.XHashIndex } else { _v0.calKeyFn = _v0.rehash.SimpleIndex } return _v0 }"},
	"WideSemMap.AcquireRead":  {"{ return _r.calculateKey(_p1).AcquireRead(_p0, _p1) }"},
	"WideSemMap.ReleaseRead":  {"{ _r.calculateKey(_p0).ReleaseRead(_p0, _p1) }"},
	"WideSemMap.AcquireWrite": {"{ return _r.calculateKey(_p1).AcquireWrite(_p0, _p1) }"},
	"WideSemMap.ReleaseWrite": {"{ _r.calculateKey(_p0).ReleaseWrite(_p0, _p1) }"},
	"WideSemMap.calculateKey": {"{ var _v0 = _r.calKeyFn(_p0) return _r.ms[_v0] }"},
	".RangeOption":            {"{ var _v0 = &_Option{ rwRatio: DefaultRWRatio, } for _, _v1 := range _p0 { _v1(_v0) } return _v0 }"},
	".WithRwRatio":            {"{ return func(_v0 *_Option) { _v0.rwRatio = _p0 } }"},
	".WithPrime":              {"{ return func(_v0 *_Option) { _v0.prime = _p0 } }"},
}

const releasePrefix = "{ _r.mux.Lock() defer _r.mux.Unlock() var _v0 = _p1.release(_p2) "

// guard forms of SemMap.release (canonical text after releasePrefix) -> Cfg.guard.
// `_p1.cur <= 0` counts as emptyAndIdle only together with fact releaseSubtracts: Weighted.release panics below 0,
// so `cur <= 0` and `cur == 0` are the same test.
var releaseGuards = map[string]string{
	"if _v0 { delete(_r.m, _p0) return } }":                 "emptyOnly",
	"if _v0 { delete(_r.m, _p0) } }":                        "emptyOnly",
	"if _v0 && _p1.cur == 0 { delete(_r.m, _p0) return } }": "emptyAndIdle",
	"if _v0 && _p1.cur == 0 { delete(_r.m, _p0) } }":        "emptyAndIdle",
	"if _p1.cur == 0 && _v0 { delete(_r.m, _p0) return } }": "emptyAndIdle",
	"if _p1.cur == 0 && _v0 { delete(_r.m, _p0) } }":        "emptyAndIdle",
	"if _v0 && _p1.cur <= 0 { delete(_r.m, _p0) return } }": "emptyAndIdle",
	"if _v0 && _p1.cur <= 0 { delete(_r.m, _p0) } }":        "emptyAndIdle",
}

func oneOf(s string, alts []string) bool {
	for _, a := range alts {
		if s == a {
			return true
		}
	}
	return false
}

// extract regenerates lean/Nv/Gen/C01.lean: the delete guard of SemMap.release (a model parameter), the default
// ratio, and the shape facts the hand-written model relies on. Everything is decided on the canonical text of the
// current declarations (comments dropped, white space collapsed, local names canonical); what cannot be classified is
// `unknown` / false / 0, never guessed.
func extract(repo, leanDir string) {
	files := map[string]*gofacts.File{}
	canon := map[string]string{}
	for _, p := range pinned {
		if files[p.file] == nil {
			files[p.file] = gofacts.MustLoad(repo, p.file)
		}
		canon[p.recv+"."+p.name] = canonOf(files[p.file], p.recv, p.name)
	}
	is := func(name string) bool { return oneOf(canon[name], expectedBodies[name]) }

	// ---- whole bodies: every pinned function is one of its accepted texts
	var deviating []string
	for _, p := range pinned {
		name := p.recv + "." + p.name
		if name == "SemMap.release" {
			continue
		}
		if !is(name) {
			deviating = append(deviating, name)
		}
	}
	mrel := canon["SemMap.release"]
	guard := "unknown"
	relLocked := strings.HasPrefix(mrel, releasePrefix)
	if relLocked {
		if g, ok := releaseGuards[strings.TrimPrefix(mrel, releasePrefix)]; ok {
			guard = g
		} else {
			deviating = append(deviating, "SemMap.release")
		}
	} else {
		deviating = append(deviating, "SemMap.release")
	}
	whole := len(deviating) == 0

	// ---- the individual facts: fragments of the canonical text, so that a deviation is named where possible
	macq, wacq := canon["SemMap.acquire"], canon["Weighted.acquire"]
	acquireLocksFirst := gofacts.Before(macq, "_r.mux.Lock()", "_r.m[_p1]") && !gofacts.Has(macq, "Unlock") &&
		strings.Count(macq, "_r.mux.Lock()") == 1 && !gofacts.Has(macq, "go ")
	createsUnderLock := is("SemMap.acquire") && is(".newWeighted") && is(".newSemMap")
	fast := strings.HasPrefix(wacq, "{ if _r.size-_r.cur >= _p2 && _r.waiters.Len() == 0 { _r.cur += _p2 _p1.Unlock() return nil } if _p2 > _r.size {")
	doomed := gofacts.Before(wacq, "if _p2 > _r.size { _p1.Unlock() <-_p0.Done() return _p0.Err() } _v0 := make(chan struct{})", "_r.waiters.PushBack(")
	enqueue := gofacts.Has(wacq, "_v0 := make(chan struct{}) _v1 := waiter{n: _p2, ready: _v0} _v2 := _r.waiters.PushBack(_v1) _p1.Unlock() select {") &&
		!gofacts.Has(wacq, "PushFront")
	cancelRelocks := gofacts.Has(wacq, "case <-_p0.Done(): _v3 := _p0.Err() _p1.Lock() select {") &&
		strings.HasSuffix(wacq, "} _p1.Unlock() return _v3 case <-_v0: return nil } }")
	prefersReady := gofacts.Has(wacq, "_p1.Lock() select { case <-_v0: _v3 = nil default:")
	renotify := gofacts.Has(wacq, "default: _v4 := _r.waiters.Front() == _v2 _r.waiters.Remove(_v2) if _v4 && _r.size > _r.cur { _r.notifyWaiters() } } _p1.Unlock()")
	relSub := is("Weighted.release")
	headOnly := is("Weighted.notifyWaiters")
	readOne := is("SemMap.AcquireRead") && is("SemMap.ReleaseRead")
	writeRatio := is("SemMap.AcquireWrite") && is("SemMap.ReleaseWrite")
	wide := is("WideSemMap.calculateKey") && is("WideSemMap.AcquireRead") && is("WideSemMap.ReleaseRead") &&
		is("WideSemMap.AcquireWrite") && is("WideSemMap.ReleaseWrite") && is(".newWideSemMap")

	// ---- the default ratio (NewSemMap() without WithRwRatio): a literal constant used as RangeOption's initial value
	defRatio := 0
	opt := files["syncx/semap/option.go"]
	optSrc := opt.Src(opt.AST)
	if m := regexp.MustCompile(`const \( DefaultRWRatio = (\d{1,6}) \)|const DefaultRWRatio = (\d{1,6})\b`).FindStringSubmatch(optSrc); m != nil &&
		is(".RangeOption") && is(".WithRwRatio") && is(".NewSemMap") && is(".NewWideSemMap") && is(".NewWideXHashSemMap") {
		fmt.Sscanf(m[1]+m[2], "%d", &defRatio)
	}

	facts := []bool{acquireLocksFirst, createsUnderLock, fast, doomed, enqueue, cancelRelocks, prefersReady, renotify,
		relSub, headOnly, relLocked, readOne, writeRatio, wide, whole}
	names := []string{"acquireLocksFirst", "createsUnderLock", "fastPathNeedsNoWaiters", "doomedBranch", "enqueueBack",
		"cancelRelocks", "cancelPrefersReady", "cancelRenotifies", "releaseSubtracts", "notifyHeadOnly", "releaseLocked",
		"readWeightOne", "writeWeightRatio", "wideRoutesByKey", "wholeBodies"}
	var fs, off []string
	for i, b := range facts {
		fs = append(fs, gofacts.LeanBool(b))
		if !b {
			off = append(off, names[i])
		}
	}
	out := fmt.Sprintf(`import Nv.Model.C01
set_option linter.unusedVariables false
/-! GENERATED by `+"`c01 extract`"+` from syncx/semap/{semaphore,map,wmap,option}.go — do not edit. -/
namespace Nv.Gen.C01
def cfg : Nv.C01.Cfg := ⟨.%s⟩
def facts : Nv.C01.Facts := ⟨%s⟩
/-- DefaultRWRatio (0 = not found / not a literal) -/
def defaultRatio : Nat := %d
end Nv.Gen.C01
`, guard, strings.Join(fs, ", "), defRatio)
	if err := gofacts.WriteIfChanged(filepath.Join(leanDir, "Nv/Gen/C01.lean"), out); err != nil {
		fmt.Fprintln(os.Stderr, err)
		os.Exit(2)
	}
	fmt.Printf("extract C01: guard=%s defaultRatio=%d facts-not-as-expected=%v bodies-not-as-expected=%v\n", guard, defRatio, off, deviating)
}
