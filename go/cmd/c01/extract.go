package main

import (
	"fmt"
	"os"
	"path/filepath"
	"regexp"
	"strings"

	"nvharness/lib/gofacts"
)

// guard forms of SemMap.release (canonical text after releasePrefix) -> Cfg.guard.
// `w.cur <= 0` counts as emptyAndIdle only together with fact releaseSubtracts: Weighted.release panics below 0,
// so `cur <= 0` and `cur == 0` are the same test.
var releaseGuards = map[string]string{
	"if v5 { delete ( v1 . m , v2 ) ; return ; } ; } ;":                  "emptyOnly",
	"if v5 { delete ( v1 . m , v2 ) ; } ; } ;":                           "emptyOnly",
	"if v5 && v3 . cur == 0 { delete ( v1 . m , v2 ) ; return ; } ; } ;": "emptyAndIdle",
	"if v5 && v3 . cur == 0 { delete ( v1 . m , v2 ) ; } ; } ;":          "emptyAndIdle",
	"if v3 . cur == 0 && v5 { delete ( v1 . m , v2 ) ; return ; } ; } ;": "emptyAndIdle",
	"if v3 . cur == 0 && v5 { delete ( v1 . m , v2 ) ; } ; } ;":          "emptyAndIdle",
	"if v5 && v3 . cur <= 0 { delete ( v1 . m , v2 ) ; return ; } ; } ;": "emptyAndIdle",
	"if v5 && v3 . cur <= 0 { delete ( v1 . m , v2 ) ; } ; } ;":          "emptyAndIdle",
}

func oneOf(s string, alts []string) bool {
	for _, a := range alts {
		if s == a {
			return true
		}
	}
	return false
}

// extract regenerates lean/Nv/Gen/C01.lean: the delete guard of SemMap.release (a model parameter), the default
// ratio, and the shape facts the hand-written model relies on. Everything is decided on the canonical text of the
// current declarations (comments dropped, white space collapsed, local names canonical); what cannot be classified is
// `unknown` / false / 0, never guessed.
func extract(repo, leanDir string) {
	files := map[string]*gofacts.File{}
	canon := map[string]string{}
	for _, p := range pinned {
		if files[p.file] == nil {
			files[p.file] = gofacts.MustLoad(repo, p.file)
		}
		canon[p.recv+"."+p.name] = canonOf(files[p.file], p.recv, p.name)
	}
	is := func(name string) bool { return oneOf(canon[name], expectedBodies[name]) }

	// ---- whole bodies: every pinned function is one of its accepted texts
	var deviating []string
	for _, p := range pinned {
		name := p.recv + "." + p.name
		if name == "SemMap.release" {
			continue
		}
		if !is(name) {
			deviating = append(deviating, name)
		}
	}
	mrel := canon["SemMap.release"]
	guard := "unknown"
	relLocked := strings.HasPrefix(mrel, releasePrefix)
	if relLocked {
		if g, ok := releaseGuards[strings.TrimPrefix(mrel, releasePrefix)]; ok {
			guard = g
		} else {
			deviating = append(deviating, "SemMap.release")
		}
	} else {
		deviating = append(deviating, "SemMap.release")
	}
	whole := len(deviating) == 0

	// ---- the individual facts: fragments of the canonical text, so that a deviation is named where possible
	macq, wacq := canon["SemMap.acquire"], canon["Weighted.acquire"]
	acquireLocksFirst := gofacts.Before(macq, "v1 . mux . Lock ( ) ;", "v1 . m [ v3 ]") && !gofacts.Has(macq, "Unlock") &&
		strings.Count(macq, "v1 . mux . Lock ( )") == 1 && !gofacts.Has(macq, " go ")
	createsUnderLock := is("SemMap.acquire") && is(".newWeighted") && is(".newSemMap")
	fast := gofacts.Has(wacq, ") error { if v1 . size - v1 . cur >= v4 && v1 . waiters . Len ( ) == 0 { v1 . cur += v4 ; v3 . Unlock ( ) ; return nil ; } ; if v4 > v1 . size {")
	doomed := gofacts.Before(wacq, "if v4 > v1 . size { v3 . Unlock ( ) ; <- v2 . Done ( ) ; return v2 . Err ( ) ; } ; v5 := make ( chan struct { } ) ;", "v1 . waiters . PushBack (")
	enqueue := gofacts.Has(wacq, "v5 := make ( chan struct { } ) ; v6 := waiter { v4 : v4 , v5 : v5 } ; v7 := v1 . waiters . PushBack ( v6 ) ; v3 . Unlock ( ) ; select {") &&
		!gofacts.Has(wacq, "PushFront")
	cancelRelocks := gofacts.Has(wacq, "case <- v2 . Done ( ) : v8 := v2 . Err ( ) ; v3 . Lock ( ) ; select {") &&
		strings.HasSuffix(wacq, "} ; v3 . Unlock ( ) ; return v8 ; case <- v5 : return nil ; } ; } ;")
	prefersReady := gofacts.Has(wacq, "v3 . Lock ( ) ; select { case <- v5 : v8 = nil ; default :")
	renotify := gofacts.Has(wacq, "default : v9 := v1 . waiters . Front ( ) == v7 ; v1 . waiters . Remove ( v7 ) ; if v9 && v1 . size > v1 . cur { v1 . notifyWaiters ( ) ; } ; } ; v3 . Unlock ( ) ;")
	relSub := is("Weighted.release")
	headOnly := is("Weighted.notifyWaiters")
	readOne := is("SemMap.AcquireRead") && is("SemMap.ReleaseRead")
	writeRatio := is("SemMap.AcquireWrite") && is("SemMap.ReleaseWrite")
	wide := is("WideSemMap.calculateKey") && is("WideSemMap.AcquireRead") && is("WideSemMap.ReleaseRead") &&
		is("WideSemMap.AcquireWrite") && is("WideSemMap.ReleaseWrite") && is(".newWideSemMap")

	// ---- the default ratio (NewSemMap() without WithRwRatio): a literal constant used as RangeOption's initial value
	defRatio := 0
	opt := files["syncx/semap/option.go"]
	optSrc := opt.Src(opt.AST)
	if m := regexp.MustCompile(`const \( DefaultRWRatio = (\d{1,6}) \)|const DefaultRWRatio = (\d{1,6})\b`).FindStringSubmatch(optSrc); m != nil &&
		is(".RangeOption") && is(".WithRwRatio") && is(".NewSemMap") && is(".NewWideSemMap") && is(".NewWideXHashSemMap") {
		fmt.Sscanf(m[1]+m[2], "%d", &defRatio)
	}

	facts := []bool{acquireLocksFirst, createsUnderLock, fast, doomed, enqueue, cancelRelocks, prefersReady, renotify,
		relSub, headOnly, relLocked, readOne, writeRatio, wide, whole}
	names := []string{"acquireLocksFirst", "createsUnderLock", "fastPathNeedsNoWaiters", "doomedBranch", "enqueueBack",
		"cancelRelocks", "cancelPrefersReady", "cancelRenotifies", "releaseSubtracts", "notifyHeadOnly", "releaseLocked",
		"readWeightOne", "writeWeightRatio", "wideRoutesByKey", "wholeBodies"}
	var fs, off []string
	for i, b := range facts {
		fs = append(fs, gofacts.LeanBool(b))
		if !b {
			off = append(off, names[i])
		}
	}
	out := fmt.Sprintf(`import Nv.Model.C01
set_option linter.unusedVariables false
/-! GENERATED by `+"`c01 extract`"+` from syncx/semap/{semaphore,map,wmap,option}.go — do not edit. -/
namespace Nv.Gen.C01
def cfg : Nv.C01.Cfg := ⟨.%s⟩
def facts : Nv.C01.Facts := ⟨%s⟩
/-- DefaultRWRatio (0 = not found / not a literal) -/
def defaultRatio : Nat := %d
end Nv.Gen.C01
`, guard, strings.Join(fs, ", "), defRatio)
	if err := gofacts.WriteIfChanged(filepath.Join(leanDir, "Nv/Gen/C01.lean"), out); err != nil {
		fmt.Fprintln(os.Stderr, err)
		os.Exit(2)
	}
	fmt.Printf("extract C01: guard=%s defaultRatio=%d facts-not-as-expected=%v bodies-not-as-expected=%v\n", guard, defRatio, off, deviating)
}
