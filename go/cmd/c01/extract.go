package main

import (
	"fmt"
	"os"
	"path/filepath"
	"regexp"
	"strings"

	"nvharness/lib/gofacts"
)

// extract regenerates lean/Nv/Gen/C01.lean: the delete guard of SemMap.release (a model parameter) and the shape
// facts the hand-written model relies on. Everything is decided on the normalised source text of the current
// declarations (comments dropped, white space collapsed); what cannot be classified is `unknown` / false.
func extract(repo, leanDir string) {
	sem := gofacts.MustLoad(repo, "syncx/semap/semaphore.go")
	mp := gofacts.MustLoad(repo, "syncx/semap/map.go")
	wm := gofacts.MustLoad(repo, "syncx/semap/wmap.go")

	wacq := sem.Body("Weighted", "acquire")
	wrel := sem.Body("Weighted", "release")
	wnot := sem.Body("Weighted", "notifyWaiters")
	macq := mp.Body("SemMap", "acquire")
	mrel := mp.Body("SemMap", "release")

	// ---- SemMap.acquire: lock first, lookup-or-create under the lock, no unlock here (handed to Weighted.acquire)
	acquireLocksFirst := gofacts.Before(macq, "s.mux.Lock()", "s.m[key]") && !gofacts.Has(macq, "Unlock") &&
		strings.Count(macq, "s.mux.Lock()") == 1 && !gofacts.Has(macq, "go ")
	createsUnderLock := (gofacts.Has(macq, "w = newWeighted(s.rwRatio) s.m[key] = w err = w.acquire(ctx, s.mux, n)") ||
		gofacts.Has(macq, "if !ok { w = newWeighted(s.rwRatio) s.m[key] = w } err = w.acquire(ctx, s.mux, n)")) &&
		gofacts.Has(sem.Body("", "newWeighted"), "&Weighted{size: n}") &&
		gofacts.Has(mp.Body("", "newSemMap"), "m.rwRatio = rwRatio")

	// ---- Weighted.acquire
	fast := strings.HasPrefix(wacq, "{ if s.size-s.cur >= n && s.waiters.Len() == 0 { s.cur += n mu.Unlock() return nil }")
	doomed := gofacts.Before(wacq, "if n > s.size { mu.Unlock() <-ctx.Done() return ctx.Err() }", "s.waiters.PushBack(")
	enqueue := gofacts.Has(wacq, "ready := make(chan struct{}) w := waiter{n: n, ready: ready} elem := s.waiters.PushBack(w) mu.Unlock() select {") &&
		!gofacts.Has(wacq, "PushFront")
	cancelRelocks := gofacts.Has(wacq, "case <-ctx.Done(): err := ctx.Err() mu.Lock() select {") &&
		gofacts.Has(wacq, "} mu.Unlock() return err case <-ready: return nil } }")
	prefersReady := gofacts.Has(wacq, "mu.Lock() select { case <-ready: err = nil default:")
	renotify := gofacts.Has(wacq, "default: isFront := s.waiters.Front() == elem s.waiters.Remove(elem) if isFront && s.size > s.cur { s.notifyWaiters() } } mu.Unlock()")

	// ---- Weighted.release / notifyWaiters
	relSub := wrel == `{ s.cur -= n if s.cur < 0 { panic("semaphore: released more than held") } return s.notifyWaiters() }`
	headOnly := wnot == "{ for { next := s.waiters.Front() if next == nil { return true } w := next.Value.(waiter) if s.size-s.cur < w.n { break } s.cur += w.n s.waiters.Remove(next) close(w.ready) } return false }"

	// ---- SemMap.release: covered by the mutex; the delete guard
	relLocked := strings.HasPrefix(mrel, "{ s.mux.Lock() defer s.mux.Unlock() var empty = w.release(n) ") &&
		strings.Count(mrel, "w.release(") == 1
	guard := "unknown"
	rest := strings.TrimSpace(gofacts.After(mrel, "var empty = w.release(n)"))
	del := "{ delete(s.m, key) return } }"
	del2 := "{ delete(s.m, key) } }"
	switch {
	case rest == "if empty "+del || rest == "if empty "+del2:
		guard = "emptyOnly"
	case rest == "if empty && w.cur == 0 "+del || rest == "if empty && w.cur == 0 "+del2 ||
		rest == "if w.cur == 0 && empty "+del || rest == "if w.cur == 0 && empty "+del2 ||
		rest == "if empty && w.cur <= 0 "+del || rest == "if empty && w.cur <= 0 "+del2:
		guard = "emptyAndIdle"
	}

	// ---- weights
	readOne := mp.Body("SemMap", "AcquireRead") == "{ return s.acquire(ctx, key, 1) }" &&
		mp.Body("SemMap", "ReleaseRead") == "{ s.release(key, w, 1) }"
	writeRatio := mp.Body("SemMap", "AcquireWrite") == "{ return s.acquire(ctx, key, s.rwRatio) }" &&
		mp.Body("SemMap", "ReleaseWrite") == "{ s.release(key, w, s.rwRatio) }"

	// ---- sharded variants: every method goes through calculateKey(key) with the same key
	wide := wm.Body("WideSemMap", "calculateKey") == "{ var i = s.calKeyFn(key) return s.ms[i] }" &&
		wm.Body("WideSemMap", "AcquireRead") == "{ return s.calculateKey(key).AcquireRead(ctx, key) }" &&
		wm.Body("WideSemMap", "ReleaseRead") == "{ s.calculateKey(key).ReleaseRead(key, w) }" &&
		wm.Body("WideSemMap", "AcquireWrite") == "{ return s.calculateKey(key).AcquireWrite(ctx, key) }" &&
		wm.Body("WideSemMap", "ReleaseWrite") == "{ s.calculateKey(key).ReleaseWrite(key, w) }" &&
		gofacts.Has(wm.Body("", "newWideSemMap"), "for i := uint64(0); i < numbs; i++ { w.ms[i] = newSemMap(rwRatio) }") &&
		gofacts.Has(wm.Body("", "newWideSemMap"), "if useXHash { w.calKeyFn = w.rehash.XHashIndex } else { w.calKeyFn = w.rehash.SimpleIndex }")

	// ---- the default ratio (NewSemMap() without WithRwRatio): a literal constant used as RangeOption's initial value
	defRatio := 0
	opt := gofacts.MustLoad(repo, "syncx/semap/option.go")
	optSrc := opt.Src(opt.AST)
	if m := regexp.MustCompile(`const \( DefaultRWRatio = (\d{1,6}) \)|const DefaultRWRatio = (\d{1,6})\b`).FindStringSubmatch(optSrc); m != nil &&
		gofacts.Has(opt.Body("", "RangeOption"), "var o = &_Option{ rwRatio: DefaultRWRatio, }") &&
		gofacts.Has(mp.Body("", "NewSemMap"), "var o = RangeOption(opts...) return newSemMap(o.rwRatio)") &&
		gofacts.Has(wm.Body("", "NewWideSemMap"), "var o = RangeOption(opts...) return newWideSemMap(o.rwRatio, o.prime, false)") &&
		gofacts.Has(wm.Body("", "NewWideXHashSemMap"), "var o = RangeOption(opts...) return newWideSemMap(o.rwRatio, o.prime, true)") {
		fmt.Sscanf(m[1]+m[2], "%d", &defRatio)
	}

	facts := []bool{acquireLocksFirst, createsUnderLock, fast, doomed, enqueue, cancelRelocks, prefersReady, renotify,
		relSub, headOnly, relLocked, readOne, writeRatio, wide}
	names := []string{"acquireLocksFirst", "createsUnderLock", "fastPathNeedsNoWaiters", "doomedBranch", "enqueueBack",
		"cancelRelocks", "cancelPrefersReady", "cancelRenotifies", "releaseSubtracts", "notifyHeadOnly", "releaseLocked",
		"readWeightOne", "writeWeightRatio", "wideRoutesByKey"}
	var fs, off []string
	for i, b := range facts {
		fs = append(fs, gofacts.LeanBool(b))
		if !b {
			off = append(off, names[i])
		}
	}
	out := fmt.Sprintf(`import Nv.Model.C01
set_option linter.unusedVariables false
/-! GENERATED by `+"`c01 extract`"+` from syncx/semap/{semaphore,map,wmap,option}.go — do not edit. -/
namespace Nv.Gen.C01
def cfg : Nv.C01.Cfg := ⟨.%s⟩
def facts : Nv.C01.Facts := ⟨%s⟩
/-- DefaultRWRatio (0 = not found / not a literal) -/
def defaultRatio : Nat := %d
end Nv.Gen.C01
`, guard, strings.Join(fs, ", "), defRatio)
	if err := gofacts.WriteIfChanged(filepath.Join(leanDir, "Nv/Gen/C01.lean"), out); err != nil {
		fmt.Fprintln(os.Stderr, err)
		os.Exit(2)
	}
	fmt.Printf("extract C01: guard=%s defaultRatio=%d facts-not-as-expected=%v\n", guard, defRatio, off)
}
