package main

import (
	"fmt"
	"go/ast"
	"go/parser"
	"go/token"
	"math"
	"os"
	"path/filepath"
	"reflect"
	"runtime"
	"sort"
	"strconv"
	"strings"
	"sync"

	"github.com/pinealctx/neptune/cache"
	"github.com/pinealctx/neptune/remap"

	"nvharness/lib/corr"
	"nvharness/lib/rng"
)

func fixedCases() []corr.Case {
	mk := func(tag string, lines ...string) corr.Case { return corr.Case{Tag: tag, Lines: lines} }
	var out []corr.Case
	for _, kd := range []string{"lru", "tiny"} {
		out = append(out,
			// DESIGN 2.3 example; oversize item empties the cache including itself
			mk("fixed-oversize", "new "+kd+" 5", "set 0 1 2", "set 2 2 7", "keys", "stats", "sgr 1 3 9", "items"),
			// exact fit: no eviction at size == capacity, one more evicts exactly the coldest
			mk("fixed-exact-fit", "new "+kd+" 3", "set 0 1 1", "set 1 2 1", "set 2 3 1", "stats", "set 3 4 1", "keys", "get 1", "set 4 5 1", "keys"),
			// recency: Get/Set/SetIfAbsent refresh, Peek/Exist do not
			mk("fixed-recency", "new "+kd+" 3", "set 0 1 1", "set 1 2 1", "set 2 3 1", "peek 0", "exist 0", "set 3 4 1", "keys", "get 1", "set 4 5 1", "keys",
				"sia 2 9 1", "set 5 6 1", "keys", "sia 2 9 1", "keys", "items"),
			// SetCapacity shrinking by several entries, then growing again
			mk("fixed-shrink", "new "+kd+" 10", "set 0 1 2", "set 1 2 2", "set 2 3 2", "set 3 4 2", "set 4 5 2", "cap 3", "stats", "cap 0", "stats", "cap 7", "set 5 6 3", "items"),
			// in-place growth that triggers eviction, also through SetAndGetRemoved (tiny returns nil on update)
			mk("fixed-growth", "new "+kd+" 6", "set 0 1 2", "set 1 2 2", "set 2 3 2", "set 0 4 5", "items", "sgr 0 5 6", "sgr 0 6 7", "stats", "set 1 7 1", "sgr 2 8 1", "sgr 2 9 6", "sgr 3 10 1", "items"),
			// capacity 0, size-0 items
			mk("fixed-cap0", "new "+kd+" 0", "set 0 1 0", "set 1 2 0", "stats", "sgr 2 3 1", "keys", "del 0", "del 0", "clear", "stats", "get 1"),
			// delete / clear keep the eviction counter and the capacity
			mk("fixed-delete-clear", "new "+kd+" 4", "set 0 1 3", "set 1 2 3", "stats", "del 1", "del 1", "stats", "set 2 3 1", "clear", "stats", "set 3 4 4", "set 4 5 1", "stats"),
			// wide: two shards, per-shard capacity 4/2+1 = 3
			mk("fixed-wide", "wnew "+kd+" 4 2 8 mod", "set 0 1 1", "set 2 2 1", "set 4 3 1", "set 6 4 1", "set 1 5 3", "set 3 6 1", "get 2", "peek 0", "exist 1", "del 3", "del 3", "set 0 7 4"),
		)
	}
	// capacity MaxInt64 on a single shard: capacity/shards + 1 wraps to MinInt64
	out = append(out,
		mk("fixed-wide-maxcap", "wnew lru 9223372036854775807 1 8 mod", "set 0 1 1", "get 0"),
		mk("fixed-wide-maxcap", "wnew tiny 9223372036854775807 1 8 mod", "set 0 1 1", "get 0"),
		mk("fixed-wide-maxcap", "wnew lru 9223372036854775807 2 8 mod", "set 0 1 1", "get 0"),
		mk("fixed-wide-maxcap", "wnew lru 9223372036854775806 1 8 mod", "set 0 1 1", "get 0"))
	// the int64 size counter wraps inside the property's quantifier (sizes >= 0): MaxInt64 capacity, MaxInt64 item, one more
	out = append(out,
		mk("fixed-size-overflow", "new lru 9223372036854775807", "set 0 1 9223372036854775807", "stats", "set 1 2 1", "stats", "keys"),
		mk("fixed-size-overflow", "new lru 9223372036854775807", "set 0 1 9223372036854775806", "set 1 2 1", "stats", "set 2 3 0", "get 0"),
		// large capacities (nothing may clamp them), nil key, nil value (tiny), every key type
		mk("fixed-bigcap", "new lru 1048576", "cap 1048577", "stats", "cap 2097153", "set 0 1 2097152", "set 1 2 2", "stats", "cap 1099511627776", "set 2 3 1099511627775", "stats", "cap 9223372036854775807", "set 3 4 5", "stats", "cap 4611686018427387903", "stats"),
		mk("fixed-nil", "new lru 3", "set 4242 1 1", "exist 4242", "get 4242", "peek 4242", "set 0 2 1", "set 1 3 1", "set 2 4 1", "exist 4242", "sia 4242 5 1", "del 4242", "del 4242", "keys"),
		mk("fixed-nil", "new tiny 3", "set 4242 0 1", "exist 4242", "get 4242", "set 1 0 1", "get 1", "peek 1", "sgr 2 0 1", "sia 3 0 1", "items", "set 4 0 1", "del 4242", "keys", "set 1 7 1", "get 1"),
		mk("fixed-keytypes", "new lru 12", "set 0 1 1", "set 1 2 1", "set 2 3 1", "set 3 4 1", "set 4 5 1", "set 5 6 1", "set 70000 7 1", "get 3", "peek 4", "exist 5", "del 1", "del 70000", "keys", "items", "stats"),
	)
	// a store that fails while sizing its value (Size() panics / nil value) must leave the cache untouched
	out = append(out,
		mk("fixed-failed-set", "new lru 5", "set 0 1 1", "set 1 2 p", "keys", "exist 1", "get 1", "sgr 2 3 p", "sia 3 4 p", "stats", "sia 0 9 p", "keys", "set 0 5 p", "items",
			"set 4 0 1", "sgr 4 0 1", "sia 4 0 1", "sia 0 0 1", "stats", "set 4 6 2", "set 5 7 2", "set 6 8 2", "keys", "stats"),
		mk("fixed-failed-set", "new tiny 3", "set 0 1 p", "new lru 0", "set 0 1 p", "stats", "wnew lru 4 2 8 mod", "set 0 1 p"))
	for _, kd := range []string{"lru", "tiny"} {
		out = append(out, mk("fixed-default-after-configured", "wnew "+kd+" 5 2 8 mod", "set 0 1 1", "wnew "+kd+" 5 73 12 dmod", "set 0 1 1", "set 2 2 1", "set 4 3 1", "set 6 4 1", "set 8 5 1", "set 10 6 1", "get 0", "exist 2", "wnew "+kd+" 5 72 12 dmod"))
	}
	// out-of-regime streams: the model follows the code also for negative sizes (size accounting drifts, Back() of an empty list)
	out = append(out,
		mk("fixed-negative", "new lru 1", "set 0 1 -5", "set 1 2 6", "stats", "del 0", "stats", "set 2 3 0", "stats"),
		mk("fixed-negative", "new lru -1", "stats", "set 0 1 1", "stats", "get 0"),
		mk("fixed-negative", "new tiny -1", "set 0 1 1", "stats", "cap -3", "stats"),
		mk("fixed-malformed", "new lru 3", "set 0 1", "set a 1 1", "frob", "", "get", "cap x", "set 0 1 1 1", "new lru", "new heap 3", "set 0 1 1", "get 0"),
		mk("fixed-malformed", "reset", "get 0", "set 0 1 1", "reset 1", "wnew lru 4 0 8 mod", "wnew lru 4 2 8 tab 0,1", "wnew lru 4 2 2 tab 0,2", "wnew lru 4 2 2 tab 0,1", "set 1 1 1", "set 5 1 1", "clear", "keys"),
	)
	return out
}

type gen struct {
	r    *rng.R
	line int
	lru  bool // sized cache: values are sized, so a value may be nil or have a Size() that panics
}

func (g *gen) size(capacity int) int {
	switch g.r.Intn(10) {
	case 0:
		return 0
	case 1:
		return capacity // exactly the capacity
	case 2:
		return capacity + 1 + g.r.Intn(3) // larger than the whole cache
	case 3, 4:
		return g.r.Range(0, 9)
	default:
		return g.r.Range(1, 3)
	}
}

func (g *gen) op(keys, capacity int) string {
	g.line++
	k := g.r.Intn(keys)
	v := g.line
	x := g.r.Intn(100)
	if g.lru && x < 48 && g.r.Chance(1, 12) {
		// the store fails while sizing the value: Size() panics, or the value is nil
		op := g.r.Pick("set", "sgr", "sia")
		if g.r.Bool() {
			return fmt.Sprintf("%s %d %d p", op, k, v)
		}
		return fmt.Sprintf("%s %d 0 %d", op, k, g.r.Range(0, 3))
	}
	switch {
	case x < 26:
		return fmt.Sprintf("set %d %d %d", k, v, g.size(capacity))
	case x < 38:
		return fmt.Sprintf("sgr %d %d %d", k, v, g.size(capacity))
	case x < 48:
		return fmt.Sprintf("sia %d %d %d", k, v, g.size(capacity))
	case x < 62:
		return fmt.Sprintf("get %d", k)
	case x < 69:
		return fmt.Sprintf("peek %d", k)
	case x < 73:
		return fmt.Sprintf("exist %d", k)
	case x < 82:
		return fmt.Sprintf("del %d", k)
	case x < 84:
		return "clear"
	case x < 91:
		return fmt.Sprintf("cap %d", g.r.Range(0, 12))
	case x < 94:
		return "keys"
	case x < 97:
		return "items"
	default:
		return "stats"
	}
}

func genCase(r *rng.R, tier string, i int) corr.Case {
	g := &gen{r: r}
	kd := r.Pick("lru", "lru", "tiny")
	g.lru = kd == "lru"
	capacity := r.Range(0, 12)
	n := r.Range(8, 40)
	if tier != "quick" {
		n = r.Range(8, 90)
	}
	cls := r.Intn(100)
	if tier != "quick" && (cls == 85 || (cls >= 75 && cls < 78)) && !r.Chance(1, 5) {
		cls = 0 // very long lists and child-process stress runs keep roughly their absolute number in the big tiers
	}
	switch {
	case cls < 40: // mixed
		lines := []string{fmt.Sprintf("new %s %d", kd, capacity)}
		for j := 0; j < n; j++ {
			lines = append(lines, g.op(6, capacity))
		}
		return corr.Case{Tag: "mixed-" + kd, Lines: lines}
	case cls < 48: // fill to the brim with unit items, then probe the boundary
		lines := []string{fmt.Sprintf("new %s %d", kd, capacity)}
		for j := 0; j < capacity+2; j++ {
			g.line++
			lines = append(lines, fmt.Sprintf("set %d %d 1", j%8, g.line))
			if r.Chance(1, 3) {
				lines = append(lines, fmt.Sprintf("%s %d", r.Pick("get", "peek", "exist"), r.Intn(8)))
			}
		}
		for j := 0; j < n/2; j++ {
			lines = append(lines, g.op(8, capacity))
		}
		return corr.Case{Tag: "brim-" + kd, Lines: lines}
	case cls < 56: // many small entries, then SetCapacity shrinking by several entries at once
		big := r.Range(8, 30)
		lines := []string{fmt.Sprintf("new %s %d", kd, big)}
		for j := 0; j < 10; j++ {
			g.line++
			lines = append(lines, fmt.Sprintf("set %d %d %d", j, g.line, r.Range(0, 3)))
		}
		for j := 0; j < 4; j++ {
			lines = append(lines, fmt.Sprintf("get %d", r.Intn(10)))
		}
		for big > 0 {
			big -= r.Range(1, 9)
			if big < 0 {
				big = 0
			}
			lines = append(lines, fmt.Sprintf("cap %d", big), g.op(10, big))
		}
		return corr.Case{Tag: "shrink-" + kd, Lines: lines}
	case cls < 63: // in-place growth
		lines := []string{fmt.Sprintf("new %s %d", kd, capacity)}
		for j := 0; j < n; j++ {
			g.line++
			k := r.Intn(4)
			lines = append(lines, fmt.Sprintf("%s %d %d %d", r.Pick("set", "sgr", "set", "sia"), k, g.line, r.Range(0, capacity+2)))
			if r.Chance(1, 4) {
				lines = append(lines, g.op(4, capacity))
			}
		}
		return corr.Case{Tag: "growth-" + kd, Lines: lines}
	case cls < 75: // wide variants
		shards := r.PickInt(1, 2, 3, 5, 7)
		u := 8
		capacity = r.Range(0, 14)
		head := fmt.Sprintf("wnew %s %d %d %d mod", kd, capacity, shards, u)
		tag := "wide-mod-" + kd
		if r.Chance(1, 6) {
			// construction order: a wide cache configured WithPrime(p) first, then one built with NO option — it must have the
			// default 73 shards (keys 0…11 each alone in a shard, per-shard capacity cap/73+1), not p
			c2 := r.Range(0, 150)
			lines := []string{head, fmt.Sprintf("set 1 %d 1", 900001), fmt.Sprintf("wnew %s %d 73 12 dmod", kd, c2)}
			per2 := c2/73 + 1
			for j := 0; j < n; j++ {
				g.line++
				k := r.Intn(12)
				switch x := r.Intn(10); {
				case x < 6:
					lines = append(lines, fmt.Sprintf("set %d %d %d", k, g.line, r.Range(0, per2)))
				case x < 8:
					lines = append(lines, fmt.Sprintf("get %d", k))
				case x < 9:
					lines = append(lines, fmt.Sprintf("del %d", k))
				default:
					lines = append(lines, fmt.Sprintf("exist %d", k))
				}
			}
			return corr.Case{Tag: "wide-default-after-configured-" + kd, Lines: lines}
		}
		if x := r.Intn(3); x > 0 {
			// table routing: keys of every type remap supports (negative ints, int64/uint64 extremes, short and long
			// strings); the shard of each key is read from the real remap package (simple or xxhash route)
			u = 12
			rm := remap.NewReMap(remap.WithPrime(uint64(shards)))
			var tab []string
			for k := 0; k < u; k++ {
				idx := 0
				func() {
					defer func() { _ = recover() }()
					if x == 1 {
						idx = rm.XHashIndex(wideKey(k))
					} else {
						idx = rm.SimpleIndex(wideKey(k))
					}
				}()
				if idx < 0 || idx >= shards {
					idx = 0 // an index outside the shard slice: the script keeps a legal table, the wide cache itself will panic on that key
				}
				tab = append(tab, strconv.Itoa(idx))
			}
			mode := "tab"
			tag = "wide-xhash-" + kd
			if x == 2 {
				mode, tag = "tabs", "wide-simple-"+kd
			}
			head = fmt.Sprintf("wnew %s %d %d %d %s %s", kd, capacity, shards, u, mode, strings.Join(tab, ","))
		}
		lines := []string{head}
		per := capacity/shards + 1
		for j := 0; j < n; j++ {
			g.line++
			k := r.Intn(u)
			switch x := r.Intn(10); {
			case x < 5:
				lines = append(lines, fmt.Sprintf("set %d %d %d", k, g.line, g.size(per)))
			case x < 7:
				lines = append(lines, fmt.Sprintf("get %d", k))
			case x < 8:
				lines = append(lines, fmt.Sprintf("peek %d", k))
			case x < 9:
				lines = append(lines, fmt.Sprintf("del %d", k))
			default:
				lines = append(lines, fmt.Sprintf("exist %d", k))
			}
		}
		return corr.Case{Tag: tag, Lines: lines}
	case cls < 78: // concurrent callers: parallel stress run in a child process
		lines := []string{fmt.Sprintf("new %s %d", kd, capacity)}
		if r.Chance(1, 3) {
			lines = []string{fmt.Sprintf("wnew %s %d %d 8 mod", kd, capacity, r.PickInt(1, 2, 3, 5))}
		} else {
			for j := 0; j < 5; j++ {
				lines = append(lines, g.op(6, capacity))
			}
		}
		ops := 200
		if tier != "quick" {
			ops = 1500
		}
		lines = append(lines, fmt.Sprintf("conc %d %d %d", r.Intn(100000), r.Range(2, 8), ops))
		return corr.Case{Tag: "concurrent-" + kd, Lines: lines}
	case cls == 85: // very long lists (Keys/Items/removed list far beyond 256 entries; lengths also taken from the source's own constants)
		lens := []int{257, 300, 301, 600, 1200}
		for _, c := range minedConstants() {
			if c >= 14 && c <= 3000 {
				lens = append(lens, int(c)+1, int(c)+5)
			}
		}
		length := lens[r.Intn(len(lens))]
		lines := []string{fmt.Sprintf("new %s %d", kd, length+r.Intn(3)), fmt.Sprintf("fill 0 %d 1", length)}
		for j := 0; j < 14; j++ {
			k := r.Intn(length + 3)
			g.line++
			switch r.Intn(8) {
			case 0, 1:
				lines = append(lines, fmt.Sprintf("del %d", k))
			case 2:
				lines = append(lines, fmt.Sprintf("peek %d", k))
			case 3:
				lines = append(lines, fmt.Sprintf("get %d", k))
			case 4:
				lines = append(lines, fmt.Sprintf("set %d %d 1", length+10+j, 200000+g.line))
			case 5:
				lines = append(lines, "keys")
			case 6:
				lines = append(lines, "items")
			default:
				lines = append(lines, fmt.Sprintf("exist %d", k))
			}
		}
		// one store that evicts most of the list: the removed list has hundreds of entries
		if kd == "lru" {
			lines = append(lines, fmt.Sprintf("sgr %d %d %d", length+50, 300000, length-r.Range(5, 20)))
		} else {
			lines = append(lines, fmt.Sprintf("cap %d", r.Range(3, 9)))
		}
		lines = append(lines, "stats")
		return corr.Case{Tag: "xlong-" + kd, Lines: lines}
	case cls < 86: // long lists (Delete / Peek / Get far beyond a dozen or 64 entries), unit-ish sizes
		capacity = r.Range(14, 160)
		lines := []string{fmt.Sprintf("new %s %d", kd, capacity)}
		keys := capacity + r.Range(2, 20)
		for j := 0; j < capacity+5; j++ {
			g.line++
			lines = append(lines, fmt.Sprintf("set %d %d %d", j%keys, g.line, r.PickInt(1, 1, 1, 0, 2)))
		}
		for j := 0; j < n; j++ {
			k := r.Intn(keys)
			switch r.Intn(8) {
			case 0, 1:
				lines = append(lines, fmt.Sprintf("del %d", k))
			case 2, 3:
				lines = append(lines, fmt.Sprintf("peek %d", k))
			case 4:
				lines = append(lines, fmt.Sprintf("get %d", k))
			case 5:
				lines = append(lines, fmt.Sprintf("exist %d", k))
			case 6:
				g.line++
				lines = append(lines, fmt.Sprintf("%s %d %d 1", r.Pick("set", "sia", "sgr"), k, g.line))
			default:
				lines = append(lines, r.Pick("stats", "cap "+fmt.Sprint(r.Range(10, 200))))
			}
		}
		return corr.Case{Tag: "long-" + kd, Lines: lines}
	case cls < 94: // large capacities and sizes (2^20 … MaxInt64/2), nil key, nil values, keys of every Go type
		big := []int64{1 << 20, 1<<20 + 1, 1<<21 + 3, 1 << 31, 1<<32 + 7, 1 << 40, 1<<62 - 1, 1 << 62, math.MaxInt64}
		for _, c := range minedConstants() {
			if c > 64 {
				big = append(big, c, c+1) // thresholds written into the source are boundary values worth probing
			}
		}
		c0 := big[r.Intn(len(big))]
		lines := []string{fmt.Sprintf("new %s %d", kd, c0)}
		cur := c0
		for j := 0; j < n; j++ {
			g.line++
			k := r.PickInt(0, 1, 2, 3, 4, 5, nilKey, 70001, 65540)
			v := g.line
			if kd == "tiny" && r.Chance(1, 4) {
				v = 0 // nil value
			}
			switch r.Intn(9) {
			case 0, 1, 2:
				sz := []int64{0, 1, cur / 2, cur/2 + 1, cur - 1, cur, 1 << 20, 1 << 31}[r.Intn(8)]
				if sz < 0 {
					sz = 0
				}
				if cur > 1<<62 && sz > 1<<61 {
					sz = 1 << 61 // keep the sum inside int64 here; the overflow has its own fixed scripts
				}
				lines = append(lines, fmt.Sprintf("%s %d %d %d", r.Pick("set", "sgr", "sia"), k, v, sz))
			case 3:
				cur = big[r.Intn(len(big))]
				lines = append(lines, fmt.Sprintf("cap %d", cur))
			case 4:
				lines = append(lines, fmt.Sprintf("get %d", k))
			case 5:
				lines = append(lines, fmt.Sprintf("exist %d", k))
			case 6:
				lines = append(lines, fmt.Sprintf("del %d", k))
			case 7:
				lines = append(lines, fmt.Sprintf("peek %d", k))
			default:
				lines = append(lines, "stats")
			}
		}
		return corr.Case{Tag: "bigcap-" + kd, Lines: lines}
	default: // malformed / out of regime
		lines := []string{fmt.Sprintf("new %s %d", kd, r.Range(-2, 6))}
		for j := 0; j < n; j++ {
			switch r.Intn(8) {
			case 0:
				lines = append(lines, r.Pick("set 1 2", "get", "frob 1", "set x 1 1", "cap", "del 1 2", "set 1 1 1.5", "peek -1", "cap 1e3", "keys 1"))
			case 1:
				g.line++
				lines = append(lines, fmt.Sprintf("%s %d %d %d", r.Pick("set", "sgr", "sia"), r.Intn(4), g.line, -r.Range(1, 4)))
			case 2:
				lines = append(lines, fmt.Sprintf("cap %d", -r.Range(1, 3)))
			default:
				lines = append(lines, g.op(4, 4))
			}
		}
		return corr.Case{Tag: "malformed", Lines: lines}
	}
}

func spec() corr.Spec {
	return corr.Spec{
		Property: "C04",
		Fixed:    fixedCases,
		Count: func(tier string) int {
			switch tier {
			case "quick":
				return 4000
			case "thorough":
				return 60000
			}
			return 60000
		},
		// independent scripts: spread them over child processes (the lock scripts of C17 are scheduler-driven and cannot
		// share a process; for both properties it keeps a run through the failing-input search well under two minutes)
		Shards: func(tier string) int {
			if tier == "quick" {
				return 4
			}
			return 10
		},
		Gen: genCase,
		Run: runCase,
		NonTrivial: func(c corr.Case, r corr.Result) bool {
			// at least one eviction or removal reported, or a wide/concurrent script
			if strings.HasPrefix(c.Lines[0], "wnew") {
				return len(c.Lines) > 3
			}
			for _, o := range r.Outs {
				if i := strings.LastIndex(o, ","); i >= 0 && strings.Contains(o, " S=") && o[i+1:] != "0" {
					return true
				}
				if o == "inv-ok" {
					return true
				}
			}
			return false
		},
		Rule: "scripts of 8-200 operations (Set, SetIfAbsent, SetAndGetRemoved, Get, Peek, Exist, Delete, Clear, SetCapacity, Keys, Items, Stats) on cache.LRUCache and tiny.LRUCache; keys of six Go types plus the nil key, nil values (tiny); classes: mixed (4-10 keys, sizes 0..capacity+3, capacities 0..30), brim, shrink, growth, long (lists of 14-180 entries), bigcap (capacities and sizes 2^20..2^62 and MaxInt64), wide (four constructors, mod and xxhash routing, 1-7 shards, Peek listing after every call), concurrent (child process: 2-8 goroutines, single and wide caches, invariants at quiescence), malformed / negative sizes; every result line carries Keys(), Items() with sizes, Stats() and Length()/Size()/Capacity()/Evictions(); non-trivial = at least one eviction happened, or a wide script of > 2 operations",
		Assumptions: []string{
			"container/list and the Go map behave as specified (list+table are modelled as one association list in recency order)",
			"RESTRICTION of the property's quantifier: the theorems cover sizes and capacities in [0, 2^62); beyond it the int64 size counter wraps (modelled; Lean witness_size_counter_overflow; monitor C04:cache.LRUCache:size-counter-overflows)",
			"keys compare with a reflexive == (NaN-like keys are outside, as for any Go map)",
			"concurrent callers: every public method is pinned by its whole canonical body, which begins with mu.Lock(); defer mu.Unlock() and never unlocks in between, so any interleaving is a sequence of atomic operations; sync.Mutex is trusted; lru_concurrent_callers adds nothing beyond the sequential theorem applied to the linearisation; the parallel stress class checks invariants at quiescence only",
			"wide variants: the shard of a key is the routing function of C17 (k % n for int keys under SimpleIndex; the xxhash route is read from the real remap package into the script)",
		},
		Trusted: []string{"container/list, Go maps, sync.Mutex (modelled, not verified)", "go/lib/c17syn (kernel fragments lifted from newWideLRUCache)"},
		Classify: func(c corr.Case, line int, want, got string) string {
			pkg := "cache.LRUCache"
			head := strings.Fields(c.Lines[0])
			if len(head) > 1 && head[1] == "tiny" {
				pkg = "tiny.LRUCache"
			}
			if len(head) > 0 && head[0] == "wnew" {
				pkg = strings.Replace(pkg, "LRUCache", "WideLRUCache", 1)
			}
			f := strings.Fields(c.Lines[line])
			m := "?"
			if len(f) > 0 {
				if mm, ok := methodOf[f[0]]; ok {
					m = mm
				} else {
					m = f[0]
				}
			}
			return "C04:" + pkg + ":" + m + ":differs-from-model"
		},
	}
}

// minedConstants: the integer literals that occur in the source of the packages under test (found through the file
// path the compiler recorded for cache.NewLRUCache). They steer the generator to thresholds an edit may introduce
// ("refuse above 300 entries", "clamp at 1<<20"): a dictionary, as fuzzers use; nothing is decided by them.
var minedOnce sync.Once
var mined []int64

func minedConstants() []int64 {
	minedOnce.Do(func() {
		file, _ := runtime.FuncForPC(reflect.ValueOf(cache.NewLRUCache).Pointer()).FileLine(0)
		dir := filepath.Dir(file)
		seen := map[int64]bool{}
		for _, d := range []string{dir, filepath.Join(dir, "tiny"), filepath.Join(filepath.Dir(dir), "remap")} {
			ents, _ := os.ReadDir(d)
			for _, e := range ents {
				if e.IsDir() || !strings.HasSuffix(e.Name(), ".go") || strings.HasSuffix(e.Name(), "_test.go") {
					continue
				}
				f, err := parser.ParseFile(token.NewFileSet(), filepath.Join(d, e.Name()), nil, 0)
				if err != nil {
					continue
				}
				ast.Inspect(f, func(n ast.Node) bool {
					if bl, ok := n.(*ast.BasicLit); ok && bl.Kind == token.INT {
						if v, err := strconv.ParseInt(bl.Value, 0, 64); err == nil && v >= 2 && !seen[v] {
							seen[v] = true
							mined = append(mined, v)
						}
					}
					if be, ok := n.(*ast.BinaryExpr); ok && be.Op == token.SHL {
						// 1 << 20 and the like
						if a, ok1 := be.X.(*ast.BasicLit); ok1 {
							if b, ok2 := be.Y.(*ast.BasicLit); ok2 {
								x, e1 := strconv.ParseInt(a.Value, 0, 64)
								y, e2 := strconv.ParseInt(b.Value, 0, 64)
								if e1 == nil && e2 == nil && y >= 0 && y < 62 && x > 0 && x < 4 && !seen[x<<uint(y)] {
									seen[x<<uint(y)] = true
									mined = append(mined, x<<uint(y))
								}
							}
						}
					}
					return true
				})
			}
		}
		sort.Slice(mined, func(i, j int) bool { return mined[i] < mined[j] })
	})
	return mined
}
